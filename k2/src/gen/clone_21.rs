// clone_21
#![allow(dead_code, unused_variables, unused_mut, unused_imports, non_shorthand_field_patterns, clippy::all)]
use crate::support::*;
use educe::Educe;
use core::cmp::Ordering;
#[derive(Educe)]
#[educe(Clone, Copy)]
pub enum T { Unit { y: C<0> }, C { source: C<0> }, None(#[educe(Clone(method("m_clone_c")))] C<0>, C<0>, C<0>), A }
pub fn values() -> Vec<T> { vec![T::Unit { y: C(0) }, T::Unit { y: C(1) }, T::Unit { y: C(2) }, T::C { source: C(0) }, T::C { source: C(1) }, T::C { source: C(2) }, T::None(C(0), C(2), C(2)), T::None(C(1), C(1), C(1)), T::None(C(1), C(0), C(1)), T::None(C(2), C(1), C(2)), T::None(C(2), C(0), C(1)), T::A] }
pub fn show(x: &T) -> String { #[allow(unused_variables)] match x { T::Unit { y: p0 } => format!("Unit({})", sv(p0)), T::C { source: p0 } => format!("C({})", sv(p0)), T::None(p0, p1, p2) => format!("None({},{},{})", sv(p0), sv(p1), sv(p2)), T::A => format!("A()") } }
pub fn o_clone(x: &T) -> T { match x { T::Unit { y: p0 } => T::Unit { y: C(p0.0) }, T::C { source: p0 } => T::C { source: C(p0.0) }, T::None(p0, p1, p2) => T::None(C(p0.0.wrapping_add(50)), C(p1.0), C(p2.0)), T::A => T::A } }
pub fn o_log(x: &T) -> Vec<String> { match x { T::Unit { y: p0 } => vec![format!("clone C{} {}", p0.k(), p0.0)], T::C { source: p0 } => vec![format!("clone C{} {}", p0.k(), p0.0)], T::None(p0, p1, p2) => vec![format!("m_clone C{} {}", p0.k(), p0.0), format!("clone C{} {}", p1.k(), p1.0), format!("clone C{} {}", p2.k(), p2.0)], T::A => vec![] } }
pub fn run(out: &mut Out) { let vs = values(); for a in &vs { let _ = take_log(); let g = ::core::clone::Clone::clone(a); let l = take_log(); let e = o_clone(a); out.check(show(&g) == show(&e), "clone_21", "clone", || format!("clone({}) = {} expected {}", show(a), show(&g), show(&e))); let el = o_log(a); out.check(l == el, "clone_21", "clone_calls", || format!("clone({}) called {:?} expected {:?}", show(a), l, el)); } let n = vs.len(); for i in 0..n { for j in 0..n { let mut x = values().swap_remove(i); let shown = show(&x); ::core::clone::Clone::clone_from(&mut x, &vs[j]); let e = o_clone(&vs[j]); out.check(show(&x) == show(&e), "clone_21", "clone_from", || format!("{}.clone_from({}) = {} expected {}", shown, show(&vs[j]), show(&x), show(&e))); } }  fn is_copy<X: Copy>() {} is_copy::<T>(); }
