// eq_145
#![allow(dead_code, unused_variables, unused_mut, unused_imports, non_shorthand_field_patterns, clippy::all)]
use crate::support::*;
use educe::Educe;
use core::cmp::Ordering;
#[derive(Educe)]
#[educe(PartialEq)]
#[educe(Eq)]
pub enum T { C(#[educe(PartialEq(method = "m_eq"))] A<0>, A<0>, #[educe(PartialEq(method = "m_eq"))] A<2>, A<3>) }
pub fn values() -> Vec<T> { vec![T::C(A(0), A(0), A(1), A(1)), T::C(A(0), A(7), A(7), A(0)), T::C(A(1), A(1), A(1), A(7)), T::C(A(1), A(0), A(7), A(1)), T::C(A(7), A(7), A(7), A(1)), T::C(A(7), A(1), A(1), A(1)), T::C(A(7), A(0), A(0), A(1)), T::C(A(0), A(7), A(0), A(0)), T::C(A(1), A(1), A(1), A(0)), T::C(A(1), A(1), A(7), A(7)), T::C(A(7), A(0), A(7), A(0)), T::C(A(7), A(7), A(7), A(7)), T::C(A(7), A(7), A(0), A(1)), T::C(A(0), A(0), A(0), A(0)), T::C(A(0), A(1), A(1), A(1)), T::C(A(7), A(1), A(1), A(7)), T::C(A(7), A(7), A(0), A(7)), T::C(A(1), A(7), A(7), A(1)), T::C(A(0), A(1), A(1), A(7)), T::C(A(0), A(1), A(0), A(7)), T::C(A(7), A(0), A(1), A(1)), T::C(A(0), A(1), A(7), A(0)), T::C(A(0), A(0), A(7), A(1)), T::C(A(7), A(7), A(1), A(7)), T::C(A(1), A(0), A(0), A(7)), T::C(A(7), A(1), A(1), A(0)), T::C(A(1), A(7), A(1), A(7)), T::C(A(0), A(1), A(0), A(1)), T::C(A(1), A(7), A(0), A(7)), T::C(A(0), A(0), A(0), A(7)), T::C(A(7), A(1), A(0), A(7)), T::C(A(1), A(7), A(0), A(1)), T::C(A(1), A(1), A(7), A(1)), T::C(A(7), A(0), A(0), A(7)), T::C(A(0), A(0), A(0), A(1)), T::C(A(1), A(7), A(7), A(7)), T::C(A(0), A(1), A(7), A(7)), T::C(A(1), A(1), A(7), A(0)), T::C(A(0), A(1), A(1), A(0)), T::C(A(7), A(1), A(7), A(7)), T::C(A(1), A(1), A(0), A(0)), T::C(A(0), A(7), A(0), A(1)), T::C(A(1), A(1), A(1), A(1)), T::C(A(1), A(1), A(0), A(7)), T::C(A(1), A(0), A(0), A(1)), T::C(A(0), A(7), A(1), A(0)), T::C(A(1), A(0), A(0), A(0)), T::C(A(7), A(7), A(7), A(0))] }
pub fn show(x: &T) -> String { #[allow(unused_variables)] match x { T::C(p0, p1, p2, p3) => format!("C({},{},{},{})", sv(p0), sv(p1), sv(p2), sv(p3)) } }
pub fn o_eq(a: &T, b: &T) -> bool { match (a, b) { (T::C(a0, a1, a2, a3), T::C(b0, b1, b2, b3)) => m_eq(a0, b0) && (a1 == b1) && m_eq(a2, b2) && (a3 == b3) } }
pub fn run(out: &mut Out) { let vs = values(); for a in &vs { for b in &vs { let e = o_eq(a, b); out.check((a == b) == e, "eq_145", "eq", || format!("{} == {} expected {}", show(a), show(b), e)); out.check((a != b) == !e, "eq_145", "ne", || format!("{} != {} expected {}", show(a), show(b), !e)); } } }
