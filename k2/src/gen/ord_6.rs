// ord_6
#![allow(dead_code, unused_variables, unused_mut, unused_imports, non_shorthand_field_patterns, clippy::all)]
use crate::support::*;
use educe::Educe;
use core::cmp::Ordering;
#[derive(Educe)]
#[repr(i32)]
#[educe(Eq, Ord, PartialEq)]
pub enum T { B(#[educe(Ord(rank = 0x1, method(m_cmp)))] A<0>, #[educe(Ord(method(m_cmp)))] A<1>) = -1, Some() = 1000 }
impl PartialOrd for T { fn partial_cmp(&self, o: &Self) -> Option<Ordering> { Some(::core::cmp::Ord::cmp(self, o)) } }
pub fn values() -> Vec<T> { vec![T::B(A(0), A(0)), T::B(A(0), A(1)), T::B(A(0), A(7)), T::B(A(1), A(0)), T::B(A(1), A(1)), T::B(A(1), A(7)), T::B(A(7), A(0)), T::B(A(7), A(1)), T::B(A(7), A(7)), T::Some()] }
pub fn show(x: &T) -> String { #[allow(unused_variables)] match x { T::B(p0, p1) => format!("B({},{})", sv(p0), sv(p1)), T::Some() => format!("Some()") } }
pub fn o_disc(x: &T) -> i128 { match x { T::B(_, _) => -1, T::Some() => 1000 } }
pub fn o_cmp(a: &T, b: &T) -> Ordering { match (a, b) { (T::B(a0, a1), T::B(b0, b1)) => { let c = m_cmp(a1, b1); if c != Ordering::Equal { return c; } let c = m_cmp(a0, b0); if c != Ordering::Equal { return c; } Ordering::Equal }, (T::Some(), T::Some()) => {  Ordering::Equal }, _ => o_disc(a).cmp(&o_disc(b)) } }
pub fn run(out: &mut Out) { let vs = values(); for (i, a) in vs.iter().enumerate() { for (j, b) in vs.iter().enumerate() { let e = o_cmp(a, b); let g = ::core::cmp::Ord::cmp(a, b); out.check(g == e, "ord_6", "cmp", || format!("cmp({}, {}) = {:?} expected {:?}", show(a), show(b), g, e)); } } }
