// ord_6
#![allow(dead_code, unused_variables, unused_mut, unused_imports, non_shorthand_field_patterns, clippy::all)]
use crate::support::*;
use core::cmp::Ordering;
pub mod ty {
    #![deny(warnings)]
    #![allow(dead_code, unused_imports, non_snake_case)]
    use crate::support::{A, B, C, Good, Bad, m_eq, m_cmp, m_pcmp, m_hash, m_fmt, m_clone, m_clone_c, m_into, g_eq, g_cmp, g_pcmp, g_hash, g_fmt};
    use educe::Educe;
#[derive(Educe)]
#[educe(Ord, Eq, PartialOrd, PartialEq)]
#[educe(Debug)]
pub struct T { #[educe(Debug = false, PartialOrd(rank = "-6"))] pub size: A<0>, #[educe(PartialOrd(ignore(false), rank("-5")))] pub other: A<1>, #[educe(PartialOrd(ignore = false))] pub a: A<0>, #[educe(PartialOrd(rank = -2))] pub r#type: A<3> }
}
pub use ty::T;

pub fn values() -> Vec<T> { vec![T { size: A(0), other: A(0), a: A(0), r#type: A(7) }, T { size: A(0), other: A(0), a: A(7), r#type: A(7) }, T { size: A(7), other: A(0), a: A(1), r#type: A(0) }, T { size: A(7), other: A(0), a: A(1), r#type: A(7) }, T { size: A(0), other: A(7), a: A(7), r#type: A(1) }, T { size: A(7), other: A(0), a: A(0), r#type: A(1) }, T { size: A(7), other: A(1), a: A(1), r#type: A(7) }, T { size: A(1), other: A(7), a: A(7), r#type: A(0) }, T { size: A(7), other: A(7), a: A(7), r#type: A(7) }, T { size: A(1), other: A(0), a: A(1), r#type: A(1) }, T { size: A(1), other: A(1), a: A(1), r#type: A(7) }, T { size: A(1), other: A(7), a: A(0), r#type: A(7) }, T { size: A(1), other: A(0), a: A(1), r#type: A(0) }, T { size: A(0), other: A(7), a: A(0), r#type: A(0) }, T { size: A(0), other: A(1), a: A(0), r#type: A(7) }, T { size: A(0), other: A(7), a: A(1), r#type: A(7) }, T { size: A(0), other: A(0), a: A(0), r#type: A(1) }, T { size: A(0), other: A(0), a: A(1), r#type: A(7) }, T { size: A(1), other: A(0), a: A(0), r#type: A(7) }, T { size: A(7), other: A(7), a: A(1), r#type: A(7) }, T { size: A(0), other: A(1), a: A(1), r#type: A(0) }, T { size: A(7), other: A(1), a: A(7), r#type: A(1) }, T { size: A(1), other: A(1), a: A(1), r#type: A(1) }, T { size: A(1), other: A(1), a: A(0), r#type: A(0) }, T { size: A(7), other: A(7), a: A(0), r#type: A(7) }, T { size: A(1), other: A(0), a: A(7), r#type: A(1) }, T { size: A(1), other: A(1), a: A(1), r#type: A(0) }, T { size: A(7), other: A(0), a: A(7), r#type: A(1) }, T { size: A(7), other: A(0), a: A(7), r#type: A(0) }, T { size: A(7), other: A(7), a: A(0), r#type: A(1) }, T { size: A(0), other: A(1), a: A(0), r#type: A(1) }, T { size: A(0), other: A(7), a: A(1), r#type: A(0) }, T { size: A(0), other: A(0), a: A(7), r#type: A(0) }, T { size: A(7), other: A(7), a: A(7), r#type: A(1) }, T { size: A(7), other: A(7), a: A(7), r#type: A(0) }, T { size: A(1), other: A(1), a: A(0), r#type: A(7) }] }
pub fn show(x: &T) -> String { #[allow(unused_variables)] match x { T { size: p0, other: p1, a: p2, r#type: p3 } => format!("T({},{},{},{})", sv(p0), sv(p1), sv(p2), sv(p3)) } }
pub fn o_disc(x: &T) -> i128 { match x { T { size: _, other: _, a: _, r#type: _ } => 0 } }
pub fn o_cmp(a: &T, b: &T) -> Ordering { match (a, b) { (T { size: a0, other: a1, a: a2, r#type: a3 }, T { size: b0, other: b1, a: b2, r#type: b3 }) => { let c = ::core::cmp::Ord::cmp(a2, b2); if c != Ordering::Equal { return c; } let c = ::core::cmp::Ord::cmp(a0, b0); if c != Ordering::Equal { return c; } let c = ::core::cmp::Ord::cmp(a1, b1); if c != Ordering::Equal { return c; } let c = ::core::cmp::Ord::cmp(a3, b3); if c != Ordering::Equal { return c; } Ordering::Equal } } }
pub fn run(out: &mut Out) { let vs = values(); for (i, a) in vs.iter().enumerate() { for (j, b) in vs.iter().enumerate() { let e = o_cmp(a, b); let g = ::core::cmp::Ord::cmp(a, b); out.check(g == e, "ord_6", "cmp", || format!("cmp({}, {}) = {:?} expected {:?}", show(a), show(b), g, e)); let g2 = ::core::cmp::PartialOrd::partial_cmp(a, b); out.check(g2 == Some(e), "ord_6", "partial_is_some_cmp", || format!("partial_cmp({}, {}) = {:?} expected Some({:?})", show(a), show(b), g2, e)); } } }
