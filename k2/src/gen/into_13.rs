// into_13
#![allow(dead_code, unused_variables, unused_mut, unused_imports, non_shorthand_field_patterns, clippy::all)]
use crate::support::*;
use educe::Educe;
use core::cmp::Ordering;
#[derive(Educe)]
#[educe(Into(B<1>))]
pub enum T { Zed(#[educe(Into(B<1>, method(m_into)))] A<2>, A<0>), A { x: A<3>, #[educe(Into(B<1>))] y: A<3> }, B(A<0>, #[educe(Into(B<1>, method = m_into))] A<2>), C { builder: A<1>, #[educe(Into(B<1>, method(m_into)))] data: A<2> } }
pub fn values() -> Vec<T> { vec![T::Zed(A(7), A(7)), T::Zed(A(1), A(0)), T::Zed(A(1), A(1)), T::A { x: A(7), y: A(1) }, T::A { x: A(0), y: A(1) }, T::A { x: A(1), y: A(1) }, T::B(A(1), A(1)), T::B(A(0), A(1)), T::B(A(1), A(7)), T::C { builder: A(0), data: A(0) }, T::C { builder: A(7), data: A(7) }, T::C { builder: A(1), data: A(1) }] }
pub fn show(x: &T) -> String { #[allow(unused_variables)] match x { T::Zed(p0, p1) => format!("Zed({},{})", sv(p0), sv(p1)), T::A { x: p0, y: p1 } => format!("A({},{})", sv(p0), sv(p1)), T::B(p0, p1) => format!("B({},{})", sv(p0), sv(p1)), T::C { builder: p0, data: p1 } => format!("C({},{})", sv(p0), sv(p1)) } }
pub fn o_into_0(x: T) -> B<1> { match x { T::Zed(p0, _) => m_into(p0), T::A { x: _, y: p1 } => ::core::convert::Into::into(p1), T::B(_, p1) => m_into(p1), T::C { builder: _, data: p1 } => m_into(p1) } }
pub fn run(out: &mut Out) { let n = values().len(); for i in 0..n { let a = values().swap_remove(i); let shown = show(&a); let g: B<1> = ::core::convert::Into::into(a); let e = o_into_0(values().swap_remove(i)); out.check(sv(&g) == sv(&e), "into_13", "into", || format!("Into::<B<1>>::into({}) = {} expected {}", shown, sv(&g), sv(&e))); } }
