// eq_50
#![allow(dead_code, unused_variables, unused_mut, unused_imports, non_shorthand_field_patterns, clippy::all)]
use crate::support::*;
use educe::Educe;
use core::cmp::Ordering;
#[derive(Educe)]
#[educe(PartialEq)]
pub enum T { C(#[educe(PartialEq = false)] A<0>, A<1>), Zed(A<0>), B { arg: A<0>, a: A<0>, #[educe(PartialEq(method = m_eq))] r#type: A<0> } }
pub fn values() -> Vec<T> { vec![T::C(A(0), A(0)), T::C(A(0), A(1)), T::C(A(0), A(7)), T::C(A(1), A(0)), T::C(A(1), A(1)), T::C(A(1), A(7)), T::C(A(7), A(0)), T::C(A(7), A(1)), T::C(A(7), A(7)), T::Zed(A(0)), T::Zed(A(1)), T::Zed(A(7)), T::B { arg: A(7), a: A(7), r#type: A(7) }, T::B { arg: A(1), a: A(0), r#type: A(7) }, T::B { arg: A(7), a: A(0), r#type: A(7) }, T::B { arg: A(1), a: A(1), r#type: A(1) }, T::B { arg: A(7), a: A(7), r#type: A(1) }, T::B { arg: A(0), a: A(7), r#type: A(7) }, T::B { arg: A(7), a: A(1), r#type: A(1) }, T::B { arg: A(7), a: A(7), r#type: A(0) }, T::B { arg: A(7), a: A(0), r#type: A(1) }, T::B { arg: A(1), a: A(7), r#type: A(7) }, T::B { arg: A(7), a: A(1), r#type: A(7) }, T::B { arg: A(0), a: A(0), r#type: A(1) }, T::B { arg: A(0), a: A(0), r#type: A(0) }, T::B { arg: A(0), a: A(1), r#type: A(7) }, T::B { arg: A(0), a: A(7), r#type: A(0) }, T::B { arg: A(1), a: A(1), r#type: A(7) }] }
pub fn show(x: &T) -> String { #[allow(unused_variables)] match x { T::C(p0, p1) => format!("C({},{})", sv(p0), sv(p1)), T::Zed(p0) => format!("Zed({})", sv(p0)), T::B { arg: p0, a: p1, r#type: p2 } => format!("B({},{},{})", sv(p0), sv(p1), sv(p2)) } }
pub fn o_eq(a: &T, b: &T) -> bool { match (a, b) { (T::C(a0, a1), T::C(b0, b1)) => (a1 == b1), (T::Zed(a0), T::Zed(b0)) => (a0 == b0), (T::B { arg: a0, a: a1, r#type: a2 }, T::B { arg: b0, a: b1, r#type: b2 }) => (a0 == b0) && (a1 == b1) && m_eq(a2, b2), _ => false } }
pub fn run(out: &mut Out) { let vs = values(); for a in &vs { for b in &vs { let e = o_eq(a, b); out.check((a == b) == e, "eq_50", "eq", || format!("{} == {} expected {}", show(a), show(b), e)); out.check((a != b) == !e, "eq_50", "ne", || format!("{} != {} expected {}", show(a), show(b), !e)); } } }
