// union_32
#![allow(dead_code, unused_variables, unused_mut, unused_imports, non_shorthand_field_patterns, clippy::all)]
use crate::support::*;
use educe::Educe;
use core::cmp::Ordering;
#[derive(Educe)]
#[educe(Debug(unsafe, name = Uu), Clone)]
pub union T { a: C<1>, b: u16, x: C<1> }
impl Copy for T {}
pub fn mk(pattern: u8) -> T { let mut x = ::core::mem::MaybeUninit::<T>::uninit(); unsafe { ::core::ptr::write_bytes(x.as_mut_ptr() as *mut u8, 0, ::core::mem::size_of::<T>()); let p = x.as_mut_ptr() as *mut u8; for i in 0..::core::mem::size_of::<T>() { *p.add(i) = pattern.wrapping_mul(i as u8 + 1).wrapping_add(i as u8); } x.assume_init() } }
pub fn bytes(x: &T) -> &[u8] { unsafe { ::core::slice::from_raw_parts(x as *const T as *const u8, ::core::mem::size_of::<T>()) } }
pub fn run(out: &mut Out) { for p in 0..6u8 { let a = mk(p); let g = format!("{:?}", a); let e = format!("{:?}", Fm(|f: &mut ::core::fmt::Formatter<'_>| f.debug_tuple("Uu").field(&bytes(&a)).finish())); out.check(g == e, "union_32", "union_debug", || format!("{{:?}} = {:?} expected {:?}", g, e)); let g = format!("{:#?}", a); let e = format!("{:#?}", Fm(|f: &mut ::core::fmt::Formatter<'_>| f.debug_tuple("Uu").field(&bytes(&a)).finish())); out.check(g == e, "union_32", "union_debug_alt", || format!("{{:#?}} = {:?} expected {:?}", g, e)); } for p in 0..6u8 { let a = mk(p); let b = ::core::clone::Clone::clone(&a); out.check(bytes(&a) == bytes(&b), "union_32", "union_clone", || format!("clone {:?} of {:?}", bytes(&b), bytes(&a))); } }
