// default_109
#![allow(dead_code, unused_variables, unused_mut, unused_imports, non_shorthand_field_patterns, clippy::all)]
use crate::support::*;
use educe::Educe;
use core::cmp::Ordering;
#[derive(Educe)]
#[educe(Default)]
pub enum T { #[educe(Default)] V1 { #[educe(Default(expr(None)))] y: Option<u8>, #[educe(Default(expression('x')))] f: char } }
pub fn show(x: &T) -> String { #[allow(unused_variables)] match x { T::V1 { y: p0, f: p1 } => format!("V1({},{})", sv(p0), sv(p1)) } }
pub fn o_default() -> T { T::V1 { y: None, f: 'x' } }
pub fn run(out: &mut Out) { let g = <T as ::core::default::Default>::default(); let e = o_default(); out.check(show(&g) == show(&e), "default_109", "default", || format!("default() = {} expected {}", show(&g), show(&e))); }
