// ordlayout_76
#![allow(dead_code, unused_variables, unused_mut, unused_imports, non_shorthand_field_patterns, clippy::all)]
use crate::support::*;
use educe::Educe;
use core::cmp::Ordering;
#[derive(Educe)]
#[repr(i32)]
#[educe(Ord, PartialEq, Eq)]
pub enum T { Zed { data: Option<u8>, #[educe(Ord(rank = 0x1))] state: &'static u8 } = -5, None { #[educe(Ord(rank = 0))] _0: u8 } = 2 }
impl PartialOrd for T { fn partial_cmp(&self, o: &Self) -> Option<Ordering> { Some(::core::cmp::Ord::cmp(self, o)) } }
pub fn values() -> Vec<T> { vec![T::Zed { data: None, state: &3u8 }, T::Zed { data: None, state: &200u8 }, T::Zed { data: Some(0), state: &3u8 }, T::Zed { data: Some(0), state: &200u8 }, T::Zed { data: Some(255), state: &3u8 }, T::Zed { data: Some(255), state: &200u8 }, T::None { _0: 0 }, T::None { _0: 100 }, T::None { _0: 200 }] }
pub fn show(x: &T) -> String { #[allow(unused_variables)] match x { T::Zed { data: p0, state: p1 } => format!("Zed({},{})", sv(p0), sv(p1)), T::None { _0: p0 } => format!("None({})", sv(p0)) } }
pub fn o_disc(x: &T) -> i128 { match x { T::Zed { data: _, state: _ } => -5, T::None { _0: _ } => 2 } }
pub fn o_cmp(a: &T, b: &T) -> Ordering { match (a, b) { (T::Zed { data: a0, state: a1 }, T::Zed { data: b0, state: b1 }) => { let c = ::core::cmp::Ord::cmp(a0, b0); if c != Ordering::Equal { return c; } let c = ::core::cmp::Ord::cmp(a1, b1); if c != Ordering::Equal { return c; } Ordering::Equal }, (T::None { _0: a0 }, T::None { _0: b0 }) => { let c = ::core::cmp::Ord::cmp(a0, b0); if c != Ordering::Equal { return c; } Ordering::Equal }, _ => o_disc(a).cmp(&o_disc(b)) } }
#[repr(C)] pub struct Wrap { pub pre: u8, pub x: T, pub post: [u8; 9] }
pub fn wrap(i: usize, n: u8) -> Wrap { Wrap { pre: n, x: values().swap_remove(i), post: [n; 9] } }
pub fn run(out: &mut Out) { let vs = values(); for (i, a) in vs.iter().enumerate() { for (j, b) in vs.iter().enumerate() { let e = o_cmp(a, b); let g = ::core::cmp::Ord::cmp(a, b); out.check(g == e, "ordlayout_76", "cmp", || format!("cmp({}, {}) = {:?} expected {:?}", show(a), show(b), g, e)); for n in [0u8, 1, 0x7f, 0x80, 0xff] { let wa = wrap(i, n); let wb = wrap(j, !n); let g = ::core::cmp::Ord::cmp(&wa.x, &wb.x); let e = o_cmp(a, b); out.check(g == e, "ordlayout_76", "cmp_neighbours", || format!("cmp({}, {}) with neighbour bytes {} = {:?} expected {:?}", show(a), show(b), n, g, e)); } } } }
