// eq_10
#![allow(dead_code, unused_variables, unused_mut, unused_imports, non_shorthand_field_patterns, clippy::all)]
use crate::support::*;
use educe::Educe;
use core::cmp::Ordering;
#[derive(Educe)]
#[educe(PartialEq)]
pub enum T { Some(A<0>, A<1>, #[educe(PartialEq = true)] A<0>), None, Zed, A { #[educe(PartialEq = true)] c: A<0> } }
pub fn values() -> Vec<T> { vec![T::Some(A(0), A(0), A(7)), T::Some(A(1), A(0), A(1)), T::Some(A(7), A(1), A(1)), T::Some(A(1), A(0), A(7)), T::Some(A(0), A(1), A(0)), T::Some(A(1), A(1), A(7)), T::Some(A(1), A(1), A(1)), T::Some(A(7), A(0), A(1)), T::Some(A(7), A(1), A(7)), T::Some(A(0), A(1), A(1)), T::Some(A(1), A(0), A(0)), T::Some(A(0), A(7), A(1)), T::None, T::Zed, T::A { c: A(0) }, T::A { c: A(1) }, T::A { c: A(7) }] }
pub fn show(x: &T) -> String { #[allow(unused_variables)] match x { T::Some(p0, p1, p2) => format!("Some({},{},{})", sv(p0), sv(p1), sv(p2)), T::None => format!("None()"), T::Zed => format!("Zed()"), T::A { c: p0 } => format!("A({})", sv(p0)) } }
pub fn o_eq(a: &T, b: &T) -> bool { match (a, b) { (T::Some(a0, a1, a2), T::Some(b0, b1, b2)) => (a0 == b0) && (a1 == b1) && (a2 == b2), (T::None, T::None) => true, (T::Zed, T::Zed) => true, (T::A { c: a0 }, T::A { c: b0 }) => (a0 == b0), _ => false } }
pub fn run(out: &mut Out) { let vs = values(); for a in &vs { for b in &vs { let e = o_eq(a, b); out.check((a == b) == e, "eq_10", "eq", || format!("{} == {} expected {}", show(a), show(b), e)); out.check((a != b) == !e, "eq_10", "ne", || format!("{} != {} expected {}", show(a), show(b), !e)); } } }
