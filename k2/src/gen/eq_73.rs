// eq_73
#![allow(dead_code, unused_variables, unused_mut, unused_imports, non_shorthand_field_patterns, clippy::all)]
use crate::support::*;
use educe::Educe;
use core::cmp::Ordering;
#[derive(Educe)]
#[educe(PartialEq)]
#[educe(Eq)]
pub enum T { C { #[educe(Eq(ignore))] source: A<0>, x: A<1> }, A(#[educe(PartialEq(ignore))] A<0>), V1 {  }, Zed { f: A<0> } }
pub fn values() -> Vec<T> { vec![T::C { source: A(0), x: A(0) }, T::C { source: A(0), x: A(1) }, T::C { source: A(0), x: A(7) }, T::C { source: A(1), x: A(0) }, T::C { source: A(1), x: A(1) }, T::C { source: A(1), x: A(7) }, T::C { source: A(7), x: A(0) }, T::C { source: A(7), x: A(1) }, T::C { source: A(7), x: A(7) }, T::A(A(0)), T::A(A(1)), T::A(A(7)), T::V1 {  }, T::Zed { f: A(0) }, T::Zed { f: A(1) }, T::Zed { f: A(7) }] }
pub fn show(x: &T) -> String { #[allow(unused_variables)] match x { T::C { source: p0, x: p1 } => format!("C({},{})", sv(p0), sv(p1)), T::A(p0) => format!("A({})", sv(p0)), T::V1 {  } => format!("V1()"), T::Zed { f: p0 } => format!("Zed({})", sv(p0)) } }
pub fn o_eq(a: &T, b: &T) -> bool { match (a, b) { (T::C { source: a0, x: a1 }, T::C { source: b0, x: b1 }) => (a1 == b1), (T::A(a0), T::A(b0)) => true, (T::V1 {  }, T::V1 {  }) => true, (T::Zed { f: a0 }, T::Zed { f: b0 }) => (a0 == b0), _ => false } }
pub fn run(out: &mut Out) { let vs = values(); for a in &vs { for b in &vs { let e = o_eq(a, b); out.check((a == b) == e, "eq_73", "eq", || format!("{} == {} expected {}", show(a), show(b), e)); out.check((a != b) == !e, "eq_73", "ne", || format!("{} != {} expected {}", show(a), show(b), !e)); } } }
