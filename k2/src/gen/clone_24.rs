// clone_24
#![allow(dead_code, unused_variables, unused_mut, unused_imports, non_shorthand_field_patterns, clippy::all)]
use crate::support::*;
use educe::Educe;
use core::cmp::Ordering;
#[derive(Educe)]
#[educe(Clone)]
pub enum T { A, Unit, Zed(A<0>, A<0>), None { #[educe(Clone(method = m_clone))] size: A<0>, #[educe(Clone(method = "m_clone"))] _0: A<1> } }
pub fn values() -> Vec<T> { vec![T::A, T::Unit, T::Zed(A(0), A(0)), T::Zed(A(1), A(1)), T::Zed(A(0), A(7)), T::Zed(A(1), A(7)), T::Zed(A(7), A(0)), T::None { size: A(0), _0: A(0) }, T::None { size: A(1), _0: A(0) }, T::None { size: A(0), _0: A(7) }, T::None { size: A(7), _0: A(1) }, T::None { size: A(7), _0: A(0) }] }
pub fn show(x: &T) -> String { #[allow(unused_variables)] match x { T::A => format!("A()"), T::Unit => format!("Unit()"), T::Zed(p0, p1) => format!("Zed({},{})", sv(p0), sv(p1)), T::None { size: p0, _0: p1 } => format!("None({},{})", sv(p0), sv(p1)) } }
pub fn o_clone(x: &T) -> T { match x { T::A => T::A, T::Unit => T::Unit, T::Zed(p0, p1) => T::Zed(A(p0.0), A(p1.0)), T::None { size: p0, _0: p1 } => T::None { size: A(p0.0.wrapping_add(50)), _0: A(p1.0.wrapping_add(50)) } } }
pub fn o_log(x: &T) -> Vec<String> { match x { T::A => vec![], T::Unit => vec![], T::Zed(p0, p1) => vec![format!("clone A{} {}", p0.k(), p0.0), format!("clone A{} {}", p1.k(), p1.0)], T::None { size: p0, _0: p1 } => vec![format!("m_clone A{} {}", p0.k(), p0.0), format!("m_clone A{} {}", p1.k(), p1.0)] } }
pub fn run(out: &mut Out) { let vs = values(); for a in &vs { let _ = take_log(); let g = ::core::clone::Clone::clone(a); let l = take_log(); let e = o_clone(a); out.check(show(&g) == show(&e), "clone_24", "clone", || format!("clone({}) = {} expected {}", show(a), show(&g), show(&e))); let el = o_log(a); out.check(l == el, "clone_24", "clone_calls", || format!("clone({}) called {:?} expected {:?}", show(a), l, el)); } let n = vs.len(); for i in 0..n { for j in 0..n { let mut x = values().swap_remove(i); let shown = show(&x); ::core::clone::Clone::clone_from(&mut x, &vs[j]); let e = o_clone(&vs[j]); out.check(show(&x) == show(&e), "clone_24", "clone_from", || format!("{}.clone_from({}) = {} expected {}", shown, show(&vs[j]), show(&x), show(&e))); } } }
