// debug_109
#![allow(dead_code, unused_variables, unused_mut, unused_imports, non_shorthand_field_patterns, clippy::all)]
use crate::support::*;
use educe::Educe;
use core::cmp::Ordering;
#[derive(Educe)]
#[educe(Debug(name(true)))]
pub enum T { V1 { _0: A<0>, #[educe(Debug(rename = k1, method = "m_fmt"))] y: A<1> }, C { #[educe(Debug(name(k0)))] size: A<0>, c: A<1> }, #[educe(Debug(named_field(false)))] B {  }, None }
pub fn values() -> Vec<T> { vec![T::V1 { _0: A(1), y: A(1) }, T::V1 { _0: A(0), y: A(7) }, T::V1 { _0: A(0), y: A(1) }, T::V1 { _0: A(0), y: A(0) }, T::V1 { _0: A(7), y: A(0) }, T::V1 { _0: A(7), y: A(1) }, T::C { size: A(7), c: A(7) }, T::C { size: A(7), c: A(1) }, T::C { size: A(0), c: A(1) }, T::C { size: A(0), c: A(0) }, T::C { size: A(7), c: A(0) }, T::C { size: A(1), c: A(7) }, T::B {  }, T::None] }
pub fn show(x: &T) -> String { #[allow(unused_variables)] match x { T::V1 { _0: p0, y: p1 } => format!("V1({},{})", sv(p0), sv(p1)), T::C { size: p0, c: p1 } => format!("C({},{})", sv(p0), sv(p1)), T::B {  } => format!("B()"), T::None => format!("None()") } }
pub fn o_fmt(x: &T, f: &mut ::core::fmt::Formatter<'_>) -> ::core::fmt::Result { match x { T::V1 { _0: p0, y: p1 } => f.debug_struct("T::V1").field("_0", p0).field("k1", &Wm(p1)).finish(), T::C { size: p0, c: p1 } => f.debug_struct("T::C").field("k0", p0).field("c", p1).finish(), T::B {  } => f.debug_tuple("T::B").finish(), T::None => f.write_str("T::None") } }

pub fn run(out: &mut Out) { let vs = values(); for a in &vs { let g = format!("{:?}", a); let e = format!("{:?}", Fm(|f: &mut ::core::fmt::Formatter<'_>| o_fmt(a, f))); out.check(g == e, "debug_109", "debug", || format!("{{:?}} of {} = {:?} expected {:?}", show(a), g, e)); let g = format!("{:#?}", a); let e = format!("{:#?}", Fm(|f: &mut ::core::fmt::Formatter<'_>| o_fmt(a, f))); out.check(g == e, "debug_109", "debug_alt", || format!("{{:#?}} of {} = {:?} expected {:?}", show(a), g, e)); let g = format!("{:8?}", a); let e = format!("{:8?}", Fm(|f: &mut ::core::fmt::Formatter<'_>| o_fmt(a, f))); out.check(g == e, "debug_109", "debug_width", || format!("{{:8?}} of {} = {:?} expected {:?}", show(a), g, e)); }  }
