// default_77
#![allow(dead_code, unused_variables, unused_mut, unused_imports, non_shorthand_field_patterns, clippy::all)]
use crate::support::*;
use educe::Educe;
use core::cmp::Ordering;
#[derive(Educe)]
#[educe(Default(new))]
pub enum T { #[educe(Default)] B, Zed(bool, Option<u8>, A<3>), Some { a: A<0>, arg: char } }
pub fn show(x: &T) -> String { #[allow(unused_variables)] match x { T::B => format!("B()"), T::Zed(p0, p1, p2) => format!("Zed({},{},{})", sv(p0), sv(p1), sv(p2)), T::Some { a: p0, arg: p1 } => format!("Some({},{})", sv(p0), sv(p1)) } }
pub fn o_default() -> T { T::B }
pub fn run(out: &mut Out) { let g = <T as ::core::default::Default>::default(); let e = o_default(); out.check(show(&g) == show(&e), "default_77", "default", || format!("default() = {} expected {}", show(&g), show(&e))); let g = T::new(); let e = o_default(); out.check(show(&g) == show(&e), "default_77", "new", || format!("new() = {} expected {}", show(&g), show(&e))); }
