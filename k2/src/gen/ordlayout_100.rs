// ordlayout_100
#![allow(dead_code, unused_variables, unused_mut, unused_imports, non_shorthand_field_patterns, clippy::all)]
use crate::support::*;
use educe::Educe;
use core::cmp::Ordering;
#[derive(Educe)]
#[educe(Eq, Ord, PartialEq)]
pub enum T { C, V1, B, Some(#[educe(Ord(rank = 0i64))] Option<u8>) }
impl PartialOrd for T { fn partial_cmp(&self, o: &Self) -> Option<Ordering> { Some(::core::cmp::Ord::cmp(self, o)) } }
pub fn values() -> Vec<T> { vec![T::C, T::V1, T::B, T::Some(None), T::Some(Some(0)), T::Some(Some(255))] }
pub fn show(x: &T) -> String { #[allow(unused_variables)] match x { T::C => format!("C()"), T::V1 => format!("V1()"), T::B => format!("B()"), T::Some(p0) => format!("Some({})", sv(p0)) } }
pub fn o_disc(x: &T) -> i128 { match x { T::C => 0, T::V1 => 1, T::B => 2, T::Some(_) => 3 } }
pub fn o_cmp(a: &T, b: &T) -> Ordering { match (a, b) { (T::C, T::C) => {  Ordering::Equal }, (T::V1, T::V1) => {  Ordering::Equal }, (T::B, T::B) => {  Ordering::Equal }, (T::Some(a0), T::Some(b0)) => { let c = ::core::cmp::Ord::cmp(a0, b0); if c != Ordering::Equal { return c; } Ordering::Equal }, _ => o_disc(a).cmp(&o_disc(b)) } }
#[repr(C)] pub struct Wrap { pub pre: u8, pub x: T, pub post: [u8; 9] }
pub fn wrap(i: usize, n: u8) -> Wrap { Wrap { pre: n, x: values().swap_remove(i), post: [n; 9] } }
pub fn run(out: &mut Out) { let vs = values(); for (i, a) in vs.iter().enumerate() { for (j, b) in vs.iter().enumerate() { let e = o_cmp(a, b); let g = ::core::cmp::Ord::cmp(a, b); out.check(g == e, "ordlayout_100", "cmp", || format!("cmp({}, {}) = {:?} expected {:?}", show(a), show(b), g, e)); for n in [0u8, 1, 0x7f, 0x80, 0xff] { let wa = wrap(i, n); let wb = wrap(j, !n); let g = ::core::cmp::Ord::cmp(&wa.x, &wb.x); let e = o_cmp(a, b); out.check(g == e, "ordlayout_100", "cmp_neighbours", || format!("cmp({}, {}) with neighbour bytes {} = {:?} expected {:?}", show(a), show(b), n, g, e)); } } } }
