// deref_40
#![allow(dead_code, unused_variables, unused_mut, unused_imports, non_shorthand_field_patterns, clippy::all)]
use crate::support::*;
use educe::Educe;
use core::cmp::Ordering;
#[derive(Educe)]
#[educe(Deref)]
pub struct T { x: A<1>, c: A<2>, #[educe(Deref)] _0: A<1>, state: A<2> }
pub fn values() -> Vec<T> { vec![T { x: A(7), c: A(7), _0: A(1), state: A(7) }, T { x: A(7), c: A(0), _0: A(0), state: A(0) }, T { x: A(0), c: A(1), _0: A(1), state: A(1) }, T { x: A(1), c: A(7), _0: A(7), state: A(7) }, T { x: A(0), c: A(1), _0: A(7), state: A(1) }, T { x: A(1), c: A(0), _0: A(0), state: A(0) }, T { x: A(1), c: A(0), _0: A(7), state: A(7) }, T { x: A(0), c: A(7), _0: A(1), state: A(7) }, T { x: A(0), c: A(7), _0: A(1), state: A(1) }, T { x: A(1), c: A(7), _0: A(1), state: A(0) }, T { x: A(0), c: A(7), _0: A(1), state: A(0) }, T { x: A(7), c: A(0), _0: A(1), state: A(7) }, T { x: A(1), c: A(0), _0: A(1), state: A(0) }, T { x: A(1), c: A(1), _0: A(7), state: A(0) }, T { x: A(1), c: A(7), _0: A(1), state: A(1) }, T { x: A(1), c: A(1), _0: A(7), state: A(7) }] }
pub fn show(x: &T) -> String { #[allow(unused_variables)] match x { T { x: p0, c: p1, _0: p2, state: p3 } => format!("T({},{},{},{})", sv(p0), sv(p1), sv(p2), sv(p3)) } }
pub fn o_deref(x: &T) -> *const A<1> { match x { T { x: _, c: _, _0: p2, state: _ } => p2 as *const A<1> } }
pub fn run(out: &mut Out) { let vs = values(); for a in &vs { let g = ::core::ops::Deref::deref(a) as *const A<1>; let e = o_deref(a); out.check(g == e, "deref_40", "deref", || format!("&*{} has another address than the designated field", show(a))); } }
