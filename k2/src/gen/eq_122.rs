// eq_122
#![allow(dead_code, unused_variables, unused_mut, unused_imports, non_shorthand_field_patterns, clippy::all)]
use crate::support::*;
use educe::Educe;
use core::cmp::Ordering;
#[derive(Educe)]
#[educe(PartialEq, Eq)]
pub enum T { Zed, None { #[educe(PartialEq(ignore(true)))] x: A<0> }, C(A<0>, A<0>), B { #[educe(PartialEq(ignore))] a: A<0>, f: A<1>, #[educe(Eq = false)] r#type: A<0>, #[educe(PartialEq(method(m_eq)))] _0: A<0> } }
pub fn values() -> Vec<T> { vec![T::Zed, T::None { x: A(0) }, T::None { x: A(1) }, T::None { x: A(7) }, T::C(A(0), A(0)), T::C(A(0), A(1)), T::C(A(0), A(7)), T::C(A(1), A(0)), T::C(A(1), A(1)), T::C(A(1), A(7)), T::C(A(7), A(0)), T::C(A(7), A(1)), T::C(A(7), A(7)), T::B { a: A(1), f: A(0), r#type: A(0), _0: A(1) }, T::B { a: A(0), f: A(0), r#type: A(0), _0: A(1) }, T::B { a: A(1), f: A(1), r#type: A(0), _0: A(0) }, T::B { a: A(1), f: A(0), r#type: A(1), _0: A(1) }, T::B { a: A(7), f: A(1), r#type: A(0), _0: A(7) }, T::B { a: A(0), f: A(0), r#type: A(1), _0: A(7) }, T::B { a: A(7), f: A(1), r#type: A(0), _0: A(0) }, T::B { a: A(7), f: A(7), r#type: A(1), _0: A(7) }, T::B { a: A(0), f: A(7), r#type: A(1), _0: A(0) }, T::B { a: A(7), f: A(1), r#type: A(7), _0: A(1) }, T::B { a: A(0), f: A(7), r#type: A(0), _0: A(1) }, T::B { a: A(7), f: A(0), r#type: A(7), _0: A(0) }] }
pub fn show(x: &T) -> String { #[allow(unused_variables)] match x { T::Zed => format!("Zed()"), T::None { x: p0 } => format!("None({})", sv(p0)), T::C(p0, p1) => format!("C({},{})", sv(p0), sv(p1)), T::B { a: p0, f: p1, r#type: p2, _0: p3 } => format!("B({},{},{},{})", sv(p0), sv(p1), sv(p2), sv(p3)) } }
pub fn o_eq(a: &T, b: &T) -> bool { match (a, b) { (T::Zed, T::Zed) => true, (T::None { x: a0 }, T::None { x: b0 }) => true, (T::C(a0, a1), T::C(b0, b1)) => (a0 == b0) && (a1 == b1), (T::B { a: a0, f: a1, r#type: a2, _0: a3 }, T::B { a: b0, f: b1, r#type: b2, _0: b3 }) => (a1 == b1) && m_eq(a3, b3), _ => false } }
pub fn run(out: &mut Out) { let vs = values(); for a in &vs { for b in &vs { let e = o_eq(a, b); out.check((a == b) == e, "eq_122", "eq", || format!("{} == {} expected {}", show(a), show(b), e)); out.check((a != b) == !e, "eq_122", "ne", || format!("{} != {} expected {}", show(a), show(b), !e)); } } }
