// ord_2
#![allow(dead_code, unused_variables, unused_mut, unused_imports, non_shorthand_field_patterns, clippy::all)]
use crate::support::*;
use core::cmp::Ordering;
pub mod ty {
    #![deny(warnings)]
    #![allow(dead_code, unused_imports)]
    use crate::support::{A, B, C, Good, Bad, m_eq, m_cmp, m_pcmp, m_hash, m_fmt, m_clone, m_clone_c, m_into, g_eq, g_cmp, g_pcmp, g_hash, g_fmt};
    use educe::Educe;

    // names at the derive site that shadow everything the generated code might be tempted to write unqualified
    #[allow(non_camel_case_types)] pub struct Option; pub struct Result; pub struct Ordering; pub struct Clone; pub struct Copy;
    pub struct Default; pub struct Debug; pub struct PartialEq; pub struct Eq; pub struct PartialOrd; pub struct Ord; pub struct Hash;
    pub struct Hasher; pub struct Into; pub struct From; pub struct Deref; pub struct DerefMut; pub struct Formatter; pub struct String;
    pub struct Vec; pub struct Box; pub struct PhantomData; pub struct Sized; pub struct Send; pub struct Iterator; pub struct Self_;
    #[allow(non_snake_case)] pub fn Some() {} #[allow(non_snake_case)] pub fn None() {} #[allow(non_snake_case)] pub fn Ok() {} #[allow(non_snake_case)] pub fn Err() {}
    pub fn drop() {} pub mod core {} pub mod std {} pub mod alloc {} pub mod fmt {} pub mod cmp {} pub mod hash {} pub mod clone {} pub mod marker {}
    #[allow(unused_macros)] macro_rules! stringify { ($($t:tt)*) => { "SHADOWED" } }
    #[allow(unused_macros)] macro_rules! unreachable { ($($t:tt)*) => { () } }
    #[allow(unused_macros)] macro_rules! panic { ($($t:tt)*) => { () } }
    #[allow(unused_macros)] macro_rules! matches { ($($t:tt)*) => { true } }
    #[allow(unused_macros)] macro_rules! write { ($($t:tt)*) => { () } }
    #[allow(unused_macros)] macro_rules! format_args { ($($t:tt)*) => { () } }
    #[allow(unused_macros)] macro_rules! assert { ($($t:tt)*) => { () } }
#[derive(Educe)]
#[educe(PartialOrd, Eq, Ord, PartialEq)]
pub enum T { Zed(#[educe(PartialOrd = false)] A<0>, #[educe(PartialOrd(method = m_cmp))] A<1>), C { #[educe(PartialOrd(ignore))] source: A<0>, #[educe(PartialOrd(rank(4)))] other_data: A<1> }, A, V1 { #[educe(PartialOrd(method = "m_cmp"))] arg: A<0>, #[educe(PartialOrd(ignore(true)))] size: A<1>, r#type: A<2>, #[educe(PartialOrd(rank("0")))] a: A<0> } }
}
pub use ty::T;

pub fn values() -> Vec<T> { vec![T::Zed(A(0), A(0)), T::Zed(A(0), A(1)), T::Zed(A(0), A(7)), T::Zed(A(1), A(0)), T::Zed(A(1), A(1)), T::Zed(A(1), A(7)), T::Zed(A(7), A(0)), T::Zed(A(7), A(1)), T::Zed(A(7), A(7)), T::C { source: A(0), other_data: A(0) }, T::C { source: A(0), other_data: A(1) }, T::C { source: A(0), other_data: A(7) }, T::C { source: A(1), other_data: A(0) }, T::C { source: A(1), other_data: A(1) }, T::C { source: A(1), other_data: A(7) }, T::C { source: A(7), other_data: A(0) }, T::C { source: A(7), other_data: A(1) }, T::C { source: A(7), other_data: A(7) }, T::A, T::V1 { arg: A(0), size: A(0), r#type: A(7), a: A(7) }, T::V1 { arg: A(0), size: A(0), r#type: A(7), a: A(0) }, T::V1 { arg: A(1), size: A(7), r#type: A(0), a: A(7) }, T::V1 { arg: A(7), size: A(0), r#type: A(1), a: A(7) }, T::V1 { arg: A(7), size: A(7), r#type: A(1), a: A(1) }, T::V1 { arg: A(7), size: A(0), r#type: A(1), a: A(0) }, T::V1 { arg: A(1), size: A(7), r#type: A(7), a: A(7) }, T::V1 { arg: A(1), size: A(0), r#type: A(0), a: A(0) }, T::V1 { arg: A(0), size: A(0), r#type: A(1), a: A(7) }] }
pub fn show(x: &T) -> String { #[allow(unused_variables)] match x { T::Zed(p0, p1) => format!("Zed({},{})", sv(p0), sv(p1)), T::C { source: p0, other_data: p1 } => format!("C({},{})", sv(p0), sv(p1)), T::A => format!("A()"), T::V1 { arg: p0, size: p1, r#type: p2, a: p3 } => format!("V1({},{},{},{})", sv(p0), sv(p1), sv(p2), sv(p3)) } }
pub fn o_disc(x: &T) -> i128 { match x { T::Zed(_, _) => 0, T::C { source: _, other_data: _ } => 1, T::A => 2, T::V1 { arg: _, size: _, r#type: _, a: _ } => 3 } }
pub fn o_cmp(a: &T, b: &T) -> Ordering { match (a, b) { (T::Zed(a0, a1), T::Zed(b0, b1)) => { let c = m_cmp(a1, b1); if c != Ordering::Equal { return c; } Ordering::Equal }, (T::C { source: a0, other_data: a1 }, T::C { source: b0, other_data: b1 }) => { let c = ::core::cmp::Ord::cmp(a1, b1); if c != Ordering::Equal { return c; } Ordering::Equal }, (T::A, T::A) => {  Ordering::Equal }, (T::V1 { arg: a0, size: a1, r#type: a2, a: a3 }, T::V1 { arg: b0, size: b1, r#type: b2, a: b3 }) => { let c = m_cmp(a0, b0); if c != Ordering::Equal { return c; } let c = ::core::cmp::Ord::cmp(a2, b2); if c != Ordering::Equal { return c; } let c = ::core::cmp::Ord::cmp(a3, b3); if c != Ordering::Equal { return c; } Ordering::Equal }, _ => o_disc(a).cmp(&o_disc(b)) } }
pub fn run(out: &mut Out) { let vs = values(); for (i, a) in vs.iter().enumerate() { for (j, b) in vs.iter().enumerate() { let e = o_cmp(a, b); let g = ::core::cmp::Ord::cmp(a, b); out.check(g == e, "ord_2", "cmp", || format!("cmp({}, {}) = {:?} expected {:?}", show(a), show(b), g, e)); let g2 = ::core::cmp::PartialOrd::partial_cmp(a, b); out.check(g2 == Some(e), "ord_2", "partial_is_some_cmp", || format!("partial_cmp({}, {}) = {:?} expected Some({:?})", show(a), show(b), g2, e)); } } }
