// ord_2
#![allow(dead_code, unused_variables, unused_mut, unused_imports, non_shorthand_field_patterns, clippy::all)]
use crate::support::*;
use educe::Educe;
use core::cmp::Ordering;
#[derive(Educe)]
#[educe(PartialEq, PartialOrd, Eq)]
pub struct T { #[educe(PartialOrd(rank = 1i64))] size: A<0> }

pub fn values() -> Vec<T> { vec![T { size: A(0) }, T { size: A(1) }, T { size: A(7) }] }
pub fn show(x: &T) -> String { #[allow(unused_variables)] match x { T { size: p0 } => format!("T({})", sv(p0)) } }
pub fn o_disc(x: &T) -> i128 { match x { T { size: _ } => 0 } }
pub fn o_pcmp(a: &T, b: &T) -> Option<Ordering> { match (a, b) { (T { size: a0 }, T { size: b0 }) => { match ::core::cmp::PartialOrd::partial_cmp(a0, b0) { Some(Ordering::Equal) => (), x => return x } Some(Ordering::Equal) } } }
pub fn run(out: &mut Out) { let vs = values(); for (i, a) in vs.iter().enumerate() { for (j, b) in vs.iter().enumerate() { let e = o_pcmp(a, b); let g = ::core::cmp::PartialOrd::partial_cmp(a, b); out.check(g == e, "ord_2", "partial_cmp", || format!("partial_cmp({}, {}) = {:?} expected {:?}", show(a), show(b), g, e)); } } }
