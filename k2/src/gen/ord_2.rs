// ord_2
#![allow(dead_code, unused_variables, unused_mut, unused_imports, non_shorthand_field_patterns, clippy::all)]
use crate::support::*;
use core::cmp::Ordering;
pub mod ty {
    #![deny(warnings)]
    #![allow(dead_code, unused_imports, non_snake_case)]
    use crate::support::{A, B, C, Good, Bad, m_eq, m_cmp, m_pcmp, m_hash, m_fmt, m_clone, m_clone_c, m_into, g_eq, g_cmp, g_pcmp, g_hash, g_fmt};
    use educe::Educe;
#[derive(Educe)]
#[repr(i64)]
#[educe(Eq, PartialEq, PartialOrd, Ord)]
pub enum T { Unit { #[educe(PartialOrd(method = "m_cmp"))] r#type: A<0>, #[educe(PartialOrd(method = m_cmp, rank = -4))] size: A<1> }, B { #[educe(PartialOrd(rank = "-4"))] other: A<0> } = 3, Some {  } = 2 }
}
pub use ty::T;

pub fn values() -> Vec<T> { vec![T::Unit { r#type: A(0), size: A(0) }, T::Unit { r#type: A(0), size: A(1) }, T::Unit { r#type: A(0), size: A(7) }, T::Unit { r#type: A(1), size: A(0) }, T::Unit { r#type: A(1), size: A(1) }, T::Unit { r#type: A(1), size: A(7) }, T::Unit { r#type: A(7), size: A(0) }, T::Unit { r#type: A(7), size: A(1) }, T::Unit { r#type: A(7), size: A(7) }, T::B { other: A(0) }, T::B { other: A(1) }, T::B { other: A(7) }, T::Some {  }] }
pub fn show(x: &T) -> String { #[allow(unused_variables)] match x { T::Unit { r#type: p0, size: p1 } => format!("Unit({},{})", sv(p0), sv(p1)), T::B { other: p0 } => format!("B({})", sv(p0)), T::Some {  } => format!("Some()") } }
pub fn o_disc(x: &T) -> i128 { match x { T::Unit { r#type: _, size: _ } => 0, T::B { other: _ } => 3, T::Some {  } => 2 } }
pub fn o_cmp(a: &T, b: &T) -> Ordering { match (a, b) { (T::Unit { r#type: a0, size: a1 }, T::Unit { r#type: b0, size: b1 }) => { let c = m_cmp(a0, b0); if c != Ordering::Equal { return c; } let c = m_cmp(a1, b1); if c != Ordering::Equal { return c; } Ordering::Equal }, (T::B { other: a0 }, T::B { other: b0 }) => { let c = ::core::cmp::Ord::cmp(a0, b0); if c != Ordering::Equal { return c; } Ordering::Equal }, (T::Some {  }, T::Some {  }) => {  Ordering::Equal }, _ => o_disc(a).cmp(&o_disc(b)) } }
pub fn run(out: &mut Out) { let vs = values(); for (i, a) in vs.iter().enumerate() { for (j, b) in vs.iter().enumerate() { let e = o_cmp(a, b); let g = ::core::cmp::Ord::cmp(a, b); out.check(g == e, "ord_2", "cmp", || format!("cmp({}, {}) = {:?} expected {:?}", show(a), show(b), g, e)); let g2 = ::core::cmp::PartialOrd::partial_cmp(a, b); out.check(g2 == Some(e), "ord_2", "partial_is_some_cmp", || format!("partial_cmp({}, {}) = {:?} expected Some({:?})", show(a), show(b), g2, e)); } } }
