// eq_15
#![allow(dead_code, unused_variables, unused_mut, unused_imports, non_shorthand_field_patterns, clippy::all)]
use crate::support::*;
use educe::Educe;
use core::cmp::Ordering;
#[derive(Educe)]
#[educe(PartialEq)]
#[educe(Eq)]
pub enum T { Unit(A<0>, #[educe(PartialEq(method = m_eq))] A<1>, A<2>), C(), Some }
pub fn values() -> Vec<T> { vec![T::Unit(A(0), A(0), A(0)), T::Unit(A(0), A(7), A(0)), T::Unit(A(7), A(0), A(0)), T::Unit(A(0), A(1), A(1)), T::Unit(A(0), A(7), A(7)), T::Unit(A(1), A(7), A(7)), T::Unit(A(1), A(1), A(1)), T::Unit(A(0), A(1), A(0)), T::Unit(A(0), A(0), A(1)), T::Unit(A(1), A(1), A(7)), T::Unit(A(7), A(1), A(7)), T::Unit(A(7), A(7), A(0)), T::Unit(A(1), A(1), A(0)), T::Unit(A(0), A(1), A(7)), T::Unit(A(7), A(1), A(0)), T::Unit(A(1), A(0), A(0)), T::C(), T::Some] }
pub fn show(x: &T) -> String { #[allow(unused_variables)] match x { T::Unit(p0, p1, p2) => format!("Unit({},{},{})", sv(p0), sv(p1), sv(p2)), T::C() => format!("C()"), T::Some => format!("Some()") } }
pub fn o_eq(a: &T, b: &T) -> bool { match (a, b) { (T::Unit(a0, a1, a2), T::Unit(b0, b1, b2)) => (a0 == b0) && m_eq(a1, b1) && (a2 == b2), (T::C(), T::C()) => true, (T::Some, T::Some) => true, _ => false } }
pub fn run(out: &mut Out) { let vs = values(); for a in &vs { for b in &vs { let e = o_eq(a, b); out.check((a == b) == e, "eq_15", "eq", || format!("{} == {} expected {}", show(a), show(b), e)); out.check((a != b) == !e, "eq_15", "ne", || format!("{} != {} expected {}", show(a), show(b), !e)); } } }
