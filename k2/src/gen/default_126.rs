// default_126
#![allow(dead_code, unused_variables, unused_mut, unused_imports, non_shorthand_field_patterns, clippy::all)]
use crate::support::*;
use educe::Educe;
use core::cmp::Ordering;
#[derive(Educe)]
#[educe(Default(new))]
pub struct T(#[educe(Default(expr(1.5)))] f64, #[educe(Default(expression = 12))] i64);
pub fn show(x: &T) -> String { #[allow(unused_variables)] match x { T(p0, p1) => format!("T({},{})", sv(p0), sv(p1)) } }
pub fn o_default() -> T { T(1.5f64, 12i64) }
pub fn run(out: &mut Out) { let g = <T as ::core::default::Default>::default(); let e = o_default(); out.check(show(&g) == show(&e), "default_126", "default", || format!("default() = {} expected {}", show(&g), show(&e))); let g = T::new(); let e = o_default(); out.check(show(&g) == show(&e), "default_126", "new", || format!("new() = {} expected {}", show(&g), show(&e))); }
