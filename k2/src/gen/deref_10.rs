// deref_10
#![allow(dead_code, unused_variables, unused_mut, unused_imports, non_shorthand_field_patterns, clippy::all)]
use crate::support::*;
use educe::Educe;
use core::cmp::Ordering;
#[derive(Educe)]
#[educe(Deref, DerefMut)]
pub struct T(A<0>, A<1>, #[educe(Deref, DerefMut)] A<1>);
pub fn values() -> Vec<T> { vec![T(A(0), A(7), A(0)), T(A(0), A(7), A(1)), T(A(0), A(7), A(7)), T(A(0), A(1), A(1)), T(A(1), A(7), A(0)), T(A(0), A(0), A(1)), T(A(7), A(7), A(7)), T(A(7), A(1), A(0)), T(A(1), A(0), A(1)), T(A(1), A(1), A(0)), T(A(0), A(0), A(7)), T(A(7), A(0), A(7)), T(A(7), A(7), A(0)), T(A(7), A(1), A(7)), T(A(7), A(0), A(0)), T(A(7), A(0), A(1))] }
pub fn show(x: &T) -> String { #[allow(unused_variables)] match x { T(p0, p1, p2) => format!("T({},{},{})", sv(p0), sv(p1), sv(p2)) } }
pub fn o_deref(x: &T) -> *const A<1> { match x { T(_, _, p2) => p2 as *const A<1> } }
pub fn o_deref_mut(x: &mut T) -> *mut A<1> { match x { T(_, _, p2) => p2 as *mut A<1> } }
pub fn o_write(x: &mut T) { match x { T(_, _, p2) => { *p2 = A(99); } } }
pub fn run(out: &mut Out) { let vs = values(); for a in &vs { let g = ::core::ops::Deref::deref(a) as *const A<1>; let e = o_deref(a); out.check(g == e, "deref_10", "deref", || format!("&*{} has another address than the designated field", show(a))); } let n = vs.len(); for i in 0..n { let mut x = values().swap_remove(i); let e = o_deref_mut(&mut x); let g = ::core::ops::DerefMut::deref_mut(&mut x) as *mut A<1>; out.check(g == e, "deref_10", "deref_mut", || format!("&mut *{} has another address than the designated field", show(&x))); let mut y = values().swap_remove(i); o_write(&mut y); *::core::ops::DerefMut::deref_mut(&mut x) = A(99); out.check(show(&x) == show(&y), "deref_10", "deref_mut_write", || format!("after a write through &mut *x: {} expected {}", show(&x), show(&y))); } }
