// eq_53
#![allow(dead_code, unused_variables, unused_mut, unused_imports, non_shorthand_field_patterns, clippy::all)]
use crate::support::*;
use educe::Educe;
use core::cmp::Ordering;
#[derive(Educe)]
#[educe(PartialEq)]
pub struct T { size: A<0>, #[educe(PartialEq(ignore))] a: A<1>, #[educe(PartialEq(ignore = true))] state: A<0> }
pub fn values() -> Vec<T> { vec![T { size: A(0), a: A(0), state: A(0) }, T { size: A(0), a: A(0), state: A(1) }, T { size: A(0), a: A(0), state: A(7) }, T { size: A(0), a: A(1), state: A(0) }, T { size: A(0), a: A(1), state: A(1) }, T { size: A(0), a: A(1), state: A(7) }, T { size: A(0), a: A(7), state: A(0) }, T { size: A(0), a: A(7), state: A(1) }, T { size: A(0), a: A(7), state: A(7) }, T { size: A(1), a: A(0), state: A(0) }, T { size: A(1), a: A(0), state: A(1) }, T { size: A(1), a: A(0), state: A(7) }, T { size: A(1), a: A(1), state: A(0) }, T { size: A(1), a: A(1), state: A(1) }, T { size: A(1), a: A(1), state: A(7) }, T { size: A(1), a: A(7), state: A(0) }, T { size: A(1), a: A(7), state: A(1) }, T { size: A(1), a: A(7), state: A(7) }, T { size: A(7), a: A(0), state: A(0) }, T { size: A(7), a: A(0), state: A(1) }, T { size: A(7), a: A(0), state: A(7) }, T { size: A(7), a: A(1), state: A(0) }, T { size: A(7), a: A(1), state: A(1) }, T { size: A(7), a: A(1), state: A(7) }, T { size: A(7), a: A(7), state: A(0) }, T { size: A(7), a: A(7), state: A(1) }, T { size: A(7), a: A(7), state: A(7) }] }
pub fn show(x: &T) -> String { #[allow(unused_variables)] match x { T { size: p0, a: p1, state: p2 } => format!("T({},{},{})", sv(p0), sv(p1), sv(p2)) } }
pub fn o_eq(a: &T, b: &T) -> bool { match (a, b) { (T { size: a0, a: a1, state: a2 }, T { size: b0, a: b1, state: b2 }) => (a0 == b0) } }
pub fn run(out: &mut Out) { let vs = values(); for a in &vs { for b in &vs { let e = o_eq(a, b); out.check((a == b) == e, "eq_53", "eq", || format!("{} == {} expected {}", show(a), show(b), e)); out.check((a != b) == !e, "eq_53", "ne", || format!("{} != {} expected {}", show(a), show(b), !e)); } } }
