// default_40
#![allow(dead_code, unused_variables, unused_mut, unused_imports, non_shorthand_field_patterns, clippy::all)]
use crate::support::*;
use educe::Educe;
use core::cmp::Ordering;
#[derive(Educe)]
#[educe(Default(new = true))]
pub struct T(#[educe(Default(expr = 2.5f64))] f64);
pub fn show(x: &T) -> String { #[allow(unused_variables)] match x { T(p0) => format!("T({})", sv(p0)) } }
pub fn o_default() -> T { T(2.5f64) }
pub fn run(out: &mut Out) { let g = <T as ::core::default::Default>::default(); let e = o_default(); out.check(show(&g) == show(&e), "default_40", "default", || format!("default() = {} expected {}", show(&g), show(&e))); let g = T::new(); let e = o_default(); out.check(show(&g) == show(&e), "default_40", "new", || format!("new() = {} expected {}", show(&g), show(&e))); }
