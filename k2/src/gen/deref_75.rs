// deref_75
#![allow(dead_code, unused_variables, unused_mut, unused_imports, non_shorthand_field_patterns, clippy::all)]
use crate::support::*;
use educe::Educe;
use core::cmp::Ordering;
#[derive(Educe)]
#[educe(Deref)]
pub enum T { B { _0: A<2>, builder: A<1>, c: A<0>, #[educe(Deref)] a: &'static A<1> }, A { state: A<1>, #[educe(Deref)] source: &'static A<1>, other: A<2> }, Unit(#[educe(Deref)] &'static A<1>, A<1>, A<0>) }
pub fn values() -> Vec<T> { vec![T::B { _0: A(0), builder: A(7), c: A(7), a: &A(1) }, T::B { _0: A(7), builder: A(0), c: A(7), a: &A(1) }, T::B { _0: A(0), builder: A(1), c: A(7), a: &A(0) }, T::B { _0: A(0), builder: A(1), c: A(0), a: &A(0) }, T::B { _0: A(1), builder: A(7), c: A(1), a: &A(0) }, T::A { state: A(1), source: &A(1), other: A(0) }, T::A { state: A(1), source: &A(1), other: A(1) }, T::A { state: A(0), source: &A(1), other: A(1) }, T::A { state: A(7), source: &A(1), other: A(7) }, T::A { state: A(1), source: &A(0), other: A(0) }, T::Unit(&A(0), A(1), A(0)), T::Unit(&A(1), A(0), A(0)), T::Unit(&A(1), A(7), A(1)), T::Unit(&A(0), A(7), A(0)), T::Unit(&A(0), A(1), A(1))] }
pub fn show(x: &T) -> String { #[allow(unused_variables)] match x { T::B { _0: p0, builder: p1, c: p2, a: p3 } => format!("B({},{},{},{})", sv(p0), sv(p1), sv(p2), sv(p3)), T::A { state: p0, source: p1, other: p2 } => format!("A({},{},{})", sv(p0), sv(p1), sv(p2)), T::Unit(p0, p1, p2) => format!("Unit({},{},{})", sv(p0), sv(p1), sv(p2)) } }
pub fn o_deref(x: &T) -> *const A<1> { match x { T::B { _0: _, builder: _, c: _, a: p3 } => *p3 as *const A<1>, T::A { state: _, source: p1, other: _ } => *p1 as *const A<1>, T::Unit(p0, _, _) => *p0 as *const A<1> } }
pub fn run(out: &mut Out) { let vs = values(); for a in &vs { let g = ::core::ops::Deref::deref(a) as *const A<1>; let e = o_deref(a); out.check(g == e, "deref_75", "deref", || format!("&*{} has another address than the designated field", show(a))); } }
