// ord_135
#![allow(dead_code, unused_variables, unused_mut, unused_imports, non_shorthand_field_patterns, clippy::all)]
use crate::support::*;
use educe::Educe;
use core::cmp::Ordering;
#[derive(Educe)]
#[educe(PartialOrd, Ord, Eq, PartialEq)]
pub enum T { None {  }, C { #[educe(Ord(method = "m_cmp", rank(-1)))] r#type: A<0> }, A }

pub fn values() -> Vec<T> { vec![T::None {  }, T::C { r#type: A(0) }, T::C { r#type: A(1) }, T::C { r#type: A(7) }, T::A] }
pub fn show(x: &T) -> String { #[allow(unused_variables)] match x { T::None {  } => format!("None()"), T::C { r#type: p0 } => format!("C({})", sv(p0)), T::A => format!("A()") } }
pub fn o_disc(x: &T) -> i128 { match x { T::None {  } => 0, T::C { r#type: _ } => 1, T::A => 2 } }
pub fn o_cmp(a: &T, b: &T) -> Ordering { match (a, b) { (T::None {  }, T::None {  }) => {  Ordering::Equal }, (T::C { r#type: a0 }, T::C { r#type: b0 }) => { let c = m_cmp(a0, b0); if c != Ordering::Equal { return c; } Ordering::Equal }, (T::A, T::A) => {  Ordering::Equal }, _ => o_disc(a).cmp(&o_disc(b)) } }
pub fn run(out: &mut Out) { let vs = values(); for (i, a) in vs.iter().enumerate() { for (j, b) in vs.iter().enumerate() { let e = o_cmp(a, b); let g = ::core::cmp::Ord::cmp(a, b); out.check(g == e, "ord_135", "cmp", || format!("cmp({}, {}) = {:?} expected {:?}", show(a), show(b), g, e)); let g2 = ::core::cmp::PartialOrd::partial_cmp(a, b); out.check(g2 == Some(e), "ord_135", "partial_is_some_cmp", || format!("partial_cmp({}, {}) = {:?} expected Some({:?})", show(a), show(b), g2, e)); } } }
