// into_125
#![allow(dead_code, unused_variables, unused_mut, unused_imports, non_shorthand_field_patterns, clippy::all)]
use crate::support::*;
use educe::Educe;
use core::cmp::Ordering;
#[derive(Educe)]
#[educe(Into(B<2>))]
pub struct T { b: A<1>, #[educe(Into(B<2>))] c: A<3> }
pub fn values() -> Vec<T> { vec![T { b: A(0), c: A(0) }, T { b: A(0), c: A(1) }, T { b: A(0), c: A(7) }, T { b: A(1), c: A(0) }, T { b: A(1), c: A(1) }, T { b: A(1), c: A(7) }, T { b: A(7), c: A(0) }, T { b: A(7), c: A(1) }, T { b: A(7), c: A(7) }] }
pub fn show(x: &T) -> String { #[allow(unused_variables)] match x { T { b: p0, c: p1 } => format!("T({},{})", sv(p0), sv(p1)) } }
pub fn o_into_0(x: T) -> B<2> { match x { T { b: _, c: p1 } => ::core::convert::Into::into(p1) } }
pub fn run(out: &mut Out) { let n = values().len(); for i in 0..n { let a = values().swap_remove(i); let shown = show(&a); let g: B<2> = ::core::convert::Into::into(a); let e = o_into_0(values().swap_remove(i)); out.check(sv(&g) == sv(&e), "into_125", "into", || format!("Into::<B<2>>::into({}) = {} expected {}", shown, sv(&g), sv(&e))); } }
