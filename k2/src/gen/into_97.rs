// into_97
#![allow(dead_code, unused_variables, unused_mut, unused_imports, non_shorthand_field_patterns, clippy::all)]
use crate::support::*;
use educe::Educe;
use core::cmp::Ordering;
#[derive(Educe)]
#[educe(Into(B<0>), Into(B<2>))]
pub struct T { #[educe(Into(B<0>))] #[educe(Into(B<2>, method(m_into)))] other: A<2>, b: A<0>, f: A<3> }
pub fn values() -> Vec<T> { vec![T { other: A(1), b: A(0), f: A(1) }, T { other: A(0), b: A(7), f: A(7) }, T { other: A(7), b: A(7), f: A(7) }, T { other: A(7), b: A(1), f: A(1) }, T { other: A(0), b: A(7), f: A(1) }, T { other: A(0), b: A(1), f: A(1) }, T { other: A(7), b: A(0), f: A(7) }, T { other: A(0), b: A(0), f: A(7) }, T { other: A(7), b: A(0), f: A(1) }, T { other: A(7), b: A(7), f: A(0) }, T { other: A(0), b: A(7), f: A(0) }, T { other: A(7), b: A(7), f: A(1) }] }
pub fn show(x: &T) -> String { #[allow(unused_variables)] match x { T { other: p0, b: p1, f: p2 } => format!("T({},{},{})", sv(p0), sv(p1), sv(p2)) } }
pub fn o_into_0(x: T) -> B<0> { match x { T { other: p0, b: _, f: _ } => ::core::convert::Into::into(p0) } }
pub fn o_into_1(x: T) -> B<2> { match x { T { other: p0, b: _, f: _ } => m_into(p0) } }
pub fn run(out: &mut Out) { let n = values().len(); for i in 0..n { let a = values().swap_remove(i); let shown = show(&a); let g: B<0> = ::core::convert::Into::into(a); let e = o_into_0(values().swap_remove(i)); out.check(sv(&g) == sv(&e), "into_97", "into", || format!("Into::<B<0>>::into({}) = {} expected {}", shown, sv(&g), sv(&e))); } for i in 0..n { let a = values().swap_remove(i); let shown = show(&a); let g: B<2> = ::core::convert::Into::into(a); let e = o_into_1(values().swap_remove(i)); out.check(sv(&g) == sv(&e), "into_97", "into", || format!("Into::<B<2>>::into({}) = {} expected {}", shown, sv(&g), sv(&e))); } }
