// into_22
#![allow(dead_code, unused_variables, unused_mut, unused_imports, non_shorthand_field_patterns, clippy::all)]
use crate::support::*;
use educe::Educe;
use core::cmp::Ordering;
#[derive(Educe)]
#[educe(Into(A<1>), Into(B<1>))]
pub enum T { Some { #[educe(Into(B<1>))] builder: A<3>, #[educe(Into(A<1>))] source: A<1> }, C(#[educe(Into(B<1>, method = "m_into"))] A<1>, #[educe(Into(A<1>))] A<1>), Zed(#[educe(Into(B<1>))] A<0>, A<1>, #[educe(Into(A<1>))] A<1>), V1 { #[educe(Into(A<1>))] #[educe(Into(B<1>, method = "m_into"))] other: A<1>, arg: A<2>, data: A<1> } }
pub fn values() -> Vec<T> { vec![T::Some { builder: A(7), source: A(1) }, T::Some { builder: A(1), source: A(0) }, T::Some { builder: A(7), source: A(7) }, T::C(A(1), A(0)), T::C(A(0), A(7)), T::C(A(7), A(0)), T::Zed(A(0), A(7), A(7)), T::Zed(A(0), A(7), A(1)), T::Zed(A(0), A(7), A(0)), T::V1 { other: A(0), arg: A(0), data: A(1) }, T::V1 { other: A(7), arg: A(7), data: A(0) }, T::V1 { other: A(7), arg: A(1), data: A(7) }] }
pub fn show(x: &T) -> String { #[allow(unused_variables)] match x { T::Some { builder: p0, source: p1 } => format!("Some({},{})", sv(p0), sv(p1)), T::C(p0, p1) => format!("C({},{})", sv(p0), sv(p1)), T::Zed(p0, p1, p2) => format!("Zed({},{},{})", sv(p0), sv(p1), sv(p2)), T::V1 { other: p0, arg: p1, data: p2 } => format!("V1({},{},{})", sv(p0), sv(p1), sv(p2)) } }
pub fn o_into_0(x: T) -> A<1> { match x { T::Some { builder: _, source: p1 } => p1, T::C(_, p1) => p1, T::Zed(_, _, p2) => p2, T::V1 { other: p0, arg: _, data: _ } => p0 } }
pub fn o_into_1(x: T) -> B<1> { match x { T::Some { builder: p0, source: _ } => ::core::convert::Into::into(p0), T::C(p0, _) => m_into(p0), T::Zed(p0, _, _) => ::core::convert::Into::into(p0), T::V1 { other: p0, arg: _, data: _ } => m_into(p0) } }
pub fn run(out: &mut Out) { let n = values().len(); for i in 0..n { let a = values().swap_remove(i); let shown = show(&a); let g: A<1> = ::core::convert::Into::into(a); let e = o_into_0(values().swap_remove(i)); out.check(sv(&g) == sv(&e), "into_22", "into", || format!("Into::<A<1>>::into({}) = {} expected {}", shown, sv(&g), sv(&e))); } for i in 0..n { let a = values().swap_remove(i); let shown = show(&a); let g: B<1> = ::core::convert::Into::into(a); let e = o_into_1(values().swap_remove(i)); out.check(sv(&g) == sv(&e), "into_22", "into", || format!("Into::<B<1>>::into({}) = {} expected {}", shown, sv(&g), sv(&e))); } }
