// ord_84
#![allow(dead_code, unused_variables, unused_mut, unused_imports, non_shorthand_field_patterns, clippy::all)]
use crate::support::*;
use core::cmp::Ordering;
pub mod ty {
    #![deny(warnings)]
    #![allow(dead_code, unused_imports, non_snake_case)]
    use crate::support::{A, B, C, Good, Bad, m_eq, m_cmp, m_pcmp, m_hash, m_fmt, m_clone, m_clone_c, m_into, g_eq, g_cmp, g_pcmp, g_hash, g_fmt};
    use educe::Educe;
#[derive(Educe)]
#[educe(PartialOrd, PartialEq, Eq, Ord)]
pub enum T { A { #[educe(PartialOrd(rank = "-2"))] b: A<0>, #[educe(PartialOrd(rank("4")))] self_data: A<1>, #[educe(PartialOrd(rank = -1, method(m_cmp)))] f: A<0> }, Some { #[educe(PartialOrd(rank = 0x0))] state: A<0> } }
}
pub use ty::T;

pub fn values() -> Vec<T> { vec![T::A { b: A(1), self_data: A(1), f: A(0) }, T::A { b: A(1), self_data: A(7), f: A(1) }, T::A { b: A(1), self_data: A(7), f: A(7) }, T::A { b: A(7), self_data: A(7), f: A(7) }, T::A { b: A(1), self_data: A(7), f: A(0) }, T::A { b: A(7), self_data: A(7), f: A(0) }, T::A { b: A(7), self_data: A(1), f: A(0) }, T::A { b: A(7), self_data: A(0), f: A(7) }, T::A { b: A(0), self_data: A(0), f: A(0) }, T::A { b: A(7), self_data: A(1), f: A(1) }, T::A { b: A(0), self_data: A(1), f: A(1) }, T::A { b: A(0), self_data: A(7), f: A(0) }, T::A { b: A(0), self_data: A(0), f: A(7) }, T::A { b: A(1), self_data: A(0), f: A(0) }, T::A { b: A(1), self_data: A(1), f: A(1) }, T::A { b: A(0), self_data: A(0), f: A(1) }, T::A { b: A(0), self_data: A(7), f: A(7) }, T::A { b: A(7), self_data: A(0), f: A(1) }, T::Some { state: A(0) }, T::Some { state: A(1) }, T::Some { state: A(7) }] }
pub fn show(x: &T) -> String { #[allow(unused_variables)] match x { T::A { b: p0, self_data: p1, f: p2 } => format!("A({},{},{})", sv(p0), sv(p1), sv(p2)), T::Some { state: p0 } => format!("Some({})", sv(p0)) } }
pub fn o_disc(x: &T) -> i128 { match x { T::A { b: _, self_data: _, f: _ } => 0, T::Some { state: _ } => 1 } }
pub fn o_cmp(a: &T, b: &T) -> Ordering { match (a, b) { (T::A { b: a0, self_data: a1, f: a2 }, T::A { b: b0, self_data: b1, f: b2 }) => { let c = ::core::cmp::Ord::cmp(a0, b0); if c != Ordering::Equal { return c; } let c = m_cmp(a2, b2); if c != Ordering::Equal { return c; } let c = ::core::cmp::Ord::cmp(a1, b1); if c != Ordering::Equal { return c; } Ordering::Equal }, (T::Some { state: a0 }, T::Some { state: b0 }) => { let c = ::core::cmp::Ord::cmp(a0, b0); if c != Ordering::Equal { return c; } Ordering::Equal }, _ => o_disc(a).cmp(&o_disc(b)) } }
pub fn run(out: &mut Out) { let vs = values(); for (i, a) in vs.iter().enumerate() { for (j, b) in vs.iter().enumerate() { let e = o_cmp(a, b); let g = ::core::cmp::Ord::cmp(a, b); out.check(g == e, "ord_84", "cmp", || format!("cmp({}, {}) = {:?} expected {:?}", show(a), show(b), g, e)); let g2 = ::core::cmp::PartialOrd::partial_cmp(a, b); out.check(g2 == Some(e), "ord_84", "partial_is_some_cmp", || format!("partial_cmp({}, {}) = {:?} expected Some({:?})", show(a), show(b), g2, e)); } } }
