// ord_107
#![allow(dead_code, unused_variables, unused_mut, unused_imports, non_shorthand_field_patterns, clippy::all)]
use crate::support::*;
use educe::Educe;
use core::cmp::Ordering;
#[derive(Educe)]
#[repr(i64)]
#[educe(PartialEq, Eq, Ord)]
pub enum T { A = 128, Unit { #[educe(Ord(rank = "-3"))] y: A<0>, #[educe(Ord(rank = "-2"))] a: A<1> } = 255, B(A<0>, #[educe(Ord(ignore = true))] A<1>, #[educe(Ord(method(m_cmp)))] A<0>) = -1 }
impl PartialOrd for T { fn partial_cmp(&self, o: &Self) -> Option<Ordering> { Some(::core::cmp::Ord::cmp(self, o)) } }
pub fn values() -> Vec<T> { vec![T::A, T::Unit { y: A(0), a: A(0) }, T::Unit { y: A(0), a: A(1) }, T::Unit { y: A(0), a: A(7) }, T::Unit { y: A(1), a: A(0) }, T::Unit { y: A(1), a: A(1) }, T::Unit { y: A(1), a: A(7) }, T::Unit { y: A(7), a: A(0) }, T::Unit { y: A(7), a: A(1) }, T::Unit { y: A(7), a: A(7) }, T::B(A(1), A(0), A(7)), T::B(A(7), A(0), A(7)), T::B(A(1), A(0), A(1)), T::B(A(0), A(0), A(7)), T::B(A(1), A(7), A(7)), T::B(A(7), A(0), A(1)), T::B(A(0), A(1), A(7)), T::B(A(0), A(1), A(1)), T::B(A(0), A(7), A(7)), T::B(A(7), A(7), A(0)), T::B(A(0), A(0), A(1)), T::B(A(0), A(0), A(0))] }
pub fn show(x: &T) -> String { #[allow(unused_variables)] match x { T::A => format!("A()"), T::Unit { y: p0, a: p1 } => format!("Unit({},{})", sv(p0), sv(p1)), T::B(p0, p1, p2) => format!("B({},{},{})", sv(p0), sv(p1), sv(p2)) } }
pub fn o_disc(x: &T) -> i128 { match x { T::A => 128, T::Unit { y: _, a: _ } => 255, T::B(_, _, _) => -1 } }
pub fn o_cmp(a: &T, b: &T) -> Ordering { match (a, b) { (T::A, T::A) => {  Ordering::Equal }, (T::Unit { y: a0, a: a1 }, T::Unit { y: b0, a: b1 }) => { let c = ::core::cmp::Ord::cmp(a0, b0); if c != Ordering::Equal { return c; } let c = ::core::cmp::Ord::cmp(a1, b1); if c != Ordering::Equal { return c; } Ordering::Equal }, (T::B(a0, a1, a2), T::B(b0, b1, b2)) => { let c = ::core::cmp::Ord::cmp(a0, b0); if c != Ordering::Equal { return c; } let c = m_cmp(a2, b2); if c != Ordering::Equal { return c; } Ordering::Equal }, _ => o_disc(a).cmp(&o_disc(b)) } }
pub fn run(out: &mut Out) { let vs = values(); for (i, a) in vs.iter().enumerate() { for (j, b) in vs.iter().enumerate() { let e = o_cmp(a, b); let g = ::core::cmp::Ord::cmp(a, b); out.check(g == e, "ord_107", "cmp", || format!("cmp({}, {}) = {:?} expected {:?}", show(a), show(b), g, e)); } } }
