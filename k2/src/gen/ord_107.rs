// ord_107
#![allow(dead_code, unused_variables, unused_mut, unused_imports, non_shorthand_field_patterns, clippy::all)]
use crate::support::*;
use core::cmp::Ordering;
pub mod ty {
    #![deny(warnings)]
    #![allow(dead_code, unused_imports, non_snake_case)]
    use crate::support::{A, B, C, Good, Bad, m_eq, m_cmp, m_pcmp, m_hash, m_fmt, m_clone, m_clone_c, m_into, g_eq, g_cmp, g_pcmp, g_hash, g_fmt};
    use educe::Educe;
#[derive(Educe)]
#[educe(PartialEq, Eq, Ord)]
pub enum T { C(A<0>, A<1>, #[educe(Ord(ignore(true)))] A<0>), V1 { #[educe(Ord(rank("-2")))] _y: A<0>, y: A<1> }, A { #[educe(Ord(method = "m_cmp"))] x: A<0>, #[educe(Ord(rank = 4))] state: A<0>, source: A<0> } }
}
pub use ty::T;
impl PartialOrd for T { fn partial_cmp(&self, o: &Self) -> Option<Ordering> { Some(::core::cmp::Ord::cmp(self, o)) } }
pub fn values() -> Vec<T> { vec![T::C(A(7), A(0), A(1)), T::C(A(0), A(1), A(0)), T::C(A(0), A(0), A(7)), T::C(A(0), A(0), A(1)), T::C(A(7), A(0), A(0)), T::C(A(1), A(7), A(7)), T::C(A(7), A(1), A(7)), T::C(A(7), A(7), A(0)), T::C(A(1), A(7), A(1)), T::C(A(7), A(1), A(0)), T::C(A(7), A(0), A(7)), T::C(A(7), A(7), A(7)), T::V1 { _y: A(0), y: A(0) }, T::V1 { _y: A(0), y: A(1) }, T::V1 { _y: A(0), y: A(7) }, T::V1 { _y: A(1), y: A(0) }, T::V1 { _y: A(1), y: A(1) }, T::V1 { _y: A(1), y: A(7) }, T::V1 { _y: A(7), y: A(0) }, T::V1 { _y: A(7), y: A(1) }, T::V1 { _y: A(7), y: A(7) }, T::A { x: A(1), state: A(7), source: A(0) }, T::A { x: A(0), state: A(1), source: A(0) }, T::A { x: A(0), state: A(0), source: A(7) }, T::A { x: A(7), state: A(0), source: A(1) }, T::A { x: A(7), state: A(7), source: A(7) }, T::A { x: A(1), state: A(7), source: A(7) }, T::A { x: A(1), state: A(0), source: A(1) }, T::A { x: A(1), state: A(1), source: A(0) }, T::A { x: A(7), state: A(7), source: A(0) }, T::A { x: A(0), state: A(0), source: A(1) }, T::A { x: A(7), state: A(7), source: A(1) }, T::A { x: A(7), state: A(1), source: A(1) }] }
pub fn show(x: &T) -> String { #[allow(unused_variables)] match x { T::C(p0, p1, p2) => format!("C({},{},{})", sv(p0), sv(p1), sv(p2)), T::V1 { _y: p0, y: p1 } => format!("V1({},{})", sv(p0), sv(p1)), T::A { x: p0, state: p1, source: p2 } => format!("A({},{},{})", sv(p0), sv(p1), sv(p2)) } }
pub fn o_disc(x: &T) -> i128 { match x { T::C(_, _, _) => 0, T::V1 { _y: _, y: _ } => 1, T::A { x: _, state: _, source: _ } => 2 } }
pub fn o_cmp(a: &T, b: &T) -> Ordering { match (a, b) { (T::C(a0, a1, a2), T::C(b0, b1, b2)) => { let c = ::core::cmp::Ord::cmp(a0, b0); if c != Ordering::Equal { return c; } let c = ::core::cmp::Ord::cmp(a1, b1); if c != Ordering::Equal { return c; } Ordering::Equal }, (T::V1 { _y: a0, y: a1 }, T::V1 { _y: b0, y: b1 }) => { let c = ::core::cmp::Ord::cmp(a1, b1); if c != Ordering::Equal { return c; } let c = ::core::cmp::Ord::cmp(a0, b0); if c != Ordering::Equal { return c; } Ordering::Equal }, (T::A { x: a0, state: a1, source: a2 }, T::A { x: b0, state: b1, source: b2 }) => { let c = m_cmp(a0, b0); if c != Ordering::Equal { return c; } let c = ::core::cmp::Ord::cmp(a2, b2); if c != Ordering::Equal { return c; } let c = ::core::cmp::Ord::cmp(a1, b1); if c != Ordering::Equal { return c; } Ordering::Equal }, _ => o_disc(a).cmp(&o_disc(b)) } }
pub fn run(out: &mut Out) { let vs = values(); for (i, a) in vs.iter().enumerate() { for (j, b) in vs.iter().enumerate() { let e = o_cmp(a, b); let g = ::core::cmp::Ord::cmp(a, b); out.check(g == e, "ord_107", "cmp", || format!("cmp({}, {}) = {:?} expected {:?}", show(a), show(b), g, e)); } } }
