// default_18
#![allow(dead_code, unused_variables, unused_mut, unused_imports, non_shorthand_field_patterns, clippy::all)]
use crate::support::*;
use educe::Educe;
use core::cmp::Ordering;
#[derive(Educe)]
#[educe(Default(new))]
pub enum T { #[educe(Default)] None { #[educe(Default(expr(A(9))))] builder: A<3>, size: Option<u8>, _0: char }, Unit { f: char, arg: bool } }
pub fn show(x: &T) -> String { #[allow(unused_variables)] match x { T::None { builder: p0, size: p1, _0: p2 } => format!("None({},{},{})", sv(p0), sv(p1), sv(p2)), T::Unit { f: p0, arg: p1 } => format!("Unit({},{})", sv(p0), sv(p1)) } }
pub fn o_default() -> T { T::None { builder: A(9), size: None, _0: '\0' } }
pub fn run(out: &mut Out) { let g = <T as ::core::default::Default>::default(); let e = o_default(); out.check(show(&g) == show(&e), "default_18", "default", || format!("default() = {} expected {}", show(&g), show(&e))); let g = T::new(); let e = o_default(); out.check(show(&g) == show(&e), "default_18", "new", || format!("new() = {} expected {}", show(&g), show(&e))); }
