// default_98
#![allow(dead_code, unused_variables, unused_mut, unused_imports, non_shorthand_field_patterns, clippy::all)]
use crate::support::*;
use educe::Educe;
use core::cmp::Ordering;
#[derive(Educe)]
#[educe(Default(new = true))]
pub struct T { #[educe(Default = 1_000)] b: i64, arg: u8, #[educe(Default = 12)] size: i64 }
pub fn show(x: &T) -> String { #[allow(unused_variables)] match x { T { b: p0, arg: p1, size: p2 } => format!("T({},{},{})", sv(p0), sv(p1), sv(p2)) } }
pub fn o_default() -> T { T { b: 1000i64, arg: 0u8, size: 12i64 } }
pub fn run(out: &mut Out) { let g = <T as ::core::default::Default>::default(); let e = o_default(); out.check(show(&g) == show(&e), "default_98", "default", || format!("default() = {} expected {}", show(&g), show(&e))); let g = T::new(); let e = o_default(); out.check(show(&g) == show(&e), "default_98", "new", || format!("new() = {} expected {}", show(&g), show(&e))); }
