// debug_72
#![allow(dead_code, unused_variables, unused_mut, unused_imports, non_shorthand_field_patterns, clippy::all)]
use crate::support::*;
use educe::Educe;
use core::cmp::Ordering;
#[derive(Educe)]
#[educe(Debug(name("Zz")))]
pub enum T { B { size: A<0>, state: A<1> }, Unit }
pub fn values() -> Vec<T> { vec![T::B { size: A(0), state: A(0) }, T::B { size: A(0), state: A(1) }, T::B { size: A(0), state: A(7) }, T::B { size: A(1), state: A(0) }, T::B { size: A(1), state: A(1) }, T::B { size: A(1), state: A(7) }, T::B { size: A(7), state: A(0) }, T::B { size: A(7), state: A(1) }, T::B { size: A(7), state: A(7) }, T::Unit] }
pub fn show(x: &T) -> String { #[allow(unused_variables)] match x { T::B { size: p0, state: p1 } => format!("B({},{})", sv(p0), sv(p1)), T::Unit => format!("Unit()") } }
pub fn o_fmt(x: &T, f: &mut ::core::fmt::Formatter<'_>) -> ::core::fmt::Result { match x { T::B { size: p0, state: p1 } => f.debug_struct("Zz::B").field("size", p0).field("state", p1).finish(), T::Unit => f.write_str("Zz::Unit") } }

pub fn run(out: &mut Out) { let vs = values(); for a in &vs { let g = format!("{:?}", a); let e = format!("{:?}", Fm(|f: &mut ::core::fmt::Formatter<'_>| o_fmt(a, f))); out.check(g == e, "debug_72", "debug", || format!("{{:?}} of {} = {:?} expected {:?}", show(a), g, e)); let g = format!("{:#?}", a); let e = format!("{:#?}", Fm(|f: &mut ::core::fmt::Formatter<'_>| o_fmt(a, f))); out.check(g == e, "debug_72", "debug_alt", || format!("{{:#?}} of {} = {:?} expected {:?}", show(a), g, e)); let g = format!("{:8?}", a); let e = format!("{:8?}", Fm(|f: &mut ::core::fmt::Formatter<'_>| o_fmt(a, f))); out.check(g == e, "debug_72", "debug_width", || format!("{{:8?}} of {} = {:?} expected {:?}", show(a), g, e)); }  }
