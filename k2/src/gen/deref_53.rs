// deref_53
#![allow(dead_code, unused_variables, unused_mut, unused_imports, non_shorthand_field_patterns, clippy::all)]
use crate::support::*;
use educe::Educe;
use core::cmp::Ordering;
#[derive(Educe)]
#[educe(DerefMut, Deref)]
pub enum T { None(A<1>, A<1>, A<1>, #[educe(Deref, DerefMut)] A<2>), C { a: A<2> }, Zed(A<1>, #[educe(DerefMut, Deref)] A<2>), B { f: A<1>, #[educe(Deref, DerefMut)] arg: A<2>, x: A<2>, data: A<1> } }
pub fn values() -> Vec<T> { vec![T::None(A(7), A(7), A(1), A(1)), T::None(A(7), A(1), A(7), A(1)), T::None(A(7), A(7), A(0), A(7)), T::None(A(1), A(1), A(0), A(1)), T::C { a: A(0) }, T::C { a: A(1) }, T::C { a: A(7) }, T::Zed(A(0), A(7)), T::Zed(A(7), A(0)), T::Zed(A(1), A(0)), T::Zed(A(0), A(1)), T::B { f: A(7), arg: A(7), x: A(7), data: A(1) }, T::B { f: A(0), arg: A(7), x: A(0), data: A(0) }, T::B { f: A(1), arg: A(7), x: A(7), data: A(7) }, T::B { f: A(1), arg: A(1), x: A(0), data: A(0) }] }
pub fn show(x: &T) -> String { #[allow(unused_variables)] match x { T::None(p0, p1, p2, p3) => format!("None({},{},{},{})", sv(p0), sv(p1), sv(p2), sv(p3)), T::C { a: p0 } => format!("C({})", sv(p0)), T::Zed(p0, p1) => format!("Zed({},{})", sv(p0), sv(p1)), T::B { f: p0, arg: p1, x: p2, data: p3 } => format!("B({},{},{},{})", sv(p0), sv(p1), sv(p2), sv(p3)) } }
pub fn o_deref(x: &T) -> *const A<2> { match x { T::None(_, _, _, p3) => p3 as *const A<2>, T::C { a: p0 } => p0 as *const A<2>, T::Zed(_, p1) => p1 as *const A<2>, T::B { f: _, arg: p1, x: _, data: _ } => p1 as *const A<2> } }
pub fn o_deref_mut(x: &mut T) -> *mut A<2> { match x { T::None(_, _, _, p3) => p3 as *mut A<2>, T::C { a: p0 } => p0 as *mut A<2>, T::Zed(_, p1) => p1 as *mut A<2>, T::B { f: _, arg: p1, x: _, data: _ } => p1 as *mut A<2> } }
pub fn o_write(x: &mut T) { match x { T::None(_, _, _, p3) => { *p3 = A(99); }, T::C { a: p0 } => { *p0 = A(99); }, T::Zed(_, p1) => { *p1 = A(99); }, T::B { f: _, arg: p1, x: _, data: _ } => { *p1 = A(99); } } }
pub fn run(out: &mut Out) { let vs = values(); for a in &vs { let g = ::core::ops::Deref::deref(a) as *const A<2>; let e = o_deref(a); out.check(g == e, "deref_53", "deref", || format!("&*{} has another address than the designated field", show(a))); } let n = vs.len(); for i in 0..n { let mut x = values().swap_remove(i); let e = o_deref_mut(&mut x); let g = ::core::ops::DerefMut::deref_mut(&mut x) as *mut A<2>; out.check(g == e, "deref_53", "deref_mut", || format!("&mut *{} has another address than the designated field", show(&x))); let mut y = values().swap_remove(i); o_write(&mut y); *::core::ops::DerefMut::deref_mut(&mut x) = A(99); out.check(show(&x) == show(&y), "deref_53", "deref_mut_write", || format!("after a write through &mut *x: {} expected {}", show(&x), show(&y))); } }
