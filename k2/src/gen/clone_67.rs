// clone_67
#![allow(dead_code, unused_variables, unused_mut, unused_imports, non_shorthand_field_patterns, clippy::all)]
use crate::support::*;
use educe::Educe;
use core::cmp::Ordering;
#[derive(Educe)]
#[educe(Clone)]
pub struct T(A<0>);
pub fn values() -> Vec<T> { vec![T(A(0)), T(A(1)), T(A(7))] }
pub fn show(x: &T) -> String { #[allow(unused_variables)] match x { T(p0) => format!("T({})", sv(p0)) } }
pub fn o_clone(x: &T) -> T { match x { T(p0) => T(A(p0.0)) } }
pub fn o_log(x: &T) -> Vec<String> { match x { T(p0) => vec![format!("clone A{} {}", p0.k(), p0.0)] } }
pub fn run(out: &mut Out) { let vs = values(); for a in &vs { let _ = take_log(); let g = ::core::clone::Clone::clone(a); let l = take_log(); let e = o_clone(a); out.check(show(&g) == show(&e), "clone_67", "clone", || format!("clone({}) = {} expected {}", show(a), show(&g), show(&e))); let el = o_log(a); out.check(l == el, "clone_67", "clone_calls", || format!("clone({}) called {:?} expected {:?}", show(a), l, el)); } let n = vs.len(); for i in 0..n { for j in 0..n { let mut x = values().swap_remove(i); let shown = show(&x); ::core::clone::Clone::clone_from(&mut x, &vs[j]); let e = o_clone(&vs[j]); out.check(show(&x) == show(&e), "clone_67", "clone_from", || format!("{}.clone_from({}) = {} expected {}", shown, show(&vs[j]), show(&x), show(&e))); } } }
