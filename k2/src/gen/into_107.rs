// into_107
#![allow(dead_code, unused_variables, unused_mut, unused_imports, non_shorthand_field_patterns, clippy::all)]
use crate::support::*;
use educe::Educe;
use core::cmp::Ordering;
#[derive(Educe)]
#[educe(Into(B<2>))]
pub struct T { other: A<2>, #[educe(Into(B<2>))] source: A<0>, builder: A<2> }
pub fn values() -> Vec<T> { vec![T { other: A(7), source: A(1), builder: A(7) }, T { other: A(0), source: A(0), builder: A(7) }, T { other: A(0), source: A(0), builder: A(1) }, T { other: A(1), source: A(0), builder: A(0) }, T { other: A(1), source: A(1), builder: A(7) }, T { other: A(1), source: A(1), builder: A(1) }, T { other: A(7), source: A(7), builder: A(7) }, T { other: A(7), source: A(1), builder: A(0) }, T { other: A(1), source: A(7), builder: A(1) }, T { other: A(0), source: A(1), builder: A(7) }, T { other: A(1), source: A(0), builder: A(1) }, T { other: A(0), source: A(7), builder: A(0) }] }
pub fn show(x: &T) -> String { #[allow(unused_variables)] match x { T { other: p0, source: p1, builder: p2 } => format!("T({},{},{})", sv(p0), sv(p1), sv(p2)) } }
pub fn o_into_0(x: T) -> B<2> { match x { T { other: _, source: p1, builder: _ } => ::core::convert::Into::into(p1) } }
pub fn run(out: &mut Out) { let n = values().len(); for i in 0..n { let a = values().swap_remove(i); let shown = show(&a); let g: B<2> = ::core::convert::Into::into(a); let e = o_into_0(values().swap_remove(i)); out.check(sv(&g) == sv(&e), "into_107", "into", || format!("Into::<B<2>>::into({}) = {} expected {}", shown, sv(&g), sv(&e))); } }
