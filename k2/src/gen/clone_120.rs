// clone_120
#![allow(dead_code, unused_variables, unused_mut, unused_imports, non_shorthand_field_patterns, clippy::all)]
use crate::support::*;
use educe::Educe;
use core::cmp::Ordering;
#[derive(Educe)]
#[educe(Clone)]
pub enum T { B { a: A<0>, data: A<0> }, None, V1 { #[educe(Clone(method("m_clone")))] data: A<0> }, C }
pub fn values() -> Vec<T> { vec![T::B { a: A(0), data: A(7) }, T::B { a: A(7), data: A(0) }, T::B { a: A(0), data: A(1) }, T::B { a: A(1), data: A(0) }, T::B { a: A(7), data: A(7) }, T::None, T::V1 { data: A(0) }, T::V1 { data: A(1) }, T::V1 { data: A(7) }, T::C] }
pub fn show(x: &T) -> String { #[allow(unused_variables)] match x { T::B { a: p0, data: p1 } => format!("B({},{})", sv(p0), sv(p1)), T::None => format!("None()"), T::V1 { data: p0 } => format!("V1({})", sv(p0)), T::C => format!("C()") } }
pub fn o_clone(x: &T) -> T { match x { T::B { a: p0, data: p1 } => T::B { a: A(p0.0), data: A(p1.0) }, T::None => T::None, T::V1 { data: p0 } => T::V1 { data: A(p0.0.wrapping_add(50)) }, T::C => T::C } }
pub fn o_log(x: &T) -> Vec<String> { match x { T::B { a: p0, data: p1 } => vec![format!("clone A{} {}", p0.k(), p0.0), format!("clone A{} {}", p1.k(), p1.0)], T::None => vec![], T::V1 { data: p0 } => vec![format!("m_clone A{} {}", p0.k(), p0.0)], T::C => vec![] } }
pub fn run(out: &mut Out) { let vs = values(); for a in &vs { let _ = take_log(); let g = ::core::clone::Clone::clone(a); let l = take_log(); let e = o_clone(a); out.check(show(&g) == show(&e), "clone_120", "clone", || format!("clone({}) = {} expected {}", show(a), show(&g), show(&e))); let el = o_log(a); out.check(l == el, "clone_120", "clone_calls", || format!("clone({}) called {:?} expected {:?}", show(a), l, el)); } let n = vs.len(); for i in 0..n { for j in 0..n { let mut x = values().swap_remove(i); let shown = show(&x); ::core::clone::Clone::clone_from(&mut x, &vs[j]); let e = o_clone(&vs[j]); out.check(show(&x) == show(&e), "clone_120", "clone_from", || format!("{}.clone_from({}) = {} expected {}", shown, show(&vs[j]), show(&x), show(&e))); } } }
