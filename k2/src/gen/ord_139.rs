// ord_139
#![allow(dead_code, unused_variables, unused_mut, unused_imports, non_shorthand_field_patterns, clippy::all)]
use crate::support::*;
use educe::Educe;
use core::cmp::Ordering;
#[derive(Educe)]
#[educe(PartialEq, Eq, PartialOrd, Ord)]
pub struct T { #[educe(Ord(rank = 8))] data: A<0>, #[educe(Ord(rank("3")))] c: A<0>, #[educe(Ord(method = "m_cmp"))] arg: A<2> }

pub fn values() -> Vec<T> { vec![T { data: A(0), c: A(0), arg: A(0) }, T { data: A(0), c: A(0), arg: A(1) }, T { data: A(0), c: A(0), arg: A(7) }, T { data: A(0), c: A(1), arg: A(0) }, T { data: A(0), c: A(1), arg: A(1) }, T { data: A(0), c: A(1), arg: A(7) }, T { data: A(0), c: A(7), arg: A(0) }, T { data: A(0), c: A(7), arg: A(1) }, T { data: A(0), c: A(7), arg: A(7) }, T { data: A(1), c: A(0), arg: A(0) }, T { data: A(1), c: A(0), arg: A(1) }, T { data: A(1), c: A(0), arg: A(7) }, T { data: A(1), c: A(1), arg: A(0) }, T { data: A(1), c: A(1), arg: A(1) }, T { data: A(1), c: A(1), arg: A(7) }, T { data: A(1), c: A(7), arg: A(0) }, T { data: A(1), c: A(7), arg: A(1) }, T { data: A(1), c: A(7), arg: A(7) }, T { data: A(7), c: A(0), arg: A(0) }, T { data: A(7), c: A(0), arg: A(1) }, T { data: A(7), c: A(0), arg: A(7) }, T { data: A(7), c: A(1), arg: A(0) }, T { data: A(7), c: A(1), arg: A(1) }, T { data: A(7), c: A(1), arg: A(7) }, T { data: A(7), c: A(7), arg: A(0) }, T { data: A(7), c: A(7), arg: A(1) }, T { data: A(7), c: A(7), arg: A(7) }] }
pub fn show(x: &T) -> String { #[allow(unused_variables)] match x { T { data: p0, c: p1, arg: p2 } => format!("T({},{},{})", sv(p0), sv(p1), sv(p2)) } }
pub fn o_disc(x: &T) -> i128 { match x { T { data: _, c: _, arg: _ } => 0 } }
pub fn o_cmp(a: &T, b: &T) -> Ordering { match (a, b) { (T { data: a0, c: a1, arg: a2 }, T { data: b0, c: b1, arg: b2 }) => { let c = m_cmp(a2, b2); if c != Ordering::Equal { return c; } let c = ::core::cmp::Ord::cmp(a1, b1); if c != Ordering::Equal { return c; } let c = ::core::cmp::Ord::cmp(a0, b0); if c != Ordering::Equal { return c; } Ordering::Equal } } }
pub fn run(out: &mut Out) { let vs = values(); for (i, a) in vs.iter().enumerate() { for (j, b) in vs.iter().enumerate() { let e = o_cmp(a, b); let g = ::core::cmp::Ord::cmp(a, b); out.check(g == e, "ord_139", "cmp", || format!("cmp({}, {}) = {:?} expected {:?}", show(a), show(b), g, e)); let g2 = ::core::cmp::PartialOrd::partial_cmp(a, b); out.check(g2 == Some(e), "ord_139", "partial_is_some_cmp", || format!("partial_cmp({}, {}) = {:?} expected Some({:?})", show(a), show(b), g2, e)); } } }
