// ordlayout_11
#![allow(dead_code, unused_variables, unused_mut, unused_imports, non_shorthand_field_patterns, clippy::all)]
use crate::support::*;
use core::cmp::Ordering;
pub mod ty {
    #![deny(warnings)]
    #![allow(dead_code, unused_imports, non_snake_case)]
    use crate::support::{A, B, C, Good, Bad, m_eq, m_cmp, m_pcmp, m_hash, m_fmt, m_clone, m_clone_c, m_into, g_eq, g_cmp, g_pcmp, g_hash, g_fmt};
    use educe::Educe;
#[derive(Educe)]
#[repr(u16)]
#[educe(PartialOrd, Eq, PartialEq)]
pub enum T { Some { #[educe(PartialOrd(rank = "+5"))] builder: &'static u8, c: char }, A { size: (), source: i64 }, B, C(#[educe(PartialOrd(rank = "+3"))] &'static u8, #[educe(PartialOrd(rank(-2)))] Option<u8>, #[educe(PartialOrd(rank = 0x4))] &'static u8) }
}
pub use ty::T;

pub fn values() -> Vec<T> { vec![T::Some { builder: &3u8, c: 'a' }, T::Some { builder: &3u8, c: 'z' }, T::Some { builder: &200u8, c: 'a' }, T::Some { builder: &200u8, c: 'z' }, T::A { size: (), source: -5 }, T::A { size: (), source: 0 }, T::A { size: (), source: 9 }, T::B, T::C(&200u8, Some(0), &200u8), T::C(&200u8, Some(255), &200u8), T::C(&200u8, None, &200u8), T::C(&200u8, Some(0), &3u8), T::C(&3u8, None, &200u8), T::C(&3u8, Some(255), &200u8), T::C(&200u8, None, &3u8), T::C(&3u8, Some(0), &3u8), T::C(&3u8, Some(0), &200u8)] }
pub fn show(x: &T) -> String { #[allow(unused_variables)] match x { T::Some { builder: p0, c: p1 } => format!("Some({},{})", sv(p0), sv(p1)), T::A { size: p0, source: p1 } => format!("A({},{})", sv(p0), sv(p1)), T::B => format!("B()"), T::C(p0, p1, p2) => format!("C({},{},{})", sv(p0), sv(p1), sv(p2)) } }
pub fn o_disc(x: &T) -> i128 { match x { T::Some { builder: _, c: _ } => 0, T::A { size: _, source: _ } => 1, T::B => 2, T::C(_, _, _) => 3 } }
pub fn o_pcmp(a: &T, b: &T) -> Option<Ordering> { match (a, b) { (T::Some { builder: a0, c: a1 }, T::Some { builder: b0, c: b1 }) => { match ::core::cmp::PartialOrd::partial_cmp(a1, b1) { Some(Ordering::Equal) => (), x => return x } match ::core::cmp::PartialOrd::partial_cmp(a0, b0) { Some(Ordering::Equal) => (), x => return x } Some(Ordering::Equal) }, (T::A { size: a0, source: a1 }, T::A { size: b0, source: b1 }) => { match ::core::cmp::PartialOrd::partial_cmp(a0, b0) { Some(Ordering::Equal) => (), x => return x } match ::core::cmp::PartialOrd::partial_cmp(a1, b1) { Some(Ordering::Equal) => (), x => return x } Some(Ordering::Equal) }, (T::B, T::B) => {  Some(Ordering::Equal) }, (T::C(a0, a1, a2), T::C(b0, b1, b2)) => { match ::core::cmp::PartialOrd::partial_cmp(a1, b1) { Some(Ordering::Equal) => (), x => return x } match ::core::cmp::PartialOrd::partial_cmp(a0, b0) { Some(Ordering::Equal) => (), x => return x } match ::core::cmp::PartialOrd::partial_cmp(a2, b2) { Some(Ordering::Equal) => (), x => return x } Some(Ordering::Equal) }, _ => Some(o_disc(a).cmp(&o_disc(b))) } }
#[repr(C)] pub struct Wrap { pub pre: u8, pub x: T, pub post: [u8; 9] }
pub fn wrap(i: usize, n: u8) -> Wrap { Wrap { pre: n, x: values().swap_remove(i), post: [n; 9] } }
pub fn run(out: &mut Out) { let vs = values(); for (i, a) in vs.iter().enumerate() { for (j, b) in vs.iter().enumerate() { let e = o_pcmp(a, b); let g = ::core::cmp::PartialOrd::partial_cmp(a, b); out.check(g == e, "ordlayout_11", "partial_cmp", || format!("partial_cmp({}, {}) = {:?} expected {:?}", show(a), show(b), g, e)); for n in [0u8, 1, 0x7f, 0x80, 0xff] { let wa = wrap(i, n); let wb = wrap(j, !n); let g = ::core::cmp::PartialOrd::partial_cmp(&wa.x, &wb.x); let e = o_pcmp(a, b); out.check(g == e, "ordlayout_11", "cmp_neighbours", || format!("cmp({}, {}) with neighbour bytes {} = {:?} expected {:?}", show(a), show(b), n, g, e)); } } } }
