// ordlayout_11
#![allow(dead_code, unused_variables, unused_mut, unused_imports, non_shorthand_field_patterns, clippy::all)]
use crate::support::*;
use educe::Educe;
use core::cmp::Ordering;
#[derive(Educe)]
#[repr(i64)]
#[educe(Eq, PartialOrd, PartialEq)]
pub enum T { C(#[educe(PartialOrd(rank = 4i64))] Option<u8>, char), B = 3, A(char) = 128, Unit(::core::num::NonZeroU8, #[educe(PartialOrd(rank(5)))] u8) }

pub fn values() -> Vec<T> { vec![T::C(None, 'a'), T::C(None, 'z'), T::C(Some(0), 'a'), T::C(Some(0), 'z'), T::C(Some(255), 'a'), T::C(Some(255), 'z'), T::B, T::A('a'), T::A('z'), T::Unit(::core::num::NonZeroU8::new(1).unwrap(), 0), T::Unit(::core::num::NonZeroU8::new(1).unwrap(), 100), T::Unit(::core::num::NonZeroU8::new(1).unwrap(), 200), T::Unit(::core::num::NonZeroU8::new(200).unwrap(), 0), T::Unit(::core::num::NonZeroU8::new(200).unwrap(), 100), T::Unit(::core::num::NonZeroU8::new(200).unwrap(), 200)] }
pub fn show(x: &T) -> String { #[allow(unused_variables)] match x { T::C(p0, p1) => format!("C({},{})", sv(p0), sv(p1)), T::B => format!("B()"), T::A(p0) => format!("A({})", sv(p0)), T::Unit(p0, p1) => format!("Unit({},{})", sv(p0), sv(p1)) } }
pub fn o_disc(x: &T) -> i128 { match x { T::C(_, _) => 0, T::B => 3, T::A(_) => 128, T::Unit(_, _) => 129 } }
pub fn o_pcmp(a: &T, b: &T) -> Option<Ordering> { match (a, b) { (T::C(a0, a1), T::C(b0, b1)) => { match ::core::cmp::PartialOrd::partial_cmp(a1, b1) { Some(Ordering::Equal) => (), x => return x } match ::core::cmp::PartialOrd::partial_cmp(a0, b0) { Some(Ordering::Equal) => (), x => return x } Some(Ordering::Equal) }, (T::B, T::B) => {  Some(Ordering::Equal) }, (T::A(a0), T::A(b0)) => { match ::core::cmp::PartialOrd::partial_cmp(a0, b0) { Some(Ordering::Equal) => (), x => return x } Some(Ordering::Equal) }, (T::Unit(a0, a1), T::Unit(b0, b1)) => { match ::core::cmp::PartialOrd::partial_cmp(a0, b0) { Some(Ordering::Equal) => (), x => return x } match ::core::cmp::PartialOrd::partial_cmp(a1, b1) { Some(Ordering::Equal) => (), x => return x } Some(Ordering::Equal) }, _ => Some(o_disc(a).cmp(&o_disc(b))) } }
#[repr(C)] pub struct Wrap { pub pre: u8, pub x: T, pub post: [u8; 9] }
pub fn wrap(i: usize, n: u8) -> Wrap { Wrap { pre: n, x: values().swap_remove(i), post: [n; 9] } }
pub fn run(out: &mut Out) { let vs = values(); for (i, a) in vs.iter().enumerate() { for (j, b) in vs.iter().enumerate() { let e = o_pcmp(a, b); let g = ::core::cmp::PartialOrd::partial_cmp(a, b); out.check(g == e, "ordlayout_11", "partial_cmp", || format!("partial_cmp({}, {}) = {:?} expected {:?}", show(a), show(b), g, e)); for n in [0u8, 1, 0x7f, 0x80, 0xff] { let wa = wrap(i, n); let wb = wrap(j, !n); let g = ::core::cmp::PartialOrd::partial_cmp(&wa.x, &wb.x); let e = o_pcmp(a, b); out.check(g == e, "ordlayout_11", "cmp_neighbours", || format!("cmp({}, {}) with neighbour bytes {} = {:?} expected {:?}", show(a), show(b), n, g, e)); } } } }
