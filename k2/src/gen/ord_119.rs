// ord_119
#![allow(dead_code, unused_variables, unused_mut, unused_imports, non_shorthand_field_patterns, clippy::all)]
use crate::support::*;
use core::cmp::Ordering;
pub mod ty {
    #![deny(warnings)]
    #![allow(dead_code, unused_imports, non_snake_case)]
    use crate::support::{A, B, C, Good, Bad, m_eq, m_cmp, m_pcmp, m_hash, m_fmt, m_clone, m_clone_c, m_into, g_eq, g_cmp, g_pcmp, g_hash, g_fmt};
    use educe::Educe;
#[derive(Educe)]
#[repr(isize)]
#[educe(Ord, PartialEq, Eq)]
pub enum T { B(#[educe(Ord(method = m_cmp, rank = "5"))] A<0>, #[educe(Ord(method = "m_cmp", rank(6)))] A<1>) = 127, None = 1000, Unit { #[educe(Ord(method = m_cmp, rank = -5))] builder: A<0>, other: A<0>, #[educe(Ord(ignore(true)))] data: A<2> }, A {  } = 255 }
}
pub use ty::T;
impl PartialOrd for T { fn partial_cmp(&self, o: &Self) -> Option<Ordering> { Some(::core::cmp::Ord::cmp(self, o)) } }
pub fn values() -> Vec<T> { vec![T::B(A(0), A(0)), T::B(A(0), A(1)), T::B(A(0), A(7)), T::B(A(1), A(0)), T::B(A(1), A(1)), T::B(A(1), A(7)), T::B(A(7), A(0)), T::B(A(7), A(1)), T::B(A(7), A(7)), T::None, T::Unit { builder: A(7), other: A(0), data: A(0) }, T::Unit { builder: A(7), other: A(1), data: A(0) }, T::Unit { builder: A(0), other: A(0), data: A(0) }, T::Unit { builder: A(1), other: A(7), data: A(1) }, T::Unit { builder: A(0), other: A(7), data: A(7) }, T::Unit { builder: A(7), other: A(7), data: A(7) }, T::Unit { builder: A(0), other: A(1), data: A(1) }, T::Unit { builder: A(1), other: A(0), data: A(7) }, T::Unit { builder: A(1), other: A(1), data: A(0) }, T::A {  }] }
pub fn show(x: &T) -> String { #[allow(unused_variables)] match x { T::B(p0, p1) => format!("B({},{})", sv(p0), sv(p1)), T::None => format!("None()"), T::Unit { builder: p0, other: p1, data: p2 } => format!("Unit({},{},{})", sv(p0), sv(p1), sv(p2)), T::A {  } => format!("A()") } }
pub fn o_disc(x: &T) -> i128 { match x { T::B(_, _) => 127, T::None => 1000, T::Unit { builder: _, other: _, data: _ } => 1001, T::A {  } => 255 } }
pub fn o_cmp(a: &T, b: &T) -> Ordering { match (a, b) { (T::B(a0, a1), T::B(b0, b1)) => { let c = m_cmp(a0, b0); if c != Ordering::Equal { return c; } let c = m_cmp(a1, b1); if c != Ordering::Equal { return c; } Ordering::Equal }, (T::None, T::None) => {  Ordering::Equal }, (T::Unit { builder: a0, other: a1, data: a2 }, T::Unit { builder: b0, other: b1, data: b2 }) => { let c = ::core::cmp::Ord::cmp(a1, b1); if c != Ordering::Equal { return c; } let c = m_cmp(a0, b0); if c != Ordering::Equal { return c; } Ordering::Equal }, (T::A {  }, T::A {  }) => {  Ordering::Equal }, _ => o_disc(a).cmp(&o_disc(b)) } }
pub fn run(out: &mut Out) { let vs = values(); for (i, a) in vs.iter().enumerate() { for (j, b) in vs.iter().enumerate() { let e = o_cmp(a, b); let g = ::core::cmp::Ord::cmp(a, b); out.check(g == e, "ord_119", "cmp", || format!("cmp({}, {}) = {:?} expected {:?}", show(a), show(b), g, e)); } } }
