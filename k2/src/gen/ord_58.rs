// ord_58
#![allow(dead_code, unused_variables, unused_mut, unused_imports, non_shorthand_field_patterns, clippy::all)]
use crate::support::*;
use core::cmp::Ordering;
pub mod ty {
    #![deny(warnings)]
    #![allow(dead_code, unused_imports, non_snake_case)]
    use crate::support::{A, B, C, Good, Bad, m_eq, m_cmp, m_pcmp, m_hash, m_fmt, m_clone, m_clone_c, m_into, g_eq, g_cmp, g_pcmp, g_hash, g_fmt};
    use educe::Educe;
#[derive(Educe)]
#[repr(i64)]
#[educe(PartialEq, Eq, Ord)]
pub enum T { B { #[educe(Ord(ignore(false)))] r#type: A<0> } = 70000, Unit = 2, Some(#[educe(Ord(ignore(true)))] A<0>, #[educe(Ord(rank(-5), method = "m_cmp"))] A<0>, #[educe(Ord(ignore = true))] A<0>), None = 1 }
}
pub use ty::T;
impl PartialOrd for T { fn partial_cmp(&self, o: &Self) -> Option<Ordering> { Some(::core::cmp::Ord::cmp(self, o)) } }
pub fn values() -> Vec<T> { vec![T::B { r#type: A(0) }, T::B { r#type: A(1) }, T::B { r#type: A(7) }, T::Unit, T::Some(A(0), A(1), A(0)), T::Some(A(1), A(0), A(1)), T::Some(A(7), A(1), A(1)), T::Some(A(0), A(0), A(7)), T::Some(A(1), A(7), A(1)), T::Some(A(1), A(1), A(1)), T::Some(A(0), A(1), A(1)), T::Some(A(7), A(0), A(0)), T::Some(A(7), A(1), A(0)), T::None] }
pub fn show(x: &T) -> String { #[allow(unused_variables)] match x { T::B { r#type: p0 } => format!("B({})", sv(p0)), T::Unit => format!("Unit()"), T::Some(p0, p1, p2) => format!("Some({},{},{})", sv(p0), sv(p1), sv(p2)), T::None => format!("None()") } }
pub fn o_disc(x: &T) -> i128 { match x { T::B { r#type: _ } => 70000, T::Unit => 2, T::Some(_, _, _) => 3, T::None => 1 } }
pub fn o_cmp(a: &T, b: &T) -> Ordering { match (a, b) { (T::B { r#type: a0 }, T::B { r#type: b0 }) => { let c = ::core::cmp::Ord::cmp(a0, b0); if c != Ordering::Equal { return c; } Ordering::Equal }, (T::Unit, T::Unit) => {  Ordering::Equal }, (T::Some(a0, a1, a2), T::Some(b0, b1, b2)) => { let c = m_cmp(a1, b1); if c != Ordering::Equal { return c; } Ordering::Equal }, (T::None, T::None) => {  Ordering::Equal }, _ => o_disc(a).cmp(&o_disc(b)) } }
pub fn run(out: &mut Out) { let vs = values(); for (i, a) in vs.iter().enumerate() { for (j, b) in vs.iter().enumerate() { let e = o_cmp(a, b); let g = ::core::cmp::Ord::cmp(a, b); out.check(g == e, "ord_58", "cmp", || format!("cmp({}, {}) = {:?} expected {:?}", show(a), show(b), g, e)); } } }
