// into_52
#![allow(dead_code, unused_variables, unused_mut, unused_imports, non_shorthand_field_patterns, clippy::all)]
use crate::support::*;
use educe::Educe;
use core::cmp::Ordering;
#[derive(Educe)]
#[educe(Into(A<0>), Into(B<0>))]
pub struct T(#[educe(Into(A<0>))] #[educe(Into(B<0>, method = "m_into"))] A<0>, A<2>);
pub fn values() -> Vec<T> { vec![T(A(0), A(0)), T(A(0), A(1)), T(A(0), A(7)), T(A(1), A(0)), T(A(1), A(1)), T(A(1), A(7)), T(A(7), A(0)), T(A(7), A(1)), T(A(7), A(7))] }
pub fn show(x: &T) -> String { #[allow(unused_variables)] match x { T(p0, p1) => format!("T({},{})", sv(p0), sv(p1)) } }
pub fn o_into_0(x: T) -> A<0> { match x { T(p0, _) => p0 } }
pub fn o_into_1(x: T) -> B<0> { match x { T(p0, _) => m_into(p0) } }
pub fn run(out: &mut Out) { let n = values().len(); for i in 0..n { let a = values().swap_remove(i); let shown = show(&a); let g: A<0> = ::core::convert::Into::into(a); let e = o_into_0(values().swap_remove(i)); out.check(sv(&g) == sv(&e), "into_52", "into", || format!("Into::<A<0>>::into({}) = {} expected {}", shown, sv(&g), sv(&e))); } for i in 0..n { let a = values().swap_remove(i); let shown = show(&a); let g: B<0> = ::core::convert::Into::into(a); let e = o_into_1(values().swap_remove(i)); out.check(sv(&g) == sv(&e), "into_52", "into", || format!("Into::<B<0>>::into({}) = {} expected {}", shown, sv(&g), sv(&e))); } }
