// into_104
#![allow(dead_code, unused_variables, unused_mut, unused_imports, non_shorthand_field_patterns, clippy::all)]
use crate::support::*;
use educe::Educe;
use core::cmp::Ordering;
#[derive(Educe)]
#[educe(Into(B<0>), Into(B<2>), Into(B<1>))]
pub struct T { #[educe(Into(B<0>, method = "m_into"))] y: A<3>, #[educe(Into(B<1>, method = "m_into"))] other: A<1>, #[educe(Into(B<2>, method(m_into)))] a: A<3> }
pub fn values() -> Vec<T> { vec![T { y: A(0), other: A(7), a: A(1) }, T { y: A(7), other: A(1), a: A(1) }, T { y: A(1), other: A(0), a: A(0) }, T { y: A(0), other: A(0), a: A(7) }, T { y: A(1), other: A(1), a: A(1) }, T { y: A(1), other: A(7), a: A(0) }, T { y: A(7), other: A(0), a: A(7) }, T { y: A(0), other: A(1), a: A(0) }, T { y: A(7), other: A(0), a: A(1) }, T { y: A(7), other: A(1), a: A(0) }, T { y: A(7), other: A(7), a: A(7) }, T { y: A(1), other: A(7), a: A(7) }] }
pub fn show(x: &T) -> String { #[allow(unused_variables)] match x { T { y: p0, other: p1, a: p2 } => format!("T({},{},{})", sv(p0), sv(p1), sv(p2)) } }
pub fn o_into_0(x: T) -> B<0> { match x { T { y: p0, other: _, a: _ } => m_into(p0) } }
pub fn o_into_1(x: T) -> B<2> { match x { T { y: _, other: _, a: p2 } => m_into(p2) } }
pub fn o_into_2(x: T) -> B<1> { match x { T { y: _, other: p1, a: _ } => m_into(p1) } }
pub fn run(out: &mut Out) { let n = values().len(); for i in 0..n { let a = values().swap_remove(i); let shown = show(&a); let g: B<0> = ::core::convert::Into::into(a); let e = o_into_0(values().swap_remove(i)); out.check(sv(&g) == sv(&e), "into_104", "into", || format!("Into::<B<0>>::into({}) = {} expected {}", shown, sv(&g), sv(&e))); } for i in 0..n { let a = values().swap_remove(i); let shown = show(&a); let g: B<2> = ::core::convert::Into::into(a); let e = o_into_1(values().swap_remove(i)); out.check(sv(&g) == sv(&e), "into_104", "into", || format!("Into::<B<2>>::into({}) = {} expected {}", shown, sv(&g), sv(&e))); } for i in 0..n { let a = values().swap_remove(i); let shown = show(&a); let g: B<1> = ::core::convert::Into::into(a); let e = o_into_2(values().swap_remove(i)); out.check(sv(&g) == sv(&e), "into_104", "into", || format!("Into::<B<1>>::into({}) = {} expected {}", shown, sv(&g), sv(&e))); } }
