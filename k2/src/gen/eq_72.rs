// eq_72
#![allow(dead_code, unused_variables, unused_mut, unused_imports, non_shorthand_field_patterns, clippy::all)]
use crate::support::*;
use educe::Educe;
use core::cmp::Ordering;
#[derive(Educe)]
#[educe(PartialEq)]
#[educe(Eq)]
pub enum T { Some, A, Unit(#[educe(Eq(ignore = false))] A<0>) }
pub fn values() -> Vec<T> { vec![T::Some, T::A, T::Unit(A(0)), T::Unit(A(1)), T::Unit(A(7))] }
pub fn show(x: &T) -> String { #[allow(unused_variables)] match x { T::Some => format!("Some()"), T::A => format!("A()"), T::Unit(p0) => format!("Unit({})", sv(p0)) } }
pub fn o_eq(a: &T, b: &T) -> bool { match (a, b) { (T::Some, T::Some) => true, (T::A, T::A) => true, (T::Unit(a0), T::Unit(b0)) => (a0 == b0), _ => false } }
pub fn run(out: &mut Out) { let vs = values(); for a in &vs { for b in &vs { let e = o_eq(a, b); out.check((a == b) == e, "eq_72", "eq", || format!("{} == {} expected {}", show(a), show(b), e)); out.check((a != b) == !e, "eq_72", "ne", || format!("{} != {} expected {}", show(a), show(b), !e)); } } }
