// default_44
#![allow(dead_code, unused_variables, unused_mut, unused_imports, non_shorthand_field_patterns, clippy::all)]
use crate::support::*;
use educe::Educe;
use core::cmp::Ordering;
#[derive(Educe)]
#[educe(Default)]
pub enum T { None(char, char, bool, i64), #[educe(Default)] C(bool) }
pub fn show(x: &T) -> String { #[allow(unused_variables)] match x { T::None(p0, p1, p2, p3) => format!("None({},{},{},{})", sv(p0), sv(p1), sv(p2), sv(p3)), T::C(p0) => format!("C({})", sv(p0)) } }
pub fn o_default() -> T { T::C(false) }
pub fn run(out: &mut Out) { let g = <T as ::core::default::Default>::default(); let e = o_default(); out.check(show(&g) == show(&e), "default_44", "default", || format!("default() = {} expected {}", show(&g), show(&e))); }
