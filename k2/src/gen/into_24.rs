// into_24
#![allow(dead_code, unused_variables, unused_mut, unused_imports, non_shorthand_field_patterns, clippy::all)]
use crate::support::*;
use educe::Educe;
use core::cmp::Ordering;
#[derive(Educe)]
#[educe(Into(A<1>))]
pub enum T { Some(A<2>, A<1>), Zed(#[educe(Into(A<1>))] A<1>, A<1>), V1(A<3>, A<1>), A { _0: A<1>, source: A<2> } }
pub fn values() -> Vec<T> { vec![T::Some(A(1), A(7)), T::Some(A(7), A(0)), T::Some(A(1), A(0)), T::Zed(A(7), A(1)), T::Zed(A(0), A(0)), T::Zed(A(7), A(0)), T::V1(A(0), A(7)), T::V1(A(7), A(1)), T::V1(A(1), A(0)), T::A { _0: A(0), source: A(1) }, T::A { _0: A(0), source: A(7) }, T::A { _0: A(7), source: A(7) }] }
pub fn show(x: &T) -> String { #[allow(unused_variables)] match x { T::Some(p0, p1) => format!("Some({},{})", sv(p0), sv(p1)), T::Zed(p0, p1) => format!("Zed({},{})", sv(p0), sv(p1)), T::V1(p0, p1) => format!("V1({},{})", sv(p0), sv(p1)), T::A { _0: p0, source: p1 } => format!("A({},{})", sv(p0), sv(p1)) } }
pub fn o_into_0(x: T) -> A<1> { match x { T::Some(_, p1) => p1, T::Zed(p0, _) => p0, T::V1(_, p1) => p1, T::A { _0: p0, source: _ } => p0 } }
pub fn run(out: &mut Out) { let n = values().len(); for i in 0..n { let a = values().swap_remove(i); let shown = show(&a); let g: A<1> = ::core::convert::Into::into(a); let e = o_into_0(values().swap_remove(i)); out.check(sv(&g) == sv(&e), "into_24", "into", || format!("Into::<A<1>>::into({}) = {} expected {}", shown, sv(&g), sv(&e))); } }
