// default_65
#![allow(dead_code, unused_variables, unused_mut, unused_imports, non_shorthand_field_patterns, clippy::all)]
use crate::support::*;
use educe::Educe;
use core::cmp::Ordering;
#[derive(Educe)]
#[educe(Default)]
pub enum T { #[educe(Default)] V1(String, #[educe(Default = 5)] u8, A<0>, #[educe(Default(expr = A(9)))] A<0>), B { b: A<0>, arg: A<3>, y: A<3>, a: u16 } }
pub fn show(x: &T) -> String { #[allow(unused_variables)] match x { T::V1(p0, p1, p2, p3) => format!("V1({},{},{},{})", sv(p0), sv(p1), sv(p2), sv(p3)), T::B { b: p0, arg: p1, y: p2, a: p3 } => format!("B({},{},{},{})", sv(p0), sv(p1), sv(p2), sv(p3)) } }
pub fn o_default() -> T { T::V1(String::new(), 5u8, A(40), A(9)) }
pub fn run(out: &mut Out) { let g = <T as ::core::default::Default>::default(); let e = o_default(); out.check(show(&g) == show(&e), "default_65", "default", || format!("default() = {} expected {}", show(&g), show(&e))); }
