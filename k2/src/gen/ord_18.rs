// ord_18
#![allow(dead_code, unused_variables, unused_mut, unused_imports, non_shorthand_field_patterns, clippy::all)]
use crate::support::*;
use core::cmp::Ordering;
pub mod ty {
    #![deny(warnings)]
    #![allow(dead_code, unused_imports, non_snake_case)]
    use crate::support::{A, B, C, Good, Bad, m_eq, m_cmp, m_pcmp, m_hash, m_fmt, m_clone, m_clone_c, m_into, g_eq, g_cmp, g_pcmp, g_hash, g_fmt};
    use educe::Educe;
#[derive(Educe)]
#[repr(C, u8)]
#[educe(Debug)]
#[educe(Eq, PartialEq, Ord)]
pub enum T { None, B { #[educe(Debug(ignore))] c: A<0> }, Some(#[educe(Ord(rank("-6")))] #[educe(Debug(ignore = false))] A<0>, #[educe(Ord(rank(5)))] #[educe(Debug = false)] A<1>), C { #[educe(Ord(method(m_cmp)))] c: A<0>, #[educe(Ord(ignore = true))] _c: A<1>, #[educe(Debug(ignore = true), Ord = false)] other: A<2> } }
}
pub use ty::T;
impl PartialOrd for T { fn partial_cmp(&self, o: &Self) -> Option<Ordering> { Some(::core::cmp::Ord::cmp(self, o)) } }
pub fn values() -> Vec<T> { vec![T::None, T::B { c: A(0) }, T::B { c: A(1) }, T::B { c: A(7) }, T::Some(A(0), A(0)), T::Some(A(0), A(1)), T::Some(A(0), A(7)), T::Some(A(1), A(0)), T::Some(A(1), A(1)), T::Some(A(1), A(7)), T::Some(A(7), A(0)), T::Some(A(7), A(1)), T::Some(A(7), A(7)), T::C { c: A(1), _c: A(1), other: A(7) }, T::C { c: A(7), _c: A(0), other: A(0) }, T::C { c: A(7), _c: A(7), other: A(0) }, T::C { c: A(7), _c: A(0), other: A(7) }, T::C { c: A(0), _c: A(1), other: A(1) }, T::C { c: A(7), _c: A(1), other: A(0) }, T::C { c: A(7), _c: A(7), other: A(7) }, T::C { c: A(0), _c: A(7), other: A(0) }, T::C { c: A(0), _c: A(1), other: A(0) }] }
pub fn show(x: &T) -> String { #[allow(unused_variables)] match x { T::None => format!("None()"), T::B { c: p0 } => format!("B({})", sv(p0)), T::Some(p0, p1) => format!("Some({},{})", sv(p0), sv(p1)), T::C { c: p0, _c: p1, other: p2 } => format!("C({},{},{})", sv(p0), sv(p1), sv(p2)) } }
pub fn o_disc(x: &T) -> i128 { match x { T::None => 0, T::B { c: _ } => 1, T::Some(_, _) => 2, T::C { c: _, _c: _, other: _ } => 3 } }
pub fn o_cmp(a: &T, b: &T) -> Ordering { match (a, b) { (T::None, T::None) => {  Ordering::Equal }, (T::B { c: a0 }, T::B { c: b0 }) => { let c = ::core::cmp::Ord::cmp(a0, b0); if c != Ordering::Equal { return c; } Ordering::Equal }, (T::Some(a0, a1), T::Some(b0, b1)) => { let c = ::core::cmp::Ord::cmp(a0, b0); if c != Ordering::Equal { return c; } let c = ::core::cmp::Ord::cmp(a1, b1); if c != Ordering::Equal { return c; } Ordering::Equal }, (T::C { c: a0, _c: a1, other: a2 }, T::C { c: b0, _c: b1, other: b2 }) => { let c = m_cmp(a0, b0); if c != Ordering::Equal { return c; } Ordering::Equal }, _ => o_disc(a).cmp(&o_disc(b)) } }
pub fn run(out: &mut Out) { let vs = values(); for (i, a) in vs.iter().enumerate() { for (j, b) in vs.iter().enumerate() { let e = o_cmp(a, b); let g = ::core::cmp::Ord::cmp(a, b); out.check(g == e, "ord_18", "cmp", || format!("cmp({}, {}) = {:?} expected {:?}", show(a), show(b), g, e)); } } }
