// ord_18
#![allow(dead_code, unused_variables, unused_mut, unused_imports, non_shorthand_field_patterns, clippy::all)]
use crate::support::*;
use core::cmp::Ordering;
pub mod ty {
    #![deny(warnings)]
    #![allow(dead_code, unused_imports)]
    use crate::support::{A, B, C, Good, Bad, m_eq, m_cmp, m_pcmp, m_hash, m_fmt, m_clone, m_clone_c, m_into, g_eq, g_cmp, g_pcmp, g_hash, g_fmt};
    use educe::Educe;

    // names at the derive site that shadow everything the generated code might be tempted to write unqualified
    #[allow(non_camel_case_types)] pub struct Option; pub struct Result; pub struct Ordering; pub struct Clone; pub struct Copy;
    pub struct Default; pub struct Debug; pub struct PartialEq; pub struct Eq; pub struct PartialOrd; pub struct Ord; pub struct Hash;
    pub struct Hasher; pub struct Into; pub struct From; pub struct Deref; pub struct DerefMut; pub struct Formatter; pub struct String;
    pub struct Vec; pub struct Box; pub struct PhantomData; pub struct Sized; pub struct Send; pub struct Iterator; pub struct Self_;
    #[allow(non_snake_case)] pub fn Some() {} #[allow(non_snake_case)] pub fn None() {} #[allow(non_snake_case)] pub fn Ok() {} #[allow(non_snake_case)] pub fn Err() {}
    pub fn drop() {} pub mod core {} pub mod std {} pub mod alloc {} pub mod fmt {} pub mod cmp {} pub mod hash {} pub mod clone {} pub mod marker {}
    #[allow(unused_macros)] macro_rules! stringify { ($($t:tt)*) => { "SHADOWED" } }
    #[allow(unused_macros)] macro_rules! unreachable { ($($t:tt)*) => { () } }
    #[allow(unused_macros)] macro_rules! panic { ($($t:tt)*) => { () } }
    #[allow(unused_macros)] macro_rules! matches { ($($t:tt)*) => { true } }
    #[allow(unused_macros)] macro_rules! write { ($($t:tt)*) => { () } }
    #[allow(unused_macros)] macro_rules! format_args { ($($t:tt)*) => { () } }
    #[allow(unused_macros)] macro_rules! assert { ($($t:tt)*) => { () } }
#[derive(Educe)]
#[repr(u8)]
#[educe(Eq, Ord, PartialEq)]
pub enum T { A(#[educe(Ord = false)] A<0>, #[educe(Ord(rank = 8))] A<1>, #[educe(Ord(ignore(true)))] A<0>) }
}
pub use ty::T;
impl PartialOrd for T { fn partial_cmp(&self, o: &Self) -> Option<Ordering> { Some(::core::cmp::Ord::cmp(self, o)) } }
pub fn values() -> Vec<T> { vec![T::A(A(0), A(0), A(0)), T::A(A(0), A(0), A(1)), T::A(A(0), A(0), A(7)), T::A(A(0), A(1), A(0)), T::A(A(0), A(1), A(1)), T::A(A(0), A(1), A(7)), T::A(A(0), A(7), A(0)), T::A(A(0), A(7), A(1)), T::A(A(0), A(7), A(7)), T::A(A(1), A(0), A(0)), T::A(A(1), A(0), A(1)), T::A(A(1), A(0), A(7)), T::A(A(1), A(1), A(0)), T::A(A(1), A(1), A(1)), T::A(A(1), A(1), A(7)), T::A(A(1), A(7), A(0)), T::A(A(1), A(7), A(1)), T::A(A(1), A(7), A(7)), T::A(A(7), A(0), A(0)), T::A(A(7), A(0), A(1)), T::A(A(7), A(0), A(7)), T::A(A(7), A(1), A(0)), T::A(A(7), A(1), A(1)), T::A(A(7), A(1), A(7)), T::A(A(7), A(7), A(0)), T::A(A(7), A(7), A(1)), T::A(A(7), A(7), A(7))] }
pub fn show(x: &T) -> String { #[allow(unused_variables)] match x { T::A(p0, p1, p2) => format!("A({},{},{})", sv(p0), sv(p1), sv(p2)) } }
pub fn o_disc(x: &T) -> i128 { match x { T::A(_, _, _) => 0 } }
pub fn o_cmp(a: &T, b: &T) -> Ordering { match (a, b) { (T::A(a0, a1, a2), T::A(b0, b1, b2)) => { let c = ::core::cmp::Ord::cmp(a1, b1); if c != Ordering::Equal { return c; } Ordering::Equal } } }
pub fn run(out: &mut Out) { let vs = values(); for (i, a) in vs.iter().enumerate() { for (j, b) in vs.iter().enumerate() { let e = o_cmp(a, b); let g = ::core::cmp::Ord::cmp(a, b); out.check(g == e, "ord_18", "cmp", || format!("cmp({}, {}) = {:?} expected {:?}", show(a), show(b), g, e)); } } }
