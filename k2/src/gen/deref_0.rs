// deref_0
#![allow(dead_code, unused_variables, unused_mut, unused_imports, non_shorthand_field_patterns, clippy::all)]
use crate::support::*;
use educe::Educe;
use core::cmp::Ordering;
#[derive(Educe)]
#[educe(Deref)]
pub enum T { Some(#[educe(Deref)] &'static A<0>, A<2>), B(A<0>, A<2>, A<1>, #[educe(Deref)] &'static A<0>) }
pub fn values() -> Vec<T> { vec![T::Some(&A(0), A(0)), T::Some(&A(0), A(1)), T::Some(&A(0), A(7)), T::Some(&A(1), A(0)), T::Some(&A(1), A(1)), T::Some(&A(1), A(7)), T::B(A(0), A(7), A(7), &A(1)), T::B(A(0), A(1), A(1), &A(0)), T::B(A(7), A(7), A(0), &A(0)), T::B(A(0), A(0), A(0), &A(0)), T::B(A(7), A(7), A(1), &A(0)), T::B(A(7), A(1), A(0), &A(1)), T::B(A(1), A(1), A(0), &A(0)), T::B(A(1), A(0), A(7), &A(0))] }
pub fn show(x: &T) -> String { #[allow(unused_variables)] match x { T::Some(p0, p1) => format!("Some({},{})", sv(p0), sv(p1)), T::B(p0, p1, p2, p3) => format!("B({},{},{},{})", sv(p0), sv(p1), sv(p2), sv(p3)) } }
pub fn o_deref(x: &T) -> *const A<0> { match x { T::Some(p0, _) => *p0 as *const A<0>, T::B(_, _, _, p3) => *p3 as *const A<0> } }
pub fn run(out: &mut Out) { let vs = values(); for a in &vs { let g = ::core::ops::Deref::deref(a) as *const A<0>; let e = o_deref(a); out.check(g == e, "deref_0", "deref", || format!("&*{} has another address than the designated field", show(a))); } }
