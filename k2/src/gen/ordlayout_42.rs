// ordlayout_42
#![allow(dead_code, unused_variables, unused_mut, unused_imports, non_shorthand_field_patterns, clippy::all)]
use crate::support::*;
use educe::Educe;
use core::cmp::Ordering;
#[derive(Educe)]
#[repr(u16)]
#[educe(Ord, Eq, PartialEq)]
pub enum T { B { size: u8, #[educe(Ord(rank("2")))] y: bool } }
impl PartialOrd for T { fn partial_cmp(&self, o: &Self) -> Option<Ordering> { Some(::core::cmp::Ord::cmp(self, o)) } }
pub fn values() -> Vec<T> { vec![T::B { size: 0, y: false }, T::B { size: 0, y: true }, T::B { size: 100, y: false }, T::B { size: 100, y: true }, T::B { size: 200, y: false }, T::B { size: 200, y: true }] }
pub fn show(x: &T) -> String { #[allow(unused_variables)] match x { T::B { size: p0, y: p1 } => format!("B({},{})", sv(p0), sv(p1)) } }
pub fn o_disc(x: &T) -> i128 { match x { T::B { size: _, y: _ } => 0 } }
pub fn o_cmp(a: &T, b: &T) -> Ordering { match (a, b) { (T::B { size: a0, y: a1 }, T::B { size: b0, y: b1 }) => { let c = ::core::cmp::Ord::cmp(a0, b0); if c != Ordering::Equal { return c; } let c = ::core::cmp::Ord::cmp(a1, b1); if c != Ordering::Equal { return c; } Ordering::Equal } } }
#[repr(C)] pub struct Wrap { pub pre: u8, pub x: T, pub post: [u8; 9] }
pub fn wrap(i: usize, n: u8) -> Wrap { Wrap { pre: n, x: values().swap_remove(i), post: [n; 9] } }
pub fn run(out: &mut Out) { let vs = values(); for (i, a) in vs.iter().enumerate() { for (j, b) in vs.iter().enumerate() { let e = o_cmp(a, b); let g = ::core::cmp::Ord::cmp(a, b); out.check(g == e, "ordlayout_42", "cmp", || format!("cmp({}, {}) = {:?} expected {:?}", show(a), show(b), g, e)); for n in [0u8, 1, 0x7f, 0x80, 0xff] { let wa = wrap(i, n); let wb = wrap(j, !n); let g = ::core::cmp::Ord::cmp(&wa.x, &wb.x); let e = o_cmp(a, b); out.check(g == e, "ordlayout_42", "cmp_neighbours", || format!("cmp({}, {}) with neighbour bytes {} = {:?} expected {:?}", show(a), show(b), n, g, e)); } } } }
