// deref_22
#![allow(dead_code, unused_variables, unused_mut, unused_imports, non_shorthand_field_patterns, clippy::all)]
use crate::support::*;
use educe::Educe;
use core::cmp::Ordering;
#[derive(Educe)]
#[educe(Deref)]
pub enum T { Some(A<0>), Zed { x: A<0>, #[educe(Deref)] c: A<0> }, C { data: A<0> } }
pub fn values() -> Vec<T> { vec![T::Some(A(0)), T::Some(A(1)), T::Some(A(7)), T::Zed { x: A(1), c: A(1) }, T::Zed { x: A(1), c: A(0) }, T::Zed { x: A(7), c: A(7) }, T::Zed { x: A(1), c: A(7) }, T::Zed { x: A(7), c: A(0) }, T::C { data: A(0) }, T::C { data: A(1) }, T::C { data: A(7) }] }
pub fn show(x: &T) -> String { #[allow(unused_variables)] match x { T::Some(p0) => format!("Some({})", sv(p0)), T::Zed { x: p0, c: p1 } => format!("Zed({},{})", sv(p0), sv(p1)), T::C { data: p0 } => format!("C({})", sv(p0)) } }
pub fn o_deref(x: &T) -> *const A<0> { match x { T::Some(p0) => p0 as *const A<0>, T::Zed { x: _, c: p1 } => p1 as *const A<0>, T::C { data: p0 } => p0 as *const A<0> } }
pub fn run(out: &mut Out) { let vs = values(); for a in &vs { let g = ::core::ops::Deref::deref(a) as *const A<0>; let e = o_deref(a); out.check(g == e, "deref_22", "deref", || format!("&*{} has another address than the designated field", show(a))); } }
