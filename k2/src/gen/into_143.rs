// into_143
#![allow(dead_code, unused_variables, unused_mut, unused_imports, non_shorthand_field_patterns, clippy::all)]
use crate::support::*;
use educe::Educe;
use core::cmp::Ordering;
#[derive(Educe)]
#[educe(Into(A<1>))]
pub struct T { source: A<3>, builder: A<1>, _0: A<2> }
pub fn values() -> Vec<T> { vec![T { source: A(0), builder: A(0), _0: A(0) }, T { source: A(7), builder: A(7), _0: A(7) }, T { source: A(7), builder: A(0), _0: A(1) }, T { source: A(0), builder: A(7), _0: A(7) }, T { source: A(7), builder: A(1), _0: A(1) }, T { source: A(7), builder: A(0), _0: A(7) }, T { source: A(0), builder: A(1), _0: A(0) }, T { source: A(1), builder: A(1), _0: A(0) }, T { source: A(1), builder: A(0), _0: A(7) }, T { source: A(0), builder: A(7), _0: A(0) }, T { source: A(1), builder: A(7), _0: A(0) }, T { source: A(1), builder: A(1), _0: A(7) }] }
pub fn show(x: &T) -> String { #[allow(unused_variables)] match x { T { source: p0, builder: p1, _0: p2 } => format!("T({},{},{})", sv(p0), sv(p1), sv(p2)) } }
pub fn o_into_0(x: T) -> A<1> { match x { T { source: _, builder: p1, _0: _ } => p1 } }
pub fn run(out: &mut Out) { let n = values().len(); for i in 0..n { let a = values().swap_remove(i); let shown = show(&a); let g: A<1> = ::core::convert::Into::into(a); let e = o_into_0(values().swap_remove(i)); out.check(sv(&g) == sv(&e), "into_143", "into", || format!("Into::<A<1>>::into({}) = {} expected {}", shown, sv(&g), sv(&e))); } }
