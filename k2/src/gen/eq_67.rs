// eq_67
#![allow(dead_code, unused_variables, unused_mut, unused_imports, non_shorthand_field_patterns, clippy::all)]
use crate::support::*;
use educe::Educe;
use core::cmp::Ordering;
#[derive(Educe)]
#[educe(PartialEq)]
pub enum T { Zed { state: A<0>, other: A<1>, #[educe(PartialEq = false)] arg: A<2> }, Unit {  } }
pub fn values() -> Vec<T> { vec![T::Zed { state: A(7), other: A(7), arg: A(7) }, T::Zed { state: A(0), other: A(7), arg: A(7) }, T::Zed { state: A(1), other: A(0), arg: A(1) }, T::Zed { state: A(0), other: A(7), arg: A(0) }, T::Zed { state: A(1), other: A(7), arg: A(0) }, T::Zed { state: A(1), other: A(7), arg: A(1) }, T::Zed { state: A(0), other: A(1), arg: A(0) }, T::Zed { state: A(1), other: A(0), arg: A(7) }, T::Zed { state: A(7), other: A(7), arg: A(0) }, T::Zed { state: A(7), other: A(0), arg: A(0) }, T::Zed { state: A(0), other: A(1), arg: A(7) }, T::Zed { state: A(7), other: A(0), arg: A(1) }, T::Zed { state: A(1), other: A(1), arg: A(1) }, T::Zed { state: A(1), other: A(1), arg: A(0) }, T::Zed { state: A(7), other: A(1), arg: A(0) }, T::Zed { state: A(0), other: A(0), arg: A(0) }, T::Zed { state: A(0), other: A(7), arg: A(1) }, T::Zed { state: A(0), other: A(1), arg: A(1) }, T::Zed { state: A(0), other: A(0), arg: A(7) }, T::Zed { state: A(0), other: A(0), arg: A(1) }, T::Zed { state: A(1), other: A(7), arg: A(7) }, T::Zed { state: A(7), other: A(7), arg: A(1) }, T::Zed { state: A(7), other: A(1), arg: A(7) }, T::Zed { state: A(1), other: A(1), arg: A(7) }, T::Unit {  }] }
pub fn show(x: &T) -> String { #[allow(unused_variables)] match x { T::Zed { state: p0, other: p1, arg: p2 } => format!("Zed({},{},{})", sv(p0), sv(p1), sv(p2)), T::Unit {  } => format!("Unit()") } }
pub fn o_eq(a: &T, b: &T) -> bool { match (a, b) { (T::Zed { state: a0, other: a1, arg: a2 }, T::Zed { state: b0, other: b1, arg: b2 }) => (a0 == b0) && (a1 == b1), (T::Unit {  }, T::Unit {  }) => true, _ => false } }
pub fn run(out: &mut Out) { let vs = values(); for a in &vs { for b in &vs { let e = o_eq(a, b); out.check((a == b) == e, "eq_67", "eq", || format!("{} == {} expected {}", show(a), show(b), e)); out.check((a != b) == !e, "eq_67", "ne", || format!("{} != {} expected {}", show(a), show(b), !e)); } } }
