// debug_22
#![allow(dead_code, unused_variables, unused_mut, unused_imports, non_shorthand_field_patterns, clippy::all)]
use crate::support::*;
use educe::Educe;
use core::cmp::Ordering;
#[derive(Educe)]
#[educe(Debug(rename("Zz")))]
pub enum T { #[educe(Debug(rename = Ren))] A(A<0>, A<0>), #[educe(Debug(named_field = false))] Zed { #[educe(Debug(ignore))] x: A<0>, #[educe(Debug(method = m_fmt))] source: A<0>, #[educe(Debug(method = m_fmt))] size: A<2> } }
pub fn values() -> Vec<T> { vec![T::A(A(0), A(0)), T::A(A(0), A(1)), T::A(A(0), A(7)), T::A(A(1), A(0)), T::A(A(1), A(1)), T::A(A(1), A(7)), T::A(A(7), A(0)), T::A(A(7), A(1)), T::A(A(7), A(7)), T::Zed { x: A(1), source: A(7), size: A(1) }, T::Zed { x: A(0), source: A(7), size: A(1) }, T::Zed { x: A(0), source: A(1), size: A(1) }, T::Zed { x: A(1), source: A(0), size: A(0) }, T::Zed { x: A(0), source: A(0), size: A(0) }, T::Zed { x: A(0), source: A(1), size: A(7) }, T::Zed { x: A(1), source: A(7), size: A(0) }, T::Zed { x: A(7), source: A(0), size: A(0) }, T::Zed { x: A(7), source: A(1), size: A(1) }, T::Zed { x: A(1), source: A(0), size: A(7) }, T::Zed { x: A(7), source: A(1), size: A(0) }, T::Zed { x: A(1), source: A(7), size: A(7) }] }
pub fn show(x: &T) -> String { #[allow(unused_variables)] match x { T::A(p0, p1) => format!("A({},{})", sv(p0), sv(p1)), T::Zed { x: p0, source: p1, size: p2 } => format!("Zed({},{},{})", sv(p0), sv(p1), sv(p2)) } }
pub fn o_fmt(x: &T, f: &mut ::core::fmt::Formatter<'_>) -> ::core::fmt::Result { match x { T::A(p0, p1) => f.debug_tuple("Zz::Ren").field(p0).field(p1).finish(), T::Zed { x: p0, source: p1, size: p2 } => f.debug_tuple("Zz::Zed").field(&Wm(p1)).field(&Wm(p2)).finish() } }

pub fn run(out: &mut Out) { let vs = values(); for a in &vs { let g = format!("{:?}", a); let e = format!("{:?}", Fm(|f: &mut ::core::fmt::Formatter<'_>| o_fmt(a, f))); out.check(g == e, "debug_22", "debug", || format!("{{:?}} of {} = {:?} expected {:?}", show(a), g, e)); let g = format!("{:#?}", a); let e = format!("{:#?}", Fm(|f: &mut ::core::fmt::Formatter<'_>| o_fmt(a, f))); out.check(g == e, "debug_22", "debug_alt", || format!("{{:#?}} of {} = {:?} expected {:?}", show(a), g, e)); let g = format!("{:8?}", a); let e = format!("{:8?}", Fm(|f: &mut ::core::fmt::Formatter<'_>| o_fmt(a, f))); out.check(g == e, "debug_22", "debug_width", || format!("{{:8?}} of {} = {:?} expected {:?}", show(a), g, e)); }  }
