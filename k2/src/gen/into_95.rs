// into_95
#![allow(dead_code, unused_variables, unused_mut, unused_imports, non_shorthand_field_patterns, clippy::all)]
use crate::support::*;
use educe::Educe;
use core::cmp::Ordering;
#[derive(Educe)]
#[educe(Into(A<1>))]
pub enum T { V1(#[educe(Into(A<1>))] A<1>, A<2>), Zed { _0: A<3>, size: A<1> } }
pub fn values() -> Vec<T> { vec![T::V1(A(7), A(7)), T::V1(A(0), A(0)), T::V1(A(7), A(1)), T::V1(A(1), A(1)), T::V1(A(1), A(7)), T::V1(A(7), A(0)), T::Zed { _0: A(1), size: A(0) }, T::Zed { _0: A(7), size: A(1) }, T::Zed { _0: A(0), size: A(1) }, T::Zed { _0: A(0), size: A(7) }, T::Zed { _0: A(1), size: A(1) }, T::Zed { _0: A(1), size: A(7) }] }
pub fn show(x: &T) -> String { #[allow(unused_variables)] match x { T::V1(p0, p1) => format!("V1({},{})", sv(p0), sv(p1)), T::Zed { _0: p0, size: p1 } => format!("Zed({},{})", sv(p0), sv(p1)) } }
pub fn o_into_0(x: T) -> A<1> { match x { T::V1(p0, _) => p0, T::Zed { _0: _, size: p1 } => p1 } }
pub fn run(out: &mut Out) { let n = values().len(); for i in 0..n { let a = values().swap_remove(i); let shown = show(&a); let g: A<1> = ::core::convert::Into::into(a); let e = o_into_0(values().swap_remove(i)); out.check(sv(&g) == sv(&e), "into_95", "into", || format!("Into::<A<1>>::into({}) = {} expected {}", shown, sv(&g), sv(&e))); } }
