// clone_101
#![allow(dead_code, unused_variables, unused_mut, unused_imports, non_shorthand_field_patterns, clippy::all)]
use crate::support::*;
use educe::Educe;
use core::cmp::Ordering;
#[derive(Educe)]
#[educe(Copy, Clone)]
pub enum T { None(C<0>, #[educe(Clone(method("m_clone_c")))] C<1>, #[educe(Clone(method("m_clone_c")))] C<2>) }
pub fn values() -> Vec<T> { vec![T::None(C(2), C(2), C(2)), T::None(C(0), C(1), C(1)), T::None(C(1), C(1), C(2)), T::None(C(2), C(2), C(1)), T::None(C(0), C(0), C(0)), T::None(C(0), C(0), C(2)), T::None(C(1), C(2), C(2)), T::None(C(2), C(2), C(0)), T::None(C(1), C(2), C(1)), T::None(C(1), C(0), C(0)), T::None(C(1), C(1), C(0)), T::None(C(0), C(0), C(1)), T::None(C(2), C(0), C(0)), T::None(C(1), C(0), C(2)), T::None(C(1), C(2), C(0)), T::None(C(0), C(2), C(0)), T::None(C(2), C(1), C(2)), T::None(C(0), C(1), C(0)), T::None(C(2), C(1), C(0)), T::None(C(2), C(0), C(2))] }
pub fn show(x: &T) -> String { #[allow(unused_variables)] match x { T::None(p0, p1, p2) => format!("None({},{},{})", sv(p0), sv(p1), sv(p2)) } }
pub fn o_clone(x: &T) -> T { match x { T::None(p0, p1, p2) => T::None(C(p0.0), C(p1.0.wrapping_add(50)), C(p2.0.wrapping_add(50))) } }
pub fn o_log(x: &T) -> Vec<String> { match x { T::None(p0, p1, p2) => vec![format!("clone C{} {}", p0.k(), p0.0), format!("m_clone C{} {}", p1.k(), p1.0), format!("m_clone C{} {}", p2.k(), p2.0)] } }
pub fn run(out: &mut Out) { let vs = values(); for a in &vs { let _ = take_log(); let g = ::core::clone::Clone::clone(a); let l = take_log(); let e = o_clone(a); out.check(show(&g) == show(&e), "clone_101", "clone", || format!("clone({}) = {} expected {}", show(a), show(&g), show(&e))); let el = o_log(a); out.check(l == el, "clone_101", "clone_calls", || format!("clone({}) called {:?} expected {:?}", show(a), l, el)); } let n = vs.len(); for i in 0..n { for j in 0..n { let mut x = values().swap_remove(i); let shown = show(&x); ::core::clone::Clone::clone_from(&mut x, &vs[j]); let e = o_clone(&vs[j]); out.check(show(&x) == show(&e), "clone_101", "clone_from", || format!("{}.clone_from({}) = {} expected {}", shown, show(&vs[j]), show(&x), show(&e))); } }  fn is_copy<X: Copy>() {} is_copy::<T>(); }
