// eq_141
#![allow(dead_code, unused_variables, unused_mut, unused_imports, non_shorthand_field_patterns, clippy::all)]
use crate::support::*;
use educe::Educe;
use core::cmp::Ordering;
#[derive(Educe)]
#[educe(PartialEq, Eq)]
pub enum T { B { #[educe(PartialEq(method = "m_eq"))] f: A<0>, builder: A<1> } }
pub fn values() -> Vec<T> { vec![T::B { f: A(0), builder: A(0) }, T::B { f: A(0), builder: A(1) }, T::B { f: A(0), builder: A(7) }, T::B { f: A(1), builder: A(0) }, T::B { f: A(1), builder: A(1) }, T::B { f: A(1), builder: A(7) }, T::B { f: A(7), builder: A(0) }, T::B { f: A(7), builder: A(1) }, T::B { f: A(7), builder: A(7) }] }
pub fn show(x: &T) -> String { #[allow(unused_variables)] match x { T::B { f: p0, builder: p1 } => format!("B({},{})", sv(p0), sv(p1)) } }
pub fn o_eq(a: &T, b: &T) -> bool { match (a, b) { (T::B { f: a0, builder: a1 }, T::B { f: b0, builder: b1 }) => m_eq(a0, b0) && (a1 == b1) } }
pub fn run(out: &mut Out) { let vs = values(); for a in &vs { for b in &vs { let e = o_eq(a, b); out.check((a == b) == e, "eq_141", "eq", || format!("{} == {} expected {}", show(a), show(b), e)); out.check((a != b) == !e, "eq_141", "ne", || format!("{} != {} expected {}", show(a), show(b), !e)); } } }
