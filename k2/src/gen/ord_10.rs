// ord_10
#![allow(dead_code, unused_variables, unused_mut, unused_imports, non_shorthand_field_patterns, clippy::all)]
use crate::support::*;
use core::cmp::Ordering;
pub mod ty {
    #![deny(warnings)]
    #![allow(dead_code, unused_imports)]
    use crate::support::{A, B, C, Good, Bad, m_eq, m_cmp, m_pcmp, m_hash, m_fmt, m_clone, m_clone_c, m_into, g_eq, g_cmp, g_pcmp, g_hash, g_fmt};
    use educe::Educe;

    // names at the derive site that shadow everything the generated code might be tempted to write unqualified
    #[allow(non_camel_case_types)] pub struct Option; pub struct Result; pub struct Ordering; pub struct Clone; pub struct Copy;
    pub struct Default; pub struct Debug; pub struct PartialEq; pub struct Eq; pub struct PartialOrd; pub struct Ord; pub struct Hash;
    pub struct Hasher; pub struct Into; pub struct From; pub struct Deref; pub struct DerefMut; pub struct Formatter; pub struct String;
    pub struct Vec; pub struct Box; pub struct PhantomData; pub struct Sized; pub struct Send; pub struct Iterator; pub struct Self_;
    #[allow(non_snake_case)] pub fn Some() {} #[allow(non_snake_case)] pub fn None() {} #[allow(non_snake_case)] pub fn Ok() {} #[allow(non_snake_case)] pub fn Err() {}
    pub fn drop() {} pub mod core {} pub mod std {} pub mod alloc {} pub mod fmt {} pub mod cmp {} pub mod hash {} pub mod clone {} pub mod marker {}
    #[allow(unused_macros)] macro_rules! stringify { ($($t:tt)*) => { "SHADOWED" } }
    #[allow(unused_macros)] macro_rules! unreachable { ($($t:tt)*) => { () } }
    #[allow(unused_macros)] macro_rules! panic { ($($t:tt)*) => { () } }
    #[allow(unused_macros)] macro_rules! matches { ($($t:tt)*) => { true } }
    #[allow(unused_macros)] macro_rules! write { ($($t:tt)*) => { () } }
    #[allow(unused_macros)] macro_rules! format_args { ($($t:tt)*) => { () } }
    #[allow(unused_macros)] macro_rules! assert { ($($t:tt)*) => { () } }
#[derive(Educe)]
#[repr(i64)]
#[educe(Ord, PartialEq, PartialOrd, Eq)]
pub enum T { Zed {  } = 255, V1 { other: A<0>, #[educe(Ord(method = m_cmp))] arg: A<0>, #[educe(Ord(method(m_cmp)))] other_data: A<2>, #[educe(Ord(method(m_cmp)))] x: A<3> } = 3, A(#[educe(Ord(method = "m_cmp"))] A<0>) }
}
pub use ty::T;

pub fn values() -> Vec<T> { vec![T::Zed {  }, T::V1 { other: A(0), arg: A(0), other_data: A(1), x: A(7) }, T::V1 { other: A(1), arg: A(0), other_data: A(0), x: A(0) }, T::V1 { other: A(7), arg: A(0), other_data: A(0), x: A(1) }, T::V1 { other: A(7), arg: A(7), other_data: A(1), x: A(1) }, T::V1 { other: A(1), arg: A(7), other_data: A(1), x: A(0) }, T::V1 { other: A(7), arg: A(7), other_data: A(0), x: A(0) }, T::V1 { other: A(0), arg: A(1), other_data: A(0), x: A(0) }, T::V1 { other: A(0), arg: A(0), other_data: A(0), x: A(1) }, T::V1 { other: A(0), arg: A(1), other_data: A(7), x: A(7) }, T::V1 { other: A(1), arg: A(7), other_data: A(7), x: A(7) }, T::V1 { other: A(1), arg: A(0), other_data: A(1), x: A(1) }, T::V1 { other: A(0), arg: A(1), other_data: A(7), x: A(0) }, T::A(A(0)), T::A(A(1)), T::A(A(7))] }
pub fn show(x: &T) -> String { #[allow(unused_variables)] match x { T::Zed {  } => format!("Zed()"), T::V1 { other: p0, arg: p1, other_data: p2, x: p3 } => format!("V1({},{},{},{})", sv(p0), sv(p1), sv(p2), sv(p3)), T::A(p0) => format!("A({})", sv(p0)) } }
pub fn o_disc(x: &T) -> i128 { match x { T::Zed {  } => 255, T::V1 { other: _, arg: _, other_data: _, x: _ } => 3, T::A(_) => 4 } }
pub fn o_cmp(a: &T, b: &T) -> Ordering { match (a, b) { (T::Zed {  }, T::Zed {  }) => {  Ordering::Equal }, (T::V1 { other: a0, arg: a1, other_data: a2, x: a3 }, T::V1 { other: b0, arg: b1, other_data: b2, x: b3 }) => { let c = ::core::cmp::Ord::cmp(a0, b0); if c != Ordering::Equal { return c; } let c = m_cmp(a1, b1); if c != Ordering::Equal { return c; } let c = m_cmp(a2, b2); if c != Ordering::Equal { return c; } let c = m_cmp(a3, b3); if c != Ordering::Equal { return c; } Ordering::Equal }, (T::A(a0), T::A(b0)) => { let c = m_cmp(a0, b0); if c != Ordering::Equal { return c; } Ordering::Equal }, _ => o_disc(a).cmp(&o_disc(b)) } }
pub fn run(out: &mut Out) { let vs = values(); for (i, a) in vs.iter().enumerate() { for (j, b) in vs.iter().enumerate() { let e = o_cmp(a, b); let g = ::core::cmp::Ord::cmp(a, b); out.check(g == e, "ord_10", "cmp", || format!("cmp({}, {}) = {:?} expected {:?}", show(a), show(b), g, e)); let g2 = ::core::cmp::PartialOrd::partial_cmp(a, b); out.check(g2 == Some(e), "ord_10", "partial_is_some_cmp", || format!("partial_cmp({}, {}) = {:?} expected Some({:?})", show(a), show(b), g2, e)); } } }
