// ord_10
#![allow(dead_code, unused_variables, unused_mut, unused_imports, non_shorthand_field_patterns, clippy::all)]
use crate::support::*;
use educe::Educe;
use core::cmp::Ordering;
#[derive(Educe)]
#[repr(isize)]
#[educe(Eq, PartialOrd, PartialEq)]
pub enum T { Zed(#[educe(PartialOrd(method = m_pcmp))] A<0>, #[educe(PartialOrd(rank = 1i64))] A<1>) = 2, Unit(A<0>, #[educe(PartialOrd(method = "m_pcmp"))] A<1>) = 70000 }

pub fn values() -> Vec<T> { vec![T::Zed(A(0), A(0)), T::Zed(A(0), A(1)), T::Zed(A(0), A(7)), T::Zed(A(1), A(0)), T::Zed(A(1), A(1)), T::Zed(A(1), A(7)), T::Zed(A(7), A(0)), T::Zed(A(7), A(1)), T::Zed(A(7), A(7)), T::Unit(A(0), A(0)), T::Unit(A(0), A(1)), T::Unit(A(0), A(7)), T::Unit(A(1), A(0)), T::Unit(A(1), A(1)), T::Unit(A(1), A(7)), T::Unit(A(7), A(0)), T::Unit(A(7), A(1)), T::Unit(A(7), A(7))] }
pub fn show(x: &T) -> String { #[allow(unused_variables)] match x { T::Zed(p0, p1) => format!("Zed({},{})", sv(p0), sv(p1)), T::Unit(p0, p1) => format!("Unit({},{})", sv(p0), sv(p1)) } }
pub fn o_disc(x: &T) -> i128 { match x { T::Zed(_, _) => 2, T::Unit(_, _) => 70000 } }
pub fn o_pcmp(a: &T, b: &T) -> Option<Ordering> { match (a, b) { (T::Zed(a0, a1), T::Zed(b0, b1)) => { match m_pcmp(a0, b0) { Some(Ordering::Equal) => (), x => return x } match ::core::cmp::PartialOrd::partial_cmp(a1, b1) { Some(Ordering::Equal) => (), x => return x } Some(Ordering::Equal) }, (T::Unit(a0, a1), T::Unit(b0, b1)) => { match ::core::cmp::PartialOrd::partial_cmp(a0, b0) { Some(Ordering::Equal) => (), x => return x } match m_pcmp(a1, b1) { Some(Ordering::Equal) => (), x => return x } Some(Ordering::Equal) }, _ => Some(o_disc(a).cmp(&o_disc(b))) } }
pub fn run(out: &mut Out) { let vs = values(); for (i, a) in vs.iter().enumerate() { for (j, b) in vs.iter().enumerate() { let e = o_pcmp(a, b); let g = ::core::cmp::PartialOrd::partial_cmp(a, b); out.check(g == e, "ord_10", "partial_cmp", || format!("partial_cmp({}, {}) = {:?} expected {:?}", show(a), show(b), g, e)); } } }
