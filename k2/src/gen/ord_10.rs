// ord_10
#![allow(dead_code, unused_variables, unused_mut, unused_imports, non_shorthand_field_patterns, clippy::all)]
use crate::support::*;
use educe::Educe;
use core::cmp::Ordering;
#[derive(Educe)]
#[educe(PartialOrd, Eq, PartialEq, Ord)]
pub enum T { C { arg: A<0> }, Some }

pub fn values() -> Vec<T> { vec![T::C { arg: A(0) }, T::C { arg: A(1) }, T::C { arg: A(7) }, T::Some] }
pub fn show(x: &T) -> String { #[allow(unused_variables)] match x { T::C { arg: p0 } => format!("C({})", sv(p0)), T::Some => format!("Some()") } }
pub fn o_disc(x: &T) -> i128 { match x { T::C { arg: _ } => 0, T::Some => 1 } }
pub fn o_cmp(a: &T, b: &T) -> Ordering { match (a, b) { (T::C { arg: a0 }, T::C { arg: b0 }) => { let c = ::core::cmp::Ord::cmp(a0, b0); if c != Ordering::Equal { return c; } Ordering::Equal }, (T::Some, T::Some) => {  Ordering::Equal }, _ => o_disc(a).cmp(&o_disc(b)) } }
pub fn run(out: &mut Out) { let vs = values(); for (i, a) in vs.iter().enumerate() { for (j, b) in vs.iter().enumerate() { let e = o_cmp(a, b); let g = ::core::cmp::Ord::cmp(a, b); out.check(g == e, "ord_10", "cmp", || format!("cmp({}, {}) = {:?} expected {:?}", show(a), show(b), g, e)); let g2 = ::core::cmp::PartialOrd::partial_cmp(a, b); out.check(g2 == Some(e), "ord_10", "partial_is_some_cmp", || format!("partial_cmp({}, {}) = {:?} expected Some({:?})", show(a), show(b), g2, e)); } } }
