// clone_22
#![allow(dead_code, unused_variables, unused_mut, unused_imports, non_shorthand_field_patterns, clippy::all)]
use crate::support::*;
use educe::Educe;
use core::cmp::Ordering;
#[derive(Educe)]
#[educe(Clone)]
pub enum T { Unit { #[educe(Clone(method = "m_clone"))] builder: A<0>, data: A<1>, arg: A<2>, c: A<3> }, A }
pub fn values() -> Vec<T> { vec![T::Unit { builder: A(7), data: A(1), arg: A(7), c: A(0) }, T::Unit { builder: A(1), data: A(1), arg: A(0), c: A(7) }, T::Unit { builder: A(7), data: A(7), arg: A(1), c: A(1) }, T::Unit { builder: A(0), data: A(7), arg: A(0), c: A(0) }, T::Unit { builder: A(7), data: A(1), arg: A(7), c: A(1) }, T::Unit { builder: A(7), data: A(0), arg: A(7), c: A(0) }, T::Unit { builder: A(1), data: A(7), arg: A(0), c: A(1) }, T::Unit { builder: A(0), data: A(1), arg: A(0), c: A(1) }, T::Unit { builder: A(7), data: A(0), arg: A(0), c: A(0) }, T::Unit { builder: A(7), data: A(7), arg: A(1), c: A(7) }, T::A] }
pub fn show(x: &T) -> String { #[allow(unused_variables)] match x { T::Unit { builder: p0, data: p1, arg: p2, c: p3 } => format!("Unit({},{},{},{})", sv(p0), sv(p1), sv(p2), sv(p3)), T::A => format!("A()") } }
pub fn o_clone(x: &T) -> T { match x { T::Unit { builder: p0, data: p1, arg: p2, c: p3 } => T::Unit { builder: A(p0.0.wrapping_add(50)), data: A(p1.0), arg: A(p2.0), c: A(p3.0) }, T::A => T::A } }
pub fn o_log(x: &T) -> Vec<String> { match x { T::Unit { builder: p0, data: p1, arg: p2, c: p3 } => vec![format!("m_clone A{} {}", p0.k(), p0.0), format!("clone A{} {}", p1.k(), p1.0), format!("clone A{} {}", p2.k(), p2.0), format!("clone A{} {}", p3.k(), p3.0)], T::A => vec![] } }
pub fn run(out: &mut Out) { let vs = values(); for a in &vs { let _ = take_log(); let g = ::core::clone::Clone::clone(a); let l = take_log(); let e = o_clone(a); out.check(show(&g) == show(&e), "clone_22", "clone", || format!("clone({}) = {} expected {}", show(a), show(&g), show(&e))); let el = o_log(a); out.check(l == el, "clone_22", "clone_calls", || format!("clone({}) called {:?} expected {:?}", show(a), l, el)); } let n = vs.len(); for i in 0..n { for j in 0..n { let mut x = values().swap_remove(i); let shown = show(&x); ::core::clone::Clone::clone_from(&mut x, &vs[j]); let e = o_clone(&vs[j]); out.check(show(&x) == show(&e), "clone_22", "clone_from", || format!("{}.clone_from({}) = {} expected {}", shown, show(&vs[j]), show(&x), show(&e))); } } }
