// hash_31
#![allow(dead_code, unused_variables, unused_mut, unused_imports, non_shorthand_field_patterns, clippy::all)]
use crate::support::*;
use educe::Educe;
use core::cmp::Ordering;
#[derive(Educe)]
#[educe(Hash)]
pub struct T(#[educe(Hash(ignore = true))] A<0>, A<1>, #[educe(Hash(ignore = true))] A<2>);
pub fn values() -> Vec<T> { vec![T(A(0), A(0), A(0)), T(A(0), A(0), A(1)), T(A(0), A(0), A(7)), T(A(0), A(1), A(0)), T(A(0), A(1), A(1)), T(A(0), A(1), A(7)), T(A(0), A(7), A(0)), T(A(0), A(7), A(1)), T(A(0), A(7), A(7)), T(A(1), A(0), A(0)), T(A(1), A(0), A(1)), T(A(1), A(0), A(7)), T(A(1), A(1), A(0)), T(A(1), A(1), A(1)), T(A(1), A(1), A(7)), T(A(1), A(7), A(0)), T(A(1), A(7), A(1)), T(A(1), A(7), A(7)), T(A(7), A(0), A(0)), T(A(7), A(0), A(1)), T(A(7), A(0), A(7)), T(A(7), A(1), A(0)), T(A(7), A(1), A(1)), T(A(7), A(1), A(7)), T(A(7), A(7), A(0)), T(A(7), A(7), A(1)), T(A(7), A(7), A(7))] }
pub fn show(x: &T) -> String { #[allow(unused_variables)] match x { T(p0, p1, p2) => format!("T({},{},{})", sv(p0), sv(p1), sv(p2)) } }
pub fn o_hash(x: &T) -> Vec<String> { let mut e = Rec::default(); match x { T(p0, p1, p2) => { ::core::hash::Hash::hash(p1, &mut e); } } e.0 }
pub fn run(out: &mut Out) { let vs = values(); for a in &vs { let mut g = Rec::default(); ::core::hash::Hash::hash(a, &mut g); let e = o_hash(a); out.check(g.0 == e, "hash_31", "hash", || format!("hash({}) fed {:?} expected {:?}", show(a), g.0, e)); } }
