// ord_46
#![allow(dead_code, unused_variables, unused_mut, unused_imports, non_shorthand_field_patterns, clippy::all)]
use crate::support::*;
use educe::Educe;
use core::cmp::Ordering;
#[derive(Educe)]
#[repr(isize)]
#[educe(Ord, PartialEq, Eq)]
pub enum T { Zed { x: A<0> } = 128, V1 = 3 }
impl PartialOrd for T { fn partial_cmp(&self, o: &Self) -> Option<Ordering> { Some(::core::cmp::Ord::cmp(self, o)) } }
pub fn values() -> Vec<T> { vec![T::Zed { x: A(0) }, T::Zed { x: A(1) }, T::Zed { x: A(7) }, T::V1] }
pub fn show(x: &T) -> String { #[allow(unused_variables)] match x { T::Zed { x: p0 } => format!("Zed({})", sv(p0)), T::V1 => format!("V1()") } }
pub fn o_disc(x: &T) -> i128 { match x { T::Zed { x: _ } => 128, T::V1 => 3 } }
pub fn o_cmp(a: &T, b: &T) -> Ordering { match (a, b) { (T::Zed { x: a0 }, T::Zed { x: b0 }) => { let c = ::core::cmp::Ord::cmp(a0, b0); if c != Ordering::Equal { return c; } Ordering::Equal }, (T::V1, T::V1) => {  Ordering::Equal }, _ => o_disc(a).cmp(&o_disc(b)) } }
pub fn run(out: &mut Out) { let vs = values(); for (i, a) in vs.iter().enumerate() { for (j, b) in vs.iter().enumerate() { let e = o_cmp(a, b); let g = ::core::cmp::Ord::cmp(a, b); out.check(g == e, "ord_46", "cmp", || format!("cmp({}, {}) = {:?} expected {:?}", show(a), show(b), g, e)); } } }
