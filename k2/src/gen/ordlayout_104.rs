// ordlayout_104
#![allow(dead_code, unused_variables, unused_mut, unused_imports, non_shorthand_field_patterns, clippy::all)]
use crate::support::*;
use core::cmp::Ordering;
pub mod ty {
    #![deny(warnings)]
    #![allow(dead_code, unused_imports, non_snake_case)]
    use crate::support::{A, B, C, Good, Bad, m_eq, m_cmp, m_pcmp, m_hash, m_fmt, m_clone, m_clone_c, m_into, g_eq, g_cmp, g_pcmp, g_hash, g_fmt};
    use educe::Educe;
#[derive(Educe)]
#[repr(C)]
#[educe(PartialEq, Eq, PartialOrd)]
pub enum T { B(Option<u8>, #[educe(PartialOrd(rank = "+6"))] &'static u8), C { #[educe(PartialOrd(rank = 5))] other_data: bool }, None, Zed }
}
pub use ty::T;

pub fn values() -> Vec<T> { vec![T::B(None, &3u8), T::B(None, &200u8), T::B(Some(0), &3u8), T::B(Some(0), &200u8), T::B(Some(255), &3u8), T::B(Some(255), &200u8), T::C { other_data: false }, T::C { other_data: true }, T::None, T::Zed] }
pub fn show(x: &T) -> String { #[allow(unused_variables)] match x { T::B(p0, p1) => format!("B({},{})", sv(p0), sv(p1)), T::C { other_data: p0 } => format!("C({})", sv(p0)), T::None => format!("None()"), T::Zed => format!("Zed()") } }
pub fn o_disc(x: &T) -> i128 { match x { T::B(_, _) => 0, T::C { other_data: _ } => 1, T::None => 2, T::Zed => 3 } }
pub fn o_pcmp(a: &T, b: &T) -> Option<Ordering> { match (a, b) { (T::B(a0, a1), T::B(b0, b1)) => { match ::core::cmp::PartialOrd::partial_cmp(a0, b0) { Some(Ordering::Equal) => (), x => return x } match ::core::cmp::PartialOrd::partial_cmp(a1, b1) { Some(Ordering::Equal) => (), x => return x } Some(Ordering::Equal) }, (T::C { other_data: a0 }, T::C { other_data: b0 }) => { match ::core::cmp::PartialOrd::partial_cmp(a0, b0) { Some(Ordering::Equal) => (), x => return x } Some(Ordering::Equal) }, (T::None, T::None) => {  Some(Ordering::Equal) }, (T::Zed, T::Zed) => {  Some(Ordering::Equal) }, _ => Some(o_disc(a).cmp(&o_disc(b))) } }
#[repr(C)] pub struct Wrap { pub pre: u8, pub x: T, pub post: [u8; 9] }
pub fn wrap(i: usize, n: u8) -> Wrap { Wrap { pre: n, x: values().swap_remove(i), post: [n; 9] } }
pub fn run(out: &mut Out) { let vs = values(); for (i, a) in vs.iter().enumerate() { for (j, b) in vs.iter().enumerate() { let e = o_pcmp(a, b); let g = ::core::cmp::PartialOrd::partial_cmp(a, b); out.check(g == e, "ordlayout_104", "partial_cmp", || format!("partial_cmp({}, {}) = {:?} expected {:?}", show(a), show(b), g, e)); for n in [0u8, 1, 0x7f, 0x80, 0xff] { let wa = wrap(i, n); let wb = wrap(j, !n); let g = ::core::cmp::PartialOrd::partial_cmp(&wa.x, &wb.x); let e = o_pcmp(a, b); out.check(g == e, "ordlayout_104", "cmp_neighbours", || format!("cmp({}, {}) with neighbour bytes {} = {:?} expected {:?}", show(a), show(b), n, g, e)); } } } }
