// ordlayout_104
#![allow(dead_code, unused_variables, unused_mut, unused_imports, non_shorthand_field_patterns, clippy::all)]
use crate::support::*;
use educe::Educe;
use core::cmp::Ordering;
#[derive(Educe)]
#[repr(C)]
#[educe(Eq, Ord, PartialEq)]
pub enum T { V1 {  }, None { r#type: Option<u8>, b: char }, A(&'static u8), Unit(&'static u8) }
impl PartialOrd for T { fn partial_cmp(&self, o: &Self) -> Option<Ordering> { Some(::core::cmp::Ord::cmp(self, o)) } }
pub fn values() -> Vec<T> { vec![T::V1 {  }, T::None { r#type: None, b: 'a' }, T::None { r#type: None, b: 'z' }, T::None { r#type: Some(0), b: 'a' }, T::None { r#type: Some(0), b: 'z' }, T::None { r#type: Some(255), b: 'a' }, T::None { r#type: Some(255), b: 'z' }, T::A(&3u8), T::A(&200u8), T::Unit(&3u8), T::Unit(&200u8)] }
pub fn show(x: &T) -> String { #[allow(unused_variables)] match x { T::V1 {  } => format!("V1()"), T::None { r#type: p0, b: p1 } => format!("None({},{})", sv(p0), sv(p1)), T::A(p0) => format!("A({})", sv(p0)), T::Unit(p0) => format!("Unit({})", sv(p0)) } }
pub fn o_disc(x: &T) -> i128 { match x { T::V1 {  } => 0, T::None { r#type: _, b: _ } => 1, T::A(_) => 2, T::Unit(_) => 3 } }
pub fn o_cmp(a: &T, b: &T) -> Ordering { match (a, b) { (T::V1 {  }, T::V1 {  }) => {  Ordering::Equal }, (T::None { r#type: a0, b: a1 }, T::None { r#type: b0, b: b1 }) => { let c = ::core::cmp::Ord::cmp(a0, b0); if c != Ordering::Equal { return c; } let c = ::core::cmp::Ord::cmp(a1, b1); if c != Ordering::Equal { return c; } Ordering::Equal }, (T::A(a0), T::A(b0)) => { let c = ::core::cmp::Ord::cmp(a0, b0); if c != Ordering::Equal { return c; } Ordering::Equal }, (T::Unit(a0), T::Unit(b0)) => { let c = ::core::cmp::Ord::cmp(a0, b0); if c != Ordering::Equal { return c; } Ordering::Equal }, _ => o_disc(a).cmp(&o_disc(b)) } }
#[repr(C)] pub struct Wrap { pub pre: u8, pub x: T, pub post: [u8; 9] }
pub fn wrap(i: usize, n: u8) -> Wrap { Wrap { pre: n, x: values().swap_remove(i), post: [n; 9] } }
pub fn run(out: &mut Out) { let vs = values(); for (i, a) in vs.iter().enumerate() { for (j, b) in vs.iter().enumerate() { let e = o_cmp(a, b); let g = ::core::cmp::Ord::cmp(a, b); out.check(g == e, "ordlayout_104", "cmp", || format!("cmp({}, {}) = {:?} expected {:?}", show(a), show(b), g, e)); for n in [0u8, 1, 0x7f, 0x80, 0xff] { let wa = wrap(i, n); let wb = wrap(j, !n); let g = ::core::cmp::Ord::cmp(&wa.x, &wb.x); let e = o_cmp(a, b); out.check(g == e, "ordlayout_104", "cmp_neighbours", || format!("cmp({}, {}) with neighbour bytes {} = {:?} expected {:?}", show(a), show(b), n, g, e)); } } } }
