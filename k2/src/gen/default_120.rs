// default_120
#![allow(dead_code, unused_variables, unused_mut, unused_imports, non_shorthand_field_patterns, clippy::all)]
use crate::support::*;
use educe::Educe;
use core::cmp::Ordering;
#[derive(Educe)]
#[educe(Default(new(true)))]
pub struct T { #[educe(Default(expression = None))] c: Option<u8>, #[educe(Default = 3)] source: u64 }
pub fn show(x: &T) -> String { #[allow(unused_variables)] match x { T { c: p0, source: p1 } => format!("T({},{})", sv(p0), sv(p1)) } }
pub fn o_default() -> T { T { c: None, source: 3u64 } }
pub fn run(out: &mut Out) { let g = <T as ::core::default::Default>::default(); let e = o_default(); out.check(show(&g) == show(&e), "default_120", "default", || format!("default() = {} expected {}", show(&g), show(&e))); let g = T::new(); let e = o_default(); out.check(show(&g) == show(&e), "default_120", "new", || format!("new() = {} expected {}", show(&g), show(&e))); }
