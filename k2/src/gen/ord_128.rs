// ord_128
#![allow(dead_code, unused_variables, unused_mut, unused_imports, non_shorthand_field_patterns, clippy::all)]
use crate::support::*;
use educe::Educe;
use core::cmp::Ordering;
#[derive(Educe)]
#[educe(PartialOrd, PartialEq, Eq, Ord)]
pub enum T { None, C(#[educe(Ord(method = "m_cmp"))] A<0>, A<1>, #[educe(Ord(ignore = true))] A<0>, #[educe(Ord(rank = "-1"))] A<3>), A(#[educe(Ord(ignore = true))] A<0>, #[educe(Ord(method = m_cmp))] A<0>, A<2>) }

pub fn values() -> Vec<T> { vec![T::None, T::C(A(7), A(7), A(0), A(0)), T::C(A(7), A(1), A(7), A(0)), T::C(A(0), A(1), A(0), A(0)), T::C(A(1), A(1), A(7), A(0)), T::C(A(7), A(1), A(7), A(7)), T::C(A(7), A(7), A(0), A(7)), T::C(A(7), A(0), A(0), A(7)), T::C(A(7), A(0), A(7), A(7)), T::C(A(1), A(0), A(1), A(7)), T::C(A(0), A(0), A(7), A(1)), T::C(A(1), A(0), A(7), A(7)), T::C(A(0), A(0), A(0), A(7)), T::A(A(7), A(7), A(7)), T::A(A(1), A(7), A(1)), T::A(A(1), A(1), A(1)), T::A(A(0), A(1), A(7)), T::A(A(0), A(7), A(1)), T::A(A(1), A(7), A(7)), T::A(A(7), A(7), A(1)), T::A(A(7), A(1), A(7)), T::A(A(0), A(0), A(0)), T::A(A(0), A(1), A(1)), T::A(A(0), A(0), A(1)), T::A(A(7), A(7), A(0))] }
pub fn show(x: &T) -> String { #[allow(unused_variables)] match x { T::None => format!("None()"), T::C(p0, p1, p2, p3) => format!("C({},{},{},{})", sv(p0), sv(p1), sv(p2), sv(p3)), T::A(p0, p1, p2) => format!("A({},{},{})", sv(p0), sv(p1), sv(p2)) } }
pub fn o_disc(x: &T) -> i128 { match x { T::None => 0, T::C(_, _, _, _) => 1, T::A(_, _, _) => 2 } }
pub fn o_cmp(a: &T, b: &T) -> Ordering { match (a, b) { (T::None, T::None) => {  Ordering::Equal }, (T::C(a0, a1, a2, a3), T::C(b0, b1, b2, b3)) => { let c = m_cmp(a0, b0); if c != Ordering::Equal { return c; } let c = ::core::cmp::Ord::cmp(a1, b1); if c != Ordering::Equal { return c; } let c = ::core::cmp::Ord::cmp(a3, b3); if c != Ordering::Equal { return c; } Ordering::Equal }, (T::A(a0, a1, a2), T::A(b0, b1, b2)) => { let c = m_cmp(a1, b1); if c != Ordering::Equal { return c; } let c = ::core::cmp::Ord::cmp(a2, b2); if c != Ordering::Equal { return c; } Ordering::Equal }, _ => o_disc(a).cmp(&o_disc(b)) } }
pub fn run(out: &mut Out) { let vs = values(); for (i, a) in vs.iter().enumerate() { for (j, b) in vs.iter().enumerate() { let e = o_cmp(a, b); let g = ::core::cmp::Ord::cmp(a, b); out.check(g == e, "ord_128", "cmp", || format!("cmp({}, {}) = {:?} expected {:?}", show(a), show(b), g, e)); let g2 = ::core::cmp::PartialOrd::partial_cmp(a, b); out.check(g2 == Some(e), "ord_128", "partial_is_some_cmp", || format!("partial_cmp({}, {}) = {:?} expected Some({:?})", show(a), show(b), g2, e)); } } }
