// ord_96
#![allow(dead_code, unused_variables, unused_mut, unused_imports, non_shorthand_field_patterns, clippy::all)]
use crate::support::*;
use educe::Educe;
use core::cmp::Ordering;
#[derive(Educe)]
#[repr(align(8))]
#[educe(Eq, PartialEq, PartialOrd)]
pub enum T { V1(#[educe(PartialOrd(ignore(true)))] A<0>, #[educe(PartialOrd(rank(7)))] A<1>, #[educe(PartialOrd(rank("2")))] A<2>) }

pub fn values() -> Vec<T> { vec![T::V1(A(0), A(0), A(0)), T::V1(A(0), A(0), A(1)), T::V1(A(0), A(0), A(7)), T::V1(A(0), A(1), A(0)), T::V1(A(0), A(1), A(1)), T::V1(A(0), A(1), A(7)), T::V1(A(0), A(7), A(0)), T::V1(A(0), A(7), A(1)), T::V1(A(0), A(7), A(7)), T::V1(A(1), A(0), A(0)), T::V1(A(1), A(0), A(1)), T::V1(A(1), A(0), A(7)), T::V1(A(1), A(1), A(0)), T::V1(A(1), A(1), A(1)), T::V1(A(1), A(1), A(7)), T::V1(A(1), A(7), A(0)), T::V1(A(1), A(7), A(1)), T::V1(A(1), A(7), A(7)), T::V1(A(7), A(0), A(0)), T::V1(A(7), A(0), A(1)), T::V1(A(7), A(0), A(7)), T::V1(A(7), A(1), A(0)), T::V1(A(7), A(1), A(1)), T::V1(A(7), A(1), A(7)), T::V1(A(7), A(7), A(0)), T::V1(A(7), A(7), A(1)), T::V1(A(7), A(7), A(7))] }
pub fn show(x: &T) -> String { #[allow(unused_variables)] match x { T::V1(p0, p1, p2) => format!("V1({},{},{})", sv(p0), sv(p1), sv(p2)) } }
pub fn o_disc(x: &T) -> i128 { match x { T::V1(_, _, _) => 0 } }
pub fn o_pcmp(a: &T, b: &T) -> Option<Ordering> { match (a, b) { (T::V1(a0, a1, a2), T::V1(b0, b1, b2)) => { match ::core::cmp::PartialOrd::partial_cmp(a2, b2) { Some(Ordering::Equal) => (), x => return x } match ::core::cmp::PartialOrd::partial_cmp(a1, b1) { Some(Ordering::Equal) => (), x => return x } Some(Ordering::Equal) } } }
pub fn run(out: &mut Out) { let vs = values(); for (i, a) in vs.iter().enumerate() { for (j, b) in vs.iter().enumerate() { let e = o_pcmp(a, b); let g = ::core::cmp::PartialOrd::partial_cmp(a, b); out.check(g == e, "ord_96", "partial_cmp", || format!("partial_cmp({}, {}) = {:?} expected {:?}", show(a), show(b), g, e)); } } }
