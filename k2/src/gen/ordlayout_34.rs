// ordlayout_34
#![allow(dead_code, unused_variables, unused_mut, unused_imports, non_shorthand_field_patterns, clippy::all)]
use crate::support::*;
use educe::Educe;
use core::cmp::Ordering;
#[derive(Educe)]
#[repr(i32)]
#[educe(Eq, PartialEq, PartialOrd)]
pub enum T { Unit(&'static u8, #[educe(PartialOrd(rank = 0x5))] i64) = 127, V1 { state: ::core::num::NonZeroU8 }, Some = -170 }

pub fn values() -> Vec<T> { vec![T::Unit(&3u8, -5), T::Unit(&3u8, 0), T::Unit(&3u8, 9), T::Unit(&200u8, -5), T::Unit(&200u8, 0), T::Unit(&200u8, 9), T::V1 { state: ::core::num::NonZeroU8::new(1).unwrap() }, T::V1 { state: ::core::num::NonZeroU8::new(200).unwrap() }, T::Some] }
pub fn show(x: &T) -> String { #[allow(unused_variables)] match x { T::Unit(p0, p1) => format!("Unit({},{})", sv(p0), sv(p1)), T::V1 { state: p0 } => format!("V1({})", sv(p0)), T::Some => format!("Some()") } }
pub fn o_disc(x: &T) -> i128 { match x { T::Unit(_, _) => 127, T::V1 { state: _ } => 128, T::Some => -170 } }
pub fn o_pcmp(a: &T, b: &T) -> Option<Ordering> { match (a, b) { (T::Unit(a0, a1), T::Unit(b0, b1)) => { match ::core::cmp::PartialOrd::partial_cmp(a0, b0) { Some(Ordering::Equal) => (), x => return x } match ::core::cmp::PartialOrd::partial_cmp(a1, b1) { Some(Ordering::Equal) => (), x => return x } Some(Ordering::Equal) }, (T::V1 { state: a0 }, T::V1 { state: b0 }) => { match ::core::cmp::PartialOrd::partial_cmp(a0, b0) { Some(Ordering::Equal) => (), x => return x } Some(Ordering::Equal) }, (T::Some, T::Some) => {  Some(Ordering::Equal) }, _ => Some(o_disc(a).cmp(&o_disc(b))) } }
#[repr(C)] pub struct Wrap { pub pre: u8, pub x: T, pub post: [u8; 9] }
pub fn wrap(i: usize, n: u8) -> Wrap { Wrap { pre: n, x: values().swap_remove(i), post: [n; 9] } }
pub fn run(out: &mut Out) { let vs = values(); for (i, a) in vs.iter().enumerate() { for (j, b) in vs.iter().enumerate() { let e = o_pcmp(a, b); let g = ::core::cmp::PartialOrd::partial_cmp(a, b); out.check(g == e, "ordlayout_34", "partial_cmp", || format!("partial_cmp({}, {}) = {:?} expected {:?}", show(a), show(b), g, e)); for n in [0u8, 1, 0x7f, 0x80, 0xff] { let wa = wrap(i, n); let wb = wrap(j, !n); let g = ::core::cmp::PartialOrd::partial_cmp(&wa.x, &wb.x); let e = o_pcmp(a, b); out.check(g == e, "ordlayout_34", "cmp_neighbours", || format!("cmp({}, {}) with neighbour bytes {} = {:?} expected {:?}", show(a), show(b), n, g, e)); } } } }
