// into_76
#![allow(dead_code, unused_variables, unused_mut, unused_imports, non_shorthand_field_patterns, clippy::all)]
use crate::support::*;
use educe::Educe;
use core::cmp::Ordering;
#[derive(Educe)]
#[educe(Into(B<0>), Into(A<1>), Into(B<2>))]
pub enum T { B { b: A<0>, #[educe(Into(B<0>))] #[educe(Into(A<1>))] #[educe(Into(B<2>))] other: A<1>, size: A<1> }, Zed { #[educe(Into(B<2>))] builder: A<1>, #[educe(Into(B<0>))] a: A<2> } }
pub fn values() -> Vec<T> { vec![T::B { b: A(7), other: A(7), size: A(7) }, T::B { b: A(1), other: A(0), size: A(7) }, T::B { b: A(7), other: A(0), size: A(0) }, T::B { b: A(1), other: A(7), size: A(0) }, T::B { b: A(0), other: A(0), size: A(1) }, T::B { b: A(7), other: A(7), size: A(1) }, T::Zed { builder: A(1), a: A(7) }, T::Zed { builder: A(7), a: A(7) }, T::Zed { builder: A(0), a: A(7) }, T::Zed { builder: A(0), a: A(1) }, T::Zed { builder: A(0), a: A(0) }, T::Zed { builder: A(1), a: A(1) }] }
pub fn show(x: &T) -> String { #[allow(unused_variables)] match x { T::B { b: p0, other: p1, size: p2 } => format!("B({},{},{})", sv(p0), sv(p1), sv(p2)), T::Zed { builder: p0, a: p1 } => format!("Zed({},{})", sv(p0), sv(p1)) } }
pub fn o_into_0(x: T) -> B<0> { match x { T::B { b: _, other: p1, size: _ } => ::core::convert::Into::into(p1), T::Zed { builder: _, a: p1 } => ::core::convert::Into::into(p1) } }
pub fn o_into_1(x: T) -> A<1> { match x { T::B { b: _, other: p1, size: _ } => p1, T::Zed { builder: p0, a: _ } => p0 } }
pub fn o_into_2(x: T) -> B<2> { match x { T::B { b: _, other: p1, size: _ } => ::core::convert::Into::into(p1), T::Zed { builder: p0, a: _ } => ::core::convert::Into::into(p0) } }
pub fn run(out: &mut Out) { let n = values().len(); for i in 0..n { let a = values().swap_remove(i); let shown = show(&a); let g: B<0> = ::core::convert::Into::into(a); let e = o_into_0(values().swap_remove(i)); out.check(sv(&g) == sv(&e), "into_76", "into", || format!("Into::<B<0>>::into({}) = {} expected {}", shown, sv(&g), sv(&e))); } for i in 0..n { let a = values().swap_remove(i); let shown = show(&a); let g: A<1> = ::core::convert::Into::into(a); let e = o_into_1(values().swap_remove(i)); out.check(sv(&g) == sv(&e), "into_76", "into", || format!("Into::<A<1>>::into({}) = {} expected {}", shown, sv(&g), sv(&e))); } for i in 0..n { let a = values().swap_remove(i); let shown = show(&a); let g: B<2> = ::core::convert::Into::into(a); let e = o_into_2(values().swap_remove(i)); out.check(sv(&g) == sv(&e), "into_76", "into", || format!("Into::<B<2>>::into({}) = {} expected {}", shown, sv(&g), sv(&e))); } }
