// eq_9
#![allow(dead_code, unused_variables, unused_mut, unused_imports, non_shorthand_field_patterns, clippy::all)]
use crate::support::*;
use educe::Educe;
use core::cmp::Ordering;
#[derive(Educe)]
#[educe(PartialEq)]
#[educe(Eq)]
pub enum T { Some {  } }
pub fn values() -> Vec<T> { vec![T::Some {  }] }
pub fn show(x: &T) -> String { #[allow(unused_variables)] match x { T::Some {  } => format!("Some()") } }
pub fn o_eq(a: &T, b: &T) -> bool { match (a, b) { (T::Some {  }, T::Some {  }) => true } }
pub fn run(out: &mut Out) { let vs = values(); for a in &vs { for b in &vs { let e = o_eq(a, b); out.check((a == b) == e, "eq_9", "eq", || format!("{} == {} expected {}", show(a), show(b), e)); out.check((a != b) == !e, "eq_9", "ne", || format!("{} != {} expected {}", show(a), show(b), !e)); } } }
