// clone_18
#![allow(dead_code, unused_variables, unused_mut, unused_imports, non_shorthand_field_patterns, clippy::all)]
use crate::support::*;
use educe::Educe;
use core::cmp::Ordering;
#[derive(Educe)]
#[educe(Clone, Copy)]
pub enum T { V1 {  }, Zed(C<0>, C<1>, #[educe(Clone(method("m_clone_c")))] C<2>) }
pub fn values() -> Vec<T> { vec![T::V1 {  }, T::Zed(C(1), C(2), C(1)), T::Zed(C(1), C(0), C(2)), T::Zed(C(0), C(1), C(2)), T::Zed(C(0), C(0), C(2)), T::Zed(C(2), C(0), C(0)), T::Zed(C(1), C(1), C(2)), T::Zed(C(1), C(0), C(0)), T::Zed(C(0), C(2), C(1)), T::Zed(C(0), C(1), C(0)), T::Zed(C(0), C(0), C(1))] }
pub fn show(x: &T) -> String { #[allow(unused_variables)] match x { T::V1 {  } => format!("V1()"), T::Zed(p0, p1, p2) => format!("Zed({},{},{})", sv(p0), sv(p1), sv(p2)) } }
pub fn o_clone(x: &T) -> T { match x { T::V1 {  } => T::V1 {  }, T::Zed(p0, p1, p2) => T::Zed(C(p0.0), C(p1.0), C(p2.0.wrapping_add(50))) } }
pub fn o_log(x: &T) -> Vec<String> { match x { T::V1 {  } => vec![], T::Zed(p0, p1, p2) => vec![format!("clone C{} {}", p0.k(), p0.0), format!("clone C{} {}", p1.k(), p1.0), format!("m_clone C{} {}", p2.k(), p2.0)] } }
pub fn run(out: &mut Out) { let vs = values(); for a in &vs { let _ = take_log(); let g = ::core::clone::Clone::clone(a); let l = take_log(); let e = o_clone(a); out.check(show(&g) == show(&e), "clone_18", "clone", || format!("clone({}) = {} expected {}", show(a), show(&g), show(&e))); let el = o_log(a); out.check(l == el, "clone_18", "clone_calls", || format!("clone({}) called {:?} expected {:?}", show(a), l, el)); } let n = vs.len(); for i in 0..n { for j in 0..n { let mut x = values().swap_remove(i); let shown = show(&x); ::core::clone::Clone::clone_from(&mut x, &vs[j]); let e = o_clone(&vs[j]); out.check(show(&x) == show(&e), "clone_18", "clone_from", || format!("{}.clone_from({}) = {} expected {}", shown, show(&vs[j]), show(&x), show(&e))); } }  fn is_copy<X: Copy>() {} is_copy::<T>(); }
