// default_148
#![allow(dead_code, unused_variables, unused_mut, unused_imports, non_shorthand_field_patterns, clippy::all)]
use crate::support::*;
use educe::Educe;
use core::cmp::Ordering;
#[derive(Educe)]
#[educe(Default(new(true), expression = T::B { other: false, r#type: 0u16, x: '\0', size: '\0' }))]
pub enum T { B { other: bool, r#type: u16, x: char, size: char } }
pub fn show(x: &T) -> String { #[allow(unused_variables)] match x { T::B { other: p0, r#type: p1, x: p2, size: p3 } => format!("B({},{},{},{})", sv(p0), sv(p1), sv(p2), sv(p3)) } }
pub fn o_default() -> T { T::B { other: false, r#type: 0u16, x: '\0', size: '\0' } }
pub fn run(out: &mut Out) { let g = <T as ::core::default::Default>::default(); let e = o_default(); out.check(show(&g) == show(&e), "default_148", "default", || format!("default() = {} expected {}", show(&g), show(&e))); let g = T::new(); let e = o_default(); out.check(show(&g) == show(&e), "default_148", "new", || format!("new() = {} expected {}", show(&g), show(&e))); }
