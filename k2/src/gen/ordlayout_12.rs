// ordlayout_12
#![allow(dead_code, unused_variables, unused_mut, unused_imports, non_shorthand_field_patterns, clippy::all)]
use crate::support::*;
use educe::Educe;
use core::cmp::Ordering;
#[derive(Educe)]
#[repr(isize)]
#[educe(PartialEq, Eq, PartialOrd)]
pub enum T { Zed { #[educe(PartialOrd(rank("-2")))] source: &'static u8, x: i64 } = -1, Some = 1, Unit(#[educe(PartialOrd(rank = 0x1))] &'static u8, i64) = 200, B = 2 }

pub fn values() -> Vec<T> { vec![T::Zed { source: &3u8, x: -5 }, T::Zed { source: &3u8, x: 0 }, T::Zed { source: &3u8, x: 9 }, T::Zed { source: &200u8, x: -5 }, T::Zed { source: &200u8, x: 0 }, T::Zed { source: &200u8, x: 9 }, T::Some, T::Unit(&3u8, -5), T::Unit(&3u8, 0), T::Unit(&3u8, 9), T::Unit(&200u8, -5), T::Unit(&200u8, 0), T::Unit(&200u8, 9), T::B] }
pub fn show(x: &T) -> String { #[allow(unused_variables)] match x { T::Zed { source: p0, x: p1 } => format!("Zed({},{})", sv(p0), sv(p1)), T::Some => format!("Some()"), T::Unit(p0, p1) => format!("Unit({},{})", sv(p0), sv(p1)), T::B => format!("B()") } }
pub fn o_disc(x: &T) -> i128 { match x { T::Zed { source: _, x: _ } => -1, T::Some => 1, T::Unit(_, _) => 200, T::B => 2 } }
pub fn o_pcmp(a: &T, b: &T) -> Option<Ordering> { match (a, b) { (T::Zed { source: a0, x: a1 }, T::Zed { source: b0, x: b1 }) => { match ::core::cmp::PartialOrd::partial_cmp(a1, b1) { Some(Ordering::Equal) => (), x => return x } match ::core::cmp::PartialOrd::partial_cmp(a0, b0) { Some(Ordering::Equal) => (), x => return x } Some(Ordering::Equal) }, (T::Some, T::Some) => {  Some(Ordering::Equal) }, (T::Unit(a0, a1), T::Unit(b0, b1)) => { match ::core::cmp::PartialOrd::partial_cmp(a1, b1) { Some(Ordering::Equal) => (), x => return x } match ::core::cmp::PartialOrd::partial_cmp(a0, b0) { Some(Ordering::Equal) => (), x => return x } Some(Ordering::Equal) }, (T::B, T::B) => {  Some(Ordering::Equal) }, _ => Some(o_disc(a).cmp(&o_disc(b))) } }
#[repr(C)] pub struct Wrap { pub pre: u8, pub x: T, pub post: [u8; 9] }
pub fn wrap(i: usize, n: u8) -> Wrap { Wrap { pre: n, x: values().swap_remove(i), post: [n; 9] } }
pub fn run(out: &mut Out) { let vs = values(); for (i, a) in vs.iter().enumerate() { for (j, b) in vs.iter().enumerate() { let e = o_pcmp(a, b); let g = ::core::cmp::PartialOrd::partial_cmp(a, b); out.check(g == e, "ordlayout_12", "partial_cmp", || format!("partial_cmp({}, {}) = {:?} expected {:?}", show(a), show(b), g, e)); for n in [0u8, 1, 0x7f, 0x80, 0xff] { let wa = wrap(i, n); let wb = wrap(j, !n); let g = ::core::cmp::PartialOrd::partial_cmp(&wa.x, &wb.x); let e = o_pcmp(a, b); out.check(g == e, "ordlayout_12", "cmp_neighbours", || format!("cmp({}, {}) with neighbour bytes {} = {:?} expected {:?}", show(a), show(b), n, g, e)); } } } }
