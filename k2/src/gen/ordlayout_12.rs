// ordlayout_12
#![allow(dead_code, unused_variables, unused_mut, unused_imports, non_shorthand_field_patterns, clippy::all)]
use crate::support::*;
use educe::Educe;
use core::cmp::Ordering;
#[derive(Educe)]
#[repr(i64)]
#[educe(Eq, PartialOrd, PartialEq)]
pub enum T { B { _0: u8, c: u8, arg: bool } = 127, None = 3, Some { #[educe(PartialOrd(rank = 2))] b: u8, y: ::core::num::NonZeroU8 } = 1 }

pub fn values() -> Vec<T> { vec![T::B { _0: 0, c: 100, arg: false }, T::B { _0: 100, c: 200, arg: true }, T::B { _0: 200, c: 100, arg: true }, T::B { _0: 200, c: 100, arg: false }, T::B { _0: 100, c: 200, arg: false }, T::B { _0: 0, c: 200, arg: false }, T::B { _0: 200, c: 200, arg: true }, T::B { _0: 0, c: 100, arg: true }, T::B { _0: 100, c: 0, arg: false }, T::B { _0: 100, c: 100, arg: false }, T::B { _0: 100, c: 0, arg: true }, T::B { _0: 100, c: 100, arg: true }, T::None, T::Some { b: 0, y: ::core::num::NonZeroU8::new(1).unwrap() }, T::Some { b: 0, y: ::core::num::NonZeroU8::new(200).unwrap() }, T::Some { b: 100, y: ::core::num::NonZeroU8::new(1).unwrap() }, T::Some { b: 100, y: ::core::num::NonZeroU8::new(200).unwrap() }, T::Some { b: 200, y: ::core::num::NonZeroU8::new(1).unwrap() }, T::Some { b: 200, y: ::core::num::NonZeroU8::new(200).unwrap() }] }
pub fn show(x: &T) -> String { #[allow(unused_variables)] match x { T::B { _0: p0, c: p1, arg: p2 } => format!("B({},{},{})", sv(p0), sv(p1), sv(p2)), T::None => format!("None()"), T::Some { b: p0, y: p1 } => format!("Some({},{})", sv(p0), sv(p1)) } }
pub fn o_disc(x: &T) -> i128 { match x { T::B { _0: _, c: _, arg: _ } => 127, T::None => 3, T::Some { b: _, y: _ } => 1 } }
pub fn o_pcmp(a: &T, b: &T) -> Option<Ordering> { match (a, b) { (T::B { _0: a0, c: a1, arg: a2 }, T::B { _0: b0, c: b1, arg: b2 }) => { match ::core::cmp::PartialOrd::partial_cmp(a0, b0) { Some(Ordering::Equal) => (), x => return x } match ::core::cmp::PartialOrd::partial_cmp(a1, b1) { Some(Ordering::Equal) => (), x => return x } match ::core::cmp::PartialOrd::partial_cmp(a2, b2) { Some(Ordering::Equal) => (), x => return x } Some(Ordering::Equal) }, (T::None, T::None) => {  Some(Ordering::Equal) }, (T::Some { b: a0, y: a1 }, T::Some { b: b0, y: b1 }) => { match ::core::cmp::PartialOrd::partial_cmp(a1, b1) { Some(Ordering::Equal) => (), x => return x } match ::core::cmp::PartialOrd::partial_cmp(a0, b0) { Some(Ordering::Equal) => (), x => return x } Some(Ordering::Equal) }, _ => Some(o_disc(a).cmp(&o_disc(b))) } }
#[repr(C)] pub struct Wrap { pub pre: u8, pub x: T, pub post: [u8; 9] }
pub fn wrap(i: usize, n: u8) -> Wrap { Wrap { pre: n, x: values().swap_remove(i), post: [n; 9] } }
pub fn run(out: &mut Out) { let vs = values(); for (i, a) in vs.iter().enumerate() { for (j, b) in vs.iter().enumerate() { let e = o_pcmp(a, b); let g = ::core::cmp::PartialOrd::partial_cmp(a, b); out.check(g == e, "ordlayout_12", "partial_cmp", || format!("partial_cmp({}, {}) = {:?} expected {:?}", show(a), show(b), g, e)); for n in [0u8, 1, 0x7f, 0x80, 0xff] { let wa = wrap(i, n); let wb = wrap(j, !n); let g = ::core::cmp::PartialOrd::partial_cmp(&wa.x, &wb.x); let e = o_pcmp(a, b); out.check(g == e, "ordlayout_12", "cmp_neighbours", || format!("cmp({}, {}) with neighbour bytes {} = {:?} expected {:?}", show(a), show(b), n, g, e)); } } } }
