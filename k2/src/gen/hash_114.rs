// hash_114
#![allow(dead_code, unused_variables, unused_mut, unused_imports, non_shorthand_field_patterns, clippy::all)]
use crate::support::*;
use educe::Educe;
use core::cmp::Ordering;
#[derive(Educe)]
#[educe(Hash)]
pub struct T { f: A<0>, #[educe(Hash(method = "m_hash"))] y: A<1> }
pub fn values() -> Vec<T> { vec![T { f: A(0), y: A(0) }, T { f: A(0), y: A(1) }, T { f: A(0), y: A(7) }, T { f: A(1), y: A(0) }, T { f: A(1), y: A(1) }, T { f: A(1), y: A(7) }, T { f: A(7), y: A(0) }, T { f: A(7), y: A(1) }, T { f: A(7), y: A(7) }] }
pub fn show(x: &T) -> String { #[allow(unused_variables)] match x { T { f: p0, y: p1 } => format!("T({},{})", sv(p0), sv(p1)) } }
pub fn o_hash(x: &T) -> Vec<String> { let mut e = Rec::default(); match x { T { f: p0, y: p1 } => { ::core::hash::Hash::hash(p0, &mut e); m_hash(p1, &mut e); } } e.0 }
pub fn run(out: &mut Out) { let vs = values(); for a in &vs { let mut g = Rec::default(); ::core::hash::Hash::hash(a, &mut g); let e = o_hash(a); out.check(g.0 == e, "hash_114", "hash", || format!("hash({}) fed {:?} expected {:?}", show(a), g.0, e)); } }
