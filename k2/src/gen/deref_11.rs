// deref_11
#![allow(dead_code, unused_variables, unused_mut, unused_imports, non_shorthand_field_patterns, clippy::all)]
use crate::support::*;
use educe::Educe;
use core::cmp::Ordering;
#[derive(Educe)]
#[educe(Deref)]
pub enum T { Zed(A<0>, #[educe(Deref)] &'static A<1>), Some { y: A<1>, #[educe(Deref)] c: &'static A<1> }, A(A<2>, #[educe(Deref)] &'static A<1>), None { b: A<2>, r#type: A<0>, #[educe(Deref)] source: &'static A<1> } }
pub fn values() -> Vec<T> { vec![T::Zed(A(1), &A(0)), T::Zed(A(0), &A(1)), T::Zed(A(7), &A(0)), T::Zed(A(7), &A(1)), T::Some { y: A(7), c: &A(1) }, T::Some { y: A(0), c: &A(0) }, T::Some { y: A(7), c: &A(0) }, T::Some { y: A(1), c: &A(1) }, T::A(A(1), &A(0)), T::A(A(7), &A(0)), T::A(A(0), &A(0)), T::A(A(7), &A(1)), T::None { b: A(0), r#type: A(1), source: &A(1) }, T::None { b: A(0), r#type: A(7), source: &A(0) }, T::None { b: A(1), r#type: A(7), source: &A(1) }, T::None { b: A(7), r#type: A(1), source: &A(0) }] }
pub fn show(x: &T) -> String { #[allow(unused_variables)] match x { T::Zed(p0, p1) => format!("Zed({},{})", sv(p0), sv(p1)), T::Some { y: p0, c: p1 } => format!("Some({},{})", sv(p0), sv(p1)), T::A(p0, p1) => format!("A({},{})", sv(p0), sv(p1)), T::None { b: p0, r#type: p1, source: p2 } => format!("None({},{},{})", sv(p0), sv(p1), sv(p2)) } }
pub fn o_deref(x: &T) -> *const A<1> { match x { T::Zed(_, p1) => *p1 as *const A<1>, T::Some { y: _, c: p1 } => *p1 as *const A<1>, T::A(_, p1) => *p1 as *const A<1>, T::None { b: _, r#type: _, source: p2 } => *p2 as *const A<1> } }
pub fn run(out: &mut Out) { let vs = values(); for a in &vs { let g = ::core::ops::Deref::deref(a) as *const A<1>; let e = o_deref(a); out.check(g == e, "deref_11", "deref", || format!("&*{} has another address than the designated field", show(a))); } }
