// default_25
#![allow(dead_code, unused_variables, unused_mut, unused_imports, non_shorthand_field_patterns, clippy::all)]
use crate::support::*;
use educe::Educe;
use core::cmp::Ordering;
#[derive(Educe)]
#[educe(Default)]
pub struct T { #[educe(Default(expression(None)))] _0: Option<u8>, #[educe(Default(expr = None))] data: Option<u8>, #[educe(Default = 5)] x: u8, r#type: Option<u8> }
pub fn show(x: &T) -> String { #[allow(unused_variables)] match x { T { _0: p0, data: p1, x: p2, r#type: p3 } => format!("T({},{},{},{})", sv(p0), sv(p1), sv(p2), sv(p3)) } }
pub fn o_default() -> T { T { _0: None, data: None, x: 5u8, r#type: None } }
pub fn run(out: &mut Out) { let g = <T as ::core::default::Default>::default(); let e = o_default(); out.check(show(&g) == show(&e), "default_25", "default", || format!("default() = {} expected {}", show(&g), show(&e))); }
