// ordlayout_117
#![allow(dead_code, unused_variables, unused_mut, unused_imports, non_shorthand_field_patterns, clippy::all)]
use crate::support::*;
use core::cmp::Ordering;
pub mod ty {
    #![deny(warnings)]
    #![allow(dead_code, unused_imports, non_snake_case)]
    use crate::support::{A, B, C, Good, Bad, m_eq, m_cmp, m_pcmp, m_hash, m_fmt, m_clone, m_clone_c, m_into, g_eq, g_cmp, g_pcmp, g_hash, g_fmt};
    use educe::Educe;
#[derive(Educe)]
#[repr(u64)]
#[educe(Eq, Ord, PartialEq)]
#[educe(Debug)]
pub enum T { Zed(#[educe(Ord(rank = "+4"))] Option<u8>, #[educe(Ord(rank = 0i64))] bool, #[educe(Ord(rank = "+6"))] i64) = 9223372036854775807, V1, A = 9223372036854775815, None = 0 }
}
pub use ty::T;
impl PartialOrd for T { fn partial_cmp(&self, o: &Self) -> Option<Ordering> { Some(::core::cmp::Ord::cmp(self, o)) } }
pub fn values() -> Vec<T> { vec![T::Zed(Some(255), false, -5), T::Zed(None, false, 9), T::Zed(Some(0), false, 9), T::Zed(None, true, -5), T::Zed(Some(255), true, 0), T::Zed(None, true, 0), T::Zed(None, true, 9), T::Zed(Some(0), true, 0), T::Zed(Some(0), true, 9), T::V1, T::A, T::None] }
pub fn show(x: &T) -> String { #[allow(unused_variables)] match x { T::Zed(p0, p1, p2) => format!("Zed({},{},{})", sv(p0), sv(p1), sv(p2)), T::V1 => format!("V1()"), T::A => format!("A()"), T::None => format!("None()") } }
pub fn o_disc(x: &T) -> i128 { match x { T::Zed(_, _, _) => 9223372036854775807, T::V1 => 9223372036854775808, T::A => 9223372036854775815, T::None => 0 } }
pub fn o_cmp(a: &T, b: &T) -> Ordering { match (a, b) { (T::Zed(a0, a1, a2), T::Zed(b0, b1, b2)) => { let c = ::core::cmp::Ord::cmp(a1, b1); if c != Ordering::Equal { return c; } let c = ::core::cmp::Ord::cmp(a0, b0); if c != Ordering::Equal { return c; } let c = ::core::cmp::Ord::cmp(a2, b2); if c != Ordering::Equal { return c; } Ordering::Equal }, (T::V1, T::V1) => {  Ordering::Equal }, (T::A, T::A) => {  Ordering::Equal }, (T::None, T::None) => {  Ordering::Equal }, _ => o_disc(a).cmp(&o_disc(b)) } }
#[repr(C)] pub struct Wrap { pub pre: u8, pub x: T, pub post: [u8; 9] }
pub fn wrap(i: usize, n: u8) -> Wrap { Wrap { pre: n, x: values().swap_remove(i), post: [n; 9] } }
pub fn run(out: &mut Out) { let vs = values(); for (i, a) in vs.iter().enumerate() { for (j, b) in vs.iter().enumerate() { let e = o_cmp(a, b); let g = ::core::cmp::Ord::cmp(a, b); out.check(g == e, "ordlayout_117", "cmp", || format!("cmp({}, {}) = {:?} expected {:?}", show(a), show(b), g, e)); for n in [0u8, 1, 0x7f, 0x80, 0xff] { let wa = wrap(i, n); let wb = wrap(j, !n); let g = ::core::cmp::Ord::cmp(&wa.x, &wb.x); let e = o_cmp(a, b); out.check(g == e, "ordlayout_117", "cmp_neighbours", || format!("cmp({}, {}) with neighbour bytes {} = {:?} expected {:?}", show(a), show(b), n, g, e)); } } } }
