// hash_3
#![allow(dead_code, unused_variables, unused_mut, unused_imports, non_shorthand_field_patterns, clippy::all)]
use crate::support::*;
use educe::Educe;
use core::cmp::Ordering;
#[derive(Educe)]
#[educe(Hash)]
pub enum T { Zed, Some { #[educe(Hash(ignore(true)))] f: A<0>, #[educe(Hash(ignore))] size: A<1>, #[educe(Hash(ignore = true))] arg: A<0> } }
pub fn values() -> Vec<T> { vec![T::Zed, T::Some { f: A(7), size: A(1), arg: A(7) }, T::Some { f: A(0), size: A(0), arg: A(7) }, T::Some { f: A(0), size: A(7), arg: A(7) }, T::Some { f: A(0), size: A(0), arg: A(0) }, T::Some { f: A(0), size: A(1), arg: A(7) }, T::Some { f: A(7), size: A(7), arg: A(7) }, T::Some { f: A(0), size: A(0), arg: A(1) }, T::Some { f: A(7), size: A(0), arg: A(7) }, T::Some { f: A(1), size: A(7), arg: A(0) }, T::Some { f: A(7), size: A(7), arg: A(1) }, T::Some { f: A(1), size: A(0), arg: A(0) }, T::Some { f: A(7), size: A(7), arg: A(0) }, T::Some { f: A(0), size: A(7), arg: A(1) }, T::Some { f: A(0), size: A(7), arg: A(0) }, T::Some { f: A(7), size: A(0), arg: A(1) }, T::Some { f: A(1), size: A(0), arg: A(1) }, T::Some { f: A(7), size: A(1), arg: A(0) }, T::Some { f: A(1), size: A(1), arg: A(7) }, T::Some { f: A(1), size: A(7), arg: A(1) }, T::Some { f: A(1), size: A(0), arg: A(7) }, T::Some { f: A(7), size: A(1), arg: A(1) }, T::Some { f: A(0), size: A(1), arg: A(0) }, T::Some { f: A(7), size: A(0), arg: A(0) }, T::Some { f: A(0), size: A(1), arg: A(1) }] }
pub fn show(x: &T) -> String { #[allow(unused_variables)] match x { T::Zed => format!("Zed()"), T::Some { f: p0, size: p1, arg: p2 } => format!("Some({},{},{})", sv(p0), sv(p1), sv(p2)) } }
pub fn o_hash(x: &T) -> Vec<String> { let mut e = Rec::default(); match x { T::Zed => { ::core::hash::Hash::hash(&0usize, &mut e); }, T::Some { f: p0, size: p1, arg: p2 } => { ::core::hash::Hash::hash(&1usize, &mut e); } } e.0 }
pub fn run(out: &mut Out) { let vs = values(); for a in &vs { let mut g = Rec::default(); ::core::hash::Hash::hash(a, &mut g); let e = o_hash(a); out.check(g.0 == e, "hash_3", "hash", || format!("hash({}) fed {:?} expected {:?}", show(a), g.0, e)); } }
