// into_120
#![allow(dead_code, unused_variables, unused_mut, unused_imports, non_shorthand_field_patterns, clippy::all)]
use crate::support::*;
use educe::Educe;
use core::cmp::Ordering;
#[derive(Educe)]
#[educe(Into(A<1>))]
pub enum T { Zed(#[educe(Into(A<1>))] A<1>, A<1>, A<3>), V1 { #[educe(Into(A<1>))] state: A<1> } }
pub fn values() -> Vec<T> { vec![T::Zed(A(0), A(1), A(0)), T::Zed(A(7), A(1), A(1)), T::Zed(A(7), A(0), A(0)), T::Zed(A(0), A(0), A(7)), T::Zed(A(1), A(0), A(1)), T::Zed(A(0), A(7), A(1)), T::V1 { state: A(0) }, T::V1 { state: A(1) }, T::V1 { state: A(7) }] }
pub fn show(x: &T) -> String { #[allow(unused_variables)] match x { T::Zed(p0, p1, p2) => format!("Zed({},{},{})", sv(p0), sv(p1), sv(p2)), T::V1 { state: p0 } => format!("V1({})", sv(p0)) } }
pub fn o_into_0(x: T) -> A<1> { match x { T::Zed(p0, _, _) => p0, T::V1 { state: p0 } => p0 } }
pub fn run(out: &mut Out) { let n = values().len(); for i in 0..n { let a = values().swap_remove(i); let shown = show(&a); let g: A<1> = ::core::convert::Into::into(a); let e = o_into_0(values().swap_remove(i)); out.check(sv(&g) == sv(&e), "into_120", "into", || format!("Into::<A<1>>::into({}) = {} expected {}", shown, sv(&g), sv(&e))); } }
