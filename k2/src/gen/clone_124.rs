// clone_124
#![allow(dead_code, unused_variables, unused_mut, unused_imports, non_shorthand_field_patterns, clippy::all)]
use crate::support::*;
use educe::Educe;
use core::cmp::Ordering;
#[derive(Educe)]
#[educe(Clone)]
pub enum T { C(A<0>, A<0>, A<2>), V1, B { data: A<0>, #[educe(Clone(method = m_clone))] arg: A<0>, c: A<2>, other: A<0> } }
pub fn values() -> Vec<T> { vec![T::C(A(7), A(0), A(7)), T::C(A(0), A(0), A(1)), T::C(A(1), A(1), A(1)), T::C(A(1), A(0), A(7)), T::C(A(1), A(7), A(7)), T::C(A(0), A(7), A(0)), T::V1, T::B { data: A(0), arg: A(1), c: A(1), other: A(0) }, T::B { data: A(7), arg: A(0), c: A(7), other: A(0) }, T::B { data: A(7), arg: A(7), c: A(1), other: A(0) }, T::B { data: A(0), arg: A(1), c: A(0), other: A(1) }, T::B { data: A(0), arg: A(1), c: A(1), other: A(7) }, T::B { data: A(0), arg: A(0), c: A(0), other: A(0) }] }
pub fn show(x: &T) -> String { #[allow(unused_variables)] match x { T::C(p0, p1, p2) => format!("C({},{},{})", sv(p0), sv(p1), sv(p2)), T::V1 => format!("V1()"), T::B { data: p0, arg: p1, c: p2, other: p3 } => format!("B({},{},{},{})", sv(p0), sv(p1), sv(p2), sv(p3)) } }
pub fn o_clone(x: &T) -> T { match x { T::C(p0, p1, p2) => T::C(A(p0.0), A(p1.0), A(p2.0)), T::V1 => T::V1, T::B { data: p0, arg: p1, c: p2, other: p3 } => T::B { data: A(p0.0), arg: A(p1.0.wrapping_add(50)), c: A(p2.0), other: A(p3.0) } } }
pub fn o_log(x: &T) -> Vec<String> { match x { T::C(p0, p1, p2) => vec![format!("clone A{} {}", p0.k(), p0.0), format!("clone A{} {}", p1.k(), p1.0), format!("clone A{} {}", p2.k(), p2.0)], T::V1 => vec![], T::B { data: p0, arg: p1, c: p2, other: p3 } => vec![format!("clone A{} {}", p0.k(), p0.0), format!("m_clone A{} {}", p1.k(), p1.0), format!("clone A{} {}", p2.k(), p2.0), format!("clone A{} {}", p3.k(), p3.0)] } }
pub fn run(out: &mut Out) { let vs = values(); for a in &vs { let _ = take_log(); let g = ::core::clone::Clone::clone(a); let l = take_log(); let e = o_clone(a); out.check(show(&g) == show(&e), "clone_124", "clone", || format!("clone({}) = {} expected {}", show(a), show(&g), show(&e))); let el = o_log(a); out.check(l == el, "clone_124", "clone_calls", || format!("clone({}) called {:?} expected {:?}", show(a), l, el)); } let n = vs.len(); for i in 0..n { for j in 0..n { let mut x = values().swap_remove(i); let shown = show(&x); ::core::clone::Clone::clone_from(&mut x, &vs[j]); let e = o_clone(&vs[j]); out.check(show(&x) == show(&e), "clone_124", "clone_from", || format!("{}.clone_from({}) = {} expected {}", shown, show(&vs[j]), show(&x), show(&e))); } } }
