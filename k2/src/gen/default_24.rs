// default_24
#![allow(dead_code, unused_variables, unused_mut, unused_imports, non_shorthand_field_patterns, clippy::all)]
use crate::support::*;
use educe::Educe;
use core::cmp::Ordering;
#[derive(Educe)]
#[educe(Default(new = true))]
pub enum T { A { r#type: f64, other: &'static str, y: i128 }, #[educe(Default)] C { y: A<0>, #[educe(Default = 1_000)] state: i64, other: f32 } }
pub fn show(x: &T) -> String { #[allow(unused_variables)] match x { T::A { r#type: p0, other: p1, y: p2 } => format!("A({},{},{})", sv(p0), sv(p1), sv(p2)), T::C { y: p0, state: p1, other: p2 } => format!("C({},{},{})", sv(p0), sv(p1), sv(p2)) } }
pub fn o_default() -> T { T::C { y: A(40), state: 1000i64, other: 0f32 } }
pub fn run(out: &mut Out) { let g = <T as ::core::default::Default>::default(); let e = o_default(); out.check(show(&g) == show(&e), "default_24", "default", || format!("default() = {} expected {}", show(&g), show(&e))); let g = T::new(); let e = o_default(); out.check(show(&g) == show(&e), "default_24", "new", || format!("new() = {} expected {}", show(&g), show(&e))); }
