// ordlayout_79
#![allow(dead_code, unused_variables, unused_mut, unused_imports, non_shorthand_field_patterns, clippy::all)]
use crate::support::*;
use educe::Educe;
use core::cmp::Ordering;
#[derive(Educe)]
#[repr(isize)]
#[educe(Eq, PartialEq, PartialOrd)]
pub enum T { Unit(bool) = 0, A { #[educe(PartialOrd(rank = 7))] size: (), #[educe(PartialOrd(rank = 1))] f: Option<u8> } = -5, V1 = 1000, None(&'static u8, #[educe(PartialOrd(rank("3")))] &'static u8, #[educe(PartialOrd(rank = 0i64))] &'static u8) }

pub fn values() -> Vec<T> { vec![T::Unit(false), T::Unit(true), T::A { size: (), f: None }, T::A { size: (), f: Some(0) }, T::A { size: (), f: Some(255) }, T::V1, T::None(&3u8, &3u8, &3u8), T::None(&3u8, &3u8, &200u8), T::None(&3u8, &200u8, &3u8), T::None(&3u8, &200u8, &200u8), T::None(&200u8, &3u8, &3u8), T::None(&200u8, &3u8, &200u8), T::None(&200u8, &200u8, &3u8), T::None(&200u8, &200u8, &200u8)] }
pub fn show(x: &T) -> String { #[allow(unused_variables)] match x { T::Unit(p0) => format!("Unit({})", sv(p0)), T::A { size: p0, f: p1 } => format!("A({},{})", sv(p0), sv(p1)), T::V1 => format!("V1()"), T::None(p0, p1, p2) => format!("None({},{},{})", sv(p0), sv(p1), sv(p2)) } }
pub fn o_disc(x: &T) -> i128 { match x { T::Unit(_) => 0, T::A { size: _, f: _ } => -5, T::V1 => 1000, T::None(_, _, _) => 1001 } }
pub fn o_pcmp(a: &T, b: &T) -> Option<Ordering> { match (a, b) { (T::Unit(a0), T::Unit(b0)) => { match ::core::cmp::PartialOrd::partial_cmp(a0, b0) { Some(Ordering::Equal) => (), x => return x } Some(Ordering::Equal) }, (T::A { size: a0, f: a1 }, T::A { size: b0, f: b1 }) => { match ::core::cmp::PartialOrd::partial_cmp(a1, b1) { Some(Ordering::Equal) => (), x => return x } match ::core::cmp::PartialOrd::partial_cmp(a0, b0) { Some(Ordering::Equal) => (), x => return x } Some(Ordering::Equal) }, (T::V1, T::V1) => {  Some(Ordering::Equal) }, (T::None(a0, a1, a2), T::None(b0, b1, b2)) => { match ::core::cmp::PartialOrd::partial_cmp(a0, b0) { Some(Ordering::Equal) => (), x => return x } match ::core::cmp::PartialOrd::partial_cmp(a2, b2) { Some(Ordering::Equal) => (), x => return x } match ::core::cmp::PartialOrd::partial_cmp(a1, b1) { Some(Ordering::Equal) => (), x => return x } Some(Ordering::Equal) }, _ => Some(o_disc(a).cmp(&o_disc(b))) } }
#[repr(C)] pub struct Wrap { pub pre: u8, pub x: T, pub post: [u8; 9] }
pub fn wrap(i: usize, n: u8) -> Wrap { Wrap { pre: n, x: values().swap_remove(i), post: [n; 9] } }
pub fn run(out: &mut Out) { let vs = values(); for (i, a) in vs.iter().enumerate() { for (j, b) in vs.iter().enumerate() { let e = o_pcmp(a, b); let g = ::core::cmp::PartialOrd::partial_cmp(a, b); out.check(g == e, "ordlayout_79", "partial_cmp", || format!("partial_cmp({}, {}) = {:?} expected {:?}", show(a), show(b), g, e)); for n in [0u8, 1, 0x7f, 0x80, 0xff] { let wa = wrap(i, n); let wb = wrap(j, !n); let g = ::core::cmp::PartialOrd::partial_cmp(&wa.x, &wb.x); let e = o_pcmp(a, b); out.check(g == e, "ordlayout_79", "cmp_neighbours", || format!("cmp({}, {}) with neighbour bytes {} = {:?} expected {:?}", show(a), show(b), n, g, e)); } } } }
