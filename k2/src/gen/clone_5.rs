// clone_5
#![allow(dead_code, unused_variables, unused_mut, unused_imports, non_shorthand_field_patterns, clippy::all)]
use crate::support::*;
use educe::Educe;
use core::cmp::Ordering;
#[derive(Educe)]
#[educe(Clone)]
pub struct T { x: A<0>, a: A<0> }
pub fn values() -> Vec<T> { vec![T { x: A(0), a: A(0) }, T { x: A(0), a: A(1) }, T { x: A(0), a: A(7) }, T { x: A(1), a: A(0) }, T { x: A(1), a: A(1) }, T { x: A(1), a: A(7) }, T { x: A(7), a: A(0) }, T { x: A(7), a: A(1) }, T { x: A(7), a: A(7) }] }
pub fn show(x: &T) -> String { #[allow(unused_variables)] match x { T { x: p0, a: p1 } => format!("T({},{})", sv(p0), sv(p1)) } }
pub fn o_clone(x: &T) -> T { match x { T { x: p0, a: p1 } => T { x: A(p0.0), a: A(p1.0) } } }
pub fn o_log(x: &T) -> Vec<String> { match x { T { x: p0, a: p1 } => vec![format!("clone A{} {}", p0.k(), p0.0), format!("clone A{} {}", p1.k(), p1.0)] } }
pub fn run(out: &mut Out) { let vs = values(); for a in &vs { let _ = take_log(); let g = ::core::clone::Clone::clone(a); let l = take_log(); let e = o_clone(a); out.check(show(&g) == show(&e), "clone_5", "clone", || format!("clone({}) = {} expected {}", show(a), show(&g), show(&e))); let el = o_log(a); out.check(l == el, "clone_5", "clone_calls", || format!("clone({}) called {:?} expected {:?}", show(a), l, el)); } let n = vs.len(); for i in 0..n { for j in 0..n { let mut x = values().swap_remove(i); let shown = show(&x); ::core::clone::Clone::clone_from(&mut x, &vs[j]); let e = o_clone(&vs[j]); out.check(show(&x) == show(&e), "clone_5", "clone_from", || format!("{}.clone_from({}) = {} expected {}", shown, show(&vs[j]), show(&x), show(&e))); } } }
