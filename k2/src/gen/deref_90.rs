// deref_90
#![allow(dead_code, unused_variables, unused_mut, unused_imports, non_shorthand_field_patterns, clippy::all)]
use crate::support::*;
use educe::Educe;
use core::cmp::Ordering;
#[derive(Educe)]
#[educe(Deref)]
pub struct T { c: A<2>, #[educe(Deref)] _0: A<1> }
pub fn values() -> Vec<T> { vec![T { c: A(0), _0: A(0) }, T { c: A(0), _0: A(1) }, T { c: A(0), _0: A(7) }, T { c: A(1), _0: A(0) }, T { c: A(1), _0: A(1) }, T { c: A(1), _0: A(7) }, T { c: A(7), _0: A(0) }, T { c: A(7), _0: A(1) }, T { c: A(7), _0: A(7) }] }
pub fn show(x: &T) -> String { #[allow(unused_variables)] match x { T { c: p0, _0: p1 } => format!("T({},{})", sv(p0), sv(p1)) } }
pub fn o_deref(x: &T) -> *const A<1> { match x { T { c: _, _0: p1 } => p1 as *const A<1> } }
pub fn run(out: &mut Out) { let vs = values(); for a in &vs { let g = ::core::ops::Deref::deref(a) as *const A<1>; let e = o_deref(a); out.check(g == e, "deref_90", "deref", || format!("&*{} has another address than the designated field", show(a))); } }
