// debug_104
#![allow(dead_code, unused_variables, unused_mut, unused_imports, non_shorthand_field_patterns, clippy::all)]
use crate::support::*;
use educe::Educe;
use core::cmp::Ordering;
#[derive(Educe)]
#[educe(Debug(rename("Zz")))]
pub enum T { C(), A(#[educe(Debug(method = m_fmt))] A<0>), Zed { #[educe(Debug(ignore))] x: A<0> } }
pub fn values() -> Vec<T> { vec![T::C(), T::A(A(0)), T::A(A(1)), T::A(A(7)), T::Zed { x: A(0) }, T::Zed { x: A(1) }, T::Zed { x: A(7) }] }
pub fn show(x: &T) -> String { #[allow(unused_variables)] match x { T::C() => format!("C()"), T::A(p0) => format!("A({})", sv(p0)), T::Zed { x: p0 } => format!("Zed({})", sv(p0)) } }
pub fn o_fmt(x: &T, f: &mut ::core::fmt::Formatter<'_>) -> ::core::fmt::Result { match x { T::C() => f.debug_tuple("Zz::C").finish(), T::A(p0) => f.debug_tuple("Zz::A").field(&Wm(p0)).finish(), T::Zed { x: p0 } => f.debug_struct("Zz::Zed").finish() } }

pub fn run(out: &mut Out) { let vs = values(); for a in &vs { let g = format!("{:?}", a); let e = format!("{:?}", Fm(|f: &mut ::core::fmt::Formatter<'_>| o_fmt(a, f))); out.check(g == e, "debug_104", "debug", || format!("{{:?}} of {} = {:?} expected {:?}", show(a), g, e)); let g = format!("{:#?}", a); let e = format!("{:#?}", Fm(|f: &mut ::core::fmt::Formatter<'_>| o_fmt(a, f))); out.check(g == e, "debug_104", "debug_alt", || format!("{{:#?}} of {} = {:?} expected {:?}", show(a), g, e)); let g = format!("{:8?}", a); let e = format!("{:8?}", Fm(|f: &mut ::core::fmt::Formatter<'_>| o_fmt(a, f))); out.check(g == e, "debug_104", "debug_width", || format!("{{:8?}} of {} = {:?} expected {:?}", show(a), g, e)); }  }
