// ordlayout_56
#![allow(dead_code, unused_variables, unused_mut, unused_imports, non_shorthand_field_patterns, clippy::all)]
use crate::support::*;
use educe::Educe;
use core::cmp::Ordering;
#[derive(Educe)]
#[educe(PartialEq, Eq, Ord)]
pub enum T { Unit { #[educe(Ord(rank = "-2"))] _0: char, f: u8, size: () }, A }
impl PartialOrd for T { fn partial_cmp(&self, o: &Self) -> Option<Ordering> { Some(::core::cmp::Ord::cmp(self, o)) } }
pub fn values() -> Vec<T> { vec![T::Unit { _0: 'a', f: 0, size: () }, T::Unit { _0: 'a', f: 100, size: () }, T::Unit { _0: 'a', f: 200, size: () }, T::Unit { _0: 'z', f: 0, size: () }, T::Unit { _0: 'z', f: 100, size: () }, T::Unit { _0: 'z', f: 200, size: () }, T::A] }
pub fn show(x: &T) -> String { #[allow(unused_variables)] match x { T::Unit { _0: p0, f: p1, size: p2 } => format!("Unit({},{},{})", sv(p0), sv(p1), sv(p2)), T::A => format!("A()") } }
pub fn o_disc(x: &T) -> i128 { match x { T::Unit { _0: _, f: _, size: _ } => 0, T::A => 1 } }
pub fn o_cmp(a: &T, b: &T) -> Ordering { match (a, b) { (T::Unit { _0: a0, f: a1, size: a2 }, T::Unit { _0: b0, f: b1, size: b2 }) => { let c = ::core::cmp::Ord::cmp(a1, b1); if c != Ordering::Equal { return c; } let c = ::core::cmp::Ord::cmp(a2, b2); if c != Ordering::Equal { return c; } let c = ::core::cmp::Ord::cmp(a0, b0); if c != Ordering::Equal { return c; } Ordering::Equal }, (T::A, T::A) => {  Ordering::Equal }, _ => o_disc(a).cmp(&o_disc(b)) } }
#[repr(C)] pub struct Wrap { pub pre: u8, pub x: T, pub post: [u8; 9] }
pub fn wrap(i: usize, n: u8) -> Wrap { Wrap { pre: n, x: values().swap_remove(i), post: [n; 9] } }
pub fn run(out: &mut Out) { let vs = values(); for (i, a) in vs.iter().enumerate() { for (j, b) in vs.iter().enumerate() { let e = o_cmp(a, b); let g = ::core::cmp::Ord::cmp(a, b); out.check(g == e, "ordlayout_56", "cmp", || format!("cmp({}, {}) = {:?} expected {:?}", show(a), show(b), g, e)); for n in [0u8, 1, 0x7f, 0x80, 0xff] { let wa = wrap(i, n); let wb = wrap(j, !n); let g = ::core::cmp::Ord::cmp(&wa.x, &wb.x); let e = o_cmp(a, b); out.check(g == e, "ordlayout_56", "cmp_neighbours", || format!("cmp({}, {}) with neighbour bytes {} = {:?} expected {:?}", show(a), show(b), n, g, e)); } } } }
