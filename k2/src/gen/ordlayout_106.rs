// ordlayout_106
#![allow(dead_code, unused_variables, unused_mut, unused_imports, non_shorthand_field_patterns, clippy::all)]
use crate::support::*;
use core::cmp::Ordering;
pub mod ty {
    #![deny(warnings)]
    #![allow(dead_code, unused_imports, non_snake_case)]
    use crate::support::{A, B, C, Good, Bad, m_eq, m_cmp, m_pcmp, m_hash, m_fmt, m_clone, m_clone_c, m_into, g_eq, g_cmp, g_pcmp, g_hash, g_fmt};
    use educe::Educe;
#[derive(Educe)]
#[educe(Eq, Ord, PartialEq)]
#[educe(Debug)]
pub enum T { Zed { #[educe(Ord(rank("0")))] self_data: ::core::num::NonZeroU8, #[educe(Debug(ignore = true))] #[educe(Ord(rank = 0x6))] a: char, #[educe(Debug(ignore))] #[educe(Ord(rank = -2))] b: &'static u8 }, Some { #[educe(Ord(rank = "-5"), Debug(ignore = true))] data: Option<u8>, #[educe(Debug(ignore = false), Ord(rank("-1")))] size: Option<u8>, #[educe(Ord(rank = -2, ignore(false)))] b: bool } }
}
pub use ty::T;
impl PartialOrd for T { fn partial_cmp(&self, o: &Self) -> Option<Ordering> { Some(::core::cmp::Ord::cmp(self, o)) } }
pub fn values() -> Vec<T> { vec![T::Zed { self_data: ::core::num::NonZeroU8::new(1).unwrap(), a: 'a', b: &3u8 }, T::Zed { self_data: ::core::num::NonZeroU8::new(1).unwrap(), a: 'a', b: &200u8 }, T::Zed { self_data: ::core::num::NonZeroU8::new(1).unwrap(), a: 'z', b: &3u8 }, T::Zed { self_data: ::core::num::NonZeroU8::new(1).unwrap(), a: 'z', b: &200u8 }, T::Zed { self_data: ::core::num::NonZeroU8::new(200).unwrap(), a: 'a', b: &3u8 }, T::Zed { self_data: ::core::num::NonZeroU8::new(200).unwrap(), a: 'a', b: &200u8 }, T::Zed { self_data: ::core::num::NonZeroU8::new(200).unwrap(), a: 'z', b: &3u8 }, T::Zed { self_data: ::core::num::NonZeroU8::new(200).unwrap(), a: 'z', b: &200u8 }, T::Some { data: None, size: None, b: false }, T::Some { data: None, size: None, b: true }, T::Some { data: None, size: Some(0), b: false }, T::Some { data: None, size: Some(0), b: true }, T::Some { data: None, size: Some(255), b: false }, T::Some { data: None, size: Some(255), b: true }, T::Some { data: Some(0), size: None, b: false }, T::Some { data: Some(0), size: None, b: true }, T::Some { data: Some(0), size: Some(0), b: false }, T::Some { data: Some(0), size: Some(0), b: true }, T::Some { data: Some(0), size: Some(255), b: false }, T::Some { data: Some(0), size: Some(255), b: true }, T::Some { data: Some(255), size: None, b: false }, T::Some { data: Some(255), size: None, b: true }, T::Some { data: Some(255), size: Some(0), b: false }, T::Some { data: Some(255), size: Some(0), b: true }, T::Some { data: Some(255), size: Some(255), b: false }, T::Some { data: Some(255), size: Some(255), b: true }] }
pub fn show(x: &T) -> String { #[allow(unused_variables)] match x { T::Zed { self_data: p0, a: p1, b: p2 } => format!("Zed({},{},{})", sv(p0), sv(p1), sv(p2)), T::Some { data: p0, size: p1, b: p2 } => format!("Some({},{},{})", sv(p0), sv(p1), sv(p2)) } }
pub fn o_disc(x: &T) -> i128 { match x { T::Zed { self_data: _, a: _, b: _ } => 0, T::Some { data: _, size: _, b: _ } => 1 } }
pub fn o_cmp(a: &T, b: &T) -> Ordering { match (a, b) { (T::Zed { self_data: a0, a: a1, b: a2 }, T::Zed { self_data: b0, a: b1, b: b2 }) => { let c = ::core::cmp::Ord::cmp(a2, b2); if c != Ordering::Equal { return c; } let c = ::core::cmp::Ord::cmp(a0, b0); if c != Ordering::Equal { return c; } let c = ::core::cmp::Ord::cmp(a1, b1); if c != Ordering::Equal { return c; } Ordering::Equal }, (T::Some { data: a0, size: a1, b: a2 }, T::Some { data: b0, size: b1, b: b2 }) => { let c = ::core::cmp::Ord::cmp(a0, b0); if c != Ordering::Equal { return c; } let c = ::core::cmp::Ord::cmp(a2, b2); if c != Ordering::Equal { return c; } let c = ::core::cmp::Ord::cmp(a1, b1); if c != Ordering::Equal { return c; } Ordering::Equal }, _ => o_disc(a).cmp(&o_disc(b)) } }
#[repr(C)] pub struct Wrap { pub pre: u8, pub x: T, pub post: [u8; 9] }
pub fn wrap(i: usize, n: u8) -> Wrap { Wrap { pre: n, x: values().swap_remove(i), post: [n; 9] } }
pub fn run(out: &mut Out) { let vs = values(); for (i, a) in vs.iter().enumerate() { for (j, b) in vs.iter().enumerate() { let e = o_cmp(a, b); let g = ::core::cmp::Ord::cmp(a, b); out.check(g == e, "ordlayout_106", "cmp", || format!("cmp({}, {}) = {:?} expected {:?}", show(a), show(b), g, e)); for n in [0u8, 1, 0x7f, 0x80, 0xff] { let wa = wrap(i, n); let wb = wrap(j, !n); let g = ::core::cmp::Ord::cmp(&wa.x, &wb.x); let e = o_cmp(a, b); out.check(g == e, "ordlayout_106", "cmp_neighbours", || format!("cmp({}, {}) with neighbour bytes {} = {:?} expected {:?}", show(a), show(b), n, g, e)); } } } }
