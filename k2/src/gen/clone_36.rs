// clone_36
#![allow(dead_code, unused_variables, unused_mut, unused_imports, non_shorthand_field_patterns, clippy::all)]
use crate::support::*;
use educe::Educe;
use core::cmp::Ordering;
#[derive(Educe)]
#[educe(Copy, Clone)]
pub enum T { A { other: C<0>, source: C<0>, b: C<2> } }
pub fn values() -> Vec<T> { vec![T::A { other: C(2), source: C(2), b: C(2) }, T::A { other: C(1), source: C(2), b: C(2) }, T::A { other: C(1), source: C(2), b: C(0) }, T::A { other: C(2), source: C(1), b: C(2) }, T::A { other: C(1), source: C(0), b: C(2) }, T::A { other: C(0), source: C(2), b: C(1) }, T::A { other: C(2), source: C(0), b: C(1) }, T::A { other: C(2), source: C(0), b: C(0) }, T::A { other: C(0), source: C(0), b: C(0) }, T::A { other: C(1), source: C(1), b: C(1) }, T::A { other: C(1), source: C(2), b: C(1) }, T::A { other: C(1), source: C(1), b: C(2) }, T::A { other: C(2), source: C(1), b: C(0) }, T::A { other: C(0), source: C(0), b: C(1) }, T::A { other: C(0), source: C(0), b: C(2) }, T::A { other: C(0), source: C(1), b: C(0) }, T::A { other: C(2), source: C(2), b: C(0) }, T::A { other: C(0), source: C(2), b: C(0) }, T::A { other: C(1), source: C(0), b: C(1) }, T::A { other: C(1), source: C(1), b: C(0) }] }
pub fn show(x: &T) -> String { #[allow(unused_variables)] match x { T::A { other: p0, source: p1, b: p2 } => format!("A({},{},{})", sv(p0), sv(p1), sv(p2)) } }
pub fn o_clone(x: &T) -> T { match x { T::A { other: p0, source: p1, b: p2 } => T::A { other: C(p0.0), source: C(p1.0), b: C(p2.0) } } }
pub fn o_log(x: &T) -> Vec<String> { match x { T::A { other: p0, source: p1, b: p2 } => vec![] } }
pub fn run(out: &mut Out) { let vs = values(); for a in &vs { let _ = take_log(); let g = ::core::clone::Clone::clone(a); let l = take_log(); let e = o_clone(a); out.check(show(&g) == show(&e), "clone_36", "clone", || format!("clone({}) = {} expected {}", show(a), show(&g), show(&e))); let el = o_log(a); out.check(l == el, "clone_36", "clone_calls", || format!("clone({}) called {:?} expected {:?}", show(a), l, el)); } let n = vs.len(); for i in 0..n { for j in 0..n { let mut x = values().swap_remove(i); let shown = show(&x); ::core::clone::Clone::clone_from(&mut x, &vs[j]); let e = o_clone(&vs[j]); out.check(show(&x) == show(&e), "clone_36", "clone_from", || format!("{}.clone_from({}) = {} expected {}", shown, show(&vs[j]), show(&x), show(&e))); } }  fn is_copy<X: Copy>() {} is_copy::<T>(); }
