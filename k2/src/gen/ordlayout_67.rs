// ordlayout_67
#![allow(dead_code, unused_variables, unused_mut, unused_imports, non_shorthand_field_patterns, clippy::all)]
use crate::support::*;
use educe::Educe;
use core::cmp::Ordering;
#[derive(Educe)]
#[repr(i64)]
#[educe(Eq, PartialOrd, Ord, PartialEq)]
pub enum T { V1 = 127, None { #[educe(PartialOrd(rank = -1))] _0: u8 } = -1 }

pub fn values() -> Vec<T> { vec![T::V1, T::None { _0: 0 }, T::None { _0: 100 }, T::None { _0: 200 }] }
pub fn show(x: &T) -> String { #[allow(unused_variables)] match x { T::V1 => format!("V1()"), T::None { _0: p0 } => format!("None({})", sv(p0)) } }
pub fn o_disc(x: &T) -> i128 { match x { T::V1 => 127, T::None { _0: _ } => -1 } }
pub fn o_cmp(a: &T, b: &T) -> Ordering { match (a, b) { (T::V1, T::V1) => {  Ordering::Equal }, (T::None { _0: a0 }, T::None { _0: b0 }) => { let c = ::core::cmp::Ord::cmp(a0, b0); if c != Ordering::Equal { return c; } Ordering::Equal }, _ => o_disc(a).cmp(&o_disc(b)) } }
#[repr(C)] pub struct Wrap { pub pre: u8, pub x: T, pub post: [u8; 9] }
pub fn wrap(i: usize, n: u8) -> Wrap { Wrap { pre: n, x: values().swap_remove(i), post: [n; 9] } }
pub fn run(out: &mut Out) { let vs = values(); for (i, a) in vs.iter().enumerate() { for (j, b) in vs.iter().enumerate() { let e = o_cmp(a, b); let g = ::core::cmp::Ord::cmp(a, b); out.check(g == e, "ordlayout_67", "cmp", || format!("cmp({}, {}) = {:?} expected {:?}", show(a), show(b), g, e)); let g2 = ::core::cmp::PartialOrd::partial_cmp(a, b); out.check(g2 == Some(e), "ordlayout_67", "partial_is_some_cmp", || format!("partial_cmp({}, {}) = {:?} expected Some({:?})", show(a), show(b), g2, e)); for n in [0u8, 1, 0x7f, 0x80, 0xff] { let wa = wrap(i, n); let wb = wrap(j, !n); let g = ::core::cmp::Ord::cmp(&wa.x, &wb.x); let e = o_cmp(a, b); out.check(g == e, "ordlayout_67", "cmp_neighbours", || format!("cmp({}, {}) with neighbour bytes {} = {:?} expected {:?}", show(a), show(b), n, g, e)); } } } }
