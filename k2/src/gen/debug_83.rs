// debug_83
#![allow(dead_code, unused_variables, unused_mut, unused_imports, non_shorthand_field_patterns, clippy::all)]
use crate::support::*;
use educe::Educe;
use core::cmp::Ordering;
#[derive(Educe)]
#[educe(Debug(rename = false))]
pub enum T { #[educe(Debug(name = ""))] None { source: A<0>, #[educe(Debug(ignore = true))] c: A<1> } }
pub fn values() -> Vec<T> { vec![T::None { source: A(0), c: A(0) }, T::None { source: A(0), c: A(1) }, T::None { source: A(0), c: A(7) }, T::None { source: A(1), c: A(0) }, T::None { source: A(1), c: A(1) }, T::None { source: A(1), c: A(7) }, T::None { source: A(7), c: A(0) }, T::None { source: A(7), c: A(1) }, T::None { source: A(7), c: A(7) }] }
pub fn show(x: &T) -> String { #[allow(unused_variables)] match x { T::None { source: p0, c: p1 } => format!("None({},{})", sv(p0), sv(p1)) } }
pub fn o_fmt(x: &T, f: &mut ::core::fmt::Formatter<'_>) -> ::core::fmt::Result { match x { T::None { source: p0, c: p1 } => f.debug_map().entry(&Raw("source"), p0).finish() } }

pub fn run(out: &mut Out) { let vs = values(); for a in &vs { let g = format!("{:?}", a); let e = format!("{:?}", Fm(|f: &mut ::core::fmt::Formatter<'_>| o_fmt(a, f))); out.check(g == e, "debug_83", "debug", || format!("{{:?}} of {} = {:?} expected {:?}", show(a), g, e)); let g = format!("{:#?}", a); let e = format!("{:#?}", Fm(|f: &mut ::core::fmt::Formatter<'_>| o_fmt(a, f))); out.check(g == e, "debug_83", "debug_alt", || format!("{{:#?}} of {} = {:?} expected {:?}", show(a), g, e)); let g = format!("{:8?}", a); let e = format!("{:8?}", Fm(|f: &mut ::core::fmt::Formatter<'_>| o_fmt(a, f))); out.check(g == e, "debug_83", "debug_width", || format!("{{:8?}} of {} = {:?} expected {:?}", show(a), g, e)); }  }
