// default_15
#![allow(dead_code, unused_variables, unused_mut, unused_imports, non_shorthand_field_patterns, clippy::all)]
use crate::support::*;
use educe::Educe;
use core::cmp::Ordering;
#[derive(Educe)]
#[educe(Default)]
pub struct T { #[educe(Default = 300)] builder: u16, c: i128 }
pub fn show(x: &T) -> String { #[allow(unused_variables)] match x { T { builder: p0, c: p1 } => format!("T({},{})", sv(p0), sv(p1)) } }
pub fn o_default() -> T { T { builder: 300u16, c: 0i128 } }
pub fn run(out: &mut Out) { let g = <T as ::core::default::Default>::default(); let e = o_default(); out.check(show(&g) == show(&e), "default_15", "default", || format!("default() = {} expected {}", show(&g), show(&e))); }
