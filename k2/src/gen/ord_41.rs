// ord_41
#![allow(dead_code, unused_variables, unused_mut, unused_imports, non_shorthand_field_patterns, clippy::all)]
use crate::support::*;
use core::cmp::Ordering;
pub mod ty {
    #![deny(warnings)]
    #![allow(dead_code, unused_imports, non_snake_case)]
    use crate::support::{A, B, C, Good, Bad, m_eq, m_cmp, m_pcmp, m_hash, m_fmt, m_clone, m_clone_c, m_into, g_eq, g_cmp, g_pcmp, g_hash, g_fmt};
    use educe::Educe;
#[derive(Educe)]
#[educe(Ord, PartialEq, Eq)]
pub struct T { pub size: A<0>, pub other: A<0>, #[educe(Ord(rank = -1, ignore(false)))] pub _size: A<0> }
}
pub use ty::T;
impl PartialOrd for T { fn partial_cmp(&self, o: &Self) -> Option<Ordering> { Some(::core::cmp::Ord::cmp(self, o)) } }
pub fn values() -> Vec<T> { vec![T { size: A(0), other: A(0), _size: A(0) }, T { size: A(0), other: A(0), _size: A(1) }, T { size: A(0), other: A(0), _size: A(7) }, T { size: A(0), other: A(1), _size: A(0) }, T { size: A(0), other: A(1), _size: A(1) }, T { size: A(0), other: A(1), _size: A(7) }, T { size: A(0), other: A(7), _size: A(0) }, T { size: A(0), other: A(7), _size: A(1) }, T { size: A(0), other: A(7), _size: A(7) }, T { size: A(1), other: A(0), _size: A(0) }, T { size: A(1), other: A(0), _size: A(1) }, T { size: A(1), other: A(0), _size: A(7) }, T { size: A(1), other: A(1), _size: A(0) }, T { size: A(1), other: A(1), _size: A(1) }, T { size: A(1), other: A(1), _size: A(7) }, T { size: A(1), other: A(7), _size: A(0) }, T { size: A(1), other: A(7), _size: A(1) }, T { size: A(1), other: A(7), _size: A(7) }, T { size: A(7), other: A(0), _size: A(0) }, T { size: A(7), other: A(0), _size: A(1) }, T { size: A(7), other: A(0), _size: A(7) }, T { size: A(7), other: A(1), _size: A(0) }, T { size: A(7), other: A(1), _size: A(1) }, T { size: A(7), other: A(1), _size: A(7) }, T { size: A(7), other: A(7), _size: A(0) }, T { size: A(7), other: A(7), _size: A(1) }, T { size: A(7), other: A(7), _size: A(7) }] }
pub fn show(x: &T) -> String { #[allow(unused_variables)] match x { T { size: p0, other: p1, _size: p2 } => format!("T({},{},{})", sv(p0), sv(p1), sv(p2)) } }
pub fn o_disc(x: &T) -> i128 { match x { T { size: _, other: _, _size: _ } => 0 } }
pub fn o_cmp(a: &T, b: &T) -> Ordering { match (a, b) { (T { size: a0, other: a1, _size: a2 }, T { size: b0, other: b1, _size: b2 }) => { let c = ::core::cmp::Ord::cmp(a0, b0); if c != Ordering::Equal { return c; } let c = ::core::cmp::Ord::cmp(a1, b1); if c != Ordering::Equal { return c; } let c = ::core::cmp::Ord::cmp(a2, b2); if c != Ordering::Equal { return c; } Ordering::Equal } } }
pub fn run(out: &mut Out) { let vs = values(); for (i, a) in vs.iter().enumerate() { for (j, b) in vs.iter().enumerate() { let e = o_cmp(a, b); let g = ::core::cmp::Ord::cmp(a, b); out.check(g == e, "ord_41", "cmp", || format!("cmp({}, {}) = {:?} expected {:?}", show(a), show(b), g, e)); } } }
