// into_90
#![allow(dead_code, unused_variables, unused_mut, unused_imports, non_shorthand_field_patterns, clippy::all)]
use crate::support::*;
use educe::Educe;
use core::cmp::Ordering;
#[derive(Educe)]
#[educe(Into(B<0>))]
#[educe(Into(A<1>))]
pub enum T { V1(A<2>, #[educe(Into(A<1>))] A<1>, #[educe(Into(B<0>))] A<1>), Unit(A<1>) }
pub fn values() -> Vec<T> { vec![T::V1(A(1), A(1), A(0)), T::V1(A(7), A(0), A(0)), T::V1(A(7), A(1), A(1)), T::V1(A(1), A(1), A(1)), T::V1(A(0), A(7), A(0)), T::V1(A(0), A(1), A(7)), T::Unit(A(0)), T::Unit(A(1)), T::Unit(A(7))] }
pub fn show(x: &T) -> String { #[allow(unused_variables)] match x { T::V1(p0, p1, p2) => format!("V1({},{},{})", sv(p0), sv(p1), sv(p2)), T::Unit(p0) => format!("Unit({})", sv(p0)) } }
pub fn o_into_0(x: T) -> B<0> { match x { T::V1(_, _, p2) => ::core::convert::Into::into(p2), T::Unit(p0) => ::core::convert::Into::into(p0) } }
pub fn o_into_1(x: T) -> A<1> { match x { T::V1(_, p1, _) => p1, T::Unit(p0) => p0 } }
pub fn run(out: &mut Out) { let n = values().len(); for i in 0..n { let a = values().swap_remove(i); let shown = show(&a); let g: B<0> = ::core::convert::Into::into(a); let e = o_into_0(values().swap_remove(i)); out.check(sv(&g) == sv(&e), "into_90", "into", || format!("Into::<B<0>>::into({}) = {} expected {}", shown, sv(&g), sv(&e))); } for i in 0..n { let a = values().swap_remove(i); let shown = show(&a); let g: A<1> = ::core::convert::Into::into(a); let e = o_into_1(values().swap_remove(i)); out.check(sv(&g) == sv(&e), "into_90", "into", || format!("Into::<A<1>>::into({}) = {} expected {}", shown, sv(&g), sv(&e))); } }
