// debug_29
#![allow(dead_code, unused_variables, unused_mut, unused_imports, non_shorthand_field_patterns, clippy::all)]
use crate::support::*;
use educe::Educe;
use core::cmp::Ordering;
#[derive(Educe)]
#[educe(Debug(rename("Zz")))]
pub enum T { Some(A<0>, #[educe(Debug(method = m_fmt))] A<1>, #[educe(Debug(method = m_fmt))] A<0>, A<3>), #[educe(Debug(name = "Ren", named_field = false))] Unit { y: A<0>, data: A<0> } }
pub fn values() -> Vec<T> { vec![T::Some(A(7), A(7), A(0), A(0)), T::Some(A(0), A(7), A(0), A(0)), T::Some(A(1), A(0), A(0), A(1)), T::Some(A(1), A(0), A(7), A(1)), T::Some(A(7), A(7), A(7), A(7)), T::Some(A(0), A(0), A(0), A(1)), T::Some(A(7), A(0), A(7), A(7)), T::Some(A(7), A(0), A(1), A(1)), T::Some(A(0), A(7), A(0), A(7)), T::Some(A(0), A(1), A(1), A(1)), T::Some(A(0), A(0), A(0), A(7)), T::Some(A(0), A(7), A(1), A(0)), T::Unit { y: A(0), data: A(0) }, T::Unit { y: A(0), data: A(1) }, T::Unit { y: A(0), data: A(7) }, T::Unit { y: A(1), data: A(0) }, T::Unit { y: A(1), data: A(1) }, T::Unit { y: A(1), data: A(7) }, T::Unit { y: A(7), data: A(0) }, T::Unit { y: A(7), data: A(1) }, T::Unit { y: A(7), data: A(7) }] }
pub fn show(x: &T) -> String { #[allow(unused_variables)] match x { T::Some(p0, p1, p2, p3) => format!("Some({},{},{},{})", sv(p0), sv(p1), sv(p2), sv(p3)), T::Unit { y: p0, data: p1 } => format!("Unit({},{})", sv(p0), sv(p1)) } }
pub fn o_fmt(x: &T, f: &mut ::core::fmt::Formatter<'_>) -> ::core::fmt::Result { match x { T::Some(p0, p1, p2, p3) => f.debug_tuple("Zz::Some").field(p0).field(&Wm(p1)).field(&Wm(p2)).field(p3).finish(), T::Unit { y: p0, data: p1 } => f.debug_tuple("Zz::Ren").field(p0).field(p1).finish() } }

pub fn run(out: &mut Out) { let vs = values(); for a in &vs { let g = format!("{:?}", a); let e = format!("{:?}", Fm(|f: &mut ::core::fmt::Formatter<'_>| o_fmt(a, f))); out.check(g == e, "debug_29", "debug", || format!("{{:?}} of {} = {:?} expected {:?}", show(a), g, e)); let g = format!("{:#?}", a); let e = format!("{:#?}", Fm(|f: &mut ::core::fmt::Formatter<'_>| o_fmt(a, f))); out.check(g == e, "debug_29", "debug_alt", || format!("{{:#?}} of {} = {:?} expected {:?}", show(a), g, e)); let g = format!("{:8?}", a); let e = format!("{:8?}", Fm(|f: &mut ::core::fmt::Formatter<'_>| o_fmt(a, f))); out.check(g == e, "debug_29", "debug_width", || format!("{{:8?}} of {} = {:?} expected {:?}", show(a), g, e)); }  }
