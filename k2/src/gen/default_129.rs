// default_129
#![allow(dead_code, unused_variables, unused_mut, unused_imports, non_shorthand_field_patterns, clippy::all)]
use crate::support::*;
use educe::Educe;
use core::cmp::Ordering;
#[derive(Educe)]
#[educe(Default)]
pub enum T { A(String, &'static str, &'static str), Zed(A<3>, u16, f64, bool), #[educe(Default)] None(#[educe(Default = 77)] i128, bool), Some { other: String, x: i128, source: u16 } }
pub fn show(x: &T) -> String { #[allow(unused_variables)] match x { T::A(p0, p1, p2) => format!("A({},{},{})", sv(p0), sv(p1), sv(p2)), T::Zed(p0, p1, p2, p3) => format!("Zed({},{},{},{})", sv(p0), sv(p1), sv(p2), sv(p3)), T::None(p0, p1) => format!("None({},{})", sv(p0), sv(p1)), T::Some { other: p0, x: p1, source: p2 } => format!("Some({},{},{})", sv(p0), sv(p1), sv(p2)) } }
pub fn o_default() -> T { T::None(77i128, false) }
pub fn run(out: &mut Out) { let g = <T as ::core::default::Default>::default(); let e = o_default(); out.check(show(&g) == show(&e), "default_129", "default", || format!("default() = {} expected {}", show(&g), show(&e))); }
