// ordlayout_45
#![allow(dead_code, unused_variables, unused_mut, unused_imports, non_shorthand_field_patterns, clippy::all)]
use crate::support::*;
use core::cmp::Ordering;
pub mod ty {
    #![deny(warnings)]
    #![allow(dead_code, unused_imports, non_snake_case)]
    use crate::support::{A, B, C, Good, Bad, m_eq, m_cmp, m_pcmp, m_hash, m_fmt, m_clone, m_clone_c, m_into, g_eq, g_cmp, g_pcmp, g_hash, g_fmt};
    use educe::Educe;
#[derive(Educe)]
#[repr(u16)]
#[educe(Debug)]
#[educe(PartialOrd, Eq, PartialEq)]
pub enum T { Unit { #[educe(Debug(ignore), PartialOrd(ignore(false)))] a: Option<u8> }, None { #[educe(PartialOrd(rank("1")))] #[educe(Debug(name = zz5))] other: ::core::num::NonZeroU8, #[educe(Debug(ignore))] source: Option<u8> }, A, B(bool, #[educe(Debug(ignore = false), PartialOrd(rank = 0x2))] &'static u8) }
}
pub use ty::T;

pub fn values() -> Vec<T> { vec![T::Unit { a: None }, T::Unit { a: Some(0) }, T::Unit { a: Some(255) }, T::None { other: ::core::num::NonZeroU8::new(1).unwrap(), source: None }, T::None { other: ::core::num::NonZeroU8::new(1).unwrap(), source: Some(0) }, T::None { other: ::core::num::NonZeroU8::new(1).unwrap(), source: Some(255) }, T::None { other: ::core::num::NonZeroU8::new(200).unwrap(), source: None }, T::None { other: ::core::num::NonZeroU8::new(200).unwrap(), source: Some(0) }, T::None { other: ::core::num::NonZeroU8::new(200).unwrap(), source: Some(255) }, T::A, T::B(false, &3u8), T::B(false, &200u8), T::B(true, &3u8), T::B(true, &200u8)] }
pub fn show(x: &T) -> String { #[allow(unused_variables)] match x { T::Unit { a: p0 } => format!("Unit({})", sv(p0)), T::None { other: p0, source: p1 } => format!("None({},{})", sv(p0), sv(p1)), T::A => format!("A()"), T::B(p0, p1) => format!("B({},{})", sv(p0), sv(p1)) } }
pub fn o_disc(x: &T) -> i128 { match x { T::Unit { a: _ } => 0, T::None { other: _, source: _ } => 1, T::A => 2, T::B(_, _) => 3 } }
pub fn o_pcmp(a: &T, b: &T) -> Option<Ordering> { match (a, b) { (T::Unit { a: a0 }, T::Unit { a: b0 }) => { match ::core::cmp::PartialOrd::partial_cmp(a0, b0) { Some(Ordering::Equal) => (), x => return x } Some(Ordering::Equal) }, (T::None { other: a0, source: a1 }, T::None { other: b0, source: b1 }) => { match ::core::cmp::PartialOrd::partial_cmp(a1, b1) { Some(Ordering::Equal) => (), x => return x } match ::core::cmp::PartialOrd::partial_cmp(a0, b0) { Some(Ordering::Equal) => (), x => return x } Some(Ordering::Equal) }, (T::A, T::A) => {  Some(Ordering::Equal) }, (T::B(a0, a1), T::B(b0, b1)) => { match ::core::cmp::PartialOrd::partial_cmp(a0, b0) { Some(Ordering::Equal) => (), x => return x } match ::core::cmp::PartialOrd::partial_cmp(a1, b1) { Some(Ordering::Equal) => (), x => return x } Some(Ordering::Equal) }, _ => Some(o_disc(a).cmp(&o_disc(b))) } }
#[repr(C)] pub struct Wrap { pub pre: u8, pub x: T, pub post: [u8; 9] }
pub fn wrap(i: usize, n: u8) -> Wrap { Wrap { pre: n, x: values().swap_remove(i), post: [n; 9] } }
pub fn run(out: &mut Out) { let vs = values(); for (i, a) in vs.iter().enumerate() { for (j, b) in vs.iter().enumerate() { let e = o_pcmp(a, b); let g = ::core::cmp::PartialOrd::partial_cmp(a, b); out.check(g == e, "ordlayout_45", "partial_cmp", || format!("partial_cmp({}, {}) = {:?} expected {:?}", show(a), show(b), g, e)); for n in [0u8, 1, 0x7f, 0x80, 0xff] { let wa = wrap(i, n); let wb = wrap(j, !n); let g = ::core::cmp::PartialOrd::partial_cmp(&wa.x, &wb.x); let e = o_pcmp(a, b); out.check(g == e, "ordlayout_45", "cmp_neighbours", || format!("cmp({}, {}) with neighbour bytes {} = {:?} expected {:?}", show(a), show(b), n, g, e)); } } } }
