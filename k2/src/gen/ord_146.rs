// ord_146
#![allow(dead_code, unused_variables, unused_mut, unused_imports, non_shorthand_field_patterns, clippy::all)]
use crate::support::*;
use core::cmp::Ordering;
pub mod ty {
    #![deny(warnings)]
    #![allow(dead_code, unused_imports, non_snake_case)]
    use crate::support::{A, B, C, Good, Bad, m_eq, m_cmp, m_pcmp, m_hash, m_fmt, m_clone, m_clone_c, m_into, g_eq, g_cmp, g_pcmp, g_hash, g_fmt};
    use educe::Educe;
#[derive(Educe)]
#[repr(i64)]
#[educe(PartialEq, Eq, Ord)]
pub enum T { A, None { #[educe(Ord = false)] a: A<0>, #[educe(Ord(rank("2")))] c: A<1>, #[educe(Ord(ignore = true))] other: A<2> } = 70000, Some(#[educe(Ord(rank = 0x2))] A<0>) = 200, Unit { #[educe(Ord(ignore))] c: A<0>, #[educe(Ord(ignore(true)))] source: A<1> } = -170 }
}
pub use ty::T;
impl PartialOrd for T { fn partial_cmp(&self, o: &Self) -> Option<Ordering> { Some(::core::cmp::Ord::cmp(self, o)) } }
pub fn values() -> Vec<T> { vec![T::A, T::None { a: A(1), c: A(1), other: A(7) }, T::None { a: A(0), c: A(7), other: A(7) }, T::None { a: A(0), c: A(1), other: A(1) }, T::None { a: A(7), c: A(0), other: A(0) }, T::None { a: A(7), c: A(1), other: A(1) }, T::None { a: A(7), c: A(7), other: A(1) }, T::None { a: A(7), c: A(0), other: A(7) }, T::None { a: A(0), c: A(1), other: A(7) }, T::None { a: A(1), c: A(7), other: A(1) }, T::Some(A(0)), T::Some(A(1)), T::Some(A(7)), T::Unit { c: A(0), source: A(0) }, T::Unit { c: A(0), source: A(1) }, T::Unit { c: A(0), source: A(7) }, T::Unit { c: A(1), source: A(0) }, T::Unit { c: A(1), source: A(1) }, T::Unit { c: A(1), source: A(7) }, T::Unit { c: A(7), source: A(0) }, T::Unit { c: A(7), source: A(1) }, T::Unit { c: A(7), source: A(7) }] }
pub fn show(x: &T) -> String { #[allow(unused_variables)] match x { T::A => format!("A()"), T::None { a: p0, c: p1, other: p2 } => format!("None({},{},{})", sv(p0), sv(p1), sv(p2)), T::Some(p0) => format!("Some({})", sv(p0)), T::Unit { c: p0, source: p1 } => format!("Unit({},{})", sv(p0), sv(p1)) } }
pub fn o_disc(x: &T) -> i128 { match x { T::A => 0, T::None { a: _, c: _, other: _ } => 70000, T::Some(_) => 200, T::Unit { c: _, source: _ } => -170 } }
pub fn o_cmp(a: &T, b: &T) -> Ordering { match (a, b) { (T::A, T::A) => {  Ordering::Equal }, (T::None { a: a0, c: a1, other: a2 }, T::None { a: b0, c: b1, other: b2 }) => { let c = ::core::cmp::Ord::cmp(a1, b1); if c != Ordering::Equal { return c; } Ordering::Equal }, (T::Some(a0), T::Some(b0)) => { let c = ::core::cmp::Ord::cmp(a0, b0); if c != Ordering::Equal { return c; } Ordering::Equal }, (T::Unit { c: a0, source: a1 }, T::Unit { c: b0, source: b1 }) => {  Ordering::Equal }, _ => o_disc(a).cmp(&o_disc(b)) } }
pub fn run(out: &mut Out) { let vs = values(); for (i, a) in vs.iter().enumerate() { for (j, b) in vs.iter().enumerate() { let e = o_cmp(a, b); let g = ::core::cmp::Ord::cmp(a, b); out.check(g == e, "ord_146", "cmp", || format!("cmp({}, {}) = {:?} expected {:?}", show(a), show(b), g, e)); } } }
