// into_12
#![allow(dead_code, unused_variables, unused_mut, unused_imports, non_shorthand_field_patterns, clippy::all)]
use crate::support::*;
use educe::Educe;
use core::cmp::Ordering;
#[derive(Educe)]
#[educe(Into(A<0>))]
pub enum T { A(A<0>), Some { data: A<3>, builder: A<0> } }
pub fn values() -> Vec<T> { vec![T::A(A(0)), T::A(A(1)), T::A(A(7)), T::Some { data: A(1), builder: A(1) }, T::Some { data: A(1), builder: A(0) }, T::Some { data: A(7), builder: A(0) }, T::Some { data: A(7), builder: A(1) }, T::Some { data: A(0), builder: A(0) }, T::Some { data: A(1), builder: A(7) }] }
pub fn show(x: &T) -> String { #[allow(unused_variables)] match x { T::A(p0) => format!("A({})", sv(p0)), T::Some { data: p0, builder: p1 } => format!("Some({},{})", sv(p0), sv(p1)) } }
pub fn o_into_0(x: T) -> A<0> { match x { T::A(p0) => p0, T::Some { data: _, builder: p1 } => p1 } }
pub fn run(out: &mut Out) { let n = values().len(); for i in 0..n { let a = values().swap_remove(i); let shown = show(&a); let g: A<0> = ::core::convert::Into::into(a); let e = o_into_0(values().swap_remove(i)); out.check(sv(&g) == sv(&e), "into_12", "into", || format!("Into::<A<0>>::into({}) = {} expected {}", shown, sv(&g), sv(&e))); } }
