// into_12
#![allow(dead_code, unused_variables, unused_mut, unused_imports, non_shorthand_field_patterns, clippy::all)]
use crate::support::*;
use core::cmp::Ordering;
pub mod ty {
    #![deny(warnings)]
    #![allow(dead_code, unused_imports)]
    use crate::support::{A, B, C, Good, Bad, m_eq, m_cmp, m_pcmp, m_hash, m_fmt, m_clone, m_clone_c, m_into, g_eq, g_cmp, g_pcmp, g_hash, g_fmt};
    use educe::Educe;

    // names at the derive site that shadow everything the generated code might be tempted to write unqualified
    #[allow(non_camel_case_types)] pub struct Option; pub struct Result; pub struct Ordering; pub struct Clone; pub struct Copy;
    pub struct Default; pub struct Debug; pub struct PartialEq; pub struct Eq; pub struct PartialOrd; pub struct Ord; pub struct Hash;
    pub struct Hasher; pub struct Into; pub struct From; pub struct Deref; pub struct DerefMut; pub struct Formatter; pub struct String;
    pub struct Vec; pub struct Box; pub struct PhantomData; pub struct Sized; pub struct Send; pub struct Iterator; pub struct Self_;
    #[allow(non_snake_case)] pub fn Some() {} #[allow(non_snake_case)] pub fn None() {} #[allow(non_snake_case)] pub fn Ok() {} #[allow(non_snake_case)] pub fn Err() {}
    pub fn drop() {} pub mod core {} pub mod std {} pub mod alloc {} pub mod fmt {} pub mod cmp {} pub mod hash {} pub mod clone {} pub mod marker {}
    #[allow(unused_macros)] macro_rules! stringify { ($($t:tt)*) => { "SHADOWED" } }
    #[allow(unused_macros)] macro_rules! unreachable { ($($t:tt)*) => { () } }
    #[allow(unused_macros)] macro_rules! panic { ($($t:tt)*) => { () } }
    #[allow(unused_macros)] macro_rules! matches { ($($t:tt)*) => { true } }
    #[allow(unused_macros)] macro_rules! write { ($($t:tt)*) => { () } }
    #[allow(unused_macros)] macro_rules! format_args { ($($t:tt)*) => { () } }
    #[allow(unused_macros)] macro_rules! assert { ($($t:tt)*) => { () } }
#[derive(Educe)]
#[educe(Into(A<1>))]
#[educe(Into(B<1>))]
#[educe(Into(B<2>))]
pub enum T { None { #[educe(Into(B<2>, method = "m_into"))] data: A<2>, y: A<1>, #[educe(Into(A<1>))] #[educe(Into(B<1>))] f: A<1> }, Some { #[educe(Into(B<1>))] arg: A<0>, #[educe(Into(A<1>))] #[educe(Into(B<2>, method = m_into))] b: A<1>, self_data: A<2> }, B(#[educe(Into(A<1>))] #[educe(Into(B<1>, method(m_into)))] A<1>, #[educe(Into(B<2>))] A<1>) }
}
pub use ty::T;
pub fn values() -> Vec<T> { vec![T::None { data: A(1), y: A(1), f: A(7) }, T::None { data: A(1), y: A(7), f: A(1) }, T::None { data: A(1), y: A(7), f: A(0) }, T::None { data: A(0), y: A(1), f: A(0) }, T::Some { arg: A(0), b: A(1), self_data: A(0) }, T::Some { arg: A(7), b: A(7), self_data: A(7) }, T::Some { arg: A(0), b: A(0), self_data: A(1) }, T::Some { arg: A(1), b: A(0), self_data: A(0) }, T::B(A(1), A(7)), T::B(A(1), A(0)), T::B(A(7), A(1)), T::B(A(7), A(7))] }
pub fn show(x: &T) -> String { #[allow(unused_variables)] match x { T::None { data: p0, y: p1, f: p2 } => format!("None({},{},{})", sv(p0), sv(p1), sv(p2)), T::Some { arg: p0, b: p1, self_data: p2 } => format!("Some({},{},{})", sv(p0), sv(p1), sv(p2)), T::B(p0, p1) => format!("B({},{})", sv(p0), sv(p1)) } }
pub fn o_into_0(x: T) -> A<1> { match x { T::None { data: _, y: _, f: p2 } => p2, T::Some { arg: _, b: p1, self_data: _ } => p1, T::B(p0, _) => p0 } }
pub fn o_into_1(x: T) -> B<1> { match x { T::None { data: _, y: _, f: p2 } => ::core::convert::Into::into(p2), T::Some { arg: p0, b: _, self_data: _ } => ::core::convert::Into::into(p0), T::B(p0, _) => m_into(p0) } }
pub fn o_into_2(x: T) -> B<2> { match x { T::None { data: p0, y: _, f: _ } => m_into(p0), T::Some { arg: _, b: p1, self_data: _ } => m_into(p1), T::B(_, p1) => ::core::convert::Into::into(p1) } }
pub fn run(out: &mut Out) { let n = values().len(); for i in 0..n { let a = values().swap_remove(i); let shown = show(&a); let g: A<1> = ::core::convert::Into::into(a); let e = o_into_0(values().swap_remove(i)); out.check(sv(&g) == sv(&e), "into_12", "into", || format!("Into::<A<1>>::into({}) = {} expected {}", shown, sv(&g), sv(&e))); } for i in 0..n { let a = values().swap_remove(i); let shown = show(&a); let g: B<1> = ::core::convert::Into::into(a); let e = o_into_1(values().swap_remove(i)); out.check(sv(&g) == sv(&e), "into_12", "into", || format!("Into::<B<1>>::into({}) = {} expected {}", shown, sv(&g), sv(&e))); } for i in 0..n { let a = values().swap_remove(i); let shown = show(&a); let g: B<2> = ::core::convert::Into::into(a); let e = o_into_2(values().swap_remove(i)); out.check(sv(&g) == sv(&e), "into_12", "into", || format!("Into::<B<2>>::into({}) = {} expected {}", shown, sv(&g), sv(&e))); } }
