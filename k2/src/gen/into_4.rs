// into_4
#![allow(dead_code, unused_variables, unused_mut, unused_imports, non_shorthand_field_patterns, clippy::all)]
use crate::support::*;
use educe::Educe;
use core::cmp::Ordering;
#[derive(Educe)]
#[educe(Into(A<0>))]
pub enum T { None(A<3>, A<0>), Zed { #[educe(Into(A<0>))] r#type: A<0>, b: A<0> } }
pub fn values() -> Vec<T> { vec![T::None(A(7), A(0)), T::None(A(1), A(0)), T::None(A(1), A(7)), T::None(A(7), A(7)), T::None(A(7), A(1)), T::None(A(0), A(0)), T::Zed { r#type: A(0), b: A(7) }, T::Zed { r#type: A(1), b: A(1) }, T::Zed { r#type: A(1), b: A(0) }, T::Zed { r#type: A(1), b: A(7) }, T::Zed { r#type: A(0), b: A(0) }, T::Zed { r#type: A(7), b: A(0) }] }
pub fn show(x: &T) -> String { #[allow(unused_variables)] match x { T::None(p0, p1) => format!("None({},{})", sv(p0), sv(p1)), T::Zed { r#type: p0, b: p1 } => format!("Zed({},{})", sv(p0), sv(p1)) } }
pub fn o_into_0(x: T) -> A<0> { match x { T::None(_, p1) => p1, T::Zed { r#type: p0, b: _ } => p0 } }
pub fn run(out: &mut Out) { let n = values().len(); for i in 0..n { let a = values().swap_remove(i); let shown = show(&a); let g: A<0> = ::core::convert::Into::into(a); let e = o_into_0(values().swap_remove(i)); out.check(sv(&g) == sv(&e), "into_4", "into", || format!("Into::<A<0>>::into({}) = {} expected {}", shown, sv(&g), sv(&e))); } }
