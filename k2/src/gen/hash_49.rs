// hash_49
#![allow(dead_code, unused_variables, unused_mut, unused_imports, non_shorthand_field_patterns, clippy::all)]
use crate::support::*;
use educe::Educe;
use core::cmp::Ordering;
#[derive(Educe)]
#[educe(Hash)]
pub enum T { V1 { x: A<0>, #[educe(Hash(ignore = true))] arg: A<1>, source: A<2> } }
pub fn values() -> Vec<T> { vec![T::V1 { x: A(0), arg: A(0), source: A(0) }, T::V1 { x: A(0), arg: A(0), source: A(1) }, T::V1 { x: A(0), arg: A(0), source: A(7) }, T::V1 { x: A(0), arg: A(1), source: A(0) }, T::V1 { x: A(0), arg: A(1), source: A(1) }, T::V1 { x: A(0), arg: A(1), source: A(7) }, T::V1 { x: A(0), arg: A(7), source: A(0) }, T::V1 { x: A(0), arg: A(7), source: A(1) }, T::V1 { x: A(0), arg: A(7), source: A(7) }, T::V1 { x: A(1), arg: A(0), source: A(0) }, T::V1 { x: A(1), arg: A(0), source: A(1) }, T::V1 { x: A(1), arg: A(0), source: A(7) }, T::V1 { x: A(1), arg: A(1), source: A(0) }, T::V1 { x: A(1), arg: A(1), source: A(1) }, T::V1 { x: A(1), arg: A(1), source: A(7) }, T::V1 { x: A(1), arg: A(7), source: A(0) }, T::V1 { x: A(1), arg: A(7), source: A(1) }, T::V1 { x: A(1), arg: A(7), source: A(7) }, T::V1 { x: A(7), arg: A(0), source: A(0) }, T::V1 { x: A(7), arg: A(0), source: A(1) }, T::V1 { x: A(7), arg: A(0), source: A(7) }, T::V1 { x: A(7), arg: A(1), source: A(0) }, T::V1 { x: A(7), arg: A(1), source: A(1) }, T::V1 { x: A(7), arg: A(1), source: A(7) }, T::V1 { x: A(7), arg: A(7), source: A(0) }, T::V1 { x: A(7), arg: A(7), source: A(1) }, T::V1 { x: A(7), arg: A(7), source: A(7) }] }
pub fn show(x: &T) -> String { #[allow(unused_variables)] match x { T::V1 { x: p0, arg: p1, source: p2 } => format!("V1({},{},{})", sv(p0), sv(p1), sv(p2)) } }
pub fn o_hash(x: &T) -> Vec<String> { let mut e = Rec::default(); match x { T::V1 { x: p0, arg: p1, source: p2 } => { ::core::hash::Hash::hash(&0usize, &mut e); ::core::hash::Hash::hash(p0, &mut e); ::core::hash::Hash::hash(p2, &mut e); } } e.0 }
pub fn run(out: &mut Out) { let vs = values(); for a in &vs { let mut g = Rec::default(); ::core::hash::Hash::hash(a, &mut g); let e = o_hash(a); out.check(g.0 == e, "hash_49", "hash", || format!("hash({}) fed {:?} expected {:?}", show(a), g.0, e)); } }
