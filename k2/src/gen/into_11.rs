// into_11
#![allow(dead_code, unused_variables, unused_mut, unused_imports, non_shorthand_field_patterns, clippy::all)]
use crate::support::*;
use educe::Educe;
use core::cmp::Ordering;
#[derive(Educe)]
#[educe(Into(B<1>))]
pub enum T { Zed(A<0>, A<1>, #[educe(Into(B<1>, method = "m_into"))] A<1>), None(A<1>, #[educe(Into(B<1>, method = m_into))] A<1>) }
pub fn values() -> Vec<T> { vec![T::Zed(A(7), A(1), A(7)), T::Zed(A(7), A(7), A(0)), T::Zed(A(1), A(7), A(0)), T::Zed(A(0), A(0), A(1)), T::Zed(A(7), A(7), A(7)), T::Zed(A(7), A(1), A(1)), T::None(A(0), A(1)), T::None(A(0), A(0)), T::None(A(1), A(0)), T::None(A(7), A(0)), T::None(A(7), A(1)), T::None(A(1), A(1))] }
pub fn show(x: &T) -> String { #[allow(unused_variables)] match x { T::Zed(p0, p1, p2) => format!("Zed({},{},{})", sv(p0), sv(p1), sv(p2)), T::None(p0, p1) => format!("None({},{})", sv(p0), sv(p1)) } }
pub fn o_into_0(x: T) -> B<1> { match x { T::Zed(_, _, p2) => m_into(p2), T::None(_, p1) => m_into(p1) } }
pub fn run(out: &mut Out) { let n = values().len(); for i in 0..n { let a = values().swap_remove(i); let shown = show(&a); let g: B<1> = ::core::convert::Into::into(a); let e = o_into_0(values().swap_remove(i)); out.check(sv(&g) == sv(&e), "into_11", "into", || format!("Into::<B<1>>::into({}) = {} expected {}", shown, sv(&g), sv(&e))); } }
