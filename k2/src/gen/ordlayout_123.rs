// ordlayout_123
#![allow(dead_code, unused_variables, unused_mut, unused_imports, non_shorthand_field_patterns, clippy::all)]
use crate::support::*;
use educe::Educe;
use core::cmp::Ordering;
#[derive(Educe)]
#[repr(i64)]
#[educe(PartialEq, PartialOrd, Eq, Ord)]
pub enum T { Zed { #[educe(PartialOrd(rank = 5))] b: bool, #[educe(PartialOrd(rank = -2))] data: bool } }

pub fn values() -> Vec<T> { vec![T::Zed { b: false, data: false }, T::Zed { b: false, data: true }, T::Zed { b: true, data: false }, T::Zed { b: true, data: true }] }
pub fn show(x: &T) -> String { #[allow(unused_variables)] match x { T::Zed { b: p0, data: p1 } => format!("Zed({},{})", sv(p0), sv(p1)) } }
pub fn o_disc(x: &T) -> i128 { match x { T::Zed { b: _, data: _ } => 0 } }
pub fn o_cmp(a: &T, b: &T) -> Ordering { match (a, b) { (T::Zed { b: a0, data: a1 }, T::Zed { b: b0, data: b1 }) => { let c = ::core::cmp::Ord::cmp(a1, b1); if c != Ordering::Equal { return c; } let c = ::core::cmp::Ord::cmp(a0, b0); if c != Ordering::Equal { return c; } Ordering::Equal } } }
#[repr(C)] pub struct Wrap { pub pre: u8, pub x: T, pub post: [u8; 9] }
pub fn wrap(i: usize, n: u8) -> Wrap { Wrap { pre: n, x: values().swap_remove(i), post: [n; 9] } }
pub fn run(out: &mut Out) { let vs = values(); for (i, a) in vs.iter().enumerate() { for (j, b) in vs.iter().enumerate() { let e = o_cmp(a, b); let g = ::core::cmp::Ord::cmp(a, b); out.check(g == e, "ordlayout_123", "cmp", || format!("cmp({}, {}) = {:?} expected {:?}", show(a), show(b), g, e)); let g2 = ::core::cmp::PartialOrd::partial_cmp(a, b); out.check(g2 == Some(e), "ordlayout_123", "partial_is_some_cmp", || format!("partial_cmp({}, {}) = {:?} expected Some({:?})", show(a), show(b), g2, e)); for n in [0u8, 1, 0x7f, 0x80, 0xff] { let wa = wrap(i, n); let wb = wrap(j, !n); let g = ::core::cmp::Ord::cmp(&wa.x, &wb.x); let e = o_cmp(a, b); out.check(g == e, "ordlayout_123", "cmp_neighbours", || format!("cmp({}, {}) with neighbour bytes {} = {:?} expected {:?}", show(a), show(b), n, g, e)); } } } }
