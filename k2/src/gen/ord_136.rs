// ord_136
#![allow(dead_code, unused_variables, unused_mut, unused_imports, non_shorthand_field_patterns, clippy::all)]
use crate::support::*;
use core::cmp::Ordering;
pub mod ty {
    #![deny(warnings)]
    #![allow(dead_code, unused_imports, non_snake_case)]
    use crate::support::{A, B, C, Good, Bad, m_eq, m_cmp, m_pcmp, m_hash, m_fmt, m_clone, m_clone_c, m_into, g_eq, g_cmp, g_pcmp, g_hash, g_fmt};
    use educe::Educe;
#[derive(Educe)]
#[educe(PartialEq, PartialOrd, Ord, Eq)]
pub struct T { pub data: A<0> }
}
pub use ty::T;

pub fn values() -> Vec<T> { vec![T { data: A(0) }, T { data: A(1) }, T { data: A(7) }] }
pub fn show(x: &T) -> String { #[allow(unused_variables)] match x { T { data: p0 } => format!("T({})", sv(p0)) } }
pub fn o_disc(x: &T) -> i128 { match x { T { data: _ } => 0 } }
pub fn o_cmp(a: &T, b: &T) -> Ordering { match (a, b) { (T { data: a0 }, T { data: b0 }) => { let c = ::core::cmp::Ord::cmp(a0, b0); if c != Ordering::Equal { return c; } Ordering::Equal } } }
pub fn run(out: &mut Out) { let vs = values(); for (i, a) in vs.iter().enumerate() { for (j, b) in vs.iter().enumerate() { let e = o_cmp(a, b); let g = ::core::cmp::Ord::cmp(a, b); out.check(g == e, "ord_136", "cmp", || format!("cmp({}, {}) = {:?} expected {:?}", show(a), show(b), g, e)); let g2 = ::core::cmp::PartialOrd::partial_cmp(a, b); out.check(g2 == Some(e), "ord_136", "partial_is_some_cmp", || format!("partial_cmp({}, {}) = {:?} expected Some({:?})", show(a), show(b), g2, e)); } } }
