// clone_96
#![allow(dead_code, unused_variables, unused_mut, unused_imports, non_shorthand_field_patterns, clippy::all)]
use crate::support::*;
use educe::Educe;
use core::cmp::Ordering;
#[derive(Educe)]
#[educe(Clone)]
pub enum T { A { r#type: A<0>, y: A<0>, _0: A<2> } }
pub fn values() -> Vec<T> { vec![T::A { r#type: A(0), y: A(7), _0: A(0) }, T::A { r#type: A(0), y: A(1), _0: A(7) }, T::A { r#type: A(7), y: A(0), _0: A(1) }, T::A { r#type: A(0), y: A(0), _0: A(0) }, T::A { r#type: A(1), y: A(1), _0: A(1) }, T::A { r#type: A(1), y: A(0), _0: A(7) }, T::A { r#type: A(0), y: A(1), _0: A(1) }, T::A { r#type: A(7), y: A(0), _0: A(0) }, T::A { r#type: A(1), y: A(7), _0: A(0) }, T::A { r#type: A(1), y: A(1), _0: A(0) }, T::A { r#type: A(0), y: A(1), _0: A(0) }, T::A { r#type: A(0), y: A(7), _0: A(7) }, T::A { r#type: A(7), y: A(1), _0: A(0) }, T::A { r#type: A(7), y: A(7), _0: A(7) }, T::A { r#type: A(0), y: A(0), _0: A(1) }, T::A { r#type: A(0), y: A(7), _0: A(1) }, T::A { r#type: A(1), y: A(0), _0: A(0) }, T::A { r#type: A(7), y: A(1), _0: A(1) }, T::A { r#type: A(7), y: A(1), _0: A(7) }, T::A { r#type: A(1), y: A(1), _0: A(7) }] }
pub fn show(x: &T) -> String { #[allow(unused_variables)] match x { T::A { r#type: p0, y: p1, _0: p2 } => format!("A({},{},{})", sv(p0), sv(p1), sv(p2)) } }
pub fn o_clone(x: &T) -> T { match x { T::A { r#type: p0, y: p1, _0: p2 } => T::A { r#type: A(p0.0), y: A(p1.0), _0: A(p2.0) } } }
pub fn o_log(x: &T) -> Vec<String> { match x { T::A { r#type: p0, y: p1, _0: p2 } => vec![format!("clone A{} {}", p0.k(), p0.0), format!("clone A{} {}", p1.k(), p1.0), format!("clone A{} {}", p2.k(), p2.0)] } }
pub fn run(out: &mut Out) { let vs = values(); for a in &vs { let _ = take_log(); let g = ::core::clone::Clone::clone(a); let l = take_log(); let e = o_clone(a); out.check(show(&g) == show(&e), "clone_96", "clone", || format!("clone({}) = {} expected {}", show(a), show(&g), show(&e))); let el = o_log(a); out.check(l == el, "clone_96", "clone_calls", || format!("clone({}) called {:?} expected {:?}", show(a), l, el)); } let n = vs.len(); for i in 0..n { for j in 0..n { let mut x = values().swap_remove(i); let shown = show(&x); ::core::clone::Clone::clone_from(&mut x, &vs[j]); let e = o_clone(&vs[j]); out.check(show(&x) == show(&e), "clone_96", "clone_from", || format!("{}.clone_from({}) = {} expected {}", shown, show(&vs[j]), show(&x), show(&e))); } } }
