// ord_90
#![allow(dead_code, unused_variables, unused_mut, unused_imports, non_shorthand_field_patterns, clippy::all)]
use crate::support::*;
use educe::Educe;
use core::cmp::Ordering;
#[derive(Educe)]
#[educe(Eq, PartialEq, PartialOrd, Ord)]
pub enum T { Unit, B, V1(#[educe(Ord(rank = 3))] A<0>, #[educe(Ord(method(m_cmp), rank(6)))] A<0>, #[educe(Ord(rank = 5))] A<0>, A<0>), Zed }

pub fn values() -> Vec<T> { vec![T::Unit, T::B, T::V1(A(1), A(0), A(0), A(7)), T::V1(A(7), A(7), A(1), A(7)), T::V1(A(7), A(0), A(1), A(7)), T::V1(A(7), A(7), A(7), A(7)), T::V1(A(7), A(0), A(1), A(1)), T::V1(A(0), A(0), A(7), A(0)), T::V1(A(7), A(0), A(0), A(1)), T::V1(A(1), A(0), A(7), A(1)), T::V1(A(1), A(1), A(1), A(7)), T::Zed] }
pub fn show(x: &T) -> String { #[allow(unused_variables)] match x { T::Unit => format!("Unit()"), T::B => format!("B()"), T::V1(p0, p1, p2, p3) => format!("V1({},{},{},{})", sv(p0), sv(p1), sv(p2), sv(p3)), T::Zed => format!("Zed()") } }
pub fn o_disc(x: &T) -> i128 { match x { T::Unit => 0, T::B => 1, T::V1(_, _, _, _) => 2, T::Zed => 3 } }
pub fn o_cmp(a: &T, b: &T) -> Ordering { match (a, b) { (T::Unit, T::Unit) => {  Ordering::Equal }, (T::B, T::B) => {  Ordering::Equal }, (T::V1(a0, a1, a2, a3), T::V1(b0, b1, b2, b3)) => { let c = ::core::cmp::Ord::cmp(a3, b3); if c != Ordering::Equal { return c; } let c = ::core::cmp::Ord::cmp(a0, b0); if c != Ordering::Equal { return c; } let c = ::core::cmp::Ord::cmp(a2, b2); if c != Ordering::Equal { return c; } let c = m_cmp(a1, b1); if c != Ordering::Equal { return c; } Ordering::Equal }, (T::Zed, T::Zed) => {  Ordering::Equal }, _ => o_disc(a).cmp(&o_disc(b)) } }
pub fn run(out: &mut Out) { let vs = values(); for (i, a) in vs.iter().enumerate() { for (j, b) in vs.iter().enumerate() { let e = o_cmp(a, b); let g = ::core::cmp::Ord::cmp(a, b); out.check(g == e, "ord_90", "cmp", || format!("cmp({}, {}) = {:?} expected {:?}", show(a), show(b), g, e)); let g2 = ::core::cmp::PartialOrd::partial_cmp(a, b); out.check(g2 == Some(e), "ord_90", "partial_is_some_cmp", || format!("partial_cmp({}, {}) = {:?} expected Some({:?})", show(a), show(b), g2, e)); } } }
