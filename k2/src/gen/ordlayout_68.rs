// ordlayout_68
#![allow(dead_code, unused_variables, unused_mut, unused_imports, non_shorthand_field_patterns, clippy::all)]
use crate::support::*;
use core::cmp::Ordering;
pub mod ty {
    #![deny(warnings)]
    #![allow(dead_code, unused_imports, non_snake_case)]
    use crate::support::{A, B, C, Good, Bad, m_eq, m_cmp, m_pcmp, m_hash, m_fmt, m_clone, m_clone_c, m_into, g_eq, g_cmp, g_pcmp, g_hash, g_fmt};
    use educe::Educe;
#[derive(Educe)]
#[repr(i32)]
#[educe(PartialEq, Eq, PartialOrd)]
pub enum T { V1(#[educe(PartialOrd(rank = -2))] Option<u8>, u8, &'static u8) = 100, B = 200 }
}
pub use ty::T;

pub fn values() -> Vec<T> { vec![T::V1(None, 0, &3u8), T::V1(None, 0, &200u8), T::V1(None, 100, &3u8), T::V1(None, 100, &200u8), T::V1(None, 200, &3u8), T::V1(None, 200, &200u8), T::V1(Some(0), 0, &3u8), T::V1(Some(0), 0, &200u8), T::V1(Some(0), 100, &3u8), T::V1(Some(0), 100, &200u8), T::V1(Some(0), 200, &3u8), T::V1(Some(0), 200, &200u8), T::V1(Some(255), 0, &3u8), T::V1(Some(255), 0, &200u8), T::V1(Some(255), 100, &3u8), T::V1(Some(255), 100, &200u8), T::V1(Some(255), 200, &3u8), T::V1(Some(255), 200, &200u8), T::B] }
pub fn show(x: &T) -> String { #[allow(unused_variables)] match x { T::V1(p0, p1, p2) => format!("V1({},{},{})", sv(p0), sv(p1), sv(p2)), T::B => format!("B()") } }
pub fn o_disc(x: &T) -> i128 { match x { T::V1(_, _, _) => 100, T::B => 200 } }
pub fn o_pcmp(a: &T, b: &T) -> Option<Ordering> { match (a, b) { (T::V1(a0, a1, a2), T::V1(b0, b1, b2)) => { match ::core::cmp::PartialOrd::partial_cmp(a1, b1) { Some(Ordering::Equal) => (), x => return x } match ::core::cmp::PartialOrd::partial_cmp(a2, b2) { Some(Ordering::Equal) => (), x => return x } match ::core::cmp::PartialOrd::partial_cmp(a0, b0) { Some(Ordering::Equal) => (), x => return x } Some(Ordering::Equal) }, (T::B, T::B) => {  Some(Ordering::Equal) }, _ => Some(o_disc(a).cmp(&o_disc(b))) } }
#[repr(C)] pub struct Wrap { pub pre: u8, pub x: T, pub post: [u8; 9] }
pub fn wrap(i: usize, n: u8) -> Wrap { Wrap { pre: n, x: values().swap_remove(i), post: [n; 9] } }
pub fn run(out: &mut Out) { let vs = values(); for (i, a) in vs.iter().enumerate() { for (j, b) in vs.iter().enumerate() { let e = o_pcmp(a, b); let g = ::core::cmp::PartialOrd::partial_cmp(a, b); out.check(g == e, "ordlayout_68", "partial_cmp", || format!("partial_cmp({}, {}) = {:?} expected {:?}", show(a), show(b), g, e)); for n in [0u8, 1, 0x7f, 0x80, 0xff] { let wa = wrap(i, n); let wb = wrap(j, !n); let g = ::core::cmp::PartialOrd::partial_cmp(&wa.x, &wb.x); let e = o_pcmp(a, b); out.check(g == e, "ordlayout_68", "cmp_neighbours", || format!("cmp({}, {}) with neighbour bytes {} = {:?} expected {:?}", show(a), show(b), n, g, e)); } } } }
