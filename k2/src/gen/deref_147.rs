// deref_147
#![allow(dead_code, unused_variables, unused_mut, unused_imports, non_shorthand_field_patterns, clippy::all)]
use crate::support::*;
use educe::Educe;
use core::cmp::Ordering;
#[derive(Educe)]
#[educe(DerefMut, Deref)]
pub enum T { Zed { b: A<1> }, Unit { #[educe(DerefMut)] #[educe(Deref)] _0: A<1>, a: A<0>, other: A<0> } }
pub fn values() -> Vec<T> { vec![T::Zed { b: A(0) }, T::Zed { b: A(1) }, T::Zed { b: A(7) }, T::Unit { _0: A(7), a: A(7), other: A(1) }, T::Unit { _0: A(0), a: A(7), other: A(7) }, T::Unit { _0: A(1), a: A(1), other: A(0) }, T::Unit { _0: A(0), a: A(1), other: A(7) }, T::Unit { _0: A(1), a: A(0), other: A(1) }, T::Unit { _0: A(7), a: A(7), other: A(0) }, T::Unit { _0: A(0), a: A(7), other: A(0) }, T::Unit { _0: A(7), a: A(1), other: A(0) }] }
pub fn show(x: &T) -> String { #[allow(unused_variables)] match x { T::Zed { b: p0 } => format!("Zed({})", sv(p0)), T::Unit { _0: p0, a: p1, other: p2 } => format!("Unit({},{},{})", sv(p0), sv(p1), sv(p2)) } }
pub fn o_deref(x: &T) -> *const A<1> { match x { T::Zed { b: p0 } => p0 as *const A<1>, T::Unit { _0: p0, a: _, other: _ } => p0 as *const A<1> } }
pub fn o_deref_mut(x: &mut T) -> *mut A<1> { match x { T::Zed { b: p0 } => p0 as *mut A<1>, T::Unit { _0: p0, a: _, other: _ } => p0 as *mut A<1> } }
pub fn o_write(x: &mut T) { match x { T::Zed { b: p0 } => { *p0 = A(99); }, T::Unit { _0: p0, a: _, other: _ } => { *p0 = A(99); } } }
pub fn run(out: &mut Out) { let vs = values(); for a in &vs { let g = ::core::ops::Deref::deref(a) as *const A<1>; let e = o_deref(a); out.check(g == e, "deref_147", "deref", || format!("&*{} has another address than the designated field", show(a))); } let n = vs.len(); for i in 0..n { let mut x = values().swap_remove(i); let e = o_deref_mut(&mut x); let g = ::core::ops::DerefMut::deref_mut(&mut x) as *mut A<1>; out.check(g == e, "deref_147", "deref_mut", || format!("&mut *{} has another address than the designated field", show(&x))); let mut y = values().swap_remove(i); o_write(&mut y); *::core::ops::DerefMut::deref_mut(&mut x) = A(99); out.check(show(&x) == show(&y), "deref_147", "deref_mut_write", || format!("after a write through &mut *x: {} expected {}", show(&x), show(&y))); } }
