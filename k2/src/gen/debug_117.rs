// debug_117
#![allow(dead_code, unused_variables, unused_mut, unused_imports, non_shorthand_field_patterns, clippy::all)]
use crate::support::*;
use educe::Educe;
use core::cmp::Ordering;
#[derive(Educe)]
#[educe(Debug(rename = false))]
pub enum T { V1, C, #[educe(Debug(name = "", named_field = true))] B(#[educe(Debug(name(k0), method = m_fmt))] A<0>), None { #[educe(Debug(rename("k0")))] arg: A<0>, #[educe(Debug(ignore = true))] _0: A<1> } }
pub fn values() -> Vec<T> { vec![T::V1, T::C, T::B(A(0)), T::B(A(1)), T::B(A(7)), T::None { arg: A(0), _0: A(1) }, T::None { arg: A(1), _0: A(1) }, T::None { arg: A(0), _0: A(0) }, T::None { arg: A(7), _0: A(1) }, T::None { arg: A(7), _0: A(7) }, T::None { arg: A(1), _0: A(0) }] }
pub fn show(x: &T) -> String { #[allow(unused_variables)] match x { T::V1 => format!("V1()"), T::C => format!("C()"), T::B(p0) => format!("B({})", sv(p0)), T::None { arg: p0, _0: p1 } => format!("None({},{})", sv(p0), sv(p1)) } }
pub fn o_fmt(x: &T, f: &mut ::core::fmt::Formatter<'_>) -> ::core::fmt::Result { match x { T::V1 => f.write_str("V1"), T::C => f.write_str("C"), T::B(p0) => f.debug_map().entry(&Raw("k0"), &Wm(p0)).finish(), T::None { arg: p0, _0: p1 } => f.debug_struct("None").field("k0", p0).finish() } }

pub fn run(out: &mut Out) { let vs = values(); for a in &vs { let g = format!("{:?}", a); let e = format!("{:?}", Fm(|f: &mut ::core::fmt::Formatter<'_>| o_fmt(a, f))); out.check(g == e, "debug_117", "debug", || format!("{{:?}} of {} = {:?} expected {:?}", show(a), g, e)); let g = format!("{:#?}", a); let e = format!("{:#?}", Fm(|f: &mut ::core::fmt::Formatter<'_>| o_fmt(a, f))); out.check(g == e, "debug_117", "debug_alt", || format!("{{:#?}} of {} = {:?} expected {:?}", show(a), g, e)); let g = format!("{:8?}", a); let e = format!("{:8?}", Fm(|f: &mut ::core::fmt::Formatter<'_>| o_fmt(a, f))); out.check(g == e, "debug_117", "debug_width", || format!("{{:8?}} of {} = {:?} expected {:?}", show(a), g, e)); }  }
