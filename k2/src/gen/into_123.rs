// into_123
#![allow(dead_code, unused_variables, unused_mut, unused_imports, non_shorthand_field_patterns, clippy::all)]
use crate::support::*;
use educe::Educe;
use core::cmp::Ordering;
#[derive(Educe)]
#[educe(Into(B<1>), Into(A<1>), Into(B<0>))]
pub enum T { Unit(#[educe(Into(B<0>, method = m_into))] A<1>), B { #[educe(Into(A<1>))] other: A<1> }, None(A<3>, #[educe(Into(B<1>, method = "m_into"))] #[educe(Into(B<0>, method = m_into))] A<1>), V1(#[educe(Into(B<1>))] #[educe(Into(A<1>))] #[educe(Into(B<0>, method = "m_into"))] A<1>, A<0>, A<1>) }
pub fn values() -> Vec<T> { vec![T::Unit(A(0)), T::Unit(A(1)), T::Unit(A(7)), T::B { other: A(0) }, T::B { other: A(1) }, T::B { other: A(7) }, T::None(A(1), A(7)), T::None(A(7), A(7)), T::None(A(0), A(1)), T::V1(A(7), A(0), A(0)), T::V1(A(7), A(0), A(1)), T::V1(A(0), A(7), A(1))] }
pub fn show(x: &T) -> String { #[allow(unused_variables)] match x { T::Unit(p0) => format!("Unit({})", sv(p0)), T::B { other: p0 } => format!("B({})", sv(p0)), T::None(p0, p1) => format!("None({},{})", sv(p0), sv(p1)), T::V1(p0, p1, p2) => format!("V1({},{},{})", sv(p0), sv(p1), sv(p2)) } }
pub fn o_into_0(x: T) -> B<1> { match x { T::Unit(p0) => ::core::convert::Into::into(p0), T::B { other: p0 } => ::core::convert::Into::into(p0), T::None(_, p1) => m_into(p1), T::V1(p0, _, _) => ::core::convert::Into::into(p0) } }
pub fn o_into_1(x: T) -> A<1> { match x { T::Unit(p0) => p0, T::B { other: p0 } => p0, T::None(_, p1) => p1, T::V1(p0, _, _) => p0 } }
pub fn o_into_2(x: T) -> B<0> { match x { T::Unit(p0) => m_into(p0), T::B { other: p0 } => ::core::convert::Into::into(p0), T::None(_, p1) => m_into(p1), T::V1(p0, _, _) => m_into(p0) } }
pub fn run(out: &mut Out) { let n = values().len(); for i in 0..n { let a = values().swap_remove(i); let shown = show(&a); let g: B<1> = ::core::convert::Into::into(a); let e = o_into_0(values().swap_remove(i)); out.check(sv(&g) == sv(&e), "into_123", "into", || format!("Into::<B<1>>::into({}) = {} expected {}", shown, sv(&g), sv(&e))); } for i in 0..n { let a = values().swap_remove(i); let shown = show(&a); let g: A<1> = ::core::convert::Into::into(a); let e = o_into_1(values().swap_remove(i)); out.check(sv(&g) == sv(&e), "into_123", "into", || format!("Into::<A<1>>::into({}) = {} expected {}", shown, sv(&g), sv(&e))); } for i in 0..n { let a = values().swap_remove(i); let shown = show(&a); let g: B<0> = ::core::convert::Into::into(a); let e = o_into_2(values().swap_remove(i)); out.check(sv(&g) == sv(&e), "into_123", "into", || format!("Into::<B<0>>::into({}) = {} expected {}", shown, sv(&g), sv(&e))); } }
