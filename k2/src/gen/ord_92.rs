// ord_92
#![allow(dead_code, unused_variables, unused_mut, unused_imports, non_shorthand_field_patterns, clippy::all)]
use crate::support::*;
use educe::Educe;
use core::cmp::Ordering;
#[derive(Educe)]
#[repr(i64)]
#[educe(Eq, PartialEq, PartialOrd)]
pub enum T { Some = -5, V1(#[educe(PartialOrd(rank = 0x7))] A<0>) = 1 }

pub fn values() -> Vec<T> { vec![T::Some, T::V1(A(0)), T::V1(A(1)), T::V1(A(7))] }
pub fn show(x: &T) -> String { #[allow(unused_variables)] match x { T::Some => format!("Some()"), T::V1(p0) => format!("V1({})", sv(p0)) } }
pub fn o_disc(x: &T) -> i128 { match x { T::Some => -5, T::V1(_) => 1 } }
pub fn o_pcmp(a: &T, b: &T) -> Option<Ordering> { match (a, b) { (T::Some, T::Some) => {  Some(Ordering::Equal) }, (T::V1(a0), T::V1(b0)) => { match ::core::cmp::PartialOrd::partial_cmp(a0, b0) { Some(Ordering::Equal) => (), x => return x } Some(Ordering::Equal) }, _ => Some(o_disc(a).cmp(&o_disc(b))) } }
pub fn run(out: &mut Out) { let vs = values(); for (i, a) in vs.iter().enumerate() { for (j, b) in vs.iter().enumerate() { let e = o_pcmp(a, b); let g = ::core::cmp::PartialOrd::partial_cmp(a, b); out.check(g == e, "ord_92", "partial_cmp", || format!("partial_cmp({}, {}) = {:?} expected {:?}", show(a), show(b), g, e)); } } }
