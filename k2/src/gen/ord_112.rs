// ord_112
#![allow(dead_code, unused_variables, unused_mut, unused_imports, non_shorthand_field_patterns, clippy::all)]
use crate::support::*;
use educe::Educe;
use core::cmp::Ordering;
#[derive(Educe)]
#[repr(i8)]
#[educe(PartialEq, Eq, PartialOrd, Ord)]
pub enum T { B(A<0>, #[educe(PartialOrd(ignore(true)))] A<0>, #[educe(PartialOrd(rank = 0i64, method(m_cmp)))] A<0>, #[educe(PartialOrd = false)] A<0>), A }

pub fn values() -> Vec<T> { vec![T::B(A(0), A(1), A(7), A(1)), T::B(A(0), A(0), A(7), A(1)), T::B(A(1), A(7), A(1), A(0)), T::B(A(1), A(0), A(7), A(1)), T::B(A(0), A(0), A(1), A(0)), T::B(A(1), A(0), A(0), A(7)), T::B(A(0), A(0), A(0), A(7)), T::B(A(0), A(1), A(1), A(1)), T::B(A(1), A(0), A(1), A(0)), T::B(A(0), A(0), A(1), A(7)), T::B(A(0), A(1), A(0), A(1)), T::B(A(1), A(7), A(0), A(0)), T::B(A(7), A(7), A(1), A(0)), T::B(A(0), A(7), A(7), A(7)), T::B(A(1), A(7), A(7), A(0)), T::B(A(7), A(7), A(1), A(1)), T::B(A(7), A(0), A(1), A(1)), T::B(A(1), A(7), A(0), A(1)), T::A] }
pub fn show(x: &T) -> String { #[allow(unused_variables)] match x { T::B(p0, p1, p2, p3) => format!("B({},{},{},{})", sv(p0), sv(p1), sv(p2), sv(p3)), T::A => format!("A()") } }
pub fn o_disc(x: &T) -> i128 { match x { T::B(_, _, _, _) => 0, T::A => 1 } }
pub fn o_cmp(a: &T, b: &T) -> Ordering { match (a, b) { (T::B(a0, a1, a2, a3), T::B(b0, b1, b2, b3)) => { let c = ::core::cmp::Ord::cmp(a0, b0); if c != Ordering::Equal { return c; } let c = m_cmp(a2, b2); if c != Ordering::Equal { return c; } Ordering::Equal }, (T::A, T::A) => {  Ordering::Equal }, _ => o_disc(a).cmp(&o_disc(b)) } }
pub fn run(out: &mut Out) { let vs = values(); for (i, a) in vs.iter().enumerate() { for (j, b) in vs.iter().enumerate() { let e = o_cmp(a, b); let g = ::core::cmp::Ord::cmp(a, b); out.check(g == e, "ord_112", "cmp", || format!("cmp({}, {}) = {:?} expected {:?}", show(a), show(b), g, e)); let g2 = ::core::cmp::PartialOrd::partial_cmp(a, b); out.check(g2 == Some(e), "ord_112", "partial_is_some_cmp", || format!("partial_cmp({}, {}) = {:?} expected Some({:?})", show(a), show(b), g2, e)); } } }
