// ordlayout_62
#![allow(dead_code, unused_variables, unused_mut, unused_imports, non_shorthand_field_patterns, clippy::all)]
use crate::support::*;
use core::cmp::Ordering;
pub mod ty {
    #![deny(warnings)]
    #![allow(dead_code, unused_imports, non_snake_case)]
    use crate::support::{A, B, C, Good, Bad, m_eq, m_cmp, m_pcmp, m_hash, m_fmt, m_clone, m_clone_c, m_into, g_eq, g_cmp, g_pcmp, g_hash, g_fmt};
    use educe::Educe;
#[derive(Educe)]
#[educe(Ord, PartialOrd, PartialEq, Eq)]
pub enum T { Unit, Zed {  }, A }
}
pub use ty::T;

pub fn values() -> Vec<T> { vec![T::Unit, T::Zed {  }, T::A] }
pub fn show(x: &T) -> String { #[allow(unused_variables)] match x { T::Unit => format!("Unit()"), T::Zed {  } => format!("Zed()"), T::A => format!("A()") } }
pub fn o_disc(x: &T) -> i128 { match x { T::Unit => 0, T::Zed {  } => 1, T::A => 2 } }
pub fn o_cmp(a: &T, b: &T) -> Ordering { match (a, b) { (T::Unit, T::Unit) => {  Ordering::Equal }, (T::Zed {  }, T::Zed {  }) => {  Ordering::Equal }, (T::A, T::A) => {  Ordering::Equal }, _ => o_disc(a).cmp(&o_disc(b)) } }
#[repr(C)] pub struct Wrap { pub pre: u8, pub x: T, pub post: [u8; 9] }
pub fn wrap(i: usize, n: u8) -> Wrap { Wrap { pre: n, x: values().swap_remove(i), post: [n; 9] } }
pub fn run(out: &mut Out) { let vs = values(); for (i, a) in vs.iter().enumerate() { for (j, b) in vs.iter().enumerate() { let e = o_cmp(a, b); let g = ::core::cmp::Ord::cmp(a, b); out.check(g == e, "ordlayout_62", "cmp", || format!("cmp({}, {}) = {:?} expected {:?}", show(a), show(b), g, e)); let g2 = ::core::cmp::PartialOrd::partial_cmp(a, b); out.check(g2 == Some(e), "ordlayout_62", "partial_is_some_cmp", || format!("partial_cmp({}, {}) = {:?} expected Some({:?})", show(a), show(b), g2, e)); for n in [0u8, 1, 0x7f, 0x80, 0xff] { let wa = wrap(i, n); let wb = wrap(j, !n); let g = ::core::cmp::Ord::cmp(&wa.x, &wb.x); let e = o_cmp(a, b); out.check(g == e, "ordlayout_62", "cmp_neighbours", || format!("cmp({}, {}) with neighbour bytes {} = {:?} expected {:?}", show(a), show(b), n, g, e)); } } } }
