// ord_34
#![allow(dead_code, unused_variables, unused_mut, unused_imports, non_shorthand_field_patterns, clippy::all)]
use crate::support::*;
use educe::Educe;
use core::cmp::Ordering;
#[derive(Educe)]
#[repr(C, u8)]
#[educe(PartialEq, Ord, PartialOrd, Eq)]
pub enum T { C { #[educe(PartialOrd(method = "m_cmp"))] f: A<0>, #[educe(PartialOrd(rank = 2i64))] y: A<1> }, B(#[educe(PartialOrd(ignore))] A<0>, #[educe(PartialOrd(method(m_cmp)))] A<0>), V1 }

pub fn values() -> Vec<T> { vec![T::C { f: A(0), y: A(0) }, T::C { f: A(0), y: A(1) }, T::C { f: A(0), y: A(7) }, T::C { f: A(1), y: A(0) }, T::C { f: A(1), y: A(1) }, T::C { f: A(1), y: A(7) }, T::C { f: A(7), y: A(0) }, T::C { f: A(7), y: A(1) }, T::C { f: A(7), y: A(7) }, T::B(A(0), A(0)), T::B(A(0), A(1)), T::B(A(0), A(7)), T::B(A(1), A(0)), T::B(A(1), A(1)), T::B(A(1), A(7)), T::B(A(7), A(0)), T::B(A(7), A(1)), T::B(A(7), A(7)), T::V1] }
pub fn show(x: &T) -> String { #[allow(unused_variables)] match x { T::C { f: p0, y: p1 } => format!("C({},{})", sv(p0), sv(p1)), T::B(p0, p1) => format!("B({},{})", sv(p0), sv(p1)), T::V1 => format!("V1()") } }
pub fn o_disc(x: &T) -> i128 { match x { T::C { f: _, y: _ } => 0, T::B(_, _) => 1, T::V1 => 2 } }
pub fn o_cmp(a: &T, b: &T) -> Ordering { match (a, b) { (T::C { f: a0, y: a1 }, T::C { f: b0, y: b1 }) => { let c = m_cmp(a0, b0); if c != Ordering::Equal { return c; } let c = ::core::cmp::Ord::cmp(a1, b1); if c != Ordering::Equal { return c; } Ordering::Equal }, (T::B(a0, a1), T::B(b0, b1)) => { let c = m_cmp(a1, b1); if c != Ordering::Equal { return c; } Ordering::Equal }, (T::V1, T::V1) => {  Ordering::Equal }, _ => o_disc(a).cmp(&o_disc(b)) } }
pub fn run(out: &mut Out) { let vs = values(); for (i, a) in vs.iter().enumerate() { for (j, b) in vs.iter().enumerate() { let e = o_cmp(a, b); let g = ::core::cmp::Ord::cmp(a, b); out.check(g == e, "ord_34", "cmp", || format!("cmp({}, {}) = {:?} expected {:?}", show(a), show(b), g, e)); let g2 = ::core::cmp::PartialOrd::partial_cmp(a, b); out.check(g2 == Some(e), "ord_34", "partial_is_some_cmp", || format!("partial_cmp({}, {}) = {:?} expected Some({:?})", show(a), show(b), g2, e)); } } }
