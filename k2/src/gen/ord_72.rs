// ord_72
#![allow(dead_code, unused_variables, unused_mut, unused_imports, non_shorthand_field_patterns, clippy::all)]
use crate::support::*;
use core::cmp::Ordering;
pub mod ty {
    #![deny(warnings)]
    #![allow(dead_code, unused_imports, non_snake_case)]
    use crate::support::{A, B, C, Good, Bad, m_eq, m_cmp, m_pcmp, m_hash, m_fmt, m_clone, m_clone_c, m_into, g_eq, g_cmp, g_pcmp, g_hash, g_fmt};
    use educe::Educe;
#[derive(Educe)]
#[educe(Ord, PartialEq, Eq)]
#[educe(Debug)]
pub struct T { #[educe(Ord(ignore = true))] pub other: A<0>, #[educe(Ord(ignore = false), Debug = false)] pub builder: A<1>, #[educe(Debug(ignore))] pub r#type: A<2>, #[educe(Ord(rank = -6))] pub y: A<3> }
}
pub use ty::T;
impl PartialOrd for T { fn partial_cmp(&self, o: &Self) -> Option<Ordering> { Some(::core::cmp::Ord::cmp(self, o)) } }
pub fn values() -> Vec<T> { vec![T { other: A(0), builder: A(0), r#type: A(7), y: A(0) }, T { other: A(1), builder: A(0), r#type: A(1), y: A(0) }, T { other: A(0), builder: A(7), r#type: A(0), y: A(7) }, T { other: A(1), builder: A(7), r#type: A(1), y: A(1) }, T { other: A(0), builder: A(7), r#type: A(7), y: A(0) }, T { other: A(0), builder: A(1), r#type: A(1), y: A(7) }, T { other: A(0), builder: A(1), r#type: A(1), y: A(1) }, T { other: A(1), builder: A(1), r#type: A(7), y: A(1) }, T { other: A(7), builder: A(7), r#type: A(0), y: A(7) }, T { other: A(0), builder: A(0), r#type: A(1), y: A(7) }, T { other: A(0), builder: A(0), r#type: A(1), y: A(1) }, T { other: A(7), builder: A(0), r#type: A(7), y: A(1) }, T { other: A(1), builder: A(0), r#type: A(1), y: A(7) }, T { other: A(7), builder: A(0), r#type: A(0), y: A(7) }, T { other: A(0), builder: A(1), r#type: A(7), y: A(1) }, T { other: A(7), builder: A(1), r#type: A(1), y: A(7) }, T { other: A(1), builder: A(7), r#type: A(1), y: A(0) }, T { other: A(0), builder: A(1), r#type: A(0), y: A(1) }, T { other: A(1), builder: A(7), r#type: A(7), y: A(7) }, T { other: A(1), builder: A(1), r#type: A(7), y: A(0) }, T { other: A(0), builder: A(1), r#type: A(7), y: A(7) }, T { other: A(7), builder: A(1), r#type: A(1), y: A(1) }, T { other: A(1), builder: A(1), r#type: A(7), y: A(7) }, T { other: A(7), builder: A(7), r#type: A(1), y: A(0) }, T { other: A(1), builder: A(0), r#type: A(7), y: A(0) }, T { other: A(1), builder: A(1), r#type: A(0), y: A(1) }, T { other: A(7), builder: A(0), r#type: A(7), y: A(0) }, T { other: A(1), builder: A(1), r#type: A(1), y: A(0) }, T { other: A(7), builder: A(7), r#type: A(1), y: A(7) }, T { other: A(0), builder: A(7), r#type: A(7), y: A(1) }, T { other: A(0), builder: A(7), r#type: A(1), y: A(0) }, T { other: A(7), builder: A(1), r#type: A(0), y: A(1) }, T { other: A(0), builder: A(1), r#type: A(7), y: A(0) }, T { other: A(0), builder: A(7), r#type: A(1), y: A(1) }, T { other: A(1), builder: A(0), r#type: A(0), y: A(7) }, T { other: A(7), builder: A(1), r#type: A(0), y: A(0) }] }
pub fn show(x: &T) -> String { #[allow(unused_variables)] match x { T { other: p0, builder: p1, r#type: p2, y: p3 } => format!("T({},{},{},{})", sv(p0), sv(p1), sv(p2), sv(p3)) } }
pub fn o_disc(x: &T) -> i128 { match x { T { other: _, builder: _, r#type: _, y: _ } => 0 } }
pub fn o_cmp(a: &T, b: &T) -> Ordering { match (a, b) { (T { other: a0, builder: a1, r#type: a2, y: a3 }, T { other: b0, builder: b1, r#type: b2, y: b3 }) => { let c = ::core::cmp::Ord::cmp(a1, b1); if c != Ordering::Equal { return c; } let c = ::core::cmp::Ord::cmp(a2, b2); if c != Ordering::Equal { return c; } let c = ::core::cmp::Ord::cmp(a3, b3); if c != Ordering::Equal { return c; } Ordering::Equal } } }
pub fn run(out: &mut Out) { let vs = values(); for (i, a) in vs.iter().enumerate() { for (j, b) in vs.iter().enumerate() { let e = o_cmp(a, b); let g = ::core::cmp::Ord::cmp(a, b); out.check(g == e, "ord_72", "cmp", || format!("cmp({}, {}) = {:?} expected {:?}", show(a), show(b), g, e)); } } }
