// ord_42
#![allow(dead_code, unused_variables, unused_mut, unused_imports, non_shorthand_field_patterns, clippy::all)]
use crate::support::*;
use core::cmp::Ordering;
pub mod ty {
    #![deny(warnings)]
    #![allow(dead_code, unused_imports, non_snake_case)]
    use crate::support::{A, B, C, Good, Bad, m_eq, m_cmp, m_pcmp, m_hash, m_fmt, m_clone, m_clone_c, m_into, g_eq, g_cmp, g_pcmp, g_hash, g_fmt};
    use educe::Educe;
#[derive(Educe)]
#[educe(PartialEq, Ord, PartialOrd, Eq)]
#[educe(Debug)]
pub struct T { #[educe(PartialOrd(rank = "+6"))] pub builder: A<0>, #[educe(PartialOrd(ignore(true)))] pub state: A<0>, pub other: A<0> }
}
pub use ty::T;

pub fn values() -> Vec<T> { vec![T { builder: A(0), state: A(0), other: A(0) }, T { builder: A(0), state: A(0), other: A(1) }, T { builder: A(0), state: A(0), other: A(7) }, T { builder: A(0), state: A(1), other: A(0) }, T { builder: A(0), state: A(1), other: A(1) }, T { builder: A(0), state: A(1), other: A(7) }, T { builder: A(0), state: A(7), other: A(0) }, T { builder: A(0), state: A(7), other: A(1) }, T { builder: A(0), state: A(7), other: A(7) }, T { builder: A(1), state: A(0), other: A(0) }, T { builder: A(1), state: A(0), other: A(1) }, T { builder: A(1), state: A(0), other: A(7) }, T { builder: A(1), state: A(1), other: A(0) }, T { builder: A(1), state: A(1), other: A(1) }, T { builder: A(1), state: A(1), other: A(7) }, T { builder: A(1), state: A(7), other: A(0) }, T { builder: A(1), state: A(7), other: A(1) }, T { builder: A(1), state: A(7), other: A(7) }, T { builder: A(7), state: A(0), other: A(0) }, T { builder: A(7), state: A(0), other: A(1) }, T { builder: A(7), state: A(0), other: A(7) }, T { builder: A(7), state: A(1), other: A(0) }, T { builder: A(7), state: A(1), other: A(1) }, T { builder: A(7), state: A(1), other: A(7) }, T { builder: A(7), state: A(7), other: A(0) }, T { builder: A(7), state: A(7), other: A(1) }, T { builder: A(7), state: A(7), other: A(7) }] }
pub fn show(x: &T) -> String { #[allow(unused_variables)] match x { T { builder: p0, state: p1, other: p2 } => format!("T({},{},{})", sv(p0), sv(p1), sv(p2)) } }
pub fn o_disc(x: &T) -> i128 { match x { T { builder: _, state: _, other: _ } => 0 } }
pub fn o_cmp(a: &T, b: &T) -> Ordering { match (a, b) { (T { builder: a0, state: a1, other: a2 }, T { builder: b0, state: b1, other: b2 }) => { let c = ::core::cmp::Ord::cmp(a2, b2); if c != Ordering::Equal { return c; } let c = ::core::cmp::Ord::cmp(a0, b0); if c != Ordering::Equal { return c; } Ordering::Equal } } }
pub fn run(out: &mut Out) { let vs = values(); for (i, a) in vs.iter().enumerate() { for (j, b) in vs.iter().enumerate() { let e = o_cmp(a, b); let g = ::core::cmp::Ord::cmp(a, b); out.check(g == e, "ord_42", "cmp", || format!("cmp({}, {}) = {:?} expected {:?}", show(a), show(b), g, e)); let g2 = ::core::cmp::PartialOrd::partial_cmp(a, b); out.check(g2 == Some(e), "ord_42", "partial_is_some_cmp", || format!("partial_cmp({}, {}) = {:?} expected Some({:?})", show(a), show(b), g2, e)); } } }
