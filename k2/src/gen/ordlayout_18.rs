// ordlayout_18
#![allow(dead_code, unused_variables, unused_mut, unused_imports, non_shorthand_field_patterns, clippy::all)]
use crate::support::*;
use educe::Educe;
use core::cmp::Ordering;
#[derive(Educe)]
#[repr(i64)]
#[educe(Ord, Eq, PartialEq)]
pub enum T { A { c: () }, Unit = 100, C(i64, #[educe(Ord(rank = "8"))] bool) = 255 }
impl PartialOrd for T { fn partial_cmp(&self, o: &Self) -> Option<Ordering> { Some(::core::cmp::Ord::cmp(self, o)) } }
pub fn values() -> Vec<T> { vec![T::A { c: () }, T::Unit, T::C(-5, false), T::C(-5, true), T::C(0, false), T::C(0, true), T::C(9, false), T::C(9, true)] }
pub fn show(x: &T) -> String { #[allow(unused_variables)] match x { T::A { c: p0 } => format!("A({})", sv(p0)), T::Unit => format!("Unit()"), T::C(p0, p1) => format!("C({},{})", sv(p0), sv(p1)) } }
pub fn o_disc(x: &T) -> i128 { match x { T::A { c: _ } => 0, T::Unit => 100, T::C(_, _) => 255 } }
pub fn o_cmp(a: &T, b: &T) -> Ordering { match (a, b) { (T::A { c: a0 }, T::A { c: b0 }) => { let c = ::core::cmp::Ord::cmp(a0, b0); if c != Ordering::Equal { return c; } Ordering::Equal }, (T::Unit, T::Unit) => {  Ordering::Equal }, (T::C(a0, a1), T::C(b0, b1)) => { let c = ::core::cmp::Ord::cmp(a0, b0); if c != Ordering::Equal { return c; } let c = ::core::cmp::Ord::cmp(a1, b1); if c != Ordering::Equal { return c; } Ordering::Equal }, _ => o_disc(a).cmp(&o_disc(b)) } }
#[repr(C)] pub struct Wrap { pub pre: u8, pub x: T, pub post: [u8; 9] }
pub fn wrap(i: usize, n: u8) -> Wrap { Wrap { pre: n, x: values().swap_remove(i), post: [n; 9] } }
pub fn run(out: &mut Out) { let vs = values(); for (i, a) in vs.iter().enumerate() { for (j, b) in vs.iter().enumerate() { let e = o_cmp(a, b); let g = ::core::cmp::Ord::cmp(a, b); out.check(g == e, "ordlayout_18", "cmp", || format!("cmp({}, {}) = {:?} expected {:?}", show(a), show(b), g, e)); for n in [0u8, 1, 0x7f, 0x80, 0xff] { let wa = wrap(i, n); let wb = wrap(j, !n); let g = ::core::cmp::Ord::cmp(&wa.x, &wb.x); let e = o_cmp(a, b); out.check(g == e, "ordlayout_18", "cmp_neighbours", || format!("cmp({}, {}) with neighbour bytes {} = {:?} expected {:?}", show(a), show(b), n, g, e)); } } } }
