// ordlayout_18
#![allow(dead_code, unused_variables, unused_mut, unused_imports, non_shorthand_field_patterns, clippy::all)]
use crate::support::*;
use educe::Educe;
use core::cmp::Ordering;
#[derive(Educe)]
#[educe(Eq, PartialOrd, PartialEq, Ord)]
pub enum T { Unit(&'static u8, u8), C { f: u8, #[educe(Ord(rank = -1))] arg: char } }

pub fn values() -> Vec<T> { vec![T::Unit(&3u8, 0), T::Unit(&3u8, 100), T::Unit(&3u8, 200), T::Unit(&200u8, 0), T::Unit(&200u8, 100), T::Unit(&200u8, 200), T::C { f: 0, arg: 'a' }, T::C { f: 0, arg: 'z' }, T::C { f: 100, arg: 'a' }, T::C { f: 100, arg: 'z' }, T::C { f: 200, arg: 'a' }, T::C { f: 200, arg: 'z' }] }
pub fn show(x: &T) -> String { #[allow(unused_variables)] match x { T::Unit(p0, p1) => format!("Unit({},{})", sv(p0), sv(p1)), T::C { f: p0, arg: p1 } => format!("C({},{})", sv(p0), sv(p1)) } }
pub fn o_disc(x: &T) -> i128 { match x { T::Unit(_, _) => 0, T::C { f: _, arg: _ } => 1 } }
pub fn o_cmp(a: &T, b: &T) -> Ordering { match (a, b) { (T::Unit(a0, a1), T::Unit(b0, b1)) => { let c = ::core::cmp::Ord::cmp(a0, b0); if c != Ordering::Equal { return c; } let c = ::core::cmp::Ord::cmp(a1, b1); if c != Ordering::Equal { return c; } Ordering::Equal }, (T::C { f: a0, arg: a1 }, T::C { f: b0, arg: b1 }) => { let c = ::core::cmp::Ord::cmp(a0, b0); if c != Ordering::Equal { return c; } let c = ::core::cmp::Ord::cmp(a1, b1); if c != Ordering::Equal { return c; } Ordering::Equal }, _ => o_disc(a).cmp(&o_disc(b)) } }
#[repr(C)] pub struct Wrap { pub pre: u8, pub x: T, pub post: [u8; 9] }
pub fn wrap(i: usize, n: u8) -> Wrap { Wrap { pre: n, x: values().swap_remove(i), post: [n; 9] } }
pub fn run(out: &mut Out) { let vs = values(); for (i, a) in vs.iter().enumerate() { for (j, b) in vs.iter().enumerate() { let e = o_cmp(a, b); let g = ::core::cmp::Ord::cmp(a, b); out.check(g == e, "ordlayout_18", "cmp", || format!("cmp({}, {}) = {:?} expected {:?}", show(a), show(b), g, e)); let g2 = ::core::cmp::PartialOrd::partial_cmp(a, b); out.check(g2 == Some(e), "ordlayout_18", "partial_is_some_cmp", || format!("partial_cmp({}, {}) = {:?} expected Some({:?})", show(a), show(b), g2, e)); for n in [0u8, 1, 0x7f, 0x80, 0xff] { let wa = wrap(i, n); let wb = wrap(j, !n); let g = ::core::cmp::Ord::cmp(&wa.x, &wb.x); let e = o_cmp(a, b); out.check(g == e, "ordlayout_18", "cmp_neighbours", || format!("cmp({}, {}) with neighbour bytes {} = {:?} expected {:?}", show(a), show(b), n, g, e)); } } } }
