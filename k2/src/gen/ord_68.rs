// ord_68
#![allow(dead_code, unused_variables, unused_mut, unused_imports, non_shorthand_field_patterns, clippy::all)]
use crate::support::*;
use core::cmp::Ordering;
pub mod ty {
    #![deny(warnings)]
    #![allow(dead_code, unused_imports, non_snake_case)]
    use crate::support::{A, B, C, Good, Bad, m_eq, m_cmp, m_pcmp, m_hash, m_fmt, m_clone, m_clone_c, m_into, g_eq, g_cmp, g_pcmp, g_hash, g_fmt};
    use educe::Educe;
#[derive(Educe)]
#[repr(i8)]
#[educe(PartialOrd, PartialEq, Ord, Eq)]
pub enum T { Some, None, Zed }
}
pub use ty::T;

pub fn values() -> Vec<T> { vec![T::Some, T::None, T::Zed] }
pub fn show(x: &T) -> String { #[allow(unused_variables)] match x { T::Some => format!("Some()"), T::None => format!("None()"), T::Zed => format!("Zed()") } }
pub fn o_disc(x: &T) -> i128 { match x { T::Some => 0, T::None => 1, T::Zed => 2 } }
pub fn o_cmp(a: &T, b: &T) -> Ordering { match (a, b) { (T::Some, T::Some) => {  Ordering::Equal }, (T::None, T::None) => {  Ordering::Equal }, (T::Zed, T::Zed) => {  Ordering::Equal }, _ => o_disc(a).cmp(&o_disc(b)) } }
pub fn run(out: &mut Out) { let vs = values(); for (i, a) in vs.iter().enumerate() { for (j, b) in vs.iter().enumerate() { let e = o_cmp(a, b); let g = ::core::cmp::Ord::cmp(a, b); out.check(g == e, "ord_68", "cmp", || format!("cmp({}, {}) = {:?} expected {:?}", show(a), show(b), g, e)); let g2 = ::core::cmp::PartialOrd::partial_cmp(a, b); out.check(g2 == Some(e), "ord_68", "partial_is_some_cmp", || format!("partial_cmp({}, {}) = {:?} expected Some({:?})", show(a), show(b), g2, e)); } } }
