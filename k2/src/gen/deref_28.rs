// deref_28
#![allow(dead_code, unused_variables, unused_mut, unused_imports, non_shorthand_field_patterns, clippy::all)]
use crate::support::*;
use core::cmp::Ordering;
pub mod ty {
    #![deny(warnings)]
    #![allow(dead_code, unused_imports)]
    use crate::support::{A, B, C, Good, Bad, m_eq, m_cmp, m_pcmp, m_hash, m_fmt, m_clone, m_clone_c, m_into, g_eq, g_cmp, g_pcmp, g_hash, g_fmt};
    use educe::Educe;

    // names at the derive site that shadow everything the generated code might be tempted to write unqualified
    #[allow(non_camel_case_types)] pub struct Option; pub struct Result; pub struct Ordering; pub struct Clone; pub struct Copy;
    pub struct Default; pub struct Debug; pub struct PartialEq; pub struct Eq; pub struct PartialOrd; pub struct Ord; pub struct Hash;
    pub struct Hasher; pub struct Into; pub struct From; pub struct Deref; pub struct DerefMut; pub struct Formatter; pub struct String;
    pub struct Vec; pub struct Box; pub struct PhantomData; pub struct Sized; pub struct Send; pub struct Iterator; pub struct Self_;
    #[allow(non_snake_case)] pub fn Some() {} #[allow(non_snake_case)] pub fn None() {} #[allow(non_snake_case)] pub fn Ok() {} #[allow(non_snake_case)] pub fn Err() {}
    pub fn drop() {} pub mod core {} pub mod std {} pub mod alloc {} pub mod fmt {} pub mod cmp {} pub mod hash {} pub mod clone {} pub mod marker {}
    #[allow(unused_macros)] macro_rules! stringify { ($($t:tt)*) => { "SHADOWED" } }
    #[allow(unused_macros)] macro_rules! unreachable { ($($t:tt)*) => { () } }
    #[allow(unused_macros)] macro_rules! panic { ($($t:tt)*) => { () } }
    #[allow(unused_macros)] macro_rules! matches { ($($t:tt)*) => { true } }
    #[allow(unused_macros)] macro_rules! write { ($($t:tt)*) => { () } }
    #[allow(unused_macros)] macro_rules! format_args { ($($t:tt)*) => { () } }
    #[allow(unused_macros)] macro_rules! assert { ($($t:tt)*) => { () } }
#[derive(Educe)]
#[educe(Deref, DerefMut)]
pub enum T { None { #[educe(Deref)] c: A<1>, #[educe(DerefMut)] x: A<1> }, Zed(#[educe(Deref, DerefMut)] A<1>, A<2>, A<0>), B(#[educe(DerefMut)] #[educe(Deref)] A<1>, A<1>, A<2>, A<2>), A { #[educe(Deref)] #[educe(DerefMut)] self_data: A<1>, r#type: A<1>, data: A<2>, builder: A<0> } }
}
pub use ty::T;
pub fn values() -> Vec<T> { vec![T::None { c: A(0), x: A(1) }, T::None { c: A(0), x: A(7) }, T::None { c: A(7), x: A(1) }, T::None { c: A(1), x: A(0) }, T::Zed(A(1), A(1), A(0)), T::Zed(A(7), A(0), A(7)), T::Zed(A(0), A(1), A(7)), T::Zed(A(0), A(1), A(1)), T::B(A(7), A(0), A(0), A(0)), T::B(A(1), A(0), A(7), A(7)), T::B(A(7), A(0), A(7), A(0)), T::B(A(0), A(1), A(7), A(0)), T::A { self_data: A(1), r#type: A(1), data: A(7), builder: A(1) }, T::A { self_data: A(7), r#type: A(1), data: A(1), builder: A(0) }, T::A { self_data: A(7), r#type: A(7), data: A(1), builder: A(0) }, T::A { self_data: A(1), r#type: A(0), data: A(1), builder: A(1) }] }
pub fn show(x: &T) -> String { #[allow(unused_variables)] match x { T::None { c: p0, x: p1 } => format!("None({},{})", sv(p0), sv(p1)), T::Zed(p0, p1, p2) => format!("Zed({},{},{})", sv(p0), sv(p1), sv(p2)), T::B(p0, p1, p2, p3) => format!("B({},{},{},{})", sv(p0), sv(p1), sv(p2), sv(p3)), T::A { self_data: p0, r#type: p1, data: p2, builder: p3 } => format!("A({},{},{},{})", sv(p0), sv(p1), sv(p2), sv(p3)) } }
pub fn o_deref(x: &T) -> *const A<1> { match x { T::None { c: p0, x: _ } => p0 as *const A<1>, T::Zed(p0, _, _) => p0 as *const A<1>, T::B(p0, _, _, _) => p0 as *const A<1>, T::A { self_data: p0, r#type: _, data: _, builder: _ } => p0 as *const A<1> } }
pub fn o_deref_mut(x: &mut T) -> *mut A<1> { match x { T::None { c: _, x: p1 } => p1 as *mut A<1>, T::Zed(p0, _, _) => p0 as *mut A<1>, T::B(p0, _, _, _) => p0 as *mut A<1>, T::A { self_data: p0, r#type: _, data: _, builder: _ } => p0 as *mut A<1> } }
pub fn o_write(x: &mut T) { match x { T::None { c: _, x: p1 } => { *p1 = A(99); }, T::Zed(p0, _, _) => { *p0 = A(99); }, T::B(p0, _, _, _) => { *p0 = A(99); }, T::A { self_data: p0, r#type: _, data: _, builder: _ } => { *p0 = A(99); } } }
pub fn run(out: &mut Out) { let vs = values(); for a in &vs { let g = ::core::ops::Deref::deref(a) as *const A<1>; let e = o_deref(a); out.check(g == e, "deref_28", "deref", || format!("&*{} has another address than the designated field", show(a))); } let n = vs.len(); for i in 0..n { let mut x = values().swap_remove(i); let e = o_deref_mut(&mut x); let g = ::core::ops::DerefMut::deref_mut(&mut x) as *mut A<1>; out.check(g == e, "deref_28", "deref_mut", || format!("&mut *{} has another address than the designated field", show(&x))); let mut y = values().swap_remove(i); o_write(&mut y); *::core::ops::DerefMut::deref_mut(&mut x) = A(99); out.check(show(&x) == show(&y), "deref_28", "deref_mut_write", || format!("after a write through &mut *x: {} expected {}", show(&x), show(&y))); } }
