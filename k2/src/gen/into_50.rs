// into_50
#![allow(dead_code, unused_variables, unused_mut, unused_imports, non_shorthand_field_patterns, clippy::all)]
use crate::support::*;
use educe::Educe;
use core::cmp::Ordering;
#[derive(Educe)]
#[educe(Into(A<0>))]
pub enum T { None { y: A<1>, c: A<1>, #[educe(Into(A<0>))] source: A<0> }, C(A<0>) }
pub fn values() -> Vec<T> { vec![T::None { y: A(7), c: A(0), source: A(7) }, T::None { y: A(7), c: A(7), source: A(1) }, T::None { y: A(1), c: A(7), source: A(1) }, T::None { y: A(1), c: A(7), source: A(0) }, T::None { y: A(1), c: A(7), source: A(7) }, T::None { y: A(0), c: A(1), source: A(7) }, T::C(A(0)), T::C(A(1)), T::C(A(7))] }
pub fn show(x: &T) -> String { #[allow(unused_variables)] match x { T::None { y: p0, c: p1, source: p2 } => format!("None({},{},{})", sv(p0), sv(p1), sv(p2)), T::C(p0) => format!("C({})", sv(p0)) } }
pub fn o_into_0(x: T) -> A<0> { match x { T::None { y: _, c: _, source: p2 } => p2, T::C(p0) => p0 } }
pub fn run(out: &mut Out) { let n = values().len(); for i in 0..n { let a = values().swap_remove(i); let shown = show(&a); let g: A<0> = ::core::convert::Into::into(a); let e = o_into_0(values().swap_remove(i)); out.check(sv(&g) == sv(&e), "into_50", "into", || format!("Into::<A<0>>::into({}) = {} expected {}", shown, sv(&g), sv(&e))); } }
