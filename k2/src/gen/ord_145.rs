// ord_145
#![allow(dead_code, unused_variables, unused_mut, unused_imports, non_shorthand_field_patterns, clippy::all)]
use crate::support::*;
use core::cmp::Ordering;
pub mod ty {
    #![deny(warnings)]
    #![allow(dead_code, unused_imports, non_snake_case)]
    use crate::support::{A, B, C, Good, Bad, m_eq, m_cmp, m_pcmp, m_hash, m_fmt, m_clone, m_clone_c, m_into, g_eq, g_cmp, g_pcmp, g_hash, g_fmt};
    use educe::Educe;
#[derive(Educe)]
#[educe(Debug)]
#[educe(Eq, PartialEq, PartialOrd, Ord)]
pub enum T { V1(#[educe(PartialOrd(rank = "-3"))] A<0>, #[educe(PartialOrd(rank = "+0"))] A<0>, #[educe(PartialOrd(rank = 3, ignore = false), Debug = false)] A<2>, #[educe(Debug = false, PartialOrd(method = m_cmp))] A<3>), B(#[educe(PartialOrd(rank = "1"))] #[educe(Debug(ignore))] A<0>, #[educe(PartialOrd(rank = "-4"), Debug = false)] A<1>, #[educe(PartialOrd(ignore))] A<2>) }
}
pub use ty::T;

pub fn values() -> Vec<T> { vec![T::V1(A(1), A(1), A(0), A(7)), T::V1(A(7), A(7), A(1), A(0)), T::V1(A(0), A(7), A(0), A(1)), T::V1(A(1), A(0), A(1), A(0)), T::V1(A(0), A(7), A(1), A(7)), T::V1(A(7), A(7), A(1), A(1)), T::V1(A(1), A(1), A(7), A(7)), T::V1(A(0), A(0), A(1), A(7)), T::V1(A(0), A(0), A(1), A(1)), T::V1(A(0), A(0), A(7), A(7)), T::V1(A(7), A(1), A(7), A(7)), T::V1(A(0), A(1), A(1), A(7)), T::V1(A(1), A(0), A(0), A(7)), T::V1(A(0), A(7), A(1), A(0)), T::V1(A(7), A(1), A(0), A(7)), T::V1(A(7), A(1), A(1), A(0)), T::V1(A(7), A(0), A(0), A(7)), T::V1(A(0), A(0), A(0), A(0)), T::B(A(1), A(1), A(7)), T::B(A(7), A(7), A(0)), T::B(A(7), A(7), A(7)), T::B(A(0), A(0), A(0)), T::B(A(7), A(0), A(1)), T::B(A(1), A(0), A(1)), T::B(A(1), A(7), A(1)), T::B(A(1), A(7), A(0)), T::B(A(0), A(7), A(0)), T::B(A(1), A(1), A(1)), T::B(A(7), A(1), A(7)), T::B(A(0), A(0), A(1)), T::B(A(7), A(7), A(1)), T::B(A(7), A(0), A(7)), T::B(A(0), A(0), A(7)), T::B(A(7), A(1), A(1)), T::B(A(1), A(1), A(0)), T::B(A(1), A(0), A(7))] }
pub fn show(x: &T) -> String { #[allow(unused_variables)] match x { T::V1(p0, p1, p2, p3) => format!("V1({},{},{},{})", sv(p0), sv(p1), sv(p2), sv(p3)), T::B(p0, p1, p2) => format!("B({},{},{})", sv(p0), sv(p1), sv(p2)) } }
pub fn o_disc(x: &T) -> i128 { match x { T::V1(_, _, _, _) => 0, T::B(_, _, _) => 1 } }
pub fn o_cmp(a: &T, b: &T) -> Ordering { match (a, b) { (T::V1(a0, a1, a2, a3), T::V1(b0, b1, b2, b3)) => { let c = m_cmp(a3, b3); if c != Ordering::Equal { return c; } let c = ::core::cmp::Ord::cmp(a0, b0); if c != Ordering::Equal { return c; } let c = ::core::cmp::Ord::cmp(a1, b1); if c != Ordering::Equal { return c; } let c = ::core::cmp::Ord::cmp(a2, b2); if c != Ordering::Equal { return c; } Ordering::Equal }, (T::B(a0, a1, a2), T::B(b0, b1, b2)) => { let c = ::core::cmp::Ord::cmp(a1, b1); if c != Ordering::Equal { return c; } let c = ::core::cmp::Ord::cmp(a0, b0); if c != Ordering::Equal { return c; } Ordering::Equal }, _ => o_disc(a).cmp(&o_disc(b)) } }
pub fn run(out: &mut Out) { let vs = values(); for (i, a) in vs.iter().enumerate() { for (j, b) in vs.iter().enumerate() { let e = o_cmp(a, b); let g = ::core::cmp::Ord::cmp(a, b); out.check(g == e, "ord_145", "cmp", || format!("cmp({}, {}) = {:?} expected {:?}", show(a), show(b), g, e)); let g2 = ::core::cmp::PartialOrd::partial_cmp(a, b); out.check(g2 == Some(e), "ord_145", "partial_is_some_cmp", || format!("partial_cmp({}, {}) = {:?} expected Some({:?})", show(a), show(b), g2, e)); } } }
