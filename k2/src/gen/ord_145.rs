// ord_145
#![allow(dead_code, unused_variables, unused_mut, unused_imports, non_shorthand_field_patterns, clippy::all)]
use crate::support::*;
use educe::Educe;
use core::cmp::Ordering;
#[derive(Educe)]
#[educe(Eq, PartialEq, Ord)]
pub struct T(#[educe(Ord(method = m_cmp))] A<0>);
impl PartialOrd for T { fn partial_cmp(&self, o: &Self) -> Option<Ordering> { Some(::core::cmp::Ord::cmp(self, o)) } }
pub fn values() -> Vec<T> { vec![T(A(0)), T(A(1)), T(A(7))] }
pub fn show(x: &T) -> String { #[allow(unused_variables)] match x { T(p0) => format!("T({})", sv(p0)) } }
pub fn o_disc(x: &T) -> i128 { match x { T(_) => 0 } }
pub fn o_cmp(a: &T, b: &T) -> Ordering { match (a, b) { (T(a0), T(b0)) => { let c = m_cmp(a0, b0); if c != Ordering::Equal { return c; } Ordering::Equal } } }
pub fn run(out: &mut Out) { let vs = values(); for (i, a) in vs.iter().enumerate() { for (j, b) in vs.iter().enumerate() { let e = o_cmp(a, b); let g = ::core::cmp::Ord::cmp(a, b); out.check(g == e, "ord_145", "cmp", || format!("cmp({}, {}) = {:?} expected {:?}", show(a), show(b), g, e)); } } }
