// deref_146
#![allow(dead_code, unused_variables, unused_mut, unused_imports, non_shorthand_field_patterns, clippy::all)]
use crate::support::*;
use educe::Educe;
use core::cmp::Ordering;
#[derive(Educe)]
#[educe(DerefMut, Deref)]
pub enum T { Unit { f: A<0>, builder: A<1>, source: A<2>, #[educe(DerefMut)] #[educe(Deref)] b: A<1> }, Some { data: A<1> }, B { a: A<1>, #[educe(Deref)] #[educe(DerefMut)] _0: A<1> } }
pub fn values() -> Vec<T> { vec![T::Unit { f: A(7), builder: A(7), source: A(1), b: A(7) }, T::Unit { f: A(7), builder: A(0), source: A(0), b: A(1) }, T::Unit { f: A(7), builder: A(7), source: A(0), b: A(0) }, T::Unit { f: A(7), builder: A(0), source: A(1), b: A(1) }, T::Unit { f: A(7), builder: A(7), source: A(7), b: A(1) }, T::Some { data: A(0) }, T::Some { data: A(1) }, T::Some { data: A(7) }, T::B { a: A(1), _0: A(0) }, T::B { a: A(7), _0: A(1) }, T::B { a: A(0), _0: A(7) }, T::B { a: A(1), _0: A(1) }, T::B { a: A(0), _0: A(1) }] }
pub fn show(x: &T) -> String { #[allow(unused_variables)] match x { T::Unit { f: p0, builder: p1, source: p2, b: p3 } => format!("Unit({},{},{},{})", sv(p0), sv(p1), sv(p2), sv(p3)), T::Some { data: p0 } => format!("Some({})", sv(p0)), T::B { a: p0, _0: p1 } => format!("B({},{})", sv(p0), sv(p1)) } }
pub fn o_deref(x: &T) -> *const A<1> { match x { T::Unit { f: _, builder: _, source: _, b: p3 } => p3 as *const A<1>, T::Some { data: p0 } => p0 as *const A<1>, T::B { a: _, _0: p1 } => p1 as *const A<1> } }
pub fn o_deref_mut(x: &mut T) -> *mut A<1> { match x { T::Unit { f: _, builder: _, source: _, b: p3 } => p3 as *mut A<1>, T::Some { data: p0 } => p0 as *mut A<1>, T::B { a: _, _0: p1 } => p1 as *mut A<1> } }
pub fn o_write(x: &mut T) { match x { T::Unit { f: _, builder: _, source: _, b: p3 } => { *p3 = A(99); }, T::Some { data: p0 } => { *p0 = A(99); }, T::B { a: _, _0: p1 } => { *p1 = A(99); } } }
pub fn run(out: &mut Out) { let vs = values(); for a in &vs { let g = ::core::ops::Deref::deref(a) as *const A<1>; let e = o_deref(a); out.check(g == e, "deref_146", "deref", || format!("&*{} has another address than the designated field", show(a))); } let n = vs.len(); for i in 0..n { let mut x = values().swap_remove(i); let e = o_deref_mut(&mut x); let g = ::core::ops::DerefMut::deref_mut(&mut x) as *mut A<1>; out.check(g == e, "deref_146", "deref_mut", || format!("&mut *{} has another address than the designated field", show(&x))); let mut y = values().swap_remove(i); o_write(&mut y); *::core::ops::DerefMut::deref_mut(&mut x) = A(99); out.check(show(&x) == show(&y), "deref_146", "deref_mut_write", || format!("after a write through &mut *x: {} expected {}", show(&x), show(&y))); } }
