// ord_147
#![allow(dead_code, unused_variables, unused_mut, unused_imports, non_shorthand_field_patterns, clippy::all)]
use crate::support::*;
use core::cmp::Ordering;
pub mod ty {
    #![deny(warnings)]
    #![allow(dead_code, unused_imports, non_snake_case)]
    use crate::support::{A, B, C, Good, Bad, m_eq, m_cmp, m_pcmp, m_hash, m_fmt, m_clone, m_clone_c, m_into, g_eq, g_cmp, g_pcmp, g_hash, g_fmt};
    use educe::Educe;
#[derive(Educe)]
#[repr(align(8))]
#[educe(Eq, PartialEq, PartialOrd)]
pub enum T { Zed(#[educe(PartialOrd(ignore))] A<0>), None(#[educe(PartialOrd(ignore = true))] A<0>, #[educe(PartialOrd(rank = "-2"))] A<1>, #[educe(PartialOrd(method = m_pcmp))] A<0>) }
}
pub use ty::T;

pub fn values() -> Vec<T> { vec![T::Zed(A(0)), T::Zed(A(1)), T::Zed(A(7)), T::None(A(1), A(7), A(7)), T::None(A(1), A(0), A(1)), T::None(A(7), A(1), A(0)), T::None(A(7), A(1), A(1)), T::None(A(0), A(1), A(7)), T::None(A(7), A(7), A(1)), T::None(A(7), A(1), A(7)), T::None(A(1), A(0), A(0)), T::None(A(1), A(1), A(7)), T::None(A(1), A(7), A(0)), T::None(A(0), A(1), A(0)), T::None(A(1), A(1), A(0)), T::None(A(0), A(0), A(0)), T::None(A(0), A(7), A(7)), T::None(A(1), A(7), A(1)), T::None(A(7), A(0), A(1)), T::None(A(7), A(7), A(0)), T::None(A(7), A(0), A(7))] }
pub fn show(x: &T) -> String { #[allow(unused_variables)] match x { T::Zed(p0) => format!("Zed({})", sv(p0)), T::None(p0, p1, p2) => format!("None({},{},{})", sv(p0), sv(p1), sv(p2)) } }
pub fn o_disc(x: &T) -> i128 { match x { T::Zed(_) => 0, T::None(_, _, _) => 1 } }
pub fn o_pcmp(a: &T, b: &T) -> Option<Ordering> { match (a, b) { (T::Zed(a0), T::Zed(b0)) => {  Some(Ordering::Equal) }, (T::None(a0, a1, a2), T::None(b0, b1, b2)) => { match m_pcmp(a2, b2) { Some(Ordering::Equal) => (), x => return x } match ::core::cmp::PartialOrd::partial_cmp(a1, b1) { Some(Ordering::Equal) => (), x => return x } Some(Ordering::Equal) }, _ => Some(o_disc(a).cmp(&o_disc(b))) } }
pub fn run(out: &mut Out) { let vs = values(); for (i, a) in vs.iter().enumerate() { for (j, b) in vs.iter().enumerate() { let e = o_pcmp(a, b); let g = ::core::cmp::PartialOrd::partial_cmp(a, b); out.check(g == e, "ord_147", "partial_cmp", || format!("partial_cmp({}, {}) = {:?} expected {:?}", show(a), show(b), g, e)); } } }
