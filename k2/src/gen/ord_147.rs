// ord_147
#![allow(dead_code, unused_variables, unused_mut, unused_imports, non_shorthand_field_patterns, clippy::all)]
use crate::support::*;
use educe::Educe;
use core::cmp::Ordering;
#[derive(Educe)]
#[educe(PartialEq, Eq, Ord)]
pub struct T { #[educe(Ord(rank = -3))] c: A<0>, other: A<1> }
impl PartialOrd for T { fn partial_cmp(&self, o: &Self) -> Option<Ordering> { Some(::core::cmp::Ord::cmp(self, o)) } }
pub fn values() -> Vec<T> { vec![T { c: A(0), other: A(0) }, T { c: A(0), other: A(1) }, T { c: A(0), other: A(7) }, T { c: A(1), other: A(0) }, T { c: A(1), other: A(1) }, T { c: A(1), other: A(7) }, T { c: A(7), other: A(0) }, T { c: A(7), other: A(1) }, T { c: A(7), other: A(7) }] }
pub fn show(x: &T) -> String { #[allow(unused_variables)] match x { T { c: p0, other: p1 } => format!("T({},{})", sv(p0), sv(p1)) } }
pub fn o_disc(x: &T) -> i128 { match x { T { c: _, other: _ } => 0 } }
pub fn o_cmp(a: &T, b: &T) -> Ordering { match (a, b) { (T { c: a0, other: a1 }, T { c: b0, other: b1 }) => { let c = ::core::cmp::Ord::cmp(a1, b1); if c != Ordering::Equal { return c; } let c = ::core::cmp::Ord::cmp(a0, b0); if c != Ordering::Equal { return c; } Ordering::Equal } } }
pub fn run(out: &mut Out) { let vs = values(); for (i, a) in vs.iter().enumerate() { for (j, b) in vs.iter().enumerate() { let e = o_cmp(a, b); let g = ::core::cmp::Ord::cmp(a, b); out.check(g == e, "ord_147", "cmp", || format!("cmp({}, {}) = {:?} expected {:?}", show(a), show(b), g, e)); } } }
