// default_4
#![allow(dead_code, unused_variables, unused_mut, unused_imports, non_shorthand_field_patterns, clippy::all)]
use crate::support::*;
use educe::Educe;
use core::cmp::Ordering;
#[derive(Educe)]
#[educe(Default(expr = T::C))]
pub enum T { Zed { _0: bool, size: i128, data: f32, x: u64 }, Some { size: i128, arg: &'static str }, Unit {  }, C }
pub fn show(x: &T) -> String { #[allow(unused_variables)] match x { T::Zed { _0: p0, size: p1, data: p2, x: p3 } => format!("Zed({},{},{},{})", sv(p0), sv(p1), sv(p2), sv(p3)), T::Some { size: p0, arg: p1 } => format!("Some({},{})", sv(p0), sv(p1)), T::Unit {  } => format!("Unit()"), T::C => format!("C()") } }
pub fn o_default() -> T { T::C }
pub fn run(out: &mut Out) { let g = <T as ::core::default::Default>::default(); let e = o_default(); out.check(show(&g) == show(&e), "default_4", "default", || format!("default() = {} expected {}", show(&g), show(&e))); }
