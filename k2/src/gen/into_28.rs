// into_28
#![allow(dead_code, unused_variables, unused_mut, unused_imports, non_shorthand_field_patterns, clippy::all)]
use crate::support::*;
use educe::Educe;
use core::cmp::Ordering;
#[derive(Educe)]
#[educe(Into(B<0>))]
pub enum T { None { #[educe(Into(B<0>, method = "m_into"))] source: A<0> }, A { data: A<0> } }
pub fn values() -> Vec<T> { vec![T::None { source: A(0) }, T::None { source: A(1) }, T::None { source: A(7) }, T::A { data: A(0) }, T::A { data: A(1) }, T::A { data: A(7) }] }
pub fn show(x: &T) -> String { #[allow(unused_variables)] match x { T::None { source: p0 } => format!("None({})", sv(p0)), T::A { data: p0 } => format!("A({})", sv(p0)) } }
pub fn o_into_0(x: T) -> B<0> { match x { T::None { source: p0 } => m_into(p0), T::A { data: p0 } => ::core::convert::Into::into(p0) } }
pub fn run(out: &mut Out) { let n = values().len(); for i in 0..n { let a = values().swap_remove(i); let shown = show(&a); let g: B<0> = ::core::convert::Into::into(a); let e = o_into_0(values().swap_remove(i)); out.check(sv(&g) == sv(&e), "into_28", "into", || format!("Into::<B<0>>::into({}) = {} expected {}", shown, sv(&g), sv(&e))); } }
