// into_35
#![allow(dead_code, unused_variables, unused_mut, unused_imports, non_shorthand_field_patterns, clippy::all)]
use crate::support::*;
use educe::Educe;
use core::cmp::Ordering;
#[derive(Educe)]
#[educe(Into(B<0>), Into(A<0>), Into(B<1>))]
pub enum T { A { #[educe(Into(B<0>, method = m_into))] a: A<0>, #[educe(Into(B<1>, method = m_into))] r#type: A<1> }, Unit(#[educe(Into(B<0>))] #[educe(Into(A<0>))] #[educe(Into(B<1>))] A<0>, A<0>) }
pub fn values() -> Vec<T> { vec![T::A { a: A(0), r#type: A(0) }, T::A { a: A(1), r#type: A(7) }, T::A { a: A(7), r#type: A(7) }, T::A { a: A(0), r#type: A(1) }, T::A { a: A(7), r#type: A(0) }, T::A { a: A(7), r#type: A(1) }, T::Unit(A(1), A(7)), T::Unit(A(7), A(7)), T::Unit(A(0), A(1)), T::Unit(A(1), A(0)), T::Unit(A(1), A(1)), T::Unit(A(7), A(1))] }
pub fn show(x: &T) -> String { #[allow(unused_variables)] match x { T::A { a: p0, r#type: p1 } => format!("A({},{})", sv(p0), sv(p1)), T::Unit(p0, p1) => format!("Unit({},{})", sv(p0), sv(p1)) } }
pub fn o_into_0(x: T) -> B<0> { match x { T::A { a: p0, r#type: _ } => m_into(p0), T::Unit(p0, _) => ::core::convert::Into::into(p0) } }
pub fn o_into_1(x: T) -> A<0> { match x { T::A { a: p0, r#type: _ } => p0, T::Unit(p0, _) => p0 } }
pub fn o_into_2(x: T) -> B<1> { match x { T::A { a: _, r#type: p1 } => m_into(p1), T::Unit(p0, _) => ::core::convert::Into::into(p0) } }
pub fn run(out: &mut Out) { let n = values().len(); for i in 0..n { let a = values().swap_remove(i); let shown = show(&a); let g: B<0> = ::core::convert::Into::into(a); let e = o_into_0(values().swap_remove(i)); out.check(sv(&g) == sv(&e), "into_35", "into", || format!("Into::<B<0>>::into({}) = {} expected {}", shown, sv(&g), sv(&e))); } for i in 0..n { let a = values().swap_remove(i); let shown = show(&a); let g: A<0> = ::core::convert::Into::into(a); let e = o_into_1(values().swap_remove(i)); out.check(sv(&g) == sv(&e), "into_35", "into", || format!("Into::<A<0>>::into({}) = {} expected {}", shown, sv(&g), sv(&e))); } for i in 0..n { let a = values().swap_remove(i); let shown = show(&a); let g: B<1> = ::core::convert::Into::into(a); let e = o_into_2(values().swap_remove(i)); out.check(sv(&g) == sv(&e), "into_35", "into", || format!("Into::<B<1>>::into({}) = {} expected {}", shown, sv(&g), sv(&e))); } }
