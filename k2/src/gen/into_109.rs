// into_109
#![allow(dead_code, unused_variables, unused_mut, unused_imports, non_shorthand_field_patterns, clippy::all)]
use crate::support::*;
use educe::Educe;
use core::cmp::Ordering;
#[derive(Educe)]
#[educe(Into(B<1>), Into(B<2>))]
pub enum T { V1 { #[educe(Into(B<1>, method = "m_into"))] other: A<3>, #[educe(Into(B<2>))] x: A<1>, b: A<2> }, B { b: A<1>, #[educe(Into(B<1>, method = m_into))] #[educe(Into(B<2>))] arg: A<2> } }
pub fn values() -> Vec<T> { vec![T::V1 { other: A(0), x: A(0), b: A(1) }, T::V1 { other: A(7), x: A(7), b: A(0) }, T::V1 { other: A(1), x: A(1), b: A(1) }, T::V1 { other: A(7), x: A(1), b: A(7) }, T::V1 { other: A(1), x: A(0), b: A(0) }, T::V1 { other: A(0), x: A(1), b: A(7) }, T::B { b: A(1), arg: A(0) }, T::B { b: A(1), arg: A(7) }, T::B { b: A(7), arg: A(7) }, T::B { b: A(0), arg: A(1) }, T::B { b: A(1), arg: A(1) }, T::B { b: A(7), arg: A(0) }] }
pub fn show(x: &T) -> String { #[allow(unused_variables)] match x { T::V1 { other: p0, x: p1, b: p2 } => format!("V1({},{},{})", sv(p0), sv(p1), sv(p2)), T::B { b: p0, arg: p1 } => format!("B({},{})", sv(p0), sv(p1)) } }
pub fn o_into_0(x: T) -> B<1> { match x { T::V1 { other: p0, x: _, b: _ } => m_into(p0), T::B { b: _, arg: p1 } => m_into(p1) } }
pub fn o_into_1(x: T) -> B<2> { match x { T::V1 { other: _, x: p1, b: _ } => ::core::convert::Into::into(p1), T::B { b: _, arg: p1 } => ::core::convert::Into::into(p1) } }
pub fn run(out: &mut Out) { let n = values().len(); for i in 0..n { let a = values().swap_remove(i); let shown = show(&a); let g: B<1> = ::core::convert::Into::into(a); let e = o_into_0(values().swap_remove(i)); out.check(sv(&g) == sv(&e), "into_109", "into", || format!("Into::<B<1>>::into({}) = {} expected {}", shown, sv(&g), sv(&e))); } for i in 0..n { let a = values().swap_remove(i); let shown = show(&a); let g: B<2> = ::core::convert::Into::into(a); let e = o_into_1(values().swap_remove(i)); out.check(sv(&g) == sv(&e), "into_109", "into", || format!("Into::<B<2>>::into({}) = {} expected {}", shown, sv(&g), sv(&e))); } }
