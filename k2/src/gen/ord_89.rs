// ord_89
#![allow(dead_code, unused_variables, unused_mut, unused_imports, non_shorthand_field_patterns, clippy::all)]
use crate::support::*;
use core::cmp::Ordering;
pub mod ty {
    #![deny(warnings)]
    #![allow(dead_code, unused_imports, non_snake_case)]
    use crate::support::{A, B, C, Good, Bad, m_eq, m_cmp, m_pcmp, m_hash, m_fmt, m_clone, m_clone_c, m_into, g_eq, g_cmp, g_pcmp, g_hash, g_fmt};
    use educe::Educe;
#[derive(Educe)]
#[educe(Eq, PartialEq, PartialOrd)]
pub enum T { C, V1(#[educe(PartialOrd(rank(-1)))] A<0>, #[educe(PartialOrd(method = m_pcmp))] A<0>), B { #[educe(PartialOrd(rank = "-3"))] _size: A<0>, #[educe(PartialOrd(ignore = false, rank = 0x0))] size: A<0> }, Zed(#[educe(PartialOrd(ignore = false))] A<0>, #[educe(PartialOrd(rank = -6))] A<0>, #[educe(PartialOrd(rank = "-4"))] A<0>) }
}
pub use ty::T;

pub fn values() -> Vec<T> { vec![T::C, T::V1(A(0), A(0)), T::V1(A(0), A(1)), T::V1(A(0), A(7)), T::V1(A(1), A(0)), T::V1(A(1), A(1)), T::V1(A(1), A(7)), T::V1(A(7), A(0)), T::V1(A(7), A(1)), T::V1(A(7), A(7)), T::B { _size: A(0), size: A(0) }, T::B { _size: A(0), size: A(1) }, T::B { _size: A(0), size: A(7) }, T::B { _size: A(1), size: A(0) }, T::B { _size: A(1), size: A(1) }, T::B { _size: A(1), size: A(7) }, T::B { _size: A(7), size: A(0) }, T::B { _size: A(7), size: A(1) }, T::B { _size: A(7), size: A(7) }, T::Zed(A(7), A(0), A(1)), T::Zed(A(1), A(1), A(7)), T::Zed(A(1), A(1), A(0)), T::Zed(A(0), A(7), A(0)), T::Zed(A(7), A(1), A(0)), T::Zed(A(7), A(7), A(1)), T::Zed(A(0), A(1), A(0)), T::Zed(A(7), A(0), A(7)), T::Zed(A(1), A(0), A(0))] }
pub fn show(x: &T) -> String { #[allow(unused_variables)] match x { T::C => format!("C()"), T::V1(p0, p1) => format!("V1({},{})", sv(p0), sv(p1)), T::B { _size: p0, size: p1 } => format!("B({},{})", sv(p0), sv(p1)), T::Zed(p0, p1, p2) => format!("Zed({},{},{})", sv(p0), sv(p1), sv(p2)) } }
pub fn o_disc(x: &T) -> i128 { match x { T::C => 0, T::V1(_, _) => 1, T::B { _size: _, size: _ } => 2, T::Zed(_, _, _) => 3 } }
pub fn o_pcmp(a: &T, b: &T) -> Option<Ordering> { match (a, b) { (T::C, T::C) => {  Some(Ordering::Equal) }, (T::V1(a0, a1), T::V1(b0, b1)) => { match m_pcmp(a1, b1) { Some(Ordering::Equal) => (), x => return x } match ::core::cmp::PartialOrd::partial_cmp(a0, b0) { Some(Ordering::Equal) => (), x => return x } Some(Ordering::Equal) }, (T::B { _size: a0, size: a1 }, T::B { _size: b0, size: b1 }) => { match ::core::cmp::PartialOrd::partial_cmp(a0, b0) { Some(Ordering::Equal) => (), x => return x } match ::core::cmp::PartialOrd::partial_cmp(a1, b1) { Some(Ordering::Equal) => (), x => return x } Some(Ordering::Equal) }, (T::Zed(a0, a1, a2), T::Zed(b0, b1, b2)) => { match ::core::cmp::PartialOrd::partial_cmp(a0, b0) { Some(Ordering::Equal) => (), x => return x } match ::core::cmp::PartialOrd::partial_cmp(a1, b1) { Some(Ordering::Equal) => (), x => return x } match ::core::cmp::PartialOrd::partial_cmp(a2, b2) { Some(Ordering::Equal) => (), x => return x } Some(Ordering::Equal) }, _ => Some(o_disc(a).cmp(&o_disc(b))) } }
pub fn run(out: &mut Out) { let vs = values(); for (i, a) in vs.iter().enumerate() { for (j, b) in vs.iter().enumerate() { let e = o_pcmp(a, b); let g = ::core::cmp::PartialOrd::partial_cmp(a, b); out.check(g == e, "ord_89", "partial_cmp", || format!("partial_cmp({}, {}) = {:?} expected {:?}", show(a), show(b), g, e)); } } }
