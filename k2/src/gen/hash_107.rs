// hash_107
#![allow(dead_code, unused_variables, unused_mut, unused_imports, non_shorthand_field_patterns, clippy::all)]
use crate::support::*;
use educe::Educe;
use core::cmp::Ordering;
#[derive(Educe)]
#[educe(Hash)]
pub enum T { A, Zed, B { arg: A<0>, other: A<1> }, C { #[educe(Hash(method(m_hash)))] b: A<0>, c: A<1>, #[educe(Hash = false)] r#type: A<0> } }
pub fn values() -> Vec<T> { vec![T::A, T::Zed, T::B { arg: A(0), other: A(0) }, T::B { arg: A(0), other: A(1) }, T::B { arg: A(0), other: A(7) }, T::B { arg: A(1), other: A(0) }, T::B { arg: A(1), other: A(1) }, T::B { arg: A(1), other: A(7) }, T::B { arg: A(7), other: A(0) }, T::B { arg: A(7), other: A(1) }, T::B { arg: A(7), other: A(7) }, T::C { b: A(7), c: A(0), r#type: A(7) }, T::C { b: A(1), c: A(7), r#type: A(7) }, T::C { b: A(0), c: A(0), r#type: A(1) }, T::C { b: A(7), c: A(7), r#type: A(7) }, T::C { b: A(0), c: A(7), r#type: A(0) }, T::C { b: A(1), c: A(7), r#type: A(1) }, T::C { b: A(7), c: A(0), r#type: A(0) }, T::C { b: A(7), c: A(0), r#type: A(1) }, T::C { b: A(7), c: A(7), r#type: A(0) }, T::C { b: A(1), c: A(7), r#type: A(0) }, T::C { b: A(1), c: A(0), r#type: A(7) }, T::C { b: A(1), c: A(1), r#type: A(0) }] }
pub fn show(x: &T) -> String { #[allow(unused_variables)] match x { T::A => format!("A()"), T::Zed => format!("Zed()"), T::B { arg: p0, other: p1 } => format!("B({},{})", sv(p0), sv(p1)), T::C { b: p0, c: p1, r#type: p2 } => format!("C({},{},{})", sv(p0), sv(p1), sv(p2)) } }
pub fn o_hash(x: &T) -> Vec<String> { let mut e = Rec::default(); match x { T::A => { ::core::hash::Hash::hash(&0usize, &mut e); }, T::Zed => { ::core::hash::Hash::hash(&1usize, &mut e); }, T::B { arg: p0, other: p1 } => { ::core::hash::Hash::hash(&2usize, &mut e); ::core::hash::Hash::hash(p0, &mut e); ::core::hash::Hash::hash(p1, &mut e); }, T::C { b: p0, c: p1, r#type: p2 } => { ::core::hash::Hash::hash(&3usize, &mut e); m_hash(p0, &mut e); ::core::hash::Hash::hash(p1, &mut e); } } e.0 }
pub fn run(out: &mut Out) { let vs = values(); for a in &vs { let mut g = Rec::default(); ::core::hash::Hash::hash(a, &mut g); let e = o_hash(a); out.check(g.0 == e, "hash_107", "hash", || format!("hash({}) fed {:?} expected {:?}", show(a), g.0, e)); } }
