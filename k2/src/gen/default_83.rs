// default_83
#![allow(dead_code, unused_variables, unused_mut, unused_imports, non_shorthand_field_patterns, clippy::all)]
use crate::support::*;
use educe::Educe;
use core::cmp::Ordering;
#[derive(Educe)]
#[educe(Default)]
pub struct T { #[educe(Default(expression(1.5)))] x: f32, #[educe(Default(expression = 1.5))] b: f32, #[educe(Default(expression(9u16)))] a: u16 }
pub fn show(x: &T) -> String { #[allow(unused_variables)] match x { T { x: p0, b: p1, a: p2 } => format!("T({},{},{})", sv(p0), sv(p1), sv(p2)) } }
pub fn o_default() -> T { T { x: 1.5f32, b: 1.5f32, a: 9u16 } }
pub fn run(out: &mut Out) { let g = <T as ::core::default::Default>::default(); let e = o_default(); out.check(show(&g) == show(&e), "default_83", "default", || format!("default() = {} expected {}", show(&g), show(&e))); }
