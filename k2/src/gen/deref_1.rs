// deref_1
#![allow(dead_code, unused_variables, unused_mut, unused_imports, non_shorthand_field_patterns, clippy::all)]
use crate::support::*;
use educe::Educe;
use core::cmp::Ordering;
#[derive(Educe)]
#[educe(Deref)]
pub enum T { Zed { size: &'static A<1> }, None { source: &'static A<1> }, Unit { builder: A<2>, #[educe(Deref)] c: &'static A<1> } }
pub fn values() -> Vec<T> { vec![T::Zed { size: &A(0) }, T::Zed { size: &A(1) }, T::None { source: &A(0) }, T::None { source: &A(1) }, T::Unit { builder: A(7), c: &A(0) }, T::Unit { builder: A(7), c: &A(1) }, T::Unit { builder: A(0), c: &A(0) }, T::Unit { builder: A(0), c: &A(1) }, T::Unit { builder: A(1), c: &A(1) }] }
pub fn show(x: &T) -> String { #[allow(unused_variables)] match x { T::Zed { size: p0 } => format!("Zed({})", sv(p0)), T::None { source: p0 } => format!("None({})", sv(p0)), T::Unit { builder: p0, c: p1 } => format!("Unit({},{})", sv(p0), sv(p1)) } }
pub fn o_deref(x: &T) -> *const A<1> { match x { T::Zed { size: p0 } => *p0 as *const A<1>, T::None { source: p0 } => *p0 as *const A<1>, T::Unit { builder: _, c: p1 } => *p1 as *const A<1> } }
pub fn run(out: &mut Out) { let vs = values(); for a in &vs { let g = ::core::ops::Deref::deref(a) as *const A<1>; let e = o_deref(a); out.check(g == e, "deref_1", "deref", || format!("&*{} has another address than the designated field", show(a))); } }
