// default_1
#![allow(dead_code, unused_variables, unused_mut, unused_imports, non_shorthand_field_patterns, clippy::all)]
use crate::support::*;
use educe::Educe;
use core::cmp::Ordering;
#[derive(Educe)]
#[educe(Default)]
pub enum T { #[educe(Default)] V1 { #[educe(Default(expr(2)))] f: f64, data: i64, #[educe(Default = 2.5f64)] b: f64, #[educe(Default(expr = 0x10))] r#type: u8 }, C(char, i128, u8, i128) }
pub fn show(x: &T) -> String { #[allow(unused_variables)] match x { T::V1 { f: p0, data: p1, b: p2, r#type: p3 } => format!("V1({},{},{},{})", sv(p0), sv(p1), sv(p2), sv(p3)), T::C(p0, p1, p2, p3) => format!("C({},{},{},{})", sv(p0), sv(p1), sv(p2), sv(p3)) } }
pub fn o_default() -> T { T::V1 { f: 2f64, data: 0i64, b: 2.5f64, r#type: 16u8 } }
pub fn run(out: &mut Out) { let g = <T as ::core::default::Default>::default(); let e = o_default(); out.check(show(&g) == show(&e), "default_1", "default", || format!("default() = {} expected {}", show(&g), show(&e))); }
