// ordlayout_142
#![allow(dead_code, unused_variables, unused_mut, unused_imports, non_shorthand_field_patterns, clippy::all)]
use crate::support::*;
use core::cmp::Ordering;
pub mod ty {
    #![deny(warnings)]
    #![allow(dead_code, unused_imports, non_snake_case)]
    use crate::support::{A, B, C, Good, Bad, m_eq, m_cmp, m_pcmp, m_hash, m_fmt, m_clone, m_clone_c, m_into, g_eq, g_cmp, g_pcmp, g_hash, g_fmt};
    use educe::Educe;
#[derive(Educe)]
#[educe(PartialEq, PartialOrd, Eq)]
pub enum T { A { _f: ::core::num::NonZeroU8, #[educe(PartialOrd(rank = "-4"))] f: ::core::num::NonZeroU8 }, Zed(), Unit { source: char }, Some(#[educe(PartialOrd(rank("2")))] (), #[educe(PartialOrd(rank = 0x1))] bool) }
}
pub use ty::T;

pub fn values() -> Vec<T> { vec![T::A { _f: ::core::num::NonZeroU8::new(1).unwrap(), f: ::core::num::NonZeroU8::new(1).unwrap() }, T::A { _f: ::core::num::NonZeroU8::new(1).unwrap(), f: ::core::num::NonZeroU8::new(200).unwrap() }, T::A { _f: ::core::num::NonZeroU8::new(200).unwrap(), f: ::core::num::NonZeroU8::new(1).unwrap() }, T::A { _f: ::core::num::NonZeroU8::new(200).unwrap(), f: ::core::num::NonZeroU8::new(200).unwrap() }, T::Zed(), T::Unit { source: 'a' }, T::Unit { source: 'z' }, T::Some((), false), T::Some((), true)] }
pub fn show(x: &T) -> String { #[allow(unused_variables)] match x { T::A { _f: p0, f: p1 } => format!("A({},{})", sv(p0), sv(p1)), T::Zed() => format!("Zed()"), T::Unit { source: p0 } => format!("Unit({})", sv(p0)), T::Some(p0, p1) => format!("Some({},{})", sv(p0), sv(p1)) } }
pub fn o_disc(x: &T) -> i128 { match x { T::A { _f: _, f: _ } => 0, T::Zed() => 1, T::Unit { source: _ } => 2, T::Some(_, _) => 3 } }
pub fn o_pcmp(a: &T, b: &T) -> Option<Ordering> { match (a, b) { (T::A { _f: a0, f: a1 }, T::A { _f: b0, f: b1 }) => { match ::core::cmp::PartialOrd::partial_cmp(a0, b0) { Some(Ordering::Equal) => (), x => return x } match ::core::cmp::PartialOrd::partial_cmp(a1, b1) { Some(Ordering::Equal) => (), x => return x } Some(Ordering::Equal) }, (T::Zed(), T::Zed()) => {  Some(Ordering::Equal) }, (T::Unit { source: a0 }, T::Unit { source: b0 }) => { match ::core::cmp::PartialOrd::partial_cmp(a0, b0) { Some(Ordering::Equal) => (), x => return x } Some(Ordering::Equal) }, (T::Some(a0, a1), T::Some(b0, b1)) => { match ::core::cmp::PartialOrd::partial_cmp(a1, b1) { Some(Ordering::Equal) => (), x => return x } match ::core::cmp::PartialOrd::partial_cmp(a0, b0) { Some(Ordering::Equal) => (), x => return x } Some(Ordering::Equal) }, _ => Some(o_disc(a).cmp(&o_disc(b))) } }
#[repr(C)] pub struct Wrap { pub pre: u8, pub x: T, pub post: [u8; 9] }
pub fn wrap(i: usize, n: u8) -> Wrap { Wrap { pre: n, x: values().swap_remove(i), post: [n; 9] } }
pub fn run(out: &mut Out) { let vs = values(); for (i, a) in vs.iter().enumerate() { for (j, b) in vs.iter().enumerate() { let e = o_pcmp(a, b); let g = ::core::cmp::PartialOrd::partial_cmp(a, b); out.check(g == e, "ordlayout_142", "partial_cmp", || format!("partial_cmp({}, {}) = {:?} expected {:?}", show(a), show(b), g, e)); for n in [0u8, 1, 0x7f, 0x80, 0xff] { let wa = wrap(i, n); let wb = wrap(j, !n); let g = ::core::cmp::PartialOrd::partial_cmp(&wa.x, &wb.x); let e = o_pcmp(a, b); out.check(g == e, "ordlayout_142", "cmp_neighbours", || format!("cmp({}, {}) with neighbour bytes {} = {:?} expected {:?}", show(a), show(b), n, g, e)); } } } }
