// ordlayout_142
#![allow(dead_code, unused_variables, unused_mut, unused_imports, non_shorthand_field_patterns, clippy::all)]
use crate::support::*;
use educe::Educe;
use core::cmp::Ordering;
#[derive(Educe)]
#[repr(i64)]
#[educe(Ord, Eq, PartialEq)]
pub enum T { A { #[educe(Ord(rank = 4i64))] source: i64, #[educe(Ord(rank = -2))] data: ::core::num::NonZeroU8, b: bool } = 100 }
impl PartialOrd for T { fn partial_cmp(&self, o: &Self) -> Option<Ordering> { Some(::core::cmp::Ord::cmp(self, o)) } }
pub fn values() -> Vec<T> { vec![T::A { source: -5, data: ::core::num::NonZeroU8::new(1).unwrap(), b: false }, T::A { source: -5, data: ::core::num::NonZeroU8::new(1).unwrap(), b: true }, T::A { source: -5, data: ::core::num::NonZeroU8::new(200).unwrap(), b: false }, T::A { source: -5, data: ::core::num::NonZeroU8::new(200).unwrap(), b: true }, T::A { source: 0, data: ::core::num::NonZeroU8::new(1).unwrap(), b: false }, T::A { source: 0, data: ::core::num::NonZeroU8::new(1).unwrap(), b: true }, T::A { source: 0, data: ::core::num::NonZeroU8::new(200).unwrap(), b: false }, T::A { source: 0, data: ::core::num::NonZeroU8::new(200).unwrap(), b: true }, T::A { source: 9, data: ::core::num::NonZeroU8::new(1).unwrap(), b: false }, T::A { source: 9, data: ::core::num::NonZeroU8::new(1).unwrap(), b: true }, T::A { source: 9, data: ::core::num::NonZeroU8::new(200).unwrap(), b: false }, T::A { source: 9, data: ::core::num::NonZeroU8::new(200).unwrap(), b: true }] }
pub fn show(x: &T) -> String { #[allow(unused_variables)] match x { T::A { source: p0, data: p1, b: p2 } => format!("A({},{},{})", sv(p0), sv(p1), sv(p2)) } }
pub fn o_disc(x: &T) -> i128 { match x { T::A { source: _, data: _, b: _ } => 100 } }
pub fn o_cmp(a: &T, b: &T) -> Ordering { match (a, b) { (T::A { source: a0, data: a1, b: a2 }, T::A { source: b0, data: b1, b: b2 }) => { let c = ::core::cmp::Ord::cmp(a2, b2); if c != Ordering::Equal { return c; } let c = ::core::cmp::Ord::cmp(a1, b1); if c != Ordering::Equal { return c; } let c = ::core::cmp::Ord::cmp(a0, b0); if c != Ordering::Equal { return c; } Ordering::Equal } } }
#[repr(C)] pub struct Wrap { pub pre: u8, pub x: T, pub post: [u8; 9] }
pub fn wrap(i: usize, n: u8) -> Wrap { Wrap { pre: n, x: values().swap_remove(i), post: [n; 9] } }
pub fn run(out: &mut Out) { let vs = values(); for (i, a) in vs.iter().enumerate() { for (j, b) in vs.iter().enumerate() { let e = o_cmp(a, b); let g = ::core::cmp::Ord::cmp(a, b); out.check(g == e, "ordlayout_142", "cmp", || format!("cmp({}, {}) = {:?} expected {:?}", show(a), show(b), g, e)); for n in [0u8, 1, 0x7f, 0x80, 0xff] { let wa = wrap(i, n); let wb = wrap(j, !n); let g = ::core::cmp::Ord::cmp(&wa.x, &wb.x); let e = o_cmp(a, b); out.check(g == e, "ordlayout_142", "cmp_neighbours", || format!("cmp({}, {}) with neighbour bytes {} = {:?} expected {:?}", show(a), show(b), n, g, e)); } } } }
