// deref_69
#![allow(dead_code, unused_variables, unused_mut, unused_imports, non_shorthand_field_patterns, clippy::all)]
use crate::support::*;
use educe::Educe;
use core::cmp::Ordering;
#[derive(Educe)]
#[educe(Deref)]
pub struct T { f: A<0> }
pub fn values() -> Vec<T> { vec![T { f: A(0) }, T { f: A(1) }, T { f: A(7) }] }
pub fn show(x: &T) -> String { #[allow(unused_variables)] match x { T { f: p0 } => format!("T({})", sv(p0)) } }
pub fn o_deref(x: &T) -> *const A<0> { match x { T { f: p0 } => p0 as *const A<0> } }
pub fn run(out: &mut Out) { let vs = values(); for a in &vs { let g = ::core::ops::Deref::deref(a) as *const A<0>; let e = o_deref(a); out.check(g == e, "deref_69", "deref", || format!("&*{} has another address than the designated field", show(a))); } }
