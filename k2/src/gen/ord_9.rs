// ord_9
#![allow(dead_code, unused_variables, unused_mut, unused_imports, non_shorthand_field_patterns, clippy::all)]
use crate::support::*;
use educe::Educe;
use core::cmp::Ordering;
#[derive(Educe)]
#[educe(PartialEq, PartialOrd, Eq)]
pub struct T { #[educe(PartialOrd(ignore))] state: A<0> }

pub fn values() -> Vec<T> { vec![T { state: A(0) }, T { state: A(1) }, T { state: A(7) }] }
pub fn show(x: &T) -> String { #[allow(unused_variables)] match x { T { state: p0 } => format!("T({})", sv(p0)) } }
pub fn o_disc(x: &T) -> i128 { match x { T { state: _ } => 0 } }
pub fn o_pcmp(a: &T, b: &T) -> Option<Ordering> { match (a, b) { (T { state: a0 }, T { state: b0 }) => {  Some(Ordering::Equal) } } }
pub fn run(out: &mut Out) { let vs = values(); for (i, a) in vs.iter().enumerate() { for (j, b) in vs.iter().enumerate() { let e = o_pcmp(a, b); let g = ::core::cmp::PartialOrd::partial_cmp(a, b); out.check(g == e, "ord_9", "partial_cmp", || format!("partial_cmp({}, {}) = {:?} expected {:?}", show(a), show(b), g, e)); } } }
