// debug_121
#![allow(dead_code, unused_variables, unused_mut, unused_imports, non_shorthand_field_patterns, clippy::all)]
use crate::support::*;
use educe::Educe;
use core::cmp::Ordering;
#[derive(Educe)]
#[educe(Debug(name(false)))]
pub enum T { #[educe(Debug(named_field(false)))] B {  }, #[educe(Debug(named_field = false, name = ""))] Unit { #[educe(Debug(method(m_fmt)))] f: A<0>, source: A<0> }, Zed, None }
pub fn values() -> Vec<T> { vec![T::B {  }, T::Unit { f: A(7), source: A(7) }, T::Unit { f: A(1), source: A(1) }, T::Unit { f: A(1), source: A(0) }, T::Unit { f: A(0), source: A(1) }, T::Unit { f: A(0), source: A(7) }, T::Unit { f: A(0), source: A(0) }, T::Zed, T::None] }
pub fn show(x: &T) -> String { #[allow(unused_variables)] match x { T::B {  } => format!("B()"), T::Unit { f: p0, source: p1 } => format!("Unit({},{})", sv(p0), sv(p1)), T::Zed => format!("Zed()"), T::None => format!("None()") } }
pub fn o_fmt(x: &T, f: &mut ::core::fmt::Formatter<'_>) -> ::core::fmt::Result { match x { T::B {  } => f.debug_tuple("B").finish(), T::Unit { f: p0, source: p1 } => f.debug_tuple("").field(&Wm(p0)).field(p1).finish(), T::Zed => f.write_str("Zed"), T::None => f.write_str("None") } }

pub fn run(out: &mut Out) { let vs = values(); for a in &vs { let g = format!("{:?}", a); let e = format!("{:?}", Fm(|f: &mut ::core::fmt::Formatter<'_>| o_fmt(a, f))); out.check(g == e, "debug_121", "debug", || format!("{{:?}} of {} = {:?} expected {:?}", show(a), g, e)); let g = format!("{:#?}", a); let e = format!("{:#?}", Fm(|f: &mut ::core::fmt::Formatter<'_>| o_fmt(a, f))); out.check(g == e, "debug_121", "debug_alt", || format!("{{:#?}} of {} = {:?} expected {:?}", show(a), g, e)); let g = format!("{:8?}", a); let e = format!("{:8?}", Fm(|f: &mut ::core::fmt::Formatter<'_>| o_fmt(a, f))); out.check(g == e, "debug_121", "debug_width", || format!("{{:8?}} of {} = {:?} expected {:?}", show(a), g, e)); }  }
