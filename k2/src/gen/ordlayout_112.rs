// ordlayout_112
#![allow(dead_code, unused_variables, unused_mut, unused_imports, non_shorthand_field_patterns, clippy::all)]
use crate::support::*;
use educe::Educe;
use core::cmp::Ordering;
#[derive(Educe)]
#[educe(PartialOrd, Eq, PartialEq, Ord)]
pub enum T { B, Zed(#[educe(PartialOrd(rank = 0x6))] bool, u8, #[educe(PartialOrd(rank(5)))] char) }

pub fn values() -> Vec<T> { vec![T::B, T::Zed(false, 0, 'a'), T::Zed(false, 0, 'z'), T::Zed(false, 100, 'a'), T::Zed(false, 100, 'z'), T::Zed(false, 200, 'a'), T::Zed(false, 200, 'z'), T::Zed(true, 0, 'a'), T::Zed(true, 0, 'z'), T::Zed(true, 100, 'a'), T::Zed(true, 100, 'z'), T::Zed(true, 200, 'a'), T::Zed(true, 200, 'z')] }
pub fn show(x: &T) -> String { #[allow(unused_variables)] match x { T::B => format!("B()"), T::Zed(p0, p1, p2) => format!("Zed({},{},{})", sv(p0), sv(p1), sv(p2)) } }
pub fn o_disc(x: &T) -> i128 { match x { T::B => 0, T::Zed(_, _, _) => 1 } }
pub fn o_cmp(a: &T, b: &T) -> Ordering { match (a, b) { (T::B, T::B) => {  Ordering::Equal }, (T::Zed(a0, a1, a2), T::Zed(b0, b1, b2)) => { let c = ::core::cmp::Ord::cmp(a1, b1); if c != Ordering::Equal { return c; } let c = ::core::cmp::Ord::cmp(a2, b2); if c != Ordering::Equal { return c; } let c = ::core::cmp::Ord::cmp(a0, b0); if c != Ordering::Equal { return c; } Ordering::Equal }, _ => o_disc(a).cmp(&o_disc(b)) } }
#[repr(C)] pub struct Wrap { pub pre: u8, pub x: T, pub post: [u8; 9] }
pub fn wrap(i: usize, n: u8) -> Wrap { Wrap { pre: n, x: values().swap_remove(i), post: [n; 9] } }
pub fn run(out: &mut Out) { let vs = values(); for (i, a) in vs.iter().enumerate() { for (j, b) in vs.iter().enumerate() { let e = o_cmp(a, b); let g = ::core::cmp::Ord::cmp(a, b); out.check(g == e, "ordlayout_112", "cmp", || format!("cmp({}, {}) = {:?} expected {:?}", show(a), show(b), g, e)); let g2 = ::core::cmp::PartialOrd::partial_cmp(a, b); out.check(g2 == Some(e), "ordlayout_112", "partial_is_some_cmp", || format!("partial_cmp({}, {}) = {:?} expected Some({:?})", show(a), show(b), g2, e)); for n in [0u8, 1, 0x7f, 0x80, 0xff] { let wa = wrap(i, n); let wb = wrap(j, !n); let g = ::core::cmp::Ord::cmp(&wa.x, &wb.x); let e = o_cmp(a, b); out.check(g == e, "ordlayout_112", "cmp_neighbours", || format!("cmp({}, {}) with neighbour bytes {} = {:?} expected {:?}", show(a), show(b), n, g, e)); } } } }
