// ordlayout_112
#![allow(dead_code, unused_variables, unused_mut, unused_imports, non_shorthand_field_patterns, clippy::all)]
use crate::support::*;
use core::cmp::Ordering;
pub mod ty {
    #![deny(warnings)]
    #![allow(dead_code, unused_imports, non_snake_case)]
    use crate::support::{A, B, C, Good, Bad, m_eq, m_cmp, m_pcmp, m_hash, m_fmt, m_clone, m_clone_c, m_into, g_eq, g_cmp, g_pcmp, g_hash, g_fmt};
    use educe::Educe;
#[derive(Educe)]
#[repr(i128)]
#[educe(Eq, PartialEq, PartialOrd)]
#[educe(Debug)]
pub enum T { B(#[educe(Debug(ignore = true))] i64, #[educe(PartialOrd(rank = "5"))] char, #[educe(Debug(ignore = true))] #[educe(PartialOrd(rank = 0i64))] bool) = 0, Unit = 3, A { #[educe(PartialOrd(rank = "-4"))] #[educe(Debug = false)] y: &'static u8, #[educe(PartialOrd(rank(5)))] size: u8, #[educe(PartialOrd(rank(-3)))] data: char } = 85070591730234615865843651857942052864 }
}
pub use ty::T;

pub fn values() -> Vec<T> { vec![T::B(-5, 'a', false), T::B(-5, 'a', true), T::B(-5, 'z', false), T::B(-5, 'z', true), T::B(0, 'a', false), T::B(0, 'a', true), T::B(0, 'z', false), T::B(0, 'z', true), T::B(9, 'a', false), T::B(9, 'a', true), T::B(9, 'z', false), T::B(9, 'z', true), T::Unit, T::A { y: &3u8, size: 0, data: 'a' }, T::A { y: &3u8, size: 0, data: 'z' }, T::A { y: &3u8, size: 100, data: 'a' }, T::A { y: &3u8, size: 100, data: 'z' }, T::A { y: &3u8, size: 200, data: 'a' }, T::A { y: &3u8, size: 200, data: 'z' }, T::A { y: &200u8, size: 0, data: 'a' }, T::A { y: &200u8, size: 0, data: 'z' }, T::A { y: &200u8, size: 100, data: 'a' }, T::A { y: &200u8, size: 100, data: 'z' }, T::A { y: &200u8, size: 200, data: 'a' }, T::A { y: &200u8, size: 200, data: 'z' }] }
pub fn show(x: &T) -> String { #[allow(unused_variables)] match x { T::B(p0, p1, p2) => format!("B({},{},{})", sv(p0), sv(p1), sv(p2)), T::Unit => format!("Unit()"), T::A { y: p0, size: p1, data: p2 } => format!("A({},{},{})", sv(p0), sv(p1), sv(p2)) } }
pub fn o_disc(x: &T) -> i128 { match x { T::B(_, _, _) => 0, T::Unit => 3, T::A { y: _, size: _, data: _ } => 85070591730234615865843651857942052864 } }
pub fn o_pcmp(a: &T, b: &T) -> Option<Ordering> { match (a, b) { (T::B(a0, a1, a2), T::B(b0, b1, b2)) => { match ::core::cmp::PartialOrd::partial_cmp(a0, b0) { Some(Ordering::Equal) => (), x => return x } match ::core::cmp::PartialOrd::partial_cmp(a2, b2) { Some(Ordering::Equal) => (), x => return x } match ::core::cmp::PartialOrd::partial_cmp(a1, b1) { Some(Ordering::Equal) => (), x => return x } Some(Ordering::Equal) }, (T::Unit, T::Unit) => {  Some(Ordering::Equal) }, (T::A { y: a0, size: a1, data: a2 }, T::A { y: b0, size: b1, data: b2 }) => { match ::core::cmp::PartialOrd::partial_cmp(a0, b0) { Some(Ordering::Equal) => (), x => return x } match ::core::cmp::PartialOrd::partial_cmp(a2, b2) { Some(Ordering::Equal) => (), x => return x } match ::core::cmp::PartialOrd::partial_cmp(a1, b1) { Some(Ordering::Equal) => (), x => return x } Some(Ordering::Equal) }, _ => Some(o_disc(a).cmp(&o_disc(b))) } }
#[repr(C)] pub struct Wrap { pub pre: u8, pub x: T, pub post: [u8; 9] }
pub fn wrap(i: usize, n: u8) -> Wrap { Wrap { pre: n, x: values().swap_remove(i), post: [n; 9] } }
pub fn run(out: &mut Out) { let vs = values(); for (i, a) in vs.iter().enumerate() { for (j, b) in vs.iter().enumerate() { let e = o_pcmp(a, b); let g = ::core::cmp::PartialOrd::partial_cmp(a, b); out.check(g == e, "ordlayout_112", "partial_cmp", || format!("partial_cmp({}, {}) = {:?} expected {:?}", show(a), show(b), g, e)); for n in [0u8, 1, 0x7f, 0x80, 0xff] { let wa = wrap(i, n); let wb = wrap(j, !n); let g = ::core::cmp::PartialOrd::partial_cmp(&wa.x, &wb.x); let e = o_pcmp(a, b); out.check(g == e, "ordlayout_112", "cmp_neighbours", || format!("cmp({}, {}) with neighbour bytes {} = {:?} expected {:?}", show(a), show(b), n, g, e)); } } } }
