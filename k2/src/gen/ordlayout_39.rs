// ordlayout_39
#![allow(dead_code, unused_variables, unused_mut, unused_imports, non_shorthand_field_patterns, clippy::all)]
use crate::support::*;
use core::cmp::Ordering;
pub mod ty {
    #![deny(warnings)]
    #![allow(dead_code, unused_imports, non_snake_case)]
    use crate::support::{A, B, C, Good, Bad, m_eq, m_cmp, m_pcmp, m_hash, m_fmt, m_clone, m_clone_c, m_into, g_eq, g_cmp, g_pcmp, g_hash, g_fmt};
    use educe::Educe;
#[derive(Educe)]
#[educe(Debug)]
#[educe(Eq, PartialEq, Ord, PartialOrd)]
pub enum T { Zed { #[educe(Debug(ignore = false))] #[educe(Ord(rank = "5", ignore(false)))] r#type: ::core::num::NonZeroU8, y: Option<u8>, #[educe(Ord(rank = "+0"))] state: &'static u8 }, V1, Unit }
}
pub use ty::T;

pub fn values() -> Vec<T> { vec![T::Zed { r#type: ::core::num::NonZeroU8::new(1).unwrap(), y: None, state: &3u8 }, T::Zed { r#type: ::core::num::NonZeroU8::new(1).unwrap(), y: None, state: &200u8 }, T::Zed { r#type: ::core::num::NonZeroU8::new(1).unwrap(), y: Some(0), state: &3u8 }, T::Zed { r#type: ::core::num::NonZeroU8::new(1).unwrap(), y: Some(0), state: &200u8 }, T::Zed { r#type: ::core::num::NonZeroU8::new(1).unwrap(), y: Some(255), state: &3u8 }, T::Zed { r#type: ::core::num::NonZeroU8::new(1).unwrap(), y: Some(255), state: &200u8 }, T::Zed { r#type: ::core::num::NonZeroU8::new(200).unwrap(), y: None, state: &3u8 }, T::Zed { r#type: ::core::num::NonZeroU8::new(200).unwrap(), y: None, state: &200u8 }, T::Zed { r#type: ::core::num::NonZeroU8::new(200).unwrap(), y: Some(0), state: &3u8 }, T::Zed { r#type: ::core::num::NonZeroU8::new(200).unwrap(), y: Some(0), state: &200u8 }, T::Zed { r#type: ::core::num::NonZeroU8::new(200).unwrap(), y: Some(255), state: &3u8 }, T::Zed { r#type: ::core::num::NonZeroU8::new(200).unwrap(), y: Some(255), state: &200u8 }, T::V1, T::Unit] }
pub fn show(x: &T) -> String { #[allow(unused_variables)] match x { T::Zed { r#type: p0, y: p1, state: p2 } => format!("Zed({},{},{})", sv(p0), sv(p1), sv(p2)), T::V1 => format!("V1()"), T::Unit => format!("Unit()") } }
pub fn o_disc(x: &T) -> i128 { match x { T::Zed { r#type: _, y: _, state: _ } => 0, T::V1 => 1, T::Unit => 2 } }
pub fn o_cmp(a: &T, b: &T) -> Ordering { match (a, b) { (T::Zed { r#type: a0, y: a1, state: a2 }, T::Zed { r#type: b0, y: b1, state: b2 }) => { let c = ::core::cmp::Ord::cmp(a1, b1); if c != Ordering::Equal { return c; } let c = ::core::cmp::Ord::cmp(a2, b2); if c != Ordering::Equal { return c; } let c = ::core::cmp::Ord::cmp(a0, b0); if c != Ordering::Equal { return c; } Ordering::Equal }, (T::V1, T::V1) => {  Ordering::Equal }, (T::Unit, T::Unit) => {  Ordering::Equal }, _ => o_disc(a).cmp(&o_disc(b)) } }
#[repr(C)] pub struct Wrap { pub pre: u8, pub x: T, pub post: [u8; 9] }
pub fn wrap(i: usize, n: u8) -> Wrap { Wrap { pre: n, x: values().swap_remove(i), post: [n; 9] } }
pub fn run(out: &mut Out) { let vs = values(); for (i, a) in vs.iter().enumerate() { for (j, b) in vs.iter().enumerate() { let e = o_cmp(a, b); let g = ::core::cmp::Ord::cmp(a, b); out.check(g == e, "ordlayout_39", "cmp", || format!("cmp({}, {}) = {:?} expected {:?}", show(a), show(b), g, e)); let g2 = ::core::cmp::PartialOrd::partial_cmp(a, b); out.check(g2 == Some(e), "ordlayout_39", "partial_is_some_cmp", || format!("partial_cmp({}, {}) = {:?} expected Some({:?})", show(a), show(b), g2, e)); for n in [0u8, 1, 0x7f, 0x80, 0xff] { let wa = wrap(i, n); let wb = wrap(j, !n); let g = ::core::cmp::Ord::cmp(&wa.x, &wb.x); let e = o_cmp(a, b); out.check(g == e, "ordlayout_39", "cmp_neighbours", || format!("cmp({}, {}) with neighbour bytes {} = {:?} expected {:?}", show(a), show(b), n, g, e)); } } } }
