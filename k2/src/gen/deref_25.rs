// deref_25
#![allow(dead_code, unused_variables, unused_mut, unused_imports, non_shorthand_field_patterns, clippy::all)]
use crate::support::*;
use educe::Educe;
use core::cmp::Ordering;
#[derive(Educe)]
#[educe(Deref)]
pub struct T { r#type: A<2>, #[educe(Deref)] x: A<2> }
pub fn values() -> Vec<T> { vec![T { r#type: A(0), x: A(0) }, T { r#type: A(0), x: A(1) }, T { r#type: A(0), x: A(7) }, T { r#type: A(1), x: A(0) }, T { r#type: A(1), x: A(1) }, T { r#type: A(1), x: A(7) }, T { r#type: A(7), x: A(0) }, T { r#type: A(7), x: A(1) }, T { r#type: A(7), x: A(7) }] }
pub fn show(x: &T) -> String { #[allow(unused_variables)] match x { T { r#type: p0, x: p1 } => format!("T({},{})", sv(p0), sv(p1)) } }
pub fn o_deref(x: &T) -> *const A<2> { match x { T { r#type: _, x: p1 } => p1 as *const A<2> } }
pub fn run(out: &mut Out) { let vs = values(); for a in &vs { let g = ::core::ops::Deref::deref(a) as *const A<2>; let e = o_deref(a); out.check(g == e, "deref_25", "deref", || format!("&*{} has another address than the designated field", show(a))); } }
