// into_99
#![allow(dead_code, unused_variables, unused_mut, unused_imports, non_shorthand_field_patterns, clippy::all)]
use crate::support::*;
use educe::Educe;
use core::cmp::Ordering;
#[derive(Educe)]
#[educe(Into(B<0>))]
pub enum T { Unit(A<0>, #[educe(Into(B<0>))] A<2>, A<3>), A { y: A<1>, #[educe(Into(B<0>))] c: A<2> } }
pub fn values() -> Vec<T> { vec![T::Unit(A(1), A(1), A(7)), T::Unit(A(0), A(1), A(1)), T::Unit(A(0), A(0), A(0)), T::Unit(A(7), A(7), A(7)), T::Unit(A(1), A(1), A(0)), T::Unit(A(0), A(1), A(0)), T::A { y: A(0), c: A(0) }, T::A { y: A(7), c: A(7) }, T::A { y: A(0), c: A(1) }, T::A { y: A(0), c: A(7) }, T::A { y: A(1), c: A(1) }, T::A { y: A(1), c: A(7) }] }
pub fn show(x: &T) -> String { #[allow(unused_variables)] match x { T::Unit(p0, p1, p2) => format!("Unit({},{},{})", sv(p0), sv(p1), sv(p2)), T::A { y: p0, c: p1 } => format!("A({},{})", sv(p0), sv(p1)) } }
pub fn o_into_0(x: T) -> B<0> { match x { T::Unit(_, p1, _) => ::core::convert::Into::into(p1), T::A { y: _, c: p1 } => ::core::convert::Into::into(p1) } }
pub fn run(out: &mut Out) { let n = values().len(); for i in 0..n { let a = values().swap_remove(i); let shown = show(&a); let g: B<0> = ::core::convert::Into::into(a); let e = o_into_0(values().swap_remove(i)); out.check(sv(&g) == sv(&e), "into_99", "into", || format!("Into::<B<0>>::into({}) = {} expected {}", shown, sv(&g), sv(&e))); } }
