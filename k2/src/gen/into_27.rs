// into_27
#![allow(dead_code, unused_variables, unused_mut, unused_imports, non_shorthand_field_patterns, clippy::all)]
use crate::support::*;
use educe::Educe;
use core::cmp::Ordering;
#[derive(Educe)]
#[educe(Into(A<0>))]
#[educe(Into(B<2>))]
#[educe(Into(B<0>))]
pub enum T { None(A<0>, #[educe(Into(A<0>))] #[educe(Into(B<2>))] #[educe(Into(B<0>, method(m_into)))] A<0>), Zed { y: A<0>, #[educe(Into(B<2>))] #[educe(Into(B<0>, method(m_into)))] arg: A<1> }, B(#[educe(Into(B<2>))] #[educe(Into(B<0>))] A<2>, #[educe(Into(A<0>))] A<0>), A { #[educe(Into(A<0>))] state: A<0>, #[educe(Into(B<2>))] #[educe(Into(B<0>))] x: A<0>, builder: A<1> } }
pub fn values() -> Vec<T> { vec![T::None(A(1), A(7)), T::None(A(1), A(1)), T::None(A(7), A(0)), T::Zed { y: A(1), arg: A(1) }, T::Zed { y: A(7), arg: A(0) }, T::Zed { y: A(7), arg: A(7) }, T::B(A(1), A(7)), T::B(A(0), A(1)), T::B(A(7), A(1)), T::A { state: A(7), x: A(7), builder: A(0) }, T::A { state: A(1), x: A(7), builder: A(0) }, T::A { state: A(7), x: A(7), builder: A(1) }] }
pub fn show(x: &T) -> String { #[allow(unused_variables)] match x { T::None(p0, p1) => format!("None({},{})", sv(p0), sv(p1)), T::Zed { y: p0, arg: p1 } => format!("Zed({},{})", sv(p0), sv(p1)), T::B(p0, p1) => format!("B({},{})", sv(p0), sv(p1)), T::A { state: p0, x: p1, builder: p2 } => format!("A({},{},{})", sv(p0), sv(p1), sv(p2)) } }
pub fn o_into_0(x: T) -> A<0> { match x { T::None(_, p1) => p1, T::Zed { y: p0, arg: _ } => p0, T::B(_, p1) => p1, T::A { state: p0, x: _, builder: _ } => p0 } }
pub fn o_into_1(x: T) -> B<2> { match x { T::None(_, p1) => ::core::convert::Into::into(p1), T::Zed { y: _, arg: p1 } => ::core::convert::Into::into(p1), T::B(p0, _) => ::core::convert::Into::into(p0), T::A { state: _, x: p1, builder: _ } => ::core::convert::Into::into(p1) } }
pub fn o_into_2(x: T) -> B<0> { match x { T::None(_, p1) => m_into(p1), T::Zed { y: _, arg: p1 } => m_into(p1), T::B(p0, _) => ::core::convert::Into::into(p0), T::A { state: _, x: p1, builder: _ } => ::core::convert::Into::into(p1) } }
pub fn run(out: &mut Out) { let n = values().len(); for i in 0..n { let a = values().swap_remove(i); let shown = show(&a); let g: A<0> = ::core::convert::Into::into(a); let e = o_into_0(values().swap_remove(i)); out.check(sv(&g) == sv(&e), "into_27", "into", || format!("Into::<A<0>>::into({}) = {} expected {}", shown, sv(&g), sv(&e))); } for i in 0..n { let a = values().swap_remove(i); let shown = show(&a); let g: B<2> = ::core::convert::Into::into(a); let e = o_into_1(values().swap_remove(i)); out.check(sv(&g) == sv(&e), "into_27", "into", || format!("Into::<B<2>>::into({}) = {} expected {}", shown, sv(&g), sv(&e))); } for i in 0..n { let a = values().swap_remove(i); let shown = show(&a); let g: B<0> = ::core::convert::Into::into(a); let e = o_into_2(values().swap_remove(i)); out.check(sv(&g) == sv(&e), "into_27", "into", || format!("Into::<B<0>>::into({}) = {} expected {}", shown, sv(&g), sv(&e))); } }
