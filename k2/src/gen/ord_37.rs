// ord_37
#![allow(dead_code, unused_variables, unused_mut, unused_imports, non_shorthand_field_patterns, clippy::all)]
use crate::support::*;
use core::cmp::Ordering;
pub mod ty {
    #![deny(warnings)]
    #![allow(dead_code, unused_imports, non_snake_case)]
    use crate::support::{A, B, C, Good, Bad, m_eq, m_cmp, m_pcmp, m_hash, m_fmt, m_clone, m_clone_c, m_into, g_eq, g_cmp, g_pcmp, g_hash, g_fmt};
    use educe::Educe;
#[derive(Educe)]
#[repr(isize)]
#[educe(PartialEq, Eq, PartialOrd)]
pub enum T { B() = -1, Some, Unit(#[educe(PartialOrd(ignore))] A<0>, #[educe(PartialOrd(rank = -3))] A<1>) = 70000 }
}
pub use ty::T;

pub fn values() -> Vec<T> { vec![T::B(), T::Some, T::Unit(A(0), A(0)), T::Unit(A(0), A(1)), T::Unit(A(0), A(7)), T::Unit(A(1), A(0)), T::Unit(A(1), A(1)), T::Unit(A(1), A(7)), T::Unit(A(7), A(0)), T::Unit(A(7), A(1)), T::Unit(A(7), A(7))] }
pub fn show(x: &T) -> String { #[allow(unused_variables)] match x { T::B() => format!("B()"), T::Some => format!("Some()"), T::Unit(p0, p1) => format!("Unit({},{})", sv(p0), sv(p1)) } }
pub fn o_disc(x: &T) -> i128 { match x { T::B() => -1, T::Some => 0, T::Unit(_, _) => 70000 } }
pub fn o_pcmp(a: &T, b: &T) -> Option<Ordering> { match (a, b) { (T::B(), T::B()) => {  Some(Ordering::Equal) }, (T::Some, T::Some) => {  Some(Ordering::Equal) }, (T::Unit(a0, a1), T::Unit(b0, b1)) => { match ::core::cmp::PartialOrd::partial_cmp(a1, b1) { Some(Ordering::Equal) => (), x => return x } Some(Ordering::Equal) }, _ => Some(o_disc(a).cmp(&o_disc(b))) } }
pub fn run(out: &mut Out) { let vs = values(); for (i, a) in vs.iter().enumerate() { for (j, b) in vs.iter().enumerate() { let e = o_pcmp(a, b); let g = ::core::cmp::PartialOrd::partial_cmp(a, b); out.check(g == e, "ord_37", "partial_cmp", || format!("partial_cmp({}, {}) = {:?} expected {:?}", show(a), show(b), g, e)); } } }
