// ord_37
#![allow(dead_code, unused_variables, unused_mut, unused_imports, non_shorthand_field_patterns, clippy::all)]
use crate::support::*;
use educe::Educe;
use core::cmp::Ordering;
#[derive(Educe)]
#[educe(Eq, PartialOrd, PartialEq)]
pub struct T { #[educe(PartialOrd(ignore))] state: A<0>, a: A<1> }

pub fn values() -> Vec<T> { vec![T { state: A(0), a: A(0) }, T { state: A(0), a: A(1) }, T { state: A(0), a: A(7) }, T { state: A(1), a: A(0) }, T { state: A(1), a: A(1) }, T { state: A(1), a: A(7) }, T { state: A(7), a: A(0) }, T { state: A(7), a: A(1) }, T { state: A(7), a: A(7) }] }
pub fn show(x: &T) -> String { #[allow(unused_variables)] match x { T { state: p0, a: p1 } => format!("T({},{})", sv(p0), sv(p1)) } }
pub fn o_disc(x: &T) -> i128 { match x { T { state: _, a: _ } => 0 } }
pub fn o_pcmp(a: &T, b: &T) -> Option<Ordering> { match (a, b) { (T { state: a0, a: a1 }, T { state: b0, a: b1 }) => { match ::core::cmp::PartialOrd::partial_cmp(a1, b1) { Some(Ordering::Equal) => (), x => return x } Some(Ordering::Equal) } } }
pub fn run(out: &mut Out) { let vs = values(); for (i, a) in vs.iter().enumerate() { for (j, b) in vs.iter().enumerate() { let e = o_pcmp(a, b); let g = ::core::cmp::PartialOrd::partial_cmp(a, b); out.check(g == e, "ord_37", "partial_cmp", || format!("partial_cmp({}, {}) = {:?} expected {:?}", show(a), show(b), g, e)); } } }
