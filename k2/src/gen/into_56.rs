// into_56
#![allow(dead_code, unused_variables, unused_mut, unused_imports, non_shorthand_field_patterns, clippy::all)]
use crate::support::*;
use educe::Educe;
use core::cmp::Ordering;
#[derive(Educe)]
#[educe(Into(B<0>))]
pub enum T { None(A<2>, #[educe(Into(B<0>, method(m_into)))] A<2>), Zed(#[educe(Into(B<0>))] A<0>), V1 { data: A<1>, #[educe(Into(B<0>))] a: A<3> }, B { _0: A<2>, #[educe(Into(B<0>, method = "m_into"))] size: A<0>, x: A<2> } }
pub fn values() -> Vec<T> { vec![T::None(A(0), A(0)), T::None(A(7), A(1)), T::None(A(7), A(0)), T::Zed(A(0)), T::Zed(A(1)), T::Zed(A(7)), T::V1 { data: A(7), a: A(7) }, T::V1 { data: A(7), a: A(1) }, T::V1 { data: A(0), a: A(7) }, T::B { _0: A(7), size: A(7), x: A(1) }, T::B { _0: A(0), size: A(7), x: A(0) }, T::B { _0: A(1), size: A(0), x: A(1) }] }
pub fn show(x: &T) -> String { #[allow(unused_variables)] match x { T::None(p0, p1) => format!("None({},{})", sv(p0), sv(p1)), T::Zed(p0) => format!("Zed({})", sv(p0)), T::V1 { data: p0, a: p1 } => format!("V1({},{})", sv(p0), sv(p1)), T::B { _0: p0, size: p1, x: p2 } => format!("B({},{},{})", sv(p0), sv(p1), sv(p2)) } }
pub fn o_into_0(x: T) -> B<0> { match x { T::None(_, p1) => m_into(p1), T::Zed(p0) => ::core::convert::Into::into(p0), T::V1 { data: _, a: p1 } => ::core::convert::Into::into(p1), T::B { _0: _, size: p1, x: _ } => m_into(p1) } }
pub fn run(out: &mut Out) { let n = values().len(); for i in 0..n { let a = values().swap_remove(i); let shown = show(&a); let g: B<0> = ::core::convert::Into::into(a); let e = o_into_0(values().swap_remove(i)); out.check(sv(&g) == sv(&e), "into_56", "into", || format!("Into::<B<0>>::into({}) = {} expected {}", shown, sv(&g), sv(&e))); } }
