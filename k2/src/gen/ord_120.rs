// ord_120
#![allow(dead_code, unused_variables, unused_mut, unused_imports, non_shorthand_field_patterns, clippy::all)]
use crate::support::*;
use core::cmp::Ordering;
pub mod ty {
    #![deny(warnings)]
    #![allow(dead_code, unused_imports, non_snake_case)]
    use crate::support::{A, B, C, Good, Bad, m_eq, m_cmp, m_pcmp, m_hash, m_fmt, m_clone, m_clone_c, m_into, g_eq, g_cmp, g_pcmp, g_hash, g_fmt};
    use educe::Educe;
#[derive(Educe)]
#[educe(Eq, PartialEq, PartialOrd)]
pub struct T { #[educe(PartialOrd(rank = -6))] pub state: A<0>, #[educe(PartialOrd(rank("3"), ignore = false))] pub x: A<0>, pub self_data: A<0> }
}
pub use ty::T;

pub fn values() -> Vec<T> { vec![T { state: A(0), x: A(0), self_data: A(0) }, T { state: A(0), x: A(0), self_data: A(1) }, T { state: A(0), x: A(0), self_data: A(7) }, T { state: A(0), x: A(1), self_data: A(0) }, T { state: A(0), x: A(1), self_data: A(1) }, T { state: A(0), x: A(1), self_data: A(7) }, T { state: A(0), x: A(7), self_data: A(0) }, T { state: A(0), x: A(7), self_data: A(1) }, T { state: A(0), x: A(7), self_data: A(7) }, T { state: A(1), x: A(0), self_data: A(0) }, T { state: A(1), x: A(0), self_data: A(1) }, T { state: A(1), x: A(0), self_data: A(7) }, T { state: A(1), x: A(1), self_data: A(0) }, T { state: A(1), x: A(1), self_data: A(1) }, T { state: A(1), x: A(1), self_data: A(7) }, T { state: A(1), x: A(7), self_data: A(0) }, T { state: A(1), x: A(7), self_data: A(1) }, T { state: A(1), x: A(7), self_data: A(7) }, T { state: A(7), x: A(0), self_data: A(0) }, T { state: A(7), x: A(0), self_data: A(1) }, T { state: A(7), x: A(0), self_data: A(7) }, T { state: A(7), x: A(1), self_data: A(0) }, T { state: A(7), x: A(1), self_data: A(1) }, T { state: A(7), x: A(1), self_data: A(7) }, T { state: A(7), x: A(7), self_data: A(0) }, T { state: A(7), x: A(7), self_data: A(1) }, T { state: A(7), x: A(7), self_data: A(7) }] }
pub fn show(x: &T) -> String { #[allow(unused_variables)] match x { T { state: p0, x: p1, self_data: p2 } => format!("T({},{},{})", sv(p0), sv(p1), sv(p2)) } }
pub fn o_disc(x: &T) -> i128 { match x { T { state: _, x: _, self_data: _ } => 0 } }
pub fn o_pcmp(a: &T, b: &T) -> Option<Ordering> { match (a, b) { (T { state: a0, x: a1, self_data: a2 }, T { state: b0, x: b1, self_data: b2 }) => { match ::core::cmp::PartialOrd::partial_cmp(a2, b2) { Some(Ordering::Equal) => (), x => return x } match ::core::cmp::PartialOrd::partial_cmp(a0, b0) { Some(Ordering::Equal) => (), x => return x } match ::core::cmp::PartialOrd::partial_cmp(a1, b1) { Some(Ordering::Equal) => (), x => return x } Some(Ordering::Equal) } } }
pub fn run(out: &mut Out) { let vs = values(); for (i, a) in vs.iter().enumerate() { for (j, b) in vs.iter().enumerate() { let e = o_pcmp(a, b); let g = ::core::cmp::PartialOrd::partial_cmp(a, b); out.check(g == e, "ord_120", "partial_cmp", || format!("partial_cmp({}, {}) = {:?} expected {:?}", show(a), show(b), g, e)); } } }
