// ord_120
#![allow(dead_code, unused_variables, unused_mut, unused_imports, non_shorthand_field_patterns, clippy::all)]
use crate::support::*;
use educe::Educe;
use core::cmp::Ordering;
#[derive(Educe)]
#[educe(PartialEq, PartialOrd, Eq)]
pub enum T { None(#[educe(PartialOrd(method(m_pcmp), rank = 7i64))] A<0>, A<0>) }

pub fn values() -> Vec<T> { vec![T::None(A(0), A(0)), T::None(A(0), A(1)), T::None(A(0), A(7)), T::None(A(1), A(0)), T::None(A(1), A(1)), T::None(A(1), A(7)), T::None(A(7), A(0)), T::None(A(7), A(1)), T::None(A(7), A(7))] }
pub fn show(x: &T) -> String { #[allow(unused_variables)] match x { T::None(p0, p1) => format!("None({},{})", sv(p0), sv(p1)) } }
pub fn o_disc(x: &T) -> i128 { match x { T::None(_, _) => 0 } }
pub fn o_pcmp(a: &T, b: &T) -> Option<Ordering> { match (a, b) { (T::None(a0, a1), T::None(b0, b1)) => { match ::core::cmp::PartialOrd::partial_cmp(a1, b1) { Some(Ordering::Equal) => (), x => return x } match m_pcmp(a0, b0) { Some(Ordering::Equal) => (), x => return x } Some(Ordering::Equal) } } }
pub fn run(out: &mut Out) { let vs = values(); for (i, a) in vs.iter().enumerate() { for (j, b) in vs.iter().enumerate() { let e = o_pcmp(a, b); let g = ::core::cmp::PartialOrd::partial_cmp(a, b); out.check(g == e, "ord_120", "partial_cmp", || format!("partial_cmp({}, {}) = {:?} expected {:?}", show(a), show(b), g, e)); } } }
