// eq_36
#![allow(dead_code, unused_variables, unused_mut, unused_imports, non_shorthand_field_patterns, clippy::all)]
use crate::support::*;
use educe::Educe;
use core::cmp::Ordering;
#[derive(Educe)]
#[educe(PartialEq)]
pub enum T { V1 {  }, A { state: A<0>, #[educe(PartialEq(ignore))] x: A<0>, #[educe(PartialEq = false)] source: A<2> } }
pub fn values() -> Vec<T> { vec![T::V1 {  }, T::A { state: A(1), x: A(0), source: A(1) }, T::A { state: A(7), x: A(7), source: A(0) }, T::A { state: A(1), x: A(0), source: A(0) }, T::A { state: A(1), x: A(7), source: A(1) }, T::A { state: A(0), x: A(1), source: A(7) }, T::A { state: A(7), x: A(0), source: A(1) }, T::A { state: A(0), x: A(0), source: A(1) }, T::A { state: A(1), x: A(1), source: A(1) }, T::A { state: A(7), x: A(7), source: A(1) }, T::A { state: A(7), x: A(1), source: A(7) }, T::A { state: A(1), x: A(0), source: A(7) }, T::A { state: A(1), x: A(7), source: A(7) }, T::A { state: A(7), x: A(1), source: A(0) }, T::A { state: A(0), x: A(7), source: A(1) }, T::A { state: A(7), x: A(7), source: A(7) }, T::A { state: A(1), x: A(1), source: A(7) }, T::A { state: A(0), x: A(1), source: A(1) }, T::A { state: A(0), x: A(1), source: A(0) }, T::A { state: A(7), x: A(0), source: A(0) }, T::A { state: A(1), x: A(1), source: A(0) }, T::A { state: A(0), x: A(0), source: A(7) }, T::A { state: A(1), x: A(7), source: A(0) }, T::A { state: A(7), x: A(0), source: A(7) }, T::A { state: A(0), x: A(7), source: A(0) }] }
pub fn show(x: &T) -> String { #[allow(unused_variables)] match x { T::V1 {  } => format!("V1()"), T::A { state: p0, x: p1, source: p2 } => format!("A({},{},{})", sv(p0), sv(p1), sv(p2)) } }
pub fn o_eq(a: &T, b: &T) -> bool { match (a, b) { (T::V1 {  }, T::V1 {  }) => true, (T::A { state: a0, x: a1, source: a2 }, T::A { state: b0, x: b1, source: b2 }) => (a0 == b0), _ => false } }
pub fn run(out: &mut Out) { let vs = values(); for a in &vs { for b in &vs { let e = o_eq(a, b); out.check((a == b) == e, "eq_36", "eq", || format!("{} == {} expected {}", show(a), show(b), e)); out.check((a != b) == !e, "eq_36", "ne", || format!("{} != {} expected {}", show(a), show(b), !e)); } } }
