// eq_49
#![allow(dead_code, unused_variables, unused_mut, unused_imports, non_shorthand_field_patterns, clippy::all)]
use crate::support::*;
use educe::Educe;
use core::cmp::Ordering;
#[derive(Educe)]
#[educe(PartialEq)]
pub enum T { Unit(), B }
pub fn values() -> Vec<T> { vec![T::Unit(), T::B] }
pub fn show(x: &T) -> String { #[allow(unused_variables)] match x { T::Unit() => format!("Unit()"), T::B => format!("B()") } }
pub fn o_eq(a: &T, b: &T) -> bool { match (a, b) { (T::Unit(), T::Unit()) => true, (T::B, T::B) => true, _ => false } }
pub fn run(out: &mut Out) { let vs = values(); for a in &vs { for b in &vs { let e = o_eq(a, b); out.check((a == b) == e, "eq_49", "eq", || format!("{} == {} expected {}", show(a), show(b), e)); out.check((a != b) == !e, "eq_49", "ne", || format!("{} != {} expected {}", show(a), show(b), !e)); } } }
