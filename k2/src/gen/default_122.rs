// default_122
#![allow(dead_code, unused_variables, unused_mut, unused_imports, non_shorthand_field_patterns, clippy::all)]
use crate::support::*;
use educe::Educe;
use core::cmp::Ordering;
#[derive(Educe)]
#[educe(Default)]
pub enum T { C { size: String, source: i128, x: u16 }, A { f: u8 }, V1 {  }, #[educe(Default)] Unit(String) }
pub fn show(x: &T) -> String { #[allow(unused_variables)] match x { T::C { size: p0, source: p1, x: p2 } => format!("C({},{},{})", sv(p0), sv(p1), sv(p2)), T::A { f: p0 } => format!("A({})", sv(p0)), T::V1 {  } => format!("V1()"), T::Unit(p0) => format!("Unit({})", sv(p0)) } }
pub fn o_default() -> T { T::Unit(String::new()) }
pub fn run(out: &mut Out) { let g = <T as ::core::default::Default>::default(); let e = o_default(); out.check(show(&g) == show(&e), "default_122", "default", || format!("default() = {} expected {}", show(&g), show(&e))); }
