// ord_77
#![allow(dead_code, unused_variables, unused_mut, unused_imports, non_shorthand_field_patterns, clippy::all)]
use crate::support::*;
use educe::Educe;
use core::cmp::Ordering;
#[derive(Educe)]
#[educe(PartialEq, Ord, Eq)]
pub enum T { Zed }
impl PartialOrd for T { fn partial_cmp(&self, o: &Self) -> Option<Ordering> { Some(::core::cmp::Ord::cmp(self, o)) } }
pub fn values() -> Vec<T> { vec![T::Zed] }
pub fn show(x: &T) -> String { #[allow(unused_variables)] match x { T::Zed => format!("Zed()") } }
pub fn o_disc(x: &T) -> i128 { match x { T::Zed => 0 } }
pub fn o_cmp(a: &T, b: &T) -> Ordering { match (a, b) { (T::Zed, T::Zed) => {  Ordering::Equal } } }
pub fn run(out: &mut Out) { let vs = values(); for (i, a) in vs.iter().enumerate() { for (j, b) in vs.iter().enumerate() { let e = o_cmp(a, b); let g = ::core::cmp::Ord::cmp(a, b); out.check(g == e, "ord_77", "cmp", || format!("cmp({}, {}) = {:?} expected {:?}", show(a), show(b), g, e)); } } }
