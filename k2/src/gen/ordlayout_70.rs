// ordlayout_70
#![allow(dead_code, unused_variables, unused_mut, unused_imports, non_shorthand_field_patterns, clippy::all)]
use crate::support::*;
use educe::Educe;
use core::cmp::Ordering;
#[derive(Educe)]
#[educe(PartialEq, PartialOrd, Eq)]
pub enum T { V1, None { builder: u8, c: char } }

pub fn values() -> Vec<T> { vec![T::V1, T::None { builder: 0, c: 'a' }, T::None { builder: 0, c: 'z' }, T::None { builder: 100, c: 'a' }, T::None { builder: 100, c: 'z' }, T::None { builder: 200, c: 'a' }, T::None { builder: 200, c: 'z' }] }
pub fn show(x: &T) -> String { #[allow(unused_variables)] match x { T::V1 => format!("V1()"), T::None { builder: p0, c: p1 } => format!("None({},{})", sv(p0), sv(p1)) } }
pub fn o_disc(x: &T) -> i128 { match x { T::V1 => 0, T::None { builder: _, c: _ } => 1 } }
pub fn o_pcmp(a: &T, b: &T) -> Option<Ordering> { match (a, b) { (T::V1, T::V1) => {  Some(Ordering::Equal) }, (T::None { builder: a0, c: a1 }, T::None { builder: b0, c: b1 }) => { match ::core::cmp::PartialOrd::partial_cmp(a0, b0) { Some(Ordering::Equal) => (), x => return x } match ::core::cmp::PartialOrd::partial_cmp(a1, b1) { Some(Ordering::Equal) => (), x => return x } Some(Ordering::Equal) }, _ => Some(o_disc(a).cmp(&o_disc(b))) } }
#[repr(C)] pub struct Wrap { pub pre: u8, pub x: T, pub post: [u8; 9] }
pub fn wrap(i: usize, n: u8) -> Wrap { Wrap { pre: n, x: values().swap_remove(i), post: [n; 9] } }
pub fn run(out: &mut Out) { let vs = values(); for (i, a) in vs.iter().enumerate() { for (j, b) in vs.iter().enumerate() { let e = o_pcmp(a, b); let g = ::core::cmp::PartialOrd::partial_cmp(a, b); out.check(g == e, "ordlayout_70", "partial_cmp", || format!("partial_cmp({}, {}) = {:?} expected {:?}", show(a), show(b), g, e)); for n in [0u8, 1, 0x7f, 0x80, 0xff] { let wa = wrap(i, n); let wb = wrap(j, !n); let g = ::core::cmp::PartialOrd::partial_cmp(&wa.x, &wb.x); let e = o_pcmp(a, b); out.check(g == e, "ordlayout_70", "cmp_neighbours", || format!("cmp({}, {}) with neighbour bytes {} = {:?} expected {:?}", show(a), show(b), n, g, e)); } } } }
