// ordlayout_70
#![allow(dead_code, unused_variables, unused_mut, unused_imports, non_shorthand_field_patterns, clippy::all)]
use crate::support::*;
use core::cmp::Ordering;
pub mod ty {
    #![deny(warnings)]
    #![allow(dead_code, unused_imports, non_snake_case)]
    use crate::support::{A, B, C, Good, Bad, m_eq, m_cmp, m_pcmp, m_hash, m_fmt, m_clone, m_clone_c, m_into, g_eq, g_cmp, g_pcmp, g_hash, g_fmt};
    use educe::Educe;
#[derive(Educe)]
#[educe(PartialEq, Eq, PartialOrd)]
#[educe(Debug)]
pub enum T { V1 { #[educe(Debug(ignore))] b: char, #[educe(Debug(ignore = false))] #[educe(PartialOrd(rank("0"), ignore = false))] _b: () }, Unit, Some {  } }
}
pub use ty::T;

pub fn values() -> Vec<T> { vec![T::V1 { b: 'a', _b: () }, T::V1 { b: 'z', _b: () }, T::Unit, T::Some {  }] }
pub fn show(x: &T) -> String { #[allow(unused_variables)] match x { T::V1 { b: p0, _b: p1 } => format!("V1({},{})", sv(p0), sv(p1)), T::Unit => format!("Unit()"), T::Some {  } => format!("Some()") } }
pub fn o_disc(x: &T) -> i128 { match x { T::V1 { b: _, _b: _ } => 0, T::Unit => 1, T::Some {  } => 2 } }
pub fn o_pcmp(a: &T, b: &T) -> Option<Ordering> { match (a, b) { (T::V1 { b: a0, _b: a1 }, T::V1 { b: b0, _b: b1 }) => { match ::core::cmp::PartialOrd::partial_cmp(a0, b0) { Some(Ordering::Equal) => (), x => return x } match ::core::cmp::PartialOrd::partial_cmp(a1, b1) { Some(Ordering::Equal) => (), x => return x } Some(Ordering::Equal) }, (T::Unit, T::Unit) => {  Some(Ordering::Equal) }, (T::Some {  }, T::Some {  }) => {  Some(Ordering::Equal) }, _ => Some(o_disc(a).cmp(&o_disc(b))) } }
#[repr(C)] pub struct Wrap { pub pre: u8, pub x: T, pub post: [u8; 9] }
pub fn wrap(i: usize, n: u8) -> Wrap { Wrap { pre: n, x: values().swap_remove(i), post: [n; 9] } }
pub fn run(out: &mut Out) { let vs = values(); for (i, a) in vs.iter().enumerate() { for (j, b) in vs.iter().enumerate() { let e = o_pcmp(a, b); let g = ::core::cmp::PartialOrd::partial_cmp(a, b); out.check(g == e, "ordlayout_70", "partial_cmp", || format!("partial_cmp({}, {}) = {:?} expected {:?}", show(a), show(b), g, e)); for n in [0u8, 1, 0x7f, 0x80, 0xff] { let wa = wrap(i, n); let wb = wrap(j, !n); let g = ::core::cmp::PartialOrd::partial_cmp(&wa.x, &wb.x); let e = o_pcmp(a, b); out.check(g == e, "ordlayout_70", "cmp_neighbours", || format!("cmp({}, {}) with neighbour bytes {} = {:?} expected {:?}", show(a), show(b), n, g, e)); } } } }
