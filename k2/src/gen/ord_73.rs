// ord_73
#![allow(dead_code, unused_variables, unused_mut, unused_imports, non_shorthand_field_patterns, clippy::all)]
use crate::support::*;
use core::cmp::Ordering;
pub mod ty {
    #![deny(warnings)]
    #![allow(dead_code, unused_imports, non_snake_case)]
    use crate::support::{A, B, C, Good, Bad, m_eq, m_cmp, m_pcmp, m_hash, m_fmt, m_clone, m_clone_c, m_into, g_eq, g_cmp, g_pcmp, g_hash, g_fmt};
    use educe::Educe;
#[derive(Educe)]
#[educe(Debug)]
#[educe(PartialOrd, PartialEq, Eq)]
pub enum T { Unit(#[educe(PartialOrd(rank = "-5", ignore(false)))] A<0>, #[educe(Debug(ignore = false), PartialOrd(method(m_pcmp), rank(-6)))] A<0>, #[educe(Debug(ignore = true), PartialOrd(rank("0")))] A<0>, #[educe(Debug(ignore))] A<3>), B(#[educe(Debug(ignore = false), PartialOrd(rank = "-1"))] A<0>, #[educe(PartialOrd(ignore))] A<1>), V1(A<0>), C }
}
pub use ty::T;

pub fn values() -> Vec<T> { vec![T::Unit(A(1), A(0), A(0), A(0)), T::Unit(A(7), A(7), A(1), A(1)), T::Unit(A(7), A(1), A(1), A(0)), T::Unit(A(7), A(0), A(7), A(1)), T::Unit(A(0), A(7), A(1), A(0)), T::Unit(A(1), A(0), A(7), A(1)), T::Unit(A(0), A(1), A(0), A(7)), T::Unit(A(1), A(0), A(1), A(0)), T::Unit(A(7), A(0), A(7), A(0)), T::B(A(0), A(0)), T::B(A(0), A(1)), T::B(A(0), A(7)), T::B(A(1), A(0)), T::B(A(1), A(1)), T::B(A(1), A(7)), T::B(A(7), A(0)), T::B(A(7), A(1)), T::B(A(7), A(7)), T::V1(A(0)), T::V1(A(1)), T::V1(A(7)), T::C] }
pub fn show(x: &T) -> String { #[allow(unused_variables)] match x { T::Unit(p0, p1, p2, p3) => format!("Unit({},{},{},{})", sv(p0), sv(p1), sv(p2), sv(p3)), T::B(p0, p1) => format!("B({},{})", sv(p0), sv(p1)), T::V1(p0) => format!("V1({})", sv(p0)), T::C => format!("C()") } }
pub fn o_disc(x: &T) -> i128 { match x { T::Unit(_, _, _, _) => 0, T::B(_, _) => 1, T::V1(_) => 2, T::C => 3 } }
pub fn o_pcmp(a: &T, b: &T) -> Option<Ordering> { match (a, b) { (T::Unit(a0, a1, a2, a3), T::Unit(b0, b1, b2, b3)) => { match ::core::cmp::PartialOrd::partial_cmp(a3, b3) { Some(Ordering::Equal) => (), x => return x } match m_pcmp(a1, b1) { Some(Ordering::Equal) => (), x => return x } match ::core::cmp::PartialOrd::partial_cmp(a0, b0) { Some(Ordering::Equal) => (), x => return x } match ::core::cmp::PartialOrd::partial_cmp(a2, b2) { Some(Ordering::Equal) => (), x => return x } Some(Ordering::Equal) }, (T::B(a0, a1), T::B(b0, b1)) => { match ::core::cmp::PartialOrd::partial_cmp(a0, b0) { Some(Ordering::Equal) => (), x => return x } Some(Ordering::Equal) }, (T::V1(a0), T::V1(b0)) => { match ::core::cmp::PartialOrd::partial_cmp(a0, b0) { Some(Ordering::Equal) => (), x => return x } Some(Ordering::Equal) }, (T::C, T::C) => {  Some(Ordering::Equal) }, _ => Some(o_disc(a).cmp(&o_disc(b))) } }
pub fn run(out: &mut Out) { let vs = values(); for (i, a) in vs.iter().enumerate() { for (j, b) in vs.iter().enumerate() { let e = o_pcmp(a, b); let g = ::core::cmp::PartialOrd::partial_cmp(a, b); out.check(g == e, "ord_73", "partial_cmp", || format!("partial_cmp({}, {}) = {:?} expected {:?}", show(a), show(b), g, e)); } } }
