// ord_73
#![allow(dead_code, unused_variables, unused_mut, unused_imports, non_shorthand_field_patterns, clippy::all)]
use crate::support::*;
use educe::Educe;
use core::cmp::Ordering;
#[derive(Educe)]
#[repr(i64)]
#[educe(PartialEq, PartialOrd, Eq)]
pub enum T { Unit { #[educe(PartialOrd(rank = 5i64))] b: A<0>, #[educe(PartialOrd(method = "m_pcmp", rank(4)))] state: A<0>, other: A<0> }, Some }

pub fn values() -> Vec<T> { vec![T::Unit { b: A(7), state: A(0), other: A(1) }, T::Unit { b: A(0), state: A(1), other: A(1) }, T::Unit { b: A(1), state: A(0), other: A(7) }, T::Unit { b: A(7), state: A(7), other: A(0) }, T::Unit { b: A(0), state: A(0), other: A(0) }, T::Unit { b: A(7), state: A(7), other: A(1) }, T::Unit { b: A(7), state: A(0), other: A(7) }, T::Unit { b: A(1), state: A(0), other: A(1) }, T::Unit { b: A(7), state: A(1), other: A(0) }, T::Unit { b: A(1), state: A(7), other: A(7) }, T::Unit { b: A(1), state: A(1), other: A(0) }, T::Unit { b: A(1), state: A(7), other: A(1) }, T::Unit { b: A(1), state: A(1), other: A(7) }, T::Unit { b: A(7), state: A(0), other: A(0) }, T::Unit { b: A(7), state: A(7), other: A(7) }, T::Unit { b: A(1), state: A(7), other: A(0) }, T::Unit { b: A(0), state: A(7), other: A(1) }, T::Unit { b: A(1), state: A(1), other: A(1) }, T::Some] }
pub fn show(x: &T) -> String { #[allow(unused_variables)] match x { T::Unit { b: p0, state: p1, other: p2 } => format!("Unit({},{},{})", sv(p0), sv(p1), sv(p2)), T::Some => format!("Some()") } }
pub fn o_disc(x: &T) -> i128 { match x { T::Unit { b: _, state: _, other: _ } => 0, T::Some => 1 } }
pub fn o_pcmp(a: &T, b: &T) -> Option<Ordering> { match (a, b) { (T::Unit { b: a0, state: a1, other: a2 }, T::Unit { b: b0, state: b1, other: b2 }) => { match ::core::cmp::PartialOrd::partial_cmp(a2, b2) { Some(Ordering::Equal) => (), x => return x } match m_pcmp(a1, b1) { Some(Ordering::Equal) => (), x => return x } match ::core::cmp::PartialOrd::partial_cmp(a0, b0) { Some(Ordering::Equal) => (), x => return x } Some(Ordering::Equal) }, (T::Some, T::Some) => {  Some(Ordering::Equal) }, _ => Some(o_disc(a).cmp(&o_disc(b))) } }
pub fn run(out: &mut Out) { let vs = values(); for (i, a) in vs.iter().enumerate() { for (j, b) in vs.iter().enumerate() { let e = o_pcmp(a, b); let g = ::core::cmp::PartialOrd::partial_cmp(a, b); out.check(g == e, "ord_73", "partial_cmp", || format!("partial_cmp({}, {}) = {:?} expected {:?}", show(a), show(b), g, e)); } } }
