// into_59
#![allow(dead_code, unused_variables, unused_mut, unused_imports, non_shorthand_field_patterns, clippy::all)]
use crate::support::*;
use educe::Educe;
use core::cmp::Ordering;
#[derive(Educe)]
#[educe(Into(A<1>))]
pub enum T { B(#[educe(Into(A<1>))] A<1>, A<3>, A<3>), None { #[educe(Into(A<1>))] a: A<1>, other: A<1> }, Some { data: A<1>, #[educe(Into(A<1>))] size: A<1> } }
pub fn values() -> Vec<T> { vec![T::B(A(7), A(1), A(1)), T::B(A(1), A(0), A(1)), T::B(A(1), A(1), A(0)), T::B(A(0), A(0), A(1)), T::None { a: A(1), other: A(0) }, T::None { a: A(1), other: A(1) }, T::None { a: A(0), other: A(0) }, T::None { a: A(0), other: A(1) }, T::Some { data: A(7), size: A(1) }, T::Some { data: A(7), size: A(0) }, T::Some { data: A(0), size: A(1) }, T::Some { data: A(1), size: A(0) }] }
pub fn show(x: &T) -> String { #[allow(unused_variables)] match x { T::B(p0, p1, p2) => format!("B({},{},{})", sv(p0), sv(p1), sv(p2)), T::None { a: p0, other: p1 } => format!("None({},{})", sv(p0), sv(p1)), T::Some { data: p0, size: p1 } => format!("Some({},{})", sv(p0), sv(p1)) } }
pub fn o_into_0(x: T) -> A<1> { match x { T::B(p0, _, _) => p0, T::None { a: p0, other: _ } => p0, T::Some { data: _, size: p1 } => p1 } }
pub fn run(out: &mut Out) { let n = values().len(); for i in 0..n { let a = values().swap_remove(i); let shown = show(&a); let g: A<1> = ::core::convert::Into::into(a); let e = o_into_0(values().swap_remove(i)); out.check(sv(&g) == sv(&e), "into_59", "into", || format!("Into::<A<1>>::into({}) = {} expected {}", shown, sv(&g), sv(&e))); } }
