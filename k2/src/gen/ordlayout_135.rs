// ordlayout_135
#![allow(dead_code, unused_variables, unused_mut, unused_imports, non_shorthand_field_patterns, clippy::all)]
use crate::support::*;
use educe::Educe;
use core::cmp::Ordering;
#[derive(Educe)]
#[repr(i32)]
#[educe(PartialEq, PartialOrd, Ord, Eq)]
pub enum T { None { f: i64, #[educe(Ord(rank = "8"))] state: &'static u8 } = 2, C = 3, A = -5, Zed(#[educe(Ord(rank = "0"))] &'static u8, #[educe(Ord(rank = "+3"))] ()) = 127 }

pub fn values() -> Vec<T> { vec![T::None { f: -5, state: &3u8 }, T::None { f: -5, state: &200u8 }, T::None { f: 0, state: &3u8 }, T::None { f: 0, state: &200u8 }, T::None { f: 9, state: &3u8 }, T::None { f: 9, state: &200u8 }, T::C, T::A, T::Zed(&3u8, ()), T::Zed(&200u8, ())] }
pub fn show(x: &T) -> String { #[allow(unused_variables)] match x { T::None { f: p0, state: p1 } => format!("None({},{})", sv(p0), sv(p1)), T::C => format!("C()"), T::A => format!("A()"), T::Zed(p0, p1) => format!("Zed({},{})", sv(p0), sv(p1)) } }
pub fn o_disc(x: &T) -> i128 { match x { T::None { f: _, state: _ } => 2, T::C => 3, T::A => -5, T::Zed(_, _) => 127 } }
pub fn o_cmp(a: &T, b: &T) -> Ordering { match (a, b) { (T::None { f: a0, state: a1 }, T::None { f: b0, state: b1 }) => { let c = ::core::cmp::Ord::cmp(a0, b0); if c != Ordering::Equal { return c; } let c = ::core::cmp::Ord::cmp(a1, b1); if c != Ordering::Equal { return c; } Ordering::Equal }, (T::C, T::C) => {  Ordering::Equal }, (T::A, T::A) => {  Ordering::Equal }, (T::Zed(a0, a1), T::Zed(b0, b1)) => { let c = ::core::cmp::Ord::cmp(a0, b0); if c != Ordering::Equal { return c; } let c = ::core::cmp::Ord::cmp(a1, b1); if c != Ordering::Equal { return c; } Ordering::Equal }, _ => o_disc(a).cmp(&o_disc(b)) } }
#[repr(C)] pub struct Wrap { pub pre: u8, pub x: T, pub post: [u8; 9] }
pub fn wrap(i: usize, n: u8) -> Wrap { Wrap { pre: n, x: values().swap_remove(i), post: [n; 9] } }
pub fn run(out: &mut Out) { let vs = values(); for (i, a) in vs.iter().enumerate() { for (j, b) in vs.iter().enumerate() { let e = o_cmp(a, b); let g = ::core::cmp::Ord::cmp(a, b); out.check(g == e, "ordlayout_135", "cmp", || format!("cmp({}, {}) = {:?} expected {:?}", show(a), show(b), g, e)); let g2 = ::core::cmp::PartialOrd::partial_cmp(a, b); out.check(g2 == Some(e), "ordlayout_135", "partial_is_some_cmp", || format!("partial_cmp({}, {}) = {:?} expected Some({:?})", show(a), show(b), g2, e)); for n in [0u8, 1, 0x7f, 0x80, 0xff] { let wa = wrap(i, n); let wb = wrap(j, !n); let g = ::core::cmp::Ord::cmp(&wa.x, &wb.x); let e = o_cmp(a, b); out.check(g == e, "ordlayout_135", "cmp_neighbours", || format!("cmp({}, {}) with neighbour bytes {} = {:?} expected {:?}", show(a), show(b), n, g, e)); } } } }
