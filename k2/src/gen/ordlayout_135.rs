// ordlayout_135
#![allow(dead_code, unused_variables, unused_mut, unused_imports, non_shorthand_field_patterns, clippy::all)]
use crate::support::*;
use core::cmp::Ordering;
pub mod ty {
    #![deny(warnings)]
    #![allow(dead_code, unused_imports, non_snake_case)]
    use crate::support::{A, B, C, Good, Bad, m_eq, m_cmp, m_pcmp, m_hash, m_fmt, m_clone, m_clone_c, m_into, g_eq, g_cmp, g_pcmp, g_hash, g_fmt};
    use educe::Educe;
#[derive(Educe)]
#[educe(Eq, PartialEq, PartialOrd)]
pub enum T { None(char, #[educe(PartialOrd(rank(-4)))] bool), B { source: ::core::num::NonZeroU8, x: u8, builder: Option<u8> } }
}
pub use ty::T;

pub fn values() -> Vec<T> { vec![T::None('a', false), T::None('a', true), T::None('z', false), T::None('z', true), T::B { source: ::core::num::NonZeroU8::new(1).unwrap(), x: 0, builder: None }, T::B { source: ::core::num::NonZeroU8::new(1).unwrap(), x: 0, builder: Some(0) }, T::B { source: ::core::num::NonZeroU8::new(1).unwrap(), x: 0, builder: Some(255) }, T::B { source: ::core::num::NonZeroU8::new(1).unwrap(), x: 100, builder: None }, T::B { source: ::core::num::NonZeroU8::new(1).unwrap(), x: 100, builder: Some(0) }, T::B { source: ::core::num::NonZeroU8::new(1).unwrap(), x: 100, builder: Some(255) }, T::B { source: ::core::num::NonZeroU8::new(1).unwrap(), x: 200, builder: None }, T::B { source: ::core::num::NonZeroU8::new(1).unwrap(), x: 200, builder: Some(0) }, T::B { source: ::core::num::NonZeroU8::new(1).unwrap(), x: 200, builder: Some(255) }, T::B { source: ::core::num::NonZeroU8::new(200).unwrap(), x: 0, builder: None }, T::B { source: ::core::num::NonZeroU8::new(200).unwrap(), x: 0, builder: Some(0) }, T::B { source: ::core::num::NonZeroU8::new(200).unwrap(), x: 0, builder: Some(255) }, T::B { source: ::core::num::NonZeroU8::new(200).unwrap(), x: 100, builder: None }, T::B { source: ::core::num::NonZeroU8::new(200).unwrap(), x: 100, builder: Some(0) }, T::B { source: ::core::num::NonZeroU8::new(200).unwrap(), x: 100, builder: Some(255) }, T::B { source: ::core::num::NonZeroU8::new(200).unwrap(), x: 200, builder: None }, T::B { source: ::core::num::NonZeroU8::new(200).unwrap(), x: 200, builder: Some(0) }, T::B { source: ::core::num::NonZeroU8::new(200).unwrap(), x: 200, builder: Some(255) }] }
pub fn show(x: &T) -> String { #[allow(unused_variables)] match x { T::None(p0, p1) => format!("None({},{})", sv(p0), sv(p1)), T::B { source: p0, x: p1, builder: p2 } => format!("B({},{},{})", sv(p0), sv(p1), sv(p2)) } }
pub fn o_disc(x: &T) -> i128 { match x { T::None(_, _) => 0, T::B { source: _, x: _, builder: _ } => 1 } }
pub fn o_pcmp(a: &T, b: &T) -> Option<Ordering> { match (a, b) { (T::None(a0, a1), T::None(b0, b1)) => { match ::core::cmp::PartialOrd::partial_cmp(a0, b0) { Some(Ordering::Equal) => (), x => return x } match ::core::cmp::PartialOrd::partial_cmp(a1, b1) { Some(Ordering::Equal) => (), x => return x } Some(Ordering::Equal) }, (T::B { source: a0, x: a1, builder: a2 }, T::B { source: b0, x: b1, builder: b2 }) => { match ::core::cmp::PartialOrd::partial_cmp(a0, b0) { Some(Ordering::Equal) => (), x => return x } match ::core::cmp::PartialOrd::partial_cmp(a1, b1) { Some(Ordering::Equal) => (), x => return x } match ::core::cmp::PartialOrd::partial_cmp(a2, b2) { Some(Ordering::Equal) => (), x => return x } Some(Ordering::Equal) }, _ => Some(o_disc(a).cmp(&o_disc(b))) } }
#[repr(C)] pub struct Wrap { pub pre: u8, pub x: T, pub post: [u8; 9] }
pub fn wrap(i: usize, n: u8) -> Wrap { Wrap { pre: n, x: values().swap_remove(i), post: [n; 9] } }
pub fn run(out: &mut Out) { let vs = values(); for (i, a) in vs.iter().enumerate() { for (j, b) in vs.iter().enumerate() { let e = o_pcmp(a, b); let g = ::core::cmp::PartialOrd::partial_cmp(a, b); out.check(g == e, "ordlayout_135", "partial_cmp", || format!("partial_cmp({}, {}) = {:?} expected {:?}", show(a), show(b), g, e)); for n in [0u8, 1, 0x7f, 0x80, 0xff] { let wa = wrap(i, n); let wb = wrap(j, !n); let g = ::core::cmp::PartialOrd::partial_cmp(&wa.x, &wb.x); let e = o_pcmp(a, b); out.check(g == e, "ordlayout_135", "cmp_neighbours", || format!("cmp({}, {}) with neighbour bytes {} = {:?} expected {:?}", show(a), show(b), n, g, e)); } } } }
