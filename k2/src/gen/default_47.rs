// default_47
#![allow(dead_code, unused_variables, unused_mut, unused_imports, non_shorthand_field_patterns, clippy::all)]
use crate::support::*;
use educe::Educe;
use core::cmp::Ordering;
#[derive(Educe)]
#[educe(Default)]
pub struct T(char, #[educe(Default(expr(A(9))))] A<0>, #[educe(Default = 'x')] char);
pub fn show(x: &T) -> String { #[allow(unused_variables)] match x { T(p0, p1, p2) => format!("T({},{},{})", sv(p0), sv(p1), sv(p2)) } }
pub fn o_default() -> T { T('\0', A(9), 'x') }
pub fn run(out: &mut Out) { let g = <T as ::core::default::Default>::default(); let e = o_default(); out.check(show(&g) == show(&e), "default_47", "default", || format!("default() = {} expected {}", show(&g), show(&e))); }
