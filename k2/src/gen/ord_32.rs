// ord_32
#![allow(dead_code, unused_variables, unused_mut, unused_imports, non_shorthand_field_patterns, clippy::all)]
use crate::support::*;
use educe::Educe;
use core::cmp::Ordering;
#[derive(Educe)]
#[educe(PartialOrd, Eq, PartialEq)]
pub struct T { data: A<0>, #[educe(PartialOrd(rank = -1))] size: A<1> }

pub fn values() -> Vec<T> { vec![T { data: A(0), size: A(0) }, T { data: A(0), size: A(1) }, T { data: A(0), size: A(7) }, T { data: A(1), size: A(0) }, T { data: A(1), size: A(1) }, T { data: A(1), size: A(7) }, T { data: A(7), size: A(0) }, T { data: A(7), size: A(1) }, T { data: A(7), size: A(7) }] }
pub fn show(x: &T) -> String { #[allow(unused_variables)] match x { T { data: p0, size: p1 } => format!("T({},{})", sv(p0), sv(p1)) } }
pub fn o_disc(x: &T) -> i128 { match x { T { data: _, size: _ } => 0 } }
pub fn o_pcmp(a: &T, b: &T) -> Option<Ordering> { match (a, b) { (T { data: a0, size: a1 }, T { data: b0, size: b1 }) => { match ::core::cmp::PartialOrd::partial_cmp(a0, b0) { Some(Ordering::Equal) => (), x => return x } match ::core::cmp::PartialOrd::partial_cmp(a1, b1) { Some(Ordering::Equal) => (), x => return x } Some(Ordering::Equal) } } }
pub fn run(out: &mut Out) { let vs = values(); for (i, a) in vs.iter().enumerate() { for (j, b) in vs.iter().enumerate() { let e = o_pcmp(a, b); let g = ::core::cmp::PartialOrd::partial_cmp(a, b); out.check(g == e, "ord_32", "partial_cmp", || format!("partial_cmp({}, {}) = {:?} expected {:?}", show(a), show(b), g, e)); } } }
