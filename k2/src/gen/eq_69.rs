// eq_69
#![allow(dead_code, unused_variables, unused_mut, unused_imports, non_shorthand_field_patterns, clippy::all)]
use crate::support::*;
use educe::Educe;
use core::cmp::Ordering;
#[derive(Educe)]
#[educe(PartialEq, Eq)]
pub enum T { Unit, A(A<0>, #[educe(PartialEq(ignore = true))] A<1>), None() }
pub fn values() -> Vec<T> { vec![T::Unit, T::A(A(0), A(0)), T::A(A(0), A(1)), T::A(A(0), A(7)), T::A(A(1), A(0)), T::A(A(1), A(1)), T::A(A(1), A(7)), T::A(A(7), A(0)), T::A(A(7), A(1)), T::A(A(7), A(7)), T::None()] }
pub fn show(x: &T) -> String { #[allow(unused_variables)] match x { T::Unit => format!("Unit()"), T::A(p0, p1) => format!("A({},{})", sv(p0), sv(p1)), T::None() => format!("None()") } }
pub fn o_eq(a: &T, b: &T) -> bool { match (a, b) { (T::Unit, T::Unit) => true, (T::A(a0, a1), T::A(b0, b1)) => (a0 == b0), (T::None(), T::None()) => true, _ => false } }
pub fn run(out: &mut Out) { let vs = values(); for a in &vs { for b in &vs { let e = o_eq(a, b); out.check((a == b) == e, "eq_69", "eq", || format!("{} == {} expected {}", show(a), show(b), e)); out.check((a != b) == !e, "eq_69", "ne", || format!("{} != {} expected {}", show(a), show(b), !e)); } } }
