// eq_140
#![allow(dead_code, unused_variables, unused_mut, unused_imports, non_shorthand_field_patterns, clippy::all)]
use crate::support::*;
use educe::Educe;
use core::cmp::Ordering;
#[derive(Educe)]
#[educe(PartialEq, Eq)]
pub enum T { Unit, None(#[educe(PartialEq(method("m_eq")))] A<0>, #[educe(PartialEq = false)] A<0>) }
pub fn values() -> Vec<T> { vec![T::Unit, T::None(A(0), A(0)), T::None(A(0), A(1)), T::None(A(0), A(7)), T::None(A(1), A(0)), T::None(A(1), A(1)), T::None(A(1), A(7)), T::None(A(7), A(0)), T::None(A(7), A(1)), T::None(A(7), A(7))] }
pub fn show(x: &T) -> String { #[allow(unused_variables)] match x { T::Unit => format!("Unit()"), T::None(p0, p1) => format!("None({},{})", sv(p0), sv(p1)) } }
pub fn o_eq(a: &T, b: &T) -> bool { match (a, b) { (T::Unit, T::Unit) => true, (T::None(a0, a1), T::None(b0, b1)) => m_eq(a0, b0), _ => false } }
pub fn run(out: &mut Out) { let vs = values(); for a in &vs { for b in &vs { let e = o_eq(a, b); out.check((a == b) == e, "eq_140", "eq", || format!("{} == {} expected {}", show(a), show(b), e)); out.check((a != b) == !e, "eq_140", "ne", || format!("{} != {} expected {}", show(a), show(b), !e)); } } }
