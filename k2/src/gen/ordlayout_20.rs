// ordlayout_20
#![allow(dead_code, unused_variables, unused_mut, unused_imports, non_shorthand_field_patterns, clippy::all)]
use crate::support::*;
use core::cmp::Ordering;
pub mod ty {
    #![deny(warnings)]
    #![allow(dead_code, unused_imports, non_snake_case)]
    use crate::support::{A, B, C, Good, Bad, m_eq, m_cmp, m_pcmp, m_hash, m_fmt, m_clone, m_clone_c, m_into, g_eq, g_cmp, g_pcmp, g_hash, g_fmt};
    use educe::Educe;
#[derive(Educe)]
#[educe(PartialEq, Ord, Eq, PartialOrd)]
#[educe(Debug)]
pub enum T { A, Unit, C, B(#[educe(PartialOrd(rank = "-4"))] #[educe(Debug = false)] u8, #[educe(PartialOrd(rank = 4))] char) }
}
pub use ty::T;

pub fn values() -> Vec<T> { vec![T::A, T::Unit, T::C, T::B(0, 'a'), T::B(0, 'z'), T::B(100, 'a'), T::B(100, 'z'), T::B(200, 'a'), T::B(200, 'z')] }
pub fn show(x: &T) -> String { #[allow(unused_variables)] match x { T::A => format!("A()"), T::Unit => format!("Unit()"), T::C => format!("C()"), T::B(p0, p1) => format!("B({},{})", sv(p0), sv(p1)) } }
pub fn o_disc(x: &T) -> i128 { match x { T::A => 0, T::Unit => 1, T::C => 2, T::B(_, _) => 3 } }
pub fn o_cmp(a: &T, b: &T) -> Ordering { match (a, b) { (T::A, T::A) => {  Ordering::Equal }, (T::Unit, T::Unit) => {  Ordering::Equal }, (T::C, T::C) => {  Ordering::Equal }, (T::B(a0, a1), T::B(b0, b1)) => { let c = ::core::cmp::Ord::cmp(a0, b0); if c != Ordering::Equal { return c; } let c = ::core::cmp::Ord::cmp(a1, b1); if c != Ordering::Equal { return c; } Ordering::Equal }, _ => o_disc(a).cmp(&o_disc(b)) } }
#[repr(C)] pub struct Wrap { pub pre: u8, pub x: T, pub post: [u8; 9] }
pub fn wrap(i: usize, n: u8) -> Wrap { Wrap { pre: n, x: values().swap_remove(i), post: [n; 9] } }
pub fn run(out: &mut Out) { let vs = values(); for (i, a) in vs.iter().enumerate() { for (j, b) in vs.iter().enumerate() { let e = o_cmp(a, b); let g = ::core::cmp::Ord::cmp(a, b); out.check(g == e, "ordlayout_20", "cmp", || format!("cmp({}, {}) = {:?} expected {:?}", show(a), show(b), g, e)); let g2 = ::core::cmp::PartialOrd::partial_cmp(a, b); out.check(g2 == Some(e), "ordlayout_20", "partial_is_some_cmp", || format!("partial_cmp({}, {}) = {:?} expected Some({:?})", show(a), show(b), g2, e)); for n in [0u8, 1, 0x7f, 0x80, 0xff] { let wa = wrap(i, n); let wb = wrap(j, !n); let g = ::core::cmp::Ord::cmp(&wa.x, &wb.x); let e = o_cmp(a, b); out.check(g == e, "ordlayout_20", "cmp_neighbours", || format!("cmp({}, {}) with neighbour bytes {} = {:?} expected {:?}", show(a), show(b), n, g, e)); } } } }
