// eq_115
#![allow(dead_code, unused_variables, unused_mut, unused_imports, non_shorthand_field_patterns, clippy::all)]
use crate::support::*;
use educe::Educe;
use core::cmp::Ordering;
#[derive(Educe)]
#[educe(PartialEq)]
pub enum T { A { #[educe(PartialEq(method(m_eq)))] other: A<0>, c: A<0>, #[educe(PartialEq(ignore))] size: A<2> }, Some(#[educe(PartialEq(method("m_eq")))] A<0>, A<0>), Zed {  }, C }
pub fn values() -> Vec<T> { vec![T::A { other: A(0), c: A(0), size: A(0) }, T::A { other: A(1), c: A(1), size: A(1) }, T::A { other: A(0), c: A(7), size: A(0) }, T::A { other: A(0), c: A(7), size: A(1) }, T::A { other: A(1), c: A(7), size: A(0) }, T::A { other: A(1), c: A(0), size: A(0) }, T::A { other: A(7), c: A(1), size: A(1) }, T::A { other: A(7), c: A(0), size: A(1) }, T::A { other: A(7), c: A(1), size: A(0) }, T::A { other: A(1), c: A(1), size: A(0) }, T::A { other: A(1), c: A(0), size: A(1) }, T::A { other: A(7), c: A(7), size: A(1) }, T::Some(A(0), A(0)), T::Some(A(0), A(1)), T::Some(A(0), A(7)), T::Some(A(1), A(0)), T::Some(A(1), A(1)), T::Some(A(1), A(7)), T::Some(A(7), A(0)), T::Some(A(7), A(1)), T::Some(A(7), A(7)), T::Zed {  }, T::C] }
pub fn show(x: &T) -> String { #[allow(unused_variables)] match x { T::A { other: p0, c: p1, size: p2 } => format!("A({},{},{})", sv(p0), sv(p1), sv(p2)), T::Some(p0, p1) => format!("Some({},{})", sv(p0), sv(p1)), T::Zed {  } => format!("Zed()"), T::C => format!("C()") } }
pub fn o_eq(a: &T, b: &T) -> bool { match (a, b) { (T::A { other: a0, c: a1, size: a2 }, T::A { other: b0, c: b1, size: b2 }) => m_eq(a0, b0) && (a1 == b1), (T::Some(a0, a1), T::Some(b0, b1)) => m_eq(a0, b0) && (a1 == b1), (T::Zed {  }, T::Zed {  }) => true, (T::C, T::C) => true, _ => false } }
pub fn run(out: &mut Out) { let vs = values(); for a in &vs { for b in &vs { let e = o_eq(a, b); out.check((a == b) == e, "eq_115", "eq", || format!("{} == {} expected {}", show(a), show(b), e)); out.check((a != b) == !e, "eq_115", "ne", || format!("{} != {} expected {}", show(a), show(b), !e)); } } }
