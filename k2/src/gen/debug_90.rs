// debug_90
#![allow(dead_code, unused_variables, unused_mut, unused_imports, non_shorthand_field_patterns, clippy::all)]
use crate::support::*;
use educe::Educe;
use core::cmp::Ordering;
#[derive(Educe)]
#[educe(Debug(name(true)))]
pub enum T { Some, Zed(A<0>, #[educe(Debug(method(m_fmt)))] A<1>, A<0>, A<3>), B(A<0>, A<1>, A<2>, A<0>) }
pub fn values() -> Vec<T> { vec![T::Some, T::Zed(A(0), A(1), A(7), A(1)), T::Zed(A(1), A(7), A(0), A(1)), T::Zed(A(1), A(0), A(1), A(0)), T::Zed(A(7), A(0), A(7), A(0)), T::Zed(A(7), A(7), A(7), A(1)), T::Zed(A(1), A(7), A(1), A(0)), T::Zed(A(0), A(0), A(1), A(0)), T::Zed(A(0), A(7), A(7), A(0)), T::B(A(1), A(7), A(1), A(1)), T::B(A(0), A(7), A(0), A(7)), T::B(A(0), A(0), A(0), A(1)), T::B(A(7), A(0), A(1), A(0)), T::B(A(7), A(1), A(1), A(0)), T::B(A(0), A(1), A(0), A(1)), T::B(A(7), A(0), A(7), A(1)), T::B(A(7), A(1), A(1), A(1))] }
pub fn show(x: &T) -> String { #[allow(unused_variables)] match x { T::Some => format!("Some()"), T::Zed(p0, p1, p2, p3) => format!("Zed({},{},{},{})", sv(p0), sv(p1), sv(p2), sv(p3)), T::B(p0, p1, p2, p3) => format!("B({},{},{},{})", sv(p0), sv(p1), sv(p2), sv(p3)) } }
pub fn o_fmt(x: &T, f: &mut ::core::fmt::Formatter<'_>) -> ::core::fmt::Result { match x { T::Some => f.write_str("T::Some"), T::Zed(p0, p1, p2, p3) => f.debug_tuple("T::Zed").field(p0).field(&Wm(p1)).field(p2).field(p3).finish(), T::B(p0, p1, p2, p3) => f.debug_tuple("T::B").field(p0).field(p1).field(p2).field(p3).finish() } }

pub fn run(out: &mut Out) { let vs = values(); for a in &vs { let g = format!("{:?}", a); let e = format!("{:?}", Fm(|f: &mut ::core::fmt::Formatter<'_>| o_fmt(a, f))); out.check(g == e, "debug_90", "debug", || format!("{{:?}} of {} = {:?} expected {:?}", show(a), g, e)); let g = format!("{:#?}", a); let e = format!("{:#?}", Fm(|f: &mut ::core::fmt::Formatter<'_>| o_fmt(a, f))); out.check(g == e, "debug_90", "debug_alt", || format!("{{:#?}} of {} = {:?} expected {:?}", show(a), g, e)); let g = format!("{:8?}", a); let e = format!("{:8?}", Fm(|f: &mut ::core::fmt::Formatter<'_>| o_fmt(a, f))); out.check(g == e, "debug_90", "debug_width", || format!("{{:8?}} of {} = {:?} expected {:?}", show(a), g, e)); }  }
