// ordlayout_99
#![allow(dead_code, unused_variables, unused_mut, unused_imports, non_shorthand_field_patterns, clippy::all)]
use crate::support::*;
use core::cmp::Ordering;
pub mod ty {
    #![deny(warnings)]
    #![allow(dead_code, unused_imports, non_snake_case)]
    use crate::support::{A, B, C, Good, Bad, m_eq, m_cmp, m_pcmp, m_hash, m_fmt, m_clone, m_clone_c, m_into, g_eq, g_cmp, g_pcmp, g_hash, g_fmt};
    use educe::Educe;
#[derive(Educe)]
#[repr(i32)]
#[educe(Eq, PartialEq, Ord)]
#[educe(Debug)]
pub enum T { Unit(#[educe(Ord(rank = 6i64))] &'static u8, #[educe(Ord(ignore = false))] &'static u8, #[educe(Ord(rank("-1")))] &'static u8) = 1000 }
}
pub use ty::T;
impl PartialOrd for T { fn partial_cmp(&self, o: &Self) -> Option<Ordering> { Some(::core::cmp::Ord::cmp(self, o)) } }
pub fn values() -> Vec<T> { vec![T::Unit(&3u8, &3u8, &3u8), T::Unit(&3u8, &3u8, &200u8), T::Unit(&3u8, &200u8, &3u8), T::Unit(&3u8, &200u8, &200u8), T::Unit(&200u8, &3u8, &3u8), T::Unit(&200u8, &3u8, &200u8), T::Unit(&200u8, &200u8, &3u8), T::Unit(&200u8, &200u8, &200u8)] }
pub fn show(x: &T) -> String { #[allow(unused_variables)] match x { T::Unit(p0, p1, p2) => format!("Unit({},{},{})", sv(p0), sv(p1), sv(p2)) } }
pub fn o_disc(x: &T) -> i128 { match x { T::Unit(_, _, _) => 1000 } }
pub fn o_cmp(a: &T, b: &T) -> Ordering { match (a, b) { (T::Unit(a0, a1, a2), T::Unit(b0, b1, b2)) => { let c = ::core::cmp::Ord::cmp(a1, b1); if c != Ordering::Equal { return c; } let c = ::core::cmp::Ord::cmp(a2, b2); if c != Ordering::Equal { return c; } let c = ::core::cmp::Ord::cmp(a0, b0); if c != Ordering::Equal { return c; } Ordering::Equal } } }
#[repr(C)] pub struct Wrap { pub pre: u8, pub x: T, pub post: [u8; 9] }
pub fn wrap(i: usize, n: u8) -> Wrap { Wrap { pre: n, x: values().swap_remove(i), post: [n; 9] } }
pub fn run(out: &mut Out) { let vs = values(); for (i, a) in vs.iter().enumerate() { for (j, b) in vs.iter().enumerate() { let e = o_cmp(a, b); let g = ::core::cmp::Ord::cmp(a, b); out.check(g == e, "ordlayout_99", "cmp", || format!("cmp({}, {}) = {:?} expected {:?}", show(a), show(b), g, e)); for n in [0u8, 1, 0x7f, 0x80, 0xff] { let wa = wrap(i, n); let wb = wrap(j, !n); let g = ::core::cmp::Ord::cmp(&wa.x, &wb.x); let e = o_cmp(a, b); out.check(g == e, "ordlayout_99", "cmp_neighbours", || format!("cmp({}, {}) with neighbour bytes {} = {:?} expected {:?}", show(a), show(b), n, g, e)); } } } }
