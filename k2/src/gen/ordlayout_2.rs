// ordlayout_2
#![allow(dead_code, unused_variables, unused_mut, unused_imports, non_shorthand_field_patterns, clippy::all)]
use crate::support::*;
use educe::Educe;
use core::cmp::Ordering;
#[derive(Educe)]
#[educe(PartialOrd, PartialEq, Eq)]
pub enum T { C(#[educe(PartialOrd(rank("-2")))] u8), Some, B(#[educe(PartialOrd(rank = 8i64))] char, Option<u8>, #[educe(PartialOrd(rank(0)))] u8) }

pub fn values() -> Vec<T> { vec![T::C(0), T::C(100), T::C(200), T::Some, T::B('a', Some(255), 100), T::B('z', Some(255), 0), T::B('a', Some(0), 0), T::B('a', None, 200), T::B('z', Some(0), 0), T::B('a', Some(0), 200), T::B('a', None, 100), T::B('z', Some(0), 200), T::B('a', Some(255), 200), T::B('z', None, 100), T::B('z', None, 0), T::B('a', Some(255), 0)] }
pub fn show(x: &T) -> String { #[allow(unused_variables)] match x { T::C(p0) => format!("C({})", sv(p0)), T::Some => format!("Some()"), T::B(p0, p1, p2) => format!("B({},{},{})", sv(p0), sv(p1), sv(p2)) } }
pub fn o_disc(x: &T) -> i128 { match x { T::C(_) => 0, T::Some => 1, T::B(_, _, _) => 2 } }
pub fn o_pcmp(a: &T, b: &T) -> Option<Ordering> { match (a, b) { (T::C(a0), T::C(b0)) => { match ::core::cmp::PartialOrd::partial_cmp(a0, b0) { Some(Ordering::Equal) => (), x => return x } Some(Ordering::Equal) }, (T::Some, T::Some) => {  Some(Ordering::Equal) }, (T::B(a0, a1, a2), T::B(b0, b1, b2)) => { match ::core::cmp::PartialOrd::partial_cmp(a1, b1) { Some(Ordering::Equal) => (), x => return x } match ::core::cmp::PartialOrd::partial_cmp(a2, b2) { Some(Ordering::Equal) => (), x => return x } match ::core::cmp::PartialOrd::partial_cmp(a0, b0) { Some(Ordering::Equal) => (), x => return x } Some(Ordering::Equal) }, _ => Some(o_disc(a).cmp(&o_disc(b))) } }
#[repr(C)] pub struct Wrap { pub pre: u8, pub x: T, pub post: [u8; 9] }
pub fn wrap(i: usize, n: u8) -> Wrap { Wrap { pre: n, x: values().swap_remove(i), post: [n; 9] } }
pub fn run(out: &mut Out) { let vs = values(); for (i, a) in vs.iter().enumerate() { for (j, b) in vs.iter().enumerate() { let e = o_pcmp(a, b); let g = ::core::cmp::PartialOrd::partial_cmp(a, b); out.check(g == e, "ordlayout_2", "partial_cmp", || format!("partial_cmp({}, {}) = {:?} expected {:?}", show(a), show(b), g, e)); for n in [0u8, 1, 0x7f, 0x80, 0xff] { let wa = wrap(i, n); let wb = wrap(j, !n); let g = ::core::cmp::PartialOrd::partial_cmp(&wa.x, &wb.x); let e = o_pcmp(a, b); out.check(g == e, "ordlayout_2", "cmp_neighbours", || format!("cmp({}, {}) with neighbour bytes {} = {:?} expected {:?}", show(a), show(b), n, g, e)); } } } }
