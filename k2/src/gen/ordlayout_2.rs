// ordlayout_2
#![allow(dead_code, unused_variables, unused_mut, unused_imports, non_shorthand_field_patterns, clippy::all)]
use crate::support::*;
use educe::Educe;
use core::cmp::Ordering;
#[derive(Educe)]
#[repr(i64)]
#[educe(Eq, PartialEq, PartialOrd)]
pub enum T { V1 { #[educe(PartialOrd(rank(5)))] data: bool } = 1000, C { f: bool, builder: i64 } = 100, Unit = 70000 }

pub fn values() -> Vec<T> { vec![T::V1 { data: false }, T::V1 { data: true }, T::C { f: false, builder: -5 }, T::C { f: false, builder: 0 }, T::C { f: false, builder: 9 }, T::C { f: true, builder: -5 }, T::C { f: true, builder: 0 }, T::C { f: true, builder: 9 }, T::Unit] }
pub fn show(x: &T) -> String { #[allow(unused_variables)] match x { T::V1 { data: p0 } => format!("V1({})", sv(p0)), T::C { f: p0, builder: p1 } => format!("C({},{})", sv(p0), sv(p1)), T::Unit => format!("Unit()") } }
pub fn o_disc(x: &T) -> i128 { match x { T::V1 { data: _ } => 1000, T::C { f: _, builder: _ } => 100, T::Unit => 70000 } }
pub fn o_pcmp(a: &T, b: &T) -> Option<Ordering> { match (a, b) { (T::V1 { data: a0 }, T::V1 { data: b0 }) => { match ::core::cmp::PartialOrd::partial_cmp(a0, b0) { Some(Ordering::Equal) => (), x => return x } Some(Ordering::Equal) }, (T::C { f: a0, builder: a1 }, T::C { f: b0, builder: b1 }) => { match ::core::cmp::PartialOrd::partial_cmp(a0, b0) { Some(Ordering::Equal) => (), x => return x } match ::core::cmp::PartialOrd::partial_cmp(a1, b1) { Some(Ordering::Equal) => (), x => return x } Some(Ordering::Equal) }, (T::Unit, T::Unit) => {  Some(Ordering::Equal) }, _ => Some(o_disc(a).cmp(&o_disc(b))) } }
#[repr(C)] pub struct Wrap { pub pre: u8, pub x: T, pub post: [u8; 9] }
pub fn wrap(i: usize, n: u8) -> Wrap { Wrap { pre: n, x: values().swap_remove(i), post: [n; 9] } }
pub fn run(out: &mut Out) { let vs = values(); for (i, a) in vs.iter().enumerate() { for (j, b) in vs.iter().enumerate() { let e = o_pcmp(a, b); let g = ::core::cmp::PartialOrd::partial_cmp(a, b); out.check(g == e, "ordlayout_2", "partial_cmp", || format!("partial_cmp({}, {}) = {:?} expected {:?}", show(a), show(b), g, e)); for n in [0u8, 1, 0x7f, 0x80, 0xff] { let wa = wrap(i, n); let wb = wrap(j, !n); let g = ::core::cmp::PartialOrd::partial_cmp(&wa.x, &wb.x); let e = o_pcmp(a, b); out.check(g == e, "ordlayout_2", "cmp_neighbours", || format!("cmp({}, {}) with neighbour bytes {} = {:?} expected {:?}", show(a), show(b), n, g, e)); } } } }
