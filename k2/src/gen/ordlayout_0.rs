// ordlayout_0
#![allow(dead_code, unused_variables, unused_mut, unused_imports, non_shorthand_field_patterns, clippy::all)]
use crate::support::*;
use educe::Educe;
use core::cmp::Ordering;
#[derive(Educe)]
#[educe(PartialOrd, Ord, PartialEq, Eq)]
pub enum T { A(&'static u8, #[educe(PartialOrd(rank = 0))] ()), Unit { #[educe(PartialOrd(rank = "7"))] _0: &'static u8, #[educe(PartialOrd(rank = 5i64))] c: Option<u8>, #[educe(PartialOrd(rank("8")))] r#type: &'static u8 } }

pub fn values() -> Vec<T> { vec![T::A(&3u8, ()), T::A(&200u8, ()), T::Unit { _0: &3u8, c: None, r#type: &3u8 }, T::Unit { _0: &3u8, c: None, r#type: &200u8 }, T::Unit { _0: &3u8, c: Some(0), r#type: &3u8 }, T::Unit { _0: &3u8, c: Some(0), r#type: &200u8 }, T::Unit { _0: &3u8, c: Some(255), r#type: &3u8 }, T::Unit { _0: &3u8, c: Some(255), r#type: &200u8 }, T::Unit { _0: &200u8, c: None, r#type: &3u8 }, T::Unit { _0: &200u8, c: None, r#type: &200u8 }, T::Unit { _0: &200u8, c: Some(0), r#type: &3u8 }, T::Unit { _0: &200u8, c: Some(0), r#type: &200u8 }, T::Unit { _0: &200u8, c: Some(255), r#type: &3u8 }, T::Unit { _0: &200u8, c: Some(255), r#type: &200u8 }] }
pub fn show(x: &T) -> String { #[allow(unused_variables)] match x { T::A(p0, p1) => format!("A({},{})", sv(p0), sv(p1)), T::Unit { _0: p0, c: p1, r#type: p2 } => format!("Unit({},{},{})", sv(p0), sv(p1), sv(p2)) } }
pub fn o_disc(x: &T) -> i128 { match x { T::A(_, _) => 0, T::Unit { _0: _, c: _, r#type: _ } => 1 } }
pub fn o_cmp(a: &T, b: &T) -> Ordering { match (a, b) { (T::A(a0, a1), T::A(b0, b1)) => { let c = ::core::cmp::Ord::cmp(a0, b0); if c != Ordering::Equal { return c; } let c = ::core::cmp::Ord::cmp(a1, b1); if c != Ordering::Equal { return c; } Ordering::Equal }, (T::Unit { _0: a0, c: a1, r#type: a2 }, T::Unit { _0: b0, c: b1, r#type: b2 }) => { let c = ::core::cmp::Ord::cmp(a1, b1); if c != Ordering::Equal { return c; } let c = ::core::cmp::Ord::cmp(a0, b0); if c != Ordering::Equal { return c; } let c = ::core::cmp::Ord::cmp(a2, b2); if c != Ordering::Equal { return c; } Ordering::Equal }, _ => o_disc(a).cmp(&o_disc(b)) } }
#[repr(C)] pub struct Wrap { pub pre: u8, pub x: T, pub post: [u8; 9] }
pub fn wrap(i: usize, n: u8) -> Wrap { Wrap { pre: n, x: values().swap_remove(i), post: [n; 9] } }
pub fn run(out: &mut Out) { let vs = values(); for (i, a) in vs.iter().enumerate() { for (j, b) in vs.iter().enumerate() { let e = o_cmp(a, b); let g = ::core::cmp::Ord::cmp(a, b); out.check(g == e, "ordlayout_0", "cmp", || format!("cmp({}, {}) = {:?} expected {:?}", show(a), show(b), g, e)); let g2 = ::core::cmp::PartialOrd::partial_cmp(a, b); out.check(g2 == Some(e), "ordlayout_0", "partial_is_some_cmp", || format!("partial_cmp({}, {}) = {:?} expected Some({:?})", show(a), show(b), g2, e)); for n in [0u8, 1, 0x7f, 0x80, 0xff] { let wa = wrap(i, n); let wb = wrap(j, !n); let g = ::core::cmp::Ord::cmp(&wa.x, &wb.x); let e = o_cmp(a, b); out.check(g == e, "ordlayout_0", "cmp_neighbours", || format!("cmp({}, {}) with neighbour bytes {} = {:?} expected {:?}", show(a), show(b), n, g, e)); } } } }
