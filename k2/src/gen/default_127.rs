// default_127
#![allow(dead_code, unused_variables, unused_mut, unused_imports, non_shorthand_field_patterns, clippy::all)]
use crate::support::*;
use educe::Educe;
use core::cmp::Ordering;
#[derive(Educe)]
#[educe(Default)]
pub struct T { #[educe(Default(expr(String::from("yo"))))] other: String, f: A<3>, a: i64 }
pub fn show(x: &T) -> String { #[allow(unused_variables)] match x { T { other: p0, f: p1, a: p2 } => format!("T({},{},{})", sv(p0), sv(p1), sv(p2)) } }
pub fn o_default() -> T { T { other: String::from("yo"), f: A(43), a: 0i64 } }
pub fn run(out: &mut Out) { let g = <T as ::core::default::Default>::default(); let e = o_default(); out.check(show(&g) == show(&e), "default_127", "default", || format!("default() = {} expected {}", show(&g), show(&e))); }
