// ordlayout_138
#![allow(dead_code, unused_variables, unused_mut, unused_imports, non_shorthand_field_patterns, clippy::all)]
use crate::support::*;
use core::cmp::Ordering;
pub mod ty {
    #![deny(warnings)]
    #![allow(dead_code, unused_imports, non_snake_case)]
    use crate::support::{A, B, C, Good, Bad, m_eq, m_cmp, m_pcmp, m_hash, m_fmt, m_clone, m_clone_c, m_into, g_eq, g_cmp, g_pcmp, g_hash, g_fmt};
    use educe::Educe;
#[derive(Educe)]
#[educe(PartialEq, Eq, Ord)]
pub enum T { V1(&'static u8, #[educe(Ord(rank("6")))] bool), None, A { #[educe(Ord(rank(-4)))] r#type: ::core::num::NonZeroU8 }, Unit { c: char, other: char } }
}
pub use ty::T;
impl PartialOrd for T { fn partial_cmp(&self, o: &Self) -> Option<Ordering> { Some(::core::cmp::Ord::cmp(self, o)) } }
pub fn values() -> Vec<T> { vec![T::V1(&3u8, false), T::V1(&3u8, true), T::V1(&200u8, false), T::V1(&200u8, true), T::None, T::A { r#type: ::core::num::NonZeroU8::new(1).unwrap() }, T::A { r#type: ::core::num::NonZeroU8::new(200).unwrap() }, T::Unit { c: 'a', other: 'a' }, T::Unit { c: 'a', other: 'z' }, T::Unit { c: 'z', other: 'a' }, T::Unit { c: 'z', other: 'z' }] }
pub fn show(x: &T) -> String { #[allow(unused_variables)] match x { T::V1(p0, p1) => format!("V1({},{})", sv(p0), sv(p1)), T::None => format!("None()"), T::A { r#type: p0 } => format!("A({})", sv(p0)), T::Unit { c: p0, other: p1 } => format!("Unit({},{})", sv(p0), sv(p1)) } }
pub fn o_disc(x: &T) -> i128 { match x { T::V1(_, _) => 0, T::None => 1, T::A { r#type: _ } => 2, T::Unit { c: _, other: _ } => 3 } }
pub fn o_cmp(a: &T, b: &T) -> Ordering { match (a, b) { (T::V1(a0, a1), T::V1(b0, b1)) => { let c = ::core::cmp::Ord::cmp(a0, b0); if c != Ordering::Equal { return c; } let c = ::core::cmp::Ord::cmp(a1, b1); if c != Ordering::Equal { return c; } Ordering::Equal }, (T::None, T::None) => {  Ordering::Equal }, (T::A { r#type: a0 }, T::A { r#type: b0 }) => { let c = ::core::cmp::Ord::cmp(a0, b0); if c != Ordering::Equal { return c; } Ordering::Equal }, (T::Unit { c: a0, other: a1 }, T::Unit { c: b0, other: b1 }) => { let c = ::core::cmp::Ord::cmp(a0, b0); if c != Ordering::Equal { return c; } let c = ::core::cmp::Ord::cmp(a1, b1); if c != Ordering::Equal { return c; } Ordering::Equal }, _ => o_disc(a).cmp(&o_disc(b)) } }
#[repr(C)] pub struct Wrap { pub pre: u8, pub x: T, pub post: [u8; 9] }
pub fn wrap(i: usize, n: u8) -> Wrap { Wrap { pre: n, x: values().swap_remove(i), post: [n; 9] } }
pub fn run(out: &mut Out) { let vs = values(); for (i, a) in vs.iter().enumerate() { for (j, b) in vs.iter().enumerate() { let e = o_cmp(a, b); let g = ::core::cmp::Ord::cmp(a, b); out.check(g == e, "ordlayout_138", "cmp", || format!("cmp({}, {}) = {:?} expected {:?}", show(a), show(b), g, e)); for n in [0u8, 1, 0x7f, 0x80, 0xff] { let wa = wrap(i, n); let wb = wrap(j, !n); let g = ::core::cmp::Ord::cmp(&wa.x, &wb.x); let e = o_cmp(a, b); out.check(g == e, "ordlayout_138", "cmp_neighbours", || format!("cmp({}, {}) with neighbour bytes {} = {:?} expected {:?}", show(a), show(b), n, g, e)); } } } }
