// into_37
#![allow(dead_code, unused_variables, unused_mut, unused_imports, non_shorthand_field_patterns, clippy::all)]
use crate::support::*;
use educe::Educe;
use core::cmp::Ordering;
#[derive(Educe)]
#[educe(Into(B<2>))]
#[educe(Into(A<1>))]
pub enum T { Zed { #[educe(Into(A<1>))] arg: A<1>, other: A<3>, #[educe(Into(B<2>, method(m_into)))] _0: A<1> }, B(A<1>, #[educe(Into(B<2>, method = "m_into"))] A<0>) }
pub fn values() -> Vec<T> { vec![T::Zed { arg: A(0), other: A(0), _0: A(1) }, T::Zed { arg: A(0), other: A(7), _0: A(0) }, T::Zed { arg: A(7), other: A(0), _0: A(7) }, T::Zed { arg: A(1), other: A(7), _0: A(0) }, T::Zed { arg: A(7), other: A(7), _0: A(0) }, T::Zed { arg: A(7), other: A(0), _0: A(1) }, T::B(A(1), A(7)), T::B(A(7), A(1)), T::B(A(0), A(1)), T::B(A(7), A(7)), T::B(A(0), A(0)), T::B(A(1), A(1))] }
pub fn show(x: &T) -> String { #[allow(unused_variables)] match x { T::Zed { arg: p0, other: p1, _0: p2 } => format!("Zed({},{},{})", sv(p0), sv(p1), sv(p2)), T::B(p0, p1) => format!("B({},{})", sv(p0), sv(p1)) } }
pub fn o_into_0(x: T) -> B<2> { match x { T::Zed { arg: _, other: _, _0: p2 } => m_into(p2), T::B(_, p1) => m_into(p1) } }
pub fn o_into_1(x: T) -> A<1> { match x { T::Zed { arg: p0, other: _, _0: _ } => p0, T::B(p0, _) => p0 } }
pub fn run(out: &mut Out) { let n = values().len(); for i in 0..n { let a = values().swap_remove(i); let shown = show(&a); let g: B<2> = ::core::convert::Into::into(a); let e = o_into_0(values().swap_remove(i)); out.check(sv(&g) == sv(&e), "into_37", "into", || format!("Into::<B<2>>::into({}) = {} expected {}", shown, sv(&g), sv(&e))); } for i in 0..n { let a = values().swap_remove(i); let shown = show(&a); let g: A<1> = ::core::convert::Into::into(a); let e = o_into_1(values().swap_remove(i)); out.check(sv(&g) == sv(&e), "into_37", "into", || format!("Into::<A<1>>::into({}) = {} expected {}", shown, sv(&g), sv(&e))); } }
