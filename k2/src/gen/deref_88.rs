// deref_88
#![allow(dead_code, unused_variables, unused_mut, unused_imports, non_shorthand_field_patterns, clippy::all)]
use crate::support::*;
use educe::Educe;
use core::cmp::Ordering;
#[derive(Educe)]
#[educe(Deref)]
pub enum T { Zed { r#type: &'static A<2> }, A { size: &'static A<2> } }
pub fn values() -> Vec<T> { vec![T::Zed { r#type: &A(0) }, T::Zed { r#type: &A(1) }, T::A { size: &A(0) }, T::A { size: &A(1) }] }
pub fn show(x: &T) -> String { #[allow(unused_variables)] match x { T::Zed { r#type: p0 } => format!("Zed({})", sv(p0)), T::A { size: p0 } => format!("A({})", sv(p0)) } }
pub fn o_deref(x: &T) -> *const A<2> { match x { T::Zed { r#type: p0 } => *p0 as *const A<2>, T::A { size: p0 } => *p0 as *const A<2> } }
pub fn run(out: &mut Out) { let vs = values(); for a in &vs { let g = ::core::ops::Deref::deref(a) as *const A<2>; let e = o_deref(a); out.check(g == e, "deref_88", "deref", || format!("&*{} has another address than the designated field", show(a))); } }
