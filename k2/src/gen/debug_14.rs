// debug_14
#![allow(dead_code, unused_variables, unused_mut, unused_imports, non_shorthand_field_patterns, clippy::all)]
use crate::support::*;
use educe::Educe;
use core::cmp::Ordering;
#[derive(Educe)]
#[educe(Debug(name = Zz))]
pub enum T { #[educe(Debug(name(false)))] Zed { #[educe(Debug(method = "m_fmt", name = k0))] rr_type: A<0>, b: A<1> }, #[educe(Debug(named_field = true))] C(#[educe(Debug(ignore(true)))] A<0>, #[educe(Debug(method = "m_fmt"))] A<0>) }
pub fn values() -> Vec<T> { vec![T::Zed { rr_type: A(0), b: A(0) }, T::Zed { rr_type: A(0), b: A(1) }, T::Zed { rr_type: A(0), b: A(7) }, T::Zed { rr_type: A(1), b: A(0) }, T::Zed { rr_type: A(1), b: A(1) }, T::Zed { rr_type: A(1), b: A(7) }, T::Zed { rr_type: A(7), b: A(0) }, T::Zed { rr_type: A(7), b: A(1) }, T::Zed { rr_type: A(7), b: A(7) }, T::C(A(0), A(0)), T::C(A(0), A(1)), T::C(A(0), A(7)), T::C(A(1), A(0)), T::C(A(1), A(1)), T::C(A(1), A(7)), T::C(A(7), A(0)), T::C(A(7), A(1)), T::C(A(7), A(7))] }
pub fn show(x: &T) -> String { #[allow(unused_variables)] match x { T::Zed { rr_type: p0, b: p1 } => format!("Zed({},{})", sv(p0), sv(p1)), T::C(p0, p1) => format!("C({},{})", sv(p0), sv(p1)) } }
pub fn o_fmt(x: &T, f: &mut ::core::fmt::Formatter<'_>) -> ::core::fmt::Result { match x { T::Zed { rr_type: p0, b: p1 } => f.debug_struct("Zz").field("k0", &Wm(p0)).field("b", p1).finish(), T::C(p0, p1) => f.debug_struct("Zz::C").field("_1", &Wm(p1)).finish() } }

pub fn run(out: &mut Out) { let vs = values(); for a in &vs { let g = format!("{:?}", a); let e = format!("{:?}", Fm(|f: &mut ::core::fmt::Formatter<'_>| o_fmt(a, f))); out.check(g == e, "debug_14", "debug", || format!("{{:?}} of {} = {:?} expected {:?}", show(a), g, e)); let g = format!("{:#?}", a); let e = format!("{:#?}", Fm(|f: &mut ::core::fmt::Formatter<'_>| o_fmt(a, f))); out.check(g == e, "debug_14", "debug_alt", || format!("{{:#?}} of {} = {:?} expected {:?}", show(a), g, e)); let g = format!("{:8?}", a); let e = format!("{:8?}", Fm(|f: &mut ::core::fmt::Formatter<'_>| o_fmt(a, f))); out.check(g == e, "debug_14", "debug_width", || format!("{{:8?}} of {} = {:?} expected {:?}", show(a), g, e)); }  }
