// into_32
#![allow(dead_code, unused_variables, unused_mut, unused_imports, non_shorthand_field_patterns, clippy::all)]
use crate::support::*;
use educe::Educe;
use core::cmp::Ordering;
#[derive(Educe)]
#[educe(Into(A<0>))]
#[educe(Into(B<2>))]
pub enum T { None { y: A<0> }, B(#[educe(Into(B<2>))] A<1>, #[educe(Into(A<0>))] A<0>), V1 { #[educe(Into(A<0>))] #[educe(Into(B<2>))] a: A<0>, f: A<2> } }
pub fn values() -> Vec<T> { vec![T::None { y: A(0) }, T::None { y: A(1) }, T::None { y: A(7) }, T::B(A(0), A(0)), T::B(A(0), A(7)), T::B(A(1), A(1)), T::B(A(7), A(0)), T::V1 { a: A(7), f: A(1) }, T::V1 { a: A(1), f: A(7) }, T::V1 { a: A(0), f: A(1) }, T::V1 { a: A(1), f: A(0) }] }
pub fn show(x: &T) -> String { #[allow(unused_variables)] match x { T::None { y: p0 } => format!("None({})", sv(p0)), T::B(p0, p1) => format!("B({},{})", sv(p0), sv(p1)), T::V1 { a: p0, f: p1 } => format!("V1({},{})", sv(p0), sv(p1)) } }
pub fn o_into_0(x: T) -> A<0> { match x { T::None { y: p0 } => p0, T::B(_, p1) => p1, T::V1 { a: p0, f: _ } => p0 } }
pub fn o_into_1(x: T) -> B<2> { match x { T::None { y: p0 } => ::core::convert::Into::into(p0), T::B(p0, _) => ::core::convert::Into::into(p0), T::V1 { a: p0, f: _ } => ::core::convert::Into::into(p0) } }
pub fn run(out: &mut Out) { let n = values().len(); for i in 0..n { let a = values().swap_remove(i); let shown = show(&a); let g: A<0> = ::core::convert::Into::into(a); let e = o_into_0(values().swap_remove(i)); out.check(sv(&g) == sv(&e), "into_32", "into", || format!("Into::<A<0>>::into({}) = {} expected {}", shown, sv(&g), sv(&e))); } for i in 0..n { let a = values().swap_remove(i); let shown = show(&a); let g: B<2> = ::core::convert::Into::into(a); let e = o_into_1(values().swap_remove(i)); out.check(sv(&g) == sv(&e), "into_32", "into", || format!("Into::<B<2>>::into({}) = {} expected {}", shown, sv(&g), sv(&e))); } }
