// default_82
#![allow(dead_code, unused_variables, unused_mut, unused_imports, non_shorthand_field_patterns, clippy::all)]
use crate::support::*;
use educe::Educe;
use core::cmp::Ordering;
#[derive(Educe)]
#[educe(Default)]
pub enum T { #[educe(Default)] V1 { data: f32, source: u64 }, Zed(u16) }
pub fn show(x: &T) -> String { #[allow(unused_variables)] match x { T::V1 { data: p0, source: p1 } => format!("V1({},{})", sv(p0), sv(p1)), T::Zed(p0) => format!("Zed({})", sv(p0)) } }
pub fn o_default() -> T { T::V1 { data: 0f32, source: 0u64 } }
pub fn run(out: &mut Out) { let g = <T as ::core::default::Default>::default(); let e = o_default(); out.check(show(&g) == show(&e), "default_82", "default", || format!("default() = {} expected {}", show(&g), show(&e))); }
