// ord_83
#![allow(dead_code, unused_variables, unused_mut, unused_imports, non_shorthand_field_patterns, clippy::all)]
use crate::support::*;
use core::cmp::Ordering;
pub mod ty {
    #![deny(warnings)]
    #![allow(dead_code, unused_imports, non_snake_case)]
    use crate::support::{A, B, C, Good, Bad, m_eq, m_cmp, m_pcmp, m_hash, m_fmt, m_clone, m_clone_c, m_into, g_eq, g_cmp, g_pcmp, g_hash, g_fmt};
    use educe::Educe;
#[derive(Educe)]
#[repr(i128)]
#[educe(PartialEq, Ord, Eq)]
pub enum T { A {  } = -1, B { #[educe(Ord(ignore(false), rank = "+0"))] data: A<0>, #[educe(Ord(rank = "-4", method(m_cmp)))] source: A<1> } = 3, Unit { _x: A<0>, #[educe(Ord(rank = "+6"))] x: A<1> } = -1267650600228229401496703205376 }
}
pub use ty::T;
impl PartialOrd for T { fn partial_cmp(&self, o: &Self) -> Option<Ordering> { Some(::core::cmp::Ord::cmp(self, o)) } }
pub fn values() -> Vec<T> { vec![T::A {  }, T::B { data: A(0), source: A(0) }, T::B { data: A(0), source: A(1) }, T::B { data: A(0), source: A(7) }, T::B { data: A(1), source: A(0) }, T::B { data: A(1), source: A(1) }, T::B { data: A(1), source: A(7) }, T::B { data: A(7), source: A(0) }, T::B { data: A(7), source: A(1) }, T::B { data: A(7), source: A(7) }, T::Unit { _x: A(0), x: A(0) }, T::Unit { _x: A(0), x: A(1) }, T::Unit { _x: A(0), x: A(7) }, T::Unit { _x: A(1), x: A(0) }, T::Unit { _x: A(1), x: A(1) }, T::Unit { _x: A(1), x: A(7) }, T::Unit { _x: A(7), x: A(0) }, T::Unit { _x: A(7), x: A(1) }, T::Unit { _x: A(7), x: A(7) }] }
pub fn show(x: &T) -> String { #[allow(unused_variables)] match x { T::A {  } => format!("A()"), T::B { data: p0, source: p1 } => format!("B({},{})", sv(p0), sv(p1)), T::Unit { _x: p0, x: p1 } => format!("Unit({},{})", sv(p0), sv(p1)) } }
pub fn o_disc(x: &T) -> i128 { match x { T::A {  } => -1, T::B { data: _, source: _ } => 3, T::Unit { _x: _, x: _ } => -1267650600228229401496703205376 } }
pub fn o_cmp(a: &T, b: &T) -> Ordering { match (a, b) { (T::A {  }, T::A {  }) => {  Ordering::Equal }, (T::B { data: a0, source: a1 }, T::B { data: b0, source: b1 }) => { let c = m_cmp(a1, b1); if c != Ordering::Equal { return c; } let c = ::core::cmp::Ord::cmp(a0, b0); if c != Ordering::Equal { return c; } Ordering::Equal }, (T::Unit { _x: a0, x: a1 }, T::Unit { _x: b0, x: b1 }) => { let c = ::core::cmp::Ord::cmp(a0, b0); if c != Ordering::Equal { return c; } let c = ::core::cmp::Ord::cmp(a1, b1); if c != Ordering::Equal { return c; } Ordering::Equal }, _ => o_disc(a).cmp(&o_disc(b)) } }
pub fn run(out: &mut Out) { let vs = values(); for (i, a) in vs.iter().enumerate() { for (j, b) in vs.iter().enumerate() { let e = o_cmp(a, b); let g = ::core::cmp::Ord::cmp(a, b); out.check(g == e, "ord_83", "cmp", || format!("cmp({}, {}) = {:?} expected {:?}", show(a), show(b), g, e)); } } }
