// into_112
#![allow(dead_code, unused_variables, unused_mut, unused_imports, non_shorthand_field_patterns, clippy::all)]
use crate::support::*;
use educe::Educe;
use core::cmp::Ordering;
#[derive(Educe)]
#[educe(Into(B<2>))]
pub enum T { Unit { #[educe(Into(B<2>))] state: A<3>, other: A<0>, f: A<0> }, Some(#[educe(Into(B<2>, method = "m_into"))] A<0>, A<0>, A<0>) }
pub fn values() -> Vec<T> { vec![T::Unit { state: A(7), other: A(0), f: A(7) }, T::Unit { state: A(1), other: A(0), f: A(1) }, T::Unit { state: A(7), other: A(1), f: A(0) }, T::Unit { state: A(1), other: A(0), f: A(0) }, T::Unit { state: A(0), other: A(1), f: A(0) }, T::Unit { state: A(1), other: A(7), f: A(0) }, T::Some(A(1), A(7), A(7)), T::Some(A(7), A(7), A(1)), T::Some(A(0), A(1), A(0)), T::Some(A(0), A(7), A(1)), T::Some(A(1), A(0), A(0)), T::Some(A(0), A(1), A(1))] }
pub fn show(x: &T) -> String { #[allow(unused_variables)] match x { T::Unit { state: p0, other: p1, f: p2 } => format!("Unit({},{},{})", sv(p0), sv(p1), sv(p2)), T::Some(p0, p1, p2) => format!("Some({},{},{})", sv(p0), sv(p1), sv(p2)) } }
pub fn o_into_0(x: T) -> B<2> { match x { T::Unit { state: p0, other: _, f: _ } => ::core::convert::Into::into(p0), T::Some(p0, _, _) => m_into(p0) } }
pub fn run(out: &mut Out) { let n = values().len(); for i in 0..n { let a = values().swap_remove(i); let shown = show(&a); let g: B<2> = ::core::convert::Into::into(a); let e = o_into_0(values().swap_remove(i)); out.check(sv(&g) == sv(&e), "into_112", "into", || format!("Into::<B<2>>::into({}) = {} expected {}", shown, sv(&g), sv(&e))); } }
