// into_116
#![allow(dead_code, unused_variables, unused_mut, unused_imports, non_shorthand_field_patterns, clippy::all)]
use crate::support::*;
use educe::Educe;
use core::cmp::Ordering;
#[derive(Educe)]
#[educe(Into(B<2>), Into(B<1>))]
pub struct T { source: A<1>, #[educe(Into(B<2>))] #[educe(Into(B<1>, method(m_into)))] b: A<0> }
pub fn values() -> Vec<T> { vec![T { source: A(0), b: A(0) }, T { source: A(0), b: A(1) }, T { source: A(0), b: A(7) }, T { source: A(1), b: A(0) }, T { source: A(1), b: A(1) }, T { source: A(1), b: A(7) }, T { source: A(7), b: A(0) }, T { source: A(7), b: A(1) }, T { source: A(7), b: A(7) }] }
pub fn show(x: &T) -> String { #[allow(unused_variables)] match x { T { source: p0, b: p1 } => format!("T({},{})", sv(p0), sv(p1)) } }
pub fn o_into_0(x: T) -> B<2> { match x { T { source: _, b: p1 } => ::core::convert::Into::into(p1) } }
pub fn o_into_1(x: T) -> B<1> { match x { T { source: _, b: p1 } => m_into(p1) } }
pub fn run(out: &mut Out) { let n = values().len(); for i in 0..n { let a = values().swap_remove(i); let shown = show(&a); let g: B<2> = ::core::convert::Into::into(a); let e = o_into_0(values().swap_remove(i)); out.check(sv(&g) == sv(&e), "into_116", "into", || format!("Into::<B<2>>::into({}) = {} expected {}", shown, sv(&g), sv(&e))); } for i in 0..n { let a = values().swap_remove(i); let shown = show(&a); let g: B<1> = ::core::convert::Into::into(a); let e = o_into_1(values().swap_remove(i)); out.check(sv(&g) == sv(&e), "into_116", "into", || format!("Into::<B<1>>::into({}) = {} expected {}", shown, sv(&g), sv(&e))); } }
