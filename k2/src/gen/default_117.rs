// default_117
#![allow(dead_code, unused_variables, unused_mut, unused_imports, non_shorthand_field_patterns, clippy::all)]
use crate::support::*;
use educe::Educe;
use core::cmp::Ordering;
#[derive(Educe)]
#[educe(Default)]
pub struct T(#[educe(Default = false)] bool, u8);
pub fn show(x: &T) -> String { #[allow(unused_variables)] match x { T(p0, p1) => format!("T({},{})", sv(p0), sv(p1)) } }
pub fn o_default() -> T { T(false, 0u8) }
pub fn run(out: &mut Out) { let g = <T as ::core::default::Default>::default(); let e = o_default(); out.check(show(&g) == show(&e), "default_117", "default", || format!("default() = {} expected {}", show(&g), show(&e))); }
