// debug_119
#![allow(dead_code, unused_variables, unused_mut, unused_imports, non_shorthand_field_patterns, clippy::all)]
use crate::support::*;
use educe::Educe;
use core::cmp::Ordering;
#[derive(Educe)]
#[educe(Debug(name = true))]
pub enum T { #[educe(Debug(named_field = false))] V1 { #[educe(Debug(ignore(true)))] f: A<0>, x: A<1> }, Some(A<0>, A<1>), #[educe(Debug(name = "Ren"))] Unit }
pub fn values() -> Vec<T> { vec![T::V1 { f: A(0), x: A(1) }, T::V1 { f: A(1), x: A(7) }, T::V1 { f: A(0), x: A(0) }, T::V1 { f: A(7), x: A(0) }, T::V1 { f: A(1), x: A(0) }, T::V1 { f: A(1), x: A(1) }, T::V1 { f: A(7), x: A(1) }, T::V1 { f: A(7), x: A(7) }, T::Some(A(1), A(7)), T::Some(A(0), A(7)), T::Some(A(0), A(0)), T::Some(A(7), A(0)), T::Some(A(1), A(1)), T::Some(A(7), A(1)), T::Some(A(7), A(7)), T::Some(A(0), A(1)), T::Unit] }
pub fn show(x: &T) -> String { #[allow(unused_variables)] match x { T::V1 { f: p0, x: p1 } => format!("V1({},{})", sv(p0), sv(p1)), T::Some(p0, p1) => format!("Some({},{})", sv(p0), sv(p1)), T::Unit => format!("Unit()") } }
pub fn o_fmt(x: &T, f: &mut ::core::fmt::Formatter<'_>) -> ::core::fmt::Result { match x { T::V1 { f: p0, x: p1 } => f.debug_tuple("T::V1").field(p1).finish(), T::Some(p0, p1) => f.debug_tuple("T::Some").field(p0).field(p1).finish(), T::Unit => f.write_str("T::Ren") } }

pub fn run(out: &mut Out) { let vs = values(); for a in &vs { let g = format!("{:?}", a); let e = format!("{:?}", Fm(|f: &mut ::core::fmt::Formatter<'_>| o_fmt(a, f))); out.check(g == e, "debug_119", "debug", || format!("{{:?}} of {} = {:?} expected {:?}", show(a), g, e)); let g = format!("{:#?}", a); let e = format!("{:#?}", Fm(|f: &mut ::core::fmt::Formatter<'_>| o_fmt(a, f))); out.check(g == e, "debug_119", "debug_alt", || format!("{{:#?}} of {} = {:?} expected {:?}", show(a), g, e)); let g = format!("{:8?}", a); let e = format!("{:8?}", Fm(|f: &mut ::core::fmt::Formatter<'_>| o_fmt(a, f))); out.check(g == e, "debug_119", "debug_width", || format!("{{:8?}} of {} = {:?} expected {:?}", show(a), g, e)); }  }
