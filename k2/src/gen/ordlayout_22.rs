// ordlayout_22
#![allow(dead_code, unused_variables, unused_mut, unused_imports, non_shorthand_field_patterns, clippy::all)]
use crate::support::*;
use educe::Educe;
use core::cmp::Ordering;
#[derive(Educe)]
#[educe(Eq, PartialEq, Ord, PartialOrd)]
pub enum T { Zed { arg: bool, a: u8 }, V1(Option<u8>, Option<u8>, #[educe(Ord(rank = 8))] Option<u8>) }

pub fn values() -> Vec<T> { vec![T::Zed { arg: false, a: 0 }, T::Zed { arg: false, a: 100 }, T::Zed { arg: false, a: 200 }, T::Zed { arg: true, a: 0 }, T::Zed { arg: true, a: 100 }, T::Zed { arg: true, a: 200 }, T::V1(Some(0), None, None), T::V1(Some(0), None, Some(255)), T::V1(None, Some(255), Some(255)), T::V1(None, None, Some(255)), T::V1(Some(255), None, Some(0)), T::V1(None, Some(0), Some(0)), T::V1(Some(255), None, Some(255)), T::V1(Some(0), Some(255), Some(255)), T::V1(Some(255), Some(0), None), T::V1(Some(0), None, Some(0)), T::V1(None, Some(0), None), T::V1(None, Some(255), Some(0)), T::V1(Some(255), Some(255), None), T::V1(Some(255), Some(255), Some(255)), T::V1(Some(255), None, None), T::V1(Some(0), Some(255), None), T::V1(Some(0), Some(255), Some(0)), T::V1(None, None, None)] }
pub fn show(x: &T) -> String { #[allow(unused_variables)] match x { T::Zed { arg: p0, a: p1 } => format!("Zed({},{})", sv(p0), sv(p1)), T::V1(p0, p1, p2) => format!("V1({},{},{})", sv(p0), sv(p1), sv(p2)) } }
pub fn o_disc(x: &T) -> i128 { match x { T::Zed { arg: _, a: _ } => 0, T::V1(_, _, _) => 1 } }
pub fn o_cmp(a: &T, b: &T) -> Ordering { match (a, b) { (T::Zed { arg: a0, a: a1 }, T::Zed { arg: b0, a: b1 }) => { let c = ::core::cmp::Ord::cmp(a0, b0); if c != Ordering::Equal { return c; } let c = ::core::cmp::Ord::cmp(a1, b1); if c != Ordering::Equal { return c; } Ordering::Equal }, (T::V1(a0, a1, a2), T::V1(b0, b1, b2)) => { let c = ::core::cmp::Ord::cmp(a0, b0); if c != Ordering::Equal { return c; } let c = ::core::cmp::Ord::cmp(a1, b1); if c != Ordering::Equal { return c; } let c = ::core::cmp::Ord::cmp(a2, b2); if c != Ordering::Equal { return c; } Ordering::Equal }, _ => o_disc(a).cmp(&o_disc(b)) } }
#[repr(C)] pub struct Wrap { pub pre: u8, pub x: T, pub post: [u8; 9] }
pub fn wrap(i: usize, n: u8) -> Wrap { Wrap { pre: n, x: values().swap_remove(i), post: [n; 9] } }
pub fn run(out: &mut Out) { let vs = values(); for (i, a) in vs.iter().enumerate() { for (j, b) in vs.iter().enumerate() { let e = o_cmp(a, b); let g = ::core::cmp::Ord::cmp(a, b); out.check(g == e, "ordlayout_22", "cmp", || format!("cmp({}, {}) = {:?} expected {:?}", show(a), show(b), g, e)); let g2 = ::core::cmp::PartialOrd::partial_cmp(a, b); out.check(g2 == Some(e), "ordlayout_22", "partial_is_some_cmp", || format!("partial_cmp({}, {}) = {:?} expected Some({:?})", show(a), show(b), g2, e)); for n in [0u8, 1, 0x7f, 0x80, 0xff] { let wa = wrap(i, n); let wb = wrap(j, !n); let g = ::core::cmp::Ord::cmp(&wa.x, &wb.x); let e = o_cmp(a, b); out.check(g == e, "ordlayout_22", "cmp_neighbours", || format!("cmp({}, {}) with neighbour bytes {} = {:?} expected {:?}", show(a), show(b), n, g, e)); } } } }
