// clone_52
#![allow(dead_code, unused_variables, unused_mut, unused_imports, non_shorthand_field_patterns, clippy::all)]
use crate::support::*;
use educe::Educe;
use core::cmp::Ordering;
#[derive(Educe)]
#[educe(Clone)]
pub enum T { None(A<0>, A<1>, #[educe(Clone(method = "m_clone"))] A<2>), C(A<0>, A<0>), B, Some }
pub fn values() -> Vec<T> { vec![T::None(A(1), A(7), A(1)), T::None(A(0), A(0), A(1)), T::None(A(1), A(1), A(7)), T::None(A(0), A(1), A(1)), T::None(A(1), A(7), A(0)), T::C(A(7), A(0)), T::C(A(1), A(0)), T::C(A(0), A(0)), T::C(A(1), A(7)), T::C(A(7), A(1)), T::B, T::Some] }
pub fn show(x: &T) -> String { #[allow(unused_variables)] match x { T::None(p0, p1, p2) => format!("None({},{},{})", sv(p0), sv(p1), sv(p2)), T::C(p0, p1) => format!("C({},{})", sv(p0), sv(p1)), T::B => format!("B()"), T::Some => format!("Some()") } }
pub fn o_clone(x: &T) -> T { match x { T::None(p0, p1, p2) => T::None(A(p0.0), A(p1.0), A(p2.0.wrapping_add(50))), T::C(p0, p1) => T::C(A(p0.0), A(p1.0)), T::B => T::B, T::Some => T::Some } }
pub fn o_log(x: &T) -> Vec<String> { match x { T::None(p0, p1, p2) => vec![format!("clone A{} {}", p0.k(), p0.0), format!("clone A{} {}", p1.k(), p1.0), format!("m_clone A{} {}", p2.k(), p2.0)], T::C(p0, p1) => vec![format!("clone A{} {}", p0.k(), p0.0), format!("clone A{} {}", p1.k(), p1.0)], T::B => vec![], T::Some => vec![] } }
pub fn run(out: &mut Out) { let vs = values(); for a in &vs { let _ = take_log(); let g = ::core::clone::Clone::clone(a); let l = take_log(); let e = o_clone(a); out.check(show(&g) == show(&e), "clone_52", "clone", || format!("clone({}) = {} expected {}", show(a), show(&g), show(&e))); let el = o_log(a); out.check(l == el, "clone_52", "clone_calls", || format!("clone({}) called {:?} expected {:?}", show(a), l, el)); } let n = vs.len(); for i in 0..n { for j in 0..n { let mut x = values().swap_remove(i); let shown = show(&x); ::core::clone::Clone::clone_from(&mut x, &vs[j]); let e = o_clone(&vs[j]); out.check(show(&x) == show(&e), "clone_52", "clone_from", || format!("{}.clone_from({}) = {} expected {}", shown, show(&vs[j]), show(&x), show(&e))); } } }
