// deref_121
#![allow(dead_code, unused_variables, unused_mut, unused_imports, non_shorthand_field_patterns, clippy::all)]
use crate::support::*;
use educe::Educe;
use core::cmp::Ordering;
#[derive(Educe)]
#[educe(DerefMut, Deref)]
pub enum T { None { #[educe(Deref)] #[educe(DerefMut)] _0: A<2>, source: A<1> }, B(A<2>, #[educe(Deref)] A<2>, #[educe(DerefMut)] A<2>), C(#[educe(DerefMut)] A<2>, #[educe(Deref)] A<2>, A<2>, A<1>) }
pub fn values() -> Vec<T> { vec![T::None { _0: A(0), source: A(7) }, T::None { _0: A(1), source: A(7) }, T::None { _0: A(7), source: A(1) }, T::None { _0: A(0), source: A(1) }, T::None { _0: A(1), source: A(0) }, T::B(A(1), A(0), A(0)), T::B(A(0), A(7), A(7)), T::B(A(0), A(0), A(1)), T::B(A(0), A(7), A(1)), T::B(A(0), A(1), A(1)), T::C(A(0), A(7), A(0), A(1)), T::C(A(0), A(1), A(1), A(1)), T::C(A(1), A(1), A(7), A(1)), T::C(A(0), A(7), A(7), A(0)), T::C(A(7), A(0), A(0), A(7))] }
pub fn show(x: &T) -> String { #[allow(unused_variables)] match x { T::None { _0: p0, source: p1 } => format!("None({},{})", sv(p0), sv(p1)), T::B(p0, p1, p2) => format!("B({},{},{})", sv(p0), sv(p1), sv(p2)), T::C(p0, p1, p2, p3) => format!("C({},{},{},{})", sv(p0), sv(p1), sv(p2), sv(p3)) } }
pub fn o_deref(x: &T) -> *const A<2> { match x { T::None { _0: p0, source: _ } => p0 as *const A<2>, T::B(_, p1, _) => p1 as *const A<2>, T::C(_, p1, _, _) => p1 as *const A<2> } }
pub fn o_deref_mut(x: &mut T) -> *mut A<2> { match x { T::None { _0: p0, source: _ } => p0 as *mut A<2>, T::B(_, _, p2) => p2 as *mut A<2>, T::C(p0, _, _, _) => p0 as *mut A<2> } }
pub fn o_write(x: &mut T) { match x { T::None { _0: p0, source: _ } => { *p0 = A(99); }, T::B(_, _, p2) => { *p2 = A(99); }, T::C(p0, _, _, _) => { *p0 = A(99); } } }
pub fn run(out: &mut Out) { let vs = values(); for a in &vs { let g = ::core::ops::Deref::deref(a) as *const A<2>; let e = o_deref(a); out.check(g == e, "deref_121", "deref", || format!("&*{} has another address than the designated field", show(a))); } let n = vs.len(); for i in 0..n { let mut x = values().swap_remove(i); let e = o_deref_mut(&mut x); let g = ::core::ops::DerefMut::deref_mut(&mut x) as *mut A<2>; out.check(g == e, "deref_121", "deref_mut", || format!("&mut *{} has another address than the designated field", show(&x))); let mut y = values().swap_remove(i); o_write(&mut y); *::core::ops::DerefMut::deref_mut(&mut x) = A(99); out.check(show(&x) == show(&y), "deref_121", "deref_mut_write", || format!("after a write through &mut *x: {} expected {}", show(&x), show(&y))); } }
