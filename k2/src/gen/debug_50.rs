// debug_50
#![allow(dead_code, unused_variables, unused_mut, unused_imports, non_shorthand_field_patterns, clippy::all)]
use crate::support::*;
use educe::Educe;
use core::cmp::Ordering;
#[derive(Educe)]
#[educe(Debug)]
pub enum T { A { #[educe(Debug(rename("k0")))] _0: A<0> }, #[educe(Debug(named_field = true, name = Ren))] None(#[educe(Debug(name(k0), method = m_fmt))] A<0>, A<1>, #[educe(Debug(ignore = true))] A<0>), #[educe(Debug(name(false)))] Zed { #[educe(Debug(method = "m_fmt"))] source: A<0>, #[educe(Debug(method(m_fmt)))] c: A<1> } }
pub fn values() -> Vec<T> { vec![T::A { _0: A(0) }, T::A { _0: A(1) }, T::A { _0: A(7) }, T::None(A(1), A(1), A(7)), T::None(A(0), A(0), A(7)), T::None(A(7), A(0), A(7)), T::None(A(7), A(7), A(7)), T::None(A(1), A(7), A(7)), T::None(A(0), A(0), A(1)), T::None(A(0), A(0), A(0)), T::None(A(0), A(1), A(7)), T::Zed { source: A(7), c: A(0) }, T::Zed { source: A(1), c: A(1) }, T::Zed { source: A(1), c: A(7) }, T::Zed { source: A(0), c: A(7) }, T::Zed { source: A(1), c: A(0) }, T::Zed { source: A(7), c: A(1) }, T::Zed { source: A(7), c: A(7) }, T::Zed { source: A(0), c: A(0) }] }
pub fn show(x: &T) -> String { #[allow(unused_variables)] match x { T::A { _0: p0 } => format!("A({})", sv(p0)), T::None(p0, p1, p2) => format!("None({},{},{})", sv(p0), sv(p1), sv(p2)), T::Zed { source: p0, c: p1 } => format!("Zed({},{})", sv(p0), sv(p1)) } }
pub fn o_fmt(x: &T, f: &mut ::core::fmt::Formatter<'_>) -> ::core::fmt::Result { match x { T::A { _0: p0 } => f.debug_struct("A").field("k0", p0).finish(), T::None(p0, p1, p2) => f.debug_struct("Ren").field("k0", &Wm(p0)).field("_1", p1).finish(), T::Zed { source: p0, c: p1 } => f.debug_map().entry(&Raw("source"), &Wm(p0)).entry(&Raw("c"), &Wm(p1)).finish() } }

pub fn run(out: &mut Out) { let vs = values(); for a in &vs { let g = format!("{:?}", a); let e = format!("{:?}", Fm(|f: &mut ::core::fmt::Formatter<'_>| o_fmt(a, f))); out.check(g == e, "debug_50", "debug", || format!("{{:?}} of {} = {:?} expected {:?}", show(a), g, e)); let g = format!("{:#?}", a); let e = format!("{:#?}", Fm(|f: &mut ::core::fmt::Formatter<'_>| o_fmt(a, f))); out.check(g == e, "debug_50", "debug_alt", || format!("{{:#?}} of {} = {:?} expected {:?}", show(a), g, e)); let g = format!("{:8?}", a); let e = format!("{:8?}", Fm(|f: &mut ::core::fmt::Formatter<'_>| o_fmt(a, f))); out.check(g == e, "debug_50", "debug_width", || format!("{{:8?}} of {} = {:?} expected {:?}", show(a), g, e)); }  }
