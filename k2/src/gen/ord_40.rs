// ord_40
#![allow(dead_code, unused_variables, unused_mut, unused_imports, non_shorthand_field_patterns, clippy::all)]
use crate::support::*;
use educe::Educe;
use core::cmp::Ordering;
#[derive(Educe)]
#[educe(PartialEq, Eq, PartialOrd)]
pub struct T { #[educe(PartialOrd(rank = 0x1))] data: A<0>, #[educe(PartialOrd(method = m_pcmp))] source: A<1> }

pub fn values() -> Vec<T> { vec![T { data: A(0), source: A(0) }, T { data: A(0), source: A(1) }, T { data: A(0), source: A(7) }, T { data: A(1), source: A(0) }, T { data: A(1), source: A(1) }, T { data: A(1), source: A(7) }, T { data: A(7), source: A(0) }, T { data: A(7), source: A(1) }, T { data: A(7), source: A(7) }] }
pub fn show(x: &T) -> String { #[allow(unused_variables)] match x { T { data: p0, source: p1 } => format!("T({},{})", sv(p0), sv(p1)) } }
pub fn o_disc(x: &T) -> i128 { match x { T { data: _, source: _ } => 0 } }
pub fn o_pcmp(a: &T, b: &T) -> Option<Ordering> { match (a, b) { (T { data: a0, source: a1 }, T { data: b0, source: b1 }) => { match m_pcmp(a1, b1) { Some(Ordering::Equal) => (), x => return x } match ::core::cmp::PartialOrd::partial_cmp(a0, b0) { Some(Ordering::Equal) => (), x => return x } Some(Ordering::Equal) } } }
pub fn run(out: &mut Out) { let vs = values(); for (i, a) in vs.iter().enumerate() { for (j, b) in vs.iter().enumerate() { let e = o_pcmp(a, b); let g = ::core::cmp::PartialOrd::partial_cmp(a, b); out.check(g == e, "ord_40", "partial_cmp", || format!("partial_cmp({}, {}) = {:?} expected {:?}", show(a), show(b), g, e)); } } }
