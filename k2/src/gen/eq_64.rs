// eq_64
#![allow(dead_code, unused_variables, unused_mut, unused_imports, non_shorthand_field_patterns, clippy::all)]
use crate::support::*;
use educe::Educe;
use core::cmp::Ordering;
#[derive(Educe)]
#[educe(PartialEq)]
pub enum T { Unit, None(A<0>, #[educe(PartialEq(method("m_eq")))] A<0>, A<0>, #[educe(PartialEq(ignore(true)))] A<3>), Zed, C() }
pub fn values() -> Vec<T> { vec![T::Unit, T::None(A(1), A(0), A(1), A(1)), T::None(A(1), A(0), A(7), A(7)), T::None(A(0), A(7), A(0), A(7)), T::None(A(0), A(7), A(0), A(1)), T::None(A(1), A(7), A(0), A(1)), T::None(A(7), A(7), A(0), A(7)), T::None(A(1), A(0), A(1), A(7)), T::None(A(7), A(0), A(1), A(0)), T::None(A(0), A(1), A(1), A(1)), T::None(A(1), A(1), A(7), A(7)), T::None(A(1), A(7), A(7), A(0)), T::None(A(7), A(0), A(7), A(0)), T::Zed, T::C()] }
pub fn show(x: &T) -> String { #[allow(unused_variables)] match x { T::Unit => format!("Unit()"), T::None(p0, p1, p2, p3) => format!("None({},{},{},{})", sv(p0), sv(p1), sv(p2), sv(p3)), T::Zed => format!("Zed()"), T::C() => format!("C()") } }
pub fn o_eq(a: &T, b: &T) -> bool { match (a, b) { (T::Unit, T::Unit) => true, (T::None(a0, a1, a2, a3), T::None(b0, b1, b2, b3)) => (a0 == b0) && m_eq(a1, b1) && (a2 == b2), (T::Zed, T::Zed) => true, (T::C(), T::C()) => true, _ => false } }
pub fn run(out: &mut Out) { let vs = values(); for a in &vs { for b in &vs { let e = o_eq(a, b); out.check((a == b) == e, "eq_64", "eq", || format!("{} == {} expected {}", show(a), show(b), e)); out.check((a != b) == !e, "eq_64", "ne", || format!("{} != {} expected {}", show(a), show(b), !e)); } } }
