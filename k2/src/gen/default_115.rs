// default_115
#![allow(dead_code, unused_variables, unused_mut, unused_imports, non_shorthand_field_patterns, clippy::all)]
use crate::support::*;
use educe::Educe;
use core::cmp::Ordering;
#[derive(Educe)]
#[educe(Default(new(true)))]
pub struct T { #[educe(Default = 77)] data: i128, #[educe(Default = 77)] b: i128 }
pub fn show(x: &T) -> String { #[allow(unused_variables)] match x { T { data: p0, b: p1 } => format!("T({},{})", sv(p0), sv(p1)) } }
pub fn o_default() -> T { T { data: 77i128, b: 77i128 } }
pub fn run(out: &mut Out) { let g = <T as ::core::default::Default>::default(); let e = o_default(); out.check(show(&g) == show(&e), "default_115", "default", || format!("default() = {} expected {}", show(&g), show(&e))); let g = T::new(); let e = o_default(); out.check(show(&g) == show(&e), "default_115", "new", || format!("new() = {} expected {}", show(&g), show(&e))); }
