// ordlayout_10
#![allow(dead_code, unused_variables, unused_mut, unused_imports, non_shorthand_field_patterns, clippy::all)]
use crate::support::*;
use educe::Educe;
use core::cmp::Ordering;
#[derive(Educe)]
#[educe(PartialEq, Ord, Eq, PartialOrd)]
pub enum T { B(#[educe(Ord(rank = 8))] i64, char), Unit, A((), (), #[educe(Ord(rank = 7))] Option<u8>), None { r#type: i64, other: bool } }

pub fn values() -> Vec<T> { vec![T::B(-5, 'a'), T::B(-5, 'z'), T::B(0, 'a'), T::B(0, 'z'), T::B(9, 'a'), T::B(9, 'z'), T::Unit, T::A((), (), None), T::A((), (), Some(0)), T::A((), (), Some(255)), T::None { r#type: -5, other: false }, T::None { r#type: -5, other: true }, T::None { r#type: 0, other: false }, T::None { r#type: 0, other: true }, T::None { r#type: 9, other: false }, T::None { r#type: 9, other: true }] }
pub fn show(x: &T) -> String { #[allow(unused_variables)] match x { T::B(p0, p1) => format!("B({},{})", sv(p0), sv(p1)), T::Unit => format!("Unit()"), T::A(p0, p1, p2) => format!("A({},{},{})", sv(p0), sv(p1), sv(p2)), T::None { r#type: p0, other: p1 } => format!("None({},{})", sv(p0), sv(p1)) } }
pub fn o_disc(x: &T) -> i128 { match x { T::B(_, _) => 0, T::Unit => 1, T::A(_, _, _) => 2, T::None { r#type: _, other: _ } => 3 } }
pub fn o_cmp(a: &T, b: &T) -> Ordering { match (a, b) { (T::B(a0, a1), T::B(b0, b1)) => { let c = ::core::cmp::Ord::cmp(a1, b1); if c != Ordering::Equal { return c; } let c = ::core::cmp::Ord::cmp(a0, b0); if c != Ordering::Equal { return c; } Ordering::Equal }, (T::Unit, T::Unit) => {  Ordering::Equal }, (T::A(a0, a1, a2), T::A(b0, b1, b2)) => { let c = ::core::cmp::Ord::cmp(a0, b0); if c != Ordering::Equal { return c; } let c = ::core::cmp::Ord::cmp(a1, b1); if c != Ordering::Equal { return c; } let c = ::core::cmp::Ord::cmp(a2, b2); if c != Ordering::Equal { return c; } Ordering::Equal }, (T::None { r#type: a0, other: a1 }, T::None { r#type: b0, other: b1 }) => { let c = ::core::cmp::Ord::cmp(a0, b0); if c != Ordering::Equal { return c; } let c = ::core::cmp::Ord::cmp(a1, b1); if c != Ordering::Equal { return c; } Ordering::Equal }, _ => o_disc(a).cmp(&o_disc(b)) } }
#[repr(C)] pub struct Wrap { pub pre: u8, pub x: T, pub post: [u8; 9] }
pub fn wrap(i: usize, n: u8) -> Wrap { Wrap { pre: n, x: values().swap_remove(i), post: [n; 9] } }
pub fn run(out: &mut Out) { let vs = values(); for (i, a) in vs.iter().enumerate() { for (j, b) in vs.iter().enumerate() { let e = o_cmp(a, b); let g = ::core::cmp::Ord::cmp(a, b); out.check(g == e, "ordlayout_10", "cmp", || format!("cmp({}, {}) = {:?} expected {:?}", show(a), show(b), g, e)); let g2 = ::core::cmp::PartialOrd::partial_cmp(a, b); out.check(g2 == Some(e), "ordlayout_10", "partial_is_some_cmp", || format!("partial_cmp({}, {}) = {:?} expected Some({:?})", show(a), show(b), g2, e)); for n in [0u8, 1, 0x7f, 0x80, 0xff] { let wa = wrap(i, n); let wb = wrap(j, !n); let g = ::core::cmp::Ord::cmp(&wa.x, &wb.x); let e = o_cmp(a, b); out.check(g == e, "ordlayout_10", "cmp_neighbours", || format!("cmp({}, {}) with neighbour bytes {} = {:?} expected {:?}", show(a), show(b), n, g, e)); } } } }
