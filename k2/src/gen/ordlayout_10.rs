// ordlayout_10
#![allow(dead_code, unused_variables, unused_mut, unused_imports, non_shorthand_field_patterns, clippy::all)]
use crate::support::*;
use educe::Educe;
use core::cmp::Ordering;
#[derive(Educe)]
#[repr(i64)]
#[educe(Eq, PartialEq, Ord)]
pub enum T { Some(#[educe(Ord(rank = "-1"))] ::core::num::NonZeroU8, u8, #[educe(Ord(rank(1)))] u8) = 127, C { #[educe(Ord(rank = 0x3))] c: i64 } = 0, Unit(#[educe(Ord(rank = 6i64))] u8, #[educe(Ord(rank = 0x2))] Option<u8>) = 70000, V1 = 100 }
impl PartialOrd for T { fn partial_cmp(&self, o: &Self) -> Option<Ordering> { Some(::core::cmp::Ord::cmp(self, o)) } }
pub fn values() -> Vec<T> { vec![T::Some(::core::num::NonZeroU8::new(1).unwrap(), 100, 200), T::Some(::core::num::NonZeroU8::new(200).unwrap(), 100, 200), T::Some(::core::num::NonZeroU8::new(1).unwrap(), 200, 0), T::Some(::core::num::NonZeroU8::new(200).unwrap(), 100, 100), T::Some(::core::num::NonZeroU8::new(1).unwrap(), 200, 100), T::Some(::core::num::NonZeroU8::new(200).unwrap(), 0, 200), T::Some(::core::num::NonZeroU8::new(200).unwrap(), 0, 0), T::Some(::core::num::NonZeroU8::new(200).unwrap(), 200, 200), T::Some(::core::num::NonZeroU8::new(200).unwrap(), 100, 0), T::C { c: -5 }, T::C { c: 0 }, T::C { c: 9 }, T::Unit(0, None), T::Unit(0, Some(0)), T::Unit(0, Some(255)), T::Unit(100, None), T::Unit(100, Some(0)), T::Unit(100, Some(255)), T::Unit(200, None), T::Unit(200, Some(0)), T::Unit(200, Some(255)), T::V1] }
pub fn show(x: &T) -> String { #[allow(unused_variables)] match x { T::Some(p0, p1, p2) => format!("Some({},{},{})", sv(p0), sv(p1), sv(p2)), T::C { c: p0 } => format!("C({})", sv(p0)), T::Unit(p0, p1) => format!("Unit({},{})", sv(p0), sv(p1)), T::V1 => format!("V1()") } }
pub fn o_disc(x: &T) -> i128 { match x { T::Some(_, _, _) => 127, T::C { c: _ } => 0, T::Unit(_, _) => 70000, T::V1 => 100 } }
pub fn o_cmp(a: &T, b: &T) -> Ordering { match (a, b) { (T::Some(a0, a1, a2), T::Some(b0, b1, b2)) => { let c = ::core::cmp::Ord::cmp(a1, b1); if c != Ordering::Equal { return c; } let c = ::core::cmp::Ord::cmp(a0, b0); if c != Ordering::Equal { return c; } let c = ::core::cmp::Ord::cmp(a2, b2); if c != Ordering::Equal { return c; } Ordering::Equal }, (T::C { c: a0 }, T::C { c: b0 }) => { let c = ::core::cmp::Ord::cmp(a0, b0); if c != Ordering::Equal { return c; } Ordering::Equal }, (T::Unit(a0, a1), T::Unit(b0, b1)) => { let c = ::core::cmp::Ord::cmp(a1, b1); if c != Ordering::Equal { return c; } let c = ::core::cmp::Ord::cmp(a0, b0); if c != Ordering::Equal { return c; } Ordering::Equal }, (T::V1, T::V1) => {  Ordering::Equal }, _ => o_disc(a).cmp(&o_disc(b)) } }
#[repr(C)] pub struct Wrap { pub pre: u8, pub x: T, pub post: [u8; 9] }
pub fn wrap(i: usize, n: u8) -> Wrap { Wrap { pre: n, x: values().swap_remove(i), post: [n; 9] } }
pub fn run(out: &mut Out) { let vs = values(); for (i, a) in vs.iter().enumerate() { for (j, b) in vs.iter().enumerate() { let e = o_cmp(a, b); let g = ::core::cmp::Ord::cmp(a, b); out.check(g == e, "ordlayout_10", "cmp", || format!("cmp({}, {}) = {:?} expected {:?}", show(a), show(b), g, e)); for n in [0u8, 1, 0x7f, 0x80, 0xff] { let wa = wrap(i, n); let wb = wrap(j, !n); let g = ::core::cmp::Ord::cmp(&wa.x, &wb.x); let e = o_cmp(a, b); out.check(g == e, "ordlayout_10", "cmp_neighbours", || format!("cmp({}, {}) with neighbour bytes {} = {:?} expected {:?}", show(a), show(b), n, g, e)); } } } }
