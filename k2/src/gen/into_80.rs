// into_80
#![allow(dead_code, unused_variables, unused_mut, unused_imports, non_shorthand_field_patterns, clippy::all)]
use crate::support::*;
use educe::Educe;
use core::cmp::Ordering;
#[derive(Educe)]
#[educe(Into(B<0>))]
pub enum T { C(A<3>, #[educe(Into(B<0>))] A<1>), Zed { #[educe(Into(B<0>))] y: A<1>, c: A<2> }, Unit(A<2>, #[educe(Into(B<0>))] A<2>) }
pub fn values() -> Vec<T> { vec![T::C(A(7), A(1)), T::C(A(1), A(0)), T::C(A(7), A(0)), T::C(A(0), A(7)), T::Zed { y: A(7), c: A(7) }, T::Zed { y: A(7), c: A(1) }, T::Zed { y: A(1), c: A(7) }, T::Zed { y: A(1), c: A(1) }, T::Unit(A(7), A(1)), T::Unit(A(0), A(7)), T::Unit(A(1), A(7)), T::Unit(A(0), A(0))] }
pub fn show(x: &T) -> String { #[allow(unused_variables)] match x { T::C(p0, p1) => format!("C({},{})", sv(p0), sv(p1)), T::Zed { y: p0, c: p1 } => format!("Zed({},{})", sv(p0), sv(p1)), T::Unit(p0, p1) => format!("Unit({},{})", sv(p0), sv(p1)) } }
pub fn o_into_0(x: T) -> B<0> { match x { T::C(_, p1) => ::core::convert::Into::into(p1), T::Zed { y: p0, c: _ } => ::core::convert::Into::into(p0), T::Unit(_, p1) => ::core::convert::Into::into(p1) } }
pub fn run(out: &mut Out) { let n = values().len(); for i in 0..n { let a = values().swap_remove(i); let shown = show(&a); let g: B<0> = ::core::convert::Into::into(a); let e = o_into_0(values().swap_remove(i)); out.check(sv(&g) == sv(&e), "into_80", "into", || format!("Into::<B<0>>::into({}) = {} expected {}", shown, sv(&g), sv(&e))); } }
