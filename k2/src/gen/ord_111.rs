// ord_111
#![allow(dead_code, unused_variables, unused_mut, unused_imports, non_shorthand_field_patterns, clippy::all)]
use crate::support::*;
use core::cmp::Ordering;
pub mod ty {
    #![deny(warnings)]
    #![allow(dead_code, unused_imports, non_snake_case)]
    use crate::support::{A, B, C, Good, Bad, m_eq, m_cmp, m_pcmp, m_hash, m_fmt, m_clone, m_clone_c, m_into, g_eq, g_cmp, g_pcmp, g_hash, g_fmt};
    use educe::Educe;
#[derive(Educe)]
#[educe(PartialOrd, PartialEq, Eq)]
#[educe(Debug)]
pub struct T { #[educe(Debug(ignore = true), PartialOrd(rank = -1))] pub b: A<0>, #[educe(Debug(ignore = false))] #[educe(PartialOrd(ignore(true)))] pub y: A<1>, #[educe(PartialOrd(method = m_pcmp))] pub _y: A<0> }
}
pub use ty::T;

pub fn values() -> Vec<T> { vec![T { b: A(0), y: A(0), _y: A(0) }, T { b: A(0), y: A(0), _y: A(1) }, T { b: A(0), y: A(0), _y: A(7) }, T { b: A(0), y: A(1), _y: A(0) }, T { b: A(0), y: A(1), _y: A(1) }, T { b: A(0), y: A(1), _y: A(7) }, T { b: A(0), y: A(7), _y: A(0) }, T { b: A(0), y: A(7), _y: A(1) }, T { b: A(0), y: A(7), _y: A(7) }, T { b: A(1), y: A(0), _y: A(0) }, T { b: A(1), y: A(0), _y: A(1) }, T { b: A(1), y: A(0), _y: A(7) }, T { b: A(1), y: A(1), _y: A(0) }, T { b: A(1), y: A(1), _y: A(1) }, T { b: A(1), y: A(1), _y: A(7) }, T { b: A(1), y: A(7), _y: A(0) }, T { b: A(1), y: A(7), _y: A(1) }, T { b: A(1), y: A(7), _y: A(7) }, T { b: A(7), y: A(0), _y: A(0) }, T { b: A(7), y: A(0), _y: A(1) }, T { b: A(7), y: A(0), _y: A(7) }, T { b: A(7), y: A(1), _y: A(0) }, T { b: A(7), y: A(1), _y: A(1) }, T { b: A(7), y: A(1), _y: A(7) }, T { b: A(7), y: A(7), _y: A(0) }, T { b: A(7), y: A(7), _y: A(1) }, T { b: A(7), y: A(7), _y: A(7) }] }
pub fn show(x: &T) -> String { #[allow(unused_variables)] match x { T { b: p0, y: p1, _y: p2 } => format!("T({},{},{})", sv(p0), sv(p1), sv(p2)) } }
pub fn o_disc(x: &T) -> i128 { match x { T { b: _, y: _, _y: _ } => 0 } }
pub fn o_pcmp(a: &T, b: &T) -> Option<Ordering> { match (a, b) { (T { b: a0, y: a1, _y: a2 }, T { b: b0, y: b1, _y: b2 }) => { match m_pcmp(a2, b2) { Some(Ordering::Equal) => (), x => return x } match ::core::cmp::PartialOrd::partial_cmp(a0, b0) { Some(Ordering::Equal) => (), x => return x } Some(Ordering::Equal) } } }
pub fn run(out: &mut Out) { let vs = values(); for (i, a) in vs.iter().enumerate() { for (j, b) in vs.iter().enumerate() { let e = o_pcmp(a, b); let g = ::core::cmp::PartialOrd::partial_cmp(a, b); out.check(g == e, "ord_111", "partial_cmp", || format!("partial_cmp({}, {}) = {:?} expected {:?}", show(a), show(b), g, e)); } } }
