// ord_111
#![allow(dead_code, unused_variables, unused_mut, unused_imports, non_shorthand_field_patterns, clippy::all)]
use crate::support::*;
use educe::Educe;
use core::cmp::Ordering;
#[derive(Educe)]
#[educe(Ord, PartialEq, Eq)]
pub struct T { #[educe(Ord(ignore(true)))] y: A<0>, #[educe(Ord(method(m_cmp), rank(-1)))] x: A<0>, #[educe(Ord(ignore))] source: A<0> }
impl PartialOrd for T { fn partial_cmp(&self, o: &Self) -> Option<Ordering> { Some(::core::cmp::Ord::cmp(self, o)) } }
pub fn values() -> Vec<T> { vec![T { y: A(0), x: A(0), source: A(0) }, T { y: A(0), x: A(0), source: A(1) }, T { y: A(0), x: A(0), source: A(7) }, T { y: A(0), x: A(1), source: A(0) }, T { y: A(0), x: A(1), source: A(1) }, T { y: A(0), x: A(1), source: A(7) }, T { y: A(0), x: A(7), source: A(0) }, T { y: A(0), x: A(7), source: A(1) }, T { y: A(0), x: A(7), source: A(7) }, T { y: A(1), x: A(0), source: A(0) }, T { y: A(1), x: A(0), source: A(1) }, T { y: A(1), x: A(0), source: A(7) }, T { y: A(1), x: A(1), source: A(0) }, T { y: A(1), x: A(1), source: A(1) }, T { y: A(1), x: A(1), source: A(7) }, T { y: A(1), x: A(7), source: A(0) }, T { y: A(1), x: A(7), source: A(1) }, T { y: A(1), x: A(7), source: A(7) }, T { y: A(7), x: A(0), source: A(0) }, T { y: A(7), x: A(0), source: A(1) }, T { y: A(7), x: A(0), source: A(7) }, T { y: A(7), x: A(1), source: A(0) }, T { y: A(7), x: A(1), source: A(1) }, T { y: A(7), x: A(1), source: A(7) }, T { y: A(7), x: A(7), source: A(0) }, T { y: A(7), x: A(7), source: A(1) }, T { y: A(7), x: A(7), source: A(7) }] }
pub fn show(x: &T) -> String { #[allow(unused_variables)] match x { T { y: p0, x: p1, source: p2 } => format!("T({},{},{})", sv(p0), sv(p1), sv(p2)) } }
pub fn o_disc(x: &T) -> i128 { match x { T { y: _, x: _, source: _ } => 0 } }
pub fn o_cmp(a: &T, b: &T) -> Ordering { match (a, b) { (T { y: a0, x: a1, source: a2 }, T { y: b0, x: b1, source: b2 }) => { let c = m_cmp(a1, b1); if c != Ordering::Equal { return c; } Ordering::Equal } } }
pub fn run(out: &mut Out) { let vs = values(); for (i, a) in vs.iter().enumerate() { for (j, b) in vs.iter().enumerate() { let e = o_cmp(a, b); let g = ::core::cmp::Ord::cmp(a, b); out.check(g == e, "ord_111", "cmp", || format!("cmp({}, {}) = {:?} expected {:?}", show(a), show(b), g, e)); } } }
