// deref_80
#![allow(dead_code, unused_variables, unused_mut, unused_imports, non_shorthand_field_patterns, clippy::all)]
use crate::support::*;
use educe::Educe;
use core::cmp::Ordering;
#[derive(Educe)]
#[educe(Deref)]
pub enum T { A(#[educe(Deref)] &'static A<0>), C(#[educe(Deref)] &'static A<0>), None { b: A<0>, #[educe(Deref)] c: &'static A<0> }, B { #[educe(Deref)] data: &'static A<0>, arg: A<0> } }
pub fn values() -> Vec<T> { vec![T::A(&A(0)), T::A(&A(1)), T::C(&A(0)), T::C(&A(1)), T::None { b: A(1), c: &A(0) }, T::None { b: A(0), c: &A(0) }, T::None { b: A(7), c: &A(1) }, T::None { b: A(0), c: &A(1) }, T::B { data: &A(1), arg: A(0) }, T::B { data: &A(0), arg: A(0) }, T::B { data: &A(1), arg: A(1) }, T::B { data: &A(1), arg: A(7) }] }
pub fn show(x: &T) -> String { #[allow(unused_variables)] match x { T::A(p0) => format!("A({})", sv(p0)), T::C(p0) => format!("C({})", sv(p0)), T::None { b: p0, c: p1 } => format!("None({},{})", sv(p0), sv(p1)), T::B { data: p0, arg: p1 } => format!("B({},{})", sv(p0), sv(p1)) } }
pub fn o_deref(x: &T) -> *const A<0> { match x { T::A(p0) => *p0 as *const A<0>, T::C(p0) => *p0 as *const A<0>, T::None { b: _, c: p1 } => *p1 as *const A<0>, T::B { data: p0, arg: _ } => *p0 as *const A<0> } }
pub fn run(out: &mut Out) { let vs = values(); for a in &vs { let g = ::core::ops::Deref::deref(a) as *const A<0>; let e = o_deref(a); out.check(g == e, "deref_80", "deref", || format!("&*{} has another address than the designated field", show(a))); } }
