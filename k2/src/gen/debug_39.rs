// debug_39
#![allow(dead_code, unused_variables, unused_mut, unused_imports, non_shorthand_field_patterns, clippy::all)]
use crate::support::*;
use educe::Educe;
use core::cmp::Ordering;
#[derive(Educe)]
#[educe(Debug(name(true)))]
pub enum T { C, None, Some(#[educe(Debug(method(m_fmt)))] A<0>, A<1>, #[educe(Debug = false)] A<2>, #[educe(Debug = false)] A<3>) }
pub fn values() -> Vec<T> { vec![T::C, T::None, T::Some(A(7), A(0), A(1), A(0)), T::Some(A(0), A(0), A(7), A(7)), T::Some(A(7), A(7), A(1), A(1)), T::Some(A(0), A(7), A(0), A(7)), T::Some(A(1), A(7), A(0), A(1)), T::Some(A(0), A(0), A(7), A(1)), T::Some(A(1), A(1), A(0), A(7)), T::Some(A(7), A(7), A(7), A(1))] }
pub fn show(x: &T) -> String { #[allow(unused_variables)] match x { T::C => format!("C()"), T::None => format!("None()"), T::Some(p0, p1, p2, p3) => format!("Some({},{},{},{})", sv(p0), sv(p1), sv(p2), sv(p3)) } }
pub fn o_fmt(x: &T, f: &mut ::core::fmt::Formatter<'_>) -> ::core::fmt::Result { match x { T::C => f.write_str("T::C"), T::None => f.write_str("T::None"), T::Some(p0, p1, p2, p3) => f.debug_tuple("T::Some").field(&Wm(p0)).field(p1).finish() } }

pub fn run(out: &mut Out) { let vs = values(); for a in &vs { let g = format!("{:?}", a); let e = format!("{:?}", Fm(|f: &mut ::core::fmt::Formatter<'_>| o_fmt(a, f))); out.check(g == e, "debug_39", "debug", || format!("{{:?}} of {} = {:?} expected {:?}", show(a), g, e)); let g = format!("{:#?}", a); let e = format!("{:#?}", Fm(|f: &mut ::core::fmt::Formatter<'_>| o_fmt(a, f))); out.check(g == e, "debug_39", "debug_alt", || format!("{{:#?}} of {} = {:?} expected {:?}", show(a), g, e)); let g = format!("{:8?}", a); let e = format!("{:8?}", Fm(|f: &mut ::core::fmt::Formatter<'_>| o_fmt(a, f))); out.check(g == e, "debug_39", "debug_width", || format!("{{:8?}} of {} = {:?} expected {:?}", show(a), g, e)); }  }
