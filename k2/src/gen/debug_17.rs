// debug_17
#![allow(dead_code, unused_variables, unused_mut, unused_imports, non_shorthand_field_patterns, clippy::all)]
use crate::support::*;
use educe::Educe;
use core::cmp::Ordering;
#[derive(Educe)]
#[educe(Debug(name = true))]
pub struct T { size: A<0>, #[educe(Debug(name = "k1"))] source: A<1>, b: A<2> }
pub fn values() -> Vec<T> { vec![T { size: A(1), source: A(7), b: A(0) }, T { size: A(7), source: A(7), b: A(0) }, T { size: A(7), source: A(0), b: A(1) }, T { size: A(0), source: A(7), b: A(1) }, T { size: A(7), source: A(7), b: A(7) }, T { size: A(7), source: A(7), b: A(1) }, T { size: A(7), source: A(1), b: A(0) }, T { size: A(1), source: A(7), b: A(1) }, T { size: A(1), source: A(0), b: A(7) }, T { size: A(0), source: A(1), b: A(7) }, T { size: A(0), source: A(7), b: A(7) }, T { size: A(7), source: A(1), b: A(7) }, T { size: A(0), source: A(1), b: A(0) }, T { size: A(7), source: A(0), b: A(0) }, T { size: A(7), source: A(0), b: A(7) }, T { size: A(0), source: A(7), b: A(0) }, T { size: A(1), source: A(0), b: A(1) }, T { size: A(1), source: A(1), b: A(0) }, T { size: A(1), source: A(1), b: A(1) }, T { size: A(1), source: A(0), b: A(0) }, T { size: A(7), source: A(1), b: A(1) }, T { size: A(0), source: A(0), b: A(0) }, T { size: A(1), source: A(1), b: A(7) }, T { size: A(0), source: A(0), b: A(1) }] }
pub fn show(x: &T) -> String { #[allow(unused_variables)] match x { T { size: p0, source: p1, b: p2 } => format!("T({},{},{})", sv(p0), sv(p1), sv(p2)) } }
pub fn o_fmt(x: &T, f: &mut ::core::fmt::Formatter<'_>) -> ::core::fmt::Result { match x { T { size: p0, source: p1, b: p2 } => f.debug_struct("T").field("size", p0).field("k1", p1).field("b", p2).finish() } }

pub fn run(out: &mut Out) { let vs = values(); for a in &vs { let g = format!("{:?}", a); let e = format!("{:?}", Fm(|f: &mut ::core::fmt::Formatter<'_>| o_fmt(a, f))); out.check(g == e, "debug_17", "debug", || format!("{{:?}} of {} = {:?} expected {:?}", show(a), g, e)); let g = format!("{:#?}", a); let e = format!("{:#?}", Fm(|f: &mut ::core::fmt::Formatter<'_>| o_fmt(a, f))); out.check(g == e, "debug_17", "debug_alt", || format!("{{:#?}} of {} = {:?} expected {:?}", show(a), g, e)); let g = format!("{:8?}", a); let e = format!("{:8?}", Fm(|f: &mut ::core::fmt::Formatter<'_>| o_fmt(a, f))); out.check(g == e, "debug_17", "debug_width", || format!("{{:8?}} of {} = {:?} expected {:?}", show(a), g, e)); }  }
