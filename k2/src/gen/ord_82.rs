// ord_82
#![allow(dead_code, unused_variables, unused_mut, unused_imports, non_shorthand_field_patterns, clippy::all)]
use crate::support::*;
use educe::Educe;
use core::cmp::Ordering;
#[derive(Educe)]
#[repr(i64)]
#[educe(PartialEq, Eq, Ord)]
pub enum T { None { #[educe(Ord(ignore(true)))] size: A<0> }, B, Zed }
impl PartialOrd for T { fn partial_cmp(&self, o: &Self) -> Option<Ordering> { Some(::core::cmp::Ord::cmp(self, o)) } }
pub fn values() -> Vec<T> { vec![T::None { size: A(0) }, T::None { size: A(1) }, T::None { size: A(7) }, T::B, T::Zed] }
pub fn show(x: &T) -> String { #[allow(unused_variables)] match x { T::None { size: p0 } => format!("None({})", sv(p0)), T::B => format!("B()"), T::Zed => format!("Zed()") } }
pub fn o_disc(x: &T) -> i128 { match x { T::None { size: _ } => 0, T::B => 1, T::Zed => 2 } }
pub fn o_cmp(a: &T, b: &T) -> Ordering { match (a, b) { (T::None { size: a0 }, T::None { size: b0 }) => {  Ordering::Equal }, (T::B, T::B) => {  Ordering::Equal }, (T::Zed, T::Zed) => {  Ordering::Equal }, _ => o_disc(a).cmp(&o_disc(b)) } }
pub fn run(out: &mut Out) { let vs = values(); for (i, a) in vs.iter().enumerate() { for (j, b) in vs.iter().enumerate() { let e = o_cmp(a, b); let g = ::core::cmp::Ord::cmp(a, b); out.check(g == e, "ord_82", "cmp", || format!("cmp({}, {}) = {:?} expected {:?}", show(a), show(b), g, e)); } } }
