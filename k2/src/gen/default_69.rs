// default_69
#![allow(dead_code, unused_variables, unused_mut, unused_imports, non_shorthand_field_patterns, clippy::all)]
use crate::support::*;
use educe::Educe;
use core::cmp::Ordering;
#[derive(Educe)]
#[educe(Default)]
pub enum T { C(), #[educe(Default)] A(char, #[educe(Default(expression(true)))] bool), None }
pub fn show(x: &T) -> String { #[allow(unused_variables)] match x { T::C() => format!("C()"), T::A(p0, p1) => format!("A({},{})", sv(p0), sv(p1)), T::None => format!("None()") } }
pub fn o_default() -> T { T::A('\0', true) }
pub fn run(out: &mut Out) { let g = <T as ::core::default::Default>::default(); let e = o_default(); out.check(show(&g) == show(&e), "default_69", "default", || format!("default() = {} expected {}", show(&g), show(&e))); }
