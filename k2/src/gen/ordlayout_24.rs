// ordlayout_24
#![allow(dead_code, unused_variables, unused_mut, unused_imports, non_shorthand_field_patterns, clippy::all)]
use crate::support::*;
use educe::Educe;
use core::cmp::Ordering;
#[derive(Educe)]
#[repr(i64)]
#[educe(PartialEq, Eq, Ord)]
pub enum T { Zed { #[educe(Ord(rank = "+5"))] f: (), #[educe(Ord(rank = 0x4))] other: () } = 1, None { #[educe(Ord(rank = "-1"))] state: i64, #[educe(Ord(rank = "1"))] builder: char }, C(#[educe(Ord(rank = "+6"))] ::core::num::NonZeroU8) = 127, V1(bool, u8) }
impl PartialOrd for T { fn partial_cmp(&self, o: &Self) -> Option<Ordering> { Some(::core::cmp::Ord::cmp(self, o)) } }
pub fn values() -> Vec<T> { vec![T::Zed { f: (), other: () }, T::None { state: -5, builder: 'a' }, T::None { state: -5, builder: 'z' }, T::None { state: 0, builder: 'a' }, T::None { state: 0, builder: 'z' }, T::None { state: 9, builder: 'a' }, T::None { state: 9, builder: 'z' }, T::C(::core::num::NonZeroU8::new(1).unwrap()), T::C(::core::num::NonZeroU8::new(200).unwrap()), T::V1(false, 0), T::V1(false, 100), T::V1(false, 200), T::V1(true, 0), T::V1(true, 100), T::V1(true, 200)] }
pub fn show(x: &T) -> String { #[allow(unused_variables)] match x { T::Zed { f: p0, other: p1 } => format!("Zed({},{})", sv(p0), sv(p1)), T::None { state: p0, builder: p1 } => format!("None({},{})", sv(p0), sv(p1)), T::C(p0) => format!("C({})", sv(p0)), T::V1(p0, p1) => format!("V1({},{})", sv(p0), sv(p1)) } }
pub fn o_disc(x: &T) -> i128 { match x { T::Zed { f: _, other: _ } => 1, T::None { state: _, builder: _ } => 2, T::C(_) => 127, T::V1(_, _) => 128 } }
pub fn o_cmp(a: &T, b: &T) -> Ordering { match (a, b) { (T::Zed { f: a0, other: a1 }, T::Zed { f: b0, other: b1 }) => { let c = ::core::cmp::Ord::cmp(a1, b1); if c != Ordering::Equal { return c; } let c = ::core::cmp::Ord::cmp(a0, b0); if c != Ordering::Equal { return c; } Ordering::Equal }, (T::None { state: a0, builder: a1 }, T::None { state: b0, builder: b1 }) => { let c = ::core::cmp::Ord::cmp(a0, b0); if c != Ordering::Equal { return c; } let c = ::core::cmp::Ord::cmp(a1, b1); if c != Ordering::Equal { return c; } Ordering::Equal }, (T::C(a0), T::C(b0)) => { let c = ::core::cmp::Ord::cmp(a0, b0); if c != Ordering::Equal { return c; } Ordering::Equal }, (T::V1(a0, a1), T::V1(b0, b1)) => { let c = ::core::cmp::Ord::cmp(a0, b0); if c != Ordering::Equal { return c; } let c = ::core::cmp::Ord::cmp(a1, b1); if c != Ordering::Equal { return c; } Ordering::Equal }, _ => o_disc(a).cmp(&o_disc(b)) } }
#[repr(C)] pub struct Wrap { pub pre: u8, pub x: T, pub post: [u8; 9] }
pub fn wrap(i: usize, n: u8) -> Wrap { Wrap { pre: n, x: values().swap_remove(i), post: [n; 9] } }
pub fn run(out: &mut Out) { let vs = values(); for (i, a) in vs.iter().enumerate() { for (j, b) in vs.iter().enumerate() { let e = o_cmp(a, b); let g = ::core::cmp::Ord::cmp(a, b); out.check(g == e, "ordlayout_24", "cmp", || format!("cmp({}, {}) = {:?} expected {:?}", show(a), show(b), g, e)); for n in [0u8, 1, 0x7f, 0x80, 0xff] { let wa = wrap(i, n); let wb = wrap(j, !n); let g = ::core::cmp::Ord::cmp(&wa.x, &wb.x); let e = o_cmp(a, b); out.check(g == e, "ordlayout_24", "cmp_neighbours", || format!("cmp({}, {}) with neighbour bytes {} = {:?} expected {:?}", show(a), show(b), n, g, e)); } } } }
