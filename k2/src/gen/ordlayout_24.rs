// ordlayout_24
#![allow(dead_code, unused_variables, unused_mut, unused_imports, non_shorthand_field_patterns, clippy::all)]
use crate::support::*;
use core::cmp::Ordering;
pub mod ty {
    #![deny(warnings)]
    #![allow(dead_code, unused_imports, non_snake_case)]
    use crate::support::{A, B, C, Good, Bad, m_eq, m_cmp, m_pcmp, m_hash, m_fmt, m_clone, m_clone_c, m_into, g_eq, g_cmp, g_pcmp, g_hash, g_fmt};
    use educe::Educe;
#[derive(Educe)]
#[repr(isize)]
#[educe(Eq, PartialOrd, PartialEq, Ord)]
pub enum T { Unit(::core::num::NonZeroU8, #[educe(PartialOrd(rank = 5))] ::core::num::NonZeroU8, i64) = -5, B { other_data: char, #[educe(PartialOrd(ignore = false, rank("3")))] self_data: u8 } }
}
pub use ty::T;

pub fn values() -> Vec<T> { vec![T::Unit(::core::num::NonZeroU8::new(1).unwrap(), ::core::num::NonZeroU8::new(1).unwrap(), -5), T::Unit(::core::num::NonZeroU8::new(1).unwrap(), ::core::num::NonZeroU8::new(1).unwrap(), 0), T::Unit(::core::num::NonZeroU8::new(1).unwrap(), ::core::num::NonZeroU8::new(1).unwrap(), 9), T::Unit(::core::num::NonZeroU8::new(1).unwrap(), ::core::num::NonZeroU8::new(200).unwrap(), -5), T::Unit(::core::num::NonZeroU8::new(1).unwrap(), ::core::num::NonZeroU8::new(200).unwrap(), 0), T::Unit(::core::num::NonZeroU8::new(1).unwrap(), ::core::num::NonZeroU8::new(200).unwrap(), 9), T::Unit(::core::num::NonZeroU8::new(200).unwrap(), ::core::num::NonZeroU8::new(1).unwrap(), -5), T::Unit(::core::num::NonZeroU8::new(200).unwrap(), ::core::num::NonZeroU8::new(1).unwrap(), 0), T::Unit(::core::num::NonZeroU8::new(200).unwrap(), ::core::num::NonZeroU8::new(1).unwrap(), 9), T::Unit(::core::num::NonZeroU8::new(200).unwrap(), ::core::num::NonZeroU8::new(200).unwrap(), -5), T::Unit(::core::num::NonZeroU8::new(200).unwrap(), ::core::num::NonZeroU8::new(200).unwrap(), 0), T::Unit(::core::num::NonZeroU8::new(200).unwrap(), ::core::num::NonZeroU8::new(200).unwrap(), 9), T::B { other_data: 'a', self_data: 0 }, T::B { other_data: 'a', self_data: 100 }, T::B { other_data: 'a', self_data: 200 }, T::B { other_data: 'z', self_data: 0 }, T::B { other_data: 'z', self_data: 100 }, T::B { other_data: 'z', self_data: 200 }] }
pub fn show(x: &T) -> String { #[allow(unused_variables)] match x { T::Unit(p0, p1, p2) => format!("Unit({},{},{})", sv(p0), sv(p1), sv(p2)), T::B { other_data: p0, self_data: p1 } => format!("B({},{})", sv(p0), sv(p1)) } }
pub fn o_disc(x: &T) -> i128 { match x { T::Unit(_, _, _) => -5, T::B { other_data: _, self_data: _ } => -4 } }
pub fn o_cmp(a: &T, b: &T) -> Ordering { match (a, b) { (T::Unit(a0, a1, a2), T::Unit(b0, b1, b2)) => { let c = ::core::cmp::Ord::cmp(a0, b0); if c != Ordering::Equal { return c; } let c = ::core::cmp::Ord::cmp(a2, b2); if c != Ordering::Equal { return c; } let c = ::core::cmp::Ord::cmp(a1, b1); if c != Ordering::Equal { return c; } Ordering::Equal }, (T::B { other_data: a0, self_data: a1 }, T::B { other_data: b0, self_data: b1 }) => { let c = ::core::cmp::Ord::cmp(a0, b0); if c != Ordering::Equal { return c; } let c = ::core::cmp::Ord::cmp(a1, b1); if c != Ordering::Equal { return c; } Ordering::Equal }, _ => o_disc(a).cmp(&o_disc(b)) } }
#[repr(C)] pub struct Wrap { pub pre: u8, pub x: T, pub post: [u8; 9] }
pub fn wrap(i: usize, n: u8) -> Wrap { Wrap { pre: n, x: values().swap_remove(i), post: [n; 9] } }
pub fn run(out: &mut Out) { let vs = values(); for (i, a) in vs.iter().enumerate() { for (j, b) in vs.iter().enumerate() { let e = o_cmp(a, b); let g = ::core::cmp::Ord::cmp(a, b); out.check(g == e, "ordlayout_24", "cmp", || format!("cmp({}, {}) = {:?} expected {:?}", show(a), show(b), g, e)); let g2 = ::core::cmp::PartialOrd::partial_cmp(a, b); out.check(g2 == Some(e), "ordlayout_24", "partial_is_some_cmp", || format!("partial_cmp({}, {}) = {:?} expected Some({:?})", show(a), show(b), g2, e)); for n in [0u8, 1, 0x7f, 0x80, 0xff] { let wa = wrap(i, n); let wb = wrap(j, !n); let g = ::core::cmp::Ord::cmp(&wa.x, &wb.x); let e = o_cmp(a, b); out.check(g == e, "ordlayout_24", "cmp_neighbours", || format!("cmp({}, {}) with neighbour bytes {} = {:?} expected {:?}", show(a), show(b), n, g, e)); } } } }
