// ordlayout_113
#![allow(dead_code, unused_variables, unused_mut, unused_imports, non_shorthand_field_patterns, clippy::all)]
use crate::support::*;
use core::cmp::Ordering;
pub mod ty {
    #![deny(warnings)]
    #![allow(dead_code, unused_imports, non_snake_case)]
    use crate::support::{A, B, C, Good, Bad, m_eq, m_cmp, m_pcmp, m_hash, m_fmt, m_clone, m_clone_c, m_into, g_eq, g_cmp, g_pcmp, g_hash, g_fmt};
    use educe::Educe;
#[derive(Educe)]
#[repr(u64)]
#[educe(PartialEq, PartialOrd, Eq)]
pub enum T { B, V1 { #[educe(PartialOrd(rank = "+5", ignore = false))] f: Option<u8>, #[educe(PartialOrd(rank = "+2"))] self_data: u8 }, A((), i64), Zed(()) }
}
pub use ty::T;

pub fn values() -> Vec<T> { vec![T::B, T::V1 { f: None, self_data: 0 }, T::V1 { f: None, self_data: 100 }, T::V1 { f: None, self_data: 200 }, T::V1 { f: Some(0), self_data: 0 }, T::V1 { f: Some(0), self_data: 100 }, T::V1 { f: Some(0), self_data: 200 }, T::V1 { f: Some(255), self_data: 0 }, T::V1 { f: Some(255), self_data: 100 }, T::V1 { f: Some(255), self_data: 200 }, T::A((), -5), T::A((), 0), T::A((), 9), T::Zed(())] }
pub fn show(x: &T) -> String { #[allow(unused_variables)] match x { T::B => format!("B()"), T::V1 { f: p0, self_data: p1 } => format!("V1({},{})", sv(p0), sv(p1)), T::A(p0, p1) => format!("A({},{})", sv(p0), sv(p1)), T::Zed(p0) => format!("Zed({})", sv(p0)) } }
pub fn o_disc(x: &T) -> i128 { match x { T::B => 0, T::V1 { f: _, self_data: _ } => 1, T::A(_, _) => 2, T::Zed(_) => 3 } }
pub fn o_pcmp(a: &T, b: &T) -> Option<Ordering> { match (a, b) { (T::B, T::B) => {  Some(Ordering::Equal) }, (T::V1 { f: a0, self_data: a1 }, T::V1 { f: b0, self_data: b1 }) => { match ::core::cmp::PartialOrd::partial_cmp(a1, b1) { Some(Ordering::Equal) => (), x => return x } match ::core::cmp::PartialOrd::partial_cmp(a0, b0) { Some(Ordering::Equal) => (), x => return x } Some(Ordering::Equal) }, (T::A(a0, a1), T::A(b0, b1)) => { match ::core::cmp::PartialOrd::partial_cmp(a0, b0) { Some(Ordering::Equal) => (), x => return x } match ::core::cmp::PartialOrd::partial_cmp(a1, b1) { Some(Ordering::Equal) => (), x => return x } Some(Ordering::Equal) }, (T::Zed(a0), T::Zed(b0)) => { match ::core::cmp::PartialOrd::partial_cmp(a0, b0) { Some(Ordering::Equal) => (), x => return x } Some(Ordering::Equal) }, _ => Some(o_disc(a).cmp(&o_disc(b))) } }
#[repr(C)] pub struct Wrap { pub pre: u8, pub x: T, pub post: [u8; 9] }
pub fn wrap(i: usize, n: u8) -> Wrap { Wrap { pre: n, x: values().swap_remove(i), post: [n; 9] } }
pub fn run(out: &mut Out) { let vs = values(); for (i, a) in vs.iter().enumerate() { for (j, b) in vs.iter().enumerate() { let e = o_pcmp(a, b); let g = ::core::cmp::PartialOrd::partial_cmp(a, b); out.check(g == e, "ordlayout_113", "partial_cmp", || format!("partial_cmp({}, {}) = {:?} expected {:?}", show(a), show(b), g, e)); for n in [0u8, 1, 0x7f, 0x80, 0xff] { let wa = wrap(i, n); let wb = wrap(j, !n); let g = ::core::cmp::PartialOrd::partial_cmp(&wa.x, &wb.x); let e = o_pcmp(a, b); out.check(g == e, "ordlayout_113", "cmp_neighbours", || format!("cmp({}, {}) with neighbour bytes {} = {:?} expected {:?}", show(a), show(b), n, g, e)); } } } }
