// ord_67
#![allow(dead_code, unused_variables, unused_mut, unused_imports, non_shorthand_field_patterns, clippy::all)]
use crate::support::*;
use core::cmp::Ordering;
pub mod ty {
    #![deny(warnings)]
    #![allow(dead_code, unused_imports, non_snake_case)]
    use crate::support::{A, B, C, Good, Bad, m_eq, m_cmp, m_pcmp, m_hash, m_fmt, m_clone, m_clone_c, m_into, g_eq, g_cmp, g_pcmp, g_hash, g_fmt};
    use educe::Educe;
#[derive(Educe)]
#[repr(i64)]
#[educe(Debug)]
#[educe(Ord, Eq, PartialOrd, PartialEq)]
pub enum T { B, A(#[educe(Debug(ignore))] #[educe(PartialOrd(rank = 3))] A<0>, #[educe(Debug = false, PartialOrd(rank = 0x2, method(m_cmp)))] A<0>) = -1, None(#[educe(PartialOrd(rank("6")), Debug(ignore = false))] A<0>, #[educe(PartialOrd(rank(-5), method(m_cmp)))] A<1>, #[educe(Debug(ignore = false), PartialOrd(rank(-3)))] A<0>) = 128 }
}
pub use ty::T;

pub fn values() -> Vec<T> { vec![T::B, T::A(A(0), A(0)), T::A(A(0), A(1)), T::A(A(0), A(7)), T::A(A(1), A(0)), T::A(A(1), A(1)), T::A(A(1), A(7)), T::A(A(7), A(0)), T::A(A(7), A(1)), T::A(A(7), A(7)), T::None(A(1), A(0), A(0)), T::None(A(1), A(1), A(0)), T::None(A(7), A(0), A(7)), T::None(A(7), A(1), A(7)), T::None(A(7), A(0), A(1)), T::None(A(0), A(7), A(7)), T::None(A(1), A(7), A(7)), T::None(A(7), A(7), A(0)), T::None(A(7), A(7), A(7)), T::None(A(0), A(1), A(7)), T::None(A(1), A(1), A(1)), T::None(A(0), A(0), A(1))] }
pub fn show(x: &T) -> String { #[allow(unused_variables)] match x { T::B => format!("B()"), T::A(p0, p1) => format!("A({},{})", sv(p0), sv(p1)), T::None(p0, p1, p2) => format!("None({},{},{})", sv(p0), sv(p1), sv(p2)) } }
pub fn o_disc(x: &T) -> i128 { match x { T::B => 0, T::A(_, _) => -1, T::None(_, _, _) => 128 } }
pub fn o_cmp(a: &T, b: &T) -> Ordering { match (a, b) { (T::B, T::B) => {  Ordering::Equal }, (T::A(a0, a1), T::A(b0, b1)) => { let c = m_cmp(a1, b1); if c != Ordering::Equal { return c; } let c = ::core::cmp::Ord::cmp(a0, b0); if c != Ordering::Equal { return c; } Ordering::Equal }, (T::None(a0, a1, a2), T::None(b0, b1, b2)) => { let c = m_cmp(a1, b1); if c != Ordering::Equal { return c; } let c = ::core::cmp::Ord::cmp(a2, b2); if c != Ordering::Equal { return c; } let c = ::core::cmp::Ord::cmp(a0, b0); if c != Ordering::Equal { return c; } Ordering::Equal }, _ => o_disc(a).cmp(&o_disc(b)) } }
pub fn run(out: &mut Out) { let vs = values(); for (i, a) in vs.iter().enumerate() { for (j, b) in vs.iter().enumerate() { let e = o_cmp(a, b); let g = ::core::cmp::Ord::cmp(a, b); out.check(g == e, "ord_67", "cmp", || format!("cmp({}, {}) = {:?} expected {:?}", show(a), show(b), g, e)); let g2 = ::core::cmp::PartialOrd::partial_cmp(a, b); out.check(g2 == Some(e), "ord_67", "partial_is_some_cmp", || format!("partial_cmp({}, {}) = {:?} expected Some({:?})", show(a), show(b), g2, e)); } } }
