// eq_139
#![allow(dead_code, unused_variables, unused_mut, unused_imports, non_shorthand_field_patterns, clippy::all)]
use crate::support::*;
use educe::Educe;
use core::cmp::Ordering;
#[derive(Educe)]
#[educe(PartialEq)]
pub struct T { #[educe(PartialEq(ignore = false))] b: A<0>, #[educe(PartialEq(method = "m_eq"))] arg: A<1>, r#type: A<0> }
pub fn values() -> Vec<T> { vec![T { b: A(0), arg: A(0), r#type: A(0) }, T { b: A(0), arg: A(0), r#type: A(1) }, T { b: A(0), arg: A(0), r#type: A(7) }, T { b: A(0), arg: A(1), r#type: A(0) }, T { b: A(0), arg: A(1), r#type: A(1) }, T { b: A(0), arg: A(1), r#type: A(7) }, T { b: A(0), arg: A(7), r#type: A(0) }, T { b: A(0), arg: A(7), r#type: A(1) }, T { b: A(0), arg: A(7), r#type: A(7) }, T { b: A(1), arg: A(0), r#type: A(0) }, T { b: A(1), arg: A(0), r#type: A(1) }, T { b: A(1), arg: A(0), r#type: A(7) }, T { b: A(1), arg: A(1), r#type: A(0) }, T { b: A(1), arg: A(1), r#type: A(1) }, T { b: A(1), arg: A(1), r#type: A(7) }, T { b: A(1), arg: A(7), r#type: A(0) }, T { b: A(1), arg: A(7), r#type: A(1) }, T { b: A(1), arg: A(7), r#type: A(7) }, T { b: A(7), arg: A(0), r#type: A(0) }, T { b: A(7), arg: A(0), r#type: A(1) }, T { b: A(7), arg: A(0), r#type: A(7) }, T { b: A(7), arg: A(1), r#type: A(0) }, T { b: A(7), arg: A(1), r#type: A(1) }, T { b: A(7), arg: A(1), r#type: A(7) }, T { b: A(7), arg: A(7), r#type: A(0) }, T { b: A(7), arg: A(7), r#type: A(1) }, T { b: A(7), arg: A(7), r#type: A(7) }] }
pub fn show(x: &T) -> String { #[allow(unused_variables)] match x { T { b: p0, arg: p1, r#type: p2 } => format!("T({},{},{})", sv(p0), sv(p1), sv(p2)) } }
pub fn o_eq(a: &T, b: &T) -> bool { match (a, b) { (T { b: a0, arg: a1, r#type: a2 }, T { b: b0, arg: b1, r#type: b2 }) => (a0 == b0) && m_eq(a1, b1) && (a2 == b2) } }
pub fn run(out: &mut Out) { let vs = values(); for a in &vs { for b in &vs { let e = o_eq(a, b); out.check((a == b) == e, "eq_139", "eq", || format!("{} == {} expected {}", show(a), show(b), e)); out.check((a != b) == !e, "eq_139", "ne", || format!("{} != {} expected {}", show(a), show(b), !e)); } } }
