// ord_22
#![allow(dead_code, unused_variables, unused_mut, unused_imports, non_shorthand_field_patterns, clippy::all)]
use crate::support::*;
use educe::Educe;
use core::cmp::Ordering;
#[derive(Educe)]
#[repr(isize)]
#[educe(PartialEq, PartialOrd, Eq)]
pub enum T { Unit { #[educe(PartialOrd(rank(3), method = "m_pcmp"))] a: A<0>, #[educe(PartialOrd(rank(0)))] size: A<1> } = 70000, Some(#[educe(PartialOrd(ignore = true))] A<0>) }

pub fn values() -> Vec<T> { vec![T::Unit { a: A(0), size: A(0) }, T::Unit { a: A(0), size: A(1) }, T::Unit { a: A(0), size: A(7) }, T::Unit { a: A(1), size: A(0) }, T::Unit { a: A(1), size: A(1) }, T::Unit { a: A(1), size: A(7) }, T::Unit { a: A(7), size: A(0) }, T::Unit { a: A(7), size: A(1) }, T::Unit { a: A(7), size: A(7) }, T::Some(A(0)), T::Some(A(1)), T::Some(A(7))] }
pub fn show(x: &T) -> String { #[allow(unused_variables)] match x { T::Unit { a: p0, size: p1 } => format!("Unit({},{})", sv(p0), sv(p1)), T::Some(p0) => format!("Some({})", sv(p0)) } }
pub fn o_disc(x: &T) -> i128 { match x { T::Unit { a: _, size: _ } => 70000, T::Some(_) => 70001 } }
pub fn o_pcmp(a: &T, b: &T) -> Option<Ordering> { match (a, b) { (T::Unit { a: a0, size: a1 }, T::Unit { a: b0, size: b1 }) => { match ::core::cmp::PartialOrd::partial_cmp(a1, b1) { Some(Ordering::Equal) => (), x => return x } match m_pcmp(a0, b0) { Some(Ordering::Equal) => (), x => return x } Some(Ordering::Equal) }, (T::Some(a0), T::Some(b0)) => {  Some(Ordering::Equal) }, _ => Some(o_disc(a).cmp(&o_disc(b))) } }
pub fn run(out: &mut Out) { let vs = values(); for (i, a) in vs.iter().enumerate() { for (j, b) in vs.iter().enumerate() { let e = o_pcmp(a, b); let g = ::core::cmp::PartialOrd::partial_cmp(a, b); out.check(g == e, "ord_22", "partial_cmp", || format!("partial_cmp({}, {}) = {:?} expected {:?}", show(a), show(b), g, e)); } } }
