// ord_22
#![allow(dead_code, unused_variables, unused_mut, unused_imports, non_shorthand_field_patterns, clippy::all)]
use crate::support::*;
use core::cmp::Ordering;
pub mod ty {
    #![deny(warnings)]
    #![allow(dead_code, unused_imports)]
    use crate::support::{A, B, C, Good, Bad, m_eq, m_cmp, m_pcmp, m_hash, m_fmt, m_clone, m_clone_c, m_into, g_eq, g_cmp, g_pcmp, g_hash, g_fmt};
    use educe::Educe;

    // names at the derive site that shadow everything the generated code might be tempted to write unqualified
    #[allow(non_camel_case_types)] pub struct Option; pub struct Result; pub struct Ordering; pub struct Clone; pub struct Copy;
    pub struct Default; pub struct Debug; pub struct PartialEq; pub struct Eq; pub struct PartialOrd; pub struct Ord; pub struct Hash;
    pub struct Hasher; pub struct Into; pub struct From; pub struct Deref; pub struct DerefMut; pub struct Formatter; pub struct String;
    pub struct Vec; pub struct Box; pub struct PhantomData; pub struct Sized; pub struct Send; pub struct Iterator; pub struct Self_;
    #[allow(non_snake_case)] pub fn Some() {} #[allow(non_snake_case)] pub fn None() {} #[allow(non_snake_case)] pub fn Ok() {} #[allow(non_snake_case)] pub fn Err() {}
    pub fn drop() {} pub mod core {} pub mod std {} pub mod alloc {} pub mod fmt {} pub mod cmp {} pub mod hash {} pub mod clone {} pub mod marker {}
    #[allow(unused_macros)] macro_rules! stringify { ($($t:tt)*) => { "SHADOWED" } }
    #[allow(unused_macros)] macro_rules! unreachable { ($($t:tt)*) => { () } }
    #[allow(unused_macros)] macro_rules! panic { ($($t:tt)*) => { () } }
    #[allow(unused_macros)] macro_rules! matches { ($($t:tt)*) => { true } }
    #[allow(unused_macros)] macro_rules! write { ($($t:tt)*) => { () } }
    #[allow(unused_macros)] macro_rules! format_args { ($($t:tt)*) => { () } }
    #[allow(unused_macros)] macro_rules! assert { ($($t:tt)*) => { () } }
#[derive(Educe)]
#[educe(PartialEq, PartialOrd, Eq)]
pub enum T { Unit(#[educe(PartialOrd(rank("0")))] A<0>), C { #[educe(PartialOrd = false)] c: A<0>, #[educe(PartialOrd(method(m_pcmp)))] f: A<1> } }
}
pub use ty::T;

pub fn values() -> Vec<T> { vec![T::Unit(A(0)), T::Unit(A(1)), T::Unit(A(7)), T::C { c: A(0), f: A(0) }, T::C { c: A(0), f: A(1) }, T::C { c: A(0), f: A(7) }, T::C { c: A(1), f: A(0) }, T::C { c: A(1), f: A(1) }, T::C { c: A(1), f: A(7) }, T::C { c: A(7), f: A(0) }, T::C { c: A(7), f: A(1) }, T::C { c: A(7), f: A(7) }] }
pub fn show(x: &T) -> String { #[allow(unused_variables)] match x { T::Unit(p0) => format!("Unit({})", sv(p0)), T::C { c: p0, f: p1 } => format!("C({},{})", sv(p0), sv(p1)) } }
pub fn o_disc(x: &T) -> i128 { match x { T::Unit(_) => 0, T::C { c: _, f: _ } => 1 } }
pub fn o_pcmp(a: &T, b: &T) -> Option<Ordering> { match (a, b) { (T::Unit(a0), T::Unit(b0)) => { match ::core::cmp::PartialOrd::partial_cmp(a0, b0) { Some(Ordering::Equal) => (), x => return x } Some(Ordering::Equal) }, (T::C { c: a0, f: a1 }, T::C { c: b0, f: b1 }) => { match m_pcmp(a1, b1) { Some(Ordering::Equal) => (), x => return x } Some(Ordering::Equal) }, _ => Some(o_disc(a).cmp(&o_disc(b))) } }
pub fn run(out: &mut Out) { let vs = values(); for (i, a) in vs.iter().enumerate() { for (j, b) in vs.iter().enumerate() { let e = o_pcmp(a, b); let g = ::core::cmp::PartialOrd::partial_cmp(a, b); out.check(g == e, "ord_22", "partial_cmp", || format!("partial_cmp({}, {}) = {:?} expected {:?}", show(a), show(b), g, e)); } } }
