// ord_22
#![allow(dead_code, unused_variables, unused_mut, unused_imports, non_shorthand_field_patterns, clippy::all)]
use crate::support::*;
use educe::Educe;
use core::cmp::Ordering;
#[derive(Educe)]
#[repr(i64)]
#[educe(PartialEq, PartialOrd, Eq)]
pub enum T { A {  } = -5, C(#[educe(PartialOrd(ignore = true))] A<0>, A<0>, A<0>) = 1, B {  } }

pub fn values() -> Vec<T> { vec![T::A {  }, T::C(A(0), A(0), A(0)), T::C(A(7), A(7), A(7)), T::C(A(0), A(1), A(7)), T::C(A(0), A(7), A(0)), T::C(A(1), A(0), A(1)), T::C(A(0), A(0), A(7)), T::C(A(1), A(7), A(7)), T::C(A(0), A(1), A(0)), T::C(A(0), A(1), A(1)), T::C(A(0), A(7), A(1)), T::C(A(1), A(1), A(0)), T::C(A(1), A(0), A(7)), T::B {  }] }
pub fn show(x: &T) -> String { #[allow(unused_variables)] match x { T::A {  } => format!("A()"), T::C(p0, p1, p2) => format!("C({},{},{})", sv(p0), sv(p1), sv(p2)), T::B {  } => format!("B()") } }
pub fn o_disc(x: &T) -> i128 { match x { T::A {  } => -5, T::C(_, _, _) => 1, T::B {  } => 2 } }
pub fn o_pcmp(a: &T, b: &T) -> Option<Ordering> { match (a, b) { (T::A {  }, T::A {  }) => {  Some(Ordering::Equal) }, (T::C(a0, a1, a2), T::C(b0, b1, b2)) => { match ::core::cmp::PartialOrd::partial_cmp(a1, b1) { Some(Ordering::Equal) => (), x => return x } match ::core::cmp::PartialOrd::partial_cmp(a2, b2) { Some(Ordering::Equal) => (), x => return x } Some(Ordering::Equal) }, (T::B {  }, T::B {  }) => {  Some(Ordering::Equal) }, _ => Some(o_disc(a).cmp(&o_disc(b))) } }
pub fn run(out: &mut Out) { let vs = values(); for (i, a) in vs.iter().enumerate() { for (j, b) in vs.iter().enumerate() { let e = o_pcmp(a, b); let g = ::core::cmp::PartialOrd::partial_cmp(a, b); out.check(g == e, "ord_22", "partial_cmp", || format!("partial_cmp({}, {}) = {:?} expected {:?}", show(a), show(b), g, e)); } } }
