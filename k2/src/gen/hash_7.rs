// hash_7
#![allow(dead_code, unused_variables, unused_mut, unused_imports, non_shorthand_field_patterns, clippy::all)]
use crate::support::*;
use educe::Educe;
use core::cmp::Ordering;
#[derive(Educe)]
#[educe(Hash)]
pub enum T { V1 { #[educe(Hash(method = "m_hash"))] x: A<0>, builder: A<1> }, Some {  } }
pub fn values() -> Vec<T> { vec![T::V1 { x: A(0), builder: A(0) }, T::V1 { x: A(0), builder: A(1) }, T::V1 { x: A(0), builder: A(7) }, T::V1 { x: A(1), builder: A(0) }, T::V1 { x: A(1), builder: A(1) }, T::V1 { x: A(1), builder: A(7) }, T::V1 { x: A(7), builder: A(0) }, T::V1 { x: A(7), builder: A(1) }, T::V1 { x: A(7), builder: A(7) }, T::Some {  }] }
pub fn show(x: &T) -> String { #[allow(unused_variables)] match x { T::V1 { x: p0, builder: p1 } => format!("V1({},{})", sv(p0), sv(p1)), T::Some {  } => format!("Some()") } }
pub fn o_hash(x: &T) -> Vec<String> { let mut e = Rec::default(); match x { T::V1 { x: p0, builder: p1 } => { ::core::hash::Hash::hash(&0usize, &mut e); m_hash(p0, &mut e); ::core::hash::Hash::hash(p1, &mut e); }, T::Some {  } => { ::core::hash::Hash::hash(&1usize, &mut e); } } e.0 }
pub fn run(out: &mut Out) { let vs = values(); for a in &vs { let mut g = Rec::default(); ::core::hash::Hash::hash(a, &mut g); let e = o_hash(a); out.check(g.0 == e, "hash_7", "hash", || format!("hash({}) fed {:?} expected {:?}", show(a), g.0, e)); } }
