// ordlayout_19
#![allow(dead_code, unused_variables, unused_mut, unused_imports, non_shorthand_field_patterns, clippy::all)]
use crate::support::*;
use educe::Educe;
use core::cmp::Ordering;
#[derive(Educe)]
#[repr(i64)]
#[educe(PartialOrd, PartialEq, Ord, Eq)]
pub enum T { A(Option<u8>, char, #[educe(PartialOrd(rank = "-2"))] ::core::num::NonZeroU8) = 100, Some = 3 }

pub fn values() -> Vec<T> { vec![T::A(None, 'a', ::core::num::NonZeroU8::new(1).unwrap()), T::A(None, 'a', ::core::num::NonZeroU8::new(200).unwrap()), T::A(None, 'z', ::core::num::NonZeroU8::new(1).unwrap()), T::A(None, 'z', ::core::num::NonZeroU8::new(200).unwrap()), T::A(Some(0), 'a', ::core::num::NonZeroU8::new(1).unwrap()), T::A(Some(0), 'a', ::core::num::NonZeroU8::new(200).unwrap()), T::A(Some(0), 'z', ::core::num::NonZeroU8::new(1).unwrap()), T::A(Some(0), 'z', ::core::num::NonZeroU8::new(200).unwrap()), T::A(Some(255), 'a', ::core::num::NonZeroU8::new(1).unwrap()), T::A(Some(255), 'a', ::core::num::NonZeroU8::new(200).unwrap()), T::A(Some(255), 'z', ::core::num::NonZeroU8::new(1).unwrap()), T::A(Some(255), 'z', ::core::num::NonZeroU8::new(200).unwrap()), T::Some] }
pub fn show(x: &T) -> String { #[allow(unused_variables)] match x { T::A(p0, p1, p2) => format!("A({},{},{})", sv(p0), sv(p1), sv(p2)), T::Some => format!("Some()") } }
pub fn o_disc(x: &T) -> i128 { match x { T::A(_, _, _) => 100, T::Some => 3 } }
pub fn o_cmp(a: &T, b: &T) -> Ordering { match (a, b) { (T::A(a0, a1, a2), T::A(b0, b1, b2)) => { let c = ::core::cmp::Ord::cmp(a0, b0); if c != Ordering::Equal { return c; } let c = ::core::cmp::Ord::cmp(a1, b1); if c != Ordering::Equal { return c; } let c = ::core::cmp::Ord::cmp(a2, b2); if c != Ordering::Equal { return c; } Ordering::Equal }, (T::Some, T::Some) => {  Ordering::Equal }, _ => o_disc(a).cmp(&o_disc(b)) } }
#[repr(C)] pub struct Wrap { pub pre: u8, pub x: T, pub post: [u8; 9] }
pub fn wrap(i: usize, n: u8) -> Wrap { Wrap { pre: n, x: values().swap_remove(i), post: [n; 9] } }
pub fn run(out: &mut Out) { let vs = values(); for (i, a) in vs.iter().enumerate() { for (j, b) in vs.iter().enumerate() { let e = o_cmp(a, b); let g = ::core::cmp::Ord::cmp(a, b); out.check(g == e, "ordlayout_19", "cmp", || format!("cmp({}, {}) = {:?} expected {:?}", show(a), show(b), g, e)); let g2 = ::core::cmp::PartialOrd::partial_cmp(a, b); out.check(g2 == Some(e), "ordlayout_19", "partial_is_some_cmp", || format!("partial_cmp({}, {}) = {:?} expected Some({:?})", show(a), show(b), g2, e)); for n in [0u8, 1, 0x7f, 0x80, 0xff] { let wa = wrap(i, n); let wb = wrap(j, !n); let g = ::core::cmp::Ord::cmp(&wa.x, &wb.x); let e = o_cmp(a, b); out.check(g == e, "ordlayout_19", "cmp_neighbours", || format!("cmp({}, {}) with neighbour bytes {} = {:?} expected {:?}", show(a), show(b), n, g, e)); } } } }
