// default_28
#![allow(dead_code, unused_variables, unused_mut, unused_imports, non_shorthand_field_patterns, clippy::all)]
use crate::support::*;
use educe::Educe;
use core::cmp::Ordering;
#[derive(Educe)]
#[educe(Default(expression = T { size: false, state: 0f32, other: "", x: A(1) }, new = true))]
pub struct T { size: bool, state: f32, other: &'static str, x: A<3> }
pub fn show(x: &T) -> String { #[allow(unused_variables)] match x { T { size: p0, state: p1, other: p2, x: p3 } => format!("T({},{},{},{})", sv(p0), sv(p1), sv(p2), sv(p3)) } }
pub fn o_default() -> T { T { size: false, state: 0f32, other: "", x: A(1) } }
pub fn run(out: &mut Out) { let g = <T as ::core::default::Default>::default(); let e = o_default(); out.check(show(&g) == show(&e), "default_28", "default", || format!("default() = {} expected {}", show(&g), show(&e))); let g = T::new(); let e = o_default(); out.check(show(&g) == show(&e), "default_28", "new", || format!("new() = {} expected {}", show(&g), show(&e))); }
