// default_106
#![allow(dead_code, unused_variables, unused_mut, unused_imports, non_shorthand_field_patterns, clippy::all)]
use crate::support::*;
use educe::Educe;
use core::cmp::Ordering;
#[derive(Educe)]
#[educe(Default(new))]
pub struct T { #[educe(Default(expr('x')))] data: char, _0: char, arg: A<0>, size: String }
pub fn show(x: &T) -> String { #[allow(unused_variables)] match x { T { data: p0, _0: p1, arg: p2, size: p3 } => format!("T({},{},{},{})", sv(p0), sv(p1), sv(p2), sv(p3)) } }
pub fn o_default() -> T { T { data: 'x', _0: '\0', arg: A(40), size: String::new() } }
pub fn run(out: &mut Out) { let g = <T as ::core::default::Default>::default(); let e = o_default(); out.check(show(&g) == show(&e), "default_106", "default", || format!("default() = {} expected {}", show(&g), show(&e))); let g = T::new(); let e = o_default(); out.check(show(&g) == show(&e), "default_106", "new", || format!("new() = {} expected {}", show(&g), show(&e))); }
