// into_14
#![allow(dead_code, unused_variables, unused_mut, unused_imports, non_shorthand_field_patterns, clippy::all)]
use crate::support::*;
use educe::Educe;
use core::cmp::Ordering;
#[derive(Educe)]
#[educe(Into(A<0>))]
pub struct T { c: A<0> }
pub fn values() -> Vec<T> { vec![T { c: A(0) }, T { c: A(1) }, T { c: A(7) }] }
pub fn show(x: &T) -> String { #[allow(unused_variables)] match x { T { c: p0 } => format!("T({})", sv(p0)) } }
pub fn o_into_0(x: T) -> A<0> { match x { T { c: p0 } => p0 } }
pub fn run(out: &mut Out) { let n = values().len(); for i in 0..n { let a = values().swap_remove(i); let shown = show(&a); let g: A<0> = ::core::convert::Into::into(a); let e = o_into_0(values().swap_remove(i)); out.check(sv(&g) == sv(&e), "into_14", "into", || format!("Into::<A<0>>::into({}) = {} expected {}", shown, sv(&g), sv(&e))); } }
