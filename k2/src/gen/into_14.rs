// into_14
#![allow(dead_code, unused_variables, unused_mut, unused_imports, non_shorthand_field_patterns, clippy::all)]
use crate::support::*;
use core::cmp::Ordering;
pub mod ty {
    #![deny(warnings)]
    #![allow(dead_code, unused_imports)]
    use crate::support::{A, B, C, Good, Bad, m_eq, m_cmp, m_pcmp, m_hash, m_fmt, m_clone, m_clone_c, m_into, g_eq, g_cmp, g_pcmp, g_hash, g_fmt};
    use educe::Educe;

    // names at the derive site that shadow everything the generated code might be tempted to write unqualified
    #[allow(non_camel_case_types)] pub struct Option; pub struct Result; pub struct Ordering; pub struct Clone; pub struct Copy;
    pub struct Default; pub struct Debug; pub struct PartialEq; pub struct Eq; pub struct PartialOrd; pub struct Ord; pub struct Hash;
    pub struct Hasher; pub struct Into; pub struct From; pub struct Deref; pub struct DerefMut; pub struct Formatter; pub struct String;
    pub struct Vec; pub struct Box; pub struct PhantomData; pub struct Sized; pub struct Send; pub struct Iterator; pub struct Self_;
    #[allow(non_snake_case)] pub fn Some() {} #[allow(non_snake_case)] pub fn None() {} #[allow(non_snake_case)] pub fn Ok() {} #[allow(non_snake_case)] pub fn Err() {}
    pub fn drop() {} pub mod core {} pub mod std {} pub mod alloc {} pub mod fmt {} pub mod cmp {} pub mod hash {} pub mod clone {} pub mod marker {}
    #[allow(unused_macros)] macro_rules! stringify { ($($t:tt)*) => { "SHADOWED" } }
    #[allow(unused_macros)] macro_rules! unreachable { ($($t:tt)*) => { () } }
    #[allow(unused_macros)] macro_rules! panic { ($($t:tt)*) => { () } }
    #[allow(unused_macros)] macro_rules! matches { ($($t:tt)*) => { true } }
    #[allow(unused_macros)] macro_rules! write { ($($t:tt)*) => { () } }
    #[allow(unused_macros)] macro_rules! format_args { ($($t:tt)*) => { () } }
    #[allow(unused_macros)] macro_rules! assert { ($($t:tt)*) => { () } }
#[derive(Educe)]
#[educe(Into(B<0>))]
pub struct T { pub source: A<1>, #[educe(Into(B<0>))] pub data: A<1> }
}
pub use ty::T;
pub fn values() -> Vec<T> { vec![T { source: A(0), data: A(0) }, T { source: A(0), data: A(1) }, T { source: A(0), data: A(7) }, T { source: A(1), data: A(0) }, T { source: A(1), data: A(1) }, T { source: A(1), data: A(7) }, T { source: A(7), data: A(0) }, T { source: A(7), data: A(1) }, T { source: A(7), data: A(7) }] }
pub fn show(x: &T) -> String { #[allow(unused_variables)] match x { T { source: p0, data: p1 } => format!("T({},{})", sv(p0), sv(p1)) } }
pub fn o_into_0(x: T) -> B<0> { match x { T { source: _, data: p1 } => ::core::convert::Into::into(p1) } }
pub fn run(out: &mut Out) { let n = values().len(); for i in 0..n { let a = values().swap_remove(i); let shown = show(&a); let g: B<0> = ::core::convert::Into::into(a); let e = o_into_0(values().swap_remove(i)); out.check(sv(&g) == sv(&e), "into_14", "into", || format!("Into::<B<0>>::into({}) = {} expected {}", shown, sv(&g), sv(&e))); } }
