// default_95
#![allow(dead_code, unused_variables, unused_mut, unused_imports, non_shorthand_field_patterns, clippy::all)]
use crate::support::*;
use educe::Educe;
use core::cmp::Ordering;
#[derive(Educe)]
#[educe(Default(new))]
pub enum T { B { #[educe(Default(expr(7u8)))] arg: u8, #[educe(Default(expr = 5))] other: u8, #[educe(Default = b'a')] a: u8 } }
pub fn show(x: &T) -> String { #[allow(unused_variables)] match x { T::B { arg: p0, other: p1, a: p2 } => format!("B({},{},{})", sv(p0), sv(p1), sv(p2)) } }
pub fn o_default() -> T { T::B { arg: 7u8, other: 5u8, a: b'a' } }
pub fn run(out: &mut Out) { let g = <T as ::core::default::Default>::default(); let e = o_default(); out.check(show(&g) == show(&e), "default_95", "default", || format!("default() = {} expected {}", show(&g), show(&e))); let g = T::new(); let e = o_default(); out.check(show(&g) == show(&e), "default_95", "new", || format!("new() = {} expected {}", show(&g), show(&e))); }
