// default_124
#![allow(dead_code, unused_variables, unused_mut, unused_imports, non_shorthand_field_patterns, clippy::all)]
use crate::support::*;
use educe::Educe;
use core::cmp::Ordering;
#[derive(Educe)]
#[educe(Default(expression(T::B { _0: 0f64, c: A(1), builder: '\0' })))]
pub enum T { B { _0: f64, c: A<0>, builder: char }, A(i64, Option<u8>), Some }
pub fn show(x: &T) -> String { #[allow(unused_variables)] match x { T::B { _0: p0, c: p1, builder: p2 } => format!("B({},{},{})", sv(p0), sv(p1), sv(p2)), T::A(p0, p1) => format!("A({},{})", sv(p0), sv(p1)), T::Some => format!("Some()") } }
pub fn o_default() -> T { T::B { _0: 0f64, c: A(1), builder: '\0' } }
pub fn run(out: &mut Out) { let g = <T as ::core::default::Default>::default(); let e = o_default(); out.check(show(&g) == show(&e), "default_124", "default", || format!("default() = {} expected {}", show(&g), show(&e))); }
