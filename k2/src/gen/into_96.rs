// into_96
#![allow(dead_code, unused_variables, unused_mut, unused_imports, non_shorthand_field_patterns, clippy::all)]
use crate::support::*;
use educe::Educe;
use core::cmp::Ordering;
#[derive(Educe)]
#[educe(Into(A<1>))]
#[educe(Into(A<0>))]
#[educe(Into(B<0>))]
pub struct T(#[educe(Into(A<0>))] A<0>, #[educe(Into(A<1>))] #[educe(Into(B<0>))] A<1>, A<1>);
pub fn values() -> Vec<T> { vec![T(A(0), A(0), A(7)), T(A(1), A(1), A(0)), T(A(0), A(0), A(0)), T(A(7), A(0), A(7)), T(A(0), A(7), A(0)), T(A(0), A(1), A(1)), T(A(7), A(7), A(7)), T(A(1), A(0), A(0)), T(A(7), A(1), A(0)), T(A(7), A(7), A(1)), T(A(7), A(0), A(1)), T(A(1), A(0), A(7))] }
pub fn show(x: &T) -> String { #[allow(unused_variables)] match x { T(p0, p1, p2) => format!("T({},{},{})", sv(p0), sv(p1), sv(p2)) } }
pub fn o_into_0(x: T) -> A<1> { match x { T(_, p1, _) => p1 } }
pub fn o_into_1(x: T) -> A<0> { match x { T(p0, _, _) => p0 } }
pub fn o_into_2(x: T) -> B<0> { match x { T(_, p1, _) => ::core::convert::Into::into(p1) } }
pub fn run(out: &mut Out) { let n = values().len(); for i in 0..n { let a = values().swap_remove(i); let shown = show(&a); let g: A<1> = ::core::convert::Into::into(a); let e = o_into_0(values().swap_remove(i)); out.check(sv(&g) == sv(&e), "into_96", "into", || format!("Into::<A<1>>::into({}) = {} expected {}", shown, sv(&g), sv(&e))); } for i in 0..n { let a = values().swap_remove(i); let shown = show(&a); let g: A<0> = ::core::convert::Into::into(a); let e = o_into_1(values().swap_remove(i)); out.check(sv(&g) == sv(&e), "into_96", "into", || format!("Into::<A<0>>::into({}) = {} expected {}", shown, sv(&g), sv(&e))); } for i in 0..n { let a = values().swap_remove(i); let shown = show(&a); let g: B<0> = ::core::convert::Into::into(a); let e = o_into_2(values().swap_remove(i)); out.check(sv(&g) == sv(&e), "into_96", "into", || format!("Into::<B<0>>::into({}) = {} expected {}", shown, sv(&g), sv(&e))); } }
