// ord_19
#![allow(dead_code, unused_variables, unused_mut, unused_imports, non_shorthand_field_patterns, clippy::all)]
use crate::support::*;
use educe::Educe;
use core::cmp::Ordering;
#[derive(Educe)]
#[repr(i64)]
#[educe(Eq, PartialEq, PartialOrd)]
pub enum T { Unit(#[educe(PartialOrd(rank = 0x1))] A<0>, #[educe(PartialOrd(ignore(true)))] A<1>) = 1000, Zed = 127 }

pub fn values() -> Vec<T> { vec![T::Unit(A(0), A(0)), T::Unit(A(0), A(1)), T::Unit(A(0), A(7)), T::Unit(A(1), A(0)), T::Unit(A(1), A(1)), T::Unit(A(1), A(7)), T::Unit(A(7), A(0)), T::Unit(A(7), A(1)), T::Unit(A(7), A(7)), T::Zed] }
pub fn show(x: &T) -> String { #[allow(unused_variables)] match x { T::Unit(p0, p1) => format!("Unit({},{})", sv(p0), sv(p1)), T::Zed => format!("Zed()") } }
pub fn o_disc(x: &T) -> i128 { match x { T::Unit(_, _) => 1000, T::Zed => 127 } }
pub fn o_pcmp(a: &T, b: &T) -> Option<Ordering> { match (a, b) { (T::Unit(a0, a1), T::Unit(b0, b1)) => { match ::core::cmp::PartialOrd::partial_cmp(a0, b0) { Some(Ordering::Equal) => (), x => return x } Some(Ordering::Equal) }, (T::Zed, T::Zed) => {  Some(Ordering::Equal) }, _ => Some(o_disc(a).cmp(&o_disc(b))) } }
pub fn run(out: &mut Out) { let vs = values(); for (i, a) in vs.iter().enumerate() { for (j, b) in vs.iter().enumerate() { let e = o_pcmp(a, b); let g = ::core::cmp::PartialOrd::partial_cmp(a, b); out.check(g == e, "ord_19", "partial_cmp", || format!("partial_cmp({}, {}) = {:?} expected {:?}", show(a), show(b), g, e)); } } }
