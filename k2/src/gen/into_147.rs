// into_147
#![allow(dead_code, unused_variables, unused_mut, unused_imports, non_shorthand_field_patterns, clippy::all)]
use crate::support::*;
use educe::Educe;
use core::cmp::Ordering;
#[derive(Educe)]
#[educe(Into(B<1>))]
pub enum T { C { source: A<2>, #[educe(Into(B<1>, method = "m_into"))] a: A<1> }, A { #[educe(Into(B<1>))] other: A<3>, _0: A<0>, size: A<0> }, V1(A<1>, #[educe(Into(B<1>, method = "m_into"))] A<3>, A<2>) }
pub fn values() -> Vec<T> { vec![T::C { source: A(0), a: A(0) }, T::C { source: A(7), a: A(1) }, T::C { source: A(1), a: A(0) }, T::C { source: A(7), a: A(7) }, T::A { other: A(7), _0: A(7), size: A(7) }, T::A { other: A(7), _0: A(1), size: A(1) }, T::A { other: A(7), _0: A(7), size: A(1) }, T::A { other: A(7), _0: A(0), size: A(0) }, T::V1(A(1), A(7), A(7)), T::V1(A(7), A(0), A(0)), T::V1(A(0), A(0), A(1)), T::V1(A(0), A(7), A(1))] }
pub fn show(x: &T) -> String { #[allow(unused_variables)] match x { T::C { source: p0, a: p1 } => format!("C({},{})", sv(p0), sv(p1)), T::A { other: p0, _0: p1, size: p2 } => format!("A({},{},{})", sv(p0), sv(p1), sv(p2)), T::V1(p0, p1, p2) => format!("V1({},{},{})", sv(p0), sv(p1), sv(p2)) } }
pub fn o_into_0(x: T) -> B<1> { match x { T::C { source: _, a: p1 } => m_into(p1), T::A { other: p0, _0: _, size: _ } => ::core::convert::Into::into(p0), T::V1(_, p1, _) => m_into(p1) } }
pub fn run(out: &mut Out) { let n = values().len(); for i in 0..n { let a = values().swap_remove(i); let shown = show(&a); let g: B<1> = ::core::convert::Into::into(a); let e = o_into_0(values().swap_remove(i)); out.check(sv(&g) == sv(&e), "into_147", "into", || format!("Into::<B<1>>::into({}) = {} expected {}", shown, sv(&g), sv(&e))); } }
