// default_61
#![allow(dead_code, unused_variables, unused_mut, unused_imports, non_shorthand_field_patterns, clippy::all)]
use crate::support::*;
use educe::Educe;
use core::cmp::Ordering;
#[derive(Educe)]
#[educe(Default(new))]
pub enum T { None { #[educe(Default(expression = Some(3)))] size: Option<u8>, #[educe(Default = 77)] arg: i128 } }
pub fn show(x: &T) -> String { #[allow(unused_variables)] match x { T::None { size: p0, arg: p1 } => format!("None({},{})", sv(p0), sv(p1)) } }
pub fn o_default() -> T { T::None { size: Some(3u8), arg: 77i128 } }
pub fn run(out: &mut Out) { let g = <T as ::core::default::Default>::default(); let e = o_default(); out.check(show(&g) == show(&e), "default_61", "default", || format!("default() = {} expected {}", show(&g), show(&e))); let g = T::new(); let e = o_default(); out.check(show(&g) == show(&e), "default_61", "new", || format!("new() = {} expected {}", show(&g), show(&e))); }
