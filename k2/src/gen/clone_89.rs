// clone_89
#![allow(dead_code, unused_variables, unused_mut, unused_imports, non_shorthand_field_patterns, clippy::all)]
use crate::support::*;
use educe::Educe;
use core::cmp::Ordering;
#[derive(Educe)]
#[educe(Copy, Clone)]
pub enum T { B { a: C<0> }, V1 }
pub fn values() -> Vec<T> { vec![T::B { a: C(0) }, T::B { a: C(1) }, T::B { a: C(2) }, T::V1] }
pub fn show(x: &T) -> String { #[allow(unused_variables)] match x { T::B { a: p0 } => format!("B({})", sv(p0)), T::V1 => format!("V1()") } }
pub fn o_clone(x: &T) -> T { match x { T::B { a: p0 } => T::B { a: C(p0.0) }, T::V1 => T::V1 } }
pub fn o_log(x: &T) -> Vec<String> { match x { T::B { a: p0 } => vec![], T::V1 => vec![] } }
pub fn run(out: &mut Out) { let vs = values(); for a in &vs { let _ = take_log(); let g = ::core::clone::Clone::clone(a); let l = take_log(); let e = o_clone(a); out.check(show(&g) == show(&e), "clone_89", "clone", || format!("clone({}) = {} expected {}", show(a), show(&g), show(&e))); let el = o_log(a); out.check(l == el, "clone_89", "clone_calls", || format!("clone({}) called {:?} expected {:?}", show(a), l, el)); } let n = vs.len(); for i in 0..n { for j in 0..n { let mut x = values().swap_remove(i); let shown = show(&x); ::core::clone::Clone::clone_from(&mut x, &vs[j]); let e = o_clone(&vs[j]); out.check(show(&x) == show(&e), "clone_89", "clone_from", || format!("{}.clone_from({}) = {} expected {}", shown, show(&vs[j]), show(&x), show(&e))); } }  fn is_copy<X: Copy>() {} is_copy::<T>(); }
