// hash_126
#![allow(dead_code, unused_variables, unused_mut, unused_imports, non_shorthand_field_patterns, clippy::all)]
use crate::support::*;
use educe::Educe;
use core::cmp::Ordering;
#[derive(Educe)]
#[educe(Hash)]
pub enum T { A { b: A<0> }, Zed, Some { #[educe(Hash(method = m_hash))] a: A<0>, #[educe(Hash(method = "m_hash"))] _0: A<1>, x: A<2>, c: A<3> }, None }
pub fn values() -> Vec<T> { vec![T::A { b: A(0) }, T::A { b: A(1) }, T::A { b: A(7) }, T::Zed, T::Some { a: A(7), _0: A(0), x: A(1), c: A(7) }, T::Some { a: A(0), _0: A(7), x: A(1), c: A(7) }, T::Some { a: A(7), _0: A(0), x: A(0), c: A(1) }, T::Some { a: A(1), _0: A(0), x: A(7), c: A(0) }, T::Some { a: A(0), _0: A(0), x: A(7), c: A(0) }, T::Some { a: A(0), _0: A(1), x: A(1), c: A(0) }, T::Some { a: A(7), _0: A(1), x: A(7), c: A(1) }, T::Some { a: A(1), _0: A(1), x: A(0), c: A(0) }, T::Some { a: A(0), _0: A(7), x: A(1), c: A(0) }, T::Some { a: A(1), _0: A(7), x: A(7), c: A(0) }, T::Some { a: A(1), _0: A(7), x: A(0), c: A(1) }, T::Some { a: A(7), _0: A(0), x: A(7), c: A(0) }, T::None] }
pub fn show(x: &T) -> String { #[allow(unused_variables)] match x { T::A { b: p0 } => format!("A({})", sv(p0)), T::Zed => format!("Zed()"), T::Some { a: p0, _0: p1, x: p2, c: p3 } => format!("Some({},{},{},{})", sv(p0), sv(p1), sv(p2), sv(p3)), T::None => format!("None()") } }
pub fn o_hash(x: &T) -> Vec<String> { let mut e = Rec::default(); match x { T::A { b: p0 } => { ::core::hash::Hash::hash(&0usize, &mut e); ::core::hash::Hash::hash(p0, &mut e); }, T::Zed => { ::core::hash::Hash::hash(&1usize, &mut e); }, T::Some { a: p0, _0: p1, x: p2, c: p3 } => { ::core::hash::Hash::hash(&2usize, &mut e); m_hash(p0, &mut e); m_hash(p1, &mut e); ::core::hash::Hash::hash(p2, &mut e); ::core::hash::Hash::hash(p3, &mut e); }, T::None => { ::core::hash::Hash::hash(&3usize, &mut e); } } e.0 }
pub fn run(out: &mut Out) { let vs = values(); for a in &vs { let mut g = Rec::default(); ::core::hash::Hash::hash(a, &mut g); let e = o_hash(a); out.check(g.0 == e, "hash_126", "hash", || format!("hash({}) fed {:?} expected {:?}", show(a), g.0, e)); } }
