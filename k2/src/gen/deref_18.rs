// deref_18
#![allow(dead_code, unused_variables, unused_mut, unused_imports, non_shorthand_field_patterns, clippy::all)]
use crate::support::*;
use educe::Educe;
use core::cmp::Ordering;
#[derive(Educe)]
#[educe(Deref)]
pub enum T { C { arg: A<1>, _0: A<1>, x: A<2>, #[educe(Deref)] data: A<2> } }
pub fn values() -> Vec<T> { vec![T::C { arg: A(0), _0: A(1), x: A(7), data: A(1) }, T::C { arg: A(1), _0: A(0), x: A(0), data: A(1) }, T::C { arg: A(0), _0: A(1), x: A(7), data: A(7) }, T::C { arg: A(7), _0: A(0), x: A(0), data: A(7) }, T::C { arg: A(1), _0: A(7), x: A(7), data: A(1) }, T::C { arg: A(7), _0: A(1), x: A(0), data: A(1) }, T::C { arg: A(7), _0: A(7), x: A(0), data: A(1) }, T::C { arg: A(7), _0: A(0), x: A(1), data: A(1) }, T::C { arg: A(7), _0: A(0), x: A(7), data: A(1) }, T::C { arg: A(1), _0: A(7), x: A(0), data: A(1) }, T::C { arg: A(0), _0: A(7), x: A(1), data: A(1) }, T::C { arg: A(0), _0: A(1), x: A(1), data: A(1) }, T::C { arg: A(7), _0: A(7), x: A(7), data: A(0) }, T::C { arg: A(0), _0: A(7), x: A(0), data: A(7) }, T::C { arg: A(0), _0: A(1), x: A(0), data: A(1) }, T::C { arg: A(1), _0: A(7), x: A(7), data: A(7) }] }
pub fn show(x: &T) -> String { #[allow(unused_variables)] match x { T::C { arg: p0, _0: p1, x: p2, data: p3 } => format!("C({},{},{},{})", sv(p0), sv(p1), sv(p2), sv(p3)) } }
pub fn o_deref(x: &T) -> *const A<2> { match x { T::C { arg: _, _0: _, x: _, data: p3 } => p3 as *const A<2> } }
pub fn run(out: &mut Out) { let vs = values(); for a in &vs { let g = ::core::ops::Deref::deref(a) as *const A<2>; let e = o_deref(a); out.check(g == e, "deref_18", "deref", || format!("&*{} has another address than the designated field", show(a))); } }
