// ord_76
#![allow(dead_code, unused_variables, unused_mut, unused_imports, non_shorthand_field_patterns, clippy::all)]
use crate::support::*;
use educe::Educe;
use core::cmp::Ordering;
#[derive(Educe)]
#[educe(PartialOrd, PartialEq, Ord, Eq)]
pub struct T { #[educe(PartialOrd(rank = "+8", method = "m_cmp"))] y: A<0>, #[educe(PartialOrd(ignore(true)))] builder: A<1>, #[educe(PartialOrd(rank = 4i64))] size: A<0> }

pub fn values() -> Vec<T> { vec![T { y: A(0), builder: A(0), size: A(0) }, T { y: A(0), builder: A(0), size: A(1) }, T { y: A(0), builder: A(0), size: A(7) }, T { y: A(0), builder: A(1), size: A(0) }, T { y: A(0), builder: A(1), size: A(1) }, T { y: A(0), builder: A(1), size: A(7) }, T { y: A(0), builder: A(7), size: A(0) }, T { y: A(0), builder: A(7), size: A(1) }, T { y: A(0), builder: A(7), size: A(7) }, T { y: A(1), builder: A(0), size: A(0) }, T { y: A(1), builder: A(0), size: A(1) }, T { y: A(1), builder: A(0), size: A(7) }, T { y: A(1), builder: A(1), size: A(0) }, T { y: A(1), builder: A(1), size: A(1) }, T { y: A(1), builder: A(1), size: A(7) }, T { y: A(1), builder: A(7), size: A(0) }, T { y: A(1), builder: A(7), size: A(1) }, T { y: A(1), builder: A(7), size: A(7) }, T { y: A(7), builder: A(0), size: A(0) }, T { y: A(7), builder: A(0), size: A(1) }, T { y: A(7), builder: A(0), size: A(7) }, T { y: A(7), builder: A(1), size: A(0) }, T { y: A(7), builder: A(1), size: A(1) }, T { y: A(7), builder: A(1), size: A(7) }, T { y: A(7), builder: A(7), size: A(0) }, T { y: A(7), builder: A(7), size: A(1) }, T { y: A(7), builder: A(7), size: A(7) }] }
pub fn show(x: &T) -> String { #[allow(unused_variables)] match x { T { y: p0, builder: p1, size: p2 } => format!("T({},{},{})", sv(p0), sv(p1), sv(p2)) } }
pub fn o_disc(x: &T) -> i128 { match x { T { y: _, builder: _, size: _ } => 0 } }
pub fn o_cmp(a: &T, b: &T) -> Ordering { match (a, b) { (T { y: a0, builder: a1, size: a2 }, T { y: b0, builder: b1, size: b2 }) => { let c = ::core::cmp::Ord::cmp(a2, b2); if c != Ordering::Equal { return c; } let c = m_cmp(a0, b0); if c != Ordering::Equal { return c; } Ordering::Equal } } }
pub fn run(out: &mut Out) { let vs = values(); for (i, a) in vs.iter().enumerate() { for (j, b) in vs.iter().enumerate() { let e = o_cmp(a, b); let g = ::core::cmp::Ord::cmp(a, b); out.check(g == e, "ord_76", "cmp", || format!("cmp({}, {}) = {:?} expected {:?}", show(a), show(b), g, e)); let g2 = ::core::cmp::PartialOrd::partial_cmp(a, b); out.check(g2 == Some(e), "ord_76", "partial_is_some_cmp", || format!("partial_cmp({}, {}) = {:?} expected Some({:?})", show(a), show(b), g2, e)); } } }
