// hash_128
#![allow(dead_code, unused_variables, unused_mut, unused_imports, non_shorthand_field_patterns, clippy::all)]
use crate::support::*;
use educe::Educe;
use core::cmp::Ordering;
#[derive(Educe)]
#[educe(Hash)]
pub struct T { data: A<0>, #[educe(Hash(method = m_hash))] state: A<0>, #[educe(Hash(method = "m_hash"))] source: A<0> }
pub fn values() -> Vec<T> { vec![T { data: A(0), state: A(0), source: A(0) }, T { data: A(0), state: A(0), source: A(1) }, T { data: A(0), state: A(0), source: A(7) }, T { data: A(0), state: A(1), source: A(0) }, T { data: A(0), state: A(1), source: A(1) }, T { data: A(0), state: A(1), source: A(7) }, T { data: A(0), state: A(7), source: A(0) }, T { data: A(0), state: A(7), source: A(1) }, T { data: A(0), state: A(7), source: A(7) }, T { data: A(1), state: A(0), source: A(0) }, T { data: A(1), state: A(0), source: A(1) }, T { data: A(1), state: A(0), source: A(7) }, T { data: A(1), state: A(1), source: A(0) }, T { data: A(1), state: A(1), source: A(1) }, T { data: A(1), state: A(1), source: A(7) }, T { data: A(1), state: A(7), source: A(0) }, T { data: A(1), state: A(7), source: A(1) }, T { data: A(1), state: A(7), source: A(7) }, T { data: A(7), state: A(0), source: A(0) }, T { data: A(7), state: A(0), source: A(1) }, T { data: A(7), state: A(0), source: A(7) }, T { data: A(7), state: A(1), source: A(0) }, T { data: A(7), state: A(1), source: A(1) }, T { data: A(7), state: A(1), source: A(7) }, T { data: A(7), state: A(7), source: A(0) }, T { data: A(7), state: A(7), source: A(1) }, T { data: A(7), state: A(7), source: A(7) }] }
pub fn show(x: &T) -> String { #[allow(unused_variables)] match x { T { data: p0, state: p1, source: p2 } => format!("T({},{},{})", sv(p0), sv(p1), sv(p2)) } }
pub fn o_hash(x: &T) -> Vec<String> { let mut e = Rec::default(); match x { T { data: p0, state: p1, source: p2 } => { ::core::hash::Hash::hash(p0, &mut e); m_hash(p1, &mut e); m_hash(p2, &mut e); } } e.0 }
pub fn run(out: &mut Out) { let vs = values(); for a in &vs { let mut g = Rec::default(); ::core::hash::Hash::hash(a, &mut g); let e = o_hash(a); out.check(g.0 == e, "hash_128", "hash", || format!("hash({}) fed {:?} expected {:?}", show(a), g.0, e)); } }
