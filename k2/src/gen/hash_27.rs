// hash_27
#![allow(dead_code, unused_variables, unused_mut, unused_imports, non_shorthand_field_patterns, clippy::all)]
use crate::support::*;
use educe::Educe;
use core::cmp::Ordering;
#[derive(Educe)]
#[educe(Hash)]
pub enum T { Some(#[educe(Hash(method = "m_hash"))] A<0>), Unit(A<0>, #[educe(Hash(method = "m_hash"))] A<1>, #[educe(Hash(method(m_hash)))] A<2>, #[educe(Hash(method = m_hash))] A<0>), None, V1 }
pub fn values() -> Vec<T> { vec![T::Some(A(0)), T::Some(A(1)), T::Some(A(7)), T::Unit(A(0), A(1), A(0), A(7)), T::Unit(A(1), A(1), A(7), A(7)), T::Unit(A(1), A(0), A(1), A(1)), T::Unit(A(0), A(7), A(0), A(0)), T::Unit(A(7), A(7), A(7), A(0)), T::Unit(A(1), A(0), A(0), A(1)), T::Unit(A(0), A(7), A(0), A(7)), T::Unit(A(0), A(7), A(0), A(1)), T::Unit(A(1), A(7), A(0), A(0)), T::Unit(A(7), A(1), A(1), A(1)), T::Unit(A(7), A(7), A(0), A(7)), T::Unit(A(1), A(0), A(0), A(0)), T::None, T::V1] }
pub fn show(x: &T) -> String { #[allow(unused_variables)] match x { T::Some(p0) => format!("Some({})", sv(p0)), T::Unit(p0, p1, p2, p3) => format!("Unit({},{},{},{})", sv(p0), sv(p1), sv(p2), sv(p3)), T::None => format!("None()"), T::V1 => format!("V1()") } }
pub fn o_hash(x: &T) -> Vec<String> { let mut e = Rec::default(); match x { T::Some(p0) => { ::core::hash::Hash::hash(&0usize, &mut e); m_hash(p0, &mut e); }, T::Unit(p0, p1, p2, p3) => { ::core::hash::Hash::hash(&1usize, &mut e); ::core::hash::Hash::hash(p0, &mut e); m_hash(p1, &mut e); m_hash(p2, &mut e); m_hash(p3, &mut e); }, T::None => { ::core::hash::Hash::hash(&2usize, &mut e); }, T::V1 => { ::core::hash::Hash::hash(&3usize, &mut e); } } e.0 }
pub fn run(out: &mut Out) { let vs = values(); for a in &vs { let mut g = Rec::default(); ::core::hash::Hash::hash(a, &mut g); let e = o_hash(a); out.check(g.0 == e, "hash_27", "hash", || format!("hash({}) fed {:?} expected {:?}", show(a), g.0, e)); } }
