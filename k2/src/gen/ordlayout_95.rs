// ordlayout_95
#![allow(dead_code, unused_variables, unused_mut, unused_imports, non_shorthand_field_patterns, clippy::all)]
use crate::support::*;
use educe::Educe;
use core::cmp::Ordering;
#[derive(Educe)]
#[repr(i64)]
#[educe(Eq, PartialEq, PartialOrd)]
pub enum T { B, None(#[educe(PartialOrd(rank = -2))] char, ::core::num::NonZeroU8) = 255 }

pub fn values() -> Vec<T> { vec![T::B, T::None('a', ::core::num::NonZeroU8::new(1).unwrap()), T::None('a', ::core::num::NonZeroU8::new(200).unwrap()), T::None('z', ::core::num::NonZeroU8::new(1).unwrap()), T::None('z', ::core::num::NonZeroU8::new(200).unwrap())] }
pub fn show(x: &T) -> String { #[allow(unused_variables)] match x { T::B => format!("B()"), T::None(p0, p1) => format!("None({},{})", sv(p0), sv(p1)) } }
pub fn o_disc(x: &T) -> i128 { match x { T::B => 0, T::None(_, _) => 255 } }
pub fn o_pcmp(a: &T, b: &T) -> Option<Ordering> { match (a, b) { (T::B, T::B) => {  Some(Ordering::Equal) }, (T::None(a0, a1), T::None(b0, b1)) => { match ::core::cmp::PartialOrd::partial_cmp(a1, b1) { Some(Ordering::Equal) => (), x => return x } match ::core::cmp::PartialOrd::partial_cmp(a0, b0) { Some(Ordering::Equal) => (), x => return x } Some(Ordering::Equal) }, _ => Some(o_disc(a).cmp(&o_disc(b))) } }
#[repr(C)] pub struct Wrap { pub pre: u8, pub x: T, pub post: [u8; 9] }
pub fn wrap(i: usize, n: u8) -> Wrap { Wrap { pre: n, x: values().swap_remove(i), post: [n; 9] } }
pub fn run(out: &mut Out) { let vs = values(); for (i, a) in vs.iter().enumerate() { for (j, b) in vs.iter().enumerate() { let e = o_pcmp(a, b); let g = ::core::cmp::PartialOrd::partial_cmp(a, b); out.check(g == e, "ordlayout_95", "partial_cmp", || format!("partial_cmp({}, {}) = {:?} expected {:?}", show(a), show(b), g, e)); for n in [0u8, 1, 0x7f, 0x80, 0xff] { let wa = wrap(i, n); let wb = wrap(j, !n); let g = ::core::cmp::PartialOrd::partial_cmp(&wa.x, &wb.x); let e = o_pcmp(a, b); out.check(g == e, "ordlayout_95", "cmp_neighbours", || format!("cmp({}, {}) with neighbour bytes {} = {:?} expected {:?}", show(a), show(b), n, g, e)); } } } }
