// eq_85
#![allow(dead_code, unused_variables, unused_mut, unused_imports, non_shorthand_field_patterns, clippy::all)]
use crate::support::*;
use educe::Educe;
use core::cmp::Ordering;
#[derive(Educe)]
#[educe(PartialEq)]
#[educe(Eq)]
pub enum T { C(), Zed, Unit {  }, Some { #[educe(PartialEq(method(m_eq)))] source: A<0>, #[educe(PartialEq = true)] other: A<1>, #[educe(Eq(ignore(true)))] f: A<2>, b: A<3> } }
pub fn values() -> Vec<T> { vec![T::C(), T::Zed, T::Unit {  }, T::Some { source: A(1), other: A(7), f: A(7), b: A(0) }, T::Some { source: A(7), other: A(0), f: A(7), b: A(0) }, T::Some { source: A(1), other: A(7), f: A(0), b: A(0) }, T::Some { source: A(0), other: A(7), f: A(7), b: A(0) }, T::Some { source: A(0), other: A(0), f: A(0), b: A(1) }, T::Some { source: A(1), other: A(7), f: A(7), b: A(7) }, T::Some { source: A(7), other: A(1), f: A(7), b: A(7) }, T::Some { source: A(0), other: A(0), f: A(7), b: A(0) }, T::Some { source: A(1), other: A(7), f: A(0), b: A(7) }, T::Some { source: A(0), other: A(7), f: A(1), b: A(1) }, T::Some { source: A(1), other: A(0), f: A(7), b: A(1) }, T::Some { source: A(1), other: A(1), f: A(0), b: A(7) }] }
pub fn show(x: &T) -> String { #[allow(unused_variables)] match x { T::C() => format!("C()"), T::Zed => format!("Zed()"), T::Unit {  } => format!("Unit()"), T::Some { source: p0, other: p1, f: p2, b: p3 } => format!("Some({},{},{},{})", sv(p0), sv(p1), sv(p2), sv(p3)) } }
pub fn o_eq(a: &T, b: &T) -> bool { match (a, b) { (T::C(), T::C()) => true, (T::Zed, T::Zed) => true, (T::Unit {  }, T::Unit {  }) => true, (T::Some { source: a0, other: a1, f: a2, b: a3 }, T::Some { source: b0, other: b1, f: b2, b: b3 }) => m_eq(a0, b0) && (a1 == b1) && (a3 == b3), _ => false } }
pub fn run(out: &mut Out) { let vs = values(); for a in &vs { for b in &vs { let e = o_eq(a, b); out.check((a == b) == e, "eq_85", "eq", || format!("{} == {} expected {}", show(a), show(b), e)); out.check((a != b) == !e, "eq_85", "ne", || format!("{} != {} expected {}", show(a), show(b), !e)); } } }
