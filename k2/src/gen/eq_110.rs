// eq_110
#![allow(dead_code, unused_variables, unused_mut, unused_imports, non_shorthand_field_patterns, clippy::all)]
use crate::support::*;
use educe::Educe;
use core::cmp::Ordering;
#[derive(Educe)]
#[educe(PartialEq)]
pub struct T { #[educe(PartialEq(method = "m_eq"))] state: A<0> }
pub fn values() -> Vec<T> { vec![T { state: A(0) }, T { state: A(1) }, T { state: A(7) }] }
pub fn show(x: &T) -> String { #[allow(unused_variables)] match x { T { state: p0 } => format!("T({})", sv(p0)) } }
pub fn o_eq(a: &T, b: &T) -> bool { match (a, b) { (T { state: a0 }, T { state: b0 }) => m_eq(a0, b0) } }
pub fn run(out: &mut Out) { let vs = values(); for a in &vs { for b in &vs { let e = o_eq(a, b); out.check((a == b) == e, "eq_110", "eq", || format!("{} == {} expected {}", show(a), show(b), e)); out.check((a != b) == !e, "eq_110", "ne", || format!("{} != {} expected {}", show(a), show(b), !e)); } } }
