// ord_104
#![allow(dead_code, unused_variables, unused_mut, unused_imports, non_shorthand_field_patterns, clippy::all)]
use crate::support::*;
use core::cmp::Ordering;
pub mod ty {
    #![deny(warnings)]
    #![allow(dead_code, unused_imports, non_snake_case)]
    use crate::support::{A, B, C, Good, Bad, m_eq, m_cmp, m_pcmp, m_hash, m_fmt, m_clone, m_clone_c, m_into, g_eq, g_cmp, g_pcmp, g_hash, g_fmt};
    use educe::Educe;
#[derive(Educe)]
#[educe(Eq, PartialEq, PartialOrd, Ord)]
pub enum T { None { #[educe(PartialOrd(rank(-5)))] r#type: A<0>, #[educe(PartialOrd(rank = 4i64))] c: A<0> }, V1(#[educe(PartialOrd(rank(-3)))] A<0>) }
}
pub use ty::T;

pub fn values() -> Vec<T> { vec![T::None { r#type: A(0), c: A(0) }, T::None { r#type: A(0), c: A(1) }, T::None { r#type: A(0), c: A(7) }, T::None { r#type: A(1), c: A(0) }, T::None { r#type: A(1), c: A(1) }, T::None { r#type: A(1), c: A(7) }, T::None { r#type: A(7), c: A(0) }, T::None { r#type: A(7), c: A(1) }, T::None { r#type: A(7), c: A(7) }, T::V1(A(0)), T::V1(A(1)), T::V1(A(7))] }
pub fn show(x: &T) -> String { #[allow(unused_variables)] match x { T::None { r#type: p0, c: p1 } => format!("None({},{})", sv(p0), sv(p1)), T::V1(p0) => format!("V1({})", sv(p0)) } }
pub fn o_disc(x: &T) -> i128 { match x { T::None { r#type: _, c: _ } => 0, T::V1(_) => 1 } }
pub fn o_cmp(a: &T, b: &T) -> Ordering { match (a, b) { (T::None { r#type: a0, c: a1 }, T::None { r#type: b0, c: b1 }) => { let c = ::core::cmp::Ord::cmp(a0, b0); if c != Ordering::Equal { return c; } let c = ::core::cmp::Ord::cmp(a1, b1); if c != Ordering::Equal { return c; } Ordering::Equal }, (T::V1(a0), T::V1(b0)) => { let c = ::core::cmp::Ord::cmp(a0, b0); if c != Ordering::Equal { return c; } Ordering::Equal }, _ => o_disc(a).cmp(&o_disc(b)) } }
pub fn run(out: &mut Out) { let vs = values(); for (i, a) in vs.iter().enumerate() { for (j, b) in vs.iter().enumerate() { let e = o_cmp(a, b); let g = ::core::cmp::Ord::cmp(a, b); out.check(g == e, "ord_104", "cmp", || format!("cmp({}, {}) = {:?} expected {:?}", show(a), show(b), g, e)); let g2 = ::core::cmp::PartialOrd::partial_cmp(a, b); out.check(g2 == Some(e), "ord_104", "partial_is_some_cmp", || format!("partial_cmp({}, {}) = {:?} expected Some({:?})", show(a), show(b), g2, e)); } } }
