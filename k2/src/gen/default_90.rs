// default_90
#![allow(dead_code, unused_variables, unused_mut, unused_imports, non_shorthand_field_patterns, clippy::all)]
use crate::support::*;
use educe::Educe;
use core::cmp::Ordering;
#[derive(Educe)]
#[educe(Default)]
pub enum T { A(u8, u8, u8), #[educe(Default)] V1(Option<u8>), C { _0: A<3> } }
pub fn show(x: &T) -> String { #[allow(unused_variables)] match x { T::A(p0, p1, p2) => format!("A({},{},{})", sv(p0), sv(p1), sv(p2)), T::V1(p0) => format!("V1({})", sv(p0)), T::C { _0: p0 } => format!("C({})", sv(p0)) } }
pub fn o_default() -> T { T::V1(None) }
pub fn run(out: &mut Out) { let g = <T as ::core::default::Default>::default(); let e = o_default(); out.check(show(&g) == show(&e), "default_90", "default", || format!("default() = {} expected {}", show(&g), show(&e))); }
