// ordlayout_29
#![allow(dead_code, unused_variables, unused_mut, unused_imports, non_shorthand_field_patterns, clippy::all)]
use crate::support::*;
use educe::Educe;
use core::cmp::Ordering;
#[derive(Educe)]
#[repr(i64)]
#[educe(PartialEq, Eq, PartialOrd)]
pub enum T { V1(i64, ::core::num::NonZeroU8), None(::core::num::NonZeroU8) }

pub fn values() -> Vec<T> { vec![T::V1(-5, ::core::num::NonZeroU8::new(1).unwrap()), T::V1(-5, ::core::num::NonZeroU8::new(200).unwrap()), T::V1(0, ::core::num::NonZeroU8::new(1).unwrap()), T::V1(0, ::core::num::NonZeroU8::new(200).unwrap()), T::V1(9, ::core::num::NonZeroU8::new(1).unwrap()), T::V1(9, ::core::num::NonZeroU8::new(200).unwrap()), T::None(::core::num::NonZeroU8::new(1).unwrap()), T::None(::core::num::NonZeroU8::new(200).unwrap())] }
pub fn show(x: &T) -> String { #[allow(unused_variables)] match x { T::V1(p0, p1) => format!("V1({},{})", sv(p0), sv(p1)), T::None(p0) => format!("None({})", sv(p0)) } }
pub fn o_disc(x: &T) -> i128 { match x { T::V1(_, _) => 0, T::None(_) => 1 } }
pub fn o_pcmp(a: &T, b: &T) -> Option<Ordering> { match (a, b) { (T::V1(a0, a1), T::V1(b0, b1)) => { match ::core::cmp::PartialOrd::partial_cmp(a0, b0) { Some(Ordering::Equal) => (), x => return x } match ::core::cmp::PartialOrd::partial_cmp(a1, b1) { Some(Ordering::Equal) => (), x => return x } Some(Ordering::Equal) }, (T::None(a0), T::None(b0)) => { match ::core::cmp::PartialOrd::partial_cmp(a0, b0) { Some(Ordering::Equal) => (), x => return x } Some(Ordering::Equal) }, _ => Some(o_disc(a).cmp(&o_disc(b))) } }
#[repr(C)] pub struct Wrap { pub pre: u8, pub x: T, pub post: [u8; 9] }
pub fn wrap(i: usize, n: u8) -> Wrap { Wrap { pre: n, x: values().swap_remove(i), post: [n; 9] } }
pub fn run(out: &mut Out) { let vs = values(); for (i, a) in vs.iter().enumerate() { for (j, b) in vs.iter().enumerate() { let e = o_pcmp(a, b); let g = ::core::cmp::PartialOrd::partial_cmp(a, b); out.check(g == e, "ordlayout_29", "partial_cmp", || format!("partial_cmp({}, {}) = {:?} expected {:?}", show(a), show(b), g, e)); for n in [0u8, 1, 0x7f, 0x80, 0xff] { let wa = wrap(i, n); let wb = wrap(j, !n); let g = ::core::cmp::PartialOrd::partial_cmp(&wa.x, &wb.x); let e = o_pcmp(a, b); out.check(g == e, "ordlayout_29", "cmp_neighbours", || format!("cmp({}, {}) with neighbour bytes {} = {:?} expected {:?}", show(a), show(b), n, g, e)); } } } }
