// ordlayout_29
#![allow(dead_code, unused_variables, unused_mut, unused_imports, non_shorthand_field_patterns, clippy::all)]
use crate::support::*;
use core::cmp::Ordering;
pub mod ty {
    #![deny(warnings)]
    #![allow(dead_code, unused_imports, non_snake_case)]
    use crate::support::{A, B, C, Good, Bad, m_eq, m_cmp, m_pcmp, m_hash, m_fmt, m_clone, m_clone_c, m_into, g_eq, g_cmp, g_pcmp, g_hash, g_fmt};
    use educe::Educe;
#[derive(Educe)]
#[repr(i64)]
#[educe(PartialEq, Ord, Eq)]
#[educe(Debug)]
pub enum T { Some, Unit {  }, V1, B { #[educe(Ord(rank = 5))] self_data: &'static u8, builder: ::core::num::NonZeroU8 } }
}
pub use ty::T;
impl PartialOrd for T { fn partial_cmp(&self, o: &Self) -> Option<Ordering> { Some(::core::cmp::Ord::cmp(self, o)) } }
pub fn values() -> Vec<T> { vec![T::Some, T::Unit {  }, T::V1, T::B { self_data: &3u8, builder: ::core::num::NonZeroU8::new(1).unwrap() }, T::B { self_data: &3u8, builder: ::core::num::NonZeroU8::new(200).unwrap() }, T::B { self_data: &200u8, builder: ::core::num::NonZeroU8::new(1).unwrap() }, T::B { self_data: &200u8, builder: ::core::num::NonZeroU8::new(200).unwrap() }] }
pub fn show(x: &T) -> String { #[allow(unused_variables)] match x { T::Some => format!("Some()"), T::Unit {  } => format!("Unit()"), T::V1 => format!("V1()"), T::B { self_data: p0, builder: p1 } => format!("B({},{})", sv(p0), sv(p1)) } }
pub fn o_disc(x: &T) -> i128 { match x { T::Some => 0, T::Unit {  } => 1, T::V1 => 2, T::B { self_data: _, builder: _ } => 3 } }
pub fn o_cmp(a: &T, b: &T) -> Ordering { match (a, b) { (T::Some, T::Some) => {  Ordering::Equal }, (T::Unit {  }, T::Unit {  }) => {  Ordering::Equal }, (T::V1, T::V1) => {  Ordering::Equal }, (T::B { self_data: a0, builder: a1 }, T::B { self_data: b0, builder: b1 }) => { let c = ::core::cmp::Ord::cmp(a1, b1); if c != Ordering::Equal { return c; } let c = ::core::cmp::Ord::cmp(a0, b0); if c != Ordering::Equal { return c; } Ordering::Equal }, _ => o_disc(a).cmp(&o_disc(b)) } }
#[repr(C)] pub struct Wrap { pub pre: u8, pub x: T, pub post: [u8; 9] }
pub fn wrap(i: usize, n: u8) -> Wrap { Wrap { pre: n, x: values().swap_remove(i), post: [n; 9] } }
pub fn run(out: &mut Out) { let vs = values(); for (i, a) in vs.iter().enumerate() { for (j, b) in vs.iter().enumerate() { let e = o_cmp(a, b); let g = ::core::cmp::Ord::cmp(a, b); out.check(g == e, "ordlayout_29", "cmp", || format!("cmp({}, {}) = {:?} expected {:?}", show(a), show(b), g, e)); for n in [0u8, 1, 0x7f, 0x80, 0xff] { let wa = wrap(i, n); let wb = wrap(j, !n); let g = ::core::cmp::Ord::cmp(&wa.x, &wb.x); let e = o_cmp(a, b); out.check(g == e, "ordlayout_29", "cmp_neighbours", || format!("cmp({}, {}) with neighbour bytes {} = {:?} expected {:?}", show(a), show(b), n, g, e)); } } } }
