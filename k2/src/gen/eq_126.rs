// eq_126
#![allow(dead_code, unused_variables, unused_mut, unused_imports, non_shorthand_field_patterns, clippy::all)]
use crate::support::*;
use educe::Educe;
use core::cmp::Ordering;
#[derive(Educe)]
#[educe(PartialEq)]
#[educe(Eq)]
pub enum T { A { #[educe(Eq(ignore))] f: A<0> }, C, Zed { #[educe(PartialEq = false)] source: A<0>, #[educe(PartialEq(ignore = true))] y: A<0> } }
pub fn values() -> Vec<T> { vec![T::A { f: A(0) }, T::A { f: A(1) }, T::A { f: A(7) }, T::C, T::Zed { source: A(0), y: A(0) }, T::Zed { source: A(0), y: A(1) }, T::Zed { source: A(0), y: A(7) }, T::Zed { source: A(1), y: A(0) }, T::Zed { source: A(1), y: A(1) }, T::Zed { source: A(1), y: A(7) }, T::Zed { source: A(7), y: A(0) }, T::Zed { source: A(7), y: A(1) }, T::Zed { source: A(7), y: A(7) }] }
pub fn show(x: &T) -> String { #[allow(unused_variables)] match x { T::A { f: p0 } => format!("A({})", sv(p0)), T::C => format!("C()"), T::Zed { source: p0, y: p1 } => format!("Zed({},{})", sv(p0), sv(p1)) } }
pub fn o_eq(a: &T, b: &T) -> bool { match (a, b) { (T::A { f: a0 }, T::A { f: b0 }) => true, (T::C, T::C) => true, (T::Zed { source: a0, y: a1 }, T::Zed { source: b0, y: b1 }) => true, _ => false } }
pub fn run(out: &mut Out) { let vs = values(); for a in &vs { for b in &vs { let e = o_eq(a, b); out.check((a == b) == e, "eq_126", "eq", || format!("{} == {} expected {}", show(a), show(b), e)); out.check((a != b) == !e, "eq_126", "ne", || format!("{} != {} expected {}", show(a), show(b), !e)); } } }
