// ord_36
#![allow(dead_code, unused_variables, unused_mut, unused_imports, non_shorthand_field_patterns, clippy::all)]
use crate::support::*;
use educe::Educe;
use core::cmp::Ordering;
#[derive(Educe)]
#[educe(PartialEq, PartialOrd, Eq)]
pub struct T { builder: A<0>, #[educe(PartialOrd(method = "m_pcmp"))] _0: A<0> }

pub fn values() -> Vec<T> { vec![T { builder: A(0), _0: A(0) }, T { builder: A(0), _0: A(1) }, T { builder: A(0), _0: A(7) }, T { builder: A(1), _0: A(0) }, T { builder: A(1), _0: A(1) }, T { builder: A(1), _0: A(7) }, T { builder: A(7), _0: A(0) }, T { builder: A(7), _0: A(1) }, T { builder: A(7), _0: A(7) }] }
pub fn show(x: &T) -> String { #[allow(unused_variables)] match x { T { builder: p0, _0: p1 } => format!("T({},{})", sv(p0), sv(p1)) } }
pub fn o_disc(x: &T) -> i128 { match x { T { builder: _, _0: _ } => 0 } }
pub fn o_pcmp(a: &T, b: &T) -> Option<Ordering> { match (a, b) { (T { builder: a0, _0: a1 }, T { builder: b0, _0: b1 }) => { match ::core::cmp::PartialOrd::partial_cmp(a0, b0) { Some(Ordering::Equal) => (), x => return x } match m_pcmp(a1, b1) { Some(Ordering::Equal) => (), x => return x } Some(Ordering::Equal) } } }
pub fn run(out: &mut Out) { let vs = values(); for (i, a) in vs.iter().enumerate() { for (j, b) in vs.iter().enumerate() { let e = o_pcmp(a, b); let g = ::core::cmp::PartialOrd::partial_cmp(a, b); out.check(g == e, "ord_36", "partial_cmp", || format!("partial_cmp({}, {}) = {:?} expected {:?}", show(a), show(b), g, e)); } } }
