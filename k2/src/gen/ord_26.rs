// ord_26
#![allow(dead_code, unused_variables, unused_mut, unused_imports, non_shorthand_field_patterns, clippy::all)]
use crate::support::*;
use core::cmp::Ordering;
pub mod ty {
    #![deny(warnings)]
    #![allow(dead_code, unused_imports)]
    use crate::support::{A, B, C, Good, Bad, m_eq, m_cmp, m_pcmp, m_hash, m_fmt, m_clone, m_clone_c, m_into, g_eq, g_cmp, g_pcmp, g_hash, g_fmt};
    use educe::Educe;

    // names at the derive site that shadow everything the generated code might be tempted to write unqualified
    #[allow(non_camel_case_types)] pub struct Option; pub struct Result; pub struct Ordering; pub struct Clone; pub struct Copy;
    pub struct Default; pub struct Debug; pub struct PartialEq; pub struct Eq; pub struct PartialOrd; pub struct Ord; pub struct Hash;
    pub struct Hasher; pub struct Into; pub struct From; pub struct Deref; pub struct DerefMut; pub struct Formatter; pub struct String;
    pub struct Vec; pub struct Box; pub struct PhantomData; pub struct Sized; pub struct Send; pub struct Iterator; pub struct Self_;
    #[allow(non_snake_case)] pub fn Some() {} #[allow(non_snake_case)] pub fn None() {} #[allow(non_snake_case)] pub fn Ok() {} #[allow(non_snake_case)] pub fn Err() {}
    pub fn drop() {} pub mod core {} pub mod std {} pub mod alloc {} pub mod fmt {} pub mod cmp {} pub mod hash {} pub mod clone {} pub mod marker {}
    #[allow(unused_macros)] macro_rules! stringify { ($($t:tt)*) => { "SHADOWED" } }
    #[allow(unused_macros)] macro_rules! unreachable { ($($t:tt)*) => { () } }
    #[allow(unused_macros)] macro_rules! panic { ($($t:tt)*) => { () } }
    #[allow(unused_macros)] macro_rules! matches { ($($t:tt)*) => { true } }
    #[allow(unused_macros)] macro_rules! write { ($($t:tt)*) => { () } }
    #[allow(unused_macros)] macro_rules! format_args { ($($t:tt)*) => { () } }
    #[allow(unused_macros)] macro_rules! assert { ($($t:tt)*) => { () } }
#[derive(Educe)]
#[repr(isize)]
#[educe(PartialOrd, PartialEq, Eq)]
pub enum T { V1(#[educe(PartialOrd(rank = "-2"))] A<0>, #[educe(PartialOrd(rank = 0x1, method = "m_pcmp"))] A<1>, #[educe(PartialOrd(method(m_pcmp), rank = 6))] A<2>, #[educe(PartialOrd(ignore(true)))] A<0>) = -170, Unit = 128, None { #[educe(PartialOrd(ignore = true))] self_data: A<0>, y: A<1> } = -5, Some }
}
pub use ty::T;

pub fn values() -> Vec<T> { vec![T::V1(A(1), A(7), A(7), A(7)), T::V1(A(7), A(1), A(0), A(1)), T::V1(A(7), A(1), A(7), A(1)), T::V1(A(1), A(1), A(7), A(0)), T::V1(A(0), A(7), A(1), A(0)), T::V1(A(1), A(1), A(1), A(0)), T::V1(A(1), A(1), A(0), A(1)), T::V1(A(0), A(0), A(1), A(0)), T::V1(A(7), A(7), A(7), A(7)), T::Unit, T::None { self_data: A(0), y: A(0) }, T::None { self_data: A(0), y: A(1) }, T::None { self_data: A(0), y: A(7) }, T::None { self_data: A(1), y: A(0) }, T::None { self_data: A(1), y: A(1) }, T::None { self_data: A(1), y: A(7) }, T::None { self_data: A(7), y: A(0) }, T::None { self_data: A(7), y: A(1) }, T::None { self_data: A(7), y: A(7) }, T::Some] }
pub fn show(x: &T) -> String { #[allow(unused_variables)] match x { T::V1(p0, p1, p2, p3) => format!("V1({},{},{},{})", sv(p0), sv(p1), sv(p2), sv(p3)), T::Unit => format!("Unit()"), T::None { self_data: p0, y: p1 } => format!("None({},{})", sv(p0), sv(p1)), T::Some => format!("Some()") } }
pub fn o_disc(x: &T) -> i128 { match x { T::V1(_, _, _, _) => -170, T::Unit => 128, T::None { self_data: _, y: _ } => -5, T::Some => -4 } }
pub fn o_pcmp(a: &T, b: &T) -> Option<Ordering> { match (a, b) { (T::V1(a0, a1, a2, a3), T::V1(b0, b1, b2, b3)) => { match ::core::cmp::PartialOrd::partial_cmp(a0, b0) { Some(Ordering::Equal) => (), x => return x } match m_pcmp(a1, b1) { Some(Ordering::Equal) => (), x => return x } match m_pcmp(a2, b2) { Some(Ordering::Equal) => (), x => return x } Some(Ordering::Equal) }, (T::Unit, T::Unit) => {  Some(Ordering::Equal) }, (T::None { self_data: a0, y: a1 }, T::None { self_data: b0, y: b1 }) => { match ::core::cmp::PartialOrd::partial_cmp(a1, b1) { Some(Ordering::Equal) => (), x => return x } Some(Ordering::Equal) }, (T::Some, T::Some) => {  Some(Ordering::Equal) }, _ => Some(o_disc(a).cmp(&o_disc(b))) } }
pub fn run(out: &mut Out) { let vs = values(); for (i, a) in vs.iter().enumerate() { for (j, b) in vs.iter().enumerate() { let e = o_pcmp(a, b); let g = ::core::cmp::PartialOrd::partial_cmp(a, b); out.check(g == e, "ord_26", "partial_cmp", || format!("partial_cmp({}, {}) = {:?} expected {:?}", show(a), show(b), g, e)); } } }
