// into_18
#![allow(dead_code, unused_variables, unused_mut, unused_imports, non_shorthand_field_patterns, clippy::all)]
use crate::support::*;
use educe::Educe;
use core::cmp::Ordering;
#[derive(Educe)]
#[educe(Into(B<1>), Into(B<0>), Into(B<2>))]
pub enum T { B { #[educe(Into(B<1>))] data: A<2>, #[educe(Into(B<2>, method(m_into)))] builder: A<1>, #[educe(Into(B<0>))] r#type: A<2> } }
pub fn values() -> Vec<T> { vec![T::B { data: A(1), builder: A(7), r#type: A(0) }, T::B { data: A(1), builder: A(7), r#type: A(7) }, T::B { data: A(0), builder: A(7), r#type: A(7) }, T::B { data: A(0), builder: A(1), r#type: A(0) }, T::B { data: A(7), builder: A(0), r#type: A(7) }, T::B { data: A(0), builder: A(7), r#type: A(1) }, T::B { data: A(1), builder: A(0), r#type: A(1) }, T::B { data: A(0), builder: A(0), r#type: A(7) }, T::B { data: A(0), builder: A(1), r#type: A(1) }, T::B { data: A(1), builder: A(0), r#type: A(0) }, T::B { data: A(7), builder: A(1), r#type: A(7) }, T::B { data: A(7), builder: A(1), r#type: A(1) }] }
pub fn show(x: &T) -> String { #[allow(unused_variables)] match x { T::B { data: p0, builder: p1, r#type: p2 } => format!("B({},{},{})", sv(p0), sv(p1), sv(p2)) } }
pub fn o_into_0(x: T) -> B<1> { match x { T::B { data: p0, builder: _, r#type: _ } => ::core::convert::Into::into(p0) } }
pub fn o_into_1(x: T) -> B<0> { match x { T::B { data: _, builder: _, r#type: p2 } => ::core::convert::Into::into(p2) } }
pub fn o_into_2(x: T) -> B<2> { match x { T::B { data: _, builder: p1, r#type: _ } => m_into(p1) } }
pub fn run(out: &mut Out) { let n = values().len(); for i in 0..n { let a = values().swap_remove(i); let shown = show(&a); let g: B<1> = ::core::convert::Into::into(a); let e = o_into_0(values().swap_remove(i)); out.check(sv(&g) == sv(&e), "into_18", "into", || format!("Into::<B<1>>::into({}) = {} expected {}", shown, sv(&g), sv(&e))); } for i in 0..n { let a = values().swap_remove(i); let shown = show(&a); let g: B<0> = ::core::convert::Into::into(a); let e = o_into_1(values().swap_remove(i)); out.check(sv(&g) == sv(&e), "into_18", "into", || format!("Into::<B<0>>::into({}) = {} expected {}", shown, sv(&g), sv(&e))); } for i in 0..n { let a = values().swap_remove(i); let shown = show(&a); let g: B<2> = ::core::convert::Into::into(a); let e = o_into_2(values().swap_remove(i)); out.check(sv(&g) == sv(&e), "into_18", "into", || format!("Into::<B<2>>::into({}) = {} expected {}", shown, sv(&g), sv(&e))); } }
