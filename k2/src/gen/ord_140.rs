// ord_140
#![allow(dead_code, unused_variables, unused_mut, unused_imports, non_shorthand_field_patterns, clippy::all)]
use crate::support::*;
use core::cmp::Ordering;
pub mod ty {
    #![deny(warnings)]
    #![allow(dead_code, unused_imports, non_snake_case)]
    use crate::support::{A, B, C, Good, Bad, m_eq, m_cmp, m_pcmp, m_hash, m_fmt, m_clone, m_clone_c, m_into, g_eq, g_cmp, g_pcmp, g_hash, g_fmt};
    use educe::Educe;
#[derive(Educe)]
#[repr(u16)]
#[educe(PartialOrd, PartialEq, Ord, Eq)]
pub enum T { B, None { #[educe(PartialOrd(rank = "+6"))] arg: A<0> }, Unit {  } }
}
pub use ty::T;

pub fn values() -> Vec<T> { vec![T::B, T::None { arg: A(0) }, T::None { arg: A(1) }, T::None { arg: A(7) }, T::Unit {  }] }
pub fn show(x: &T) -> String { #[allow(unused_variables)] match x { T::B => format!("B()"), T::None { arg: p0 } => format!("None({})", sv(p0)), T::Unit {  } => format!("Unit()") } }
pub fn o_disc(x: &T) -> i128 { match x { T::B => 0, T::None { arg: _ } => 1, T::Unit {  } => 2 } }
pub fn o_cmp(a: &T, b: &T) -> Ordering { match (a, b) { (T::B, T::B) => {  Ordering::Equal }, (T::None { arg: a0 }, T::None { arg: b0 }) => { let c = ::core::cmp::Ord::cmp(a0, b0); if c != Ordering::Equal { return c; } Ordering::Equal }, (T::Unit {  }, T::Unit {  }) => {  Ordering::Equal }, _ => o_disc(a).cmp(&o_disc(b)) } }
pub fn run(out: &mut Out) { let vs = values(); for (i, a) in vs.iter().enumerate() { for (j, b) in vs.iter().enumerate() { let e = o_cmp(a, b); let g = ::core::cmp::Ord::cmp(a, b); out.check(g == e, "ord_140", "cmp", || format!("cmp({}, {}) = {:?} expected {:?}", show(a), show(b), g, e)); let g2 = ::core::cmp::PartialOrd::partial_cmp(a, b); out.check(g2 == Some(e), "ord_140", "partial_is_some_cmp", || format!("partial_cmp({}, {}) = {:?} expected Some({:?})", show(a), show(b), g2, e)); } } }
