// default_7
#![allow(dead_code, unused_variables, unused_mut, unused_imports, non_shorthand_field_patterns, clippy::all)]
use crate::support::*;
use educe::Educe;
use core::cmp::Ordering;
#[derive(Educe)]
#[educe(Default)]
pub enum T { #[educe(Default)] V1(#[educe(Default = true)] bool, u16, #[educe(Default = 9u16)] u16, A<3>), Unit { size: bool, other: i128, source: A<3>, state: u8 }, None }
pub fn show(x: &T) -> String { #[allow(unused_variables)] match x { T::V1(p0, p1, p2, p3) => format!("V1({},{},{},{})", sv(p0), sv(p1), sv(p2), sv(p3)), T::Unit { size: p0, other: p1, source: p2, state: p3 } => format!("Unit({},{},{},{})", sv(p0), sv(p1), sv(p2), sv(p3)), T::None => format!("None()") } }
pub fn o_default() -> T { T::V1(true, 0u16, 9u16, A(43)) }
pub fn run(out: &mut Out) { let g = <T as ::core::default::Default>::default(); let e = o_default(); out.check(show(&g) == show(&e), "default_7", "default", || format!("default() = {} expected {}", show(&g), show(&e))); }
