// into_33
#![allow(dead_code, unused_variables, unused_mut, unused_imports, non_shorthand_field_patterns, clippy::all)]
use crate::support::*;
use educe::Educe;
use core::cmp::Ordering;
#[derive(Educe)]
#[educe(Into(B<0>))]
pub struct T { a: A<2> }
pub fn values() -> Vec<T> { vec![T { a: A(0) }, T { a: A(1) }, T { a: A(7) }] }
pub fn show(x: &T) -> String { #[allow(unused_variables)] match x { T { a: p0 } => format!("T({})", sv(p0)) } }
pub fn o_into_0(x: T) -> B<0> { match x { T { a: p0 } => ::core::convert::Into::into(p0) } }
pub fn run(out: &mut Out) { let n = values().len(); for i in 0..n { let a = values().swap_remove(i); let shown = show(&a); let g: B<0> = ::core::convert::Into::into(a); let e = o_into_0(values().swap_remove(i)); out.check(sv(&g) == sv(&e), "into_33", "into", || format!("Into::<B<0>>::into({}) = {} expected {}", shown, sv(&g), sv(&e))); } }
