// ord_3
#![allow(dead_code, unused_variables, unused_mut, unused_imports, non_shorthand_field_patterns, clippy::all)]
use crate::support::*;
use educe::Educe;
use core::cmp::Ordering;
#[derive(Educe)]
#[repr(i64)]
#[educe(PartialOrd, Ord, Eq, PartialEq)]
pub enum T { B(A<0>) = 255, Zed = 128, None {  }, V1 = 3 }

pub fn values() -> Vec<T> { vec![T::B(A(0)), T::B(A(1)), T::B(A(7)), T::Zed, T::None {  }, T::V1] }
pub fn show(x: &T) -> String { #[allow(unused_variables)] match x { T::B(p0) => format!("B({})", sv(p0)), T::Zed => format!("Zed()"), T::None {  } => format!("None()"), T::V1 => format!("V1()") } }
pub fn o_disc(x: &T) -> i128 { match x { T::B(_) => 255, T::Zed => 128, T::None {  } => 129, T::V1 => 3 } }
pub fn o_cmp(a: &T, b: &T) -> Ordering { match (a, b) { (T::B(a0), T::B(b0)) => { let c = ::core::cmp::Ord::cmp(a0, b0); if c != Ordering::Equal { return c; } Ordering::Equal }, (T::Zed, T::Zed) => {  Ordering::Equal }, (T::None {  }, T::None {  }) => {  Ordering::Equal }, (T::V1, T::V1) => {  Ordering::Equal }, _ => o_disc(a).cmp(&o_disc(b)) } }
pub fn run(out: &mut Out) { let vs = values(); for (i, a) in vs.iter().enumerate() { for (j, b) in vs.iter().enumerate() { let e = o_cmp(a, b); let g = ::core::cmp::Ord::cmp(a, b); out.check(g == e, "ord_3", "cmp", || format!("cmp({}, {}) = {:?} expected {:?}", show(a), show(b), g, e)); let g2 = ::core::cmp::PartialOrd::partial_cmp(a, b); out.check(g2 == Some(e), "ord_3", "partial_is_some_cmp", || format!("partial_cmp({}, {}) = {:?} expected Some({:?})", show(a), show(b), g2, e)); } } }
