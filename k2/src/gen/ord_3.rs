// ord_3
#![allow(dead_code, unused_variables, unused_mut, unused_imports, non_shorthand_field_patterns, clippy::all)]
use crate::support::*;
use core::cmp::Ordering;
pub mod ty {
    #![deny(warnings)]
    #![allow(dead_code, unused_imports)]
    use crate::support::{A, B, C, Good, Bad, m_eq, m_cmp, m_pcmp, m_hash, m_fmt, m_clone, m_clone_c, m_into, g_eq, g_cmp, g_pcmp, g_hash, g_fmt};
    use educe::Educe;

    // names at the derive site that shadow everything the generated code might be tempted to write unqualified
    #[allow(non_camel_case_types)] pub struct Option; pub struct Result; pub struct Ordering; pub struct Clone; pub struct Copy;
    pub struct Default; pub struct Debug; pub struct PartialEq; pub struct Eq; pub struct PartialOrd; pub struct Ord; pub struct Hash;
    pub struct Hasher; pub struct Into; pub struct From; pub struct Deref; pub struct DerefMut; pub struct Formatter; pub struct String;
    pub struct Vec; pub struct Box; pub struct PhantomData; pub struct Sized; pub struct Send; pub struct Iterator; pub struct Self_;
    #[allow(non_snake_case)] pub fn Some() {} #[allow(non_snake_case)] pub fn None() {} #[allow(non_snake_case)] pub fn Ok() {} #[allow(non_snake_case)] pub fn Err() {}
    pub fn drop() {} pub mod core {} pub mod std {} pub mod alloc {} pub mod fmt {} pub mod cmp {} pub mod hash {} pub mod clone {} pub mod marker {}
    #[allow(unused_macros)] macro_rules! stringify { ($($t:tt)*) => { "SHADOWED" } }
    #[allow(unused_macros)] macro_rules! unreachable { ($($t:tt)*) => { () } }
    #[allow(unused_macros)] macro_rules! panic { ($($t:tt)*) => { () } }
    #[allow(unused_macros)] macro_rules! matches { ($($t:tt)*) => { true } }
    #[allow(unused_macros)] macro_rules! write { ($($t:tt)*) => { () } }
    #[allow(unused_macros)] macro_rules! format_args { ($($t:tt)*) => { () } }
    #[allow(unused_macros)] macro_rules! assert { ($($t:tt)*) => { () } }
#[derive(Educe)]
#[educe(PartialOrd, Eq, Ord, PartialEq)]
pub enum T { V1(#[educe(Ord(rank = -2))] A<0>, #[educe(Ord(rank("-1")))] A<0>), B(#[educe(Ord = false)] A<0>, #[educe(Ord(rank = "+0", method = m_cmp))] A<0>), A }
}
pub use ty::T;

pub fn values() -> Vec<T> { vec![T::V1(A(0), A(0)), T::V1(A(0), A(1)), T::V1(A(0), A(7)), T::V1(A(1), A(0)), T::V1(A(1), A(1)), T::V1(A(1), A(7)), T::V1(A(7), A(0)), T::V1(A(7), A(1)), T::V1(A(7), A(7)), T::B(A(0), A(0)), T::B(A(0), A(1)), T::B(A(0), A(7)), T::B(A(1), A(0)), T::B(A(1), A(1)), T::B(A(1), A(7)), T::B(A(7), A(0)), T::B(A(7), A(1)), T::B(A(7), A(7)), T::A] }
pub fn show(x: &T) -> String { #[allow(unused_variables)] match x { T::V1(p0, p1) => format!("V1({},{})", sv(p0), sv(p1)), T::B(p0, p1) => format!("B({},{})", sv(p0), sv(p1)), T::A => format!("A()") } }
pub fn o_disc(x: &T) -> i128 { match x { T::V1(_, _) => 0, T::B(_, _) => 1, T::A => 2 } }
pub fn o_cmp(a: &T, b: &T) -> Ordering { match (a, b) { (T::V1(a0, a1), T::V1(b0, b1)) => { let c = ::core::cmp::Ord::cmp(a0, b0); if c != Ordering::Equal { return c; } let c = ::core::cmp::Ord::cmp(a1, b1); if c != Ordering::Equal { return c; } Ordering::Equal }, (T::B(a0, a1), T::B(b0, b1)) => { let c = m_cmp(a1, b1); if c != Ordering::Equal { return c; } Ordering::Equal }, (T::A, T::A) => {  Ordering::Equal }, _ => o_disc(a).cmp(&o_disc(b)) } }
pub fn run(out: &mut Out) { let vs = values(); for (i, a) in vs.iter().enumerate() { for (j, b) in vs.iter().enumerate() { let e = o_cmp(a, b); let g = ::core::cmp::Ord::cmp(a, b); out.check(g == e, "ord_3", "cmp", || format!("cmp({}, {}) = {:?} expected {:?}", show(a), show(b), g, e)); let g2 = ::core::cmp::PartialOrd::partial_cmp(a, b); out.check(g2 == Some(e), "ord_3", "partial_is_some_cmp", || format!("partial_cmp({}, {}) = {:?} expected Some({:?})", show(a), show(b), g2, e)); } } }
