// ord_3
#![allow(dead_code, unused_variables, unused_mut, unused_imports, non_shorthand_field_patterns, clippy::all)]
use crate::support::*;
use core::cmp::Ordering;
pub mod ty {
    #![deny(warnings)]
    #![allow(dead_code, unused_imports, non_snake_case)]
    use crate::support::{A, B, C, Good, Bad, m_eq, m_cmp, m_pcmp, m_hash, m_fmt, m_clone, m_clone_c, m_into, g_eq, g_cmp, g_pcmp, g_hash, g_fmt};
    use educe::Educe;
#[derive(Educe)]
#[repr(u64)]
#[educe(Debug)]
#[educe(PartialOrd, PartialEq, Eq, Ord)]
pub enum T { V1, None { #[educe(Ord(ignore(true)))] #[educe(Debug(name = zz8))] arg: A<0>, builder: A<0>, #[educe(Ord(rank("-5"), method(m_cmp)), Debug(ignore = false))] a: A<2> }, Zed }
}
pub use ty::T;

pub fn values() -> Vec<T> { vec![T::V1, T::None { arg: A(1), builder: A(0), a: A(0) }, T::None { arg: A(0), builder: A(1), a: A(7) }, T::None { arg: A(1), builder: A(0), a: A(7) }, T::None { arg: A(1), builder: A(1), a: A(7) }, T::None { arg: A(0), builder: A(7), a: A(7) }, T::None { arg: A(0), builder: A(7), a: A(0) }, T::None { arg: A(7), builder: A(7), a: A(1) }, T::None { arg: A(1), builder: A(1), a: A(1) }, T::None { arg: A(0), builder: A(0), a: A(7) }, T::None { arg: A(0), builder: A(0), a: A(0) }, T::None { arg: A(7), builder: A(1), a: A(1) }, T::None { arg: A(7), builder: A(1), a: A(0) }, T::Zed] }
pub fn show(x: &T) -> String { #[allow(unused_variables)] match x { T::V1 => format!("V1()"), T::None { arg: p0, builder: p1, a: p2 } => format!("None({},{},{})", sv(p0), sv(p1), sv(p2)), T::Zed => format!("Zed()") } }
pub fn o_disc(x: &T) -> i128 { match x { T::V1 => 0, T::None { arg: _, builder: _, a: _ } => 1, T::Zed => 2 } }
pub fn o_cmp(a: &T, b: &T) -> Ordering { match (a, b) { (T::V1, T::V1) => {  Ordering::Equal }, (T::None { arg: a0, builder: a1, a: a2 }, T::None { arg: b0, builder: b1, a: b2 }) => { let c = ::core::cmp::Ord::cmp(a1, b1); if c != Ordering::Equal { return c; } let c = m_cmp(a2, b2); if c != Ordering::Equal { return c; } Ordering::Equal }, (T::Zed, T::Zed) => {  Ordering::Equal }, _ => o_disc(a).cmp(&o_disc(b)) } }
pub fn run(out: &mut Out) { let vs = values(); for (i, a) in vs.iter().enumerate() { for (j, b) in vs.iter().enumerate() { let e = o_cmp(a, b); let g = ::core::cmp::Ord::cmp(a, b); out.check(g == e, "ord_3", "cmp", || format!("cmp({}, {}) = {:?} expected {:?}", show(a), show(b), g, e)); let g2 = ::core::cmp::PartialOrd::partial_cmp(a, b); out.check(g2 == Some(e), "ord_3", "partial_is_some_cmp", || format!("partial_cmp({}, {}) = {:?} expected Some({:?})", show(a), show(b), g2, e)); } } }
