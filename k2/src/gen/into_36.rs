// into_36
#![allow(dead_code, unused_variables, unused_mut, unused_imports, non_shorthand_field_patterns, clippy::all)]
use crate::support::*;
use educe::Educe;
use core::cmp::Ordering;
#[derive(Educe)]
#[educe(Into(B<1>))]
pub struct T { #[educe(Into(B<1>))] f: A<0>, state: A<2> }
pub fn values() -> Vec<T> { vec![T { f: A(0), state: A(0) }, T { f: A(0), state: A(1) }, T { f: A(0), state: A(7) }, T { f: A(1), state: A(0) }, T { f: A(1), state: A(1) }, T { f: A(1), state: A(7) }, T { f: A(7), state: A(0) }, T { f: A(7), state: A(1) }, T { f: A(7), state: A(7) }] }
pub fn show(x: &T) -> String { #[allow(unused_variables)] match x { T { f: p0, state: p1 } => format!("T({},{})", sv(p0), sv(p1)) } }
pub fn o_into_0(x: T) -> B<1> { match x { T { f: p0, state: _ } => ::core::convert::Into::into(p0) } }
pub fn run(out: &mut Out) { let n = values().len(); for i in 0..n { let a = values().swap_remove(i); let shown = show(&a); let g: B<1> = ::core::convert::Into::into(a); let e = o_into_0(values().swap_remove(i)); out.check(sv(&g) == sv(&e), "into_36", "into", || format!("Into::<B<1>>::into({}) = {} expected {}", shown, sv(&g), sv(&e))); } }
