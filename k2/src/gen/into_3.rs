// into_3
#![allow(dead_code, unused_variables, unused_mut, unused_imports, non_shorthand_field_patterns, clippy::all)]
use crate::support::*;
use educe::Educe;
use core::cmp::Ordering;
#[derive(Educe)]
#[educe(Into(B<2>))]
pub enum T { Some { #[educe(Into(B<2>))] r#type: A<0>, a: A<1>, f: A<1> } }
pub fn values() -> Vec<T> { vec![T::Some { r#type: A(7), a: A(0), f: A(1) }, T::Some { r#type: A(0), a: A(7), f: A(1) }, T::Some { r#type: A(0), a: A(1), f: A(0) }, T::Some { r#type: A(0), a: A(0), f: A(0) }, T::Some { r#type: A(1), a: A(1), f: A(1) }, T::Some { r#type: A(7), a: A(1), f: A(0) }, T::Some { r#type: A(0), a: A(0), f: A(1) }, T::Some { r#type: A(7), a: A(1), f: A(1) }, T::Some { r#type: A(7), a: A(7), f: A(1) }, T::Some { r#type: A(0), a: A(1), f: A(7) }, T::Some { r#type: A(7), a: A(7), f: A(7) }, T::Some { r#type: A(0), a: A(7), f: A(0) }] }
pub fn show(x: &T) -> String { #[allow(unused_variables)] match x { T::Some { r#type: p0, a: p1, f: p2 } => format!("Some({},{},{})", sv(p0), sv(p1), sv(p2)) } }
pub fn o_into_0(x: T) -> B<2> { match x { T::Some { r#type: p0, a: _, f: _ } => ::core::convert::Into::into(p0) } }
pub fn run(out: &mut Out) { let n = values().len(); for i in 0..n { let a = values().swap_remove(i); let shown = show(&a); let g: B<2> = ::core::convert::Into::into(a); let e = o_into_0(values().swap_remove(i)); out.check(sv(&g) == sv(&e), "into_3", "into", || format!("Into::<B<2>>::into({}) = {} expected {}", shown, sv(&g), sv(&e))); } }
