// debug_92
#![allow(dead_code, unused_variables, unused_mut, unused_imports, non_shorthand_field_patterns, clippy::all)]
use crate::support::*;
use educe::Educe;
use core::cmp::Ordering;
#[derive(Educe)]
#[educe(Debug)]
pub struct T { #[educe(Debug(ignore))] builder: A<0> }
pub fn values() -> Vec<T> { vec![T { builder: A(0) }, T { builder: A(1) }, T { builder: A(7) }] }
pub fn show(x: &T) -> String { #[allow(unused_variables)] match x { T { builder: p0 } => format!("T({})", sv(p0)) } }
pub fn o_fmt(x: &T, f: &mut ::core::fmt::Formatter<'_>) -> ::core::fmt::Result { match x { T { builder: p0 } => f.debug_struct("T").finish() } }

pub fn run(out: &mut Out) { let vs = values(); for a in &vs { let g = format!("{:?}", a); let e = format!("{:?}", Fm(|f: &mut ::core::fmt::Formatter<'_>| o_fmt(a, f))); out.check(g == e, "debug_92", "debug", || format!("{{:?}} of {} = {:?} expected {:?}", show(a), g, e)); let g = format!("{:#?}", a); let e = format!("{:#?}", Fm(|f: &mut ::core::fmt::Formatter<'_>| o_fmt(a, f))); out.check(g == e, "debug_92", "debug_alt", || format!("{{:#?}} of {} = {:?} expected {:?}", show(a), g, e)); let g = format!("{:8?}", a); let e = format!("{:8?}", Fm(|f: &mut ::core::fmt::Formatter<'_>| o_fmt(a, f))); out.check(g == e, "debug_92", "debug_width", || format!("{{:8?}} of {} = {:?} expected {:?}", show(a), g, e)); }  }
