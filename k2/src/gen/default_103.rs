// default_103
#![allow(dead_code, unused_variables, unused_mut, unused_imports, non_shorthand_field_patterns, clippy::all)]
use crate::support::*;
use educe::Educe;
use core::cmp::Ordering;
#[derive(Educe)]
#[educe(Default)]
pub enum T { #[educe(Default)] Some { #[educe(Default(expr = A(9)))] other: A<3>, #[educe(Default(expr = "hi"))] arg: &'static str, a: Option<u8>, c: A<3> }, V1() }
pub fn show(x: &T) -> String { #[allow(unused_variables)] match x { T::Some { other: p0, arg: p1, a: p2, c: p3 } => format!("Some({},{},{},{})", sv(p0), sv(p1), sv(p2), sv(p3)), T::V1() => format!("V1()") } }
pub fn o_default() -> T { T::Some { other: A(9), arg: "hi", a: None, c: A(43) } }
pub fn run(out: &mut Out) { let g = <T as ::core::default::Default>::default(); let e = o_default(); out.check(show(&g) == show(&e), "default_103", "default", || format!("default() = {} expected {}", show(&g), show(&e))); }
