// ordlayout_16
#![allow(dead_code, unused_variables, unused_mut, unused_imports, non_shorthand_field_patterns, clippy::all)]
use crate::support::*;
use educe::Educe;
use core::cmp::Ordering;
#[derive(Educe)]
#[repr(u8)]
#[educe(Ord, Eq, PartialEq)]
pub enum T { B(::core::num::NonZeroU8, Option<u8>), None(#[educe(Ord(rank = "+1"))] (), &'static u8) }
impl PartialOrd for T { fn partial_cmp(&self, o: &Self) -> Option<Ordering> { Some(::core::cmp::Ord::cmp(self, o)) } }
pub fn values() -> Vec<T> { vec![T::B(::core::num::NonZeroU8::new(1).unwrap(), None), T::B(::core::num::NonZeroU8::new(1).unwrap(), Some(0)), T::B(::core::num::NonZeroU8::new(1).unwrap(), Some(255)), T::B(::core::num::NonZeroU8::new(200).unwrap(), None), T::B(::core::num::NonZeroU8::new(200).unwrap(), Some(0)), T::B(::core::num::NonZeroU8::new(200).unwrap(), Some(255)), T::None((), &3u8), T::None((), &200u8)] }
pub fn show(x: &T) -> String { #[allow(unused_variables)] match x { T::B(p0, p1) => format!("B({},{})", sv(p0), sv(p1)), T::None(p0, p1) => format!("None({},{})", sv(p0), sv(p1)) } }
pub fn o_disc(x: &T) -> i128 { match x { T::B(_, _) => 0, T::None(_, _) => 1 } }
pub fn o_cmp(a: &T, b: &T) -> Ordering { match (a, b) { (T::B(a0, a1), T::B(b0, b1)) => { let c = ::core::cmp::Ord::cmp(a0, b0); if c != Ordering::Equal { return c; } let c = ::core::cmp::Ord::cmp(a1, b1); if c != Ordering::Equal { return c; } Ordering::Equal }, (T::None(a0, a1), T::None(b0, b1)) => { let c = ::core::cmp::Ord::cmp(a1, b1); if c != Ordering::Equal { return c; } let c = ::core::cmp::Ord::cmp(a0, b0); if c != Ordering::Equal { return c; } Ordering::Equal }, _ => o_disc(a).cmp(&o_disc(b)) } }
#[repr(C)] pub struct Wrap { pub pre: u8, pub x: T, pub post: [u8; 9] }
pub fn wrap(i: usize, n: u8) -> Wrap { Wrap { pre: n, x: values().swap_remove(i), post: [n; 9] } }
pub fn run(out: &mut Out) { let vs = values(); for (i, a) in vs.iter().enumerate() { for (j, b) in vs.iter().enumerate() { let e = o_cmp(a, b); let g = ::core::cmp::Ord::cmp(a, b); out.check(g == e, "ordlayout_16", "cmp", || format!("cmp({}, {}) = {:?} expected {:?}", show(a), show(b), g, e)); for n in [0u8, 1, 0x7f, 0x80, 0xff] { let wa = wrap(i, n); let wb = wrap(j, !n); let g = ::core::cmp::Ord::cmp(&wa.x, &wb.x); let e = o_cmp(a, b); out.check(g == e, "ordlayout_16", "cmp_neighbours", || format!("cmp({}, {}) with neighbour bytes {} = {:?} expected {:?}", show(a), show(b), n, g, e)); } } } }
