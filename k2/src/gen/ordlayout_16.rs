// ordlayout_16
#![allow(dead_code, unused_variables, unused_mut, unused_imports, non_shorthand_field_patterns, clippy::all)]
use crate::support::*;
use educe::Educe;
use core::cmp::Ordering;
#[derive(Educe)]
#[educe(PartialOrd, PartialEq, Eq)]
pub enum T { None(), B, Some(char, #[educe(PartialOrd(rank = 3))] u8, #[educe(PartialOrd(rank = "0"))] Option<u8>), Unit(#[educe(PartialOrd(rank = "-1"))] i64, u8) }

pub fn values() -> Vec<T> { vec![T::None(), T::B, T::Some('z', 100, None), T::Some('a', 100, Some(0)), T::Some('a', 0, None), T::Some('z', 0, Some(255)), T::Some('a', 100, None), T::Some('a', 0, Some(255)), T::Some('a', 200, None), T::Some('z', 200, Some(0)), T::Some('a', 100, Some(255)), T::Unit(-5, 0), T::Unit(-5, 100), T::Unit(-5, 200), T::Unit(0, 0), T::Unit(0, 100), T::Unit(0, 200), T::Unit(9, 0), T::Unit(9, 100), T::Unit(9, 200)] }
pub fn show(x: &T) -> String { #[allow(unused_variables)] match x { T::None() => format!("None()"), T::B => format!("B()"), T::Some(p0, p1, p2) => format!("Some({},{},{})", sv(p0), sv(p1), sv(p2)), T::Unit(p0, p1) => format!("Unit({},{})", sv(p0), sv(p1)) } }
pub fn o_disc(x: &T) -> i128 { match x { T::None() => 0, T::B => 1, T::Some(_, _, _) => 2, T::Unit(_, _) => 3 } }
pub fn o_pcmp(a: &T, b: &T) -> Option<Ordering> { match (a, b) { (T::None(), T::None()) => {  Some(Ordering::Equal) }, (T::B, T::B) => {  Some(Ordering::Equal) }, (T::Some(a0, a1, a2), T::Some(b0, b1, b2)) => { match ::core::cmp::PartialOrd::partial_cmp(a0, b0) { Some(Ordering::Equal) => (), x => return x } match ::core::cmp::PartialOrd::partial_cmp(a2, b2) { Some(Ordering::Equal) => (), x => return x } match ::core::cmp::PartialOrd::partial_cmp(a1, b1) { Some(Ordering::Equal) => (), x => return x } Some(Ordering::Equal) }, (T::Unit(a0, a1), T::Unit(b0, b1)) => { match ::core::cmp::PartialOrd::partial_cmp(a1, b1) { Some(Ordering::Equal) => (), x => return x } match ::core::cmp::PartialOrd::partial_cmp(a0, b0) { Some(Ordering::Equal) => (), x => return x } Some(Ordering::Equal) }, _ => Some(o_disc(a).cmp(&o_disc(b))) } }
#[repr(C)] pub struct Wrap { pub pre: u8, pub x: T, pub post: [u8; 9] }
pub fn wrap(i: usize, n: u8) -> Wrap { Wrap { pre: n, x: values().swap_remove(i), post: [n; 9] } }
pub fn run(out: &mut Out) { let vs = values(); for (i, a) in vs.iter().enumerate() { for (j, b) in vs.iter().enumerate() { let e = o_pcmp(a, b); let g = ::core::cmp::PartialOrd::partial_cmp(a, b); out.check(g == e, "ordlayout_16", "partial_cmp", || format!("partial_cmp({}, {}) = {:?} expected {:?}", show(a), show(b), g, e)); for n in [0u8, 1, 0x7f, 0x80, 0xff] { let wa = wrap(i, n); let wb = wrap(j, !n); let g = ::core::cmp::PartialOrd::partial_cmp(&wa.x, &wb.x); let e = o_pcmp(a, b); out.check(g == e, "ordlayout_16", "cmp_neighbours", || format!("cmp({}, {}) with neighbour bytes {} = {:?} expected {:?}", show(a), show(b), n, g, e)); } } } }
