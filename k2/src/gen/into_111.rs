// into_111
#![allow(dead_code, unused_variables, unused_mut, unused_imports, non_shorthand_field_patterns, clippy::all)]
use crate::support::*;
use educe::Educe;
use core::cmp::Ordering;
#[derive(Educe)]
#[educe(Into(A<0>))]
pub struct T { r#type: A<0>, source: A<3>, data: A<3> }
pub fn values() -> Vec<T> { vec![T { r#type: A(0), source: A(1), data: A(0) }, T { r#type: A(1), source: A(0), data: A(7) }, T { r#type: A(7), source: A(7), data: A(1) }, T { r#type: A(1), source: A(7), data: A(0) }, T { r#type: A(1), source: A(0), data: A(1) }, T { r#type: A(7), source: A(1), data: A(0) }, T { r#type: A(0), source: A(0), data: A(0) }, T { r#type: A(7), source: A(7), data: A(7) }, T { r#type: A(0), source: A(7), data: A(1) }, T { r#type: A(0), source: A(1), data: A(1) }, T { r#type: A(1), source: A(1), data: A(1) }, T { r#type: A(7), source: A(7), data: A(0) }] }
pub fn show(x: &T) -> String { #[allow(unused_variables)] match x { T { r#type: p0, source: p1, data: p2 } => format!("T({},{},{})", sv(p0), sv(p1), sv(p2)) } }
pub fn o_into_0(x: T) -> A<0> { match x { T { r#type: p0, source: _, data: _ } => p0 } }
pub fn run(out: &mut Out) { let n = values().len(); for i in 0..n { let a = values().swap_remove(i); let shown = show(&a); let g: A<0> = ::core::convert::Into::into(a); let e = o_into_0(values().swap_remove(i)); out.check(sv(&g) == sv(&e), "into_111", "into", || format!("Into::<A<0>>::into({}) = {} expected {}", shown, sv(&g), sv(&e))); } }
