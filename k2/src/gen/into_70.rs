// into_70
#![allow(dead_code, unused_variables, unused_mut, unused_imports, non_shorthand_field_patterns, clippy::all)]
use crate::support::*;
use educe::Educe;
use core::cmp::Ordering;
#[derive(Educe)]
#[educe(Into(A<0>))]
#[educe(Into(B<1>))]
pub struct T { builder: A<0>, #[educe(Into(B<1>, method = "m_into"))] size: A<3> }
pub fn values() -> Vec<T> { vec![T { builder: A(0), size: A(0) }, T { builder: A(0), size: A(1) }, T { builder: A(0), size: A(7) }, T { builder: A(1), size: A(0) }, T { builder: A(1), size: A(1) }, T { builder: A(1), size: A(7) }, T { builder: A(7), size: A(0) }, T { builder: A(7), size: A(1) }, T { builder: A(7), size: A(7) }] }
pub fn show(x: &T) -> String { #[allow(unused_variables)] match x { T { builder: p0, size: p1 } => format!("T({},{})", sv(p0), sv(p1)) } }
pub fn o_into_0(x: T) -> A<0> { match x { T { builder: p0, size: _ } => p0 } }
pub fn o_into_1(x: T) -> B<1> { match x { T { builder: _, size: p1 } => m_into(p1) } }
pub fn run(out: &mut Out) { let n = values().len(); for i in 0..n { let a = values().swap_remove(i); let shown = show(&a); let g: A<0> = ::core::convert::Into::into(a); let e = o_into_0(values().swap_remove(i)); out.check(sv(&g) == sv(&e), "into_70", "into", || format!("Into::<A<0>>::into({}) = {} expected {}", shown, sv(&g), sv(&e))); } for i in 0..n { let a = values().swap_remove(i); let shown = show(&a); let g: B<1> = ::core::convert::Into::into(a); let e = o_into_1(values().swap_remove(i)); out.check(sv(&g) == sv(&e), "into_70", "into", || format!("Into::<B<1>>::into({}) = {} expected {}", shown, sv(&g), sv(&e))); } }
