// into_100
#![allow(dead_code, unused_variables, unused_mut, unused_imports, non_shorthand_field_patterns, clippy::all)]
use crate::support::*;
use educe::Educe;
use core::cmp::Ordering;
#[derive(Educe)]
#[educe(Into(B<1>))]
#[educe(Into(B<0>))]
pub enum T { V1(#[educe(Into(B<1>))] #[educe(Into(B<0>))] A<0>, A<0>), C(A<0>) }
pub fn values() -> Vec<T> { vec![T::V1(A(0), A(0)), T::V1(A(1), A(7)), T::V1(A(0), A(1)), T::V1(A(0), A(7)), T::V1(A(1), A(1)), T::V1(A(7), A(7)), T::C(A(0)), T::C(A(1)), T::C(A(7))] }
pub fn show(x: &T) -> String { #[allow(unused_variables)] match x { T::V1(p0, p1) => format!("V1({},{})", sv(p0), sv(p1)), T::C(p0) => format!("C({})", sv(p0)) } }
pub fn o_into_0(x: T) -> B<1> { match x { T::V1(p0, _) => ::core::convert::Into::into(p0), T::C(p0) => ::core::convert::Into::into(p0) } }
pub fn o_into_1(x: T) -> B<0> { match x { T::V1(p0, _) => ::core::convert::Into::into(p0), T::C(p0) => ::core::convert::Into::into(p0) } }
pub fn run(out: &mut Out) { let n = values().len(); for i in 0..n { let a = values().swap_remove(i); let shown = show(&a); let g: B<1> = ::core::convert::Into::into(a); let e = o_into_0(values().swap_remove(i)); out.check(sv(&g) == sv(&e), "into_100", "into", || format!("Into::<B<1>>::into({}) = {} expected {}", shown, sv(&g), sv(&e))); } for i in 0..n { let a = values().swap_remove(i); let shown = show(&a); let g: B<0> = ::core::convert::Into::into(a); let e = o_into_1(values().swap_remove(i)); out.check(sv(&g) == sv(&e), "into_100", "into", || format!("Into::<B<0>>::into({}) = {} expected {}", shown, sv(&g), sv(&e))); } }
