// into_137
#![allow(dead_code, unused_variables, unused_mut, unused_imports, non_shorthand_field_patterns, clippy::all)]
use crate::support::*;
use educe::Educe;
use core::cmp::Ordering;
#[derive(Educe)]
#[educe(Into(B<1>))]
#[educe(Into(B<2>))]
pub struct T { c: A<0>, b: A<3>, #[educe(Into(B<1>, method = "m_into"))] #[educe(Into(B<2>))] other: A<2> }
pub fn values() -> Vec<T> { vec![T { c: A(1), b: A(7), other: A(1) }, T { c: A(0), b: A(0), other: A(1) }, T { c: A(7), b: A(7), other: A(1) }, T { c: A(7), b: A(7), other: A(0) }, T { c: A(1), b: A(7), other: A(7) }, T { c: A(0), b: A(7), other: A(7) }, T { c: A(1), b: A(1), other: A(1) }, T { c: A(0), b: A(0), other: A(7) }, T { c: A(0), b: A(1), other: A(0) }, T { c: A(0), b: A(1), other: A(7) }, T { c: A(1), b: A(1), other: A(0) }, T { c: A(7), b: A(1), other: A(0) }] }
pub fn show(x: &T) -> String { #[allow(unused_variables)] match x { T { c: p0, b: p1, other: p2 } => format!("T({},{},{})", sv(p0), sv(p1), sv(p2)) } }
pub fn o_into_0(x: T) -> B<1> { match x { T { c: _, b: _, other: p2 } => m_into(p2) } }
pub fn o_into_1(x: T) -> B<2> { match x { T { c: _, b: _, other: p2 } => ::core::convert::Into::into(p2) } }
pub fn run(out: &mut Out) { let n = values().len(); for i in 0..n { let a = values().swap_remove(i); let shown = show(&a); let g: B<1> = ::core::convert::Into::into(a); let e = o_into_0(values().swap_remove(i)); out.check(sv(&g) == sv(&e), "into_137", "into", || format!("Into::<B<1>>::into({}) = {} expected {}", shown, sv(&g), sv(&e))); } for i in 0..n { let a = values().swap_remove(i); let shown = show(&a); let g: B<2> = ::core::convert::Into::into(a); let e = o_into_1(values().swap_remove(i)); out.check(sv(&g) == sv(&e), "into_137", "into", || format!("Into::<B<2>>::into({}) = {} expected {}", shown, sv(&g), sv(&e))); } }
