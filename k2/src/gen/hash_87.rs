// hash_87
#![allow(dead_code, unused_variables, unused_mut, unused_imports, non_shorthand_field_patterns, clippy::all)]
use crate::support::*;
use educe::Educe;
use core::cmp::Ordering;
#[derive(Educe)]
#[educe(Hash)]
pub enum T { None(#[educe(Hash(method = "m_hash"))] A<0>, #[educe(Hash(method("m_hash")))] A<0>), C { data: A<0>, #[educe(Hash(method = "m_hash"))] source: A<1> }, B { #[educe(Hash(ignore))] source: A<0>, #[educe(Hash(method = m_hash))] arg: A<0> } }
pub fn values() -> Vec<T> { vec![T::None(A(0), A(0)), T::None(A(0), A(1)), T::None(A(0), A(7)), T::None(A(1), A(0)), T::None(A(1), A(1)), T::None(A(1), A(7)), T::None(A(7), A(0)), T::None(A(7), A(1)), T::None(A(7), A(7)), T::C { data: A(0), source: A(0) }, T::C { data: A(0), source: A(1) }, T::C { data: A(0), source: A(7) }, T::C { data: A(1), source: A(0) }, T::C { data: A(1), source: A(1) }, T::C { data: A(1), source: A(7) }, T::C { data: A(7), source: A(0) }, T::C { data: A(7), source: A(1) }, T::C { data: A(7), source: A(7) }, T::B { source: A(0), arg: A(0) }, T::B { source: A(0), arg: A(1) }, T::B { source: A(0), arg: A(7) }, T::B { source: A(1), arg: A(0) }, T::B { source: A(1), arg: A(1) }, T::B { source: A(1), arg: A(7) }, T::B { source: A(7), arg: A(0) }, T::B { source: A(7), arg: A(1) }, T::B { source: A(7), arg: A(7) }] }
pub fn show(x: &T) -> String { #[allow(unused_variables)] match x { T::None(p0, p1) => format!("None({},{})", sv(p0), sv(p1)), T::C { data: p0, source: p1 } => format!("C({},{})", sv(p0), sv(p1)), T::B { source: p0, arg: p1 } => format!("B({},{})", sv(p0), sv(p1)) } }
pub fn o_hash(x: &T) -> Vec<String> { let mut e = Rec::default(); match x { T::None(p0, p1) => { ::core::hash::Hash::hash(&0usize, &mut e); m_hash(p0, &mut e); m_hash(p1, &mut e); }, T::C { data: p0, source: p1 } => { ::core::hash::Hash::hash(&1usize, &mut e); ::core::hash::Hash::hash(p0, &mut e); m_hash(p1, &mut e); }, T::B { source: p0, arg: p1 } => { ::core::hash::Hash::hash(&2usize, &mut e); m_hash(p1, &mut e); } } e.0 }
pub fn run(out: &mut Out) { let vs = values(); for a in &vs { let mut g = Rec::default(); ::core::hash::Hash::hash(a, &mut g); let e = o_hash(a); out.check(g.0 == e, "hash_87", "hash", || format!("hash({}) fed {:?} expected {:?}", show(a), g.0, e)); } }
