// hash_20
#![allow(dead_code, unused_variables, unused_mut, unused_imports, non_shorthand_field_patterns, clippy::all)]
use crate::support::*;
use educe::Educe;
use core::cmp::Ordering;
#[derive(Educe)]
#[educe(Hash)]
pub struct T { #[educe(Hash(method(m_hash)))] b: A<0>, #[educe(Hash(ignore))] arg: A<1> }
pub fn values() -> Vec<T> { vec![T { b: A(0), arg: A(0) }, T { b: A(0), arg: A(1) }, T { b: A(0), arg: A(7) }, T { b: A(1), arg: A(0) }, T { b: A(1), arg: A(1) }, T { b: A(1), arg: A(7) }, T { b: A(7), arg: A(0) }, T { b: A(7), arg: A(1) }, T { b: A(7), arg: A(7) }] }
pub fn show(x: &T) -> String { #[allow(unused_variables)] match x { T { b: p0, arg: p1 } => format!("T({},{})", sv(p0), sv(p1)) } }
pub fn o_hash(x: &T) -> Vec<String> { let mut e = Rec::default(); match x { T { b: p0, arg: p1 } => { m_hash(p0, &mut e); } } e.0 }
pub fn run(out: &mut Out) { let vs = values(); for a in &vs { let mut g = Rec::default(); ::core::hash::Hash::hash(a, &mut g); let e = o_hash(a); out.check(g.0 == e, "hash_20", "hash", || format!("hash({}) fed {:?} expected {:?}", show(a), g.0, e)); } }
