// ordlayout_63
#![allow(dead_code, unused_variables, unused_mut, unused_imports, non_shorthand_field_patterns, clippy::all)]
use crate::support::*;
use core::cmp::Ordering;
pub mod ty {
    #![deny(warnings)]
    #![allow(dead_code, unused_imports, non_snake_case)]
    use crate::support::{A, B, C, Good, Bad, m_eq, m_cmp, m_pcmp, m_hash, m_fmt, m_clone, m_clone_c, m_into, g_eq, g_cmp, g_pcmp, g_hash, g_fmt};
    use educe::Educe;
#[derive(Educe)]
#[repr(i128)]
#[educe(Eq, PartialOrd, PartialEq)]
#[educe(Debug)]
pub enum T { Some(i64, u8, ()) = -1 }
}
pub use ty::T;

pub fn values() -> Vec<T> { vec![T::Some(-5, 0, ()), T::Some(-5, 100, ()), T::Some(-5, 200, ()), T::Some(0, 0, ()), T::Some(0, 100, ()), T::Some(0, 200, ()), T::Some(9, 0, ()), T::Some(9, 100, ()), T::Some(9, 200, ())] }
pub fn show(x: &T) -> String { #[allow(unused_variables)] match x { T::Some(p0, p1, p2) => format!("Some({},{},{})", sv(p0), sv(p1), sv(p2)) } }
pub fn o_disc(x: &T) -> i128 { match x { T::Some(_, _, _) => -1 } }
pub fn o_pcmp(a: &T, b: &T) -> Option<Ordering> { match (a, b) { (T::Some(a0, a1, a2), T::Some(b0, b1, b2)) => { match ::core::cmp::PartialOrd::partial_cmp(a0, b0) { Some(Ordering::Equal) => (), x => return x } match ::core::cmp::PartialOrd::partial_cmp(a1, b1) { Some(Ordering::Equal) => (), x => return x } match ::core::cmp::PartialOrd::partial_cmp(a2, b2) { Some(Ordering::Equal) => (), x => return x } Some(Ordering::Equal) } } }
#[repr(C)] pub struct Wrap { pub pre: u8, pub x: T, pub post: [u8; 9] }
pub fn wrap(i: usize, n: u8) -> Wrap { Wrap { pre: n, x: values().swap_remove(i), post: [n; 9] } }
pub fn run(out: &mut Out) { let vs = values(); for (i, a) in vs.iter().enumerate() { for (j, b) in vs.iter().enumerate() { let e = o_pcmp(a, b); let g = ::core::cmp::PartialOrd::partial_cmp(a, b); out.check(g == e, "ordlayout_63", "partial_cmp", || format!("partial_cmp({}, {}) = {:?} expected {:?}", show(a), show(b), g, e)); for n in [0u8, 1, 0x7f, 0x80, 0xff] { let wa = wrap(i, n); let wb = wrap(j, !n); let g = ::core::cmp::PartialOrd::partial_cmp(&wa.x, &wb.x); let e = o_pcmp(a, b); out.check(g == e, "ordlayout_63", "cmp_neighbours", || format!("cmp({}, {}) with neighbour bytes {} = {:?} expected {:?}", show(a), show(b), n, g, e)); } } } }
