// union_7
#![allow(dead_code, unused_variables, unused_mut, unused_imports, non_shorthand_field_patterns, clippy::all)]
use crate::support::*;
use educe::Educe;
use core::cmp::Ordering;
#[derive(Educe)]
#[educe(Clone, Hash(unsafe), PartialEq(unsafe))]
pub union T { a: [u8; 3], state: u8, b: C<1> }
impl Copy for T {}
pub fn mk(pattern: u8) -> T { let mut x = ::core::mem::MaybeUninit::<T>::uninit(); unsafe { ::core::ptr::write_bytes(x.as_mut_ptr() as *mut u8, 0, ::core::mem::size_of::<T>()); let p = x.as_mut_ptr() as *mut u8; for i in 0..::core::mem::size_of::<T>() { *p.add(i) = pattern.wrapping_mul(i as u8 + 1).wrapping_add(i as u8); } x.assume_init() } }
pub fn bytes(x: &T) -> &[u8] { unsafe { ::core::slice::from_raw_parts(x as *const T as *const u8, ::core::mem::size_of::<T>()) } }
pub fn run(out: &mut Out) { for p in 0..6u8 { for q in 0..6u8 { let a = mk(p); let b = mk(q); let e = bytes(&a) == bytes(&b); out.check((a == b) == e, "union_7", "union_eq", || format!("{:?} == {:?} expected {}", bytes(&a), bytes(&b), e)); } } { let a = mk(3); let mut b = mk(3); unsafe { let p = &mut b as *mut T as *mut u8; let n = ::core::mem::size_of::<T>(); *p.add(n - 1) ^= 0x55; } out.check(a != b, "union_7", "union_eq_last_byte", || format!("values differing in their last byte compare equal")); } for p in 0..6u8 { let a = mk(p); let mut g = Rec::default(); ::core::hash::Hash::hash(&a, &mut g); let mut e = Rec::default(); ::core::hash::Hash::hash(bytes(&a), &mut e); out.check(g.0 == e.0, "union_7", "union_hash", || format!("hash fed {:?} expected {:?}", g.0, e.0)); } for p in 0..6u8 { let a = mk(p); let b = ::core::clone::Clone::clone(&a); out.check(bytes(&a) == bytes(&b), "union_7", "union_clone", || format!("clone {:?} of {:?}", bytes(&b), bytes(&a))); } }
