// default_55
#![allow(dead_code, unused_variables, unused_mut, unused_imports, non_shorthand_field_patterns, clippy::all)]
use crate::support::*;
use educe::Educe;
use core::cmp::Ordering;
#[derive(Educe)]
#[educe(Default)]
pub enum T { A { arg: u8, b: char, data: i128 }, None { data: u64, c: &'static str }, #[educe(Default)] C }
pub fn show(x: &T) -> String { #[allow(unused_variables)] match x { T::A { arg: p0, b: p1, data: p2 } => format!("A({},{},{})", sv(p0), sv(p1), sv(p2)), T::None { data: p0, c: p1 } => format!("None({},{})", sv(p0), sv(p1)), T::C => format!("C()") } }
pub fn o_default() -> T { T::C }
pub fn run(out: &mut Out) { let g = <T as ::core::default::Default>::default(); let e = o_default(); out.check(show(&g) == show(&e), "default_55", "default", || format!("default() = {} expected {}", show(&g), show(&e))); }
