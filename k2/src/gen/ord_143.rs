// ord_143
#![allow(dead_code, unused_variables, unused_mut, unused_imports, non_shorthand_field_patterns, clippy::all)]
use crate::support::*;
use core::cmp::Ordering;
pub mod ty {
    #![deny(warnings)]
    #![allow(dead_code, unused_imports, non_snake_case)]
    use crate::support::{A, B, C, Good, Bad, m_eq, m_cmp, m_pcmp, m_hash, m_fmt, m_clone, m_clone_c, m_into, g_eq, g_cmp, g_pcmp, g_hash, g_fmt};
    use educe::Educe;
#[derive(Educe)]
#[educe(PartialOrd, PartialEq, Eq)]
pub enum T { V1(#[educe(PartialOrd(rank = -5))] A<0>, #[educe(PartialOrd(rank = "3"))] A<0>), Some }
}
pub use ty::T;

pub fn values() -> Vec<T> { vec![T::V1(A(0), A(0)), T::V1(A(0), A(1)), T::V1(A(0), A(7)), T::V1(A(1), A(0)), T::V1(A(1), A(1)), T::V1(A(1), A(7)), T::V1(A(7), A(0)), T::V1(A(7), A(1)), T::V1(A(7), A(7)), T::Some] }
pub fn show(x: &T) -> String { #[allow(unused_variables)] match x { T::V1(p0, p1) => format!("V1({},{})", sv(p0), sv(p1)), T::Some => format!("Some()") } }
pub fn o_disc(x: &T) -> i128 { match x { T::V1(_, _) => 0, T::Some => 1 } }
pub fn o_pcmp(a: &T, b: &T) -> Option<Ordering> { match (a, b) { (T::V1(a0, a1), T::V1(b0, b1)) => { match ::core::cmp::PartialOrd::partial_cmp(a0, b0) { Some(Ordering::Equal) => (), x => return x } match ::core::cmp::PartialOrd::partial_cmp(a1, b1) { Some(Ordering::Equal) => (), x => return x } Some(Ordering::Equal) }, (T::Some, T::Some) => {  Some(Ordering::Equal) }, _ => Some(o_disc(a).cmp(&o_disc(b))) } }
pub fn run(out: &mut Out) { let vs = values(); for (i, a) in vs.iter().enumerate() { for (j, b) in vs.iter().enumerate() { let e = o_pcmp(a, b); let g = ::core::cmp::PartialOrd::partial_cmp(a, b); out.check(g == e, "ord_143", "partial_cmp", || format!("partial_cmp({}, {}) = {:?} expected {:?}", show(a), show(b), g, e)); } } }
