// eq_43
#![allow(dead_code, unused_variables, unused_mut, unused_imports, non_shorthand_field_patterns, clippy::all)]
use crate::support::*;
use educe::Educe;
use core::cmp::Ordering;
#[derive(Educe)]
#[educe(PartialEq)]
pub struct T { #[educe(PartialEq(ignore))] _0: A<0>, c: A<1> }
pub fn values() -> Vec<T> { vec![T { _0: A(0), c: A(0) }, T { _0: A(0), c: A(1) }, T { _0: A(0), c: A(7) }, T { _0: A(1), c: A(0) }, T { _0: A(1), c: A(1) }, T { _0: A(1), c: A(7) }, T { _0: A(7), c: A(0) }, T { _0: A(7), c: A(1) }, T { _0: A(7), c: A(7) }] }
pub fn show(x: &T) -> String { #[allow(unused_variables)] match x { T { _0: p0, c: p1 } => format!("T({},{})", sv(p0), sv(p1)) } }
pub fn o_eq(a: &T, b: &T) -> bool { match (a, b) { (T { _0: a0, c: a1 }, T { _0: b0, c: b1 }) => (a1 == b1) } }
pub fn run(out: &mut Out) { let vs = values(); for a in &vs { for b in &vs { let e = o_eq(a, b); out.check((a == b) == e, "eq_43", "eq", || format!("{} == {} expected {}", show(a), show(b), e)); out.check((a != b) == !e, "eq_43", "ne", || format!("{} != {} expected {}", show(a), show(b), !e)); } } }
