// eq_137
#![allow(dead_code, unused_variables, unused_mut, unused_imports, non_shorthand_field_patterns, clippy::all)]
use crate::support::*;
use educe::Educe;
use core::cmp::Ordering;
#[derive(Educe)]
#[educe(PartialEq)]
pub enum T { Some, None {  }, V1, A(#[educe(PartialEq(method = m_eq))] A<0>, #[educe(PartialEq(method(m_eq)))] A<1>) }
pub fn values() -> Vec<T> { vec![T::Some, T::None {  }, T::V1, T::A(A(0), A(0)), T::A(A(0), A(1)), T::A(A(0), A(7)), T::A(A(1), A(0)), T::A(A(1), A(1)), T::A(A(1), A(7)), T::A(A(7), A(0)), T::A(A(7), A(1)), T::A(A(7), A(7))] }
pub fn show(x: &T) -> String { #[allow(unused_variables)] match x { T::Some => format!("Some()"), T::None {  } => format!("None()"), T::V1 => format!("V1()"), T::A(p0, p1) => format!("A({},{})", sv(p0), sv(p1)) } }
pub fn o_eq(a: &T, b: &T) -> bool { match (a, b) { (T::Some, T::Some) => true, (T::None {  }, T::None {  }) => true, (T::V1, T::V1) => true, (T::A(a0, a1), T::A(b0, b1)) => m_eq(a0, b0) && m_eq(a1, b1), _ => false } }
pub fn run(out: &mut Out) { let vs = values(); for a in &vs { for b in &vs { let e = o_eq(a, b); out.check((a == b) == e, "eq_137", "eq", || format!("{} == {} expected {}", show(a), show(b), e)); out.check((a != b) == !e, "eq_137", "ne", || format!("{} != {} expected {}", show(a), show(b), !e)); } } }
