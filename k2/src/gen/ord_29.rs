// ord_29
#![allow(dead_code, unused_variables, unused_mut, unused_imports, non_shorthand_field_patterns, clippy::all)]
use crate::support::*;
use educe::Educe;
use core::cmp::Ordering;
#[derive(Educe)]
#[repr(isize)]
#[educe(PartialEq, Ord, Eq, PartialOrd)]
pub enum T { Unit {  }, C(#[educe(PartialOrd(rank("8")))] A<0>, #[educe(PartialOrd = false)] A<1>, #[educe(PartialOrd(rank("-3"), method = "m_cmp"))] A<0>, A<0>), None { arg: A<0>, #[educe(PartialOrd = false)] b: A<0> }, Zed {  } }

pub fn values() -> Vec<T> { vec![T::Unit {  }, T::C(A(0), A(1), A(0), A(1)), T::C(A(7), A(7), A(0), A(1)), T::C(A(0), A(7), A(7), A(1)), T::C(A(0), A(7), A(0), A(7)), T::C(A(7), A(7), A(7), A(7)), T::C(A(1), A(0), A(7), A(7)), T::C(A(1), A(1), A(7), A(1)), T::C(A(0), A(7), A(7), A(0)), T::C(A(1), A(7), A(7), A(7)), T::None { arg: A(0), b: A(0) }, T::None { arg: A(0), b: A(1) }, T::None { arg: A(0), b: A(7) }, T::None { arg: A(1), b: A(0) }, T::None { arg: A(1), b: A(1) }, T::None { arg: A(1), b: A(7) }, T::None { arg: A(7), b: A(0) }, T::None { arg: A(7), b: A(1) }, T::None { arg: A(7), b: A(7) }, T::Zed {  }] }
pub fn show(x: &T) -> String { #[allow(unused_variables)] match x { T::Unit {  } => format!("Unit()"), T::C(p0, p1, p2, p3) => format!("C({},{},{},{})", sv(p0), sv(p1), sv(p2), sv(p3)), T::None { arg: p0, b: p1 } => format!("None({},{})", sv(p0), sv(p1)), T::Zed {  } => format!("Zed()") } }
pub fn o_disc(x: &T) -> i128 { match x { T::Unit {  } => 0, T::C(_, _, _, _) => 1, T::None { arg: _, b: _ } => 2, T::Zed {  } => 3 } }
pub fn o_cmp(a: &T, b: &T) -> Ordering { match (a, b) { (T::Unit {  }, T::Unit {  }) => {  Ordering::Equal }, (T::C(a0, a1, a2, a3), T::C(b0, b1, b2, b3)) => { let c = ::core::cmp::Ord::cmp(a3, b3); if c != Ordering::Equal { return c; } let c = m_cmp(a2, b2); if c != Ordering::Equal { return c; } let c = ::core::cmp::Ord::cmp(a0, b0); if c != Ordering::Equal { return c; } Ordering::Equal }, (T::None { arg: a0, b: a1 }, T::None { arg: b0, b: b1 }) => { let c = ::core::cmp::Ord::cmp(a0, b0); if c != Ordering::Equal { return c; } Ordering::Equal }, (T::Zed {  }, T::Zed {  }) => {  Ordering::Equal }, _ => o_disc(a).cmp(&o_disc(b)) } }
pub fn run(out: &mut Out) { let vs = values(); for (i, a) in vs.iter().enumerate() { for (j, b) in vs.iter().enumerate() { let e = o_cmp(a, b); let g = ::core::cmp::Ord::cmp(a, b); out.check(g == e, "ord_29", "cmp", || format!("cmp({}, {}) = {:?} expected {:?}", show(a), show(b), g, e)); let g2 = ::core::cmp::PartialOrd::partial_cmp(a, b); out.check(g2 == Some(e), "ord_29", "partial_is_some_cmp", || format!("partial_cmp({}, {}) = {:?} expected Some({:?})", show(a), show(b), g2, e)); } } }
