// ord_29
#![allow(dead_code, unused_variables, unused_mut, unused_imports, non_shorthand_field_patterns, clippy::all)]
use crate::support::*;
use core::cmp::Ordering;
pub mod ty {
    #![deny(warnings)]
    #![allow(dead_code, unused_imports, non_snake_case)]
    use crate::support::{A, B, C, Good, Bad, m_eq, m_cmp, m_pcmp, m_hash, m_fmt, m_clone, m_clone_c, m_into, g_eq, g_cmp, g_pcmp, g_hash, g_fmt};
    use educe::Educe;
#[derive(Educe)]
#[repr(i8)]
#[educe(Debug)]
#[educe(PartialOrd, Ord, Eq, PartialEq)]
pub enum T { C(#[educe(PartialOrd(rank("-5"), method(m_cmp)))] A<0>, #[educe(PartialOrd(method = m_cmp), Debug(ignore = false))] A<1>, #[educe(PartialOrd(rank = 0))] A<0>, #[educe(Debug(ignore = true), PartialOrd(method = "m_cmp"))] A<3>), None(#[educe(PartialOrd(ignore))] A<0>, #[educe(PartialOrd(method(m_cmp)))] A<1>, #[educe(PartialOrd(rank = 0x3))] A<0>, #[educe(Debug = false, PartialOrd(rank = "6", method = m_cmp))] A<3>) }
}
pub use ty::T;

pub fn values() -> Vec<T> { vec![T::C(A(1), A(1), A(7), A(1)), T::C(A(1), A(7), A(0), A(7)), T::C(A(0), A(1), A(0), A(1)), T::C(A(1), A(7), A(1), A(0)), T::C(A(7), A(7), A(0), A(1)), T::C(A(7), A(1), A(0), A(7)), T::C(A(7), A(1), A(1), A(1)), T::C(A(1), A(1), A(1), A(7)), T::C(A(7), A(7), A(1), A(7)), T::C(A(0), A(0), A(1), A(7)), T::C(A(0), A(0), A(0), A(1)), T::C(A(1), A(7), A(0), A(0)), T::C(A(7), A(7), A(7), A(1)), T::C(A(0), A(1), A(0), A(0)), T::C(A(1), A(0), A(1), A(0)), T::C(A(1), A(7), A(0), A(1)), T::C(A(7), A(0), A(1), A(1)), T::C(A(1), A(0), A(1), A(7)), T::None(A(0), A(1), A(0), A(1)), T::None(A(7), A(7), A(0), A(0)), T::None(A(1), A(1), A(1), A(0)), T::None(A(7), A(0), A(0), A(1)), T::None(A(1), A(0), A(7), A(0)), T::None(A(7), A(1), A(0), A(0)), T::None(A(1), A(7), A(7), A(0)), T::None(A(0), A(7), A(7), A(0)), T::None(A(1), A(1), A(1), A(1)), T::None(A(0), A(7), A(1), A(7)), T::None(A(7), A(0), A(1), A(7)), T::None(A(7), A(7), A(0), A(7)), T::None(A(7), A(1), A(1), A(0)), T::None(A(1), A(7), A(0), A(7)), T::None(A(1), A(7), A(7), A(7)), T::None(A(0), A(1), A(0), A(7)), T::None(A(0), A(7), A(1), A(1)), T::None(A(0), A(1), A(1), A(0))] }
pub fn show(x: &T) -> String { #[allow(unused_variables)] match x { T::C(p0, p1, p2, p3) => format!("C({},{},{},{})", sv(p0), sv(p1), sv(p2), sv(p3)), T::None(p0, p1, p2, p3) => format!("None({},{},{},{})", sv(p0), sv(p1), sv(p2), sv(p3)) } }
pub fn o_disc(x: &T) -> i128 { match x { T::C(_, _, _, _) => 0, T::None(_, _, _, _) => 1 } }
pub fn o_cmp(a: &T, b: &T) -> Ordering { match (a, b) { (T::C(a0, a1, a2, a3), T::C(b0, b1, b2, b3)) => { let c = m_cmp(a1, b1); if c != Ordering::Equal { return c; } let c = m_cmp(a3, b3); if c != Ordering::Equal { return c; } let c = m_cmp(a0, b0); if c != Ordering::Equal { return c; } let c = ::core::cmp::Ord::cmp(a2, b2); if c != Ordering::Equal { return c; } Ordering::Equal }, (T::None(a0, a1, a2, a3), T::None(b0, b1, b2, b3)) => { let c = m_cmp(a1, b1); if c != Ordering::Equal { return c; } let c = ::core::cmp::Ord::cmp(a2, b2); if c != Ordering::Equal { return c; } let c = m_cmp(a3, b3); if c != Ordering::Equal { return c; } Ordering::Equal }, _ => o_disc(a).cmp(&o_disc(b)) } }
pub fn run(out: &mut Out) { let vs = values(); for (i, a) in vs.iter().enumerate() { for (j, b) in vs.iter().enumerate() { let e = o_cmp(a, b); let g = ::core::cmp::Ord::cmp(a, b); out.check(g == e, "ord_29", "cmp", || format!("cmp({}, {}) = {:?} expected {:?}", show(a), show(b), g, e)); let g2 = ::core::cmp::PartialOrd::partial_cmp(a, b); out.check(g2 == Some(e), "ord_29", "partial_is_some_cmp", || format!("partial_cmp({}, {}) = {:?} expected Some({:?})", show(a), show(b), g2, e)); } } }
