// default_39
#![allow(dead_code, unused_variables, unused_mut, unused_imports, non_shorthand_field_patterns, clippy::all)]
use crate::support::*;
use educe::Educe;
use core::cmp::Ordering;
#[derive(Educe)]
#[educe(Default(new = true))]
pub enum T { #[educe(Default)] Zed { #[educe(Default = false)] b: bool, #[educe(Default = 77)] x: i128, f: String, #[educe(Default = "hi")] y: &'static str }, V1(char, A<0>) }
pub fn show(x: &T) -> String { #[allow(unused_variables)] match x { T::Zed { b: p0, x: p1, f: p2, y: p3 } => format!("Zed({},{},{},{})", sv(p0), sv(p1), sv(p2), sv(p3)), T::V1(p0, p1) => format!("V1({},{})", sv(p0), sv(p1)) } }
pub fn o_default() -> T { T::Zed { b: false, x: 77i128, f: String::new(), y: "hi" } }
pub fn run(out: &mut Out) { let g = <T as ::core::default::Default>::default(); let e = o_default(); out.check(show(&g) == show(&e), "default_39", "default", || format!("default() = {} expected {}", show(&g), show(&e))); let g = T::new(); let e = o_default(); out.check(show(&g) == show(&e), "default_39", "new", || format!("new() = {} expected {}", show(&g), show(&e))); }
