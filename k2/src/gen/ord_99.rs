// ord_99
#![allow(dead_code, unused_variables, unused_mut, unused_imports, non_shorthand_field_patterns, clippy::all)]
use crate::support::*;
use core::cmp::Ordering;
pub mod ty {
    #![deny(warnings)]
    #![allow(dead_code, unused_imports, non_snake_case)]
    use crate::support::{A, B, C, Good, Bad, m_eq, m_cmp, m_pcmp, m_hash, m_fmt, m_clone, m_clone_c, m_into, g_eq, g_cmp, g_pcmp, g_hash, g_fmt};
    use educe::Educe;
#[derive(Educe)]
#[educe(PartialOrd, PartialEq, Eq, Ord)]
#[educe(Debug)]
pub struct T { #[educe(Ord(ignore = true))] pub other: A<0>, pub _y: A<0>, #[educe(Ord(ignore = true))] pub y: A<2> }
}
pub use ty::T;

pub fn values() -> Vec<T> { vec![T { other: A(0), _y: A(0), y: A(0) }, T { other: A(0), _y: A(0), y: A(1) }, T { other: A(0), _y: A(0), y: A(7) }, T { other: A(0), _y: A(1), y: A(0) }, T { other: A(0), _y: A(1), y: A(1) }, T { other: A(0), _y: A(1), y: A(7) }, T { other: A(0), _y: A(7), y: A(0) }, T { other: A(0), _y: A(7), y: A(1) }, T { other: A(0), _y: A(7), y: A(7) }, T { other: A(1), _y: A(0), y: A(0) }, T { other: A(1), _y: A(0), y: A(1) }, T { other: A(1), _y: A(0), y: A(7) }, T { other: A(1), _y: A(1), y: A(0) }, T { other: A(1), _y: A(1), y: A(1) }, T { other: A(1), _y: A(1), y: A(7) }, T { other: A(1), _y: A(7), y: A(0) }, T { other: A(1), _y: A(7), y: A(1) }, T { other: A(1), _y: A(7), y: A(7) }, T { other: A(7), _y: A(0), y: A(0) }, T { other: A(7), _y: A(0), y: A(1) }, T { other: A(7), _y: A(0), y: A(7) }, T { other: A(7), _y: A(1), y: A(0) }, T { other: A(7), _y: A(1), y: A(1) }, T { other: A(7), _y: A(1), y: A(7) }, T { other: A(7), _y: A(7), y: A(0) }, T { other: A(7), _y: A(7), y: A(1) }, T { other: A(7), _y: A(7), y: A(7) }] }
pub fn show(x: &T) -> String { #[allow(unused_variables)] match x { T { other: p0, _y: p1, y: p2 } => format!("T({},{},{})", sv(p0), sv(p1), sv(p2)) } }
pub fn o_disc(x: &T) -> i128 { match x { T { other: _, _y: _, y: _ } => 0 } }
pub fn o_cmp(a: &T, b: &T) -> Ordering { match (a, b) { (T { other: a0, _y: a1, y: a2 }, T { other: b0, _y: b1, y: b2 }) => { let c = ::core::cmp::Ord::cmp(a1, b1); if c != Ordering::Equal { return c; } Ordering::Equal } } }
pub fn run(out: &mut Out) { let vs = values(); for (i, a) in vs.iter().enumerate() { for (j, b) in vs.iter().enumerate() { let e = o_cmp(a, b); let g = ::core::cmp::Ord::cmp(a, b); out.check(g == e, "ord_99", "cmp", || format!("cmp({}, {}) = {:?} expected {:?}", show(a), show(b), g, e)); let g2 = ::core::cmp::PartialOrd::partial_cmp(a, b); out.check(g2 == Some(e), "ord_99", "partial_is_some_cmp", || format!("partial_cmp({}, {}) = {:?} expected Some({:?})", show(a), show(b), g2, e)); } } }
