// ord_149
#![allow(dead_code, unused_variables, unused_mut, unused_imports, non_shorthand_field_patterns, clippy::all)]
use crate::support::*;
use educe::Educe;
use core::cmp::Ordering;
#[derive(Educe)]
#[educe(PartialOrd, PartialEq, Eq)]
pub struct T { f: A<0> }

pub fn values() -> Vec<T> { vec![T { f: A(0) }, T { f: A(1) }, T { f: A(7) }] }
pub fn show(x: &T) -> String { #[allow(unused_variables)] match x { T { f: p0 } => format!("T({})", sv(p0)) } }
pub fn o_disc(x: &T) -> i128 { match x { T { f: _ } => 0 } }
pub fn o_pcmp(a: &T, b: &T) -> Option<Ordering> { match (a, b) { (T { f: a0 }, T { f: b0 }) => { match ::core::cmp::PartialOrd::partial_cmp(a0, b0) { Some(Ordering::Equal) => (), x => return x } Some(Ordering::Equal) } } }
pub fn run(out: &mut Out) { let vs = values(); for (i, a) in vs.iter().enumerate() { for (j, b) in vs.iter().enumerate() { let e = o_pcmp(a, b); let g = ::core::cmp::PartialOrd::partial_cmp(a, b); out.check(g == e, "ord_149", "partial_cmp", || format!("partial_cmp({}, {}) = {:?} expected {:?}", show(a), show(b), g, e)); } } }
