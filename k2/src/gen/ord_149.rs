// ord_149
#![allow(dead_code, unused_variables, unused_mut, unused_imports, non_shorthand_field_patterns, clippy::all)]
use crate::support::*;
use core::cmp::Ordering;
pub mod ty {
    #![deny(warnings)]
    #![allow(dead_code, unused_imports, non_snake_case)]
    use crate::support::{A, B, C, Good, Bad, m_eq, m_cmp, m_pcmp, m_hash, m_fmt, m_clone, m_clone_c, m_into, g_eq, g_cmp, g_pcmp, g_hash, g_fmt};
    use educe::Educe;
#[derive(Educe)]
#[repr(i32)]
#[educe(Ord, PartialOrd, Eq, PartialEq)]
pub enum T { Zed { #[educe(Ord(rank = -6, method = "m_cmp"))] other_data: A<0>, #[educe(Ord(ignore = true))] x: A<0>, #[educe(Ord(rank = 5i64, method(m_cmp)))] size: A<0> } = -1, Unit { data: A<0>, #[educe(Ord(rank = 3))] x: A<1>, #[educe(Ord(method = "m_cmp"))] other: A<0> } = -170, C(#[educe(Ord(ignore))] A<0>, #[educe(Ord(method = "m_cmp"))] A<1>) = 70000, Some = 200 }
}
pub use ty::T;

pub fn values() -> Vec<T> { vec![T::Zed { other_data: A(0), x: A(1), size: A(0) }, T::Zed { other_data: A(7), x: A(0), size: A(0) }, T::Zed { other_data: A(1), x: A(7), size: A(7) }, T::Zed { other_data: A(0), x: A(0), size: A(7) }, T::Zed { other_data: A(0), x: A(7), size: A(7) }, T::Zed { other_data: A(7), x: A(1), size: A(7) }, T::Zed { other_data: A(1), x: A(1), size: A(7) }, T::Zed { other_data: A(1), x: A(7), size: A(0) }, T::Zed { other_data: A(7), x: A(0), size: A(7) }, T::Unit { data: A(1), x: A(1), other: A(7) }, T::Unit { data: A(0), x: A(1), other: A(7) }, T::Unit { data: A(1), x: A(0), other: A(7) }, T::Unit { data: A(0), x: A(7), other: A(1) }, T::Unit { data: A(1), x: A(0), other: A(1) }, T::Unit { data: A(0), x: A(0), other: A(0) }, T::Unit { data: A(7), x: A(0), other: A(0) }, T::Unit { data: A(7), x: A(1), other: A(7) }, T::Unit { data: A(0), x: A(1), other: A(0) }, T::C(A(0), A(0)), T::C(A(0), A(1)), T::C(A(0), A(7)), T::C(A(1), A(0)), T::C(A(1), A(1)), T::C(A(1), A(7)), T::C(A(7), A(0)), T::C(A(7), A(1)), T::C(A(7), A(7)), T::Some] }
pub fn show(x: &T) -> String { #[allow(unused_variables)] match x { T::Zed { other_data: p0, x: p1, size: p2 } => format!("Zed({},{},{})", sv(p0), sv(p1), sv(p2)), T::Unit { data: p0, x: p1, other: p2 } => format!("Unit({},{},{})", sv(p0), sv(p1), sv(p2)), T::C(p0, p1) => format!("C({},{})", sv(p0), sv(p1)), T::Some => format!("Some()") } }
pub fn o_disc(x: &T) -> i128 { match x { T::Zed { other_data: _, x: _, size: _ } => -1, T::Unit { data: _, x: _, other: _ } => -170, T::C(_, _) => 70000, T::Some => 200 } }
pub fn o_cmp(a: &T, b: &T) -> Ordering { match (a, b) { (T::Zed { other_data: a0, x: a1, size: a2 }, T::Zed { other_data: b0, x: b1, size: b2 }) => { let c = m_cmp(a0, b0); if c != Ordering::Equal { return c; } let c = m_cmp(a2, b2); if c != Ordering::Equal { return c; } Ordering::Equal }, (T::Unit { data: a0, x: a1, other: a2 }, T::Unit { data: b0, x: b1, other: b2 }) => { let c = ::core::cmp::Ord::cmp(a0, b0); if c != Ordering::Equal { return c; } let c = m_cmp(a2, b2); if c != Ordering::Equal { return c; } let c = ::core::cmp::Ord::cmp(a1, b1); if c != Ordering::Equal { return c; } Ordering::Equal }, (T::C(a0, a1), T::C(b0, b1)) => { let c = m_cmp(a1, b1); if c != Ordering::Equal { return c; } Ordering::Equal }, (T::Some, T::Some) => {  Ordering::Equal }, _ => o_disc(a).cmp(&o_disc(b)) } }
pub fn run(out: &mut Out) { let vs = values(); for (i, a) in vs.iter().enumerate() { for (j, b) in vs.iter().enumerate() { let e = o_cmp(a, b); let g = ::core::cmp::Ord::cmp(a, b); out.check(g == e, "ord_149", "cmp", || format!("cmp({}, {}) = {:?} expected {:?}", show(a), show(b), g, e)); let g2 = ::core::cmp::PartialOrd::partial_cmp(a, b); out.check(g2 == Some(e), "ord_149", "partial_is_some_cmp", || format!("partial_cmp({}, {}) = {:?} expected Some({:?})", show(a), show(b), g2, e)); } } }
