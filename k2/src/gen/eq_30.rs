// eq_30
#![allow(dead_code, unused_variables, unused_mut, unused_imports, non_shorthand_field_patterns, clippy::all)]
use crate::support::*;
use educe::Educe;
use core::cmp::Ordering;
#[derive(Educe)]
#[educe(PartialEq)]
pub enum T { B, V1(A<0>, #[educe(PartialEq(method(m_eq)))] A<1>, #[educe(PartialEq(ignore))] A<2>, #[educe(PartialEq(ignore(true)))] A<3>) }
pub fn values() -> Vec<T> { vec![T::B, T::V1(A(7), A(0), A(1), A(1)), T::V1(A(7), A(7), A(0), A(0)), T::V1(A(1), A(7), A(1), A(1)), T::V1(A(7), A(7), A(0), A(1)), T::V1(A(7), A(0), A(0), A(7)), T::V1(A(1), A(0), A(0), A(1)), T::V1(A(1), A(7), A(0), A(0)), T::V1(A(1), A(0), A(0), A(0)), T::V1(A(1), A(1), A(0), A(7)), T::V1(A(7), A(7), A(7), A(0)), T::V1(A(7), A(1), A(0), A(0)), T::V1(A(1), A(0), A(1), A(1)), T::V1(A(1), A(1), A(1), A(7)), T::V1(A(1), A(1), A(0), A(1)), T::V1(A(0), A(1), A(1), A(0)), T::V1(A(1), A(0), A(7), A(1)), T::V1(A(0), A(7), A(1), A(0)), T::V1(A(1), A(0), A(7), A(7)), T::V1(A(1), A(1), A(7), A(0)), T::V1(A(0), A(1), A(7), A(7)), T::V1(A(1), A(7), A(7), A(1)), T::V1(A(7), A(1), A(7), A(1)), T::V1(A(0), A(0), A(1), A(7)), T::V1(A(0), A(7), A(7), A(1))] }
pub fn show(x: &T) -> String { #[allow(unused_variables)] match x { T::B => format!("B()"), T::V1(p0, p1, p2, p3) => format!("V1({},{},{},{})", sv(p0), sv(p1), sv(p2), sv(p3)) } }
pub fn o_eq(a: &T, b: &T) -> bool { match (a, b) { (T::B, T::B) => true, (T::V1(a0, a1, a2, a3), T::V1(b0, b1, b2, b3)) => (a0 == b0) && m_eq(a1, b1), _ => false } }
pub fn run(out: &mut Out) { let vs = values(); for a in &vs { for b in &vs { let e = o_eq(a, b); out.check((a == b) == e, "eq_30", "eq", || format!("{} == {} expected {}", show(a), show(b), e)); out.check((a != b) == !e, "eq_30", "ne", || format!("{} != {} expected {}", show(a), show(b), !e)); } } }
