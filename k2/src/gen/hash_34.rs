// hash_34
#![allow(dead_code, unused_variables, unused_mut, unused_imports, non_shorthand_field_patterns, clippy::all)]
use crate::support::*;
use educe::Educe;
use core::cmp::Ordering;
#[derive(Educe)]
#[educe(Hash)]
pub enum T { None { source: A<0> }, B, C(#[educe(Hash = false)] A<0>, A<1>), Zed {  } }
pub fn values() -> Vec<T> { vec![T::None { source: A(0) }, T::None { source: A(1) }, T::None { source: A(7) }, T::B, T::C(A(0), A(0)), T::C(A(0), A(1)), T::C(A(0), A(7)), T::C(A(1), A(0)), T::C(A(1), A(1)), T::C(A(1), A(7)), T::C(A(7), A(0)), T::C(A(7), A(1)), T::C(A(7), A(7)), T::Zed {  }] }
pub fn show(x: &T) -> String { #[allow(unused_variables)] match x { T::None { source: p0 } => format!("None({})", sv(p0)), T::B => format!("B()"), T::C(p0, p1) => format!("C({},{})", sv(p0), sv(p1)), T::Zed {  } => format!("Zed()") } }
pub fn o_hash(x: &T) -> Vec<String> { let mut e = Rec::default(); match x { T::None { source: p0 } => { ::core::hash::Hash::hash(&0usize, &mut e); ::core::hash::Hash::hash(p0, &mut e); }, T::B => { ::core::hash::Hash::hash(&1usize, &mut e); }, T::C(p0, p1) => { ::core::hash::Hash::hash(&2usize, &mut e); ::core::hash::Hash::hash(p1, &mut e); }, T::Zed {  } => { ::core::hash::Hash::hash(&3usize, &mut e); } } e.0 }
pub fn run(out: &mut Out) { let vs = values(); for a in &vs { let mut g = Rec::default(); ::core::hash::Hash::hash(a, &mut g); let e = o_hash(a); out.check(g.0 == e, "hash_34", "hash", || format!("hash({}) fed {:?} expected {:?}", show(a), g.0, e)); } }
