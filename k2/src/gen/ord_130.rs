// ord_130
#![allow(dead_code, unused_variables, unused_mut, unused_imports, non_shorthand_field_patterns, clippy::all)]
use crate::support::*;
use educe::Educe;
use core::cmp::Ordering;
#[derive(Educe)]
#[repr(isize)]
#[educe(Eq, PartialEq, PartialOrd)]
pub enum T { Zed { #[educe(PartialOrd(method(m_pcmp)))] builder: A<0>, _0: A<1>, a: A<2>, #[educe(PartialOrd(method = m_pcmp))] source: A<0> } = 127, Some(#[educe(PartialOrd(rank = "5"))] A<0>) = 3 }

pub fn values() -> Vec<T> { vec![T::Zed { builder: A(1), _0: A(7), a: A(1), source: A(7) }, T::Zed { builder: A(7), _0: A(1), a: A(0), source: A(0) }, T::Zed { builder: A(0), _0: A(7), a: A(0), source: A(1) }, T::Zed { builder: A(7), _0: A(7), a: A(7), source: A(1) }, T::Zed { builder: A(0), _0: A(7), a: A(1), source: A(7) }, T::Zed { builder: A(7), _0: A(1), a: A(1), source: A(0) }, T::Zed { builder: A(1), _0: A(7), a: A(0), source: A(1) }, T::Zed { builder: A(0), _0: A(7), a: A(1), source: A(0) }, T::Zed { builder: A(7), _0: A(0), a: A(7), source: A(7) }, T::Zed { builder: A(0), _0: A(0), a: A(1), source: A(7) }, T::Zed { builder: A(1), _0: A(0), a: A(1), source: A(7) }, T::Zed { builder: A(7), _0: A(0), a: A(1), source: A(1) }, T::Zed { builder: A(0), _0: A(0), a: A(7), source: A(0) }, T::Zed { builder: A(1), _0: A(0), a: A(7), source: A(1) }, T::Zed { builder: A(1), _0: A(0), a: A(7), source: A(0) }, T::Zed { builder: A(7), _0: A(7), a: A(0), source: A(1) }, T::Zed { builder: A(1), _0: A(1), a: A(7), source: A(1) }, T::Zed { builder: A(7), _0: A(1), a: A(1), source: A(1) }, T::Some(A(0)), T::Some(A(1)), T::Some(A(7))] }
pub fn show(x: &T) -> String { #[allow(unused_variables)] match x { T::Zed { builder: p0, _0: p1, a: p2, source: p3 } => format!("Zed({},{},{},{})", sv(p0), sv(p1), sv(p2), sv(p3)), T::Some(p0) => format!("Some({})", sv(p0)) } }
pub fn o_disc(x: &T) -> i128 { match x { T::Zed { builder: _, _0: _, a: _, source: _ } => 127, T::Some(_) => 3 } }
pub fn o_pcmp(a: &T, b: &T) -> Option<Ordering> { match (a, b) { (T::Zed { builder: a0, _0: a1, a: a2, source: a3 }, T::Zed { builder: b0, _0: b1, a: b2, source: b3 }) => { match m_pcmp(a0, b0) { Some(Ordering::Equal) => (), x => return x } match ::core::cmp::PartialOrd::partial_cmp(a1, b1) { Some(Ordering::Equal) => (), x => return x } match ::core::cmp::PartialOrd::partial_cmp(a2, b2) { Some(Ordering::Equal) => (), x => return x } match m_pcmp(a3, b3) { Some(Ordering::Equal) => (), x => return x } Some(Ordering::Equal) }, (T::Some(a0), T::Some(b0)) => { match ::core::cmp::PartialOrd::partial_cmp(a0, b0) { Some(Ordering::Equal) => (), x => return x } Some(Ordering::Equal) }, _ => Some(o_disc(a).cmp(&o_disc(b))) } }
pub fn run(out: &mut Out) { let vs = values(); for (i, a) in vs.iter().enumerate() { for (j, b) in vs.iter().enumerate() { let e = o_pcmp(a, b); let g = ::core::cmp::PartialOrd::partial_cmp(a, b); out.check(g == e, "ord_130", "partial_cmp", || format!("partial_cmp({}, {}) = {:?} expected {:?}", show(a), show(b), g, e)); } } }
