// ord_11
#![allow(dead_code, unused_variables, unused_mut, unused_imports, non_shorthand_field_patterns, clippy::all)]
use crate::support::*;
use educe::Educe;
use core::cmp::Ordering;
#[derive(Educe)]
#[repr(i32)]
#[educe(Ord, PartialEq, PartialOrd, Eq)]
pub enum T { V1(#[educe(PartialOrd(rank = 2))] A<0>) = 1, Some(#[educe(PartialOrd = false)] A<0>) }

pub fn values() -> Vec<T> { vec![T::V1(A(0)), T::V1(A(1)), T::V1(A(7)), T::Some(A(0)), T::Some(A(1)), T::Some(A(7))] }
pub fn show(x: &T) -> String { #[allow(unused_variables)] match x { T::V1(p0) => format!("V1({})", sv(p0)), T::Some(p0) => format!("Some({})", sv(p0)) } }
pub fn o_disc(x: &T) -> i128 { match x { T::V1(_) => 1, T::Some(_) => 2 } }
pub fn o_cmp(a: &T, b: &T) -> Ordering { match (a, b) { (T::V1(a0), T::V1(b0)) => { let c = ::core::cmp::Ord::cmp(a0, b0); if c != Ordering::Equal { return c; } Ordering::Equal }, (T::Some(a0), T::Some(b0)) => {  Ordering::Equal }, _ => o_disc(a).cmp(&o_disc(b)) } }
pub fn run(out: &mut Out) { let vs = values(); for (i, a) in vs.iter().enumerate() { for (j, b) in vs.iter().enumerate() { let e = o_cmp(a, b); let g = ::core::cmp::Ord::cmp(a, b); out.check(g == e, "ord_11", "cmp", || format!("cmp({}, {}) = {:?} expected {:?}", show(a), show(b), g, e)); let g2 = ::core::cmp::PartialOrd::partial_cmp(a, b); out.check(g2 == Some(e), "ord_11", "partial_is_some_cmp", || format!("partial_cmp({}, {}) = {:?} expected Some({:?})", show(a), show(b), g2, e)); } } }
