// default_121
#![allow(dead_code, unused_variables, unused_mut, unused_imports, non_shorthand_field_patterns, clippy::all)]
use crate::support::*;
use educe::Educe;
use core::cmp::Ordering;
#[derive(Educe)]
#[educe(Default(new = true))]
pub enum T { #[educe(Default)] B { x: char, #[educe(Default = 77)] b: i128 }, C }
pub fn show(x: &T) -> String { #[allow(unused_variables)] match x { T::B { x: p0, b: p1 } => format!("B({},{})", sv(p0), sv(p1)), T::C => format!("C()") } }
pub fn o_default() -> T { T::B { x: '\0', b: 77i128 } }
pub fn run(out: &mut Out) { let g = <T as ::core::default::Default>::default(); let e = o_default(); out.check(show(&g) == show(&e), "default_121", "default", || format!("default() = {} expected {}", show(&g), show(&e))); let g = T::new(); let e = o_default(); out.check(show(&g) == show(&e), "default_121", "new", || format!("new() = {} expected {}", show(&g), show(&e))); }
