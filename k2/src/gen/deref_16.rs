// deref_16
#![allow(dead_code, unused_variables, unused_mut, unused_imports, non_shorthand_field_patterns, clippy::all)]
use crate::support::*;
use educe::Educe;
use core::cmp::Ordering;
#[derive(Educe)]
#[educe(Deref)]
pub enum T { A { y: A<2>, #[educe(Deref)] state: &'static A<2> } }
pub fn values() -> Vec<T> { vec![T::A { y: A(0), state: &A(0) }, T::A { y: A(0), state: &A(1) }, T::A { y: A(1), state: &A(0) }, T::A { y: A(1), state: &A(1) }, T::A { y: A(7), state: &A(0) }, T::A { y: A(7), state: &A(1) }] }
pub fn show(x: &T) -> String { #[allow(unused_variables)] match x { T::A { y: p0, state: p1 } => format!("A({},{})", sv(p0), sv(p1)) } }
pub fn o_deref(x: &T) -> *const A<2> { match x { T::A { y: _, state: p1 } => *p1 as *const A<2> } }
pub fn run(out: &mut Out) { let vs = values(); for a in &vs { let g = ::core::ops::Deref::deref(a) as *const A<2>; let e = o_deref(a); out.check(g == e, "deref_16", "deref", || format!("&*{} has another address than the designated field", show(a))); } }
