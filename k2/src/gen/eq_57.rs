// eq_57
#![allow(dead_code, unused_variables, unused_mut, unused_imports, non_shorthand_field_patterns, clippy::all)]
use crate::support::*;
use educe::Educe;
use core::cmp::Ordering;
#[derive(Educe)]
#[educe(PartialEq, Eq)]
pub enum T { A { #[educe(PartialEq(ignore))] y: A<0>, #[educe(PartialEq(ignore(true)))] a: A<0>, builder: A<2>, #[educe(PartialEq(ignore = true))] f: A<3> }, C, Some }
pub fn values() -> Vec<T> { vec![T::A { y: A(0), a: A(0), builder: A(0), f: A(0) }, T::A { y: A(1), a: A(0), builder: A(1), f: A(0) }, T::A { y: A(1), a: A(1), builder: A(0), f: A(1) }, T::A { y: A(0), a: A(1), builder: A(0), f: A(7) }, T::A { y: A(1), a: A(7), builder: A(7), f: A(1) }, T::A { y: A(1), a: A(7), builder: A(0), f: A(1) }, T::A { y: A(1), a: A(7), builder: A(1), f: A(0) }, T::A { y: A(1), a: A(7), builder: A(0), f: A(7) }, T::A { y: A(7), a: A(0), builder: A(7), f: A(7) }, T::A { y: A(1), a: A(7), builder: A(1), f: A(1) }, T::A { y: A(0), a: A(0), builder: A(1), f: A(0) }, T::A { y: A(7), a: A(1), builder: A(7), f: A(1) }, T::A { y: A(0), a: A(1), builder: A(7), f: A(0) }, T::A { y: A(7), a: A(0), builder: A(7), f: A(0) }, T::A { y: A(1), a: A(0), builder: A(7), f: A(7) }, T::A { y: A(1), a: A(7), builder: A(0), f: A(0) }, T::C, T::Some] }
pub fn show(x: &T) -> String { #[allow(unused_variables)] match x { T::A { y: p0, a: p1, builder: p2, f: p3 } => format!("A({},{},{},{})", sv(p0), sv(p1), sv(p2), sv(p3)), T::C => format!("C()"), T::Some => format!("Some()") } }
pub fn o_eq(a: &T, b: &T) -> bool { match (a, b) { (T::A { y: a0, a: a1, builder: a2, f: a3 }, T::A { y: b0, a: b1, builder: b2, f: b3 }) => (a2 == b2), (T::C, T::C) => true, (T::Some, T::Some) => true, _ => false } }
pub fn run(out: &mut Out) { let vs = values(); for a in &vs { for b in &vs { let e = o_eq(a, b); out.check((a == b) == e, "eq_57", "eq", || format!("{} == {} expected {}", show(a), show(b), e)); out.check((a != b) == !e, "eq_57", "ne", || format!("{} != {} expected {}", show(a), show(b), !e)); } } }
