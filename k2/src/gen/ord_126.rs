// ord_126
#![allow(dead_code, unused_variables, unused_mut, unused_imports, non_shorthand_field_patterns, clippy::all)]
use crate::support::*;
use educe::Educe;
use core::cmp::Ordering;
#[derive(Educe)]
#[repr(i64)]
#[educe(Ord, PartialEq, Eq)]
pub enum T { V1(A<0>) = 128 }
impl PartialOrd for T { fn partial_cmp(&self, o: &Self) -> Option<Ordering> { Some(::core::cmp::Ord::cmp(self, o)) } }
pub fn values() -> Vec<T> { vec![T::V1(A(0)), T::V1(A(1)), T::V1(A(7))] }
pub fn show(x: &T) -> String { #[allow(unused_variables)] match x { T::V1(p0) => format!("V1({})", sv(p0)) } }
pub fn o_disc(x: &T) -> i128 { match x { T::V1(_) => 128 } }
pub fn o_cmp(a: &T, b: &T) -> Ordering { match (a, b) { (T::V1(a0), T::V1(b0)) => { let c = ::core::cmp::Ord::cmp(a0, b0); if c != Ordering::Equal { return c; } Ordering::Equal } } }
pub fn run(out: &mut Out) { let vs = values(); for (i, a) in vs.iter().enumerate() { for (j, b) in vs.iter().enumerate() { let e = o_cmp(a, b); let g = ::core::cmp::Ord::cmp(a, b); out.check(g == e, "ord_126", "cmp", || format!("cmp({}, {}) = {:?} expected {:?}", show(a), show(b), g, e)); } } }
