// ord_126
#![allow(dead_code, unused_variables, unused_mut, unused_imports, non_shorthand_field_patterns, clippy::all)]
use crate::support::*;
use core::cmp::Ordering;
pub mod ty {
    #![deny(warnings)]
    #![allow(dead_code, unused_imports, non_snake_case)]
    use crate::support::{A, B, C, Good, Bad, m_eq, m_cmp, m_pcmp, m_hash, m_fmt, m_clone, m_clone_c, m_into, g_eq, g_cmp, g_pcmp, g_hash, g_fmt};
    use educe::Educe;
#[derive(Educe)]
#[educe(Debug)]
#[educe(PartialOrd, Eq, PartialEq)]
pub struct T { #[educe(Debug(ignore))] #[educe(PartialOrd(ignore = false))] pub r#type: A<0>, #[educe(Debug(ignore = true), PartialOrd(rank = "-3"))] pub other_data: A<1>, #[educe(Debug(ignore = true), PartialOrd(method = m_pcmp))] pub c: A<2> }
}
pub use ty::T;

pub fn values() -> Vec<T> { vec![T { r#type: A(0), other_data: A(0), c: A(0) }, T { r#type: A(0), other_data: A(0), c: A(1) }, T { r#type: A(0), other_data: A(0), c: A(7) }, T { r#type: A(0), other_data: A(1), c: A(0) }, T { r#type: A(0), other_data: A(1), c: A(1) }, T { r#type: A(0), other_data: A(1), c: A(7) }, T { r#type: A(0), other_data: A(7), c: A(0) }, T { r#type: A(0), other_data: A(7), c: A(1) }, T { r#type: A(0), other_data: A(7), c: A(7) }, T { r#type: A(1), other_data: A(0), c: A(0) }, T { r#type: A(1), other_data: A(0), c: A(1) }, T { r#type: A(1), other_data: A(0), c: A(7) }, T { r#type: A(1), other_data: A(1), c: A(0) }, T { r#type: A(1), other_data: A(1), c: A(1) }, T { r#type: A(1), other_data: A(1), c: A(7) }, T { r#type: A(1), other_data: A(7), c: A(0) }, T { r#type: A(1), other_data: A(7), c: A(1) }, T { r#type: A(1), other_data: A(7), c: A(7) }, T { r#type: A(7), other_data: A(0), c: A(0) }, T { r#type: A(7), other_data: A(0), c: A(1) }, T { r#type: A(7), other_data: A(0), c: A(7) }, T { r#type: A(7), other_data: A(1), c: A(0) }, T { r#type: A(7), other_data: A(1), c: A(1) }, T { r#type: A(7), other_data: A(1), c: A(7) }, T { r#type: A(7), other_data: A(7), c: A(0) }, T { r#type: A(7), other_data: A(7), c: A(1) }, T { r#type: A(7), other_data: A(7), c: A(7) }] }
pub fn show(x: &T) -> String { #[allow(unused_variables)] match x { T { r#type: p0, other_data: p1, c: p2 } => format!("T({},{},{})", sv(p0), sv(p1), sv(p2)) } }
pub fn o_disc(x: &T) -> i128 { match x { T { r#type: _, other_data: _, c: _ } => 0 } }
pub fn o_pcmp(a: &T, b: &T) -> Option<Ordering> { match (a, b) { (T { r#type: a0, other_data: a1, c: a2 }, T { r#type: b0, other_data: b1, c: b2 }) => { match ::core::cmp::PartialOrd::partial_cmp(a0, b0) { Some(Ordering::Equal) => (), x => return x } match m_pcmp(a2, b2) { Some(Ordering::Equal) => (), x => return x } match ::core::cmp::PartialOrd::partial_cmp(a1, b1) { Some(Ordering::Equal) => (), x => return x } Some(Ordering::Equal) } } }
pub fn run(out: &mut Out) { let vs = values(); for (i, a) in vs.iter().enumerate() { for (j, b) in vs.iter().enumerate() { let e = o_pcmp(a, b); let g = ::core::cmp::PartialOrd::partial_cmp(a, b); out.check(g == e, "ord_126", "partial_cmp", || format!("partial_cmp({}, {}) = {:?} expected {:?}", show(a), show(b), g, e)); } } }
