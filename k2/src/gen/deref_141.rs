// deref_141
#![allow(dead_code, unused_variables, unused_mut, unused_imports, non_shorthand_field_patterns, clippy::all)]
use crate::support::*;
use educe::Educe;
use core::cmp::Ordering;
#[derive(Educe)]
#[educe(Deref)]
pub struct T(&'static A<1>);
pub fn values() -> Vec<T> { vec![T(&A(0)), T(&A(1))] }
pub fn show(x: &T) -> String { #[allow(unused_variables)] match x { T(p0) => format!("T({})", sv(p0)) } }
pub fn o_deref(x: &T) -> *const A<1> { match x { T(p0) => *p0 as *const A<1> } }
pub fn run(out: &mut Out) { let vs = values(); for a in &vs { let g = ::core::ops::Deref::deref(a) as *const A<1>; let e = o_deref(a); out.check(g == e, "deref_141", "deref", || format!("&*{} has another address than the designated field", show(a))); } }
