// default_29
#![allow(dead_code, unused_variables, unused_mut, unused_imports, non_shorthand_field_patterns, clippy::all)]
use crate::support::*;
use educe::Educe;
use core::cmp::Ordering;
#[derive(Educe)]
#[educe(Default)]
pub enum T { A, #[educe(Default)] Zed { data: A<0>, #[educe(Default(expr(String::from("yo"))))] source: String } }
pub fn show(x: &T) -> String { #[allow(unused_variables)] match x { T::A => format!("A()"), T::Zed { data: p0, source: p1 } => format!("Zed({},{})", sv(p0), sv(p1)) } }
pub fn o_default() -> T { T::Zed { data: A(40), source: String::from("yo") } }
pub fn run(out: &mut Out) { let g = <T as ::core::default::Default>::default(); let e = o_default(); out.check(show(&g) == show(&e), "default_29", "default", || format!("default() = {} expected {}", show(&g), show(&e))); }
