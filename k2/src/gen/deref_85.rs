// deref_85
#![allow(dead_code, unused_variables, unused_mut, unused_imports, non_shorthand_field_patterns, clippy::all)]
use crate::support::*;
use educe::Educe;
use core::cmp::Ordering;
#[derive(Educe)]
#[educe(Deref, DerefMut)]
pub enum T { None { #[educe(DerefMut)] source: A<2>, y: A<2>, #[educe(Deref)] arg: A<2> }, Some { builder: A<2> } }
pub fn values() -> Vec<T> { vec![T::None { source: A(7), y: A(0), arg: A(0) }, T::None { source: A(7), y: A(0), arg: A(7) }, T::None { source: A(1), y: A(0), arg: A(0) }, T::None { source: A(0), y: A(0), arg: A(1) }, T::None { source: A(0), y: A(0), arg: A(0) }, T::None { source: A(1), y: A(7), arg: A(7) }, T::None { source: A(1), y: A(0), arg: A(1) }, T::None { source: A(1), y: A(1), arg: A(1) }, T::Some { builder: A(0) }, T::Some { builder: A(1) }, T::Some { builder: A(7) }] }
pub fn show(x: &T) -> String { #[allow(unused_variables)] match x { T::None { source: p0, y: p1, arg: p2 } => format!("None({},{},{})", sv(p0), sv(p1), sv(p2)), T::Some { builder: p0 } => format!("Some({})", sv(p0)) } }
pub fn o_deref(x: &T) -> *const A<2> { match x { T::None { source: _, y: _, arg: p2 } => p2 as *const A<2>, T::Some { builder: p0 } => p0 as *const A<2> } }
pub fn o_deref_mut(x: &mut T) -> *mut A<2> { match x { T::None { source: p0, y: _, arg: _ } => p0 as *mut A<2>, T::Some { builder: p0 } => p0 as *mut A<2> } }
pub fn o_write(x: &mut T) { match x { T::None { source: p0, y: _, arg: _ } => { *p0 = A(99); }, T::Some { builder: p0 } => { *p0 = A(99); } } }
pub fn run(out: &mut Out) { let vs = values(); for a in &vs { let g = ::core::ops::Deref::deref(a) as *const A<2>; let e = o_deref(a); out.check(g == e, "deref_85", "deref", || format!("&*{} has another address than the designated field", show(a))); } let n = vs.len(); for i in 0..n { let mut x = values().swap_remove(i); let e = o_deref_mut(&mut x); let g = ::core::ops::DerefMut::deref_mut(&mut x) as *mut A<2>; out.check(g == e, "deref_85", "deref_mut", || format!("&mut *{} has another address than the designated field", show(&x))); let mut y = values().swap_remove(i); o_write(&mut y); *::core::ops::DerefMut::deref_mut(&mut x) = A(99); out.check(show(&x) == show(&y), "deref_85", "deref_mut_write", || format!("after a write through &mut *x: {} expected {}", show(&x), show(&y))); } }
