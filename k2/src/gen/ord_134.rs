// ord_134
#![allow(dead_code, unused_variables, unused_mut, unused_imports, non_shorthand_field_patterns, clippy::all)]
use crate::support::*;
use core::cmp::Ordering;
pub mod ty {
    #![deny(warnings)]
    #![allow(dead_code, unused_imports, non_snake_case)]
    use crate::support::{A, B, C, Good, Bad, m_eq, m_cmp, m_pcmp, m_hash, m_fmt, m_clone, m_clone_c, m_into, g_eq, g_cmp, g_pcmp, g_hash, g_fmt};
    use educe::Educe;
#[derive(Educe)]
#[repr(C)]
#[educe(Debug)]
#[educe(PartialOrd, PartialEq, Ord, Eq)]
pub enum T { Some { #[educe(PartialOrd(method = m_cmp))] state: A<0> }, V1 }
}
pub use ty::T;

pub fn values() -> Vec<T> { vec![T::Some { state: A(0) }, T::Some { state: A(1) }, T::Some { state: A(7) }, T::V1] }
pub fn show(x: &T) -> String { #[allow(unused_variables)] match x { T::Some { state: p0 } => format!("Some({})", sv(p0)), T::V1 => format!("V1()") } }
pub fn o_disc(x: &T) -> i128 { match x { T::Some { state: _ } => 0, T::V1 => 1 } }
pub fn o_cmp(a: &T, b: &T) -> Ordering { match (a, b) { (T::Some { state: a0 }, T::Some { state: b0 }) => { let c = m_cmp(a0, b0); if c != Ordering::Equal { return c; } Ordering::Equal }, (T::V1, T::V1) => {  Ordering::Equal }, _ => o_disc(a).cmp(&o_disc(b)) } }
pub fn run(out: &mut Out) { let vs = values(); for (i, a) in vs.iter().enumerate() { for (j, b) in vs.iter().enumerate() { let e = o_cmp(a, b); let g = ::core::cmp::Ord::cmp(a, b); out.check(g == e, "ord_134", "cmp", || format!("cmp({}, {}) = {:?} expected {:?}", show(a), show(b), g, e)); let g2 = ::core::cmp::PartialOrd::partial_cmp(a, b); out.check(g2 == Some(e), "ord_134", "partial_is_some_cmp", || format!("partial_cmp({}, {}) = {:?} expected Some({:?})", show(a), show(b), g2, e)); } } }
