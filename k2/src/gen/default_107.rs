// default_107
#![allow(dead_code, unused_variables, unused_mut, unused_imports, non_shorthand_field_patterns, clippy::all)]
use crate::support::*;
use educe::Educe;
use core::cmp::Ordering;
#[derive(Educe)]
#[educe(Default)]
pub enum T { #[educe(Default)] A(bool, A<0>), Unit(f64) }
pub fn show(x: &T) -> String { #[allow(unused_variables)] match x { T::A(p0, p1) => format!("A({},{})", sv(p0), sv(p1)), T::Unit(p0) => format!("Unit({})", sv(p0)) } }
pub fn o_default() -> T { T::A(false, A(40)) }
pub fn run(out: &mut Out) { let g = <T as ::core::default::Default>::default(); let e = o_default(); out.check(show(&g) == show(&e), "default_107", "default", || format!("default() = {} expected {}", show(&g), show(&e))); }
