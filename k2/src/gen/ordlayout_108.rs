// ordlayout_108
#![allow(dead_code, unused_variables, unused_mut, unused_imports, non_shorthand_field_patterns, clippy::all)]
use crate::support::*;
use educe::Educe;
use core::cmp::Ordering;
#[derive(Educe)]
#[repr(u8)]
#[educe(Eq, Ord, PartialEq)]
pub enum T { Some, C { x: i64, #[educe(Ord(rank("-2")))] a: i64, builder: ::core::num::NonZeroU8 } }
impl PartialOrd for T { fn partial_cmp(&self, o: &Self) -> Option<Ordering> { Some(::core::cmp::Ord::cmp(self, o)) } }
pub fn values() -> Vec<T> { vec![T::Some, T::C { x: -5, a: -5, builder: ::core::num::NonZeroU8::new(1).unwrap() }, T::C { x: -5, a: -5, builder: ::core::num::NonZeroU8::new(200).unwrap() }, T::C { x: -5, a: 0, builder: ::core::num::NonZeroU8::new(1).unwrap() }, T::C { x: -5, a: 0, builder: ::core::num::NonZeroU8::new(200).unwrap() }, T::C { x: -5, a: 9, builder: ::core::num::NonZeroU8::new(1).unwrap() }, T::C { x: -5, a: 9, builder: ::core::num::NonZeroU8::new(200).unwrap() }, T::C { x: 0, a: -5, builder: ::core::num::NonZeroU8::new(1).unwrap() }, T::C { x: 0, a: -5, builder: ::core::num::NonZeroU8::new(200).unwrap() }, T::C { x: 0, a: 0, builder: ::core::num::NonZeroU8::new(1).unwrap() }, T::C { x: 0, a: 0, builder: ::core::num::NonZeroU8::new(200).unwrap() }, T::C { x: 0, a: 9, builder: ::core::num::NonZeroU8::new(1).unwrap() }, T::C { x: 0, a: 9, builder: ::core::num::NonZeroU8::new(200).unwrap() }, T::C { x: 9, a: -5, builder: ::core::num::NonZeroU8::new(1).unwrap() }, T::C { x: 9, a: -5, builder: ::core::num::NonZeroU8::new(200).unwrap() }, T::C { x: 9, a: 0, builder: ::core::num::NonZeroU8::new(1).unwrap() }, T::C { x: 9, a: 0, builder: ::core::num::NonZeroU8::new(200).unwrap() }, T::C { x: 9, a: 9, builder: ::core::num::NonZeroU8::new(1).unwrap() }, T::C { x: 9, a: 9, builder: ::core::num::NonZeroU8::new(200).unwrap() }] }
pub fn show(x: &T) -> String { #[allow(unused_variables)] match x { T::Some => format!("Some()"), T::C { x: p0, a: p1, builder: p2 } => format!("C({},{},{})", sv(p0), sv(p1), sv(p2)) } }
pub fn o_disc(x: &T) -> i128 { match x { T::Some => 0, T::C { x: _, a: _, builder: _ } => 1 } }
pub fn o_cmp(a: &T, b: &T) -> Ordering { match (a, b) { (T::Some, T::Some) => {  Ordering::Equal }, (T::C { x: a0, a: a1, builder: a2 }, T::C { x: b0, a: b1, builder: b2 }) => { let c = ::core::cmp::Ord::cmp(a0, b0); if c != Ordering::Equal { return c; } let c = ::core::cmp::Ord::cmp(a2, b2); if c != Ordering::Equal { return c; } let c = ::core::cmp::Ord::cmp(a1, b1); if c != Ordering::Equal { return c; } Ordering::Equal }, _ => o_disc(a).cmp(&o_disc(b)) } }
#[repr(C)] pub struct Wrap { pub pre: u8, pub x: T, pub post: [u8; 9] }
pub fn wrap(i: usize, n: u8) -> Wrap { Wrap { pre: n, x: values().swap_remove(i), post: [n; 9] } }
pub fn run(out: &mut Out) { let vs = values(); for (i, a) in vs.iter().enumerate() { for (j, b) in vs.iter().enumerate() { let e = o_cmp(a, b); let g = ::core::cmp::Ord::cmp(a, b); out.check(g == e, "ordlayout_108", "cmp", || format!("cmp({}, {}) = {:?} expected {:?}", show(a), show(b), g, e)); for n in [0u8, 1, 0x7f, 0x80, 0xff] { let wa = wrap(i, n); let wb = wrap(j, !n); let g = ::core::cmp::Ord::cmp(&wa.x, &wb.x); let e = o_cmp(a, b); out.check(g == e, "ordlayout_108", "cmp_neighbours", || format!("cmp({}, {}) with neighbour bytes {} = {:?} expected {:?}", show(a), show(b), n, g, e)); } } } }
