// debug_24
#![allow(dead_code, unused_variables, unused_mut, unused_imports, non_shorthand_field_patterns, clippy::all)]
use crate::support::*;
use educe::Educe;
use core::cmp::Ordering;
#[derive(Educe)]
#[educe(Debug(named_field = false))]
pub struct T { #[educe(Debug(method = m_fmt))] other: A<0>, #[educe(Debug(method = m_fmt))] rr_type: A<0> }
pub fn values() -> Vec<T> { vec![T { other: A(0), rr_type: A(0) }, T { other: A(0), rr_type: A(1) }, T { other: A(0), rr_type: A(7) }, T { other: A(1), rr_type: A(0) }, T { other: A(1), rr_type: A(1) }, T { other: A(1), rr_type: A(7) }, T { other: A(7), rr_type: A(0) }, T { other: A(7), rr_type: A(1) }, T { other: A(7), rr_type: A(7) }] }
pub fn show(x: &T) -> String { #[allow(unused_variables)] match x { T { other: p0, rr_type: p1 } => format!("T({},{})", sv(p0), sv(p1)) } }
pub fn o_fmt(x: &T, f: &mut ::core::fmt::Formatter<'_>) -> ::core::fmt::Result { match x { T { other: p0, rr_type: p1 } => f.debug_tuple("T").field(&Wm(p0)).field(&Wm(p1)).finish() } }

pub fn run(out: &mut Out) { let vs = values(); for a in &vs { let g = format!("{:?}", a); let e = format!("{:?}", Fm(|f: &mut ::core::fmt::Formatter<'_>| o_fmt(a, f))); out.check(g == e, "debug_24", "debug", || format!("{{:?}} of {} = {:?} expected {:?}", show(a), g, e)); let g = format!("{:#?}", a); let e = format!("{:#?}", Fm(|f: &mut ::core::fmt::Formatter<'_>| o_fmt(a, f))); out.check(g == e, "debug_24", "debug_alt", || format!("{{:#?}} of {} = {:?} expected {:?}", show(a), g, e)); let g = format!("{:8?}", a); let e = format!("{:8?}", Fm(|f: &mut ::core::fmt::Formatter<'_>| o_fmt(a, f))); out.check(g == e, "debug_24", "debug_width", || format!("{{:8?}} of {} = {:?} expected {:?}", show(a), g, e)); }  }
