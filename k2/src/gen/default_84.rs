// default_84
#![allow(dead_code, unused_variables, unused_mut, unused_imports, non_shorthand_field_patterns, clippy::all)]
use crate::support::*;
use educe::Educe;
use core::cmp::Ordering;
#[derive(Educe)]
#[educe(Default(new(true)))]
pub enum T { #[educe(Default)] Some { #[educe(Default(expression(3)))] data: u64, r#type: i64, #[educe(Default = 300)] state: u16 }, C, A, B }
pub fn show(x: &T) -> String { #[allow(unused_variables)] match x { T::Some { data: p0, r#type: p1, state: p2 } => format!("Some({},{},{})", sv(p0), sv(p1), sv(p2)), T::C => format!("C()"), T::A => format!("A()"), T::B => format!("B()") } }
pub fn o_default() -> T { T::Some { data: 3u64, r#type: 0i64, state: 300u16 } }
pub fn run(out: &mut Out) { let g = <T as ::core::default::Default>::default(); let e = o_default(); out.check(show(&g) == show(&e), "default_84", "default", || format!("default() = {} expected {}", show(&g), show(&e))); let g = T::new(); let e = o_default(); out.check(show(&g) == show(&e), "default_84", "new", || format!("new() = {} expected {}", show(&g), show(&e))); }
