// default_119
#![allow(dead_code, unused_variables, unused_mut, unused_imports, non_shorthand_field_patterns, clippy::all)]
use crate::support::*;
use educe::Educe;
use core::cmp::Ordering;
#[derive(Educe)]
#[educe(Default(new(true)))]
pub enum T { None(), Some(A<3>, String, bool, u8), #[educe(Default)] Unit { a: u8, r#type: i128, #[educe(Default = false)] x: bool, #[educe(Default(expr(Some(3))))] data: Option<u8> } }
pub fn show(x: &T) -> String { #[allow(unused_variables)] match x { T::None() => format!("None()"), T::Some(p0, p1, p2, p3) => format!("Some({},{},{},{})", sv(p0), sv(p1), sv(p2), sv(p3)), T::Unit { a: p0, r#type: p1, x: p2, data: p3 } => format!("Unit({},{},{},{})", sv(p0), sv(p1), sv(p2), sv(p3)) } }
pub fn o_default() -> T { T::Unit { a: 0u8, r#type: 0i128, x: false, data: Some(3u8) } }
pub fn run(out: &mut Out) { let g = <T as ::core::default::Default>::default(); let e = o_default(); out.check(show(&g) == show(&e), "default_119", "default", || format!("default() = {} expected {}", show(&g), show(&e))); let g = T::new(); let e = o_default(); out.check(show(&g) == show(&e), "default_119", "new", || format!("new() = {} expected {}", show(&g), show(&e))); }
