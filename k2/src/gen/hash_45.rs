// hash_45
#![allow(dead_code, unused_variables, unused_mut, unused_imports, non_shorthand_field_patterns, clippy::all)]
use crate::support::*;
use educe::Educe;
use core::cmp::Ordering;
#[derive(Educe)]
#[educe(Hash)]
pub enum T { C, Unit { #[educe(Hash(ignore(true)))] f: A<0> }, V1 { #[educe(Hash = false)] c: A<0>, #[educe(Hash(method(m_hash)))] r#type: A<0> } }
pub fn values() -> Vec<T> { vec![T::C, T::Unit { f: A(0) }, T::Unit { f: A(1) }, T::Unit { f: A(7) }, T::V1 { c: A(0), r#type: A(0) }, T::V1 { c: A(0), r#type: A(1) }, T::V1 { c: A(0), r#type: A(7) }, T::V1 { c: A(1), r#type: A(0) }, T::V1 { c: A(1), r#type: A(1) }, T::V1 { c: A(1), r#type: A(7) }, T::V1 { c: A(7), r#type: A(0) }, T::V1 { c: A(7), r#type: A(1) }, T::V1 { c: A(7), r#type: A(7) }] }
pub fn show(x: &T) -> String { #[allow(unused_variables)] match x { T::C => format!("C()"), T::Unit { f: p0 } => format!("Unit({})", sv(p0)), T::V1 { c: p0, r#type: p1 } => format!("V1({},{})", sv(p0), sv(p1)) } }
pub fn o_hash(x: &T) -> Vec<String> { let mut e = Rec::default(); match x { T::C => { ::core::hash::Hash::hash(&0usize, &mut e); }, T::Unit { f: p0 } => { ::core::hash::Hash::hash(&1usize, &mut e); }, T::V1 { c: p0, r#type: p1 } => { ::core::hash::Hash::hash(&2usize, &mut e); m_hash(p1, &mut e); } } e.0 }
pub fn run(out: &mut Out) { let vs = values(); for a in &vs { let mut g = Rec::default(); ::core::hash::Hash::hash(a, &mut g); let e = o_hash(a); out.check(g.0 == e, "hash_45", "hash", || format!("hash({}) fed {:?} expected {:?}", show(a), g.0, e)); } }
