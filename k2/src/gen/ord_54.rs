// ord_54
#![allow(dead_code, unused_variables, unused_mut, unused_imports, non_shorthand_field_patterns, clippy::all)]
use crate::support::*;
use educe::Educe;
use core::cmp::Ordering;
#[derive(Educe)]
#[educe(Ord, Eq, PartialEq)]
pub enum T { C { #[educe(Ord(method(m_cmp)))] y: A<0>, a: A<1> } }
impl PartialOrd for T { fn partial_cmp(&self, o: &Self) -> Option<Ordering> { Some(::core::cmp::Ord::cmp(self, o)) } }
pub fn values() -> Vec<T> { vec![T::C { y: A(0), a: A(0) }, T::C { y: A(0), a: A(1) }, T::C { y: A(0), a: A(7) }, T::C { y: A(1), a: A(0) }, T::C { y: A(1), a: A(1) }, T::C { y: A(1), a: A(7) }, T::C { y: A(7), a: A(0) }, T::C { y: A(7), a: A(1) }, T::C { y: A(7), a: A(7) }] }
pub fn show(x: &T) -> String { #[allow(unused_variables)] match x { T::C { y: p0, a: p1 } => format!("C({},{})", sv(p0), sv(p1)) } }
pub fn o_disc(x: &T) -> i128 { match x { T::C { y: _, a: _ } => 0 } }
pub fn o_cmp(a: &T, b: &T) -> Ordering { match (a, b) { (T::C { y: a0, a: a1 }, T::C { y: b0, a: b1 }) => { let c = m_cmp(a0, b0); if c != Ordering::Equal { return c; } let c = ::core::cmp::Ord::cmp(a1, b1); if c != Ordering::Equal { return c; } Ordering::Equal } } }
pub fn run(out: &mut Out) { let vs = values(); for (i, a) in vs.iter().enumerate() { for (j, b) in vs.iter().enumerate() { let e = o_cmp(a, b); let g = ::core::cmp::Ord::cmp(a, b); out.check(g == e, "ord_54", "cmp", || format!("cmp({}, {}) = {:?} expected {:?}", show(a), show(b), g, e)); } } }
