// ordlayout_75
#![allow(dead_code, unused_variables, unused_mut, unused_imports, non_shorthand_field_patterns, clippy::all)]
use crate::support::*;
use core::cmp::Ordering;
pub mod ty {
    #![deny(warnings)]
    #![allow(dead_code, unused_imports, non_snake_case)]
    use crate::support::{A, B, C, Good, Bad, m_eq, m_cmp, m_pcmp, m_hash, m_fmt, m_clone, m_clone_c, m_into, g_eq, g_cmp, g_pcmp, g_hash, g_fmt};
    use educe::Educe;
#[derive(Educe)]
#[repr(i64)]
#[educe(Debug)]
#[educe(PartialEq, Eq, PartialOrd)]
pub enum T { Zed, V1(#[educe(Debug(ignore = true))] ::core::num::NonZeroU8, char) = 3 }
}
pub use ty::T;

pub fn values() -> Vec<T> { vec![T::Zed, T::V1(::core::num::NonZeroU8::new(1).unwrap(), 'a'), T::V1(::core::num::NonZeroU8::new(1).unwrap(), 'z'), T::V1(::core::num::NonZeroU8::new(200).unwrap(), 'a'), T::V1(::core::num::NonZeroU8::new(200).unwrap(), 'z')] }
pub fn show(x: &T) -> String { #[allow(unused_variables)] match x { T::Zed => format!("Zed()"), T::V1(p0, p1) => format!("V1({},{})", sv(p0), sv(p1)) } }
pub fn o_disc(x: &T) -> i128 { match x { T::Zed => 0, T::V1(_, _) => 3 } }
pub fn o_pcmp(a: &T, b: &T) -> Option<Ordering> { match (a, b) { (T::Zed, T::Zed) => {  Some(Ordering::Equal) }, (T::V1(a0, a1), T::V1(b0, b1)) => { match ::core::cmp::PartialOrd::partial_cmp(a0, b0) { Some(Ordering::Equal) => (), x => return x } match ::core::cmp::PartialOrd::partial_cmp(a1, b1) { Some(Ordering::Equal) => (), x => return x } Some(Ordering::Equal) }, _ => Some(o_disc(a).cmp(&o_disc(b))) } }
#[repr(C)] pub struct Wrap { pub pre: u8, pub x: T, pub post: [u8; 9] }
pub fn wrap(i: usize, n: u8) -> Wrap { Wrap { pre: n, x: values().swap_remove(i), post: [n; 9] } }
pub fn run(out: &mut Out) { let vs = values(); for (i, a) in vs.iter().enumerate() { for (j, b) in vs.iter().enumerate() { let e = o_pcmp(a, b); let g = ::core::cmp::PartialOrd::partial_cmp(a, b); out.check(g == e, "ordlayout_75", "partial_cmp", || format!("partial_cmp({}, {}) = {:?} expected {:?}", show(a), show(b), g, e)); for n in [0u8, 1, 0x7f, 0x80, 0xff] { let wa = wrap(i, n); let wb = wrap(j, !n); let g = ::core::cmp::PartialOrd::partial_cmp(&wa.x, &wb.x); let e = o_pcmp(a, b); out.check(g == e, "ordlayout_75", "cmp_neighbours", || format!("cmp({}, {}) with neighbour bytes {} = {:?} expected {:?}", show(a), show(b), n, g, e)); } } } }
