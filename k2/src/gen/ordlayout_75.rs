// ordlayout_75
#![allow(dead_code, unused_variables, unused_mut, unused_imports, non_shorthand_field_patterns, clippy::all)]
use crate::support::*;
use educe::Educe;
use core::cmp::Ordering;
#[derive(Educe)]
#[educe(PartialEq, Eq, Ord)]
pub enum T { B(#[educe(Ord(rank = 1i64))] bool), V1(#[educe(Ord(rank = "-3"))] i64), Some }
impl PartialOrd for T { fn partial_cmp(&self, o: &Self) -> Option<Ordering> { Some(::core::cmp::Ord::cmp(self, o)) } }
pub fn values() -> Vec<T> { vec![T::B(false), T::B(true), T::V1(-5), T::V1(0), T::V1(9), T::Some] }
pub fn show(x: &T) -> String { #[allow(unused_variables)] match x { T::B(p0) => format!("B({})", sv(p0)), T::V1(p0) => format!("V1({})", sv(p0)), T::Some => format!("Some()") } }
pub fn o_disc(x: &T) -> i128 { match x { T::B(_) => 0, T::V1(_) => 1, T::Some => 2 } }
pub fn o_cmp(a: &T, b: &T) -> Ordering { match (a, b) { (T::B(a0), T::B(b0)) => { let c = ::core::cmp::Ord::cmp(a0, b0); if c != Ordering::Equal { return c; } Ordering::Equal }, (T::V1(a0), T::V1(b0)) => { let c = ::core::cmp::Ord::cmp(a0, b0); if c != Ordering::Equal { return c; } Ordering::Equal }, (T::Some, T::Some) => {  Ordering::Equal }, _ => o_disc(a).cmp(&o_disc(b)) } }
#[repr(C)] pub struct Wrap { pub pre: u8, pub x: T, pub post: [u8; 9] }
pub fn wrap(i: usize, n: u8) -> Wrap { Wrap { pre: n, x: values().swap_remove(i), post: [n; 9] } }
pub fn run(out: &mut Out) { let vs = values(); for (i, a) in vs.iter().enumerate() { for (j, b) in vs.iter().enumerate() { let e = o_cmp(a, b); let g = ::core::cmp::Ord::cmp(a, b); out.check(g == e, "ordlayout_75", "cmp", || format!("cmp({}, {}) = {:?} expected {:?}", show(a), show(b), g, e)); for n in [0u8, 1, 0x7f, 0x80, 0xff] { let wa = wrap(i, n); let wb = wrap(j, !n); let g = ::core::cmp::Ord::cmp(&wa.x, &wb.x); let e = o_cmp(a, b); out.check(g == e, "ordlayout_75", "cmp_neighbours", || format!("cmp({}, {}) with neighbour bytes {} = {:?} expected {:?}", show(a), show(b), n, g, e)); } } } }
