// debug_18
#![allow(dead_code, unused_variables, unused_mut, unused_imports, non_shorthand_field_patterns, clippy::all)]
use crate::support::*;
use educe::Educe;
use core::cmp::Ordering;
#[derive(Educe)]
#[educe(Debug)]
pub enum T { A { y: A<0>, data: A<1> }, Zed, Unit }
pub fn values() -> Vec<T> { vec![T::A { y: A(0), data: A(0) }, T::A { y: A(7), data: A(7) }, T::A { y: A(1), data: A(1) }, T::A { y: A(1), data: A(0) }, T::A { y: A(7), data: A(1) }, T::A { y: A(0), data: A(1) }, T::A { y: A(1), data: A(7) }, T::A { y: A(7), data: A(0) }, T::Zed, T::Unit] }
pub fn show(x: &T) -> String { #[allow(unused_variables)] match x { T::A { y: p0, data: p1 } => format!("A({},{})", sv(p0), sv(p1)), T::Zed => format!("Zed()"), T::Unit => format!("Unit()") } }
pub fn o_fmt(x: &T, f: &mut ::core::fmt::Formatter<'_>) -> ::core::fmt::Result { match x { T::A { y: p0, data: p1 } => f.debug_struct("A").field("y", p0).field("data", p1).finish(), T::Zed => f.write_str("Zed"), T::Unit => f.write_str("Unit") } }
pub mod twin { use crate::support::*; #[derive(Debug)] pub enum T { A { y: A<0>, data: A<1> }, Zed, Unit }
 pub fn values() -> Vec<T> { vec![T::A { y: A(0), data: A(0) }, T::A { y: A(7), data: A(7) }, T::A { y: A(1), data: A(1) }, T::A { y: A(1), data: A(0) }, T::A { y: A(7), data: A(1) }, T::A { y: A(0), data: A(1) }, T::A { y: A(1), data: A(7) }, T::A { y: A(7), data: A(0) }, T::Zed, T::Unit] } }
pub fn run(out: &mut Out) { let vs = values(); for a in &vs { let g = format!("{:?}", a); let e = format!("{:?}", Fm(|f: &mut ::core::fmt::Formatter<'_>| o_fmt(a, f))); out.check(g == e, "debug_18", "debug", || format!("{{:?}} of {} = {:?} expected {:?}", show(a), g, e)); let g = format!("{:#?}", a); let e = format!("{:#?}", Fm(|f: &mut ::core::fmt::Formatter<'_>| o_fmt(a, f))); out.check(g == e, "debug_18", "debug_alt", || format!("{{:#?}} of {} = {:?} expected {:?}", show(a), g, e)); let g = format!("{:8?}", a); let e = format!("{:8?}", Fm(|f: &mut ::core::fmt::Formatter<'_>| o_fmt(a, f))); out.check(g == e, "debug_18", "debug_width", || format!("{{:8?}} of {} = {:?} expected {:?}", show(a), g, e)); } let tw = twin::values(); for (i, a) in vs.iter().enumerate() { let g = format!("{:?}", a); let e = format!("{:?}", tw[i]); out.check(g == e, "debug_18", "debug_vs_derive", || format!("{{:?}} = {:?} but #[derive(Debug)] gives {:?}", g, e)); let g = format!("{:#?}", a); let e = format!("{:#?}", tw[i]); out.check(g == e, "debug_18", "debug_alt_vs_derive", || format!("{{:#?}} = {:?} but #[derive(Debug)] gives {:?}", g, e)); } }
