// ord_95
#![allow(dead_code, unused_variables, unused_mut, unused_imports, non_shorthand_field_patterns, clippy::all)]
use crate::support::*;
use core::cmp::Ordering;
pub mod ty {
    #![deny(warnings)]
    #![allow(dead_code, unused_imports, non_snake_case)]
    use crate::support::{A, B, C, Good, Bad, m_eq, m_cmp, m_pcmp, m_hash, m_fmt, m_clone, m_clone_c, m_into, g_eq, g_cmp, g_pcmp, g_hash, g_fmt};
    use educe::Educe;
#[derive(Educe)]
#[educe(Eq, PartialOrd, PartialEq)]
pub struct T;
}
pub use ty::T;

pub fn values() -> Vec<T> { vec![T] }
pub fn show(x: &T) -> String { #[allow(unused_variables)] match x { T => format!("T()") } }
pub fn o_disc(x: &T) -> i128 { match x { T => 0 } }
pub fn o_pcmp(a: &T, b: &T) -> Option<Ordering> { match (a, b) { (T, T) => {  Some(Ordering::Equal) } } }
pub fn run(out: &mut Out) { let vs = values(); for (i, a) in vs.iter().enumerate() { for (j, b) in vs.iter().enumerate() { let e = o_pcmp(a, b); let g = ::core::cmp::PartialOrd::partial_cmp(a, b); out.check(g == e, "ord_95", "partial_cmp", || format!("partial_cmp({}, {}) = {:?} expected {:?}", show(a), show(b), g, e)); } } }
