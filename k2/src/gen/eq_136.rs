// eq_136
#![allow(dead_code, unused_variables, unused_mut, unused_imports, non_shorthand_field_patterns, clippy::all)]
use crate::support::*;
use educe::Educe;
use core::cmp::Ordering;
#[derive(Educe)]
#[educe(PartialEq)]
pub enum T { Zed { f: A<0>, other: A<0> }, A, Some, None { #[educe(PartialEq(ignore = true))] state: A<0> } }
pub fn values() -> Vec<T> { vec![T::Zed { f: A(0), other: A(0) }, T::Zed { f: A(0), other: A(1) }, T::Zed { f: A(0), other: A(7) }, T::Zed { f: A(1), other: A(0) }, T::Zed { f: A(1), other: A(1) }, T::Zed { f: A(1), other: A(7) }, T::Zed { f: A(7), other: A(0) }, T::Zed { f: A(7), other: A(1) }, T::Zed { f: A(7), other: A(7) }, T::A, T::Some, T::None { state: A(0) }, T::None { state: A(1) }, T::None { state: A(7) }] }
pub fn show(x: &T) -> String { #[allow(unused_variables)] match x { T::Zed { f: p0, other: p1 } => format!("Zed({},{})", sv(p0), sv(p1)), T::A => format!("A()"), T::Some => format!("Some()"), T::None { state: p0 } => format!("None({})", sv(p0)) } }
pub fn o_eq(a: &T, b: &T) -> bool { match (a, b) { (T::Zed { f: a0, other: a1 }, T::Zed { f: b0, other: b1 }) => (a0 == b0) && (a1 == b1), (T::A, T::A) => true, (T::Some, T::Some) => true, (T::None { state: a0 }, T::None { state: b0 }) => true, _ => false } }
pub fn run(out: &mut Out) { let vs = values(); for a in &vs { for b in &vs { let e = o_eq(a, b); out.check((a == b) == e, "eq_136", "eq", || format!("{} == {} expected {}", show(a), show(b), e)); out.check((a != b) == !e, "eq_136", "ne", || format!("{} != {} expected {}", show(a), show(b), !e)); } } }
