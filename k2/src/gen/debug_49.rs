// debug_49
#![allow(dead_code, unused_variables, unused_mut, unused_imports, non_shorthand_field_patterns, clippy::all)]
use crate::support::*;
use educe::Educe;
use core::cmp::Ordering;
#[derive(Educe)]
#[educe(Debug(name(false)))]
pub enum T { Zed(), B }
pub fn values() -> Vec<T> { vec![T::Zed(), T::B] }
pub fn show(x: &T) -> String { #[allow(unused_variables)] match x { T::Zed() => format!("Zed()"), T::B => format!("B()") } }
pub fn o_fmt(x: &T, f: &mut ::core::fmt::Formatter<'_>) -> ::core::fmt::Result { match x { T::Zed() => f.debug_tuple("Zed").finish(), T::B => f.write_str("B") } }

pub fn run(out: &mut Out) { let vs = values(); for a in &vs { let g = format!("{:?}", a); let e = format!("{:?}", Fm(|f: &mut ::core::fmt::Formatter<'_>| o_fmt(a, f))); out.check(g == e, "debug_49", "debug", || format!("{{:?}} of {} = {:?} expected {:?}", show(a), g, e)); let g = format!("{:#?}", a); let e = format!("{:#?}", Fm(|f: &mut ::core::fmt::Formatter<'_>| o_fmt(a, f))); out.check(g == e, "debug_49", "debug_alt", || format!("{{:#?}} of {} = {:?} expected {:?}", show(a), g, e)); let g = format!("{:8?}", a); let e = format!("{:8?}", Fm(|f: &mut ::core::fmt::Formatter<'_>| o_fmt(a, f))); out.check(g == e, "debug_49", "debug_width", || format!("{{:8?}} of {} = {:?} expected {:?}", show(a), g, e)); }  }
