// ordlayout_57
#![allow(dead_code, unused_variables, unused_mut, unused_imports, non_shorthand_field_patterns, clippy::all)]
use crate::support::*;
use core::cmp::Ordering;
pub mod ty {
    #![deny(warnings)]
    #![allow(dead_code, unused_imports, non_snake_case)]
    use crate::support::{A, B, C, Good, Bad, m_eq, m_cmp, m_pcmp, m_hash, m_fmt, m_clone, m_clone_c, m_into, g_eq, g_cmp, g_pcmp, g_hash, g_fmt};
    use educe::Educe;
#[derive(Educe)]
#[repr(isize)]
#[educe(PartialOrd, Ord, PartialEq, Eq)]
pub enum T { Unit { #[educe(PartialOrd(rank = "-4"))] other_data: Option<u8> } = -170, Zed, None(bool, #[educe(PartialOrd(rank = 2i64))] bool, Option<u8>) = 128 }
}
pub use ty::T;

pub fn values() -> Vec<T> { vec![T::Unit { other_data: None }, T::Unit { other_data: Some(0) }, T::Unit { other_data: Some(255) }, T::Zed, T::None(false, false, None), T::None(false, false, Some(0)), T::None(false, false, Some(255)), T::None(false, true, None), T::None(false, true, Some(0)), T::None(false, true, Some(255)), T::None(true, false, None), T::None(true, false, Some(0)), T::None(true, false, Some(255)), T::None(true, true, None), T::None(true, true, Some(0)), T::None(true, true, Some(255))] }
pub fn show(x: &T) -> String { #[allow(unused_variables)] match x { T::Unit { other_data: p0 } => format!("Unit({})", sv(p0)), T::Zed => format!("Zed()"), T::None(p0, p1, p2) => format!("None({},{},{})", sv(p0), sv(p1), sv(p2)) } }
pub fn o_disc(x: &T) -> i128 { match x { T::Unit { other_data: _ } => -170, T::Zed => -169, T::None(_, _, _) => 128 } }
pub fn o_cmp(a: &T, b: &T) -> Ordering { match (a, b) { (T::Unit { other_data: a0 }, T::Unit { other_data: b0 }) => { let c = ::core::cmp::Ord::cmp(a0, b0); if c != Ordering::Equal { return c; } Ordering::Equal }, (T::Zed, T::Zed) => {  Ordering::Equal }, (T::None(a0, a1, a2), T::None(b0, b1, b2)) => { let c = ::core::cmp::Ord::cmp(a0, b0); if c != Ordering::Equal { return c; } let c = ::core::cmp::Ord::cmp(a2, b2); if c != Ordering::Equal { return c; } let c = ::core::cmp::Ord::cmp(a1, b1); if c != Ordering::Equal { return c; } Ordering::Equal }, _ => o_disc(a).cmp(&o_disc(b)) } }
#[repr(C)] pub struct Wrap { pub pre: u8, pub x: T, pub post: [u8; 9] }
pub fn wrap(i: usize, n: u8) -> Wrap { Wrap { pre: n, x: values().swap_remove(i), post: [n; 9] } }
pub fn run(out: &mut Out) { let vs = values(); for (i, a) in vs.iter().enumerate() { for (j, b) in vs.iter().enumerate() { let e = o_cmp(a, b); let g = ::core::cmp::Ord::cmp(a, b); out.check(g == e, "ordlayout_57", "cmp", || format!("cmp({}, {}) = {:?} expected {:?}", show(a), show(b), g, e)); let g2 = ::core::cmp::PartialOrd::partial_cmp(a, b); out.check(g2 == Some(e), "ordlayout_57", "partial_is_some_cmp", || format!("partial_cmp({}, {}) = {:?} expected Some({:?})", show(a), show(b), g2, e)); for n in [0u8, 1, 0x7f, 0x80, 0xff] { let wa = wrap(i, n); let wb = wrap(j, !n); let g = ::core::cmp::Ord::cmp(&wa.x, &wb.x); let e = o_cmp(a, b); out.check(g == e, "ordlayout_57", "cmp_neighbours", || format!("cmp({}, {}) with neighbour bytes {} = {:?} expected {:?}", show(a), show(b), n, g, e)); } } } }
