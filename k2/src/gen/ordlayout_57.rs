// ordlayout_57
#![allow(dead_code, unused_variables, unused_mut, unused_imports, non_shorthand_field_patterns, clippy::all)]
use crate::support::*;
use educe::Educe;
use core::cmp::Ordering;
#[derive(Educe)]
#[educe(Eq, PartialEq, PartialOrd, Ord)]
pub enum T { C, V1, A, None(#[educe(PartialOrd(rank = 5))] &'static u8, bool, u8) }

pub fn values() -> Vec<T> { vec![T::C, T::V1, T::A, T::None(&3u8, true, 100), T::None(&3u8, false, 0), T::None(&200u8, true, 100), T::None(&200u8, true, 0), T::None(&3u8, false, 200), T::None(&200u8, false, 100), T::None(&3u8, true, 0), T::None(&200u8, false, 0), T::None(&200u8, true, 200)] }
pub fn show(x: &T) -> String { #[allow(unused_variables)] match x { T::C => format!("C()"), T::V1 => format!("V1()"), T::A => format!("A()"), T::None(p0, p1, p2) => format!("None({},{},{})", sv(p0), sv(p1), sv(p2)) } }
pub fn o_disc(x: &T) -> i128 { match x { T::C => 0, T::V1 => 1, T::A => 2, T::None(_, _, _) => 3 } }
pub fn o_cmp(a: &T, b: &T) -> Ordering { match (a, b) { (T::C, T::C) => {  Ordering::Equal }, (T::V1, T::V1) => {  Ordering::Equal }, (T::A, T::A) => {  Ordering::Equal }, (T::None(a0, a1, a2), T::None(b0, b1, b2)) => { let c = ::core::cmp::Ord::cmp(a1, b1); if c != Ordering::Equal { return c; } let c = ::core::cmp::Ord::cmp(a2, b2); if c != Ordering::Equal { return c; } let c = ::core::cmp::Ord::cmp(a0, b0); if c != Ordering::Equal { return c; } Ordering::Equal }, _ => o_disc(a).cmp(&o_disc(b)) } }
#[repr(C)] pub struct Wrap { pub pre: u8, pub x: T, pub post: [u8; 9] }
pub fn wrap(i: usize, n: u8) -> Wrap { Wrap { pre: n, x: values().swap_remove(i), post: [n; 9] } }
pub fn run(out: &mut Out) { let vs = values(); for (i, a) in vs.iter().enumerate() { for (j, b) in vs.iter().enumerate() { let e = o_cmp(a, b); let g = ::core::cmp::Ord::cmp(a, b); out.check(g == e, "ordlayout_57", "cmp", || format!("cmp({}, {}) = {:?} expected {:?}", show(a), show(b), g, e)); let g2 = ::core::cmp::PartialOrd::partial_cmp(a, b); out.check(g2 == Some(e), "ordlayout_57", "partial_is_some_cmp", || format!("partial_cmp({}, {}) = {:?} expected Some({:?})", show(a), show(b), g2, e)); for n in [0u8, 1, 0x7f, 0x80, 0xff] { let wa = wrap(i, n); let wb = wrap(j, !n); let g = ::core::cmp::Ord::cmp(&wa.x, &wb.x); let e = o_cmp(a, b); out.check(g == e, "ordlayout_57", "cmp_neighbours", || format!("cmp({}, {}) with neighbour bytes {} = {:?} expected {:?}", show(a), show(b), n, g, e)); } } } }
