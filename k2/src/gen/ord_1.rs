// ord_1
#![allow(dead_code, unused_variables, unused_mut, unused_imports, non_shorthand_field_patterns, clippy::all)]
use crate::support::*;
use educe::Educe;
use core::cmp::Ordering;
#[derive(Educe)]
#[repr(i64)]
#[educe(PartialEq, Eq, Ord, PartialOrd)]
pub enum T { None {  } = 100, B = 2 }

pub fn values() -> Vec<T> { vec![T::None {  }, T::B] }
pub fn show(x: &T) -> String { #[allow(unused_variables)] match x { T::None {  } => format!("None()"), T::B => format!("B()") } }
pub fn o_disc(x: &T) -> i128 { match x { T::None {  } => 100, T::B => 2 } }
pub fn o_cmp(a: &T, b: &T) -> Ordering { match (a, b) { (T::None {  }, T::None {  }) => {  Ordering::Equal }, (T::B, T::B) => {  Ordering::Equal }, _ => o_disc(a).cmp(&o_disc(b)) } }
pub fn run(out: &mut Out) { let vs = values(); for (i, a) in vs.iter().enumerate() { for (j, b) in vs.iter().enumerate() { let e = o_cmp(a, b); let g = ::core::cmp::Ord::cmp(a, b); out.check(g == e, "ord_1", "cmp", || format!("cmp({}, {}) = {:?} expected {:?}", show(a), show(b), g, e)); let g2 = ::core::cmp::PartialOrd::partial_cmp(a, b); out.check(g2 == Some(e), "ord_1", "partial_is_some_cmp", || format!("partial_cmp({}, {}) = {:?} expected Some({:?})", show(a), show(b), g2, e)); } } }
