// default_34
#![allow(dead_code, unused_variables, unused_mut, unused_imports, non_shorthand_field_patterns, clippy::all)]
use crate::support::*;
use educe::Educe;
use core::cmp::Ordering;
#[derive(Educe)]
#[educe(Default)]
pub enum T { C { state: f64, size: bool, y: bool, a: u64 }, Unit { x: i128, y: i128, state: Option<u8>, f: char }, #[educe(Default)] Zed {  }, V1 }
pub fn show(x: &T) -> String { #[allow(unused_variables)] match x { T::C { state: p0, size: p1, y: p2, a: p3 } => format!("C({},{},{},{})", sv(p0), sv(p1), sv(p2), sv(p3)), T::Unit { x: p0, y: p1, state: p2, f: p3 } => format!("Unit({},{},{},{})", sv(p0), sv(p1), sv(p2), sv(p3)), T::Zed {  } => format!("Zed()"), T::V1 => format!("V1()") } }
pub fn o_default() -> T { T::Zed {  } }
pub fn run(out: &mut Out) { let g = <T as ::core::default::Default>::default(); let e = o_default(); out.check(show(&g) == show(&e), "default_34", "default", || format!("default() = {} expected {}", show(&g), show(&e))); }
