// debug_6
#![allow(dead_code, unused_variables, unused_mut, unused_imports, non_shorthand_field_patterns, clippy::all)]
use crate::support::*;
use educe::Educe;
use core::cmp::Ordering;
#[derive(Educe)]
#[educe(Debug(name = ""))]
pub enum T { B, Unit { #[educe(Debug(method(m_fmt)))] rr_type: A<0>, other: A<0> } }
pub fn values() -> Vec<T> { vec![T::B, T::Unit { rr_type: A(0), other: A(0) }, T::Unit { rr_type: A(0), other: A(1) }, T::Unit { rr_type: A(0), other: A(7) }, T::Unit { rr_type: A(1), other: A(0) }, T::Unit { rr_type: A(1), other: A(1) }, T::Unit { rr_type: A(1), other: A(7) }, T::Unit { rr_type: A(7), other: A(0) }, T::Unit { rr_type: A(7), other: A(1) }, T::Unit { rr_type: A(7), other: A(7) }] }
pub fn show(x: &T) -> String { #[allow(unused_variables)] match x { T::B => format!("B()"), T::Unit { rr_type: p0, other: p1 } => format!("Unit({},{})", sv(p0), sv(p1)) } }
pub fn o_fmt(x: &T, f: &mut ::core::fmt::Formatter<'_>) -> ::core::fmt::Result { match x { T::B => f.write_str("B"), T::Unit { rr_type: p0, other: p1 } => f.debug_struct("Unit").field("rr_type", &Wm(p0)).field("other", p1).finish() } }

pub fn run(out: &mut Out) { let vs = values(); for a in &vs { let g = format!("{:?}", a); let e = format!("{:?}", Fm(|f: &mut ::core::fmt::Formatter<'_>| o_fmt(a, f))); out.check(g == e, "debug_6", "debug", || format!("{{:?}} of {} = {:?} expected {:?}", show(a), g, e)); let g = format!("{:#?}", a); let e = format!("{:#?}", Fm(|f: &mut ::core::fmt::Formatter<'_>| o_fmt(a, f))); out.check(g == e, "debug_6", "debug_alt", || format!("{{:#?}} of {} = {:?} expected {:?}", show(a), g, e)); let g = format!("{:8?}", a); let e = format!("{:8?}", Fm(|f: &mut ::core::fmt::Formatter<'_>| o_fmt(a, f))); out.check(g == e, "debug_6", "debug_width", || format!("{{:8?}} of {} = {:?} expected {:?}", show(a), g, e)); }  }
