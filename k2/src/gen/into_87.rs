// into_87
#![allow(dead_code, unused_variables, unused_mut, unused_imports, non_shorthand_field_patterns, clippy::all)]
use crate::support::*;
use educe::Educe;
use core::cmp::Ordering;
#[derive(Educe)]
#[educe(Into(A<1>))]
pub struct T { y: A<1>, _0: A<0>, b: A<2> }
pub fn values() -> Vec<T> { vec![T { y: A(0), _0: A(7), b: A(7) }, T { y: A(1), _0: A(1), b: A(0) }, T { y: A(7), _0: A(0), b: A(1) }, T { y: A(0), _0: A(1), b: A(0) }, T { y: A(7), _0: A(1), b: A(1) }, T { y: A(7), _0: A(1), b: A(0) }, T { y: A(0), _0: A(7), b: A(0) }, T { y: A(7), _0: A(0), b: A(7) }, T { y: A(7), _0: A(0), b: A(0) }, T { y: A(1), _0: A(7), b: A(1) }, T { y: A(7), _0: A(7), b: A(1) }, T { y: A(7), _0: A(1), b: A(7) }] }
pub fn show(x: &T) -> String { #[allow(unused_variables)] match x { T { y: p0, _0: p1, b: p2 } => format!("T({},{},{})", sv(p0), sv(p1), sv(p2)) } }
pub fn o_into_0(x: T) -> A<1> { match x { T { y: p0, _0: _, b: _ } => p0 } }
pub fn run(out: &mut Out) { let n = values().len(); for i in 0..n { let a = values().swap_remove(i); let shown = show(&a); let g: A<1> = ::core::convert::Into::into(a); let e = o_into_0(values().swap_remove(i)); out.check(sv(&g) == sv(&e), "into_87", "into", || format!("Into::<A<1>>::into({}) = {} expected {}", shown, sv(&g), sv(&e))); } }
