// ord_87
#![allow(dead_code, unused_variables, unused_mut, unused_imports, non_shorthand_field_patterns, clippy::all)]
use crate::support::*;
use core::cmp::Ordering;
pub mod ty {
    #![deny(warnings)]
    #![allow(dead_code, unused_imports, non_snake_case)]
    use crate::support::{A, B, C, Good, Bad, m_eq, m_cmp, m_pcmp, m_hash, m_fmt, m_clone, m_clone_c, m_into, g_eq, g_cmp, g_pcmp, g_hash, g_fmt};
    use educe::Educe;
#[derive(Educe)]
#[repr(i32)]
#[educe(Debug)]
#[educe(PartialEq, Eq, PartialOrd)]
pub enum T { V1 { #[educe(PartialOrd(method(m_pcmp)), Debug(name = zz8))] a: A<0>, #[educe(PartialOrd(ignore))] source: A<1>, #[educe(PartialOrd(rank = 0i64))] c: A<2> } = 0, Unit(#[educe(Debug(ignore))] #[educe(PartialOrd(rank = 2))] A<0>, #[educe(PartialOrd(rank = 6, ignore(false)))] #[educe(Debug(ignore = false))] A<0>) = 70000, C = 127, Zed {  } = 3 }
}
pub use ty::T;

pub fn values() -> Vec<T> { vec![T::V1 { a: A(1), source: A(1), c: A(0) }, T::V1 { a: A(1), source: A(0), c: A(7) }, T::V1 { a: A(0), source: A(1), c: A(1) }, T::V1 { a: A(1), source: A(1), c: A(7) }, T::V1 { a: A(0), source: A(0), c: A(0) }, T::V1 { a: A(7), source: A(0), c: A(7) }, T::V1 { a: A(7), source: A(7), c: A(0) }, T::V1 { a: A(1), source: A(0), c: A(0) }, T::V1 { a: A(7), source: A(0), c: A(1) }, T::Unit(A(0), A(0)), T::Unit(A(0), A(1)), T::Unit(A(0), A(7)), T::Unit(A(1), A(0)), T::Unit(A(1), A(1)), T::Unit(A(1), A(7)), T::Unit(A(7), A(0)), T::Unit(A(7), A(1)), T::Unit(A(7), A(7)), T::C, T::Zed {  }] }
pub fn show(x: &T) -> String { #[allow(unused_variables)] match x { T::V1 { a: p0, source: p1, c: p2 } => format!("V1({},{},{})", sv(p0), sv(p1), sv(p2)), T::Unit(p0, p1) => format!("Unit({},{})", sv(p0), sv(p1)), T::C => format!("C()"), T::Zed {  } => format!("Zed()") } }
pub fn o_disc(x: &T) -> i128 { match x { T::V1 { a: _, source: _, c: _ } => 0, T::Unit(_, _) => 70000, T::C => 127, T::Zed {  } => 3 } }
pub fn o_pcmp(a: &T, b: &T) -> Option<Ordering> { match (a, b) { (T::V1 { a: a0, source: a1, c: a2 }, T::V1 { a: b0, source: b1, c: b2 }) => { match m_pcmp(a0, b0) { Some(Ordering::Equal) => (), x => return x } match ::core::cmp::PartialOrd::partial_cmp(a2, b2) { Some(Ordering::Equal) => (), x => return x } Some(Ordering::Equal) }, (T::Unit(a0, a1), T::Unit(b0, b1)) => { match ::core::cmp::PartialOrd::partial_cmp(a0, b0) { Some(Ordering::Equal) => (), x => return x } match ::core::cmp::PartialOrd::partial_cmp(a1, b1) { Some(Ordering::Equal) => (), x => return x } Some(Ordering::Equal) }, (T::C, T::C) => {  Some(Ordering::Equal) }, (T::Zed {  }, T::Zed {  }) => {  Some(Ordering::Equal) }, _ => Some(o_disc(a).cmp(&o_disc(b))) } }
pub fn run(out: &mut Out) { let vs = values(); for (i, a) in vs.iter().enumerate() { for (j, b) in vs.iter().enumerate() { let e = o_pcmp(a, b); let g = ::core::cmp::PartialOrd::partial_cmp(a, b); out.check(g == e, "ord_87", "partial_cmp", || format!("partial_cmp({}, {}) = {:?} expected {:?}", show(a), show(b), g, e)); } } }
