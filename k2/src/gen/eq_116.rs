// eq_116
#![allow(dead_code, unused_variables, unused_mut, unused_imports, non_shorthand_field_patterns, clippy::all)]
use crate::support::*;
use educe::Educe;
use core::cmp::Ordering;
#[derive(Educe)]
#[educe(PartialEq)]
#[educe(Eq)]
pub struct T;
pub fn values() -> Vec<T> { vec![T] }
pub fn show(x: &T) -> String { #[allow(unused_variables)] match x { T => format!("T()") } }
pub fn o_eq(a: &T, b: &T) -> bool { match (a, b) { (T, T) => true } }
pub fn run(out: &mut Out) { let vs = values(); for a in &vs { for b in &vs { let e = o_eq(a, b); out.check((a == b) == e, "eq_116", "eq", || format!("{} == {} expected {}", show(a), show(b), e)); out.check((a != b) == !e, "eq_116", "ne", || format!("{} != {} expected {}", show(a), show(b), !e)); } } }
