// debug_3
#![allow(dead_code, unused_variables, unused_mut, unused_imports, non_shorthand_field_patterns, clippy::all)]
use crate::support::*;
use core::cmp::Ordering;
pub mod ty {
    #![deny(warnings)]
    #![allow(dead_code, unused_imports)]
    use crate::support::{A, B, C, Good, Bad, m_eq, m_cmp, m_pcmp, m_hash, m_fmt, m_clone, m_clone_c, m_into, g_eq, g_cmp, g_pcmp, g_hash, g_fmt};
    use educe::Educe;

    // names at the derive site that shadow everything the generated code might be tempted to write unqualified
    #[allow(non_camel_case_types)] pub struct Option; pub struct Result; pub struct Ordering; pub struct Clone; pub struct Copy;
    pub struct Default; pub struct Debug; pub struct PartialEq; pub struct Eq; pub struct PartialOrd; pub struct Ord; pub struct Hash;
    pub struct Hasher; pub struct Into; pub struct From; pub struct Deref; pub struct DerefMut; pub struct Formatter; pub struct String;
    pub struct Vec; pub struct Box; pub struct PhantomData; pub struct Sized; pub struct Send; pub struct Iterator; pub struct Self_;
    #[allow(non_snake_case)] pub fn Some() {} #[allow(non_snake_case)] pub fn None() {} #[allow(non_snake_case)] pub fn Ok() {} #[allow(non_snake_case)] pub fn Err() {}
    pub fn drop() {} pub mod core {} pub mod std {} pub mod alloc {} pub mod fmt {} pub mod cmp {} pub mod hash {} pub mod clone {} pub mod marker {}
    #[allow(unused_macros)] macro_rules! stringify { ($($t:tt)*) => { "SHADOWED" } }
    #[allow(unused_macros)] macro_rules! unreachable { ($($t:tt)*) => { () } }
    #[allow(unused_macros)] macro_rules! panic { ($($t:tt)*) => { () } }
    #[allow(unused_macros)] macro_rules! matches { ($($t:tt)*) => { true } }
    #[allow(unused_macros)] macro_rules! write { ($($t:tt)*) => { () } }
    #[allow(unused_macros)] macro_rules! format_args { ($($t:tt)*) => { () } }
    #[allow(unused_macros)] macro_rules! assert { ($($t:tt)*) => { () } }
#[derive(Educe)]
#[educe(Debug)]
pub struct T { pub self_data: A<0>, pub y: A<1> }
}
pub use ty::T;
pub fn values() -> Vec<T> { vec![T { self_data: A(0), y: A(0) }, T { self_data: A(0), y: A(1) }, T { self_data: A(0), y: A(7) }, T { self_data: A(1), y: A(0) }, T { self_data: A(1), y: A(1) }, T { self_data: A(1), y: A(7) }, T { self_data: A(7), y: A(0) }, T { self_data: A(7), y: A(1) }, T { self_data: A(7), y: A(7) }] }
pub fn show(x: &T) -> String { #[allow(unused_variables)] match x { T { self_data: p0, y: p1 } => format!("T({},{})", sv(p0), sv(p1)) } }
pub fn o_fmt(x: &T, f: &mut ::core::fmt::Formatter<'_>) -> ::core::fmt::Result { match x { T { self_data: p0, y: p1 } => f.debug_struct("T").field("self_data", p0).field("y", p1).finish() } }
pub mod twin { use crate::support::*; #[derive(Debug)] pub struct T { self_data: A<0>, y: A<1> }
 pub fn values() -> Vec<T> { vec![T { self_data: A(0), y: A(0) }, T { self_data: A(0), y: A(1) }, T { self_data: A(0), y: A(7) }, T { self_data: A(1), y: A(0) }, T { self_data: A(1), y: A(1) }, T { self_data: A(1), y: A(7) }, T { self_data: A(7), y: A(0) }, T { self_data: A(7), y: A(1) }, T { self_data: A(7), y: A(7) }] } }
pub fn run(out: &mut Out) { let vs = values(); for a in &vs { let g = format!("{:?}", a); let e = format!("{:?}", Fm(|f: &mut ::core::fmt::Formatter<'_>| o_fmt(a, f))); out.check(g == e, "debug_3", "debug", || format!("{{:?}} of {} = {:?} expected {:?}", show(a), g, e)); let g = format!("{:#?}", a); let e = format!("{:#?}", Fm(|f: &mut ::core::fmt::Formatter<'_>| o_fmt(a, f))); out.check(g == e, "debug_3", "debug_alt", || format!("{{:#?}} of {} = {:?} expected {:?}", show(a), g, e)); let g = format!("{:8?}", a); let e = format!("{:8?}", Fm(|f: &mut ::core::fmt::Formatter<'_>| o_fmt(a, f))); out.check(g == e, "debug_3", "debug_width", || format!("{{:8?}} of {} = {:?} expected {:?}", show(a), g, e)); } let tw = twin::values(); for (i, a) in vs.iter().enumerate() { let g = format!("{:?}", a); let e = format!("{:?}", tw[i]); out.check(g == e, "debug_3", "debug_vs_derive", || format!("{{:?}} = {:?} but #[derive(Debug)] gives {:?}", g, e)); let g = format!("{:#?}", a); let e = format!("{:#?}", tw[i]); out.check(g == e, "debug_3", "debug_alt_vs_derive", || format!("{{:#?}} = {:?} but #[derive(Debug)] gives {:?}", g, e)); } }
