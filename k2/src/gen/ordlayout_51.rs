// ordlayout_51
#![allow(dead_code, unused_variables, unused_mut, unused_imports, non_shorthand_field_patterns, clippy::all)]
use crate::support::*;
use core::cmp::Ordering;
pub mod ty {
    #![deny(warnings)]
    #![allow(dead_code, unused_imports, non_snake_case)]
    use crate::support::{A, B, C, Good, Bad, m_eq, m_cmp, m_pcmp, m_hash, m_fmt, m_clone, m_clone_c, m_into, g_eq, g_cmp, g_pcmp, g_hash, g_fmt};
    use educe::Educe;
#[derive(Educe)]
#[repr(C)]
#[educe(PartialOrd, PartialEq, Eq)]
pub enum T { None { #[educe(PartialOrd(rank = -4))] b: i64, other_data: u8 } }
}
pub use ty::T;

pub fn values() -> Vec<T> { vec![T::None { b: -5, other_data: 0 }, T::None { b: -5, other_data: 100 }, T::None { b: -5, other_data: 200 }, T::None { b: 0, other_data: 0 }, T::None { b: 0, other_data: 100 }, T::None { b: 0, other_data: 200 }, T::None { b: 9, other_data: 0 }, T::None { b: 9, other_data: 100 }, T::None { b: 9, other_data: 200 }] }
pub fn show(x: &T) -> String { #[allow(unused_variables)] match x { T::None { b: p0, other_data: p1 } => format!("None({},{})", sv(p0), sv(p1)) } }
pub fn o_disc(x: &T) -> i128 { match x { T::None { b: _, other_data: _ } => 0 } }
pub fn o_pcmp(a: &T, b: &T) -> Option<Ordering> { match (a, b) { (T::None { b: a0, other_data: a1 }, T::None { b: b0, other_data: b1 }) => { match ::core::cmp::PartialOrd::partial_cmp(a1, b1) { Some(Ordering::Equal) => (), x => return x } match ::core::cmp::PartialOrd::partial_cmp(a0, b0) { Some(Ordering::Equal) => (), x => return x } Some(Ordering::Equal) } } }
#[repr(C)] pub struct Wrap { pub pre: u8, pub x: T, pub post: [u8; 9] }
pub fn wrap(i: usize, n: u8) -> Wrap { Wrap { pre: n, x: values().swap_remove(i), post: [n; 9] } }
pub fn run(out: &mut Out) { let vs = values(); for (i, a) in vs.iter().enumerate() { for (j, b) in vs.iter().enumerate() { let e = o_pcmp(a, b); let g = ::core::cmp::PartialOrd::partial_cmp(a, b); out.check(g == e, "ordlayout_51", "partial_cmp", || format!("partial_cmp({}, {}) = {:?} expected {:?}", show(a), show(b), g, e)); for n in [0u8, 1, 0x7f, 0x80, 0xff] { let wa = wrap(i, n); let wb = wrap(j, !n); let g = ::core::cmp::PartialOrd::partial_cmp(&wa.x, &wb.x); let e = o_pcmp(a, b); out.check(g == e, "ordlayout_51", "cmp_neighbours", || format!("cmp({}, {}) with neighbour bytes {} = {:?} expected {:?}", show(a), show(b), n, g, e)); } } } }
