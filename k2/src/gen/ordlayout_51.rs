// ordlayout_51
#![allow(dead_code, unused_variables, unused_mut, unused_imports, non_shorthand_field_patterns, clippy::all)]
use crate::support::*;
use educe::Educe;
use core::cmp::Ordering;
#[derive(Educe)]
#[educe(Eq, Ord, PartialEq)]
pub enum T { C(#[educe(Ord(rank(-1)))] char, #[educe(Ord(rank("-2")))] ::core::num::NonZeroU8, #[educe(Ord(rank("-3")))] u8) }
impl PartialOrd for T { fn partial_cmp(&self, o: &Self) -> Option<Ordering> { Some(::core::cmp::Ord::cmp(self, o)) } }
pub fn values() -> Vec<T> { vec![T::C('a', ::core::num::NonZeroU8::new(1).unwrap(), 0), T::C('a', ::core::num::NonZeroU8::new(1).unwrap(), 100), T::C('a', ::core::num::NonZeroU8::new(1).unwrap(), 200), T::C('a', ::core::num::NonZeroU8::new(200).unwrap(), 0), T::C('a', ::core::num::NonZeroU8::new(200).unwrap(), 100), T::C('a', ::core::num::NonZeroU8::new(200).unwrap(), 200), T::C('z', ::core::num::NonZeroU8::new(1).unwrap(), 0), T::C('z', ::core::num::NonZeroU8::new(1).unwrap(), 100), T::C('z', ::core::num::NonZeroU8::new(1).unwrap(), 200), T::C('z', ::core::num::NonZeroU8::new(200).unwrap(), 0), T::C('z', ::core::num::NonZeroU8::new(200).unwrap(), 100), T::C('z', ::core::num::NonZeroU8::new(200).unwrap(), 200)] }
pub fn show(x: &T) -> String { #[allow(unused_variables)] match x { T::C(p0, p1, p2) => format!("C({},{},{})", sv(p0), sv(p1), sv(p2)) } }
pub fn o_disc(x: &T) -> i128 { match x { T::C(_, _, _) => 0 } }
pub fn o_cmp(a: &T, b: &T) -> Ordering { match (a, b) { (T::C(a0, a1, a2), T::C(b0, b1, b2)) => { let c = ::core::cmp::Ord::cmp(a2, b2); if c != Ordering::Equal { return c; } let c = ::core::cmp::Ord::cmp(a1, b1); if c != Ordering::Equal { return c; } let c = ::core::cmp::Ord::cmp(a0, b0); if c != Ordering::Equal { return c; } Ordering::Equal } } }
#[repr(C)] pub struct Wrap { pub pre: u8, pub x: T, pub post: [u8; 9] }
pub fn wrap(i: usize, n: u8) -> Wrap { Wrap { pre: n, x: values().swap_remove(i), post: [n; 9] } }
pub fn run(out: &mut Out) { let vs = values(); for (i, a) in vs.iter().enumerate() { for (j, b) in vs.iter().enumerate() { let e = o_cmp(a, b); let g = ::core::cmp::Ord::cmp(a, b); out.check(g == e, "ordlayout_51", "cmp", || format!("cmp({}, {}) = {:?} expected {:?}", show(a), show(b), g, e)); for n in [0u8, 1, 0x7f, 0x80, 0xff] { let wa = wrap(i, n); let wb = wrap(j, !n); let g = ::core::cmp::Ord::cmp(&wa.x, &wb.x); let e = o_cmp(a, b); out.check(g == e, "ordlayout_51", "cmp_neighbours", || format!("cmp({}, {}) with neighbour bytes {} = {:?} expected {:?}", show(a), show(b), n, g, e)); } } } }
