// clone_38
#![allow(dead_code, unused_variables, unused_mut, unused_imports, non_shorthand_field_patterns, clippy::all)]
use crate::support::*;
use educe::Educe;
use core::cmp::Ordering;
#[derive(Educe)]
#[educe(Clone)]
pub enum T { A, Unit { b: A<0>, data: A<0> }, B }
pub fn values() -> Vec<T> { vec![T::A, T::Unit { b: A(1), data: A(1) }, T::Unit { b: A(0), data: A(1) }, T::Unit { b: A(0), data: A(7) }, T::Unit { b: A(7), data: A(0) }, T::Unit { b: A(1), data: A(7) }, T::Unit { b: A(1), data: A(0) }, T::B] }
pub fn show(x: &T) -> String { #[allow(unused_variables)] match x { T::A => format!("A()"), T::Unit { b: p0, data: p1 } => format!("Unit({},{})", sv(p0), sv(p1)), T::B => format!("B()") } }
pub fn o_clone(x: &T) -> T { match x { T::A => T::A, T::Unit { b: p0, data: p1 } => T::Unit { b: A(p0.0), data: A(p1.0) }, T::B => T::B } }
pub fn o_log(x: &T) -> Vec<String> { match x { T::A => vec![], T::Unit { b: p0, data: p1 } => vec![format!("clone A{} {}", p0.k(), p0.0), format!("clone A{} {}", p1.k(), p1.0)], T::B => vec![] } }
pub fn run(out: &mut Out) { let vs = values(); for a in &vs { let _ = take_log(); let g = ::core::clone::Clone::clone(a); let l = take_log(); let e = o_clone(a); out.check(show(&g) == show(&e), "clone_38", "clone", || format!("clone({}) = {} expected {}", show(a), show(&g), show(&e))); let el = o_log(a); out.check(l == el, "clone_38", "clone_calls", || format!("clone({}) called {:?} expected {:?}", show(a), l, el)); } let n = vs.len(); for i in 0..n { for j in 0..n { let mut x = values().swap_remove(i); let shown = show(&x); ::core::clone::Clone::clone_from(&mut x, &vs[j]); let e = o_clone(&vs[j]); out.check(show(&x) == show(&e), "clone_38", "clone_from", || format!("{}.clone_from({}) = {} expected {}", shown, show(&vs[j]), show(&x), show(&e))); } } }
