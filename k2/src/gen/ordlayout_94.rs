// ordlayout_94
#![allow(dead_code, unused_variables, unused_mut, unused_imports, non_shorthand_field_patterns, clippy::all)]
use crate::support::*;
use educe::Educe;
use core::cmp::Ordering;
#[derive(Educe)]
#[repr(isize)]
#[educe(PartialEq, PartialOrd, Eq, Ord)]
pub enum T { C { #[educe(Ord(rank = "+5"))] size: u8, #[educe(Ord(rank = "-1"))] a: &'static u8 }, B = -5 }

pub fn values() -> Vec<T> { vec![T::C { size: 0, a: &3u8 }, T::C { size: 0, a: &200u8 }, T::C { size: 100, a: &3u8 }, T::C { size: 100, a: &200u8 }, T::C { size: 200, a: &3u8 }, T::C { size: 200, a: &200u8 }, T::B] }
pub fn show(x: &T) -> String { #[allow(unused_variables)] match x { T::C { size: p0, a: p1 } => format!("C({},{})", sv(p0), sv(p1)), T::B => format!("B()") } }
pub fn o_disc(x: &T) -> i128 { match x { T::C { size: _, a: _ } => 0, T::B => -5 } }
pub fn o_cmp(a: &T, b: &T) -> Ordering { match (a, b) { (T::C { size: a0, a: a1 }, T::C { size: b0, a: b1 }) => { let c = ::core::cmp::Ord::cmp(a1, b1); if c != Ordering::Equal { return c; } let c = ::core::cmp::Ord::cmp(a0, b0); if c != Ordering::Equal { return c; } Ordering::Equal }, (T::B, T::B) => {  Ordering::Equal }, _ => o_disc(a).cmp(&o_disc(b)) } }
#[repr(C)] pub struct Wrap { pub pre: u8, pub x: T, pub post: [u8; 9] }
pub fn wrap(i: usize, n: u8) -> Wrap { Wrap { pre: n, x: values().swap_remove(i), post: [n; 9] } }
pub fn run(out: &mut Out) { let vs = values(); for (i, a) in vs.iter().enumerate() { for (j, b) in vs.iter().enumerate() { let e = o_cmp(a, b); let g = ::core::cmp::Ord::cmp(a, b); out.check(g == e, "ordlayout_94", "cmp", || format!("cmp({}, {}) = {:?} expected {:?}", show(a), show(b), g, e)); let g2 = ::core::cmp::PartialOrd::partial_cmp(a, b); out.check(g2 == Some(e), "ordlayout_94", "partial_is_some_cmp", || format!("partial_cmp({}, {}) = {:?} expected Some({:?})", show(a), show(b), g2, e)); for n in [0u8, 1, 0x7f, 0x80, 0xff] { let wa = wrap(i, n); let wb = wrap(j, !n); let g = ::core::cmp::Ord::cmp(&wa.x, &wb.x); let e = o_cmp(a, b); out.check(g == e, "ordlayout_94", "cmp_neighbours", || format!("cmp({}, {}) with neighbour bytes {} = {:?} expected {:?}", show(a), show(b), n, g, e)); } } } }
