// into_118
#![allow(dead_code, unused_variables, unused_mut, unused_imports, non_shorthand_field_patterns, clippy::all)]
use crate::support::*;
use educe::Educe;
use core::cmp::Ordering;
#[derive(Educe)]
#[educe(Into(B<2>))]
pub struct T { arg: A<0>, _0: A<0>, #[educe(Into(B<2>, method = "m_into"))] b: A<2> }
pub fn values() -> Vec<T> { vec![T { arg: A(1), _0: A(0), b: A(1) }, T { arg: A(0), _0: A(7), b: A(7) }, T { arg: A(7), _0: A(0), b: A(1) }, T { arg: A(1), _0: A(0), b: A(7) }, T { arg: A(0), _0: A(7), b: A(0) }, T { arg: A(0), _0: A(7), b: A(1) }, T { arg: A(0), _0: A(1), b: A(7) }, T { arg: A(1), _0: A(1), b: A(1) }, T { arg: A(0), _0: A(0), b: A(0) }, T { arg: A(0), _0: A(1), b: A(1) }, T { arg: A(1), _0: A(1), b: A(7) }, T { arg: A(7), _0: A(1), b: A(0) }] }
pub fn show(x: &T) -> String { #[allow(unused_variables)] match x { T { arg: p0, _0: p1, b: p2 } => format!("T({},{},{})", sv(p0), sv(p1), sv(p2)) } }
pub fn o_into_0(x: T) -> B<2> { match x { T { arg: _, _0: _, b: p2 } => m_into(p2) } }
pub fn run(out: &mut Out) { let n = values().len(); for i in 0..n { let a = values().swap_remove(i); let shown = show(&a); let g: B<2> = ::core::convert::Into::into(a); let e = o_into_0(values().swap_remove(i)); out.check(sv(&g) == sv(&e), "into_118", "into", || format!("Into::<B<2>>::into({}) = {} expected {}", shown, sv(&g), sv(&e))); } }
