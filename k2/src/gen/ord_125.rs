// ord_125
#![allow(dead_code, unused_variables, unused_mut, unused_imports, non_shorthand_field_patterns, clippy::all)]
use crate::support::*;
use core::cmp::Ordering;
pub mod ty {
    #![deny(warnings)]
    #![allow(dead_code, unused_imports, non_snake_case)]
    use crate::support::{A, B, C, Good, Bad, m_eq, m_cmp, m_pcmp, m_hash, m_fmt, m_clone, m_clone_c, m_into, g_eq, g_cmp, g_pcmp, g_hash, g_fmt};
    use educe::Educe;
#[derive(Educe)]
#[repr(i128)]
#[educe(Debug)]
#[educe(Eq, PartialOrd, PartialEq)]
pub enum T { V1(#[educe(PartialOrd(rank = "+1"))] A<0>, #[educe(Debug(ignore = false))] A<0>), B(#[educe(PartialOrd(rank = 5))] A<0>) = -9223372036854775809, Unit, None(A<0>, #[educe(PartialOrd(rank = -4, method = m_pcmp), Debug(ignore = false))] A<1>) = -1 }
}
pub use ty::T;

pub fn values() -> Vec<T> { vec![T::V1(A(0), A(0)), T::V1(A(0), A(1)), T::V1(A(0), A(7)), T::V1(A(1), A(0)), T::V1(A(1), A(1)), T::V1(A(1), A(7)), T::V1(A(7), A(0)), T::V1(A(7), A(1)), T::V1(A(7), A(7)), T::B(A(0)), T::B(A(1)), T::B(A(7)), T::Unit, T::None(A(0), A(0)), T::None(A(0), A(1)), T::None(A(0), A(7)), T::None(A(1), A(0)), T::None(A(1), A(1)), T::None(A(1), A(7)), T::None(A(7), A(0)), T::None(A(7), A(1)), T::None(A(7), A(7))] }
pub fn show(x: &T) -> String { #[allow(unused_variables)] match x { T::V1(p0, p1) => format!("V1({},{})", sv(p0), sv(p1)), T::B(p0) => format!("B({})", sv(p0)), T::Unit => format!("Unit()"), T::None(p0, p1) => format!("None({},{})", sv(p0), sv(p1)) } }
pub fn o_disc(x: &T) -> i128 { match x { T::V1(_, _) => 0, T::B(_) => -9223372036854775809, T::Unit => -9223372036854775808, T::None(_, _) => -1 } }
pub fn o_pcmp(a: &T, b: &T) -> Option<Ordering> { match (a, b) { (T::V1(a0, a1), T::V1(b0, b1)) => { match ::core::cmp::PartialOrd::partial_cmp(a1, b1) { Some(Ordering::Equal) => (), x => return x } match ::core::cmp::PartialOrd::partial_cmp(a0, b0) { Some(Ordering::Equal) => (), x => return x } Some(Ordering::Equal) }, (T::B(a0), T::B(b0)) => { match ::core::cmp::PartialOrd::partial_cmp(a0, b0) { Some(Ordering::Equal) => (), x => return x } Some(Ordering::Equal) }, (T::Unit, T::Unit) => {  Some(Ordering::Equal) }, (T::None(a0, a1), T::None(b0, b1)) => { match ::core::cmp::PartialOrd::partial_cmp(a0, b0) { Some(Ordering::Equal) => (), x => return x } match m_pcmp(a1, b1) { Some(Ordering::Equal) => (), x => return x } Some(Ordering::Equal) }, _ => Some(o_disc(a).cmp(&o_disc(b))) } }
pub fn run(out: &mut Out) { let vs = values(); for (i, a) in vs.iter().enumerate() { for (j, b) in vs.iter().enumerate() { let e = o_pcmp(a, b); let g = ::core::cmp::PartialOrd::partial_cmp(a, b); out.check(g == e, "ord_125", "partial_cmp", || format!("partial_cmp({}, {}) = {:?} expected {:?}", show(a), show(b), g, e)); } } }
