// default_67
#![allow(dead_code, unused_variables, unused_mut, unused_imports, non_shorthand_field_patterns, clippy::all)]
use crate::support::*;
use educe::Educe;
use core::cmp::Ordering;
#[derive(Educe)]
#[educe(Default(expr = T { builder: 0i128, c: false, _0: A(1) }))]
pub struct T { builder: i128, c: bool, _0: A<3> }
pub fn show(x: &T) -> String { #[allow(unused_variables)] match x { T { builder: p0, c: p1, _0: p2 } => format!("T({},{},{})", sv(p0), sv(p1), sv(p2)) } }
pub fn o_default() -> T { T { builder: 0i128, c: false, _0: A(1) } }
pub fn run(out: &mut Out) { let g = <T as ::core::default::Default>::default(); let e = o_default(); out.check(show(&g) == show(&e), "default_67", "default", || format!("default() = {} expected {}", show(&g), show(&e))); }
