// eq_25
#![allow(dead_code, unused_variables, unused_mut, unused_imports, non_shorthand_field_patterns, clippy::all)]
use crate::support::*;
use educe::Educe;
use core::cmp::Ordering;
#[derive(Educe)]
#[educe(PartialEq, Eq)]
pub enum T { Unit(A<0>, A<1>), Some(), C(#[educe(Eq = false)] A<0>, A<0>) }
pub fn values() -> Vec<T> { vec![T::Unit(A(0), A(0)), T::Unit(A(0), A(1)), T::Unit(A(0), A(7)), T::Unit(A(1), A(0)), T::Unit(A(1), A(1)), T::Unit(A(1), A(7)), T::Unit(A(7), A(0)), T::Unit(A(7), A(1)), T::Unit(A(7), A(7)), T::Some(), T::C(A(0), A(0)), T::C(A(0), A(1)), T::C(A(0), A(7)), T::C(A(1), A(0)), T::C(A(1), A(1)), T::C(A(1), A(7)), T::C(A(7), A(0)), T::C(A(7), A(1)), T::C(A(7), A(7))] }
pub fn show(x: &T) -> String { #[allow(unused_variables)] match x { T::Unit(p0, p1) => format!("Unit({},{})", sv(p0), sv(p1)), T::Some() => format!("Some()"), T::C(p0, p1) => format!("C({},{})", sv(p0), sv(p1)) } }
pub fn o_eq(a: &T, b: &T) -> bool { match (a, b) { (T::Unit(a0, a1), T::Unit(b0, b1)) => (a0 == b0) && (a1 == b1), (T::Some(), T::Some()) => true, (T::C(a0, a1), T::C(b0, b1)) => (a1 == b1), _ => false } }
pub fn run(out: &mut Out) { let vs = values(); for a in &vs { for b in &vs { let e = o_eq(a, b); out.check((a == b) == e, "eq_25", "eq", || format!("{} == {} expected {}", show(a), show(b), e)); out.check((a != b) == !e, "eq_25", "ne", || format!("{} != {} expected {}", show(a), show(b), !e)); } } }
