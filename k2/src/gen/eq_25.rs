// eq_25
#![allow(dead_code, unused_variables, unused_mut, unused_imports, non_shorthand_field_patterns, clippy::all)]
use crate::support::*;
use educe::Educe;
use core::cmp::Ordering;
#[derive(Educe)]
#[educe(PartialEq)]
pub enum T { Unit(A<0>), B(A<0>, A<1>), Some, Zed(#[educe(PartialEq(method(m_eq)))] A<0>, A<0>) }
pub fn values() -> Vec<T> { vec![T::Unit(A(0)), T::Unit(A(1)), T::Unit(A(7)), T::B(A(0), A(0)), T::B(A(0), A(1)), T::B(A(0), A(7)), T::B(A(1), A(0)), T::B(A(1), A(1)), T::B(A(1), A(7)), T::B(A(7), A(0)), T::B(A(7), A(1)), T::B(A(7), A(7)), T::Some, T::Zed(A(0), A(0)), T::Zed(A(0), A(1)), T::Zed(A(0), A(7)), T::Zed(A(1), A(0)), T::Zed(A(1), A(1)), T::Zed(A(1), A(7)), T::Zed(A(7), A(0)), T::Zed(A(7), A(1)), T::Zed(A(7), A(7))] }
pub fn show(x: &T) -> String { #[allow(unused_variables)] match x { T::Unit(p0) => format!("Unit({})", sv(p0)), T::B(p0, p1) => format!("B({},{})", sv(p0), sv(p1)), T::Some => format!("Some()"), T::Zed(p0, p1) => format!("Zed({},{})", sv(p0), sv(p1)) } }
pub fn o_eq(a: &T, b: &T) -> bool { match (a, b) { (T::Unit(a0), T::Unit(b0)) => (a0 == b0), (T::B(a0, a1), T::B(b0, b1)) => (a0 == b0) && (a1 == b1), (T::Some, T::Some) => true, (T::Zed(a0, a1), T::Zed(b0, b1)) => m_eq(a0, b0) && (a1 == b1), _ => false } }
pub fn run(out: &mut Out) { let vs = values(); for a in &vs { for b in &vs { let e = o_eq(a, b); out.check((a == b) == e, "eq_25", "eq", || format!("{} == {} expected {}", show(a), show(b), e)); out.check((a != b) == !e, "eq_25", "ne", || format!("{} != {} expected {}", show(a), show(b), !e)); } } }
