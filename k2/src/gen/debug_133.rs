// debug_133
#![allow(dead_code, unused_variables, unused_mut, unused_imports, non_shorthand_field_patterns, clippy::all)]
use crate::support::*;
use educe::Educe;
use core::cmp::Ordering;
#[derive(Educe)]
#[educe(Debug(name(true)))]
pub enum T { #[educe(Debug(named_field = true))] V1(#[educe(Debug(method(m_fmt)))] A<0>), #[educe(Debug(named_field(false)))] None {  } }
pub fn values() -> Vec<T> { vec![T::V1(A(0)), T::V1(A(1)), T::V1(A(7)), T::None {  }] }
pub fn show(x: &T) -> String { #[allow(unused_variables)] match x { T::V1(p0) => format!("V1({})", sv(p0)), T::None {  } => format!("None()") } }
pub fn o_fmt(x: &T, f: &mut ::core::fmt::Formatter<'_>) -> ::core::fmt::Result { match x { T::V1(p0) => f.debug_struct("T::V1").field("_0", &Wm(p0)).finish(), T::None {  } => f.debug_tuple("T::None").finish() } }

pub fn run(out: &mut Out) { let vs = values(); for a in &vs { let g = format!("{:?}", a); let e = format!("{:?}", Fm(|f: &mut ::core::fmt::Formatter<'_>| o_fmt(a, f))); out.check(g == e, "debug_133", "debug", || format!("{{:?}} of {} = {:?} expected {:?}", show(a), g, e)); let g = format!("{:#?}", a); let e = format!("{:#?}", Fm(|f: &mut ::core::fmt::Formatter<'_>| o_fmt(a, f))); out.check(g == e, "debug_133", "debug_alt", || format!("{{:#?}} of {} = {:?} expected {:?}", show(a), g, e)); let g = format!("{:8?}", a); let e = format!("{:8?}", Fm(|f: &mut ::core::fmt::Formatter<'_>| o_fmt(a, f))); out.check(g == e, "debug_133", "debug_width", || format!("{{:8?}} of {} = {:?} expected {:?}", show(a), g, e)); }  }
