// into_72
#![allow(dead_code, unused_variables, unused_mut, unused_imports, non_shorthand_field_patterns, clippy::all)]
use crate::support::*;
use educe::Educe;
use core::cmp::Ordering;
#[derive(Educe)]
#[educe(Into(B<0>))]
#[educe(Into(A<1>))]
pub enum T { Unit { #[educe(Into(A<1>))] source: A<1>, #[educe(Into(B<0>, method(m_into)))] builder: A<1> }, C { #[educe(Into(B<0>, method = m_into))] #[educe(Into(A<1>))] b: A<1>, state: A<3>, r#type: A<3> } }
pub fn values() -> Vec<T> { vec![T::Unit { source: A(0), builder: A(0) }, T::Unit { source: A(7), builder: A(0) }, T::Unit { source: A(1), builder: A(7) }, T::Unit { source: A(1), builder: A(0) }, T::Unit { source: A(0), builder: A(1) }, T::Unit { source: A(1), builder: A(1) }, T::C { b: A(7), state: A(1), r#type: A(0) }, T::C { b: A(0), state: A(0), r#type: A(1) }, T::C { b: A(1), state: A(0), r#type: A(7) }, T::C { b: A(7), state: A(7), r#type: A(0) }, T::C { b: A(1), state: A(1), r#type: A(7) }, T::C { b: A(0), state: A(1), r#type: A(1) }] }
pub fn show(x: &T) -> String { #[allow(unused_variables)] match x { T::Unit { source: p0, builder: p1 } => format!("Unit({},{})", sv(p0), sv(p1)), T::C { b: p0, state: p1, r#type: p2 } => format!("C({},{},{})", sv(p0), sv(p1), sv(p2)) } }
pub fn o_into_0(x: T) -> B<0> { match x { T::Unit { source: _, builder: p1 } => m_into(p1), T::C { b: p0, state: _, r#type: _ } => m_into(p0) } }
pub fn o_into_1(x: T) -> A<1> { match x { T::Unit { source: p0, builder: _ } => p0, T::C { b: p0, state: _, r#type: _ } => p0 } }
pub fn run(out: &mut Out) { let n = values().len(); for i in 0..n { let a = values().swap_remove(i); let shown = show(&a); let g: B<0> = ::core::convert::Into::into(a); let e = o_into_0(values().swap_remove(i)); out.check(sv(&g) == sv(&e), "into_72", "into", || format!("Into::<B<0>>::into({}) = {} expected {}", shown, sv(&g), sv(&e))); } for i in 0..n { let a = values().swap_remove(i); let shown = show(&a); let g: A<1> = ::core::convert::Into::into(a); let e = o_into_1(values().swap_remove(i)); out.check(sv(&g) == sv(&e), "into_72", "into", || format!("Into::<A<1>>::into({}) = {} expected {}", shown, sv(&g), sv(&e))); } }
