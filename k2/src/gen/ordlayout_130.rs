// ordlayout_130
#![allow(dead_code, unused_variables, unused_mut, unused_imports, non_shorthand_field_patterns, clippy::all)]
use crate::support::*;
use core::cmp::Ordering;
pub mod ty {
    #![deny(warnings)]
    #![allow(dead_code, unused_imports, non_snake_case)]
    use crate::support::{A, B, C, Good, Bad, m_eq, m_cmp, m_pcmp, m_hash, m_fmt, m_clone, m_clone_c, m_into, g_eq, g_cmp, g_pcmp, g_hash, g_fmt};
    use educe::Educe;
#[derive(Educe)]
#[repr(i128)]
#[educe(PartialOrd, PartialEq, Eq, Ord)]
#[educe(Debug)]
pub enum T { B { #[educe(Debug(ignore = false))] data: (), other: ::core::num::NonZeroU8 } = 18446744073709551617, None { #[educe(Debug = false)] data: char, r#type: &'static u8 }, Unit { #[educe(PartialOrd(rank = "-5", ignore = false))] #[educe(Debug(ignore = false))] c: i64, #[educe(Debug(ignore))] other: i64 } = 9223372036854775808, Zed(#[educe(PartialOrd(ignore = false))] ::core::num::NonZeroU8, #[educe(Debug(ignore = true))] &'static u8) = 0 }
}
pub use ty::T;

pub fn values() -> Vec<T> { vec![T::B { data: (), other: ::core::num::NonZeroU8::new(1).unwrap() }, T::B { data: (), other: ::core::num::NonZeroU8::new(200).unwrap() }, T::None { data: 'a', r#type: &3u8 }, T::None { data: 'a', r#type: &200u8 }, T::None { data: 'z', r#type: &3u8 }, T::None { data: 'z', r#type: &200u8 }, T::Unit { c: -5, other: -5 }, T::Unit { c: -5, other: 0 }, T::Unit { c: -5, other: 9 }, T::Unit { c: 0, other: -5 }, T::Unit { c: 0, other: 0 }, T::Unit { c: 0, other: 9 }, T::Unit { c: 9, other: -5 }, T::Unit { c: 9, other: 0 }, T::Unit { c: 9, other: 9 }, T::Zed(::core::num::NonZeroU8::new(1).unwrap(), &3u8), T::Zed(::core::num::NonZeroU8::new(1).unwrap(), &200u8), T::Zed(::core::num::NonZeroU8::new(200).unwrap(), &3u8), T::Zed(::core::num::NonZeroU8::new(200).unwrap(), &200u8)] }
pub fn show(x: &T) -> String { #[allow(unused_variables)] match x { T::B { data: p0, other: p1 } => format!("B({},{})", sv(p0), sv(p1)), T::None { data: p0, r#type: p1 } => format!("None({},{})", sv(p0), sv(p1)), T::Unit { c: p0, other: p1 } => format!("Unit({},{})", sv(p0), sv(p1)), T::Zed(p0, p1) => format!("Zed({},{})", sv(p0), sv(p1)) } }
pub fn o_disc(x: &T) -> i128 { match x { T::B { data: _, other: _ } => 18446744073709551617, T::None { data: _, r#type: _ } => 18446744073709551618, T::Unit { c: _, other: _ } => 9223372036854775808, T::Zed(_, _) => 0 } }
pub fn o_cmp(a: &T, b: &T) -> Ordering { match (a, b) { (T::B { data: a0, other: a1 }, T::B { data: b0, other: b1 }) => { let c = ::core::cmp::Ord::cmp(a0, b0); if c != Ordering::Equal { return c; } let c = ::core::cmp::Ord::cmp(a1, b1); if c != Ordering::Equal { return c; } Ordering::Equal }, (T::None { data: a0, r#type: a1 }, T::None { data: b0, r#type: b1 }) => { let c = ::core::cmp::Ord::cmp(a0, b0); if c != Ordering::Equal { return c; } let c = ::core::cmp::Ord::cmp(a1, b1); if c != Ordering::Equal { return c; } Ordering::Equal }, (T::Unit { c: a0, other: a1 }, T::Unit { c: b0, other: b1 }) => { let c = ::core::cmp::Ord::cmp(a1, b1); if c != Ordering::Equal { return c; } let c = ::core::cmp::Ord::cmp(a0, b0); if c != Ordering::Equal { return c; } Ordering::Equal }, (T::Zed(a0, a1), T::Zed(b0, b1)) => { let c = ::core::cmp::Ord::cmp(a0, b0); if c != Ordering::Equal { return c; } let c = ::core::cmp::Ord::cmp(a1, b1); if c != Ordering::Equal { return c; } Ordering::Equal }, _ => o_disc(a).cmp(&o_disc(b)) } }
#[repr(C)] pub struct Wrap { pub pre: u8, pub x: T, pub post: [u8; 9] }
pub fn wrap(i: usize, n: u8) -> Wrap { Wrap { pre: n, x: values().swap_remove(i), post: [n; 9] } }
pub fn run(out: &mut Out) { let vs = values(); for (i, a) in vs.iter().enumerate() { for (j, b) in vs.iter().enumerate() { let e = o_cmp(a, b); let g = ::core::cmp::Ord::cmp(a, b); out.check(g == e, "ordlayout_130", "cmp", || format!("cmp({}, {}) = {:?} expected {:?}", show(a), show(b), g, e)); let g2 = ::core::cmp::PartialOrd::partial_cmp(a, b); out.check(g2 == Some(e), "ordlayout_130", "partial_is_some_cmp", || format!("partial_cmp({}, {}) = {:?} expected Some({:?})", show(a), show(b), g2, e)); for n in [0u8, 1, 0x7f, 0x80, 0xff] { let wa = wrap(i, n); let wb = wrap(j, !n); let g = ::core::cmp::Ord::cmp(&wa.x, &wb.x); let e = o_cmp(a, b); out.check(g == e, "ordlayout_130", "cmp_neighbours", || format!("cmp({}, {}) with neighbour bytes {} = {:?} expected {:?}", show(a), show(b), n, g, e)); } } } }
