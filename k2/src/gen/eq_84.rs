// eq_84
#![allow(dead_code, unused_variables, unused_mut, unused_imports, non_shorthand_field_patterns, clippy::all)]
use crate::support::*;
use educe::Educe;
use core::cmp::Ordering;
#[derive(Educe)]
#[educe(PartialEq, Eq)]
pub enum T { None, V1 { #[educe(Eq(method = m_eq))] state: A<0> }, B }
pub fn values() -> Vec<T> { vec![T::None, T::V1 { state: A(0) }, T::V1 { state: A(1) }, T::V1 { state: A(7) }, T::B] }
pub fn show(x: &T) -> String { #[allow(unused_variables)] match x { T::None => format!("None()"), T::V1 { state: p0 } => format!("V1({})", sv(p0)), T::B => format!("B()") } }
pub fn o_eq(a: &T, b: &T) -> bool { match (a, b) { (T::None, T::None) => true, (T::V1 { state: a0 }, T::V1 { state: b0 }) => m_eq(a0, b0), (T::B, T::B) => true, _ => false } }
pub fn run(out: &mut Out) { let vs = values(); for a in &vs { for b in &vs { let e = o_eq(a, b); out.check((a == b) == e, "eq_84", "eq", || format!("{} == {} expected {}", show(a), show(b), e)); out.check((a != b) == !e, "eq_84", "ne", || format!("{} != {} expected {}", show(a), show(b), !e)); } } }
