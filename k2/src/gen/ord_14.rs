// ord_14
#![allow(dead_code, unused_variables, unused_mut, unused_imports, non_shorthand_field_patterns, clippy::all)]
use crate::support::*;
use educe::Educe;
use core::cmp::Ordering;
#[derive(Educe)]
#[educe(PartialOrd, Eq, PartialEq)]
pub struct T { x: A<0>, #[educe(PartialOrd(method = "m_pcmp", rank = 0x5))] size: A<0> }

pub fn values() -> Vec<T> { vec![T { x: A(0), size: A(0) }, T { x: A(0), size: A(1) }, T { x: A(0), size: A(7) }, T { x: A(1), size: A(0) }, T { x: A(1), size: A(1) }, T { x: A(1), size: A(7) }, T { x: A(7), size: A(0) }, T { x: A(7), size: A(1) }, T { x: A(7), size: A(7) }] }
pub fn show(x: &T) -> String { #[allow(unused_variables)] match x { T { x: p0, size: p1 } => format!("T({},{})", sv(p0), sv(p1)) } }
pub fn o_disc(x: &T) -> i128 { match x { T { x: _, size: _ } => 0 } }
pub fn o_pcmp(a: &T, b: &T) -> Option<Ordering> { match (a, b) { (T { x: a0, size: a1 }, T { x: b0, size: b1 }) => { match ::core::cmp::PartialOrd::partial_cmp(a0, b0) { Some(Ordering::Equal) => (), x => return x } match m_pcmp(a1, b1) { Some(Ordering::Equal) => (), x => return x } Some(Ordering::Equal) } } }
pub fn run(out: &mut Out) { let vs = values(); for (i, a) in vs.iter().enumerate() { for (j, b) in vs.iter().enumerate() { let e = o_pcmp(a, b); let g = ::core::cmp::PartialOrd::partial_cmp(a, b); out.check(g == e, "ord_14", "partial_cmp", || format!("partial_cmp({}, {}) = {:?} expected {:?}", show(a), show(b), g, e)); } } }
