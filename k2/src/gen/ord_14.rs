// ord_14
#![allow(dead_code, unused_variables, unused_mut, unused_imports, non_shorthand_field_patterns, clippy::all)]
use crate::support::*;
use core::cmp::Ordering;
pub mod ty {
    #![deny(warnings)]
    #![allow(dead_code, unused_imports, non_snake_case)]
    use crate::support::{A, B, C, Good, Bad, m_eq, m_cmp, m_pcmp, m_hash, m_fmt, m_clone, m_clone_c, m_into, g_eq, g_cmp, g_pcmp, g_hash, g_fmt};
    use educe::Educe;
#[derive(Educe)]
#[repr(i64)]
#[educe(PartialEq, Eq, Ord, PartialOrd)]
pub enum T { None { #[educe(Ord(method = m_cmp))] self_data: A<0>, source: A<1>, #[educe(Ord(ignore = false, rank("-6")))] arg: A<0> } = 255, Some = -170, B(#[educe(Ord(rank = "-5"))] A<0>, #[educe(Ord(ignore))] A<0>, #[educe(Ord(ignore(true)))] A<0>) }
}
pub use ty::T;

pub fn values() -> Vec<T> { vec![T::None { self_data: A(0), source: A(1), arg: A(0) }, T::None { self_data: A(0), source: A(7), arg: A(7) }, T::None { self_data: A(0), source: A(0), arg: A(7) }, T::None { self_data: A(7), source: A(7), arg: A(7) }, T::None { self_data: A(1), source: A(1), arg: A(7) }, T::None { self_data: A(1), source: A(7), arg: A(0) }, T::None { self_data: A(7), source: A(1), arg: A(1) }, T::None { self_data: A(1), source: A(7), arg: A(7) }, T::None { self_data: A(0), source: A(1), arg: A(1) }, T::None { self_data: A(0), source: A(7), arg: A(1) }, T::None { self_data: A(1), source: A(1), arg: A(0) }, T::None { self_data: A(0), source: A(7), arg: A(0) }, T::Some, T::B(A(0), A(0), A(7)), T::B(A(7), A(1), A(7)), T::B(A(7), A(7), A(1)), T::B(A(1), A(7), A(7)), T::B(A(0), A(1), A(7)), T::B(A(1), A(1), A(1)), T::B(A(1), A(0), A(1)), T::B(A(1), A(1), A(7)), T::B(A(1), A(7), A(0)), T::B(A(1), A(7), A(1)), T::B(A(1), A(1), A(0)), T::B(A(0), A(7), A(7))] }
pub fn show(x: &T) -> String { #[allow(unused_variables)] match x { T::None { self_data: p0, source: p1, arg: p2 } => format!("None({},{},{})", sv(p0), sv(p1), sv(p2)), T::Some => format!("Some()"), T::B(p0, p1, p2) => format!("B({},{},{})", sv(p0), sv(p1), sv(p2)) } }
pub fn o_disc(x: &T) -> i128 { match x { T::None { self_data: _, source: _, arg: _ } => 255, T::Some => -170, T::B(_, _, _) => -169 } }
pub fn o_cmp(a: &T, b: &T) -> Ordering { match (a, b) { (T::None { self_data: a0, source: a1, arg: a2 }, T::None { self_data: b0, source: b1, arg: b2 }) => { let c = m_cmp(a0, b0); if c != Ordering::Equal { return c; } let c = ::core::cmp::Ord::cmp(a1, b1); if c != Ordering::Equal { return c; } let c = ::core::cmp::Ord::cmp(a2, b2); if c != Ordering::Equal { return c; } Ordering::Equal }, (T::Some, T::Some) => {  Ordering::Equal }, (T::B(a0, a1, a2), T::B(b0, b1, b2)) => { let c = ::core::cmp::Ord::cmp(a0, b0); if c != Ordering::Equal { return c; } Ordering::Equal }, _ => o_disc(a).cmp(&o_disc(b)) } }
pub fn run(out: &mut Out) { let vs = values(); for (i, a) in vs.iter().enumerate() { for (j, b) in vs.iter().enumerate() { let e = o_cmp(a, b); let g = ::core::cmp::Ord::cmp(a, b); out.check(g == e, "ord_14", "cmp", || format!("cmp({}, {}) = {:?} expected {:?}", show(a), show(b), g, e)); let g2 = ::core::cmp::PartialOrd::partial_cmp(a, b); out.check(g2 == Some(e), "ord_14", "partial_is_some_cmp", || format!("partial_cmp({}, {}) = {:?} expected Some({:?})", show(a), show(b), g2, e)); } } }
