// default_108
#![allow(dead_code, unused_variables, unused_mut, unused_imports, non_shorthand_field_patterns, clippy::all)]
use crate::support::*;
use educe::Educe;
use core::cmp::Ordering;
#[derive(Educe)]
#[educe(Default)]
pub enum T { Unit {  }, #[educe(Default)] Zed { #[educe(Default(expression(1.5)))] data: f64, #[educe(Default = "hi")] state: &'static str, _0: u16, #[educe(Default(expr = 12))] y: i64 }, B(u8, A<0>), None() }
pub fn show(x: &T) -> String { #[allow(unused_variables)] match x { T::Unit {  } => format!("Unit()"), T::Zed { data: p0, state: p1, _0: p2, y: p3 } => format!("Zed({},{},{},{})", sv(p0), sv(p1), sv(p2), sv(p3)), T::B(p0, p1) => format!("B({},{})", sv(p0), sv(p1)), T::None() => format!("None()") } }
pub fn o_default() -> T { T::Zed { data: 1.5f64, state: "hi", _0: 0u16, y: 12i64 } }
pub fn run(out: &mut Out) { let g = <T as ::core::default::Default>::default(); let e = o_default(); out.check(show(&g) == show(&e), "default_108", "default", || format!("default() = {} expected {}", show(&g), show(&e))); }
