// default_22
#![allow(dead_code, unused_variables, unused_mut, unused_imports, non_shorthand_field_patterns, clippy::all)]
use crate::support::*;
use educe::Educe;
use core::cmp::Ordering;
#[derive(Educe)]
#[educe(Default)]
pub struct T { #[educe(Default(expression(String::from("yo"))))] other: String, #[educe(Default(expression = 77))] _0: i128, r#type: &'static str, #[educe(Default(expression(77)))] a: i128 }
pub fn show(x: &T) -> String { #[allow(unused_variables)] match x { T { other: p0, _0: p1, r#type: p2, a: p3 } => format!("T({},{},{},{})", sv(p0), sv(p1), sv(p2), sv(p3)) } }
pub fn o_default() -> T { T { other: String::from("yo"), _0: 77i128, r#type: "", a: 77i128 } }
pub fn run(out: &mut Out) { let g = <T as ::core::default::Default>::default(); let e = o_default(); out.check(show(&g) == show(&e), "default_22", "default", || format!("default() = {} expected {}", show(&g), show(&e))); }
