// ordlayout_105
#![allow(dead_code, unused_variables, unused_mut, unused_imports, non_shorthand_field_patterns, clippy::all)]
use crate::support::*;
use educe::Educe;
use core::cmp::Ordering;
#[derive(Educe)]
#[repr(C)]
#[educe(PartialEq, Eq, Ord)]
pub enum T { None(u8, #[educe(Ord(rank(-1)))] char, Option<u8>) }
impl PartialOrd for T { fn partial_cmp(&self, o: &Self) -> Option<Ordering> { Some(::core::cmp::Ord::cmp(self, o)) } }
pub fn values() -> Vec<T> { vec![T::None(0, 'a', None), T::None(0, 'a', Some(0)), T::None(0, 'a', Some(255)), T::None(0, 'z', None), T::None(0, 'z', Some(0)), T::None(0, 'z', Some(255)), T::None(100, 'a', None), T::None(100, 'a', Some(0)), T::None(100, 'a', Some(255)), T::None(100, 'z', None), T::None(100, 'z', Some(0)), T::None(100, 'z', Some(255)), T::None(200, 'a', None), T::None(200, 'a', Some(0)), T::None(200, 'a', Some(255)), T::None(200, 'z', None), T::None(200, 'z', Some(0)), T::None(200, 'z', Some(255))] }
pub fn show(x: &T) -> String { #[allow(unused_variables)] match x { T::None(p0, p1, p2) => format!("None({},{},{})", sv(p0), sv(p1), sv(p2)) } }
pub fn o_disc(x: &T) -> i128 { match x { T::None(_, _, _) => 0 } }
pub fn o_cmp(a: &T, b: &T) -> Ordering { match (a, b) { (T::None(a0, a1, a2), T::None(b0, b1, b2)) => { let c = ::core::cmp::Ord::cmp(a0, b0); if c != Ordering::Equal { return c; } let c = ::core::cmp::Ord::cmp(a2, b2); if c != Ordering::Equal { return c; } let c = ::core::cmp::Ord::cmp(a1, b1); if c != Ordering::Equal { return c; } Ordering::Equal } } }
#[repr(C)] pub struct Wrap { pub pre: u8, pub x: T, pub post: [u8; 9] }
pub fn wrap(i: usize, n: u8) -> Wrap { Wrap { pre: n, x: values().swap_remove(i), post: [n; 9] } }
pub fn run(out: &mut Out) { let vs = values(); for (i, a) in vs.iter().enumerate() { for (j, b) in vs.iter().enumerate() { let e = o_cmp(a, b); let g = ::core::cmp::Ord::cmp(a, b); out.check(g == e, "ordlayout_105", "cmp", || format!("cmp({}, {}) = {:?} expected {:?}", show(a), show(b), g, e)); for n in [0u8, 1, 0x7f, 0x80, 0xff] { let wa = wrap(i, n); let wb = wrap(j, !n); let g = ::core::cmp::Ord::cmp(&wa.x, &wb.x); let e = o_cmp(a, b); out.check(g == e, "ordlayout_105", "cmp_neighbours", || format!("cmp({}, {}) with neighbour bytes {} = {:?} expected {:?}", show(a), show(b), n, g, e)); } } } }
