// ord_28
#![allow(dead_code, unused_variables, unused_mut, unused_imports, non_shorthand_field_patterns, clippy::all)]
use crate::support::*;
use core::cmp::Ordering;
pub mod ty {
    #![deny(warnings)]
    #![allow(dead_code, unused_imports, non_snake_case)]
    use crate::support::{A, B, C, Good, Bad, m_eq, m_cmp, m_pcmp, m_hash, m_fmt, m_clone, m_clone_c, m_into, g_eq, g_cmp, g_pcmp, g_hash, g_fmt};
    use educe::Educe;
#[derive(Educe)]
#[repr(isize)]
#[educe(PartialEq, PartialOrd, Eq)]
#[educe(Debug)]
pub enum T { Some { #[educe(Debug = false, PartialOrd(method(m_pcmp)))] other: A<0>, other_data: A<0>, y: A<2>, #[educe(Debug(ignore), PartialOrd(rank("0")))] b: A<3> } = -1 }
}
pub use ty::T;

pub fn values() -> Vec<T> { vec![T::Some { other: A(0), other_data: A(0), y: A(0), b: A(1) }, T::Some { other: A(1), other_data: A(1), y: A(1), b: A(1) }, T::Some { other: A(1), other_data: A(0), y: A(7), b: A(0) }, T::Some { other: A(0), other_data: A(1), y: A(0), b: A(7) }, T::Some { other: A(1), other_data: A(7), y: A(7), b: A(7) }, T::Some { other: A(0), other_data: A(1), y: A(7), b: A(7) }, T::Some { other: A(7), other_data: A(1), y: A(7), b: A(7) }, T::Some { other: A(1), other_data: A(1), y: A(0), b: A(7) }, T::Some { other: A(0), other_data: A(1), y: A(7), b: A(0) }, T::Some { other: A(1), other_data: A(0), y: A(7), b: A(7) }, T::Some { other: A(0), other_data: A(0), y: A(1), b: A(0) }, T::Some { other: A(7), other_data: A(1), y: A(0), b: A(7) }, T::Some { other: A(0), other_data: A(1), y: A(0), b: A(1) }, T::Some { other: A(7), other_data: A(0), y: A(7), b: A(7) }, T::Some { other: A(0), other_data: A(7), y: A(7), b: A(0) }, T::Some { other: A(1), other_data: A(1), y: A(1), b: A(7) }, T::Some { other: A(1), other_data: A(7), y: A(7), b: A(0) }, T::Some { other: A(7), other_data: A(7), y: A(1), b: A(0) }, T::Some { other: A(1), other_data: A(0), y: A(1), b: A(7) }, T::Some { other: A(0), other_data: A(0), y: A(1), b: A(7) }, T::Some { other: A(7), other_data: A(7), y: A(7), b: A(0) }, T::Some { other: A(1), other_data: A(0), y: A(0), b: A(0) }, T::Some { other: A(1), other_data: A(7), y: A(7), b: A(1) }, T::Some { other: A(0), other_data: A(0), y: A(7), b: A(1) }, T::Some { other: A(7), other_data: A(1), y: A(0), b: A(0) }, T::Some { other: A(1), other_data: A(7), y: A(0), b: A(0) }, T::Some { other: A(1), other_data: A(7), y: A(0), b: A(1) }, T::Some { other: A(0), other_data: A(7), y: A(1), b: A(0) }, T::Some { other: A(0), other_data: A(1), y: A(7), b: A(1) }, T::Some { other: A(1), other_data: A(7), y: A(1), b: A(1) }, T::Some { other: A(7), other_data: A(7), y: A(0), b: A(7) }, T::Some { other: A(1), other_data: A(0), y: A(1), b: A(0) }, T::Some { other: A(0), other_data: A(7), y: A(1), b: A(1) }, T::Some { other: A(1), other_data: A(1), y: A(0), b: A(0) }, T::Some { other: A(7), other_data: A(7), y: A(1), b: A(7) }, T::Some { other: A(7), other_data: A(1), y: A(1), b: A(0) }] }
pub fn show(x: &T) -> String { #[allow(unused_variables)] match x { T::Some { other: p0, other_data: p1, y: p2, b: p3 } => format!("Some({},{},{},{})", sv(p0), sv(p1), sv(p2), sv(p3)) } }
pub fn o_disc(x: &T) -> i128 { match x { T::Some { other: _, other_data: _, y: _, b: _ } => -1 } }
pub fn o_pcmp(a: &T, b: &T) -> Option<Ordering> { match (a, b) { (T::Some { other: a0, other_data: a1, y: a2, b: a3 }, T::Some { other: b0, other_data: b1, y: b2, b: b3 }) => { match m_pcmp(a0, b0) { Some(Ordering::Equal) => (), x => return x } match ::core::cmp::PartialOrd::partial_cmp(a1, b1) { Some(Ordering::Equal) => (), x => return x } match ::core::cmp::PartialOrd::partial_cmp(a2, b2) { Some(Ordering::Equal) => (), x => return x } match ::core::cmp::PartialOrd::partial_cmp(a3, b3) { Some(Ordering::Equal) => (), x => return x } Some(Ordering::Equal) } } }
pub fn run(out: &mut Out) { let vs = values(); for (i, a) in vs.iter().enumerate() { for (j, b) in vs.iter().enumerate() { let e = o_pcmp(a, b); let g = ::core::cmp::PartialOrd::partial_cmp(a, b); out.check(g == e, "ord_28", "partial_cmp", || format!("partial_cmp({}, {}) = {:?} expected {:?}", show(a), show(b), g, e)); } } }
