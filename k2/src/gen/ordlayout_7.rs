// ordlayout_7
#![allow(dead_code, unused_variables, unused_mut, unused_imports, non_shorthand_field_patterns, clippy::all)]
use crate::support::*;
use educe::Educe;
use core::cmp::Ordering;
#[derive(Educe)]
#[educe(Eq, PartialOrd, PartialEq)]
pub enum T { None, Some, Unit, B(#[educe(PartialOrd(rank(2)))] char, #[educe(PartialOrd(rank = "-2"))] char) }

pub fn values() -> Vec<T> { vec![T::None, T::Some, T::Unit, T::B('a', 'a'), T::B('a', 'z'), T::B('z', 'a'), T::B('z', 'z')] }
pub fn show(x: &T) -> String { #[allow(unused_variables)] match x { T::None => format!("None()"), T::Some => format!("Some()"), T::Unit => format!("Unit()"), T::B(p0, p1) => format!("B({},{})", sv(p0), sv(p1)) } }
pub fn o_disc(x: &T) -> i128 { match x { T::None => 0, T::Some => 1, T::Unit => 2, T::B(_, _) => 3 } }
pub fn o_pcmp(a: &T, b: &T) -> Option<Ordering> { match (a, b) { (T::None, T::None) => {  Some(Ordering::Equal) }, (T::Some, T::Some) => {  Some(Ordering::Equal) }, (T::Unit, T::Unit) => {  Some(Ordering::Equal) }, (T::B(a0, a1), T::B(b0, b1)) => { match ::core::cmp::PartialOrd::partial_cmp(a1, b1) { Some(Ordering::Equal) => (), x => return x } match ::core::cmp::PartialOrd::partial_cmp(a0, b0) { Some(Ordering::Equal) => (), x => return x } Some(Ordering::Equal) }, _ => Some(o_disc(a).cmp(&o_disc(b))) } }
#[repr(C)] pub struct Wrap { pub pre: u8, pub x: T, pub post: [u8; 9] }
pub fn wrap(i: usize, n: u8) -> Wrap { Wrap { pre: n, x: values().swap_remove(i), post: [n; 9] } }
pub fn run(out: &mut Out) { let vs = values(); for (i, a) in vs.iter().enumerate() { for (j, b) in vs.iter().enumerate() { let e = o_pcmp(a, b); let g = ::core::cmp::PartialOrd::partial_cmp(a, b); out.check(g == e, "ordlayout_7", "partial_cmp", || format!("partial_cmp({}, {}) = {:?} expected {:?}", show(a), show(b), g, e)); for n in [0u8, 1, 0x7f, 0x80, 0xff] { let wa = wrap(i, n); let wb = wrap(j, !n); let g = ::core::cmp::PartialOrd::partial_cmp(&wa.x, &wb.x); let e = o_pcmp(a, b); out.check(g == e, "ordlayout_7", "cmp_neighbours", || format!("cmp({}, {}) with neighbour bytes {} = {:?} expected {:?}", show(a), show(b), n, g, e)); } } } }
