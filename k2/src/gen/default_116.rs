// default_116
#![allow(dead_code, unused_variables, unused_mut, unused_imports, non_shorthand_field_patterns, clippy::all)]
use crate::support::*;
use educe::Educe;
use core::cmp::Ordering;
#[derive(Educe)]
#[educe(Default)]
pub enum T { #[educe(Default)] A { #[educe(Default(expr(A(9))))] data: A<3>, a: &'static str, #[educe(Default(expression('x')))] size: char } }
pub fn show(x: &T) -> String { #[allow(unused_variables)] match x { T::A { data: p0, a: p1, size: p2 } => format!("A({},{},{})", sv(p0), sv(p1), sv(p2)) } }
pub fn o_default() -> T { T::A { data: A(9), a: "", size: 'x' } }
pub fn run(out: &mut Out) { let g = <T as ::core::default::Default>::default(); let e = o_default(); out.check(show(&g) == show(&e), "default_116", "default", || format!("default() = {} expected {}", show(&g), show(&e))); }
