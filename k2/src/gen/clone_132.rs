// clone_132
#![allow(dead_code, unused_variables, unused_mut, unused_imports, non_shorthand_field_patterns, clippy::all)]
use crate::support::*;
use educe::Educe;
use core::cmp::Ordering;
#[derive(Educe)]
#[educe(Clone)]
pub struct T { #[educe(Clone(method(m_clone)))] size: A<0>, c: A<1>, f: A<0> }
pub fn values() -> Vec<T> { vec![T { size: A(0), c: A(7), f: A(1) }, T { size: A(0), c: A(1), f: A(7) }, T { size: A(0), c: A(1), f: A(0) }, T { size: A(7), c: A(7), f: A(0) }, T { size: A(1), c: A(7), f: A(1) }, T { size: A(0), c: A(1), f: A(1) }, T { size: A(0), c: A(7), f: A(0) }, T { size: A(7), c: A(1), f: A(7) }, T { size: A(1), c: A(0), f: A(7) }, T { size: A(7), c: A(7), f: A(1) }, T { size: A(1), c: A(0), f: A(0) }, T { size: A(0), c: A(0), f: A(7) }, T { size: A(7), c: A(0), f: A(1) }, T { size: A(1), c: A(1), f: A(7) }, T { size: A(0), c: A(0), f: A(0) }, T { size: A(7), c: A(0), f: A(7) }, T { size: A(1), c: A(7), f: A(0) }, T { size: A(7), c: A(7), f: A(7) }, T { size: A(1), c: A(1), f: A(0) }, T { size: A(1), c: A(0), f: A(1) }] }
pub fn show(x: &T) -> String { #[allow(unused_variables)] match x { T { size: p0, c: p1, f: p2 } => format!("T({},{},{})", sv(p0), sv(p1), sv(p2)) } }
pub fn o_clone(x: &T) -> T { match x { T { size: p0, c: p1, f: p2 } => T { size: A(p0.0.wrapping_add(50)), c: A(p1.0), f: A(p2.0) } } }
pub fn o_log(x: &T) -> Vec<String> { match x { T { size: p0, c: p1, f: p2 } => vec![format!("m_clone A{} {}", p0.k(), p0.0), format!("clone A{} {}", p1.k(), p1.0), format!("clone A{} {}", p2.k(), p2.0)] } }
pub fn run(out: &mut Out) { let vs = values(); for a in &vs { let _ = take_log(); let g = ::core::clone::Clone::clone(a); let l = take_log(); let e = o_clone(a); out.check(show(&g) == show(&e), "clone_132", "clone", || format!("clone({}) = {} expected {}", show(a), show(&g), show(&e))); let el = o_log(a); out.check(l == el, "clone_132", "clone_calls", || format!("clone({}) called {:?} expected {:?}", show(a), l, el)); } let n = vs.len(); for i in 0..n { for j in 0..n { let mut x = values().swap_remove(i); let shown = show(&x); ::core::clone::Clone::clone_from(&mut x, &vs[j]); let e = o_clone(&vs[j]); out.check(show(&x) == show(&e), "clone_132", "clone_from", || format!("{}.clone_from({}) = {} expected {}", shown, show(&vs[j]), show(&x), show(&e))); } } }
