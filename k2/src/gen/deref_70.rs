// deref_70
#![allow(dead_code, unused_variables, unused_mut, unused_imports, non_shorthand_field_patterns, clippy::all)]
use crate::support::*;
use educe::Educe;
use core::cmp::Ordering;
#[derive(Educe)]
#[educe(Deref, DerefMut)]
pub enum T { B(A<0>), V1(#[educe(DerefMut)] A<0>, #[educe(Deref)] A<0>), Unit(A<0>), A { r#type: A<1>, state: A<1>, #[educe(Deref, DerefMut)] builder: A<0> } }
pub fn values() -> Vec<T> { vec![T::B(A(0)), T::B(A(1)), T::B(A(7)), T::V1(A(0), A(7)), T::V1(A(1), A(7)), T::V1(A(7), A(0)), T::V1(A(0), A(0)), T::Unit(A(0)), T::Unit(A(1)), T::Unit(A(7)), T::A { r#type: A(7), state: A(1), builder: A(1) }, T::A { r#type: A(0), state: A(0), builder: A(1) }, T::A { r#type: A(1), state: A(1), builder: A(1) }, T::A { r#type: A(0), state: A(7), builder: A(0) }] }
pub fn show(x: &T) -> String { #[allow(unused_variables)] match x { T::B(p0) => format!("B({})", sv(p0)), T::V1(p0, p1) => format!("V1({},{})", sv(p0), sv(p1)), T::Unit(p0) => format!("Unit({})", sv(p0)), T::A { r#type: p0, state: p1, builder: p2 } => format!("A({},{},{})", sv(p0), sv(p1), sv(p2)) } }
pub fn o_deref(x: &T) -> *const A<0> { match x { T::B(p0) => p0 as *const A<0>, T::V1(_, p1) => p1 as *const A<0>, T::Unit(p0) => p0 as *const A<0>, T::A { r#type: _, state: _, builder: p2 } => p2 as *const A<0> } }
pub fn o_deref_mut(x: &mut T) -> *mut A<0> { match x { T::B(p0) => p0 as *mut A<0>, T::V1(p0, _) => p0 as *mut A<0>, T::Unit(p0) => p0 as *mut A<0>, T::A { r#type: _, state: _, builder: p2 } => p2 as *mut A<0> } }
pub fn o_write(x: &mut T) { match x { T::B(p0) => { *p0 = A(99); }, T::V1(p0, _) => { *p0 = A(99); }, T::Unit(p0) => { *p0 = A(99); }, T::A { r#type: _, state: _, builder: p2 } => { *p2 = A(99); } } }
pub fn run(out: &mut Out) { let vs = values(); for a in &vs { let g = ::core::ops::Deref::deref(a) as *const A<0>; let e = o_deref(a); out.check(g == e, "deref_70", "deref", || format!("&*{} has another address than the designated field", show(a))); } let n = vs.len(); for i in 0..n { let mut x = values().swap_remove(i); let e = o_deref_mut(&mut x); let g = ::core::ops::DerefMut::deref_mut(&mut x) as *mut A<0>; out.check(g == e, "deref_70", "deref_mut", || format!("&mut *{} has another address than the designated field", show(&x))); let mut y = values().swap_remove(i); o_write(&mut y); *::core::ops::DerefMut::deref_mut(&mut x) = A(99); out.check(show(&x) == show(&y), "deref_70", "deref_mut_write", || format!("after a write through &mut *x: {} expected {}", show(&x), show(&y))); } }
