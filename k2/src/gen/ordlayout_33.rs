// ordlayout_33
#![allow(dead_code, unused_variables, unused_mut, unused_imports, non_shorthand_field_patterns, clippy::all)]
use crate::support::*;
use educe::Educe;
use core::cmp::Ordering;
#[derive(Educe)]
#[repr(i32)]
#[educe(Eq, PartialOrd, PartialEq)]
pub enum T { V1, Zed { state: ::core::num::NonZeroU8, #[educe(PartialOrd(rank = -3))] c: ::core::num::NonZeroU8 } = 255 }

pub fn values() -> Vec<T> { vec![T::V1, T::Zed { state: ::core::num::NonZeroU8::new(1).unwrap(), c: ::core::num::NonZeroU8::new(1).unwrap() }, T::Zed { state: ::core::num::NonZeroU8::new(1).unwrap(), c: ::core::num::NonZeroU8::new(200).unwrap() }, T::Zed { state: ::core::num::NonZeroU8::new(200).unwrap(), c: ::core::num::NonZeroU8::new(1).unwrap() }, T::Zed { state: ::core::num::NonZeroU8::new(200).unwrap(), c: ::core::num::NonZeroU8::new(200).unwrap() }] }
pub fn show(x: &T) -> String { #[allow(unused_variables)] match x { T::V1 => format!("V1()"), T::Zed { state: p0, c: p1 } => format!("Zed({},{})", sv(p0), sv(p1)) } }
pub fn o_disc(x: &T) -> i128 { match x { T::V1 => 0, T::Zed { state: _, c: _ } => 255 } }
pub fn o_pcmp(a: &T, b: &T) -> Option<Ordering> { match (a, b) { (T::V1, T::V1) => {  Some(Ordering::Equal) }, (T::Zed { state: a0, c: a1 }, T::Zed { state: b0, c: b1 }) => { match ::core::cmp::PartialOrd::partial_cmp(a0, b0) { Some(Ordering::Equal) => (), x => return x } match ::core::cmp::PartialOrd::partial_cmp(a1, b1) { Some(Ordering::Equal) => (), x => return x } Some(Ordering::Equal) }, _ => Some(o_disc(a).cmp(&o_disc(b))) } }
#[repr(C)] pub struct Wrap { pub pre: u8, pub x: T, pub post: [u8; 9] }
pub fn wrap(i: usize, n: u8) -> Wrap { Wrap { pre: n, x: values().swap_remove(i), post: [n; 9] } }
pub fn run(out: &mut Out) { let vs = values(); for (i, a) in vs.iter().enumerate() { for (j, b) in vs.iter().enumerate() { let e = o_pcmp(a, b); let g = ::core::cmp::PartialOrd::partial_cmp(a, b); out.check(g == e, "ordlayout_33", "partial_cmp", || format!("partial_cmp({}, {}) = {:?} expected {:?}", show(a), show(b), g, e)); for n in [0u8, 1, 0x7f, 0x80, 0xff] { let wa = wrap(i, n); let wb = wrap(j, !n); let g = ::core::cmp::PartialOrd::partial_cmp(&wa.x, &wb.x); let e = o_pcmp(a, b); out.check(g == e, "ordlayout_33", "cmp_neighbours", || format!("cmp({}, {}) with neighbour bytes {} = {:?} expected {:?}", show(a), show(b), n, g, e)); } } } }
