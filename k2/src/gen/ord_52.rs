// ord_52
#![allow(dead_code, unused_variables, unused_mut, unused_imports, non_shorthand_field_patterns, clippy::all)]
use crate::support::*;
use core::cmp::Ordering;
pub mod ty {
    #![deny(warnings)]
    #![allow(dead_code, unused_imports, non_snake_case)]
    use crate::support::{A, B, C, Good, Bad, m_eq, m_cmp, m_pcmp, m_hash, m_fmt, m_clone, m_clone_c, m_into, g_eq, g_cmp, g_pcmp, g_hash, g_fmt};
    use educe::Educe;
#[derive(Educe)]
#[educe(PartialEq, PartialOrd, Eq)]
pub struct T { #[educe(PartialOrd(rank("-4")))] pub _type: A<0>, #[educe(PartialOrd(rank = "+2", method = m_pcmp))] pub state: A<1>, #[educe(PartialOrd(method = m_pcmp))] pub r#type: A<2> }
}
pub use ty::T;

pub fn values() -> Vec<T> { vec![T { _type: A(0), state: A(0), r#type: A(0) }, T { _type: A(0), state: A(0), r#type: A(1) }, T { _type: A(0), state: A(0), r#type: A(7) }, T { _type: A(0), state: A(1), r#type: A(0) }, T { _type: A(0), state: A(1), r#type: A(1) }, T { _type: A(0), state: A(1), r#type: A(7) }, T { _type: A(0), state: A(7), r#type: A(0) }, T { _type: A(0), state: A(7), r#type: A(1) }, T { _type: A(0), state: A(7), r#type: A(7) }, T { _type: A(1), state: A(0), r#type: A(0) }, T { _type: A(1), state: A(0), r#type: A(1) }, T { _type: A(1), state: A(0), r#type: A(7) }, T { _type: A(1), state: A(1), r#type: A(0) }, T { _type: A(1), state: A(1), r#type: A(1) }, T { _type: A(1), state: A(1), r#type: A(7) }, T { _type: A(1), state: A(7), r#type: A(0) }, T { _type: A(1), state: A(7), r#type: A(1) }, T { _type: A(1), state: A(7), r#type: A(7) }, T { _type: A(7), state: A(0), r#type: A(0) }, T { _type: A(7), state: A(0), r#type: A(1) }, T { _type: A(7), state: A(0), r#type: A(7) }, T { _type: A(7), state: A(1), r#type: A(0) }, T { _type: A(7), state: A(1), r#type: A(1) }, T { _type: A(7), state: A(1), r#type: A(7) }, T { _type: A(7), state: A(7), r#type: A(0) }, T { _type: A(7), state: A(7), r#type: A(1) }, T { _type: A(7), state: A(7), r#type: A(7) }] }
pub fn show(x: &T) -> String { #[allow(unused_variables)] match x { T { _type: p0, state: p1, r#type: p2 } => format!("T({},{},{})", sv(p0), sv(p1), sv(p2)) } }
pub fn o_disc(x: &T) -> i128 { match x { T { _type: _, state: _, r#type: _ } => 0 } }
pub fn o_pcmp(a: &T, b: &T) -> Option<Ordering> { match (a, b) { (T { _type: a0, state: a1, r#type: a2 }, T { _type: b0, state: b1, r#type: b2 }) => { match m_pcmp(a2, b2) { Some(Ordering::Equal) => (), x => return x } match ::core::cmp::PartialOrd::partial_cmp(a0, b0) { Some(Ordering::Equal) => (), x => return x } match m_pcmp(a1, b1) { Some(Ordering::Equal) => (), x => return x } Some(Ordering::Equal) } } }
pub fn run(out: &mut Out) { let vs = values(); for (i, a) in vs.iter().enumerate() { for (j, b) in vs.iter().enumerate() { let e = o_pcmp(a, b); let g = ::core::cmp::PartialOrd::partial_cmp(a, b); out.check(g == e, "ord_52", "partial_cmp", || format!("partial_cmp({}, {}) = {:?} expected {:?}", show(a), show(b), g, e)); } } }
