// ord_52
#![allow(dead_code, unused_variables, unused_mut, unused_imports, non_shorthand_field_patterns, clippy::all)]
use crate::support::*;
use educe::Educe;
use core::cmp::Ordering;
#[derive(Educe)]
#[educe(Eq, PartialOrd, PartialEq)]
pub struct T { #[educe(PartialOrd(method(m_pcmp), rank(2)))] a: A<0>, #[educe(PartialOrd(method = "m_pcmp"))] state: A<0>, #[educe(PartialOrd(rank = "6"))] other: A<2> }

pub fn values() -> Vec<T> { vec![T { a: A(0), state: A(0), other: A(0) }, T { a: A(0), state: A(0), other: A(1) }, T { a: A(0), state: A(0), other: A(7) }, T { a: A(0), state: A(1), other: A(0) }, T { a: A(0), state: A(1), other: A(1) }, T { a: A(0), state: A(1), other: A(7) }, T { a: A(0), state: A(7), other: A(0) }, T { a: A(0), state: A(7), other: A(1) }, T { a: A(0), state: A(7), other: A(7) }, T { a: A(1), state: A(0), other: A(0) }, T { a: A(1), state: A(0), other: A(1) }, T { a: A(1), state: A(0), other: A(7) }, T { a: A(1), state: A(1), other: A(0) }, T { a: A(1), state: A(1), other: A(1) }, T { a: A(1), state: A(1), other: A(7) }, T { a: A(1), state: A(7), other: A(0) }, T { a: A(1), state: A(7), other: A(1) }, T { a: A(1), state: A(7), other: A(7) }, T { a: A(7), state: A(0), other: A(0) }, T { a: A(7), state: A(0), other: A(1) }, T { a: A(7), state: A(0), other: A(7) }, T { a: A(7), state: A(1), other: A(0) }, T { a: A(7), state: A(1), other: A(1) }, T { a: A(7), state: A(1), other: A(7) }, T { a: A(7), state: A(7), other: A(0) }, T { a: A(7), state: A(7), other: A(1) }, T { a: A(7), state: A(7), other: A(7) }] }
pub fn show(x: &T) -> String { #[allow(unused_variables)] match x { T { a: p0, state: p1, other: p2 } => format!("T({},{},{})", sv(p0), sv(p1), sv(p2)) } }
pub fn o_disc(x: &T) -> i128 { match x { T { a: _, state: _, other: _ } => 0 } }
pub fn o_pcmp(a: &T, b: &T) -> Option<Ordering> { match (a, b) { (T { a: a0, state: a1, other: a2 }, T { a: b0, state: b1, other: b2 }) => { match m_pcmp(a1, b1) { Some(Ordering::Equal) => (), x => return x } match m_pcmp(a0, b0) { Some(Ordering::Equal) => (), x => return x } match ::core::cmp::PartialOrd::partial_cmp(a2, b2) { Some(Ordering::Equal) => (), x => return x } Some(Ordering::Equal) } } }
pub fn run(out: &mut Out) { let vs = values(); for (i, a) in vs.iter().enumerate() { for (j, b) in vs.iter().enumerate() { let e = o_pcmp(a, b); let g = ::core::cmp::PartialOrd::partial_cmp(a, b); out.check(g == e, "ord_52", "partial_cmp", || format!("partial_cmp({}, {}) = {:?} expected {:?}", show(a), show(b), g, e)); } } }
