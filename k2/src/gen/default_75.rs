// default_75
#![allow(dead_code, unused_variables, unused_mut, unused_imports, non_shorthand_field_patterns, clippy::all)]
use crate::support::*;
use educe::Educe;
use core::cmp::Ordering;
#[derive(Educe)]
#[educe(Default(new))]
pub enum T { #[educe(Default)] A(u16, #[educe(Default(expression(A(9))))] A<3>, i128), Unit }
pub fn show(x: &T) -> String { #[allow(unused_variables)] match x { T::A(p0, p1, p2) => format!("A({},{},{})", sv(p0), sv(p1), sv(p2)), T::Unit => format!("Unit()") } }
pub fn o_default() -> T { T::A(0u16, A(9), 0i128) }
pub fn run(out: &mut Out) { let g = <T as ::core::default::Default>::default(); let e = o_default(); out.check(show(&g) == show(&e), "default_75", "default", || format!("default() = {} expected {}", show(&g), show(&e))); let g = T::new(); let e = o_default(); out.check(show(&g) == show(&e), "default_75", "new", || format!("new() = {} expected {}", show(&g), show(&e))); }
