// hash_79
#![allow(dead_code, unused_variables, unused_mut, unused_imports, non_shorthand_field_patterns, clippy::all)]
use crate::support::*;
use educe::Educe;
use core::cmp::Ordering;
#[derive(Educe)]
#[educe(Hash)]
pub enum T { None { data: A<0>, #[educe(Hash(method = m_hash))] size: A<1>, x: A<0> }, C, V1(), Zed() }
pub fn values() -> Vec<T> { vec![T::None { data: A(0), size: A(7), x: A(1) }, T::None { data: A(7), size: A(7), x: A(7) }, T::None { data: A(1), size: A(0), x: A(1) }, T::None { data: A(0), size: A(1), x: A(1) }, T::None { data: A(7), size: A(0), x: A(0) }, T::None { data: A(0), size: A(1), x: A(0) }, T::None { data: A(7), size: A(7), x: A(0) }, T::None { data: A(1), size: A(7), x: A(7) }, T::None { data: A(7), size: A(0), x: A(7) }, T::None { data: A(1), size: A(1), x: A(7) }, T::None { data: A(0), size: A(7), x: A(0) }, T::None { data: A(1), size: A(1), x: A(1) }, T::C, T::V1(), T::Zed()] }
pub fn show(x: &T) -> String { #[allow(unused_variables)] match x { T::None { data: p0, size: p1, x: p2 } => format!("None({},{},{})", sv(p0), sv(p1), sv(p2)), T::C => format!("C()"), T::V1() => format!("V1()"), T::Zed() => format!("Zed()") } }
pub fn o_hash(x: &T) -> Vec<String> { let mut e = Rec::default(); match x { T::None { data: p0, size: p1, x: p2 } => { ::core::hash::Hash::hash(&0usize, &mut e); ::core::hash::Hash::hash(p0, &mut e); m_hash(p1, &mut e); ::core::hash::Hash::hash(p2, &mut e); }, T::C => { ::core::hash::Hash::hash(&1usize, &mut e); }, T::V1() => { ::core::hash::Hash::hash(&2usize, &mut e); }, T::Zed() => { ::core::hash::Hash::hash(&3usize, &mut e); } } e.0 }
pub fn run(out: &mut Out) { let vs = values(); for a in &vs { let mut g = Rec::default(); ::core::hash::Hash::hash(a, &mut g); let e = o_hash(a); out.check(g.0 == e, "hash_79", "hash", || format!("hash({}) fed {:?} expected {:?}", show(a), g.0, e)); } }
