// deref_130
#![allow(dead_code, unused_variables, unused_mut, unused_imports, non_shorthand_field_patterns, clippy::all)]
use crate::support::*;
use educe::Educe;
use core::cmp::Ordering;
#[derive(Educe)]
#[educe(Deref)]
pub enum T { C(#[educe(Deref)] A<2>, A<2>), None(A<1>, A<0>, #[educe(Deref)] A<2>, A<2>) }
pub fn values() -> Vec<T> { vec![T::C(A(0), A(1)), T::C(A(1), A(0)), T::C(A(7), A(1)), T::C(A(7), A(0)), T::C(A(0), A(0)), T::C(A(1), A(7)), T::C(A(1), A(1)), T::C(A(0), A(7)), T::None(A(1), A(7), A(7), A(7)), T::None(A(7), A(7), A(1), A(7)), T::None(A(7), A(1), A(0), A(7)), T::None(A(7), A(1), A(0), A(0)), T::None(A(0), A(0), A(0), A(0)), T::None(A(1), A(7), A(0), A(7)), T::None(A(0), A(1), A(0), A(7)), T::None(A(7), A(0), A(7), A(7))] }
pub fn show(x: &T) -> String { #[allow(unused_variables)] match x { T::C(p0, p1) => format!("C({},{})", sv(p0), sv(p1)), T::None(p0, p1, p2, p3) => format!("None({},{},{},{})", sv(p0), sv(p1), sv(p2), sv(p3)) } }
pub fn o_deref(x: &T) -> *const A<2> { match x { T::C(p0, _) => p0 as *const A<2>, T::None(_, _, p2, _) => p2 as *const A<2> } }
pub fn run(out: &mut Out) { let vs = values(); for a in &vs { let g = ::core::ops::Deref::deref(a) as *const A<2>; let e = o_deref(a); out.check(g == e, "deref_130", "deref", || format!("&*{} has another address than the designated field", show(a))); } }
