// ord_113
#![allow(dead_code, unused_variables, unused_mut, unused_imports, non_shorthand_field_patterns, clippy::all)]
use crate::support::*;
use educe::Educe;
use core::cmp::Ordering;
#[derive(Educe)]
#[educe(PartialOrd, Eq, PartialEq)]
pub struct T { #[educe(PartialOrd(ignore))] arg: A<0>, #[educe(PartialOrd(rank = "+4"))] x: A<1>, f: A<2> }

pub fn values() -> Vec<T> { vec![T { arg: A(0), x: A(0), f: A(0) }, T { arg: A(0), x: A(0), f: A(1) }, T { arg: A(0), x: A(0), f: A(7) }, T { arg: A(0), x: A(1), f: A(0) }, T { arg: A(0), x: A(1), f: A(1) }, T { arg: A(0), x: A(1), f: A(7) }, T { arg: A(0), x: A(7), f: A(0) }, T { arg: A(0), x: A(7), f: A(1) }, T { arg: A(0), x: A(7), f: A(7) }, T { arg: A(1), x: A(0), f: A(0) }, T { arg: A(1), x: A(0), f: A(1) }, T { arg: A(1), x: A(0), f: A(7) }, T { arg: A(1), x: A(1), f: A(0) }, T { arg: A(1), x: A(1), f: A(1) }, T { arg: A(1), x: A(1), f: A(7) }, T { arg: A(1), x: A(7), f: A(0) }, T { arg: A(1), x: A(7), f: A(1) }, T { arg: A(1), x: A(7), f: A(7) }, T { arg: A(7), x: A(0), f: A(0) }, T { arg: A(7), x: A(0), f: A(1) }, T { arg: A(7), x: A(0), f: A(7) }, T { arg: A(7), x: A(1), f: A(0) }, T { arg: A(7), x: A(1), f: A(1) }, T { arg: A(7), x: A(1), f: A(7) }, T { arg: A(7), x: A(7), f: A(0) }, T { arg: A(7), x: A(7), f: A(1) }, T { arg: A(7), x: A(7), f: A(7) }] }
pub fn show(x: &T) -> String { #[allow(unused_variables)] match x { T { arg: p0, x: p1, f: p2 } => format!("T({},{},{})", sv(p0), sv(p1), sv(p2)) } }
pub fn o_disc(x: &T) -> i128 { match x { T { arg: _, x: _, f: _ } => 0 } }
pub fn o_pcmp(a: &T, b: &T) -> Option<Ordering> { match (a, b) { (T { arg: a0, x: a1, f: a2 }, T { arg: b0, x: b1, f: b2 }) => { match ::core::cmp::PartialOrd::partial_cmp(a2, b2) { Some(Ordering::Equal) => (), x => return x } match ::core::cmp::PartialOrd::partial_cmp(a1, b1) { Some(Ordering::Equal) => (), x => return x } Some(Ordering::Equal) } } }
pub fn run(out: &mut Out) { let vs = values(); for (i, a) in vs.iter().enumerate() { for (j, b) in vs.iter().enumerate() { let e = o_pcmp(a, b); let g = ::core::cmp::PartialOrd::partial_cmp(a, b); out.check(g == e, "ord_113", "partial_cmp", || format!("partial_cmp({}, {}) = {:?} expected {:?}", show(a), show(b), g, e)); } } }
