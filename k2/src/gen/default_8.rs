// default_8
#![allow(dead_code, unused_variables, unused_mut, unused_imports, non_shorthand_field_patterns, clippy::all)]
use crate::support::*;
use educe::Educe;
use core::cmp::Ordering;
#[derive(Educe)]
#[educe(Default(new))]
pub enum T { #[educe(Default)] C(&'static str), V1, A(u64, i64) }
pub fn show(x: &T) -> String { #[allow(unused_variables)] match x { T::C(p0) => format!("C({})", sv(p0)), T::V1 => format!("V1()"), T::A(p0, p1) => format!("A({},{})", sv(p0), sv(p1)) } }
pub fn o_default() -> T { T::C("") }
pub fn run(out: &mut Out) { let g = <T as ::core::default::Default>::default(); let e = o_default(); out.check(show(&g) == show(&e), "default_8", "default", || format!("default() = {} expected {}", show(&g), show(&e))); let g = T::new(); let e = o_default(); out.check(show(&g) == show(&e), "default_8", "new", || format!("new() = {} expected {}", show(&g), show(&e))); }
