// deref_129
#![allow(dead_code, unused_variables, unused_mut, unused_imports, non_shorthand_field_patterns, clippy::all)]
use crate::support::*;
use educe::Educe;
use core::cmp::Ordering;
#[derive(Educe)]
#[educe(DerefMut, Deref)]
pub enum T { V1(A<0>, A<0>, #[educe(DerefMut)] #[educe(Deref)] A<0>), B { #[educe(Deref)] #[educe(DerefMut)] other: A<0>, size: A<1> }, C { #[educe(DerefMut)] a: A<0>, #[educe(Deref)] builder: A<0> }, A(A<2>, #[educe(DerefMut)] #[educe(Deref)] A<0>) }
pub fn values() -> Vec<T> { vec![T::V1(A(1), A(1), A(1)), T::V1(A(0), A(0), A(1)), T::V1(A(0), A(7), A(7)), T::V1(A(7), A(0), A(7)), T::B { other: A(0), size: A(0) }, T::B { other: A(0), size: A(1) }, T::B { other: A(7), size: A(1) }, T::B { other: A(0), size: A(7) }, T::C { a: A(1), builder: A(1) }, T::C { a: A(0), builder: A(1) }, T::C { a: A(7), builder: A(7) }, T::C { a: A(0), builder: A(0) }, T::A(A(1), A(7)), T::A(A(7), A(0)), T::A(A(7), A(1)), T::A(A(1), A(0))] }
pub fn show(x: &T) -> String { #[allow(unused_variables)] match x { T::V1(p0, p1, p2) => format!("V1({},{},{})", sv(p0), sv(p1), sv(p2)), T::B { other: p0, size: p1 } => format!("B({},{})", sv(p0), sv(p1)), T::C { a: p0, builder: p1 } => format!("C({},{})", sv(p0), sv(p1)), T::A(p0, p1) => format!("A({},{})", sv(p0), sv(p1)) } }
pub fn o_deref(x: &T) -> *const A<0> { match x { T::V1(_, _, p2) => p2 as *const A<0>, T::B { other: p0, size: _ } => p0 as *const A<0>, T::C { a: _, builder: p1 } => p1 as *const A<0>, T::A(_, p1) => p1 as *const A<0> } }
pub fn o_deref_mut(x: &mut T) -> *mut A<0> { match x { T::V1(_, _, p2) => p2 as *mut A<0>, T::B { other: p0, size: _ } => p0 as *mut A<0>, T::C { a: p0, builder: _ } => p0 as *mut A<0>, T::A(_, p1) => p1 as *mut A<0> } }
pub fn o_write(x: &mut T) { match x { T::V1(_, _, p2) => { *p2 = A(99); }, T::B { other: p0, size: _ } => { *p0 = A(99); }, T::C { a: p0, builder: _ } => { *p0 = A(99); }, T::A(_, p1) => { *p1 = A(99); } } }
pub fn run(out: &mut Out) { let vs = values(); for a in &vs { let g = ::core::ops::Deref::deref(a) as *const A<0>; let e = o_deref(a); out.check(g == e, "deref_129", "deref", || format!("&*{} has another address than the designated field", show(a))); } let n = vs.len(); for i in 0..n { let mut x = values().swap_remove(i); let e = o_deref_mut(&mut x); let g = ::core::ops::DerefMut::deref_mut(&mut x) as *mut A<0>; out.check(g == e, "deref_129", "deref_mut", || format!("&mut *{} has another address than the designated field", show(&x))); let mut y = values().swap_remove(i); o_write(&mut y); *::core::ops::DerefMut::deref_mut(&mut x) = A(99); out.check(show(&x) == show(&y), "deref_129", "deref_mut_write", || format!("after a write through &mut *x: {} expected {}", show(&x), show(&y))); } }
