// eq_76
#![allow(dead_code, unused_variables, unused_mut, unused_imports, non_shorthand_field_patterns, clippy::all)]
use crate::support::*;
use educe::Educe;
use core::cmp::Ordering;
#[derive(Educe)]
#[educe(PartialEq)]
#[educe(Eq)]
pub enum T { None(#[educe(PartialEq(ignore))] A<0>, A<0>, #[educe(PartialEq(ignore))] A<2>), Unit }
pub fn values() -> Vec<T> { vec![T::None(A(0), A(0), A(0)), T::None(A(7), A(0), A(0)), T::None(A(1), A(7), A(0)), T::None(A(0), A(7), A(1)), T::None(A(7), A(1), A(1)), T::None(A(0), A(7), A(7)), T::None(A(1), A(1), A(1)), T::None(A(7), A(0), A(1)), T::None(A(7), A(1), A(7)), T::None(A(1), A(7), A(7)), T::None(A(1), A(0), A(7)), T::None(A(1), A(1), A(7)), T::None(A(1), A(1), A(0)), T::None(A(1), A(0), A(1)), T::None(A(7), A(7), A(0)), T::None(A(0), A(1), A(7)), T::None(A(7), A(0), A(7)), T::None(A(0), A(1), A(0)), T::None(A(7), A(1), A(0)), T::None(A(7), A(7), A(1)), T::None(A(7), A(7), A(7)), T::None(A(0), A(0), A(7)), T::None(A(1), A(0), A(0)), T::None(A(0), A(0), A(1)), T::Unit] }
pub fn show(x: &T) -> String { #[allow(unused_variables)] match x { T::None(p0, p1, p2) => format!("None({},{},{})", sv(p0), sv(p1), sv(p2)), T::Unit => format!("Unit()") } }
pub fn o_eq(a: &T, b: &T) -> bool { match (a, b) { (T::None(a0, a1, a2), T::None(b0, b1, b2)) => (a1 == b1), (T::Unit, T::Unit) => true, _ => false } }
pub fn run(out: &mut Out) { let vs = values(); for a in &vs { for b in &vs { let e = o_eq(a, b); out.check((a == b) == e, "eq_76", "eq", || format!("{} == {} expected {}", show(a), show(b), e)); out.check((a != b) == !e, "eq_76", "ne", || format!("{} != {} expected {}", show(a), show(b), !e)); } } }
