// hash_54
#![allow(dead_code, unused_variables, unused_mut, unused_imports, non_shorthand_field_patterns, clippy::all)]
use crate::support::*;
use educe::Educe;
use core::cmp::Ordering;
#[derive(Educe)]
#[educe(Hash)]
pub enum T { B(A<0>), Zed, Some { #[educe(Hash(ignore))] f: A<0>, #[educe(Hash(method = "m_hash"))] b: A<1>, #[educe(Hash(method("m_hash")))] source: A<0> }, Unit }
pub fn values() -> Vec<T> { vec![T::B(A(0)), T::B(A(1)), T::B(A(7)), T::Zed, T::Some { f: A(0), b: A(1), source: A(0) }, T::Some { f: A(1), b: A(0), source: A(0) }, T::Some { f: A(1), b: A(7), source: A(0) }, T::Some { f: A(0), b: A(7), source: A(7) }, T::Some { f: A(0), b: A(0), source: A(0) }, T::Some { f: A(7), b: A(0), source: A(0) }, T::Some { f: A(7), b: A(1), source: A(0) }, T::Some { f: A(0), b: A(0), source: A(7) }, T::Some { f: A(1), b: A(1), source: A(1) }, T::Some { f: A(1), b: A(0), source: A(1) }, T::Some { f: A(1), b: A(0), source: A(7) }, T::Some { f: A(1), b: A(7), source: A(1) }, T::Unit] }
pub fn show(x: &T) -> String { #[allow(unused_variables)] match x { T::B(p0) => format!("B({})", sv(p0)), T::Zed => format!("Zed()"), T::Some { f: p0, b: p1, source: p2 } => format!("Some({},{},{})", sv(p0), sv(p1), sv(p2)), T::Unit => format!("Unit()") } }
pub fn o_hash(x: &T) -> Vec<String> { let mut e = Rec::default(); match x { T::B(p0) => { ::core::hash::Hash::hash(&0usize, &mut e); ::core::hash::Hash::hash(p0, &mut e); }, T::Zed => { ::core::hash::Hash::hash(&1usize, &mut e); }, T::Some { f: p0, b: p1, source: p2 } => { ::core::hash::Hash::hash(&2usize, &mut e); m_hash(p1, &mut e); m_hash(p2, &mut e); }, T::Unit => { ::core::hash::Hash::hash(&3usize, &mut e); } } e.0 }
pub fn run(out: &mut Out) { let vs = values(); for a in &vs { let mut g = Rec::default(); ::core::hash::Hash::hash(a, &mut g); let e = o_hash(a); out.check(g.0 == e, "hash_54", "hash", || format!("hash({}) fed {:?} expected {:?}", show(a), g.0, e)); } }
