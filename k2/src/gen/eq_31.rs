// eq_31
#![allow(dead_code, unused_variables, unused_mut, unused_imports, non_shorthand_field_patterns, clippy::all)]
use crate::support::*;
use educe::Educe;
use core::cmp::Ordering;
#[derive(Educe)]
#[educe(PartialEq)]
pub enum T { V1(A<0>, #[educe(PartialEq(ignore))] A<0>), C() }
pub fn values() -> Vec<T> { vec![T::V1(A(0), A(0)), T::V1(A(0), A(1)), T::V1(A(0), A(7)), T::V1(A(1), A(0)), T::V1(A(1), A(1)), T::V1(A(1), A(7)), T::V1(A(7), A(0)), T::V1(A(7), A(1)), T::V1(A(7), A(7)), T::C()] }
pub fn show(x: &T) -> String { #[allow(unused_variables)] match x { T::V1(p0, p1) => format!("V1({},{})", sv(p0), sv(p1)), T::C() => format!("C()") } }
pub fn o_eq(a: &T, b: &T) -> bool { match (a, b) { (T::V1(a0, a1), T::V1(b0, b1)) => (a0 == b0), (T::C(), T::C()) => true, _ => false } }
pub fn run(out: &mut Out) { let vs = values(); for a in &vs { for b in &vs { let e = o_eq(a, b); out.check((a == b) == e, "eq_31", "eq", || format!("{} == {} expected {}", show(a), show(b), e)); out.check((a != b) == !e, "eq_31", "ne", || format!("{} != {} expected {}", show(a), show(b), !e)); } } }
