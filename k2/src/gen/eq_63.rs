// eq_63
#![allow(dead_code, unused_variables, unused_mut, unused_imports, non_shorthand_field_patterns, clippy::all)]
use crate::support::*;
use educe::Educe;
use core::cmp::Ordering;
#[derive(Educe)]
#[educe(PartialEq)]
pub struct T(#[educe(PartialEq(method("m_eq")))] A<0>, A<0>, A<2>);
pub fn values() -> Vec<T> { vec![T(A(0), A(0), A(0)), T(A(0), A(0), A(1)), T(A(0), A(0), A(7)), T(A(0), A(1), A(0)), T(A(0), A(1), A(1)), T(A(0), A(1), A(7)), T(A(0), A(7), A(0)), T(A(0), A(7), A(1)), T(A(0), A(7), A(7)), T(A(1), A(0), A(0)), T(A(1), A(0), A(1)), T(A(1), A(0), A(7)), T(A(1), A(1), A(0)), T(A(1), A(1), A(1)), T(A(1), A(1), A(7)), T(A(1), A(7), A(0)), T(A(1), A(7), A(1)), T(A(1), A(7), A(7)), T(A(7), A(0), A(0)), T(A(7), A(0), A(1)), T(A(7), A(0), A(7)), T(A(7), A(1), A(0)), T(A(7), A(1), A(1)), T(A(7), A(1), A(7)), T(A(7), A(7), A(0)), T(A(7), A(7), A(1)), T(A(7), A(7), A(7))] }
pub fn show(x: &T) -> String { #[allow(unused_variables)] match x { T(p0, p1, p2) => format!("T({},{},{})", sv(p0), sv(p1), sv(p2)) } }
pub fn o_eq(a: &T, b: &T) -> bool { match (a, b) { (T(a0, a1, a2), T(b0, b1, b2)) => m_eq(a0, b0) && (a1 == b1) && (a2 == b2) } }
pub fn run(out: &mut Out) { let vs = values(); for a in &vs { for b in &vs { let e = o_eq(a, b); out.check((a == b) == e, "eq_63", "eq", || format!("{} == {} expected {}", show(a), show(b), e)); out.check((a != b) == !e, "eq_63", "ne", || format!("{} != {} expected {}", show(a), show(b), !e)); } } }
