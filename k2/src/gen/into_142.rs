// into_142
#![allow(dead_code, unused_variables, unused_mut, unused_imports, non_shorthand_field_patterns, clippy::all)]
use crate::support::*;
use educe::Educe;
use core::cmp::Ordering;
#[derive(Educe)]
#[educe(Into(A<1>))]
#[educe(Into(B<0>))]
#[educe(Into(A<0>))]
pub struct T { #[educe(Into(A<1>))] #[educe(Into(B<0>))] source: A<1>, b: A<1>, #[educe(Into(A<0>))] y: A<0> }
pub fn values() -> Vec<T> { vec![T { source: A(7), b: A(0), y: A(0) }, T { source: A(0), b: A(1), y: A(0) }, T { source: A(0), b: A(0), y: A(1) }, T { source: A(1), b: A(0), y: A(0) }, T { source: A(1), b: A(1), y: A(0) }, T { source: A(0), b: A(1), y: A(1) }, T { source: A(1), b: A(1), y: A(1) }, T { source: A(0), b: A(7), y: A(7) }, T { source: A(7), b: A(7), y: A(0) }, T { source: A(1), b: A(0), y: A(7) }, T { source: A(7), b: A(1), y: A(1) }, T { source: A(0), b: A(1), y: A(7) }] }
pub fn show(x: &T) -> String { #[allow(unused_variables)] match x { T { source: p0, b: p1, y: p2 } => format!("T({},{},{})", sv(p0), sv(p1), sv(p2)) } }
pub fn o_into_0(x: T) -> A<1> { match x { T { source: p0, b: _, y: _ } => p0 } }
pub fn o_into_1(x: T) -> B<0> { match x { T { source: p0, b: _, y: _ } => ::core::convert::Into::into(p0) } }
pub fn o_into_2(x: T) -> A<0> { match x { T { source: _, b: _, y: p2 } => p2 } }
pub fn run(out: &mut Out) { let n = values().len(); for i in 0..n { let a = values().swap_remove(i); let shown = show(&a); let g: A<1> = ::core::convert::Into::into(a); let e = o_into_0(values().swap_remove(i)); out.check(sv(&g) == sv(&e), "into_142", "into", || format!("Into::<A<1>>::into({}) = {} expected {}", shown, sv(&g), sv(&e))); } for i in 0..n { let a = values().swap_remove(i); let shown = show(&a); let g: B<0> = ::core::convert::Into::into(a); let e = o_into_1(values().swap_remove(i)); out.check(sv(&g) == sv(&e), "into_142", "into", || format!("Into::<B<0>>::into({}) = {} expected {}", shown, sv(&g), sv(&e))); } for i in 0..n { let a = values().swap_remove(i); let shown = show(&a); let g: A<0> = ::core::convert::Into::into(a); let e = o_into_2(values().swap_remove(i)); out.check(sv(&g) == sv(&e), "into_142", "into", || format!("Into::<A<0>>::into({}) = {} expected {}", shown, sv(&g), sv(&e))); } }
