// ord_0
#![allow(dead_code, unused_variables, unused_mut, unused_imports, non_shorthand_field_patterns, clippy::all)]
use crate::support::*;
use core::cmp::Ordering;
pub mod ty {
    #![deny(warnings)]
    #![allow(dead_code, unused_imports, non_snake_case)]
    use crate::support::{A, B, C, Good, Bad, m_eq, m_cmp, m_pcmp, m_hash, m_fmt, m_clone, m_clone_c, m_into, g_eq, g_cmp, g_pcmp, g_hash, g_fmt};
    use educe::Educe;
#[derive(Educe)]
#[repr(i128)]
#[educe(Debug)]
#[educe(Eq, Ord, PartialEq)]
pub enum T { None = 18446744073709551617, B(#[educe(Debug(ignore = false), Ord(rank("-6")))] A<0>, #[educe(Ord(method = m_cmp))] A<1>) = -1 }
}
pub use ty::T;
impl PartialOrd for T { fn partial_cmp(&self, o: &Self) -> Option<Ordering> { Some(::core::cmp::Ord::cmp(self, o)) } }
pub fn values() -> Vec<T> { vec![T::None, T::B(A(0), A(0)), T::B(A(0), A(1)), T::B(A(0), A(7)), T::B(A(1), A(0)), T::B(A(1), A(1)), T::B(A(1), A(7)), T::B(A(7), A(0)), T::B(A(7), A(1)), T::B(A(7), A(7))] }
pub fn show(x: &T) -> String { #[allow(unused_variables)] match x { T::None => format!("None()"), T::B(p0, p1) => format!("B({},{})", sv(p0), sv(p1)) } }
pub fn o_disc(x: &T) -> i128 { match x { T::None => 18446744073709551617, T::B(_, _) => -1 } }
pub fn o_cmp(a: &T, b: &T) -> Ordering { match (a, b) { (T::None, T::None) => {  Ordering::Equal }, (T::B(a0, a1), T::B(b0, b1)) => { let c = m_cmp(a1, b1); if c != Ordering::Equal { return c; } let c = ::core::cmp::Ord::cmp(a0, b0); if c != Ordering::Equal { return c; } Ordering::Equal }, _ => o_disc(a).cmp(&o_disc(b)) } }
pub fn run(out: &mut Out) { let vs = values(); for (i, a) in vs.iter().enumerate() { for (j, b) in vs.iter().enumerate() { let e = o_cmp(a, b); let g = ::core::cmp::Ord::cmp(a, b); out.check(g == e, "ord_0", "cmp", || format!("cmp({}, {}) = {:?} expected {:?}", show(a), show(b), g, e)); } } }
