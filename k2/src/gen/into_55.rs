// into_55
#![allow(dead_code, unused_variables, unused_mut, unused_imports, non_shorthand_field_patterns, clippy::all)]
use crate::support::*;
use educe::Educe;
use core::cmp::Ordering;
#[derive(Educe)]
#[educe(Into(B<0>))]
#[educe(Into(A<1>))]
#[educe(Into(B<1>))]
pub enum T { V1(A<2>, #[educe(Into(B<0>))] #[educe(Into(A<1>))] #[educe(Into(B<1>, method = "m_into"))] A<1>), Unit { #[educe(Into(A<1>))] a: A<1> } }
pub fn values() -> Vec<T> { vec![T::V1(A(0), A(1)), T::V1(A(1), A(7)), T::V1(A(7), A(0)), T::V1(A(7), A(7)), T::V1(A(7), A(1)), T::V1(A(1), A(0)), T::Unit { a: A(0) }, T::Unit { a: A(1) }, T::Unit { a: A(7) }] }
pub fn show(x: &T) -> String { #[allow(unused_variables)] match x { T::V1(p0, p1) => format!("V1({},{})", sv(p0), sv(p1)), T::Unit { a: p0 } => format!("Unit({})", sv(p0)) } }
pub fn o_into_0(x: T) -> B<0> { match x { T::V1(_, p1) => ::core::convert::Into::into(p1), T::Unit { a: p0 } => ::core::convert::Into::into(p0) } }
pub fn o_into_1(x: T) -> A<1> { match x { T::V1(_, p1) => p1, T::Unit { a: p0 } => p0 } }
pub fn o_into_2(x: T) -> B<1> { match x { T::V1(_, p1) => m_into(p1), T::Unit { a: p0 } => ::core::convert::Into::into(p0) } }
pub fn run(out: &mut Out) { let n = values().len(); for i in 0..n { let a = values().swap_remove(i); let shown = show(&a); let g: B<0> = ::core::convert::Into::into(a); let e = o_into_0(values().swap_remove(i)); out.check(sv(&g) == sv(&e), "into_55", "into", || format!("Into::<B<0>>::into({}) = {} expected {}", shown, sv(&g), sv(&e))); } for i in 0..n { let a = values().swap_remove(i); let shown = show(&a); let g: A<1> = ::core::convert::Into::into(a); let e = o_into_1(values().swap_remove(i)); out.check(sv(&g) == sv(&e), "into_55", "into", || format!("Into::<A<1>>::into({}) = {} expected {}", shown, sv(&g), sv(&e))); } for i in 0..n { let a = values().swap_remove(i); let shown = show(&a); let g: B<1> = ::core::convert::Into::into(a); let e = o_into_2(values().swap_remove(i)); out.check(sv(&g) == sv(&e), "into_55", "into", || format!("Into::<B<1>>::into({}) = {} expected {}", shown, sv(&g), sv(&e))); } }
