// into_63
#![allow(dead_code, unused_variables, unused_mut, unused_imports, non_shorthand_field_patterns, clippy::all)]
use crate::support::*;
use educe::Educe;
use core::cmp::Ordering;
#[derive(Educe)]
#[educe(Into(B<2>))]
#[educe(Into(B<0>))]
pub enum T { Some { builder: A<0>, data: A<2>, #[educe(Into(B<2>))] #[educe(Into(B<0>, method = m_into))] f: A<3> }, Zed(#[educe(Into(B<2>))] A<0>, #[educe(Into(B<0>))] A<0>) }
pub fn values() -> Vec<T> { vec![T::Some { builder: A(1), data: A(0), f: A(1) }, T::Some { builder: A(7), data: A(1), f: A(1) }, T::Some { builder: A(0), data: A(1), f: A(7) }, T::Some { builder: A(1), data: A(1), f: A(0) }, T::Some { builder: A(0), data: A(0), f: A(7) }, T::Some { builder: A(1), data: A(7), f: A(0) }, T::Zed(A(0), A(0)), T::Zed(A(7), A(7)), T::Zed(A(7), A(1)), T::Zed(A(1), A(7)), T::Zed(A(1), A(0)), T::Zed(A(0), A(1))] }
pub fn show(x: &T) -> String { #[allow(unused_variables)] match x { T::Some { builder: p0, data: p1, f: p2 } => format!("Some({},{},{})", sv(p0), sv(p1), sv(p2)), T::Zed(p0, p1) => format!("Zed({},{})", sv(p0), sv(p1)) } }
pub fn o_into_0(x: T) -> B<2> { match x { T::Some { builder: _, data: _, f: p2 } => ::core::convert::Into::into(p2), T::Zed(p0, _) => ::core::convert::Into::into(p0) } }
pub fn o_into_1(x: T) -> B<0> { match x { T::Some { builder: _, data: _, f: p2 } => m_into(p2), T::Zed(_, p1) => ::core::convert::Into::into(p1) } }
pub fn run(out: &mut Out) { let n = values().len(); for i in 0..n { let a = values().swap_remove(i); let shown = show(&a); let g: B<2> = ::core::convert::Into::into(a); let e = o_into_0(values().swap_remove(i)); out.check(sv(&g) == sv(&e), "into_63", "into", || format!("Into::<B<2>>::into({}) = {} expected {}", shown, sv(&g), sv(&e))); } for i in 0..n { let a = values().swap_remove(i); let shown = show(&a); let g: B<0> = ::core::convert::Into::into(a); let e = o_into_1(values().swap_remove(i)); out.check(sv(&g) == sv(&e), "into_63", "into", || format!("Into::<B<0>>::into({}) = {} expected {}", shown, sv(&g), sv(&e))); } }
