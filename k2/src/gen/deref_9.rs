// deref_9
#![allow(dead_code, unused_variables, unused_mut, unused_imports, non_shorthand_field_patterns, clippy::all)]
use crate::support::*;
use core::cmp::Ordering;
pub mod ty {
    #![deny(warnings)]
    #![allow(dead_code, unused_imports)]
    use crate::support::{A, B, C, Good, Bad, m_eq, m_cmp, m_pcmp, m_hash, m_fmt, m_clone, m_clone_c, m_into, g_eq, g_cmp, g_pcmp, g_hash, g_fmt};
    use educe::Educe;

    // names at the derive site that shadow everything the generated code might be tempted to write unqualified
    #[allow(non_camel_case_types)] pub struct Option; pub struct Result; pub struct Ordering; pub struct Clone; pub struct Copy;
    pub struct Default; pub struct Debug; pub struct PartialEq; pub struct Eq; pub struct PartialOrd; pub struct Ord; pub struct Hash;
    pub struct Hasher; pub struct Into; pub struct From; pub struct Deref; pub struct DerefMut; pub struct Formatter; pub struct String;
    pub struct Vec; pub struct Box; pub struct PhantomData; pub struct Sized; pub struct Send; pub struct Iterator; pub struct Self_;
    #[allow(non_snake_case)] pub fn Some() {} #[allow(non_snake_case)] pub fn None() {} #[allow(non_snake_case)] pub fn Ok() {} #[allow(non_snake_case)] pub fn Err() {}
    pub fn drop() {} pub mod core {} pub mod std {} pub mod alloc {} pub mod fmt {} pub mod cmp {} pub mod hash {} pub mod clone {} pub mod marker {}
    #[allow(unused_macros)] macro_rules! stringify { ($($t:tt)*) => { "SHADOWED" } }
    #[allow(unused_macros)] macro_rules! unreachable { ($($t:tt)*) => { () } }
    #[allow(unused_macros)] macro_rules! panic { ($($t:tt)*) => { () } }
    #[allow(unused_macros)] macro_rules! matches { ($($t:tt)*) => { true } }
    #[allow(unused_macros)] macro_rules! write { ($($t:tt)*) => { () } }
    #[allow(unused_macros)] macro_rules! format_args { ($($t:tt)*) => { () } }
    #[allow(unused_macros)] macro_rules! assert { ($($t:tt)*) => { () } }
#[derive(Educe)]
#[educe(Deref, DerefMut)]
pub enum T { Unit(A<0>), B { #[educe(DerefMut, Deref)] self_data: A<0>, f: A<2> }, None(A<0>, #[educe(DerefMut)] #[educe(Deref)] A<0>, A<0>, A<2>) }
}
pub use ty::T;
pub fn values() -> Vec<T> { vec![T::Unit(A(0)), T::Unit(A(1)), T::Unit(A(7)), T::B { self_data: A(7), f: A(7) }, T::B { self_data: A(0), f: A(1) }, T::B { self_data: A(1), f: A(0) }, T::B { self_data: A(0), f: A(7) }, T::B { self_data: A(1), f: A(1) }, T::None(A(1), A(1), A(0), A(1)), T::None(A(1), A(1), A(0), A(7)), T::None(A(7), A(0), A(0), A(1)), T::None(A(0), A(1), A(0), A(7)), T::None(A(1), A(0), A(0), A(1))] }
pub fn show(x: &T) -> String { #[allow(unused_variables)] match x { T::Unit(p0) => format!("Unit({})", sv(p0)), T::B { self_data: p0, f: p1 } => format!("B({},{})", sv(p0), sv(p1)), T::None(p0, p1, p2, p3) => format!("None({},{},{},{})", sv(p0), sv(p1), sv(p2), sv(p3)) } }
pub fn o_deref(x: &T) -> *const A<0> { match x { T::Unit(p0) => p0 as *const A<0>, T::B { self_data: p0, f: _ } => p0 as *const A<0>, T::None(_, p1, _, _) => p1 as *const A<0> } }
pub fn o_deref_mut(x: &mut T) -> *mut A<0> { match x { T::Unit(p0) => p0 as *mut A<0>, T::B { self_data: p0, f: _ } => p0 as *mut A<0>, T::None(_, p1, _, _) => p1 as *mut A<0> } }
pub fn o_write(x: &mut T) { match x { T::Unit(p0) => { *p0 = A(99); }, T::B { self_data: p0, f: _ } => { *p0 = A(99); }, T::None(_, p1, _, _) => { *p1 = A(99); } } }
pub fn run(out: &mut Out) { let vs = values(); for a in &vs { let g = ::core::ops::Deref::deref(a) as *const A<0>; let e = o_deref(a); out.check(g == e, "deref_9", "deref", || format!("&*{} has another address than the designated field", show(a))); } let n = vs.len(); for i in 0..n { let mut x = values().swap_remove(i); let e = o_deref_mut(&mut x); let g = ::core::ops::DerefMut::deref_mut(&mut x) as *mut A<0>; out.check(g == e, "deref_9", "deref_mut", || format!("&mut *{} has another address than the designated field", show(&x))); let mut y = values().swap_remove(i); o_write(&mut y); *::core::ops::DerefMut::deref_mut(&mut x) = A(99); out.check(show(&x) == show(&y), "deref_9", "deref_mut_write", || format!("after a write through &mut *x: {} expected {}", show(&x), show(&y))); } }
