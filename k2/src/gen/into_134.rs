// into_134
#![allow(dead_code, unused_variables, unused_mut, unused_imports, non_shorthand_field_patterns, clippy::all)]
use crate::support::*;
use educe::Educe;
use core::cmp::Ordering;
#[derive(Educe)]
#[educe(Into(B<0>))]
pub enum T { Unit(#[educe(Into(B<0>, method = m_into))] A<1>, A<0>), Some { size: A<3>, data: A<2>, #[educe(Into(B<0>, method = m_into))] state: A<2> }, A { _0: A<0>, other: A<0>, #[educe(Into(B<0>, method = m_into))] source: A<3> } }
pub fn values() -> Vec<T> { vec![T::Unit(A(7), A(0)), T::Unit(A(1), A(0)), T::Unit(A(7), A(1)), T::Unit(A(1), A(7)), T::Some { size: A(0), data: A(0), state: A(7) }, T::Some { size: A(1), data: A(7), state: A(1) }, T::Some { size: A(0), data: A(7), state: A(7) }, T::Some { size: A(7), data: A(0), state: A(7) }, T::A { _0: A(7), other: A(7), source: A(0) }, T::A { _0: A(7), other: A(0), source: A(0) }, T::A { _0: A(7), other: A(0), source: A(1) }, T::A { _0: A(0), other: A(7), source: A(7) }] }
pub fn show(x: &T) -> String { #[allow(unused_variables)] match x { T::Unit(p0, p1) => format!("Unit({},{})", sv(p0), sv(p1)), T::Some { size: p0, data: p1, state: p2 } => format!("Some({},{},{})", sv(p0), sv(p1), sv(p2)), T::A { _0: p0, other: p1, source: p2 } => format!("A({},{},{})", sv(p0), sv(p1), sv(p2)) } }
pub fn o_into_0(x: T) -> B<0> { match x { T::Unit(p0, _) => m_into(p0), T::Some { size: _, data: _, state: p2 } => m_into(p2), T::A { _0: _, other: _, source: p2 } => m_into(p2) } }
pub fn run(out: &mut Out) { let n = values().len(); for i in 0..n { let a = values().swap_remove(i); let shown = show(&a); let g: B<0> = ::core::convert::Into::into(a); let e = o_into_0(values().swap_remove(i)); out.check(sv(&g) == sv(&e), "into_134", "into", || format!("Into::<B<0>>::into({}) = {} expected {}", shown, sv(&g), sv(&e))); } }
