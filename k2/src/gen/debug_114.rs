// debug_114
#![allow(dead_code, unused_variables, unused_mut, unused_imports, non_shorthand_field_patterns, clippy::all)]
use crate::support::*;
use educe::Educe;
use core::cmp::Ordering;
#[derive(Educe)]
#[educe(Debug(rename = Zz))]
pub enum T { Some, None { #[educe(Debug(method = "m_fmt"))] rr_type: A<0>, #[educe(Debug(ignore = true))] f: A<0> }, A }
pub fn values() -> Vec<T> { vec![T::Some, T::None { rr_type: A(0), f: A(7) }, T::None { rr_type: A(7), f: A(1) }, T::None { rr_type: A(1), f: A(7) }, T::None { rr_type: A(1), f: A(0) }, T::None { rr_type: A(1), f: A(1) }, T::None { rr_type: A(0), f: A(0) }, T::None { rr_type: A(7), f: A(7) }, T::None { rr_type: A(0), f: A(1) }, T::A] }
pub fn show(x: &T) -> String { #[allow(unused_variables)] match x { T::Some => format!("Some()"), T::None { rr_type: p0, f: p1 } => format!("None({},{})", sv(p0), sv(p1)), T::A => format!("A()") } }
pub fn o_fmt(x: &T, f: &mut ::core::fmt::Formatter<'_>) -> ::core::fmt::Result { match x { T::Some => f.write_str("Zz::Some"), T::None { rr_type: p0, f: p1 } => f.debug_struct("Zz::None").field("rr_type", &Wm(p0)).finish(), T::A => f.write_str("Zz::A") } }

pub fn run(out: &mut Out) { let vs = values(); for a in &vs { let g = format!("{:?}", a); let e = format!("{:?}", Fm(|f: &mut ::core::fmt::Formatter<'_>| o_fmt(a, f))); out.check(g == e, "debug_114", "debug", || format!("{{:?}} of {} = {:?} expected {:?}", show(a), g, e)); let g = format!("{:#?}", a); let e = format!("{:#?}", Fm(|f: &mut ::core::fmt::Formatter<'_>| o_fmt(a, f))); out.check(g == e, "debug_114", "debug_alt", || format!("{{:#?}} of {} = {:?} expected {:?}", show(a), g, e)); let g = format!("{:8?}", a); let e = format!("{:8?}", Fm(|f: &mut ::core::fmt::Formatter<'_>| o_fmt(a, f))); out.check(g == e, "debug_114", "debug_width", || format!("{{:8?}} of {} = {:?} expected {:?}", show(a), g, e)); }  }
