// ord_121
#![allow(dead_code, unused_variables, unused_mut, unused_imports, non_shorthand_field_patterns, clippy::all)]
use crate::support::*;
use educe::Educe;
use core::cmp::Ordering;
#[derive(Educe)]
#[educe(PartialOrd, Eq, Ord, PartialEq)]
pub enum T { V1(#[educe(Ord(rank = 6))] A<0>), None }

pub fn values() -> Vec<T> { vec![T::V1(A(0)), T::V1(A(1)), T::V1(A(7)), T::None] }
pub fn show(x: &T) -> String { #[allow(unused_variables)] match x { T::V1(p0) => format!("V1({})", sv(p0)), T::None => format!("None()") } }
pub fn o_disc(x: &T) -> i128 { match x { T::V1(_) => 0, T::None => 1 } }
pub fn o_cmp(a: &T, b: &T) -> Ordering { match (a, b) { (T::V1(a0), T::V1(b0)) => { let c = ::core::cmp::Ord::cmp(a0, b0); if c != Ordering::Equal { return c; } Ordering::Equal }, (T::None, T::None) => {  Ordering::Equal }, _ => o_disc(a).cmp(&o_disc(b)) } }
pub fn run(out: &mut Out) { let vs = values(); for (i, a) in vs.iter().enumerate() { for (j, b) in vs.iter().enumerate() { let e = o_cmp(a, b); let g = ::core::cmp::Ord::cmp(a, b); out.check(g == e, "ord_121", "cmp", || format!("cmp({}, {}) = {:?} expected {:?}", show(a), show(b), g, e)); let g2 = ::core::cmp::PartialOrd::partial_cmp(a, b); out.check(g2 == Some(e), "ord_121", "partial_is_some_cmp", || format!("partial_cmp({}, {}) = {:?} expected Some({:?})", show(a), show(b), g2, e)); } } }
