// ord_121
#![allow(dead_code, unused_variables, unused_mut, unused_imports, non_shorthand_field_patterns, clippy::all)]
use crate::support::*;
use core::cmp::Ordering;
pub mod ty {
    #![deny(warnings)]
    #![allow(dead_code, unused_imports, non_snake_case)]
    use crate::support::{A, B, C, Good, Bad, m_eq, m_cmp, m_pcmp, m_hash, m_fmt, m_clone, m_clone_c, m_into, g_eq, g_cmp, g_pcmp, g_hash, g_fmt};
    use educe::Educe;
#[derive(Educe)]
#[repr(u64)]
#[educe(PartialEq, PartialOrd, Eq)]
pub enum T { Some { #[educe(PartialOrd(ignore))] size: A<0> }, None { #[educe(PartialOrd(ignore))] x: A<0>, #[educe(PartialOrd = false)] y: A<1> } }
}
pub use ty::T;

pub fn values() -> Vec<T> { vec![T::Some { size: A(0) }, T::Some { size: A(1) }, T::Some { size: A(7) }, T::None { x: A(0), y: A(0) }, T::None { x: A(0), y: A(1) }, T::None { x: A(0), y: A(7) }, T::None { x: A(1), y: A(0) }, T::None { x: A(1), y: A(1) }, T::None { x: A(1), y: A(7) }, T::None { x: A(7), y: A(0) }, T::None { x: A(7), y: A(1) }, T::None { x: A(7), y: A(7) }] }
pub fn show(x: &T) -> String { #[allow(unused_variables)] match x { T::Some { size: p0 } => format!("Some({})", sv(p0)), T::None { x: p0, y: p1 } => format!("None({},{})", sv(p0), sv(p1)) } }
pub fn o_disc(x: &T) -> i128 { match x { T::Some { size: _ } => 0, T::None { x: _, y: _ } => 1 } }
pub fn o_pcmp(a: &T, b: &T) -> Option<Ordering> { match (a, b) { (T::Some { size: a0 }, T::Some { size: b0 }) => {  Some(Ordering::Equal) }, (T::None { x: a0, y: a1 }, T::None { x: b0, y: b1 }) => {  Some(Ordering::Equal) }, _ => Some(o_disc(a).cmp(&o_disc(b))) } }
pub fn run(out: &mut Out) { let vs = values(); for (i, a) in vs.iter().enumerate() { for (j, b) in vs.iter().enumerate() { let e = o_pcmp(a, b); let g = ::core::cmp::PartialOrd::partial_cmp(a, b); out.check(g == e, "ord_121", "partial_cmp", || format!("partial_cmp({}, {}) = {:?} expected {:?}", show(a), show(b), g, e)); } } }
