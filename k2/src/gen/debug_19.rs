// debug_19
#![allow(dead_code, unused_variables, unused_mut, unused_imports, non_shorthand_field_patterns, clippy::all)]
use crate::support::*;
use educe::Educe;
use core::cmp::Ordering;
#[derive(Educe)]
#[educe(Debug)]
pub enum T { Unit(A<0>, A<1>, A<2>), #[educe(Debug(name(false), named_field = true))] Zed(#[educe(Debug(method = "m_fmt"))] A<0>, A<0>), #[educe(Debug(name = Ren))] Some }
pub fn values() -> Vec<T> { vec![T::Unit(A(1), A(0), A(0)), T::Unit(A(1), A(7), A(7)), T::Unit(A(1), A(0), A(1)), T::Unit(A(0), A(0), A(0)), T::Unit(A(1), A(0), A(7)), T::Unit(A(0), A(1), A(0)), T::Unit(A(0), A(0), A(1)), T::Unit(A(7), A(7), A(0)), T::Zed(A(7), A(7)), T::Zed(A(1), A(0)), T::Zed(A(0), A(0)), T::Zed(A(7), A(1)), T::Zed(A(1), A(7)), T::Zed(A(7), A(0)), T::Zed(A(0), A(1)), T::Zed(A(0), A(7)), T::Some] }
pub fn show(x: &T) -> String { #[allow(unused_variables)] match x { T::Unit(p0, p1, p2) => format!("Unit({},{},{})", sv(p0), sv(p1), sv(p2)), T::Zed(p0, p1) => format!("Zed({},{})", sv(p0), sv(p1)), T::Some => format!("Some()") } }
pub fn o_fmt(x: &T, f: &mut ::core::fmt::Formatter<'_>) -> ::core::fmt::Result { match x { T::Unit(p0, p1, p2) => f.debug_tuple("Unit").field(p0).field(p1).field(p2).finish(), T::Zed(p0, p1) => f.debug_map().entry(&Raw("_0"), &Wm(p0)).entry(&Raw("_1"), p1).finish(), T::Some => f.write_str("Ren") } }

pub fn run(out: &mut Out) { let vs = values(); for a in &vs { let g = format!("{:?}", a); let e = format!("{:?}", Fm(|f: &mut ::core::fmt::Formatter<'_>| o_fmt(a, f))); out.check(g == e, "debug_19", "debug", || format!("{{:?}} of {} = {:?} expected {:?}", show(a), g, e)); let g = format!("{:#?}", a); let e = format!("{:#?}", Fm(|f: &mut ::core::fmt::Formatter<'_>| o_fmt(a, f))); out.check(g == e, "debug_19", "debug_alt", || format!("{{:#?}} of {} = {:?} expected {:?}", show(a), g, e)); let g = format!("{:8?}", a); let e = format!("{:8?}", Fm(|f: &mut ::core::fmt::Formatter<'_>| o_fmt(a, f))); out.check(g == e, "debug_19", "debug_width", || format!("{{:8?}} of {} = {:?} expected {:?}", show(a), g, e)); }  }
