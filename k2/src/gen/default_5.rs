// default_5
#![allow(dead_code, unused_variables, unused_mut, unused_imports, non_shorthand_field_patterns, clippy::all)]
use crate::support::*;
use educe::Educe;
use core::cmp::Ordering;
#[derive(Educe)]
#[educe(Default)]
pub enum T { B { x: bool, arg: u16 }, A(A<0>, char), #[educe(Default)] Zed, Unit { _0: i128, other: A<0>, r#type: char, builder: bool } }
pub fn show(x: &T) -> String { #[allow(unused_variables)] match x { T::B { x: p0, arg: p1 } => format!("B({},{})", sv(p0), sv(p1)), T::A(p0, p1) => format!("A({},{})", sv(p0), sv(p1)), T::Zed => format!("Zed()"), T::Unit { _0: p0, other: p1, r#type: p2, builder: p3 } => format!("Unit({},{},{},{})", sv(p0), sv(p1), sv(p2), sv(p3)) } }
pub fn o_default() -> T { T::Zed }
pub fn run(out: &mut Out) { let g = <T as ::core::default::Default>::default(); let e = o_default(); out.check(show(&g) == show(&e), "default_5", "default", || format!("default() = {} expected {}", show(&g), show(&e))); }
