// into_128
#![allow(dead_code, unused_variables, unused_mut, unused_imports, non_shorthand_field_patterns, clippy::all)]
use crate::support::*;
use educe::Educe;
use core::cmp::Ordering;
#[derive(Educe)]
#[educe(Into(B<1>))]
#[educe(Into(B<0>))]
#[educe(Into(A<1>))]
pub enum T { Zed { a: A<0>, state: A<1>, #[educe(Into(B<1>, method = "m_into"))] #[educe(Into(B<0>))] f: A<0> }, C { y: A<1> }, B(#[educe(Into(B<0>))] A<1>), None { arg: A<1>, #[educe(Into(B<1>))] #[educe(Into(B<0>))] f: A<0>, a: A<2> } }
pub fn values() -> Vec<T> { vec![T::Zed { a: A(0), state: A(0), f: A(0) }, T::Zed { a: A(0), state: A(1), f: A(0) }, T::Zed { a: A(0), state: A(1), f: A(7) }, T::C { y: A(0) }, T::C { y: A(1) }, T::C { y: A(7) }, T::B(A(0)), T::B(A(1)), T::B(A(7)), T::None { arg: A(7), f: A(7), a: A(7) }, T::None { arg: A(1), f: A(1), a: A(0) }, T::None { arg: A(7), f: A(1), a: A(1) }] }
pub fn show(x: &T) -> String { #[allow(unused_variables)] match x { T::Zed { a: p0, state: p1, f: p2 } => format!("Zed({},{},{})", sv(p0), sv(p1), sv(p2)), T::C { y: p0 } => format!("C({})", sv(p0)), T::B(p0) => format!("B({})", sv(p0)), T::None { arg: p0, f: p1, a: p2 } => format!("None({},{},{})", sv(p0), sv(p1), sv(p2)) } }
pub fn o_into_0(x: T) -> B<1> { match x { T::Zed { a: _, state: _, f: p2 } => m_into(p2), T::C { y: p0 } => ::core::convert::Into::into(p0), T::B(p0) => ::core::convert::Into::into(p0), T::None { arg: _, f: p1, a: _ } => ::core::convert::Into::into(p1) } }
pub fn o_into_1(x: T) -> B<0> { match x { T::Zed { a: _, state: _, f: p2 } => ::core::convert::Into::into(p2), T::C { y: p0 } => ::core::convert::Into::into(p0), T::B(p0) => ::core::convert::Into::into(p0), T::None { arg: _, f: p1, a: _ } => ::core::convert::Into::into(p1) } }
pub fn o_into_2(x: T) -> A<1> { match x { T::Zed { a: _, state: p1, f: _ } => p1, T::C { y: p0 } => p0, T::B(p0) => p0, T::None { arg: p0, f: _, a: _ } => p0 } }
pub fn run(out: &mut Out) { let n = values().len(); for i in 0..n { let a = values().swap_remove(i); let shown = show(&a); let g: B<1> = ::core::convert::Into::into(a); let e = o_into_0(values().swap_remove(i)); out.check(sv(&g) == sv(&e), "into_128", "into", || format!("Into::<B<1>>::into({}) = {} expected {}", shown, sv(&g), sv(&e))); } for i in 0..n { let a = values().swap_remove(i); let shown = show(&a); let g: B<0> = ::core::convert::Into::into(a); let e = o_into_1(values().swap_remove(i)); out.check(sv(&g) == sv(&e), "into_128", "into", || format!("Into::<B<0>>::into({}) = {} expected {}", shown, sv(&g), sv(&e))); } for i in 0..n { let a = values().swap_remove(i); let shown = show(&a); let g: A<1> = ::core::convert::Into::into(a); let e = o_into_2(values().swap_remove(i)); out.check(sv(&g) == sv(&e), "into_128", "into", || format!("Into::<A<1>>::into({}) = {} expected {}", shown, sv(&g), sv(&e))); } }
