// default_104
#![allow(dead_code, unused_variables, unused_mut, unused_imports, non_shorthand_field_patterns, clippy::all)]
use crate::support::*;
use educe::Educe;
use core::cmp::Ordering;
#[derive(Educe)]
#[educe(Default(new))]
pub enum T { Zed, #[educe(Default)] None(#[educe(Default(expr(A(9))))] A<3>), V1 }
pub fn show(x: &T) -> String { #[allow(unused_variables)] match x { T::Zed => format!("Zed()"), T::None(p0) => format!("None({})", sv(p0)), T::V1 => format!("V1()") } }
pub fn o_default() -> T { T::None(A(9)) }
pub fn run(out: &mut Out) { let g = <T as ::core::default::Default>::default(); let e = o_default(); out.check(show(&g) == show(&e), "default_104", "default", || format!("default() = {} expected {}", show(&g), show(&e))); let g = T::new(); let e = o_default(); out.check(show(&g) == show(&e), "default_104", "new", || format!("new() = {} expected {}", show(&g), show(&e))); }
