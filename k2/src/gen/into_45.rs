// into_45
#![allow(dead_code, unused_variables, unused_mut, unused_imports, non_shorthand_field_patterns, clippy::all)]
use crate::support::*;
use educe::Educe;
use core::cmp::Ordering;
#[derive(Educe)]
#[educe(Into(B<0>))]
pub struct T { data: A<3>, #[educe(Into(B<0>))] builder: A<2> }
pub fn values() -> Vec<T> { vec![T { data: A(0), builder: A(0) }, T { data: A(0), builder: A(1) }, T { data: A(0), builder: A(7) }, T { data: A(1), builder: A(0) }, T { data: A(1), builder: A(1) }, T { data: A(1), builder: A(7) }, T { data: A(7), builder: A(0) }, T { data: A(7), builder: A(1) }, T { data: A(7), builder: A(7) }] }
pub fn show(x: &T) -> String { #[allow(unused_variables)] match x { T { data: p0, builder: p1 } => format!("T({},{})", sv(p0), sv(p1)) } }
pub fn o_into_0(x: T) -> B<0> { match x { T { data: _, builder: p1 } => ::core::convert::Into::into(p1) } }
pub fn run(out: &mut Out) { let n = values().len(); for i in 0..n { let a = values().swap_remove(i); let shown = show(&a); let g: B<0> = ::core::convert::Into::into(a); let e = o_into_0(values().swap_remove(i)); out.check(sv(&g) == sv(&e), "into_45", "into", || format!("Into::<B<0>>::into({}) = {} expected {}", shown, sv(&g), sv(&e))); } }
