// default_32
#![allow(dead_code, unused_variables, unused_mut, unused_imports, non_shorthand_field_patterns, clippy::all)]
use crate::support::*;
use educe::Educe;
use core::cmp::Ordering;
#[derive(Educe)]
#[educe(Default(new, expr(T::Zed(0f32))))]
pub enum T { Zed(f32), Some(f64, u64, u8) }
pub fn show(x: &T) -> String { #[allow(unused_variables)] match x { T::Zed(p0) => format!("Zed({})", sv(p0)), T::Some(p0, p1, p2) => format!("Some({},{},{})", sv(p0), sv(p1), sv(p2)) } }
pub fn o_default() -> T { T::Zed(0f32) }
pub fn run(out: &mut Out) { let g = <T as ::core::default::Default>::default(); let e = o_default(); out.check(show(&g) == show(&e), "default_32", "default", || format!("default() = {} expected {}", show(&g), show(&e))); let g = T::new(); let e = o_default(); out.check(show(&g) == show(&e), "default_32", "new", || format!("new() = {} expected {}", show(&g), show(&e))); }
