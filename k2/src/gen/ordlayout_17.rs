// ordlayout_17
#![allow(dead_code, unused_variables, unused_mut, unused_imports, non_shorthand_field_patterns, clippy::all)]
use crate::support::*;
use educe::Educe;
use core::cmp::Ordering;
#[derive(Educe)]
#[educe(PartialOrd, PartialEq, Eq, Ord)]
pub enum T { Unit {  }, V1(#[educe(PartialOrd(rank = "+5"))] ::core::num::NonZeroU8, #[educe(PartialOrd(rank = 2))] bool, #[educe(PartialOrd(rank = 6))] u8), Some(Option<u8>, ()), C }

pub fn values() -> Vec<T> { vec![T::Unit {  }, T::V1(::core::num::NonZeroU8::new(200).unwrap(), true, 100), T::V1(::core::num::NonZeroU8::new(1).unwrap(), true, 0), T::V1(::core::num::NonZeroU8::new(200).unwrap(), false, 100), T::V1(::core::num::NonZeroU8::new(1).unwrap(), false, 200), T::V1(::core::num::NonZeroU8::new(1).unwrap(), false, 0), T::V1(::core::num::NonZeroU8::new(200).unwrap(), false, 0), T::V1(::core::num::NonZeroU8::new(200).unwrap(), true, 0), T::V1(::core::num::NonZeroU8::new(1).unwrap(), false, 100), T::V1(::core::num::NonZeroU8::new(1).unwrap(), true, 100), T::Some(None, ()), T::Some(Some(0), ()), T::Some(Some(255), ()), T::C] }
pub fn show(x: &T) -> String { #[allow(unused_variables)] match x { T::Unit {  } => format!("Unit()"), T::V1(p0, p1, p2) => format!("V1({},{},{})", sv(p0), sv(p1), sv(p2)), T::Some(p0, p1) => format!("Some({},{})", sv(p0), sv(p1)), T::C => format!("C()") } }
pub fn o_disc(x: &T) -> i128 { match x { T::Unit {  } => 0, T::V1(_, _, _) => 1, T::Some(_, _) => 2, T::C => 3 } }
pub fn o_cmp(a: &T, b: &T) -> Ordering { match (a, b) { (T::Unit {  }, T::Unit {  }) => {  Ordering::Equal }, (T::V1(a0, a1, a2), T::V1(b0, b1, b2)) => { let c = ::core::cmp::Ord::cmp(a1, b1); if c != Ordering::Equal { return c; } let c = ::core::cmp::Ord::cmp(a0, b0); if c != Ordering::Equal { return c; } let c = ::core::cmp::Ord::cmp(a2, b2); if c != Ordering::Equal { return c; } Ordering::Equal }, (T::Some(a0, a1), T::Some(b0, b1)) => { let c = ::core::cmp::Ord::cmp(a0, b0); if c != Ordering::Equal { return c; } let c = ::core::cmp::Ord::cmp(a1, b1); if c != Ordering::Equal { return c; } Ordering::Equal }, (T::C, T::C) => {  Ordering::Equal }, _ => o_disc(a).cmp(&o_disc(b)) } }
#[repr(C)] pub struct Wrap { pub pre: u8, pub x: T, pub post: [u8; 9] }
pub fn wrap(i: usize, n: u8) -> Wrap { Wrap { pre: n, x: values().swap_remove(i), post: [n; 9] } }
pub fn run(out: &mut Out) { let vs = values(); for (i, a) in vs.iter().enumerate() { for (j, b) in vs.iter().enumerate() { let e = o_cmp(a, b); let g = ::core::cmp::Ord::cmp(a, b); out.check(g == e, "ordlayout_17", "cmp", || format!("cmp({}, {}) = {:?} expected {:?}", show(a), show(b), g, e)); let g2 = ::core::cmp::PartialOrd::partial_cmp(a, b); out.check(g2 == Some(e), "ordlayout_17", "partial_is_some_cmp", || format!("partial_cmp({}, {}) = {:?} expected Some({:?})", show(a), show(b), g2, e)); for n in [0u8, 1, 0x7f, 0x80, 0xff] { let wa = wrap(i, n); let wb = wrap(j, !n); let g = ::core::cmp::Ord::cmp(&wa.x, &wb.x); let e = o_cmp(a, b); out.check(g == e, "ordlayout_17", "cmp_neighbours", || format!("cmp({}, {}) with neighbour bytes {} = {:?} expected {:?}", show(a), show(b), n, g, e)); } } } }
