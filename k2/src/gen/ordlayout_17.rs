// ordlayout_17
#![allow(dead_code, unused_variables, unused_mut, unused_imports, non_shorthand_field_patterns, clippy::all)]
use crate::support::*;
use core::cmp::Ordering;
pub mod ty {
    #![deny(warnings)]
    #![allow(dead_code, unused_imports, non_snake_case)]
    use crate::support::{A, B, C, Good, Bad, m_eq, m_cmp, m_pcmp, m_hash, m_fmt, m_clone, m_clone_c, m_into, g_eq, g_cmp, g_pcmp, g_hash, g_fmt};
    use educe::Educe;
#[derive(Educe)]
#[repr(u64)]
#[educe(PartialOrd, PartialEq, Eq)]
#[educe(Debug)]
pub enum T { Some(bool, #[educe(Debug(ignore = false), PartialOrd(rank = -5))] char) = 9223372036854775807, None() = 1, B(#[educe(PartialOrd(rank = 6, ignore(false)))] u8, &'static u8), V1 = 5 }
}
pub use ty::T;

pub fn values() -> Vec<T> { vec![T::Some(false, 'a'), T::Some(false, 'z'), T::Some(true, 'a'), T::Some(true, 'z'), T::None(), T::B(0, &3u8), T::B(0, &200u8), T::B(100, &3u8), T::B(100, &200u8), T::B(200, &3u8), T::B(200, &200u8), T::V1] }
pub fn show(x: &T) -> String { #[allow(unused_variables)] match x { T::Some(p0, p1) => format!("Some({},{})", sv(p0), sv(p1)), T::None() => format!("None()"), T::B(p0, p1) => format!("B({},{})", sv(p0), sv(p1)), T::V1 => format!("V1()") } }
pub fn o_disc(x: &T) -> i128 { match x { T::Some(_, _) => 9223372036854775807, T::None() => 1, T::B(_, _) => 2, T::V1 => 5 } }
pub fn o_pcmp(a: &T, b: &T) -> Option<Ordering> { match (a, b) { (T::Some(a0, a1), T::Some(b0, b1)) => { match ::core::cmp::PartialOrd::partial_cmp(a0, b0) { Some(Ordering::Equal) => (), x => return x } match ::core::cmp::PartialOrd::partial_cmp(a1, b1) { Some(Ordering::Equal) => (), x => return x } Some(Ordering::Equal) }, (T::None(), T::None()) => {  Some(Ordering::Equal) }, (T::B(a0, a1), T::B(b0, b1)) => { match ::core::cmp::PartialOrd::partial_cmp(a1, b1) { Some(Ordering::Equal) => (), x => return x } match ::core::cmp::PartialOrd::partial_cmp(a0, b0) { Some(Ordering::Equal) => (), x => return x } Some(Ordering::Equal) }, (T::V1, T::V1) => {  Some(Ordering::Equal) }, _ => Some(o_disc(a).cmp(&o_disc(b))) } }
#[repr(C)] pub struct Wrap { pub pre: u8, pub x: T, pub post: [u8; 9] }
pub fn wrap(i: usize, n: u8) -> Wrap { Wrap { pre: n, x: values().swap_remove(i), post: [n; 9] } }
pub fn run(out: &mut Out) { let vs = values(); for (i, a) in vs.iter().enumerate() { for (j, b) in vs.iter().enumerate() { let e = o_pcmp(a, b); let g = ::core::cmp::PartialOrd::partial_cmp(a, b); out.check(g == e, "ordlayout_17", "partial_cmp", || format!("partial_cmp({}, {}) = {:?} expected {:?}", show(a), show(b), g, e)); for n in [0u8, 1, 0x7f, 0x80, 0xff] { let wa = wrap(i, n); let wb = wrap(j, !n); let g = ::core::cmp::PartialOrd::partial_cmp(&wa.x, &wb.x); let e = o_pcmp(a, b); out.check(g == e, "ordlayout_17", "cmp_neighbours", || format!("cmp({}, {}) with neighbour bytes {} = {:?} expected {:?}", show(a), show(b), n, g, e)); } } } }
