// hash_32
#![allow(dead_code, unused_variables, unused_mut, unused_imports, non_shorthand_field_patterns, clippy::all)]
use crate::support::*;
use educe::Educe;
use core::cmp::Ordering;
#[derive(Educe)]
#[educe(Hash)]
pub enum T { None { #[educe(Hash(ignore))] state: A<0> }, Some(A<0>, #[educe(Hash(method = m_hash))] A<1>), A { state: A<0>, #[educe(Hash(method("m_hash")))] f: A<0> } }
pub fn values() -> Vec<T> { vec![T::None { state: A(0) }, T::None { state: A(1) }, T::None { state: A(7) }, T::Some(A(0), A(0)), T::Some(A(0), A(1)), T::Some(A(0), A(7)), T::Some(A(1), A(0)), T::Some(A(1), A(1)), T::Some(A(1), A(7)), T::Some(A(7), A(0)), T::Some(A(7), A(1)), T::Some(A(7), A(7)), T::A { state: A(0), f: A(0) }, T::A { state: A(0), f: A(1) }, T::A { state: A(0), f: A(7) }, T::A { state: A(1), f: A(0) }, T::A { state: A(1), f: A(1) }, T::A { state: A(1), f: A(7) }, T::A { state: A(7), f: A(0) }, T::A { state: A(7), f: A(1) }, T::A { state: A(7), f: A(7) }] }
pub fn show(x: &T) -> String { #[allow(unused_variables)] match x { T::None { state: p0 } => format!("None({})", sv(p0)), T::Some(p0, p1) => format!("Some({},{})", sv(p0), sv(p1)), T::A { state: p0, f: p1 } => format!("A({},{})", sv(p0), sv(p1)) } }
pub fn o_hash(x: &T) -> Vec<String> { let mut e = Rec::default(); match x { T::None { state: p0 } => { ::core::hash::Hash::hash(&0usize, &mut e); }, T::Some(p0, p1) => { ::core::hash::Hash::hash(&1usize, &mut e); ::core::hash::Hash::hash(p0, &mut e); m_hash(p1, &mut e); }, T::A { state: p0, f: p1 } => { ::core::hash::Hash::hash(&2usize, &mut e); ::core::hash::Hash::hash(p0, &mut e); m_hash(p1, &mut e); } } e.0 }
pub fn run(out: &mut Out) { let vs = values(); for a in &vs { let mut g = Rec::default(); ::core::hash::Hash::hash(a, &mut g); let e = o_hash(a); out.check(g.0 == e, "hash_32", "hash", || format!("hash({}) fed {:?} expected {:?}", show(a), g.0, e)); } }
