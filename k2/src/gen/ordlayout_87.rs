// ordlayout_87
#![allow(dead_code, unused_variables, unused_mut, unused_imports, non_shorthand_field_patterns, clippy::all)]
use crate::support::*;
use educe::Educe;
use core::cmp::Ordering;
#[derive(Educe)]
#[repr(isize)]
#[educe(Eq, PartialEq, PartialOrd)]
pub enum T { Unit(#[educe(PartialOrd(rank = "-3"))] Option<u8>, bool) = 2, A { #[educe(PartialOrd(rank = 2))] r#type: bool, c: bool } = 0, V1(&'static u8) = 127 }

pub fn values() -> Vec<T> { vec![T::Unit(None, false), T::Unit(None, true), T::Unit(Some(0), false), T::Unit(Some(0), true), T::Unit(Some(255), false), T::Unit(Some(255), true), T::A { r#type: false, c: false }, T::A { r#type: false, c: true }, T::A { r#type: true, c: false }, T::A { r#type: true, c: true }, T::V1(&3u8), T::V1(&200u8)] }
pub fn show(x: &T) -> String { #[allow(unused_variables)] match x { T::Unit(p0, p1) => format!("Unit({},{})", sv(p0), sv(p1)), T::A { r#type: p0, c: p1 } => format!("A({},{})", sv(p0), sv(p1)), T::V1(p0) => format!("V1({})", sv(p0)) } }
pub fn o_disc(x: &T) -> i128 { match x { T::Unit(_, _) => 2, T::A { r#type: _, c: _ } => 0, T::V1(_) => 127 } }
pub fn o_pcmp(a: &T, b: &T) -> Option<Ordering> { match (a, b) { (T::Unit(a0, a1), T::Unit(b0, b1)) => { match ::core::cmp::PartialOrd::partial_cmp(a1, b1) { Some(Ordering::Equal) => (), x => return x } match ::core::cmp::PartialOrd::partial_cmp(a0, b0) { Some(Ordering::Equal) => (), x => return x } Some(Ordering::Equal) }, (T::A { r#type: a0, c: a1 }, T::A { r#type: b0, c: b1 }) => { match ::core::cmp::PartialOrd::partial_cmp(a1, b1) { Some(Ordering::Equal) => (), x => return x } match ::core::cmp::PartialOrd::partial_cmp(a0, b0) { Some(Ordering::Equal) => (), x => return x } Some(Ordering::Equal) }, (T::V1(a0), T::V1(b0)) => { match ::core::cmp::PartialOrd::partial_cmp(a0, b0) { Some(Ordering::Equal) => (), x => return x } Some(Ordering::Equal) }, _ => Some(o_disc(a).cmp(&o_disc(b))) } }
#[repr(C)] pub struct Wrap { pub pre: u8, pub x: T, pub post: [u8; 9] }
pub fn wrap(i: usize, n: u8) -> Wrap { Wrap { pre: n, x: values().swap_remove(i), post: [n; 9] } }
pub fn run(out: &mut Out) { let vs = values(); for (i, a) in vs.iter().enumerate() { for (j, b) in vs.iter().enumerate() { let e = o_pcmp(a, b); let g = ::core::cmp::PartialOrd::partial_cmp(a, b); out.check(g == e, "ordlayout_87", "partial_cmp", || format!("partial_cmp({}, {}) = {:?} expected {:?}", show(a), show(b), g, e)); for n in [0u8, 1, 0x7f, 0x80, 0xff] { let wa = wrap(i, n); let wb = wrap(j, !n); let g = ::core::cmp::PartialOrd::partial_cmp(&wa.x, &wb.x); let e = o_pcmp(a, b); out.check(g == e, "ordlayout_87", "cmp_neighbours", || format!("cmp({}, {}) with neighbour bytes {} = {:?} expected {:?}", show(a), show(b), n, g, e)); } } } }
