// ord_35
#![allow(dead_code, unused_variables, unused_mut, unused_imports, non_shorthand_field_patterns, clippy::all)]
use crate::support::*;
use educe::Educe;
use core::cmp::Ordering;
#[derive(Educe)]
#[educe(Ord, Eq, PartialEq)]
pub enum T { None, A { #[educe(Ord(rank = 0x2))] c: A<0>, #[educe(Ord(method = m_cmp))] _0: A<1> } }
impl PartialOrd for T { fn partial_cmp(&self, o: &Self) -> Option<Ordering> { Some(::core::cmp::Ord::cmp(self, o)) } }
pub fn values() -> Vec<T> { vec![T::None, T::A { c: A(0), _0: A(0) }, T::A { c: A(0), _0: A(1) }, T::A { c: A(0), _0: A(7) }, T::A { c: A(1), _0: A(0) }, T::A { c: A(1), _0: A(1) }, T::A { c: A(1), _0: A(7) }, T::A { c: A(7), _0: A(0) }, T::A { c: A(7), _0: A(1) }, T::A { c: A(7), _0: A(7) }] }
pub fn show(x: &T) -> String { #[allow(unused_variables)] match x { T::None => format!("None()"), T::A { c: p0, _0: p1 } => format!("A({},{})", sv(p0), sv(p1)) } }
pub fn o_disc(x: &T) -> i128 { match x { T::None => 0, T::A { c: _, _0: _ } => 1 } }
pub fn o_cmp(a: &T, b: &T) -> Ordering { match (a, b) { (T::None, T::None) => {  Ordering::Equal }, (T::A { c: a0, _0: a1 }, T::A { c: b0, _0: b1 }) => { let c = m_cmp(a1, b1); if c != Ordering::Equal { return c; } let c = ::core::cmp::Ord::cmp(a0, b0); if c != Ordering::Equal { return c; } Ordering::Equal }, _ => o_disc(a).cmp(&o_disc(b)) } }
pub fn run(out: &mut Out) { let vs = values(); for (i, a) in vs.iter().enumerate() { for (j, b) in vs.iter().enumerate() { let e = o_cmp(a, b); let g = ::core::cmp::Ord::cmp(a, b); out.check(g == e, "ord_35", "cmp", || format!("cmp({}, {}) = {:?} expected {:?}", show(a), show(b), g, e)); } } }
