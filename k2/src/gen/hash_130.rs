// hash_130
#![allow(dead_code, unused_variables, unused_mut, unused_imports, non_shorthand_field_patterns, clippy::all)]
use crate::support::*;
use educe::Educe;
use core::cmp::Ordering;
#[derive(Educe)]
#[educe(Hash)]
pub enum T { C(A<0>, A<1>, #[educe(Hash(method(m_hash)))] A<0>), Unit(A<0>, A<1>) }
pub fn values() -> Vec<T> { vec![T::C(A(1), A(0), A(7)), T::C(A(7), A(7), A(1)), T::C(A(0), A(0), A(7)), T::C(A(7), A(7), A(0)), T::C(A(7), A(0), A(7)), T::C(A(0), A(1), A(7)), T::C(A(1), A(7), A(0)), T::C(A(7), A(1), A(0)), T::C(A(0), A(7), A(0)), T::C(A(0), A(1), A(1)), T::C(A(7), A(0), A(1)), T::C(A(1), A(0), A(0)), T::C(A(1), A(0), A(1)), T::C(A(0), A(7), A(1)), T::C(A(1), A(1), A(0)), T::C(A(7), A(7), A(7)), T::C(A(1), A(7), A(1)), T::C(A(0), A(0), A(1)), T::C(A(7), A(0), A(0)), T::C(A(1), A(1), A(7)), T::C(A(0), A(0), A(0)), T::C(A(1), A(7), A(7)), T::C(A(1), A(1), A(1)), T::C(A(0), A(7), A(7)), T::Unit(A(0), A(0)), T::Unit(A(0), A(1)), T::Unit(A(0), A(7)), T::Unit(A(1), A(0)), T::Unit(A(1), A(1)), T::Unit(A(1), A(7)), T::Unit(A(7), A(0)), T::Unit(A(7), A(1)), T::Unit(A(7), A(7))] }
pub fn show(x: &T) -> String { #[allow(unused_variables)] match x { T::C(p0, p1, p2) => format!("C({},{},{})", sv(p0), sv(p1), sv(p2)), T::Unit(p0, p1) => format!("Unit({},{})", sv(p0), sv(p1)) } }
pub fn o_hash(x: &T) -> Vec<String> { let mut e = Rec::default(); match x { T::C(p0, p1, p2) => { ::core::hash::Hash::hash(&0usize, &mut e); ::core::hash::Hash::hash(p0, &mut e); ::core::hash::Hash::hash(p1, &mut e); m_hash(p2, &mut e); }, T::Unit(p0, p1) => { ::core::hash::Hash::hash(&1usize, &mut e); ::core::hash::Hash::hash(p0, &mut e); ::core::hash::Hash::hash(p1, &mut e); } } e.0 }
pub fn run(out: &mut Out) { let vs = values(); for a in &vs { let mut g = Rec::default(); ::core::hash::Hash::hash(a, &mut g); let e = o_hash(a); out.check(g.0 == e, "hash_130", "hash", || format!("hash({}) fed {:?} expected {:?}", show(a), g.0, e)); } }
