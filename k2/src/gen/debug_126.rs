// debug_126
#![allow(dead_code, unused_variables, unused_mut, unused_imports, non_shorthand_field_patterns, clippy::all)]
use crate::support::*;
use educe::Educe;
use core::cmp::Ordering;
#[derive(Educe)]
#[educe(Debug)]
pub enum T { Unit(#[educe(Debug(ignore = true))] A<0>, A<0>, A<2>), Zed, A { c: A<0>, a: A<1>, source: A<2>, #[educe(Debug(name = "k3"))] y: A<3> } }
pub fn values() -> Vec<T> { vec![T::Unit(A(1), A(0), A(7)), T::Unit(A(0), A(1), A(0)), T::Unit(A(1), A(7), A(1)), T::Unit(A(7), A(7), A(1)), T::Unit(A(7), A(7), A(0)), T::Unit(A(0), A(7), A(7)), T::Unit(A(0), A(1), A(7)), T::Unit(A(7), A(0), A(1)), T::Zed, T::A { c: A(7), a: A(0), source: A(1), y: A(0) }, T::A { c: A(7), a: A(0), source: A(0), y: A(7) }, T::A { c: A(1), a: A(0), source: A(7), y: A(0) }, T::A { c: A(0), a: A(0), source: A(7), y: A(0) }, T::A { c: A(1), a: A(0), source: A(7), y: A(1) }, T::A { c: A(1), a: A(1), source: A(1), y: A(1) }, T::A { c: A(7), a: A(0), source: A(7), y: A(1) }, T::A { c: A(0), a: A(0), source: A(1), y: A(0) }] }
pub fn show(x: &T) -> String { #[allow(unused_variables)] match x { T::Unit(p0, p1, p2) => format!("Unit({},{},{})", sv(p0), sv(p1), sv(p2)), T::Zed => format!("Zed()"), T::A { c: p0, a: p1, source: p2, y: p3 } => format!("A({},{},{},{})", sv(p0), sv(p1), sv(p2), sv(p3)) } }
pub fn o_fmt(x: &T, f: &mut ::core::fmt::Formatter<'_>) -> ::core::fmt::Result { match x { T::Unit(p0, p1, p2) => f.debug_tuple("Unit").field(p1).field(p2).finish(), T::Zed => f.write_str("Zed"), T::A { c: p0, a: p1, source: p2, y: p3 } => f.debug_struct("A").field("c", p0).field("a", p1).field("source", p2).field("k3", p3).finish() } }

pub fn run(out: &mut Out) { let vs = values(); for a in &vs { let g = format!("{:?}", a); let e = format!("{:?}", Fm(|f: &mut ::core::fmt::Formatter<'_>| o_fmt(a, f))); out.check(g == e, "debug_126", "debug", || format!("{{:?}} of {} = {:?} expected {:?}", show(a), g, e)); let g = format!("{:#?}", a); let e = format!("{:#?}", Fm(|f: &mut ::core::fmt::Formatter<'_>| o_fmt(a, f))); out.check(g == e, "debug_126", "debug_alt", || format!("{{:#?}} of {} = {:?} expected {:?}", show(a), g, e)); let g = format!("{:8?}", a); let e = format!("{:8?}", Fm(|f: &mut ::core::fmt::Formatter<'_>| o_fmt(a, f))); out.check(g == e, "debug_126", "debug_width", || format!("{{:8?}} of {} = {:?} expected {:?}", show(a), g, e)); }  }
