// default_42
#![allow(dead_code, unused_variables, unused_mut, unused_imports, non_shorthand_field_patterns, clippy::all)]
use crate::support::*;
use educe::Educe;
use core::cmp::Ordering;
#[derive(Educe)]
#[educe(Default(new = true))]
pub enum T { C { #[educe(Default = 'x')] x: char, #[educe(Default(expr = A(9)))] f: A<3>, r#type: i64 } }
pub fn show(x: &T) -> String { #[allow(unused_variables)] match x { T::C { x: p0, f: p1, r#type: p2 } => format!("C({},{},{})", sv(p0), sv(p1), sv(p2)) } }
pub fn o_default() -> T { T::C { x: 'x', f: A(9), r#type: 0i64 } }
pub fn run(out: &mut Out) { let g = <T as ::core::default::Default>::default(); let e = o_default(); out.check(show(&g) == show(&e), "default_42", "default", || format!("default() = {} expected {}", show(&g), show(&e))); let g = T::new(); let e = o_default(); out.check(show(&g) == show(&e), "default_42", "new", || format!("new() = {} expected {}", show(&g), show(&e))); }
