// default_96
#![allow(dead_code, unused_variables, unused_mut, unused_imports, non_shorthand_field_patterns, clippy::all)]
use crate::support::*;
use educe::Educe;
use core::cmp::Ordering;
#[derive(Educe)]
#[educe(Default)]
pub enum T { C(i64, Option<u8>), Some { b: i128, a: f64 }, #[educe(Default)] B {  } }
pub fn show(x: &T) -> String { #[allow(unused_variables)] match x { T::C(p0, p1) => format!("C({},{})", sv(p0), sv(p1)), T::Some { b: p0, a: p1 } => format!("Some({},{})", sv(p0), sv(p1)), T::B {  } => format!("B()") } }
pub fn o_default() -> T { T::B {  } }
pub fn run(out: &mut Out) { let g = <T as ::core::default::Default>::default(); let e = o_default(); out.check(show(&g) == show(&e), "default_96", "default", || format!("default() = {} expected {}", show(&g), show(&e))); }
