// eq_87
#![allow(dead_code, unused_variables, unused_mut, unused_imports, non_shorthand_field_patterns, clippy::all)]
use crate::support::*;
use educe::Educe;
use core::cmp::Ordering;
#[derive(Educe)]
#[educe(PartialEq)]
#[educe(Eq)]
pub enum T { V1 { arg: A<0> }, C(#[educe(PartialEq = false)] A<0>, A<1>, #[educe(Eq(method = "m_eq"))] A<2>), Unit { data: A<0>, _0: A<0> } }
pub fn values() -> Vec<T> { vec![T::V1 { arg: A(0) }, T::V1 { arg: A(1) }, T::V1 { arg: A(7) }, T::C(A(0), A(0), A(7)), T::C(A(0), A(1), A(7)), T::C(A(7), A(0), A(1)), T::C(A(1), A(0), A(1)), T::C(A(0), A(7), A(7)), T::C(A(7), A(7), A(1)), T::C(A(7), A(0), A(7)), T::C(A(7), A(0), A(0)), T::C(A(7), A(7), A(0)), T::C(A(1), A(7), A(0)), T::C(A(1), A(7), A(7)), T::C(A(7), A(1), A(0)), T::C(A(0), A(1), A(1)), T::C(A(1), A(7), A(1)), T::C(A(0), A(1), A(0)), T::C(A(0), A(0), A(0)), T::Unit { data: A(0), _0: A(0) }, T::Unit { data: A(0), _0: A(1) }, T::Unit { data: A(0), _0: A(7) }, T::Unit { data: A(1), _0: A(0) }, T::Unit { data: A(1), _0: A(1) }, T::Unit { data: A(1), _0: A(7) }, T::Unit { data: A(7), _0: A(0) }, T::Unit { data: A(7), _0: A(1) }, T::Unit { data: A(7), _0: A(7) }] }
pub fn show(x: &T) -> String { #[allow(unused_variables)] match x { T::V1 { arg: p0 } => format!("V1({})", sv(p0)), T::C(p0, p1, p2) => format!("C({},{},{})", sv(p0), sv(p1), sv(p2)), T::Unit { data: p0, _0: p1 } => format!("Unit({},{})", sv(p0), sv(p1)) } }
pub fn o_eq(a: &T, b: &T) -> bool { match (a, b) { (T::V1 { arg: a0 }, T::V1 { arg: b0 }) => (a0 == b0), (T::C(a0, a1, a2), T::C(b0, b1, b2)) => (a1 == b1) && m_eq(a2, b2), (T::Unit { data: a0, _0: a1 }, T::Unit { data: b0, _0: b1 }) => (a0 == b0) && (a1 == b1), _ => false } }
pub fn run(out: &mut Out) { let vs = values(); for a in &vs { for b in &vs { let e = o_eq(a, b); out.check((a == b) == e, "eq_87", "eq", || format!("{} == {} expected {}", show(a), show(b), e)); out.check((a != b) == !e, "eq_87", "ne", || format!("{} != {} expected {}", show(a), show(b), !e)); } } }
