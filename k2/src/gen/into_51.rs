// into_51
#![allow(dead_code, unused_variables, unused_mut, unused_imports, non_shorthand_field_patterns, clippy::all)]
use crate::support::*;
use educe::Educe;
use core::cmp::Ordering;
#[derive(Educe)]
#[educe(Into(B<2>), Into(A<1>))]
pub enum T { V1 { #[educe(Into(B<2>))] r#type: A<3>, x: A<1> }, Some { #[educe(Into(A<1>))] b: A<1> }, A(#[educe(Into(B<2>))] A<1>) }
pub fn values() -> Vec<T> { vec![T::V1 { r#type: A(7), x: A(0) }, T::V1 { r#type: A(7), x: A(7) }, T::V1 { r#type: A(1), x: A(7) }, T::V1 { r#type: A(7), x: A(1) }, T::Some { b: A(0) }, T::Some { b: A(1) }, T::Some { b: A(7) }, T::A(A(0)), T::A(A(1)), T::A(A(7))] }
pub fn show(x: &T) -> String { #[allow(unused_variables)] match x { T::V1 { r#type: p0, x: p1 } => format!("V1({},{})", sv(p0), sv(p1)), T::Some { b: p0 } => format!("Some({})", sv(p0)), T::A(p0) => format!("A({})", sv(p0)) } }
pub fn o_into_0(x: T) -> B<2> { match x { T::V1 { r#type: p0, x: _ } => ::core::convert::Into::into(p0), T::Some { b: p0 } => ::core::convert::Into::into(p0), T::A(p0) => ::core::convert::Into::into(p0) } }
pub fn o_into_1(x: T) -> A<1> { match x { T::V1 { r#type: _, x: p1 } => p1, T::Some { b: p0 } => p0, T::A(p0) => p0 } }
pub fn run(out: &mut Out) { let n = values().len(); for i in 0..n { let a = values().swap_remove(i); let shown = show(&a); let g: B<2> = ::core::convert::Into::into(a); let e = o_into_0(values().swap_remove(i)); out.check(sv(&g) == sv(&e), "into_51", "into", || format!("Into::<B<2>>::into({}) = {} expected {}", shown, sv(&g), sv(&e))); } for i in 0..n { let a = values().swap_remove(i); let shown = show(&a); let g: A<1> = ::core::convert::Into::into(a); let e = o_into_1(values().swap_remove(i)); out.check(sv(&g) == sv(&e), "into_51", "into", || format!("Into::<A<1>>::into({}) = {} expected {}", shown, sv(&g), sv(&e))); } }
