// ord_71
#![allow(dead_code, unused_variables, unused_mut, unused_imports, non_shorthand_field_patterns, clippy::all)]
use crate::support::*;
use core::cmp::Ordering;
pub mod ty {
    #![deny(warnings)]
    #![allow(dead_code, unused_imports, non_snake_case)]
    use crate::support::{A, B, C, Good, Bad, m_eq, m_cmp, m_pcmp, m_hash, m_fmt, m_clone, m_clone_c, m_into, g_eq, g_cmp, g_pcmp, g_hash, g_fmt};
    use educe::Educe;
#[derive(Educe)]
#[educe(Ord, Eq, PartialEq)]
pub struct T { pub data: A<0>, #[educe(Ord(method = m_cmp))] pub _data: A<1>, #[educe(Ord(rank = 1))] pub other: A<2> }
}
pub use ty::T;
impl PartialOrd for T { fn partial_cmp(&self, o: &Self) -> Option<Ordering> { Some(::core::cmp::Ord::cmp(self, o)) } }
pub fn values() -> Vec<T> { vec![T { data: A(0), _data: A(0), other: A(0) }, T { data: A(0), _data: A(0), other: A(1) }, T { data: A(0), _data: A(0), other: A(7) }, T { data: A(0), _data: A(1), other: A(0) }, T { data: A(0), _data: A(1), other: A(1) }, T { data: A(0), _data: A(1), other: A(7) }, T { data: A(0), _data: A(7), other: A(0) }, T { data: A(0), _data: A(7), other: A(1) }, T { data: A(0), _data: A(7), other: A(7) }, T { data: A(1), _data: A(0), other: A(0) }, T { data: A(1), _data: A(0), other: A(1) }, T { data: A(1), _data: A(0), other: A(7) }, T { data: A(1), _data: A(1), other: A(0) }, T { data: A(1), _data: A(1), other: A(1) }, T { data: A(1), _data: A(1), other: A(7) }, T { data: A(1), _data: A(7), other: A(0) }, T { data: A(1), _data: A(7), other: A(1) }, T { data: A(1), _data: A(7), other: A(7) }, T { data: A(7), _data: A(0), other: A(0) }, T { data: A(7), _data: A(0), other: A(1) }, T { data: A(7), _data: A(0), other: A(7) }, T { data: A(7), _data: A(1), other: A(0) }, T { data: A(7), _data: A(1), other: A(1) }, T { data: A(7), _data: A(1), other: A(7) }, T { data: A(7), _data: A(7), other: A(0) }, T { data: A(7), _data: A(7), other: A(1) }, T { data: A(7), _data: A(7), other: A(7) }] }
pub fn show(x: &T) -> String { #[allow(unused_variables)] match x { T { data: p0, _data: p1, other: p2 } => format!("T({},{},{})", sv(p0), sv(p1), sv(p2)) } }
pub fn o_disc(x: &T) -> i128 { match x { T { data: _, _data: _, other: _ } => 0 } }
pub fn o_cmp(a: &T, b: &T) -> Ordering { match (a, b) { (T { data: a0, _data: a1, other: a2 }, T { data: b0, _data: b1, other: b2 }) => { let c = ::core::cmp::Ord::cmp(a0, b0); if c != Ordering::Equal { return c; } let c = m_cmp(a1, b1); if c != Ordering::Equal { return c; } let c = ::core::cmp::Ord::cmp(a2, b2); if c != Ordering::Equal { return c; } Ordering::Equal } } }
pub fn run(out: &mut Out) { let vs = values(); for (i, a) in vs.iter().enumerate() { for (j, b) in vs.iter().enumerate() { let e = o_cmp(a, b); let g = ::core::cmp::Ord::cmp(a, b); out.check(g == e, "ord_71", "cmp", || format!("cmp({}, {}) = {:?} expected {:?}", show(a), show(b), g, e)); } } }
