// ordlayout_146
#![allow(dead_code, unused_variables, unused_mut, unused_imports, non_shorthand_field_patterns, clippy::all)]
use crate::support::*;
use educe::Educe;
use core::cmp::Ordering;
#[derive(Educe)]
#[repr(i32)]
#[educe(Eq, PartialEq, PartialOrd)]
pub enum T { Unit { arg: Option<u8>, #[educe(PartialOrd(rank(2)))] size: &'static u8, #[educe(PartialOrd(rank = "3"))] r#type: u8 } = 100, B }

pub fn values() -> Vec<T> { vec![T::Unit { arg: None, size: &3u8, r#type: 0 }, T::Unit { arg: None, size: &3u8, r#type: 100 }, T::Unit { arg: None, size: &3u8, r#type: 200 }, T::Unit { arg: None, size: &200u8, r#type: 0 }, T::Unit { arg: None, size: &200u8, r#type: 100 }, T::Unit { arg: None, size: &200u8, r#type: 200 }, T::Unit { arg: Some(0), size: &3u8, r#type: 0 }, T::Unit { arg: Some(0), size: &3u8, r#type: 100 }, T::Unit { arg: Some(0), size: &3u8, r#type: 200 }, T::Unit { arg: Some(0), size: &200u8, r#type: 0 }, T::Unit { arg: Some(0), size: &200u8, r#type: 100 }, T::Unit { arg: Some(0), size: &200u8, r#type: 200 }, T::Unit { arg: Some(255), size: &3u8, r#type: 0 }, T::Unit { arg: Some(255), size: &3u8, r#type: 100 }, T::Unit { arg: Some(255), size: &3u8, r#type: 200 }, T::Unit { arg: Some(255), size: &200u8, r#type: 0 }, T::Unit { arg: Some(255), size: &200u8, r#type: 100 }, T::Unit { arg: Some(255), size: &200u8, r#type: 200 }, T::B] }
pub fn show(x: &T) -> String { #[allow(unused_variables)] match x { T::Unit { arg: p0, size: p1, r#type: p2 } => format!("Unit({},{},{})", sv(p0), sv(p1), sv(p2)), T::B => format!("B()") } }
pub fn o_disc(x: &T) -> i128 { match x { T::Unit { arg: _, size: _, r#type: _ } => 100, T::B => 101 } }
pub fn o_pcmp(a: &T, b: &T) -> Option<Ordering> { match (a, b) { (T::Unit { arg: a0, size: a1, r#type: a2 }, T::Unit { arg: b0, size: b1, r#type: b2 }) => { match ::core::cmp::PartialOrd::partial_cmp(a0, b0) { Some(Ordering::Equal) => (), x => return x } match ::core::cmp::PartialOrd::partial_cmp(a1, b1) { Some(Ordering::Equal) => (), x => return x } match ::core::cmp::PartialOrd::partial_cmp(a2, b2) { Some(Ordering::Equal) => (), x => return x } Some(Ordering::Equal) }, (T::B, T::B) => {  Some(Ordering::Equal) }, _ => Some(o_disc(a).cmp(&o_disc(b))) } }
#[repr(C)] pub struct Wrap { pub pre: u8, pub x: T, pub post: [u8; 9] }
pub fn wrap(i: usize, n: u8) -> Wrap { Wrap { pre: n, x: values().swap_remove(i), post: [n; 9] } }
pub fn run(out: &mut Out) { let vs = values(); for (i, a) in vs.iter().enumerate() { for (j, b) in vs.iter().enumerate() { let e = o_pcmp(a, b); let g = ::core::cmp::PartialOrd::partial_cmp(a, b); out.check(g == e, "ordlayout_146", "partial_cmp", || format!("partial_cmp({}, {}) = {:?} expected {:?}", show(a), show(b), g, e)); for n in [0u8, 1, 0x7f, 0x80, 0xff] { let wa = wrap(i, n); let wb = wrap(j, !n); let g = ::core::cmp::PartialOrd::partial_cmp(&wa.x, &wb.x); let e = o_pcmp(a, b); out.check(g == e, "ordlayout_146", "cmp_neighbours", || format!("cmp({}, {}) with neighbour bytes {} = {:?} expected {:?}", show(a), show(b), n, g, e)); } } } }
