// default_138
#![allow(dead_code, unused_variables, unused_mut, unused_imports, non_shorthand_field_patterns, clippy::all)]
use crate::support::*;
use educe::Educe;
use core::cmp::Ordering;
#[derive(Educe)]
#[educe(Default(new = true))]
pub enum T { A {  }, Some(bool, A<0>, char, u16), #[educe(Default)] None { #[educe(Default(expression(b'a')))] other: u8 }, V1(&'static str, A<3>, f32) }
pub fn show(x: &T) -> String { #[allow(unused_variables)] match x { T::A {  } => format!("A()"), T::Some(p0, p1, p2, p3) => format!("Some({},{},{},{})", sv(p0), sv(p1), sv(p2), sv(p3)), T::None { other: p0 } => format!("None({})", sv(p0)), T::V1(p0, p1, p2) => format!("V1({},{},{})", sv(p0), sv(p1), sv(p2)) } }
pub fn o_default() -> T { T::None { other: b'a' } }
pub fn run(out: &mut Out) { let g = <T as ::core::default::Default>::default(); let e = o_default(); out.check(show(&g) == show(&e), "default_138", "default", || format!("default() = {} expected {}", show(&g), show(&e))); let g = T::new(); let e = o_default(); out.check(show(&g) == show(&e), "default_138", "new", || format!("new() = {} expected {}", show(&g), show(&e))); }
