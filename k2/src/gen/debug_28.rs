// debug_28
#![allow(dead_code, unused_variables, unused_mut, unused_imports, non_shorthand_field_patterns, clippy::all)]
use crate::support::*;
use educe::Educe;
use core::cmp::Ordering;
#[derive(Educe)]
#[educe(Debug)]
pub enum T { A, #[educe(Debug(named_field(true)))] Some(#[educe(Debug(method = m_fmt))] A<0>), #[educe(Debug(named_field = false))] C { a: A<0>, #[educe(Debug(ignore))] data: A<1>, state: A<0> } }
pub fn values() -> Vec<T> { vec![T::A, T::Some(A(0)), T::Some(A(1)), T::Some(A(7)), T::C { a: A(0), data: A(1), state: A(7) }, T::C { a: A(0), data: A(7), state: A(1) }, T::C { a: A(7), data: A(7), state: A(7) }, T::C { a: A(0), data: A(7), state: A(7) }, T::C { a: A(1), data: A(0), state: A(1) }, T::C { a: A(0), data: A(0), state: A(1) }, T::C { a: A(7), data: A(1), state: A(7) }, T::C { a: A(1), data: A(7), state: A(1) }] }
pub fn show(x: &T) -> String { #[allow(unused_variables)] match x { T::A => format!("A()"), T::Some(p0) => format!("Some({})", sv(p0)), T::C { a: p0, data: p1, state: p2 } => format!("C({},{},{})", sv(p0), sv(p1), sv(p2)) } }
pub fn o_fmt(x: &T, f: &mut ::core::fmt::Formatter<'_>) -> ::core::fmt::Result { match x { T::A => f.write_str("A"), T::Some(p0) => f.debug_struct("Some").field("_0", &Wm(p0)).finish(), T::C { a: p0, data: p1, state: p2 } => f.debug_tuple("C").field(p0).field(p2).finish() } }

pub fn run(out: &mut Out) { let vs = values(); for a in &vs { let g = format!("{:?}", a); let e = format!("{:?}", Fm(|f: &mut ::core::fmt::Formatter<'_>| o_fmt(a, f))); out.check(g == e, "debug_28", "debug", || format!("{{:?}} of {} = {:?} expected {:?}", show(a), g, e)); let g = format!("{:#?}", a); let e = format!("{:#?}", Fm(|f: &mut ::core::fmt::Formatter<'_>| o_fmt(a, f))); out.check(g == e, "debug_28", "debug_alt", || format!("{{:#?}} of {} = {:?} expected {:?}", show(a), g, e)); let g = format!("{:8?}", a); let e = format!("{:8?}", Fm(|f: &mut ::core::fmt::Formatter<'_>| o_fmt(a, f))); out.check(g == e, "debug_28", "debug_width", || format!("{{:8?}} of {} = {:?} expected {:?}", show(a), g, e)); }  }
