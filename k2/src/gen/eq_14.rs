// eq_14
#![allow(dead_code, unused_variables, unused_mut, unused_imports, non_shorthand_field_patterns, clippy::all)]
use crate::support::*;
use educe::Educe;
use core::cmp::Ordering;
#[derive(Educe)]
#[educe(PartialEq)]
pub enum T { Unit { #[educe(PartialEq(method("m_eq")))] r#type: A<0>, data: A<1>, _0: A<2>, a: A<3> }, Some, V1 {  }, C {  } }
pub fn values() -> Vec<T> { vec![T::Unit { r#type: A(1), data: A(1), _0: A(7), a: A(1) }, T::Unit { r#type: A(7), data: A(7), _0: A(0), a: A(0) }, T::Unit { r#type: A(1), data: A(0), _0: A(1), a: A(7) }, T::Unit { r#type: A(7), data: A(7), _0: A(7), a: A(1) }, T::Unit { r#type: A(0), data: A(0), _0: A(0), a: A(1) }, T::Unit { r#type: A(0), data: A(7), _0: A(0), a: A(1) }, T::Unit { r#type: A(1), data: A(0), _0: A(7), a: A(7) }, T::Unit { r#type: A(7), data: A(7), _0: A(0), a: A(1) }, T::Unit { r#type: A(7), data: A(1), _0: A(0), a: A(0) }, T::Unit { r#type: A(1), data: A(7), _0: A(0), a: A(7) }, T::Unit { r#type: A(1), data: A(7), _0: A(0), a: A(1) }, T::Unit { r#type: A(0), data: A(1), _0: A(7), a: A(0) }, T::Some, T::V1 {  }, T::C {  }] }
pub fn show(x: &T) -> String { #[allow(unused_variables)] match x { T::Unit { r#type: p0, data: p1, _0: p2, a: p3 } => format!("Unit({},{},{},{})", sv(p0), sv(p1), sv(p2), sv(p3)), T::Some => format!("Some()"), T::V1 {  } => format!("V1()"), T::C {  } => format!("C()") } }
pub fn o_eq(a: &T, b: &T) -> bool { match (a, b) { (T::Unit { r#type: a0, data: a1, _0: a2, a: a3 }, T::Unit { r#type: b0, data: b1, _0: b2, a: b3 }) => m_eq(a0, b0) && (a1 == b1) && (a2 == b2) && (a3 == b3), (T::Some, T::Some) => true, (T::V1 {  }, T::V1 {  }) => true, (T::C {  }, T::C {  }) => true, _ => false } }
pub fn run(out: &mut Out) { let vs = values(); for a in &vs { for b in &vs { let e = o_eq(a, b); out.check((a == b) == e, "eq_14", "eq", || format!("{} == {} expected {}", show(a), show(b), e)); out.check((a != b) == !e, "eq_14", "ne", || format!("{} != {} expected {}", show(a), show(b), !e)); } } }
