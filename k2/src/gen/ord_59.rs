// ord_59
#![allow(dead_code, unused_variables, unused_mut, unused_imports, non_shorthand_field_patterns, clippy::all)]
use crate::support::*;
use core::cmp::Ordering;
pub mod ty {
    #![deny(warnings)]
    #![allow(dead_code, unused_imports, non_snake_case)]
    use crate::support::{A, B, C, Good, Bad, m_eq, m_cmp, m_pcmp, m_hash, m_fmt, m_clone, m_clone_c, m_into, g_eq, g_cmp, g_pcmp, g_hash, g_fmt};
    use educe::Educe;
#[derive(Educe)]
#[repr(i32)]
#[educe(PartialOrd, PartialEq, Eq)]
pub enum T { V1 = 200, B = 128, C = 100 }
}
pub use ty::T;

pub fn values() -> Vec<T> { vec![T::V1, T::B, T::C] }
pub fn show(x: &T) -> String { #[allow(unused_variables)] match x { T::V1 => format!("V1()"), T::B => format!("B()"), T::C => format!("C()") } }
pub fn o_disc(x: &T) -> i128 { match x { T::V1 => 200, T::B => 128, T::C => 100 } }
pub fn o_pcmp(a: &T, b: &T) -> Option<Ordering> { match (a, b) { (T::V1, T::V1) => {  Some(Ordering::Equal) }, (T::B, T::B) => {  Some(Ordering::Equal) }, (T::C, T::C) => {  Some(Ordering::Equal) }, _ => Some(o_disc(a).cmp(&o_disc(b))) } }
pub fn run(out: &mut Out) { let vs = values(); for (i, a) in vs.iter().enumerate() { for (j, b) in vs.iter().enumerate() { let e = o_pcmp(a, b); let g = ::core::cmp::PartialOrd::partial_cmp(a, b); out.check(g == e, "ord_59", "partial_cmp", || format!("partial_cmp({}, {}) = {:?} expected {:?}", show(a), show(b), g, e)); } } }
