// ordlayout_73
#![allow(dead_code, unused_variables, unused_mut, unused_imports, non_shorthand_field_patterns, clippy::all)]
use crate::support::*;
use core::cmp::Ordering;
pub mod ty {
    #![deny(warnings)]
    #![allow(dead_code, unused_imports, non_snake_case)]
    use crate::support::{A, B, C, Good, Bad, m_eq, m_cmp, m_pcmp, m_hash, m_fmt, m_clone, m_clone_c, m_into, g_eq, g_cmp, g_pcmp, g_hash, g_fmt};
    use educe::Educe;
#[derive(Educe)]
#[educe(PartialEq, PartialOrd, Eq)]
pub enum T { Zed { #[educe(PartialOrd(rank = "+2"))] a: ::core::num::NonZeroU8, #[educe(PartialOrd(rank = "1"))] y: bool }, V1, A(char, #[educe(PartialOrd(rank = -3))] char, #[educe(PartialOrd(rank = 3i64))] char) }
}
pub use ty::T;

pub fn values() -> Vec<T> { vec![T::Zed { a: ::core::num::NonZeroU8::new(1).unwrap(), y: false }, T::Zed { a: ::core::num::NonZeroU8::new(1).unwrap(), y: true }, T::Zed { a: ::core::num::NonZeroU8::new(200).unwrap(), y: false }, T::Zed { a: ::core::num::NonZeroU8::new(200).unwrap(), y: true }, T::V1, T::A('a', 'a', 'a'), T::A('a', 'a', 'z'), T::A('a', 'z', 'a'), T::A('a', 'z', 'z'), T::A('z', 'a', 'a'), T::A('z', 'a', 'z'), T::A('z', 'z', 'a'), T::A('z', 'z', 'z')] }
pub fn show(x: &T) -> String { #[allow(unused_variables)] match x { T::Zed { a: p0, y: p1 } => format!("Zed({},{})", sv(p0), sv(p1)), T::V1 => format!("V1()"), T::A(p0, p1, p2) => format!("A({},{},{})", sv(p0), sv(p1), sv(p2)) } }
pub fn o_disc(x: &T) -> i128 { match x { T::Zed { a: _, y: _ } => 0, T::V1 => 1, T::A(_, _, _) => 2 } }
pub fn o_pcmp(a: &T, b: &T) -> Option<Ordering> { match (a, b) { (T::Zed { a: a0, y: a1 }, T::Zed { a: b0, y: b1 }) => { match ::core::cmp::PartialOrd::partial_cmp(a1, b1) { Some(Ordering::Equal) => (), x => return x } match ::core::cmp::PartialOrd::partial_cmp(a0, b0) { Some(Ordering::Equal) => (), x => return x } Some(Ordering::Equal) }, (T::V1, T::V1) => {  Some(Ordering::Equal) }, (T::A(a0, a1, a2), T::A(b0, b1, b2)) => { match ::core::cmp::PartialOrd::partial_cmp(a0, b0) { Some(Ordering::Equal) => (), x => return x } match ::core::cmp::PartialOrd::partial_cmp(a1, b1) { Some(Ordering::Equal) => (), x => return x } match ::core::cmp::PartialOrd::partial_cmp(a2, b2) { Some(Ordering::Equal) => (), x => return x } Some(Ordering::Equal) }, _ => Some(o_disc(a).cmp(&o_disc(b))) } }
#[repr(C)] pub struct Wrap { pub pre: u8, pub x: T, pub post: [u8; 9] }
pub fn wrap(i: usize, n: u8) -> Wrap { Wrap { pre: n, x: values().swap_remove(i), post: [n; 9] } }
pub fn run(out: &mut Out) { let vs = values(); for (i, a) in vs.iter().enumerate() { for (j, b) in vs.iter().enumerate() { let e = o_pcmp(a, b); let g = ::core::cmp::PartialOrd::partial_cmp(a, b); out.check(g == e, "ordlayout_73", "partial_cmp", || format!("partial_cmp({}, {}) = {:?} expected {:?}", show(a), show(b), g, e)); for n in [0u8, 1, 0x7f, 0x80, 0xff] { let wa = wrap(i, n); let wb = wrap(j, !n); let g = ::core::cmp::PartialOrd::partial_cmp(&wa.x, &wb.x); let e = o_pcmp(a, b); out.check(g == e, "ordlayout_73", "cmp_neighbours", || format!("cmp({}, {}) with neighbour bytes {} = {:?} expected {:?}", show(a), show(b), n, g, e)); } } } }
