// hash_88
#![allow(dead_code, unused_variables, unused_mut, unused_imports, non_shorthand_field_patterns, clippy::all)]
use crate::support::*;
use educe::Educe;
use core::cmp::Ordering;
#[derive(Educe)]
#[educe(Hash)]
pub enum T { V1 { #[educe(Hash(ignore = true))] x: A<0>, #[educe(Hash(ignore = true))] other: A<0>, #[educe(Hash(ignore(true)))] state: A<2> }, Zed {  } }
pub fn values() -> Vec<T> { vec![T::V1 { x: A(1), other: A(1), state: A(7) }, T::V1 { x: A(1), other: A(1), state: A(1) }, T::V1 { x: A(7), other: A(1), state: A(7) }, T::V1 { x: A(1), other: A(0), state: A(0) }, T::V1 { x: A(1), other: A(7), state: A(0) }, T::V1 { x: A(7), other: A(0), state: A(1) }, T::V1 { x: A(0), other: A(1), state: A(7) }, T::V1 { x: A(0), other: A(0), state: A(7) }, T::V1 { x: A(0), other: A(7), state: A(1) }, T::V1 { x: A(0), other: A(1), state: A(0) }, T::V1 { x: A(0), other: A(0), state: A(1) }, T::V1 { x: A(0), other: A(1), state: A(1) }, T::V1 { x: A(1), other: A(0), state: A(7) }, T::V1 { x: A(7), other: A(7), state: A(7) }, T::V1 { x: A(7), other: A(7), state: A(1) }, T::V1 { x: A(1), other: A(0), state: A(1) }, T::V1 { x: A(7), other: A(1), state: A(1) }, T::V1 { x: A(7), other: A(7), state: A(0) }, T::V1 { x: A(1), other: A(7), state: A(1) }, T::V1 { x: A(7), other: A(0), state: A(0) }, T::V1 { x: A(7), other: A(0), state: A(7) }, T::V1 { x: A(7), other: A(1), state: A(0) }, T::V1 { x: A(1), other: A(7), state: A(7) }, T::V1 { x: A(0), other: A(7), state: A(0) }, T::Zed {  }] }
pub fn show(x: &T) -> String { #[allow(unused_variables)] match x { T::V1 { x: p0, other: p1, state: p2 } => format!("V1({},{},{})", sv(p0), sv(p1), sv(p2)), T::Zed {  } => format!("Zed()") } }
pub fn o_hash(x: &T) -> Vec<String> { let mut e = Rec::default(); match x { T::V1 { x: p0, other: p1, state: p2 } => { ::core::hash::Hash::hash(&0usize, &mut e); }, T::Zed {  } => { ::core::hash::Hash::hash(&1usize, &mut e); } } e.0 }
pub fn run(out: &mut Out) { let vs = values(); for a in &vs { let mut g = Rec::default(); ::core::hash::Hash::hash(a, &mut g); let e = o_hash(a); out.check(g.0 == e, "hash_88", "hash", || format!("hash({}) fed {:?} expected {:?}", show(a), g.0, e)); } }
