// deref_56
#![allow(dead_code, unused_variables, unused_mut, unused_imports, non_shorthand_field_patterns, clippy::all)]
use crate::support::*;
use educe::Educe;
use core::cmp::Ordering;
#[derive(Educe)]
#[educe(Deref, DerefMut)]
pub enum T { B { arg: A<2>, #[educe(DerefMut)] #[educe(Deref)] x: A<1> }, Some { _0: A<0>, #[educe(DerefMut, Deref)] builder: A<1> } }
pub fn values() -> Vec<T> { vec![T::B { arg: A(1), x: A(1) }, T::B { arg: A(0), x: A(7) }, T::B { arg: A(1), x: A(0) }, T::B { arg: A(0), x: A(1) }, T::B { arg: A(7), x: A(1) }, T::B { arg: A(7), x: A(0) }, T::B { arg: A(0), x: A(0) }, T::B { arg: A(7), x: A(7) }, T::Some { _0: A(1), builder: A(0) }, T::Some { _0: A(7), builder: A(1) }, T::Some { _0: A(0), builder: A(0) }, T::Some { _0: A(1), builder: A(7) }, T::Some { _0: A(0), builder: A(7) }, T::Some { _0: A(7), builder: A(7) }, T::Some { _0: A(1), builder: A(1) }, T::Some { _0: A(0), builder: A(1) }] }
pub fn show(x: &T) -> String { #[allow(unused_variables)] match x { T::B { arg: p0, x: p1 } => format!("B({},{})", sv(p0), sv(p1)), T::Some { _0: p0, builder: p1 } => format!("Some({},{})", sv(p0), sv(p1)) } }
pub fn o_deref(x: &T) -> *const A<1> { match x { T::B { arg: _, x: p1 } => p1 as *const A<1>, T::Some { _0: _, builder: p1 } => p1 as *const A<1> } }
pub fn o_deref_mut(x: &mut T) -> *mut A<1> { match x { T::B { arg: _, x: p1 } => p1 as *mut A<1>, T::Some { _0: _, builder: p1 } => p1 as *mut A<1> } }
pub fn o_write(x: &mut T) { match x { T::B { arg: _, x: p1 } => { *p1 = A(99); }, T::Some { _0: _, builder: p1 } => { *p1 = A(99); } } }
pub fn run(out: &mut Out) { let vs = values(); for a in &vs { let g = ::core::ops::Deref::deref(a) as *const A<1>; let e = o_deref(a); out.check(g == e, "deref_56", "deref", || format!("&*{} has another address than the designated field", show(a))); } let n = vs.len(); for i in 0..n { let mut x = values().swap_remove(i); let e = o_deref_mut(&mut x); let g = ::core::ops::DerefMut::deref_mut(&mut x) as *mut A<1>; out.check(g == e, "deref_56", "deref_mut", || format!("&mut *{} has another address than the designated field", show(&x))); let mut y = values().swap_remove(i); o_write(&mut y); *::core::ops::DerefMut::deref_mut(&mut x) = A(99); out.check(show(&x) == show(&y), "deref_56", "deref_mut_write", || format!("after a write through &mut *x: {} expected {}", show(&x), show(&y))); } }
