// default_146
#![allow(dead_code, unused_variables, unused_mut, unused_imports, non_shorthand_field_patterns, clippy::all)]
use crate::support::*;
use educe::Educe;
use core::cmp::Ordering;
#[derive(Educe)]
#[educe(Default)]
pub enum T { B, #[educe(Default)] Zed { #[educe(Default = 'x')] b: char, c: String, #[educe(Default = 77)] f: i128 } }
pub fn show(x: &T) -> String { #[allow(unused_variables)] match x { T::B => format!("B()"), T::Zed { b: p0, c: p1, f: p2 } => format!("Zed({},{},{})", sv(p0), sv(p1), sv(p2)) } }
pub fn o_default() -> T { T::Zed { b: 'x', c: String::new(), f: 77i128 } }
pub fn run(out: &mut Out) { let g = <T as ::core::default::Default>::default(); let e = o_default(); out.check(show(&g) == show(&e), "default_146", "default", || format!("default() = {} expected {}", show(&g), show(&e))); }
