// eq_97
#![allow(dead_code, unused_variables, unused_mut, unused_imports, non_shorthand_field_patterns, clippy::all)]
use crate::support::*;
use educe::Educe;
use core::cmp::Ordering;
#[derive(Educe)]
#[educe(PartialEq)]
pub enum T { Unit, V1() }
pub fn values() -> Vec<T> { vec![T::Unit, T::V1()] }
pub fn show(x: &T) -> String { #[allow(unused_variables)] match x { T::Unit => format!("Unit()"), T::V1() => format!("V1()") } }
pub fn o_eq(a: &T, b: &T) -> bool { match (a, b) { (T::Unit, T::Unit) => true, (T::V1(), T::V1()) => true, _ => false } }
pub fn run(out: &mut Out) { let vs = values(); for a in &vs { for b in &vs { let e = o_eq(a, b); out.check((a == b) == e, "eq_97", "eq", || format!("{} == {} expected {}", show(a), show(b), e)); out.check((a != b) == !e, "eq_97", "ne", || format!("{} != {} expected {}", show(a), show(b), !e)); } } }
