// ordlayout_8
#![allow(dead_code, unused_variables, unused_mut, unused_imports, non_shorthand_field_patterns, clippy::all)]
use crate::support::*;
use core::cmp::Ordering;
pub mod ty {
    #![deny(warnings)]
    #![allow(dead_code, unused_imports, non_snake_case)]
    use crate::support::{A, B, C, Good, Bad, m_eq, m_cmp, m_pcmp, m_hash, m_fmt, m_clone, m_clone_c, m_into, g_eq, g_cmp, g_pcmp, g_hash, g_fmt};
    use educe::Educe;
#[derive(Educe)]
#[repr(isize)]
#[educe(PartialEq, Eq, Ord)]
pub enum T { B { #[educe(Ord(rank = -2))] a: ::core::num::NonZeroU8 }, Some = 70000 }
}
pub use ty::T;
impl PartialOrd for T { fn partial_cmp(&self, o: &Self) -> Option<Ordering> { Some(::core::cmp::Ord::cmp(self, o)) } }
pub fn values() -> Vec<T> { vec![T::B { a: ::core::num::NonZeroU8::new(1).unwrap() }, T::B { a: ::core::num::NonZeroU8::new(200).unwrap() }, T::Some] }
pub fn show(x: &T) -> String { #[allow(unused_variables)] match x { T::B { a: p0 } => format!("B({})", sv(p0)), T::Some => format!("Some()") } }
pub fn o_disc(x: &T) -> i128 { match x { T::B { a: _ } => 0, T::Some => 70000 } }
pub fn o_cmp(a: &T, b: &T) -> Ordering { match (a, b) { (T::B { a: a0 }, T::B { a: b0 }) => { let c = ::core::cmp::Ord::cmp(a0, b0); if c != Ordering::Equal { return c; } Ordering::Equal }, (T::Some, T::Some) => {  Ordering::Equal }, _ => o_disc(a).cmp(&o_disc(b)) } }
#[repr(C)] pub struct Wrap { pub pre: u8, pub x: T, pub post: [u8; 9] }
pub fn wrap(i: usize, n: u8) -> Wrap { Wrap { pre: n, x: values().swap_remove(i), post: [n; 9] } }
pub fn run(out: &mut Out) { let vs = values(); for (i, a) in vs.iter().enumerate() { for (j, b) in vs.iter().enumerate() { let e = o_cmp(a, b); let g = ::core::cmp::Ord::cmp(a, b); out.check(g == e, "ordlayout_8", "cmp", || format!("cmp({}, {}) = {:?} expected {:?}", show(a), show(b), g, e)); for n in [0u8, 1, 0x7f, 0x80, 0xff] { let wa = wrap(i, n); let wb = wrap(j, !n); let g = ::core::cmp::Ord::cmp(&wa.x, &wb.x); let e = o_cmp(a, b); out.check(g == e, "ordlayout_8", "cmp_neighbours", || format!("cmp({}, {}) with neighbour bytes {} = {:?} expected {:?}", show(a), show(b), n, g, e)); } } } }
