// ordlayout_8
#![allow(dead_code, unused_variables, unused_mut, unused_imports, non_shorthand_field_patterns, clippy::all)]
use crate::support::*;
use educe::Educe;
use core::cmp::Ordering;
#[derive(Educe)]
#[repr(i32)]
#[educe(PartialEq, PartialOrd, Eq)]
pub enum T { Unit(&'static u8, #[educe(PartialOrd(rank = -2))] ::core::num::NonZeroU8, ()) = 1 }

pub fn values() -> Vec<T> { vec![T::Unit(&3u8, ::core::num::NonZeroU8::new(1).unwrap(), ()), T::Unit(&3u8, ::core::num::NonZeroU8::new(200).unwrap(), ()), T::Unit(&200u8, ::core::num::NonZeroU8::new(1).unwrap(), ()), T::Unit(&200u8, ::core::num::NonZeroU8::new(200).unwrap(), ())] }
pub fn show(x: &T) -> String { #[allow(unused_variables)] match x { T::Unit(p0, p1, p2) => format!("Unit({},{},{})", sv(p0), sv(p1), sv(p2)) } }
pub fn o_disc(x: &T) -> i128 { match x { T::Unit(_, _, _) => 1 } }
pub fn o_pcmp(a: &T, b: &T) -> Option<Ordering> { match (a, b) { (T::Unit(a0, a1, a2), T::Unit(b0, b1, b2)) => { match ::core::cmp::PartialOrd::partial_cmp(a0, b0) { Some(Ordering::Equal) => (), x => return x } match ::core::cmp::PartialOrd::partial_cmp(a2, b2) { Some(Ordering::Equal) => (), x => return x } match ::core::cmp::PartialOrd::partial_cmp(a1, b1) { Some(Ordering::Equal) => (), x => return x } Some(Ordering::Equal) } } }
#[repr(C)] pub struct Wrap { pub pre: u8, pub x: T, pub post: [u8; 9] }
pub fn wrap(i: usize, n: u8) -> Wrap { Wrap { pre: n, x: values().swap_remove(i), post: [n; 9] } }
pub fn run(out: &mut Out) { let vs = values(); for (i, a) in vs.iter().enumerate() { for (j, b) in vs.iter().enumerate() { let e = o_pcmp(a, b); let g = ::core::cmp::PartialOrd::partial_cmp(a, b); out.check(g == e, "ordlayout_8", "partial_cmp", || format!("partial_cmp({}, {}) = {:?} expected {:?}", show(a), show(b), g, e)); for n in [0u8, 1, 0x7f, 0x80, 0xff] { let wa = wrap(i, n); let wb = wrap(j, !n); let g = ::core::cmp::PartialOrd::partial_cmp(&wa.x, &wb.x); let e = o_pcmp(a, b); out.check(g == e, "ordlayout_8", "cmp_neighbours", || format!("cmp({}, {}) with neighbour bytes {} = {:?} expected {:?}", show(a), show(b), n, g, e)); } } } }
