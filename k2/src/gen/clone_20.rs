// clone_20
#![allow(dead_code, unused_variables, unused_mut, unused_imports, non_shorthand_field_patterns, clippy::all)]
use crate::support::*;
use educe::Educe;
use core::cmp::Ordering;
#[derive(Educe)]
#[educe(Clone)]
pub enum T { V1, Zed(A<0>, A<1>, A<2>, #[educe(Clone(method = "m_clone"))] A<3>) }
pub fn values() -> Vec<T> { vec![T::V1, T::Zed(A(7), A(0), A(1), A(0)), T::Zed(A(7), A(7), A(1), A(1)), T::Zed(A(0), A(7), A(7), A(1)), T::Zed(A(0), A(1), A(7), A(1)), T::Zed(A(0), A(0), A(0), A(7)), T::Zed(A(7), A(1), A(0), A(1)), T::Zed(A(0), A(1), A(7), A(7)), T::Zed(A(7), A(7), A(0), A(0)), T::Zed(A(1), A(7), A(7), A(7)), T::Zed(A(7), A(1), A(1), A(0))] }
pub fn show(x: &T) -> String { #[allow(unused_variables)] match x { T::V1 => format!("V1()"), T::Zed(p0, p1, p2, p3) => format!("Zed({},{},{},{})", sv(p0), sv(p1), sv(p2), sv(p3)) } }
pub fn o_clone(x: &T) -> T { match x { T::V1 => T::V1, T::Zed(p0, p1, p2, p3) => T::Zed(A(p0.0), A(p1.0), A(p2.0), A(p3.0.wrapping_add(50))) } }
pub fn o_log(x: &T) -> Vec<String> { match x { T::V1 => vec![], T::Zed(p0, p1, p2, p3) => vec![format!("clone A{} {}", p0.k(), p0.0), format!("clone A{} {}", p1.k(), p1.0), format!("clone A{} {}", p2.k(), p2.0), format!("m_clone A{} {}", p3.k(), p3.0)] } }
pub fn run(out: &mut Out) { let vs = values(); for a in &vs { let _ = take_log(); let g = ::core::clone::Clone::clone(a); let l = take_log(); let e = o_clone(a); out.check(show(&g) == show(&e), "clone_20", "clone", || format!("clone({}) = {} expected {}", show(a), show(&g), show(&e))); let el = o_log(a); out.check(l == el, "clone_20", "clone_calls", || format!("clone({}) called {:?} expected {:?}", show(a), l, el)); } let n = vs.len(); for i in 0..n { for j in 0..n { let mut x = values().swap_remove(i); let shown = show(&x); ::core::clone::Clone::clone_from(&mut x, &vs[j]); let e = o_clone(&vs[j]); out.check(show(&x) == show(&e), "clone_20", "clone_from", || format!("{}.clone_from({}) = {} expected {}", shown, show(&vs[j]), show(&x), show(&e))); } } }
