// default_51
#![allow(dead_code, unused_variables, unused_mut, unused_imports, non_shorthand_field_patterns, clippy::all)]
use crate::support::*;
use educe::Educe;
use core::cmp::Ordering;
#[derive(Educe)]
#[educe(Default(new(true)))]
pub enum T { B { c: f32, f: String }, #[educe(Default)] None, A(u64, i128) }
pub fn show(x: &T) -> String { #[allow(unused_variables)] match x { T::B { c: p0, f: p1 } => format!("B({},{})", sv(p0), sv(p1)), T::None => format!("None()"), T::A(p0, p1) => format!("A({},{})", sv(p0), sv(p1)) } }
pub fn o_default() -> T { T::None }
pub fn run(out: &mut Out) { let g = <T as ::core::default::Default>::default(); let e = o_default(); out.check(show(&g) == show(&e), "default_51", "default", || format!("default() = {} expected {}", show(&g), show(&e))); let g = T::new(); let e = o_default(); out.check(show(&g) == show(&e), "default_51", "new", || format!("new() = {} expected {}", show(&g), show(&e))); }
