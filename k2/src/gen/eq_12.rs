// eq_12
#![allow(dead_code, unused_variables, unused_mut, unused_imports, non_shorthand_field_patterns, clippy::all)]
use crate::support::*;
use educe::Educe;
use core::cmp::Ordering;
#[derive(Educe)]
#[educe(PartialEq)]
pub struct T { #[educe(PartialEq = true)] arg: A<0>, data: A<1>, #[educe(PartialEq(method = m_eq))] state: A<0> }
pub fn values() -> Vec<T> { vec![T { arg: A(0), data: A(0), state: A(0) }, T { arg: A(0), data: A(0), state: A(1) }, T { arg: A(0), data: A(0), state: A(7) }, T { arg: A(0), data: A(1), state: A(0) }, T { arg: A(0), data: A(1), state: A(1) }, T { arg: A(0), data: A(1), state: A(7) }, T { arg: A(0), data: A(7), state: A(0) }, T { arg: A(0), data: A(7), state: A(1) }, T { arg: A(0), data: A(7), state: A(7) }, T { arg: A(1), data: A(0), state: A(0) }, T { arg: A(1), data: A(0), state: A(1) }, T { arg: A(1), data: A(0), state: A(7) }, T { arg: A(1), data: A(1), state: A(0) }, T { arg: A(1), data: A(1), state: A(1) }, T { arg: A(1), data: A(1), state: A(7) }, T { arg: A(1), data: A(7), state: A(0) }, T { arg: A(1), data: A(7), state: A(1) }, T { arg: A(1), data: A(7), state: A(7) }, T { arg: A(7), data: A(0), state: A(0) }, T { arg: A(7), data: A(0), state: A(1) }, T { arg: A(7), data: A(0), state: A(7) }, T { arg: A(7), data: A(1), state: A(0) }, T { arg: A(7), data: A(1), state: A(1) }, T { arg: A(7), data: A(1), state: A(7) }, T { arg: A(7), data: A(7), state: A(0) }, T { arg: A(7), data: A(7), state: A(1) }, T { arg: A(7), data: A(7), state: A(7) }] }
pub fn show(x: &T) -> String { #[allow(unused_variables)] match x { T { arg: p0, data: p1, state: p2 } => format!("T({},{},{})", sv(p0), sv(p1), sv(p2)) } }
pub fn o_eq(a: &T, b: &T) -> bool { match (a, b) { (T { arg: a0, data: a1, state: a2 }, T { arg: b0, data: b1, state: b2 }) => (a0 == b0) && (a1 == b1) && m_eq(a2, b2) } }
pub fn run(out: &mut Out) { let vs = values(); for a in &vs { for b in &vs { let e = o_eq(a, b); out.check((a == b) == e, "eq_12", "eq", || format!("{} == {} expected {}", show(a), show(b), e)); out.check((a != b) == !e, "eq_12", "ne", || format!("{} != {} expected {}", show(a), show(b), !e)); } } }
