// into_144
#![allow(dead_code, unused_variables, unused_mut, unused_imports, non_shorthand_field_patterns, clippy::all)]
use crate::support::*;
use educe::Educe;
use core::cmp::Ordering;
#[derive(Educe)]
#[educe(Into(B<2>))]
#[educe(Into(A<0>))]
#[educe(Into(B<1>))]
pub struct T { r#type: A<0>, #[educe(Into(B<2>))] a: A<1>, #[educe(Into(B<1>))] size: A<3> }
pub fn values() -> Vec<T> { vec![T { r#type: A(1), a: A(1), size: A(7) }, T { r#type: A(7), a: A(7), size: A(1) }, T { r#type: A(1), a: A(7), size: A(1) }, T { r#type: A(0), a: A(1), size: A(7) }, T { r#type: A(7), a: A(0), size: A(7) }, T { r#type: A(7), a: A(1), size: A(1) }, T { r#type: A(7), a: A(0), size: A(1) }, T { r#type: A(7), a: A(7), size: A(0) }, T { r#type: A(1), a: A(1), size: A(1) }, T { r#type: A(7), a: A(1), size: A(7) }, T { r#type: A(7), a: A(7), size: A(7) }, T { r#type: A(1), a: A(7), size: A(7) }] }
pub fn show(x: &T) -> String { #[allow(unused_variables)] match x { T { r#type: p0, a: p1, size: p2 } => format!("T({},{},{})", sv(p0), sv(p1), sv(p2)) } }
pub fn o_into_0(x: T) -> B<2> { match x { T { r#type: _, a: p1, size: _ } => ::core::convert::Into::into(p1) } }
pub fn o_into_1(x: T) -> A<0> { match x { T { r#type: p0, a: _, size: _ } => p0 } }
pub fn o_into_2(x: T) -> B<1> { match x { T { r#type: _, a: _, size: p2 } => ::core::convert::Into::into(p2) } }
pub fn run(out: &mut Out) { let n = values().len(); for i in 0..n { let a = values().swap_remove(i); let shown = show(&a); let g: B<2> = ::core::convert::Into::into(a); let e = o_into_0(values().swap_remove(i)); out.check(sv(&g) == sv(&e), "into_144", "into", || format!("Into::<B<2>>::into({}) = {} expected {}", shown, sv(&g), sv(&e))); } for i in 0..n { let a = values().swap_remove(i); let shown = show(&a); let g: A<0> = ::core::convert::Into::into(a); let e = o_into_1(values().swap_remove(i)); out.check(sv(&g) == sv(&e), "into_144", "into", || format!("Into::<A<0>>::into({}) = {} expected {}", shown, sv(&g), sv(&e))); } for i in 0..n { let a = values().swap_remove(i); let shown = show(&a); let g: B<1> = ::core::convert::Into::into(a); let e = o_into_2(values().swap_remove(i)); out.check(sv(&g) == sv(&e), "into_144", "into", || format!("Into::<B<1>>::into({}) = {} expected {}", shown, sv(&g), sv(&e))); } }
