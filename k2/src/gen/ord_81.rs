// ord_81
#![allow(dead_code, unused_variables, unused_mut, unused_imports, non_shorthand_field_patterns, clippy::all)]
use crate::support::*;
use educe::Educe;
use core::cmp::Ordering;
#[derive(Educe)]
#[repr(isize)]
#[educe(PartialOrd, PartialEq, Eq)]
pub enum T { V1 { f: A<0>, #[educe(PartialOrd(rank = "8"))] x: A<0> }, Zed(A<0>) = 100 }

pub fn values() -> Vec<T> { vec![T::V1 { f: A(0), x: A(0) }, T::V1 { f: A(0), x: A(1) }, T::V1 { f: A(0), x: A(7) }, T::V1 { f: A(1), x: A(0) }, T::V1 { f: A(1), x: A(1) }, T::V1 { f: A(1), x: A(7) }, T::V1 { f: A(7), x: A(0) }, T::V1 { f: A(7), x: A(1) }, T::V1 { f: A(7), x: A(7) }, T::Zed(A(0)), T::Zed(A(1)), T::Zed(A(7))] }
pub fn show(x: &T) -> String { #[allow(unused_variables)] match x { T::V1 { f: p0, x: p1 } => format!("V1({},{})", sv(p0), sv(p1)), T::Zed(p0) => format!("Zed({})", sv(p0)) } }
pub fn o_disc(x: &T) -> i128 { match x { T::V1 { f: _, x: _ } => 0, T::Zed(_) => 100 } }
pub fn o_pcmp(a: &T, b: &T) -> Option<Ordering> { match (a, b) { (T::V1 { f: a0, x: a1 }, T::V1 { f: b0, x: b1 }) => { match ::core::cmp::PartialOrd::partial_cmp(a0, b0) { Some(Ordering::Equal) => (), x => return x } match ::core::cmp::PartialOrd::partial_cmp(a1, b1) { Some(Ordering::Equal) => (), x => return x } Some(Ordering::Equal) }, (T::Zed(a0), T::Zed(b0)) => { match ::core::cmp::PartialOrd::partial_cmp(a0, b0) { Some(Ordering::Equal) => (), x => return x } Some(Ordering::Equal) }, _ => Some(o_disc(a).cmp(&o_disc(b))) } }
pub fn run(out: &mut Out) { let vs = values(); for (i, a) in vs.iter().enumerate() { for (j, b) in vs.iter().enumerate() { let e = o_pcmp(a, b); let g = ::core::cmp::PartialOrd::partial_cmp(a, b); out.check(g == e, "ord_81", "partial_cmp", || format!("partial_cmp({}, {}) = {:?} expected {:?}", show(a), show(b), g, e)); } } }
