// ord_81
#![allow(dead_code, unused_variables, unused_mut, unused_imports, non_shorthand_field_patterns, clippy::all)]
use crate::support::*;
use core::cmp::Ordering;
pub mod ty {
    #![deny(warnings)]
    #![allow(dead_code, unused_imports, non_snake_case)]
    use crate::support::{A, B, C, Good, Bad, m_eq, m_cmp, m_pcmp, m_hash, m_fmt, m_clone, m_clone_c, m_into, g_eq, g_cmp, g_pcmp, g_hash, g_fmt};
    use educe::Educe;
#[derive(Educe)]
#[educe(PartialEq, Eq, Ord)]
pub struct T { pub x: A<0> }
}
pub use ty::T;
impl PartialOrd for T { fn partial_cmp(&self, o: &Self) -> Option<Ordering> { Some(::core::cmp::Ord::cmp(self, o)) } }
pub fn values() -> Vec<T> { vec![T { x: A(0) }, T { x: A(1) }, T { x: A(7) }] }
pub fn show(x: &T) -> String { #[allow(unused_variables)] match x { T { x: p0 } => format!("T({})", sv(p0)) } }
pub fn o_disc(x: &T) -> i128 { match x { T { x: _ } => 0 } }
pub fn o_cmp(a: &T, b: &T) -> Ordering { match (a, b) { (T { x: a0 }, T { x: b0 }) => { let c = ::core::cmp::Ord::cmp(a0, b0); if c != Ordering::Equal { return c; } Ordering::Equal } } }
pub fn run(out: &mut Out) { let vs = values(); for (i, a) in vs.iter().enumerate() { for (j, b) in vs.iter().enumerate() { let e = o_cmp(a, b); let g = ::core::cmp::Ord::cmp(a, b); out.check(g == e, "ord_81", "cmp", || format!("cmp({}, {}) = {:?} expected {:?}", show(a), show(b), g, e)); } } }
