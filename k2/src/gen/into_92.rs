// into_92
#![allow(dead_code, unused_variables, unused_mut, unused_imports, non_shorthand_field_patterns, clippy::all)]
use crate::support::*;
use educe::Educe;
use core::cmp::Ordering;
#[derive(Educe)]
#[educe(Into(B<0>))]
pub enum T { V1(#[educe(Into(B<0>))] A<0>, A<3>), None { #[educe(Into(B<0>))] other: A<2>, x: A<2> }, Some { #[educe(Into(B<0>))] b: A<2>, a: A<3> } }
pub fn values() -> Vec<T> { vec![T::V1(A(1), A(7)), T::V1(A(7), A(0)), T::V1(A(1), A(1)), T::V1(A(0), A(1)), T::None { other: A(7), x: A(1) }, T::None { other: A(0), x: A(7) }, T::None { other: A(7), x: A(7) }, T::None { other: A(7), x: A(0) }, T::Some { b: A(7), a: A(0) }, T::Some { b: A(1), a: A(0) }, T::Some { b: A(1), a: A(1) }, T::Some { b: A(0), a: A(7) }] }
pub fn show(x: &T) -> String { #[allow(unused_variables)] match x { T::V1(p0, p1) => format!("V1({},{})", sv(p0), sv(p1)), T::None { other: p0, x: p1 } => format!("None({},{})", sv(p0), sv(p1)), T::Some { b: p0, a: p1 } => format!("Some({},{})", sv(p0), sv(p1)) } }
pub fn o_into_0(x: T) -> B<0> { match x { T::V1(p0, _) => ::core::convert::Into::into(p0), T::None { other: p0, x: _ } => ::core::convert::Into::into(p0), T::Some { b: p0, a: _ } => ::core::convert::Into::into(p0) } }
pub fn run(out: &mut Out) { let n = values().len(); for i in 0..n { let a = values().swap_remove(i); let shown = show(&a); let g: B<0> = ::core::convert::Into::into(a); let e = o_into_0(values().swap_remove(i)); out.check(sv(&g) == sv(&e), "into_92", "into", || format!("Into::<B<0>>::into({}) = {} expected {}", shown, sv(&g), sv(&e))); } }
