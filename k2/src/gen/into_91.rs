// into_91
#![allow(dead_code, unused_variables, unused_mut, unused_imports, non_shorthand_field_patterns, clippy::all)]
use crate::support::*;
use educe::Educe;
use core::cmp::Ordering;
#[derive(Educe)]
#[educe(Into(B<2>))]
pub enum T { C { x: A<2>, #[educe(Into(B<2>, method(m_into)))] _0: A<3>, other: A<3> }, Some { state: A<3>, #[educe(Into(B<2>))] size: A<1> } }
pub fn values() -> Vec<T> { vec![T::C { x: A(7), _0: A(1), other: A(7) }, T::C { x: A(0), _0: A(1), other: A(7) }, T::C { x: A(1), _0: A(1), other: A(0) }, T::C { x: A(1), _0: A(0), other: A(0) }, T::C { x: A(1), _0: A(7), other: A(0) }, T::C { x: A(0), _0: A(7), other: A(1) }, T::Some { state: A(0), size: A(1) }, T::Some { state: A(1), size: A(7) }, T::Some { state: A(1), size: A(1) }, T::Some { state: A(7), size: A(1) }, T::Some { state: A(7), size: A(7) }, T::Some { state: A(1), size: A(0) }] }
pub fn show(x: &T) -> String { #[allow(unused_variables)] match x { T::C { x: p0, _0: p1, other: p2 } => format!("C({},{},{})", sv(p0), sv(p1), sv(p2)), T::Some { state: p0, size: p1 } => format!("Some({},{})", sv(p0), sv(p1)) } }
pub fn o_into_0(x: T) -> B<2> { match x { T::C { x: _, _0: p1, other: _ } => m_into(p1), T::Some { state: _, size: p1 } => ::core::convert::Into::into(p1) } }
pub fn run(out: &mut Out) { let n = values().len(); for i in 0..n { let a = values().swap_remove(i); let shown = show(&a); let g: B<2> = ::core::convert::Into::into(a); let e = o_into_0(values().swap_remove(i)); out.check(sv(&g) == sv(&e), "into_91", "into", || format!("Into::<B<2>>::into({}) = {} expected {}", shown, sv(&g), sv(&e))); } }
