// default_56
#![allow(dead_code, unused_variables, unused_mut, unused_imports, non_shorthand_field_patterns, clippy::all)]
use crate::support::*;
use educe::Educe;
use core::cmp::Ordering;
#[derive(Educe)]
#[educe(Default)]
pub struct T { #[educe(Default(expr = 'x'))] source: char, #[educe(Default(expression = true))] state: bool, #[educe(Default(expr(A(9))))] other: A<3>, #[educe(Default(expression = 2))] b: f64 }
pub fn show(x: &T) -> String { #[allow(unused_variables)] match x { T { source: p0, state: p1, other: p2, b: p3 } => format!("T({},{},{},{})", sv(p0), sv(p1), sv(p2), sv(p3)) } }
pub fn o_default() -> T { T { source: 'x', state: true, other: A(9), b: 2f64 } }
pub fn run(out: &mut Out) { let g = <T as ::core::default::Default>::default(); let e = o_default(); out.check(show(&g) == show(&e), "default_56", "default", || format!("default() = {} expected {}", show(&g), show(&e))); }
