// hash_16
#![allow(dead_code, unused_variables, unused_mut, unused_imports, non_shorthand_field_patterns, clippy::all)]
use crate::support::*;
use educe::Educe;
use core::cmp::Ordering;
#[derive(Educe)]
#[educe(Hash)]
pub enum T { Zed { #[educe(Hash(method = m_hash))] a: A<0>, source: A<0> } }
pub fn values() -> Vec<T> { vec![T::Zed { a: A(0), source: A(0) }, T::Zed { a: A(0), source: A(1) }, T::Zed { a: A(0), source: A(7) }, T::Zed { a: A(1), source: A(0) }, T::Zed { a: A(1), source: A(1) }, T::Zed { a: A(1), source: A(7) }, T::Zed { a: A(7), source: A(0) }, T::Zed { a: A(7), source: A(1) }, T::Zed { a: A(7), source: A(7) }] }
pub fn show(x: &T) -> String { #[allow(unused_variables)] match x { T::Zed { a: p0, source: p1 } => format!("Zed({},{})", sv(p0), sv(p1)) } }
pub fn o_hash(x: &T) -> Vec<String> { let mut e = Rec::default(); match x { T::Zed { a: p0, source: p1 } => { ::core::hash::Hash::hash(&0usize, &mut e); m_hash(p0, &mut e); ::core::hash::Hash::hash(p1, &mut e); } } e.0 }
pub fn run(out: &mut Out) { let vs = values(); for a in &vs { let mut g = Rec::default(); ::core::hash::Hash::hash(a, &mut g); let e = o_hash(a); out.check(g.0 == e, "hash_16", "hash", || format!("hash({}) fed {:?} expected {:?}", show(a), g.0, e)); } }
