// deref_110
#![allow(dead_code, unused_variables, unused_mut, unused_imports, non_shorthand_field_patterns, clippy::all)]
use crate::support::*;
use educe::Educe;
use core::cmp::Ordering;
#[derive(Educe)]
#[educe(Deref)]
pub enum T { V1(#[educe(Deref)] A<0>, A<1>, A<0>), A { #[educe(Deref)] b: A<0>, arg: A<0> }, C { #[educe(Deref)] y: A<0>, arg: A<2> }, Unit(#[educe(Deref)] A<0>) }
pub fn values() -> Vec<T> { vec![T::V1(A(7), A(7), A(7)), T::V1(A(0), A(1), A(7)), T::V1(A(1), A(1), A(1)), T::V1(A(7), A(0), A(0)), T::A { b: A(7), arg: A(0) }, T::A { b: A(0), arg: A(1) }, T::A { b: A(7), arg: A(1) }, T::A { b: A(0), arg: A(0) }, T::C { y: A(0), arg: A(1) }, T::C { y: A(1), arg: A(7) }, T::C { y: A(0), arg: A(0) }, T::C { y: A(7), arg: A(1) }, T::Unit(A(0)), T::Unit(A(1)), T::Unit(A(7))] }
pub fn show(x: &T) -> String { #[allow(unused_variables)] match x { T::V1(p0, p1, p2) => format!("V1({},{},{})", sv(p0), sv(p1), sv(p2)), T::A { b: p0, arg: p1 } => format!("A({},{})", sv(p0), sv(p1)), T::C { y: p0, arg: p1 } => format!("C({},{})", sv(p0), sv(p1)), T::Unit(p0) => format!("Unit({})", sv(p0)) } }
pub fn o_deref(x: &T) -> *const A<0> { match x { T::V1(p0, _, _) => p0 as *const A<0>, T::A { b: p0, arg: _ } => p0 as *const A<0>, T::C { y: p0, arg: _ } => p0 as *const A<0>, T::Unit(p0) => p0 as *const A<0> } }
pub fn run(out: &mut Out) { let vs = values(); for a in &vs { let g = ::core::ops::Deref::deref(a) as *const A<0>; let e = o_deref(a); out.check(g == e, "deref_110", "deref", || format!("&*{} has another address than the designated field", show(a))); } }
