// debug_110
#![allow(dead_code, unused_variables, unused_mut, unused_imports, non_shorthand_field_patterns, clippy::all)]
use crate::support::*;
use educe::Educe;
use core::cmp::Ordering;
#[derive(Educe)]
#[educe(Debug(name = Zz))]
pub enum T { Unit { data: A<0>, other: A<1> }, V1, A(#[educe(Debug(ignore(true)))] A<0>, #[educe(Debug = false)] A<1>, #[educe(Debug(method(m_fmt)))] A<2>), #[educe(Debug(name(false)))] Zed { #[educe(Debug(ignore = true))] data: A<0>, #[educe(Debug(method(m_fmt), name = k1))] state: A<1> } }
pub fn values() -> Vec<T> { vec![T::Unit { data: A(7), other: A(7) }, T::Unit { data: A(7), other: A(0) }, T::Unit { data: A(0), other: A(7) }, T::Unit { data: A(1), other: A(1) }, T::Unit { data: A(0), other: A(1) }, T::Unit { data: A(1), other: A(7) }, T::V1, T::A(A(1), A(0), A(0)), T::A(A(1), A(1), A(0)), T::A(A(1), A(1), A(7)), T::A(A(0), A(1), A(1)), T::A(A(0), A(7), A(1)), T::A(A(0), A(0), A(0)), T::Zed { data: A(1), state: A(7) }, T::Zed { data: A(7), state: A(1) }, T::Zed { data: A(0), state: A(7) }, T::Zed { data: A(0), state: A(0) }, T::Zed { data: A(7), state: A(7) }, T::Zed { data: A(0), state: A(1) }] }
pub fn show(x: &T) -> String { #[allow(unused_variables)] match x { T::Unit { data: p0, other: p1 } => format!("Unit({},{})", sv(p0), sv(p1)), T::V1 => format!("V1()"), T::A(p0, p1, p2) => format!("A({},{},{})", sv(p0), sv(p1), sv(p2)), T::Zed { data: p0, state: p1 } => format!("Zed({},{})", sv(p0), sv(p1)) } }
pub fn o_fmt(x: &T, f: &mut ::core::fmt::Formatter<'_>) -> ::core::fmt::Result { match x { T::Unit { data: p0, other: p1 } => f.debug_struct("Zz::Unit").field("data", p0).field("other", p1).finish(), T::V1 => f.write_str("Zz::V1"), T::A(p0, p1, p2) => f.debug_tuple("Zz::A").field(&Wm(p2)).finish(), T::Zed { data: p0, state: p1 } => f.debug_struct("Zz").field("k1", &Wm(p1)).finish() } }

pub fn run(out: &mut Out) { let vs = values(); for a in &vs { let g = format!("{:?}", a); let e = format!("{:?}", Fm(|f: &mut ::core::fmt::Formatter<'_>| o_fmt(a, f))); out.check(g == e, "debug_110", "debug", || format!("{{:?}} of {} = {:?} expected {:?}", show(a), g, e)); let g = format!("{:#?}", a); let e = format!("{:#?}", Fm(|f: &mut ::core::fmt::Formatter<'_>| o_fmt(a, f))); out.check(g == e, "debug_110", "debug_alt", || format!("{{:#?}} of {} = {:?} expected {:?}", show(a), g, e)); let g = format!("{:8?}", a); let e = format!("{:8?}", Fm(|f: &mut ::core::fmt::Formatter<'_>| o_fmt(a, f))); out.check(g == e, "debug_110", "debug_width", || format!("{{:8?}} of {} = {:?} expected {:?}", show(a), g, e)); }  }
