// ord_17
#![allow(dead_code, unused_variables, unused_mut, unused_imports, non_shorthand_field_patterns, clippy::all)]
use crate::support::*;
use educe::Educe;
use core::cmp::Ordering;
#[derive(Educe)]
#[educe(PartialOrd, Eq, Ord, PartialEq)]
pub enum T { C(), Zed, B }

pub fn values() -> Vec<T> { vec![T::C(), T::Zed, T::B] }
pub fn show(x: &T) -> String { #[allow(unused_variables)] match x { T::C() => format!("C()"), T::Zed => format!("Zed()"), T::B => format!("B()") } }
pub fn o_disc(x: &T) -> i128 { match x { T::C() => 0, T::Zed => 1, T::B => 2 } }
pub fn o_cmp(a: &T, b: &T) -> Ordering { match (a, b) { (T::C(), T::C()) => {  Ordering::Equal }, (T::Zed, T::Zed) => {  Ordering::Equal }, (T::B, T::B) => {  Ordering::Equal }, _ => o_disc(a).cmp(&o_disc(b)) } }
pub fn run(out: &mut Out) { let vs = values(); for (i, a) in vs.iter().enumerate() { for (j, b) in vs.iter().enumerate() { let e = o_cmp(a, b); let g = ::core::cmp::Ord::cmp(a, b); out.check(g == e, "ord_17", "cmp", || format!("cmp({}, {}) = {:?} expected {:?}", show(a), show(b), g, e)); let g2 = ::core::cmp::PartialOrd::partial_cmp(a, b); out.check(g2 == Some(e), "ord_17", "partial_is_some_cmp", || format!("partial_cmp({}, {}) = {:?} expected Some({:?})", show(a), show(b), g2, e)); } } }
