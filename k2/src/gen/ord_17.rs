// ord_17
#![allow(dead_code, unused_variables, unused_mut, unused_imports, non_shorthand_field_patterns, clippy::all)]
use crate::support::*;
use core::cmp::Ordering;
pub mod ty {
    #![deny(warnings)]
    #![allow(dead_code, unused_imports)]
    use crate::support::{A, B, C, Good, Bad, m_eq, m_cmp, m_pcmp, m_hash, m_fmt, m_clone, m_clone_c, m_into, g_eq, g_cmp, g_pcmp, g_hash, g_fmt};
    use educe::Educe;

    // names at the derive site that shadow everything the generated code might be tempted to write unqualified
    #[allow(non_camel_case_types)] pub struct Option; pub struct Result; pub struct Ordering; pub struct Clone; pub struct Copy;
    pub struct Default; pub struct Debug; pub struct PartialEq; pub struct Eq; pub struct PartialOrd; pub struct Ord; pub struct Hash;
    pub struct Hasher; pub struct Into; pub struct From; pub struct Deref; pub struct DerefMut; pub struct Formatter; pub struct String;
    pub struct Vec; pub struct Box; pub struct PhantomData; pub struct Sized; pub struct Send; pub struct Iterator; pub struct Self_;
    #[allow(non_snake_case)] pub fn Some() {} #[allow(non_snake_case)] pub fn None() {} #[allow(non_snake_case)] pub fn Ok() {} #[allow(non_snake_case)] pub fn Err() {}
    pub fn drop() {} pub mod core {} pub mod std {} pub mod alloc {} pub mod fmt {} pub mod cmp {} pub mod hash {} pub mod clone {} pub mod marker {}
    #[allow(unused_macros)] macro_rules! stringify { ($($t:tt)*) => { "SHADOWED" } }
    #[allow(unused_macros)] macro_rules! unreachable { ($($t:tt)*) => { () } }
    #[allow(unused_macros)] macro_rules! panic { ($($t:tt)*) => { () } }
    #[allow(unused_macros)] macro_rules! matches { ($($t:tt)*) => { true } }
    #[allow(unused_macros)] macro_rules! write { ($($t:tt)*) => { () } }
    #[allow(unused_macros)] macro_rules! format_args { ($($t:tt)*) => { () } }
    #[allow(unused_macros)] macro_rules! assert { ($($t:tt)*) => { () } }
#[derive(Educe)]
#[repr(C)]
#[educe(Eq, PartialOrd, PartialEq)]
pub enum T { Unit, Some { f: A<0>, #[educe(PartialOrd(rank = "+0"))] builder: A<1>, #[educe(PartialOrd(method = m_pcmp, rank(7)))] r#type: A<0>, #[educe(PartialOrd(ignore = true))] state: A<3> } }
}
pub use ty::T;

pub fn values() -> Vec<T> { vec![T::Unit, T::Some { f: A(7), builder: A(0), r#type: A(0), state: A(0) }, T::Some { f: A(7), builder: A(7), r#type: A(0), state: A(7) }, T::Some { f: A(1), builder: A(0), r#type: A(0), state: A(7) }, T::Some { f: A(1), builder: A(7), r#type: A(0), state: A(0) }, T::Some { f: A(1), builder: A(1), r#type: A(7), state: A(1) }, T::Some { f: A(1), builder: A(7), r#type: A(0), state: A(7) }, T::Some { f: A(7), builder: A(0), r#type: A(1), state: A(7) }, T::Some { f: A(1), builder: A(7), r#type: A(7), state: A(7) }, T::Some { f: A(7), builder: A(7), r#type: A(7), state: A(7) }, T::Some { f: A(7), builder: A(7), r#type: A(0), state: A(1) }, T::Some { f: A(0), builder: A(1), r#type: A(1), state: A(1) }, T::Some { f: A(0), builder: A(7), r#type: A(1), state: A(1) }, T::Some { f: A(1), builder: A(7), r#type: A(1), state: A(0) }, T::Some { f: A(7), builder: A(7), r#type: A(1), state: A(0) }, T::Some { f: A(7), builder: A(1), r#type: A(1), state: A(7) }, T::Some { f: A(1), builder: A(0), r#type: A(0), state: A(0) }, T::Some { f: A(7), builder: A(1), r#type: A(0), state: A(1) }, T::Some { f: A(0), builder: A(0), r#type: A(7), state: A(7) }] }
pub fn show(x: &T) -> String { #[allow(unused_variables)] match x { T::Unit => format!("Unit()"), T::Some { f: p0, builder: p1, r#type: p2, state: p3 } => format!("Some({},{},{},{})", sv(p0), sv(p1), sv(p2), sv(p3)) } }
pub fn o_disc(x: &T) -> i128 { match x { T::Unit => 0, T::Some { f: _, builder: _, r#type: _, state: _ } => 1 } }
pub fn o_pcmp(a: &T, b: &T) -> Option<Ordering> { match (a, b) { (T::Unit, T::Unit) => {  Some(Ordering::Equal) }, (T::Some { f: a0, builder: a1, r#type: a2, state: a3 }, T::Some { f: b0, builder: b1, r#type: b2, state: b3 }) => { match ::core::cmp::PartialOrd::partial_cmp(a0, b0) { Some(Ordering::Equal) => (), x => return x } match ::core::cmp::PartialOrd::partial_cmp(a1, b1) { Some(Ordering::Equal) => (), x => return x } match m_pcmp(a2, b2) { Some(Ordering::Equal) => (), x => return x } Some(Ordering::Equal) }, _ => Some(o_disc(a).cmp(&o_disc(b))) } }
pub fn run(out: &mut Out) { let vs = values(); for (i, a) in vs.iter().enumerate() { for (j, b) in vs.iter().enumerate() { let e = o_pcmp(a, b); let g = ::core::cmp::PartialOrd::partial_cmp(a, b); out.check(g == e, "ord_17", "partial_cmp", || format!("partial_cmp({}, {}) = {:?} expected {:?}", show(a), show(b), g, e)); } } }
