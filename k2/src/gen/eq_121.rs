// eq_121
#![allow(dead_code, unused_variables, unused_mut, unused_imports, non_shorthand_field_patterns, clippy::all)]
use crate::support::*;
use educe::Educe;
use core::cmp::Ordering;
#[derive(Educe)]
#[educe(PartialEq)]
pub enum T { Some(A<0>), B(A<0>, #[educe(PartialEq = false)] A<0>, A<2>, A<3>) }
pub fn values() -> Vec<T> { vec![T::Some(A(0)), T::Some(A(1)), T::Some(A(7)), T::B(A(7), A(7), A(1), A(7)), T::B(A(7), A(7), A(1), A(0)), T::B(A(7), A(0), A(7), A(1)), T::B(A(1), A(0), A(7), A(0)), T::B(A(0), A(1), A(7), A(0)), T::B(A(0), A(0), A(0), A(0)), T::B(A(0), A(0), A(1), A(1)), T::B(A(1), A(0), A(7), A(7)), T::B(A(1), A(0), A(1), A(1)), T::B(A(1), A(7), A(7), A(1)), T::B(A(7), A(1), A(1), A(1)), T::B(A(7), A(1), A(7), A(0)), T::B(A(7), A(7), A(7), A(1)), T::B(A(1), A(1), A(1), A(1)), T::B(A(1), A(7), A(1), A(7)), T::B(A(7), A(1), A(0), A(7)), T::B(A(7), A(1), A(1), A(0)), T::B(A(7), A(7), A(0), A(1)), T::B(A(1), A(7), A(1), A(1)), T::B(A(7), A(1), A(0), A(0)), T::B(A(7), A(1), A(1), A(7)), T::B(A(7), A(0), A(7), A(0)), T::B(A(7), A(0), A(0), A(7)), T::B(A(7), A(1), A(7), A(1))] }
pub fn show(x: &T) -> String { #[allow(unused_variables)] match x { T::Some(p0) => format!("Some({})", sv(p0)), T::B(p0, p1, p2, p3) => format!("B({},{},{},{})", sv(p0), sv(p1), sv(p2), sv(p3)) } }
pub fn o_eq(a: &T, b: &T) -> bool { match (a, b) { (T::Some(a0), T::Some(b0)) => (a0 == b0), (T::B(a0, a1, a2, a3), T::B(b0, b1, b2, b3)) => (a0 == b0) && (a2 == b2) && (a3 == b3), _ => false } }
pub fn run(out: &mut Out) { let vs = values(); for a in &vs { for b in &vs { let e = o_eq(a, b); out.check((a == b) == e, "eq_121", "eq", || format!("{} == {} expected {}", show(a), show(b), e)); out.check((a != b) == !e, "eq_121", "ne", || format!("{} != {} expected {}", show(a), show(b), !e)); } } }
