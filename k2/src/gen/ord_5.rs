// ord_5
#![allow(dead_code, unused_variables, unused_mut, unused_imports, non_shorthand_field_patterns, clippy::all)]
use crate::support::*;
use educe::Educe;
use core::cmp::Ordering;
#[derive(Educe)]
#[educe(PartialEq, Eq, Ord)]
pub struct T { #[educe(Ord(method(m_cmp), rank(7)))] source: A<0>, f: A<0> }
impl PartialOrd for T { fn partial_cmp(&self, o: &Self) -> Option<Ordering> { Some(::core::cmp::Ord::cmp(self, o)) } }
pub fn values() -> Vec<T> { vec![T { source: A(0), f: A(0) }, T { source: A(0), f: A(1) }, T { source: A(0), f: A(7) }, T { source: A(1), f: A(0) }, T { source: A(1), f: A(1) }, T { source: A(1), f: A(7) }, T { source: A(7), f: A(0) }, T { source: A(7), f: A(1) }, T { source: A(7), f: A(7) }] }
pub fn show(x: &T) -> String { #[allow(unused_variables)] match x { T { source: p0, f: p1 } => format!("T({},{})", sv(p0), sv(p1)) } }
pub fn o_disc(x: &T) -> i128 { match x { T { source: _, f: _ } => 0 } }
pub fn o_cmp(a: &T, b: &T) -> Ordering { match (a, b) { (T { source: a0, f: a1 }, T { source: b0, f: b1 }) => { let c = ::core::cmp::Ord::cmp(a1, b1); if c != Ordering::Equal { return c; } let c = m_cmp(a0, b0); if c != Ordering::Equal { return c; } Ordering::Equal } } }
pub fn run(out: &mut Out) { let vs = values(); for (i, a) in vs.iter().enumerate() { for (j, b) in vs.iter().enumerate() { let e = o_cmp(a, b); let g = ::core::cmp::Ord::cmp(a, b); out.check(g == e, "ord_5", "cmp", || format!("cmp({}, {}) = {:?} expected {:?}", show(a), show(b), g, e)); } } }
