// ordlayout_148
#![allow(dead_code, unused_variables, unused_mut, unused_imports, non_shorthand_field_patterns, clippy::all)]
use crate::support::*;
use educe::Educe;
use core::cmp::Ordering;
#[derive(Educe)]
#[educe(Ord, PartialEq, Eq, PartialOrd)]
pub enum T { Some(), V1 { #[educe(PartialOrd(rank(3)))] _0: u8 }, Unit(#[educe(PartialOrd(rank = "1"))] ::core::num::NonZeroU8), A { y: &'static u8, #[educe(PartialOrd(rank(8)))] source: bool } }

pub fn values() -> Vec<T> { vec![T::Some(), T::V1 { _0: 0 }, T::V1 { _0: 100 }, T::V1 { _0: 200 }, T::Unit(::core::num::NonZeroU8::new(1).unwrap()), T::Unit(::core::num::NonZeroU8::new(200).unwrap()), T::A { y: &3u8, source: false }, T::A { y: &3u8, source: true }, T::A { y: &200u8, source: false }, T::A { y: &200u8, source: true }] }
pub fn show(x: &T) -> String { #[allow(unused_variables)] match x { T::Some() => format!("Some()"), T::V1 { _0: p0 } => format!("V1({})", sv(p0)), T::Unit(p0) => format!("Unit({})", sv(p0)), T::A { y: p0, source: p1 } => format!("A({},{})", sv(p0), sv(p1)) } }
pub fn o_disc(x: &T) -> i128 { match x { T::Some() => 0, T::V1 { _0: _ } => 1, T::Unit(_) => 2, T::A { y: _, source: _ } => 3 } }
pub fn o_cmp(a: &T, b: &T) -> Ordering { match (a, b) { (T::Some(), T::Some()) => {  Ordering::Equal }, (T::V1 { _0: a0 }, T::V1 { _0: b0 }) => { let c = ::core::cmp::Ord::cmp(a0, b0); if c != Ordering::Equal { return c; } Ordering::Equal }, (T::Unit(a0), T::Unit(b0)) => { let c = ::core::cmp::Ord::cmp(a0, b0); if c != Ordering::Equal { return c; } Ordering::Equal }, (T::A { y: a0, source: a1 }, T::A { y: b0, source: b1 }) => { let c = ::core::cmp::Ord::cmp(a0, b0); if c != Ordering::Equal { return c; } let c = ::core::cmp::Ord::cmp(a1, b1); if c != Ordering::Equal { return c; } Ordering::Equal }, _ => o_disc(a).cmp(&o_disc(b)) } }
#[repr(C)] pub struct Wrap { pub pre: u8, pub x: T, pub post: [u8; 9] }
pub fn wrap(i: usize, n: u8) -> Wrap { Wrap { pre: n, x: values().swap_remove(i), post: [n; 9] } }
pub fn run(out: &mut Out) { let vs = values(); for (i, a) in vs.iter().enumerate() { for (j, b) in vs.iter().enumerate() { let e = o_cmp(a, b); let g = ::core::cmp::Ord::cmp(a, b); out.check(g == e, "ordlayout_148", "cmp", || format!("cmp({}, {}) = {:?} expected {:?}", show(a), show(b), g, e)); let g2 = ::core::cmp::PartialOrd::partial_cmp(a, b); out.check(g2 == Some(e), "ordlayout_148", "partial_is_some_cmp", || format!("partial_cmp({}, {}) = {:?} expected Some({:?})", show(a), show(b), g2, e)); for n in [0u8, 1, 0x7f, 0x80, 0xff] { let wa = wrap(i, n); let wb = wrap(j, !n); let g = ::core::cmp::Ord::cmp(&wa.x, &wb.x); let e = o_cmp(a, b); out.check(g == e, "ordlayout_148", "cmp_neighbours", || format!("cmp({}, {}) with neighbour bytes {} = {:?} expected {:?}", show(a), show(b), n, g, e)); } } } }
