// ord_122
#![allow(dead_code, unused_variables, unused_mut, unused_imports, non_shorthand_field_patterns, clippy::all)]
use crate::support::*;
use core::cmp::Ordering;
pub mod ty {
    #![deny(warnings)]
    #![allow(dead_code, unused_imports, non_snake_case)]
    use crate::support::{A, B, C, Good, Bad, m_eq, m_cmp, m_pcmp, m_hash, m_fmt, m_clone, m_clone_c, m_into, g_eq, g_cmp, g_pcmp, g_hash, g_fmt};
    use educe::Educe;
#[derive(Educe)]
#[educe(Ord, PartialEq, Eq)]
#[educe(Debug)]
pub struct T { #[educe(Ord(rank = "+3", method = "m_cmp"))] pub a: A<0>, pub _a: A<0>, #[educe(Debug(name = zz6))] pub other_data: A<2> }
}
pub use ty::T;
impl PartialOrd for T { fn partial_cmp(&self, o: &Self) -> Option<Ordering> { Some(::core::cmp::Ord::cmp(self, o)) } }
pub fn values() -> Vec<T> { vec![T { a: A(0), _a: A(0), other_data: A(0) }, T { a: A(0), _a: A(0), other_data: A(1) }, T { a: A(0), _a: A(0), other_data: A(7) }, T { a: A(0), _a: A(1), other_data: A(0) }, T { a: A(0), _a: A(1), other_data: A(1) }, T { a: A(0), _a: A(1), other_data: A(7) }, T { a: A(0), _a: A(7), other_data: A(0) }, T { a: A(0), _a: A(7), other_data: A(1) }, T { a: A(0), _a: A(7), other_data: A(7) }, T { a: A(1), _a: A(0), other_data: A(0) }, T { a: A(1), _a: A(0), other_data: A(1) }, T { a: A(1), _a: A(0), other_data: A(7) }, T { a: A(1), _a: A(1), other_data: A(0) }, T { a: A(1), _a: A(1), other_data: A(1) }, T { a: A(1), _a: A(1), other_data: A(7) }, T { a: A(1), _a: A(7), other_data: A(0) }, T { a: A(1), _a: A(7), other_data: A(1) }, T { a: A(1), _a: A(7), other_data: A(7) }, T { a: A(7), _a: A(0), other_data: A(0) }, T { a: A(7), _a: A(0), other_data: A(1) }, T { a: A(7), _a: A(0), other_data: A(7) }, T { a: A(7), _a: A(1), other_data: A(0) }, T { a: A(7), _a: A(1), other_data: A(1) }, T { a: A(7), _a: A(1), other_data: A(7) }, T { a: A(7), _a: A(7), other_data: A(0) }, T { a: A(7), _a: A(7), other_data: A(1) }, T { a: A(7), _a: A(7), other_data: A(7) }] }
pub fn show(x: &T) -> String { #[allow(unused_variables)] match x { T { a: p0, _a: p1, other_data: p2 } => format!("T({},{},{})", sv(p0), sv(p1), sv(p2)) } }
pub fn o_disc(x: &T) -> i128 { match x { T { a: _, _a: _, other_data: _ } => 0 } }
pub fn o_cmp(a: &T, b: &T) -> Ordering { match (a, b) { (T { a: a0, _a: a1, other_data: a2 }, T { a: b0, _a: b1, other_data: b2 }) => { let c = ::core::cmp::Ord::cmp(a1, b1); if c != Ordering::Equal { return c; } let c = ::core::cmp::Ord::cmp(a2, b2); if c != Ordering::Equal { return c; } let c = m_cmp(a0, b0); if c != Ordering::Equal { return c; } Ordering::Equal } } }
pub fn run(out: &mut Out) { let vs = values(); for (i, a) in vs.iter().enumerate() { for (j, b) in vs.iter().enumerate() { let e = o_cmp(a, b); let g = ::core::cmp::Ord::cmp(a, b); out.check(g == e, "ord_122", "cmp", || format!("cmp({}, {}) = {:?} expected {:?}", show(a), show(b), g, e)); } } }
