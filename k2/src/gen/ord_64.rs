// ord_64
#![allow(dead_code, unused_variables, unused_mut, unused_imports, non_shorthand_field_patterns, clippy::all)]
use crate::support::*;
use core::cmp::Ordering;
pub mod ty {
    #![deny(warnings)]
    #![allow(dead_code, unused_imports, non_snake_case)]
    use crate::support::{A, B, C, Good, Bad, m_eq, m_cmp, m_pcmp, m_hash, m_fmt, m_clone, m_clone_c, m_into, g_eq, g_cmp, g_pcmp, g_hash, g_fmt};
    use educe::Educe;
#[derive(Educe)]
#[repr(i128)]
#[educe(PartialEq, Eq, Ord, PartialOrd)]
#[educe(Debug)]
pub enum T { None { #[educe(Debug(ignore))] y: A<0>, #[educe(PartialOrd(rank("-5"), method = m_cmp))] data: A<1>, #[educe(PartialOrd = false)] source: A<0>, c: A<0> } = 18446744073709551617, Unit { #[educe(PartialOrd(rank = 3i64))] c: A<0>, #[educe(Debug(name = zz5))] builder: A<0> } = -1267650600228229401496703205376 }
}
pub use ty::T;

pub fn values() -> Vec<T> { vec![T::None { y: A(0), data: A(7), source: A(1), c: A(7) }, T::None { y: A(7), data: A(0), source: A(7), c: A(0) }, T::None { y: A(1), data: A(0), source: A(0), c: A(7) }, T::None { y: A(1), data: A(0), source: A(1), c: A(7) }, T::None { y: A(1), data: A(1), source: A(1), c: A(0) }, T::None { y: A(7), data: A(1), source: A(1), c: A(1) }, T::None { y: A(0), data: A(7), source: A(0), c: A(1) }, T::None { y: A(1), data: A(0), source: A(7), c: A(1) }, T::None { y: A(1), data: A(0), source: A(0), c: A(0) }, T::None { y: A(0), data: A(0), source: A(0), c: A(0) }, T::None { y: A(7), data: A(7), source: A(7), c: A(7) }, T::None { y: A(1), data: A(0), source: A(1), c: A(1) }, T::None { y: A(7), data: A(0), source: A(0), c: A(0) }, T::None { y: A(0), data: A(0), source: A(7), c: A(0) }, T::None { y: A(1), data: A(7), source: A(1), c: A(1) }, T::None { y: A(0), data: A(7), source: A(7), c: A(7) }, T::None { y: A(0), data: A(1), source: A(7), c: A(7) }, T::None { y: A(1), data: A(1), source: A(0), c: A(1) }, T::Unit { c: A(0), builder: A(0) }, T::Unit { c: A(0), builder: A(1) }, T::Unit { c: A(0), builder: A(7) }, T::Unit { c: A(1), builder: A(0) }, T::Unit { c: A(1), builder: A(1) }, T::Unit { c: A(1), builder: A(7) }, T::Unit { c: A(7), builder: A(0) }, T::Unit { c: A(7), builder: A(1) }, T::Unit { c: A(7), builder: A(7) }] }
pub fn show(x: &T) -> String { #[allow(unused_variables)] match x { T::None { y: p0, data: p1, source: p2, c: p3 } => format!("None({},{},{},{})", sv(p0), sv(p1), sv(p2), sv(p3)), T::Unit { c: p0, builder: p1 } => format!("Unit({},{})", sv(p0), sv(p1)) } }
pub fn o_disc(x: &T) -> i128 { match x { T::None { y: _, data: _, source: _, c: _ } => 18446744073709551617, T::Unit { c: _, builder: _ } => -1267650600228229401496703205376 } }
pub fn o_cmp(a: &T, b: &T) -> Ordering { match (a, b) { (T::None { y: a0, data: a1, source: a2, c: a3 }, T::None { y: b0, data: b1, source: b2, c: b3 }) => { let c = ::core::cmp::Ord::cmp(a0, b0); if c != Ordering::Equal { return c; } let c = ::core::cmp::Ord::cmp(a3, b3); if c != Ordering::Equal { return c; } let c = m_cmp(a1, b1); if c != Ordering::Equal { return c; } Ordering::Equal }, (T::Unit { c: a0, builder: a1 }, T::Unit { c: b0, builder: b1 }) => { let c = ::core::cmp::Ord::cmp(a1, b1); if c != Ordering::Equal { return c; } let c = ::core::cmp::Ord::cmp(a0, b0); if c != Ordering::Equal { return c; } Ordering::Equal }, _ => o_disc(a).cmp(&o_disc(b)) } }
pub fn run(out: &mut Out) { let vs = values(); for (i, a) in vs.iter().enumerate() { for (j, b) in vs.iter().enumerate() { let e = o_cmp(a, b); let g = ::core::cmp::Ord::cmp(a, b); out.check(g == e, "ord_64", "cmp", || format!("cmp({}, {}) = {:?} expected {:?}", show(a), show(b), g, e)); let g2 = ::core::cmp::PartialOrd::partial_cmp(a, b); out.check(g2 == Some(e), "ord_64", "partial_is_some_cmp", || format!("partial_cmp({}, {}) = {:?} expected Some({:?})", show(a), show(b), g2, e)); } } }
