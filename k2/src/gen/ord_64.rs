// ord_64
#![allow(dead_code, unused_variables, unused_mut, unused_imports, non_shorthand_field_patterns, clippy::all)]
use crate::support::*;
use educe::Educe;
use core::cmp::Ordering;
#[derive(Educe)]
#[educe(Eq, Ord, PartialEq)]
pub enum T { None(#[educe(Ord(ignore(true)))] A<0>, A<0>), C { f: A<0>, #[educe(Ord(rank = "7"))] x: A<1> } }
impl PartialOrd for T { fn partial_cmp(&self, o: &Self) -> Option<Ordering> { Some(::core::cmp::Ord::cmp(self, o)) } }
pub fn values() -> Vec<T> { vec![T::None(A(0), A(0)), T::None(A(0), A(1)), T::None(A(0), A(7)), T::None(A(1), A(0)), T::None(A(1), A(1)), T::None(A(1), A(7)), T::None(A(7), A(0)), T::None(A(7), A(1)), T::None(A(7), A(7)), T::C { f: A(0), x: A(0) }, T::C { f: A(0), x: A(1) }, T::C { f: A(0), x: A(7) }, T::C { f: A(1), x: A(0) }, T::C { f: A(1), x: A(1) }, T::C { f: A(1), x: A(7) }, T::C { f: A(7), x: A(0) }, T::C { f: A(7), x: A(1) }, T::C { f: A(7), x: A(7) }] }
pub fn show(x: &T) -> String { #[allow(unused_variables)] match x { T::None(p0, p1) => format!("None({},{})", sv(p0), sv(p1)), T::C { f: p0, x: p1 } => format!("C({},{})", sv(p0), sv(p1)) } }
pub fn o_disc(x: &T) -> i128 { match x { T::None(_, _) => 0, T::C { f: _, x: _ } => 1 } }
pub fn o_cmp(a: &T, b: &T) -> Ordering { match (a, b) { (T::None(a0, a1), T::None(b0, b1)) => { let c = ::core::cmp::Ord::cmp(a1, b1); if c != Ordering::Equal { return c; } Ordering::Equal }, (T::C { f: a0, x: a1 }, T::C { f: b0, x: b1 }) => { let c = ::core::cmp::Ord::cmp(a0, b0); if c != Ordering::Equal { return c; } let c = ::core::cmp::Ord::cmp(a1, b1); if c != Ordering::Equal { return c; } Ordering::Equal }, _ => o_disc(a).cmp(&o_disc(b)) } }
pub fn run(out: &mut Out) { let vs = values(); for (i, a) in vs.iter().enumerate() { for (j, b) in vs.iter().enumerate() { let e = o_cmp(a, b); let g = ::core::cmp::Ord::cmp(a, b); out.check(g == e, "ord_64", "cmp", || format!("cmp({}, {}) = {:?} expected {:?}", show(a), show(b), g, e)); } } }
