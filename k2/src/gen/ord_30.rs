// ord_30
#![allow(dead_code, unused_variables, unused_mut, unused_imports, non_shorthand_field_patterns, clippy::all)]
use crate::support::*;
use core::cmp::Ordering;
pub mod ty {
    #![deny(warnings)]
    #![allow(dead_code, unused_imports, non_snake_case)]
    use crate::support::{A, B, C, Good, Bad, m_eq, m_cmp, m_pcmp, m_hash, m_fmt, m_clone, m_clone_c, m_into, g_eq, g_cmp, g_pcmp, g_hash, g_fmt};
    use educe::Educe;
#[derive(Educe)]
#[repr(i32)]
#[educe(Debug)]
#[educe(Eq, PartialOrd, Ord, PartialEq)]
pub enum T { Unit {  } = -5, C(#[educe(Ord(rank("5")))] #[educe(Debug(ignore = true))] A<0>, #[educe(Debug(ignore = false))] A<0>, #[educe(Ord(method(m_cmp), rank = "+4"))] A<0>) = 200 }
}
pub use ty::T;

pub fn values() -> Vec<T> { vec![T::Unit {  }, T::C(A(0), A(1), A(1)), T::C(A(1), A(1), A(0)), T::C(A(1), A(1), A(7)), T::C(A(0), A(1), A(7)), T::C(A(7), A(7), A(7)), T::C(A(1), A(0), A(1)), T::C(A(0), A(0), A(1)), T::C(A(7), A(1), A(7)), T::C(A(0), A(7), A(7)), T::C(A(1), A(0), A(7)), T::C(A(7), A(0), A(7)), T::C(A(7), A(1), A(0)), T::C(A(0), A(0), A(7)), T::C(A(7), A(7), A(0)), T::C(A(0), A(0), A(0)), T::C(A(0), A(1), A(0)), T::C(A(0), A(7), A(1)), T::C(A(7), A(0), A(0))] }
pub fn show(x: &T) -> String { #[allow(unused_variables)] match x { T::Unit {  } => format!("Unit()"), T::C(p0, p1, p2) => format!("C({},{},{})", sv(p0), sv(p1), sv(p2)) } }
pub fn o_disc(x: &T) -> i128 { match x { T::Unit {  } => -5, T::C(_, _, _) => 200 } }
pub fn o_cmp(a: &T, b: &T) -> Ordering { match (a, b) { (T::Unit {  }, T::Unit {  }) => {  Ordering::Equal }, (T::C(a0, a1, a2), T::C(b0, b1, b2)) => { let c = ::core::cmp::Ord::cmp(a1, b1); if c != Ordering::Equal { return c; } let c = m_cmp(a2, b2); if c != Ordering::Equal { return c; } let c = ::core::cmp::Ord::cmp(a0, b0); if c != Ordering::Equal { return c; } Ordering::Equal }, _ => o_disc(a).cmp(&o_disc(b)) } }
pub fn run(out: &mut Out) { let vs = values(); for (i, a) in vs.iter().enumerate() { for (j, b) in vs.iter().enumerate() { let e = o_cmp(a, b); let g = ::core::cmp::Ord::cmp(a, b); out.check(g == e, "ord_30", "cmp", || format!("cmp({}, {}) = {:?} expected {:?}", show(a), show(b), g, e)); let g2 = ::core::cmp::PartialOrd::partial_cmp(a, b); out.check(g2 == Some(e), "ord_30", "partial_is_some_cmp", || format!("partial_cmp({}, {}) = {:?} expected Some({:?})", show(a), show(b), g2, e)); } } }
