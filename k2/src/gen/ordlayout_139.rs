// ordlayout_139
#![allow(dead_code, unused_variables, unused_mut, unused_imports, non_shorthand_field_patterns, clippy::all)]
use crate::support::*;
use core::cmp::Ordering;
pub mod ty {
    #![deny(warnings)]
    #![allow(dead_code, unused_imports, non_snake_case)]
    use crate::support::{A, B, C, Good, Bad, m_eq, m_cmp, m_pcmp, m_hash, m_fmt, m_clone, m_clone_c, m_into, g_eq, g_cmp, g_pcmp, g_hash, g_fmt};
    use educe::Educe;
#[derive(Educe)]
#[educe(Eq, PartialEq, PartialOrd)]
pub enum T { C, V1, B { #[educe(PartialOrd(rank("3")))] builder: bool, #[educe(PartialOrd(rank = 0x2))] other_data: &'static u8 }, A }
}
pub use ty::T;

pub fn values() -> Vec<T> { vec![T::C, T::V1, T::B { builder: false, other_data: &3u8 }, T::B { builder: false, other_data: &200u8 }, T::B { builder: true, other_data: &3u8 }, T::B { builder: true, other_data: &200u8 }, T::A] }
pub fn show(x: &T) -> String { #[allow(unused_variables)] match x { T::C => format!("C()"), T::V1 => format!("V1()"), T::B { builder: p0, other_data: p1 } => format!("B({},{})", sv(p0), sv(p1)), T::A => format!("A()") } }
pub fn o_disc(x: &T) -> i128 { match x { T::C => 0, T::V1 => 1, T::B { builder: _, other_data: _ } => 2, T::A => 3 } }
pub fn o_pcmp(a: &T, b: &T) -> Option<Ordering> { match (a, b) { (T::C, T::C) => {  Some(Ordering::Equal) }, (T::V1, T::V1) => {  Some(Ordering::Equal) }, (T::B { builder: a0, other_data: a1 }, T::B { builder: b0, other_data: b1 }) => { match ::core::cmp::PartialOrd::partial_cmp(a1, b1) { Some(Ordering::Equal) => (), x => return x } match ::core::cmp::PartialOrd::partial_cmp(a0, b0) { Some(Ordering::Equal) => (), x => return x } Some(Ordering::Equal) }, (T::A, T::A) => {  Some(Ordering::Equal) }, _ => Some(o_disc(a).cmp(&o_disc(b))) } }
#[repr(C)] pub struct Wrap { pub pre: u8, pub x: T, pub post: [u8; 9] }
pub fn wrap(i: usize, n: u8) -> Wrap { Wrap { pre: n, x: values().swap_remove(i), post: [n; 9] } }
pub fn run(out: &mut Out) { let vs = values(); for (i, a) in vs.iter().enumerate() { for (j, b) in vs.iter().enumerate() { let e = o_pcmp(a, b); let g = ::core::cmp::PartialOrd::partial_cmp(a, b); out.check(g == e, "ordlayout_139", "partial_cmp", || format!("partial_cmp({}, {}) = {:?} expected {:?}", show(a), show(b), g, e)); for n in [0u8, 1, 0x7f, 0x80, 0xff] { let wa = wrap(i, n); let wb = wrap(j, !n); let g = ::core::cmp::PartialOrd::partial_cmp(&wa.x, &wb.x); let e = o_pcmp(a, b); out.check(g == e, "ordlayout_139", "cmp_neighbours", || format!("cmp({}, {}) with neighbour bytes {} = {:?} expected {:?}", show(a), show(b), n, g, e)); } } } }
