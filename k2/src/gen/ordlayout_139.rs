// ordlayout_139
#![allow(dead_code, unused_variables, unused_mut, unused_imports, non_shorthand_field_patterns, clippy::all)]
use crate::support::*;
use educe::Educe;
use core::cmp::Ordering;
#[derive(Educe)]
#[educe(PartialEq, Eq, PartialOrd)]
pub enum T { C { size: i64, arg: char, other: &'static u8 } }

pub fn values() -> Vec<T> { vec![T::C { size: -5, arg: 'a', other: &3u8 }, T::C { size: -5, arg: 'a', other: &200u8 }, T::C { size: -5, arg: 'z', other: &3u8 }, T::C { size: -5, arg: 'z', other: &200u8 }, T::C { size: 0, arg: 'a', other: &3u8 }, T::C { size: 0, arg: 'a', other: &200u8 }, T::C { size: 0, arg: 'z', other: &3u8 }, T::C { size: 0, arg: 'z', other: &200u8 }, T::C { size: 9, arg: 'a', other: &3u8 }, T::C { size: 9, arg: 'a', other: &200u8 }, T::C { size: 9, arg: 'z', other: &3u8 }, T::C { size: 9, arg: 'z', other: &200u8 }] }
pub fn show(x: &T) -> String { #[allow(unused_variables)] match x { T::C { size: p0, arg: p1, other: p2 } => format!("C({},{},{})", sv(p0), sv(p1), sv(p2)) } }
pub fn o_disc(x: &T) -> i128 { match x { T::C { size: _, arg: _, other: _ } => 0 } }
pub fn o_pcmp(a: &T, b: &T) -> Option<Ordering> { match (a, b) { (T::C { size: a0, arg: a1, other: a2 }, T::C { size: b0, arg: b1, other: b2 }) => { match ::core::cmp::PartialOrd::partial_cmp(a0, b0) { Some(Ordering::Equal) => (), x => return x } match ::core::cmp::PartialOrd::partial_cmp(a1, b1) { Some(Ordering::Equal) => (), x => return x } match ::core::cmp::PartialOrd::partial_cmp(a2, b2) { Some(Ordering::Equal) => (), x => return x } Some(Ordering::Equal) } } }
#[repr(C)] pub struct Wrap { pub pre: u8, pub x: T, pub post: [u8; 9] }
pub fn wrap(i: usize, n: u8) -> Wrap { Wrap { pre: n, x: values().swap_remove(i), post: [n; 9] } }
pub fn run(out: &mut Out) { let vs = values(); for (i, a) in vs.iter().enumerate() { for (j, b) in vs.iter().enumerate() { let e = o_pcmp(a, b); let g = ::core::cmp::PartialOrd::partial_cmp(a, b); out.check(g == e, "ordlayout_139", "partial_cmp", || format!("partial_cmp({}, {}) = {:?} expected {:?}", show(a), show(b), g, e)); for n in [0u8, 1, 0x7f, 0x80, 0xff] { let wa = wrap(i, n); let wb = wrap(j, !n); let g = ::core::cmp::PartialOrd::partial_cmp(&wa.x, &wb.x); let e = o_pcmp(a, b); out.check(g == e, "ordlayout_139", "cmp_neighbours", || format!("cmp({}, {}) with neighbour bytes {} = {:?} expected {:?}", show(a), show(b), n, g, e)); } } } }
