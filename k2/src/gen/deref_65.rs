// deref_65
#![allow(dead_code, unused_variables, unused_mut, unused_imports, non_shorthand_field_patterns, clippy::all)]
use crate::support::*;
use educe::Educe;
use core::cmp::Ordering;
#[derive(Educe)]
#[educe(DerefMut, Deref)]
pub enum T { A { #[educe(DerefMut)] r#type: A<0>, data: A<0>, size: A<0>, #[educe(Deref)] _0: A<0> }, Some(A<0>, #[educe(Deref)] A<0>, #[educe(DerefMut)] A<0>) }
pub fn values() -> Vec<T> { vec![T::A { r#type: A(1), data: A(7), size: A(1), _0: A(1) }, T::A { r#type: A(7), data: A(7), size: A(0), _0: A(1) }, T::A { r#type: A(7), data: A(1), size: A(1), _0: A(1) }, T::A { r#type: A(7), data: A(0), size: A(1), _0: A(0) }, T::A { r#type: A(1), data: A(7), size: A(7), _0: A(7) }, T::A { r#type: A(0), data: A(7), size: A(7), _0: A(0) }, T::A { r#type: A(0), data: A(0), size: A(7), _0: A(1) }, T::A { r#type: A(7), data: A(7), size: A(1), _0: A(1) }, T::Some(A(7), A(0), A(0)), T::Some(A(7), A(7), A(7)), T::Some(A(7), A(0), A(7)), T::Some(A(0), A(1), A(7)), T::Some(A(1), A(0), A(1)), T::Some(A(0), A(0), A(1)), T::Some(A(7), A(1), A(1)), T::Some(A(7), A(1), A(0))] }
pub fn show(x: &T) -> String { #[allow(unused_variables)] match x { T::A { r#type: p0, data: p1, size: p2, _0: p3 } => format!("A({},{},{},{})", sv(p0), sv(p1), sv(p2), sv(p3)), T::Some(p0, p1, p2) => format!("Some({},{},{})", sv(p0), sv(p1), sv(p2)) } }
pub fn o_deref(x: &T) -> *const A<0> { match x { T::A { r#type: _, data: _, size: _, _0: p3 } => p3 as *const A<0>, T::Some(_, p1, _) => p1 as *const A<0> } }
pub fn o_deref_mut(x: &mut T) -> *mut A<0> { match x { T::A { r#type: p0, data: _, size: _, _0: _ } => p0 as *mut A<0>, T::Some(_, _, p2) => p2 as *mut A<0> } }
pub fn o_write(x: &mut T) { match x { T::A { r#type: p0, data: _, size: _, _0: _ } => { *p0 = A(99); }, T::Some(_, _, p2) => { *p2 = A(99); } } }
pub fn run(out: &mut Out) { let vs = values(); for a in &vs { let g = ::core::ops::Deref::deref(a) as *const A<0>; let e = o_deref(a); out.check(g == e, "deref_65", "deref", || format!("&*{} has another address than the designated field", show(a))); } let n = vs.len(); for i in 0..n { let mut x = values().swap_remove(i); let e = o_deref_mut(&mut x); let g = ::core::ops::DerefMut::deref_mut(&mut x) as *mut A<0>; out.check(g == e, "deref_65", "deref_mut", || format!("&mut *{} has another address than the designated field", show(&x))); let mut y = values().swap_remove(i); o_write(&mut y); *::core::ops::DerefMut::deref_mut(&mut x) = A(99); out.check(show(&x) == show(&y), "deref_65", "deref_mut_write", || format!("after a write through &mut *x: {} expected {}", show(&x), show(&y))); } }
