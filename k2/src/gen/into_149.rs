// into_149
#![allow(dead_code, unused_variables, unused_mut, unused_imports, non_shorthand_field_patterns, clippy::all)]
use crate::support::*;
use educe::Educe;
use core::cmp::Ordering;
#[derive(Educe)]
#[educe(Into(A<0>), Into(B<0>), Into(B<2>))]
pub enum T { V1(#[educe(Into(B<0>, method = m_into))] #[educe(Into(B<2>, method = "m_into"))] A<2>, A<2>, A<0>), Unit { data: A<1>, #[educe(Into(B<0>))] #[educe(Into(B<2>, method = m_into))] r#type: A<0> } }
pub fn values() -> Vec<T> { vec![T::V1(A(1), A(0), A(0)), T::V1(A(0), A(0), A(1)), T::V1(A(7), A(0), A(0)), T::V1(A(0), A(1), A(7)), T::V1(A(7), A(0), A(7)), T::V1(A(7), A(1), A(7)), T::Unit { data: A(1), r#type: A(0) }, T::Unit { data: A(1), r#type: A(7) }, T::Unit { data: A(7), r#type: A(1) }, T::Unit { data: A(1), r#type: A(1) }, T::Unit { data: A(7), r#type: A(7) }, T::Unit { data: A(7), r#type: A(0) }] }
pub fn show(x: &T) -> String { #[allow(unused_variables)] match x { T::V1(p0, p1, p2) => format!("V1({},{},{})", sv(p0), sv(p1), sv(p2)), T::Unit { data: p0, r#type: p1 } => format!("Unit({},{})", sv(p0), sv(p1)) } }
pub fn o_into_0(x: T) -> A<0> { match x { T::V1(_, _, p2) => p2, T::Unit { data: _, r#type: p1 } => p1 } }
pub fn o_into_1(x: T) -> B<0> { match x { T::V1(p0, _, _) => m_into(p0), T::Unit { data: _, r#type: p1 } => ::core::convert::Into::into(p1) } }
pub fn o_into_2(x: T) -> B<2> { match x { T::V1(p0, _, _) => m_into(p0), T::Unit { data: _, r#type: p1 } => m_into(p1) } }
pub fn run(out: &mut Out) { let n = values().len(); for i in 0..n { let a = values().swap_remove(i); let shown = show(&a); let g: A<0> = ::core::convert::Into::into(a); let e = o_into_0(values().swap_remove(i)); out.check(sv(&g) == sv(&e), "into_149", "into", || format!("Into::<A<0>>::into({}) = {} expected {}", shown, sv(&g), sv(&e))); } for i in 0..n { let a = values().swap_remove(i); let shown = show(&a); let g: B<0> = ::core::convert::Into::into(a); let e = o_into_1(values().swap_remove(i)); out.check(sv(&g) == sv(&e), "into_149", "into", || format!("Into::<B<0>>::into({}) = {} expected {}", shown, sv(&g), sv(&e))); } for i in 0..n { let a = values().swap_remove(i); let shown = show(&a); let g: B<2> = ::core::convert::Into::into(a); let e = o_into_2(values().swap_remove(i)); out.check(sv(&g) == sv(&e), "into_149", "into", || format!("Into::<B<2>>::into({}) = {} expected {}", shown, sv(&g), sv(&e))); } }
