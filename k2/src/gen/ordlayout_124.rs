// ordlayout_124
#![allow(dead_code, unused_variables, unused_mut, unused_imports, non_shorthand_field_patterns, clippy::all)]
use crate::support::*;
use core::cmp::Ordering;
pub mod ty {
    #![deny(warnings)]
    #![allow(dead_code, unused_imports, non_snake_case)]
    use crate::support::{A, B, C, Good, Bad, m_eq, m_cmp, m_pcmp, m_hash, m_fmt, m_clone, m_clone_c, m_into, g_eq, g_cmp, g_pcmp, g_hash, g_fmt};
    use educe::Educe;
#[derive(Educe)]
#[repr(i64)]
#[educe(Eq, PartialOrd, PartialEq)]
#[educe(Debug)]
pub enum T { None() = 255, Unit { state: ::core::num::NonZeroU8 } = -5, C { #[educe(PartialOrd(rank(0)))] a: bool, #[educe(PartialOrd(rank("-5"), ignore = false))] other: u8 } }
}
pub use ty::T;

pub fn values() -> Vec<T> { vec![T::None(), T::Unit { state: ::core::num::NonZeroU8::new(1).unwrap() }, T::Unit { state: ::core::num::NonZeroU8::new(200).unwrap() }, T::C { a: false, other: 0 }, T::C { a: false, other: 100 }, T::C { a: false, other: 200 }, T::C { a: true, other: 0 }, T::C { a: true, other: 100 }, T::C { a: true, other: 200 }] }
pub fn show(x: &T) -> String { #[allow(unused_variables)] match x { T::None() => format!("None()"), T::Unit { state: p0 } => format!("Unit({})", sv(p0)), T::C { a: p0, other: p1 } => format!("C({},{})", sv(p0), sv(p1)) } }
pub fn o_disc(x: &T) -> i128 { match x { T::None() => 255, T::Unit { state: _ } => -5, T::C { a: _, other: _ } => -4 } }
pub fn o_pcmp(a: &T, b: &T) -> Option<Ordering> { match (a, b) { (T::None(), T::None()) => {  Some(Ordering::Equal) }, (T::Unit { state: a0 }, T::Unit { state: b0 }) => { match ::core::cmp::PartialOrd::partial_cmp(a0, b0) { Some(Ordering::Equal) => (), x => return x } Some(Ordering::Equal) }, (T::C { a: a0, other: a1 }, T::C { a: b0, other: b1 }) => { match ::core::cmp::PartialOrd::partial_cmp(a1, b1) { Some(Ordering::Equal) => (), x => return x } match ::core::cmp::PartialOrd::partial_cmp(a0, b0) { Some(Ordering::Equal) => (), x => return x } Some(Ordering::Equal) }, _ => Some(o_disc(a).cmp(&o_disc(b))) } }
#[repr(C)] pub struct Wrap { pub pre: u8, pub x: T, pub post: [u8; 9] }
pub fn wrap(i: usize, n: u8) -> Wrap { Wrap { pre: n, x: values().swap_remove(i), post: [n; 9] } }
pub fn run(out: &mut Out) { let vs = values(); for (i, a) in vs.iter().enumerate() { for (j, b) in vs.iter().enumerate() { let e = o_pcmp(a, b); let g = ::core::cmp::PartialOrd::partial_cmp(a, b); out.check(g == e, "ordlayout_124", "partial_cmp", || format!("partial_cmp({}, {}) = {:?} expected {:?}", show(a), show(b), g, e)); for n in [0u8, 1, 0x7f, 0x80, 0xff] { let wa = wrap(i, n); let wb = wrap(j, !n); let g = ::core::cmp::PartialOrd::partial_cmp(&wa.x, &wb.x); let e = o_pcmp(a, b); out.check(g == e, "ordlayout_124", "cmp_neighbours", || format!("cmp({}, {}) with neighbour bytes {} = {:?} expected {:?}", show(a), show(b), n, g, e)); } } } }
