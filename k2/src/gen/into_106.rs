// into_106
#![allow(dead_code, unused_variables, unused_mut, unused_imports, non_shorthand_field_patterns, clippy::all)]
use crate::support::*;
use educe::Educe;
use core::cmp::Ordering;
#[derive(Educe)]
#[educe(Into(A<1>))]
pub enum T { Some(A<1>, A<3>, A<0>), C(#[educe(Into(A<1>))] A<1>), Unit(A<1>, A<2>) }
pub fn values() -> Vec<T> { vec![T::Some(A(1), A(7), A(1)), T::Some(A(7), A(0), A(1)), T::Some(A(7), A(7), A(0)), T::Some(A(7), A(0), A(7)), T::C(A(0)), T::C(A(1)), T::C(A(7)), T::Unit(A(0), A(7)), T::Unit(A(7), A(1)), T::Unit(A(0), A(1)), T::Unit(A(1), A(0))] }
pub fn show(x: &T) -> String { #[allow(unused_variables)] match x { T::Some(p0, p1, p2) => format!("Some({},{},{})", sv(p0), sv(p1), sv(p2)), T::C(p0) => format!("C({})", sv(p0)), T::Unit(p0, p1) => format!("Unit({},{})", sv(p0), sv(p1)) } }
pub fn o_into_0(x: T) -> A<1> { match x { T::Some(p0, _, _) => p0, T::C(p0) => p0, T::Unit(p0, _) => p0 } }
pub fn run(out: &mut Out) { let n = values().len(); for i in 0..n { let a = values().swap_remove(i); let shown = show(&a); let g: A<1> = ::core::convert::Into::into(a); let e = o_into_0(values().swap_remove(i)); out.check(sv(&g) == sv(&e), "into_106", "into", || format!("Into::<A<1>>::into({}) = {} expected {}", shown, sv(&g), sv(&e))); } }
