// ordlayout_98
#![allow(dead_code, unused_variables, unused_mut, unused_imports, non_shorthand_field_patterns, clippy::all)]
use crate::support::*;
use core::cmp::Ordering;
pub mod ty {
    #![deny(warnings)]
    #![allow(dead_code, unused_imports, non_snake_case)]
    use crate::support::{A, B, C, Good, Bad, m_eq, m_cmp, m_pcmp, m_hash, m_fmt, m_clone, m_clone_c, m_into, g_eq, g_cmp, g_pcmp, g_hash, g_fmt};
    use educe::Educe;
#[derive(Educe)]
#[educe(Debug)]
#[educe(PartialEq, Eq, Ord)]
pub enum T { A { #[educe(Ord(ignore = false))] a: &'static u8, #[educe(Debug = false)] #[educe(Ord(rank(-4)))] _c: i64, #[educe(Ord(rank("-1")))] c: char }, Unit, V1(#[educe(Debug = false)] #[educe(Ord(ignore(false)))] &'static u8, #[educe(Debug = false)] ()), B { #[educe(Debug(ignore = false), Ord(rank = "+0"))] c: Option<u8>, #[educe(Debug(ignore = false), Ord(rank = "-6"))] builder: () } }
}
pub use ty::T;
impl PartialOrd for T { fn partial_cmp(&self, o: &Self) -> Option<Ordering> { Some(::core::cmp::Ord::cmp(self, o)) } }
pub fn values() -> Vec<T> { vec![T::A { a: &200u8, _c: 9, c: 'a' }, T::A { a: &3u8, _c: 9, c: 'z' }, T::A { a: &200u8, _c: -5, c: 'z' }, T::A { a: &200u8, _c: -5, c: 'a' }, T::A { a: &3u8, _c: -5, c: 'a' }, T::A { a: &200u8, _c: 9, c: 'z' }, T::A { a: &200u8, _c: 0, c: 'z' }, T::A { a: &3u8, _c: 0, c: 'a' }, T::A { a: &3u8, _c: -5, c: 'z' }, T::Unit, T::V1(&3u8, ()), T::V1(&200u8, ()), T::B { c: None, builder: () }, T::B { c: Some(0), builder: () }, T::B { c: Some(255), builder: () }] }
pub fn show(x: &T) -> String { #[allow(unused_variables)] match x { T::A { a: p0, _c: p1, c: p2 } => format!("A({},{},{})", sv(p0), sv(p1), sv(p2)), T::Unit => format!("Unit()"), T::V1(p0, p1) => format!("V1({},{})", sv(p0), sv(p1)), T::B { c: p0, builder: p1 } => format!("B({},{})", sv(p0), sv(p1)) } }
pub fn o_disc(x: &T) -> i128 { match x { T::A { a: _, _c: _, c: _ } => 0, T::Unit => 1, T::V1(_, _) => 2, T::B { c: _, builder: _ } => 3 } }
pub fn o_cmp(a: &T, b: &T) -> Ordering { match (a, b) { (T::A { a: a0, _c: a1, c: a2 }, T::A { a: b0, _c: b1, c: b2 }) => { let c = ::core::cmp::Ord::cmp(a0, b0); if c != Ordering::Equal { return c; } let c = ::core::cmp::Ord::cmp(a1, b1); if c != Ordering::Equal { return c; } let c = ::core::cmp::Ord::cmp(a2, b2); if c != Ordering::Equal { return c; } Ordering::Equal }, (T::Unit, T::Unit) => {  Ordering::Equal }, (T::V1(a0, a1), T::V1(b0, b1)) => { let c = ::core::cmp::Ord::cmp(a0, b0); if c != Ordering::Equal { return c; } let c = ::core::cmp::Ord::cmp(a1, b1); if c != Ordering::Equal { return c; } Ordering::Equal }, (T::B { c: a0, builder: a1 }, T::B { c: b0, builder: b1 }) => { let c = ::core::cmp::Ord::cmp(a1, b1); if c != Ordering::Equal { return c; } let c = ::core::cmp::Ord::cmp(a0, b0); if c != Ordering::Equal { return c; } Ordering::Equal }, _ => o_disc(a).cmp(&o_disc(b)) } }
#[repr(C)] pub struct Wrap { pub pre: u8, pub x: T, pub post: [u8; 9] }
pub fn wrap(i: usize, n: u8) -> Wrap { Wrap { pre: n, x: values().swap_remove(i), post: [n; 9] } }
pub fn run(out: &mut Out) { let vs = values(); for (i, a) in vs.iter().enumerate() { for (j, b) in vs.iter().enumerate() { let e = o_cmp(a, b); let g = ::core::cmp::Ord::cmp(a, b); out.check(g == e, "ordlayout_98", "cmp", || format!("cmp({}, {}) = {:?} expected {:?}", show(a), show(b), g, e)); for n in [0u8, 1, 0x7f, 0x80, 0xff] { let wa = wrap(i, n); let wb = wrap(j, !n); let g = ::core::cmp::Ord::cmp(&wa.x, &wb.x); let e = o_cmp(a, b); out.check(g == e, "ordlayout_98", "cmp_neighbours", || format!("cmp({}, {}) with neighbour bytes {} = {:?} expected {:?}", show(a), show(b), n, g, e)); } } } }
