// ordlayout_98
#![allow(dead_code, unused_variables, unused_mut, unused_imports, non_shorthand_field_patterns, clippy::all)]
use crate::support::*;
use educe::Educe;
use core::cmp::Ordering;
#[derive(Educe)]
#[educe(Eq, PartialEq, PartialOrd, Ord)]
pub enum T { Some { a: &'static u8, r#type: bool }, V1(), Unit }

pub fn values() -> Vec<T> { vec![T::Some { a: &3u8, r#type: false }, T::Some { a: &3u8, r#type: true }, T::Some { a: &200u8, r#type: false }, T::Some { a: &200u8, r#type: true }, T::V1(), T::Unit] }
pub fn show(x: &T) -> String { #[allow(unused_variables)] match x { T::Some { a: p0, r#type: p1 } => format!("Some({},{})", sv(p0), sv(p1)), T::V1() => format!("V1()"), T::Unit => format!("Unit()") } }
pub fn o_disc(x: &T) -> i128 { match x { T::Some { a: _, r#type: _ } => 0, T::V1() => 1, T::Unit => 2 } }
pub fn o_cmp(a: &T, b: &T) -> Ordering { match (a, b) { (T::Some { a: a0, r#type: a1 }, T::Some { a: b0, r#type: b1 }) => { let c = ::core::cmp::Ord::cmp(a0, b0); if c != Ordering::Equal { return c; } let c = ::core::cmp::Ord::cmp(a1, b1); if c != Ordering::Equal { return c; } Ordering::Equal }, (T::V1(), T::V1()) => {  Ordering::Equal }, (T::Unit, T::Unit) => {  Ordering::Equal }, _ => o_disc(a).cmp(&o_disc(b)) } }
#[repr(C)] pub struct Wrap { pub pre: u8, pub x: T, pub post: [u8; 9] }
pub fn wrap(i: usize, n: u8) -> Wrap { Wrap { pre: n, x: values().swap_remove(i), post: [n; 9] } }
pub fn run(out: &mut Out) { let vs = values(); for (i, a) in vs.iter().enumerate() { for (j, b) in vs.iter().enumerate() { let e = o_cmp(a, b); let g = ::core::cmp::Ord::cmp(a, b); out.check(g == e, "ordlayout_98", "cmp", || format!("cmp({}, {}) = {:?} expected {:?}", show(a), show(b), g, e)); let g2 = ::core::cmp::PartialOrd::partial_cmp(a, b); out.check(g2 == Some(e), "ordlayout_98", "partial_is_some_cmp", || format!("partial_cmp({}, {}) = {:?} expected Some({:?})", show(a), show(b), g2, e)); for n in [0u8, 1, 0x7f, 0x80, 0xff] { let wa = wrap(i, n); let wb = wrap(j, !n); let g = ::core::cmp::Ord::cmp(&wa.x, &wb.x); let e = o_cmp(a, b); out.check(g == e, "ordlayout_98", "cmp_neighbours", || format!("cmp({}, {}) with neighbour bytes {} = {:?} expected {:?}", show(a), show(b), n, g, e)); } } } }
