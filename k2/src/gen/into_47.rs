// into_47
#![allow(dead_code, unused_variables, unused_mut, unused_imports, non_shorthand_field_patterns, clippy::all)]
use crate::support::*;
use educe::Educe;
use core::cmp::Ordering;
#[derive(Educe)]
#[educe(Into(B<2>))]
pub struct T { data: A<1>, y: A<3>, #[educe(Into(B<2>, method = m_into))] b: A<3> }
pub fn values() -> Vec<T> { vec![T { data: A(1), y: A(1), b: A(7) }, T { data: A(7), y: A(7), b: A(1) }, T { data: A(1), y: A(7), b: A(0) }, T { data: A(7), y: A(1), b: A(0) }, T { data: A(0), y: A(1), b: A(0) }, T { data: A(1), y: A(1), b: A(1) }, T { data: A(0), y: A(0), b: A(7) }, T { data: A(7), y: A(1), b: A(7) }, T { data: A(7), y: A(7), b: A(7) }, T { data: A(1), y: A(7), b: A(7) }, T { data: A(0), y: A(7), b: A(7) }, T { data: A(7), y: A(7), b: A(0) }] }
pub fn show(x: &T) -> String { #[allow(unused_variables)] match x { T { data: p0, y: p1, b: p2 } => format!("T({},{},{})", sv(p0), sv(p1), sv(p2)) } }
pub fn o_into_0(x: T) -> B<2> { match x { T { data: _, y: _, b: p2 } => m_into(p2) } }
pub fn run(out: &mut Out) { let n = values().len(); for i in 0..n { let a = values().swap_remove(i); let shown = show(&a); let g: B<2> = ::core::convert::Into::into(a); let e = o_into_0(values().swap_remove(i)); out.check(sv(&g) == sv(&e), "into_47", "into", || format!("Into::<B<2>>::into({}) = {} expected {}", shown, sv(&g), sv(&e))); } }
