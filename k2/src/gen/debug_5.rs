// debug_5
#![allow(dead_code, unused_variables, unused_mut, unused_imports, non_shorthand_field_patterns, clippy::all)]
use crate::support::*;
use educe::Educe;
use core::cmp::Ordering;
#[derive(Educe)]
#[educe(Debug(name(Zz)))]
pub enum T { Zed { source: A<0>, #[educe(Debug(method = m_fmt, rename("k1")))] state: A<1>, #[educe(Debug = false)] y: A<2> }, #[educe(Debug(named_field(true)))] B(A<0>, A<1>, A<2>) }
pub fn values() -> Vec<T> { vec![T::Zed { source: A(1), state: A(0), y: A(0) }, T::Zed { source: A(7), state: A(1), y: A(0) }, T::Zed { source: A(0), state: A(0), y: A(7) }, T::Zed { source: A(1), state: A(1), y: A(7) }, T::Zed { source: A(0), state: A(7), y: A(1) }, T::Zed { source: A(7), state: A(0), y: A(1) }, T::Zed { source: A(7), state: A(7), y: A(0) }, T::Zed { source: A(1), state: A(7), y: A(1) }, T::Zed { source: A(1), state: A(1), y: A(0) }, T::Zed { source: A(0), state: A(0), y: A(0) }, T::Zed { source: A(7), state: A(1), y: A(7) }, T::Zed { source: A(0), state: A(1), y: A(7) }, T::B(A(0), A(1), A(0)), T::B(A(0), A(7), A(1)), T::B(A(7), A(1), A(0)), T::B(A(0), A(0), A(0)), T::B(A(0), A(1), A(7)), T::B(A(1), A(0), A(1)), T::B(A(7), A(7), A(0)), T::B(A(1), A(1), A(7)), T::B(A(7), A(7), A(1)), T::B(A(0), A(0), A(1)), T::B(A(7), A(0), A(0)), T::B(A(7), A(0), A(7))] }
pub fn show(x: &T) -> String { #[allow(unused_variables)] match x { T::Zed { source: p0, state: p1, y: p2 } => format!("Zed({},{},{})", sv(p0), sv(p1), sv(p2)), T::B(p0, p1, p2) => format!("B({},{},{})", sv(p0), sv(p1), sv(p2)) } }
pub fn o_fmt(x: &T, f: &mut ::core::fmt::Formatter<'_>) -> ::core::fmt::Result { match x { T::Zed { source: p0, state: p1, y: p2 } => f.debug_struct("Zz::Zed").field("source", p0).field("k1", &Wm(p1)).finish(), T::B(p0, p1, p2) => f.debug_struct("Zz::B").field("_0", p0).field("_1", p1).field("_2", p2).finish() } }

pub fn run(out: &mut Out) { let vs = values(); for a in &vs { let g = format!("{:?}", a); let e = format!("{:?}", Fm(|f: &mut ::core::fmt::Formatter<'_>| o_fmt(a, f))); out.check(g == e, "debug_5", "debug", || format!("{{:?}} of {} = {:?} expected {:?}", show(a), g, e)); let g = format!("{:#?}", a); let e = format!("{:#?}", Fm(|f: &mut ::core::fmt::Formatter<'_>| o_fmt(a, f))); out.check(g == e, "debug_5", "debug_alt", || format!("{{:#?}} of {} = {:?} expected {:?}", show(a), g, e)); let g = format!("{:8?}", a); let e = format!("{:8?}", Fm(|f: &mut ::core::fmt::Formatter<'_>| o_fmt(a, f))); out.check(g == e, "debug_5", "debug_width", || format!("{{:8?}} of {} = {:?} expected {:?}", show(a), g, e)); }  }
