// eq_108
#![allow(dead_code, unused_variables, unused_mut, unused_imports, non_shorthand_field_patterns, clippy::all)]
use crate::support::*;
use educe::Educe;
use core::cmp::Ordering;
#[derive(Educe)]
#[educe(PartialEq)]
pub enum T { V1, None(#[educe(PartialEq(ignore = true))] A<0>, A<1>) }
pub fn values() -> Vec<T> { vec![T::V1, T::None(A(0), A(0)), T::None(A(0), A(1)), T::None(A(0), A(7)), T::None(A(1), A(0)), T::None(A(1), A(1)), T::None(A(1), A(7)), T::None(A(7), A(0)), T::None(A(7), A(1)), T::None(A(7), A(7))] }
pub fn show(x: &T) -> String { #[allow(unused_variables)] match x { T::V1 => format!("V1()"), T::None(p0, p1) => format!("None({},{})", sv(p0), sv(p1)) } }
pub fn o_eq(a: &T, b: &T) -> bool { match (a, b) { (T::V1, T::V1) => true, (T::None(a0, a1), T::None(b0, b1)) => (a1 == b1), _ => false } }
pub fn run(out: &mut Out) { let vs = values(); for a in &vs { for b in &vs { let e = o_eq(a, b); out.check((a == b) == e, "eq_108", "eq", || format!("{} == {} expected {}", show(a), show(b), e)); out.check((a != b) == !e, "eq_108", "ne", || format!("{} != {} expected {}", show(a), show(b), !e)); } } }
