// ord_56
#![allow(dead_code, unused_variables, unused_mut, unused_imports, non_shorthand_field_patterns, clippy::all)]
use crate::support::*;
use educe::Educe;
use core::cmp::Ordering;
#[derive(Educe)]
#[educe(PartialEq, Eq, Ord)]
pub enum T { A(A<0>, #[educe(Ord(method = "m_cmp"))] A<0>), C, B { #[educe(Ord = false)] state: A<0>, #[educe(Ord(ignore(true)))] f: A<1> } }
impl PartialOrd for T { fn partial_cmp(&self, o: &Self) -> Option<Ordering> { Some(::core::cmp::Ord::cmp(self, o)) } }
pub fn values() -> Vec<T> { vec![T::A(A(0), A(0)), T::A(A(0), A(1)), T::A(A(0), A(7)), T::A(A(1), A(0)), T::A(A(1), A(1)), T::A(A(1), A(7)), T::A(A(7), A(0)), T::A(A(7), A(1)), T::A(A(7), A(7)), T::C, T::B { state: A(0), f: A(0) }, T::B { state: A(0), f: A(1) }, T::B { state: A(0), f: A(7) }, T::B { state: A(1), f: A(0) }, T::B { state: A(1), f: A(1) }, T::B { state: A(1), f: A(7) }, T::B { state: A(7), f: A(0) }, T::B { state: A(7), f: A(1) }, T::B { state: A(7), f: A(7) }] }
pub fn show(x: &T) -> String { #[allow(unused_variables)] match x { T::A(p0, p1) => format!("A({},{})", sv(p0), sv(p1)), T::C => format!("C()"), T::B { state: p0, f: p1 } => format!("B({},{})", sv(p0), sv(p1)) } }
pub fn o_disc(x: &T) -> i128 { match x { T::A(_, _) => 0, T::C => 1, T::B { state: _, f: _ } => 2 } }
pub fn o_cmp(a: &T, b: &T) -> Ordering { match (a, b) { (T::A(a0, a1), T::A(b0, b1)) => { let c = ::core::cmp::Ord::cmp(a0, b0); if c != Ordering::Equal { return c; } let c = m_cmp(a1, b1); if c != Ordering::Equal { return c; } Ordering::Equal }, (T::C, T::C) => {  Ordering::Equal }, (T::B { state: a0, f: a1 }, T::B { state: b0, f: b1 }) => {  Ordering::Equal }, _ => o_disc(a).cmp(&o_disc(b)) } }
pub fn run(out: &mut Out) { let vs = values(); for (i, a) in vs.iter().enumerate() { for (j, b) in vs.iter().enumerate() { let e = o_cmp(a, b); let g = ::core::cmp::Ord::cmp(a, b); out.check(g == e, "ord_56", "cmp", || format!("cmp({}, {}) = {:?} expected {:?}", show(a), show(b), g, e)); } } }
