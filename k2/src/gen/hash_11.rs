// hash_11
#![allow(dead_code, unused_variables, unused_mut, unused_imports, non_shorthand_field_patterns, clippy::all)]
use crate::support::*;
use educe::Educe;
use core::cmp::Ordering;
#[derive(Educe)]
#[educe(Hash)]
pub struct T;
pub fn values() -> Vec<T> { vec![T] }
pub fn show(x: &T) -> String { #[allow(unused_variables)] match x { T => format!("T()") } }
pub fn o_hash(x: &T) -> Vec<String> { let mut e = Rec::default(); match x { T => {  } } e.0 }
pub fn run(out: &mut Out) { let vs = values(); for a in &vs { let mut g = Rec::default(); ::core::hash::Hash::hash(a, &mut g); let e = o_hash(a); out.check(g.0 == e, "hash_11", "hash", || format!("hash({}) fed {:?} expected {:?}", show(a), g.0, e)); } }
