// debug_131
#![allow(dead_code, unused_variables, unused_mut, unused_imports, non_shorthand_field_patterns, clippy::all)]
use crate::support::*;
use educe::Educe;
use core::cmp::Ordering;
#[derive(Educe)]
#[educe(Debug)]
pub enum T { A(A<0>) }
pub fn values() -> Vec<T> { vec![T::A(A(0)), T::A(A(1)), T::A(A(7))] }
pub fn show(x: &T) -> String { #[allow(unused_variables)] match x { T::A(p0) => format!("A({})", sv(p0)) } }
pub fn o_fmt(x: &T, f: &mut ::core::fmt::Formatter<'_>) -> ::core::fmt::Result { match x { T::A(p0) => f.debug_tuple("A").field(p0).finish() } }
pub mod twin { use crate::support::*; #[derive(Debug)] pub enum T { A(A<0>) }
 pub fn values() -> Vec<T> { vec![T::A(A(0)), T::A(A(1)), T::A(A(7))] } }
pub fn run(out: &mut Out) { let vs = values(); for a in &vs { let g = format!("{:?}", a); let e = format!("{:?}", Fm(|f: &mut ::core::fmt::Formatter<'_>| o_fmt(a, f))); out.check(g == e, "debug_131", "debug", || format!("{{:?}} of {} = {:?} expected {:?}", show(a), g, e)); let g = format!("{:#?}", a); let e = format!("{:#?}", Fm(|f: &mut ::core::fmt::Formatter<'_>| o_fmt(a, f))); out.check(g == e, "debug_131", "debug_alt", || format!("{{:#?}} of {} = {:?} expected {:?}", show(a), g, e)); let g = format!("{:8?}", a); let e = format!("{:8?}", Fm(|f: &mut ::core::fmt::Formatter<'_>| o_fmt(a, f))); out.check(g == e, "debug_131", "debug_width", || format!("{{:8?}} of {} = {:?} expected {:?}", show(a), g, e)); } let tw = twin::values(); for (i, a) in vs.iter().enumerate() { let g = format!("{:?}", a); let e = format!("{:?}", tw[i]); out.check(g == e, "debug_131", "debug_vs_derive", || format!("{{:?}} = {:?} but #[derive(Debug)] gives {:?}", g, e)); let g = format!("{:#?}", a); let e = format!("{:#?}", tw[i]); out.check(g == e, "debug_131", "debug_alt_vs_derive", || format!("{{:#?}} = {:?} but #[derive(Debug)] gives {:?}", g, e)); } }
