// default_58
#![allow(dead_code, unused_variables, unused_mut, unused_imports, non_shorthand_field_patterns, clippy::all)]
use crate::support::*;
use educe::Educe;
use core::cmp::Ordering;
#[derive(Educe)]
#[educe(Default)]
pub struct T { #[educe(Default(expression(3)))] state: u64, c: u64, #[educe(Default(expr(1.5)))] b: f64 }
pub fn show(x: &T) -> String { #[allow(unused_variables)] match x { T { state: p0, c: p1, b: p2 } => format!("T({},{},{})", sv(p0), sv(p1), sv(p2)) } }
pub fn o_default() -> T { T { state: 3u64, c: 0u64, b: 1.5f64 } }
pub fn run(out: &mut Out) { let g = <T as ::core::default::Default>::default(); let e = o_default(); out.check(show(&g) == show(&e), "default_58", "default", || format!("default() = {} expected {}", show(&g), show(&e))); }
