// ord_38
#![allow(dead_code, unused_variables, unused_mut, unused_imports, non_shorthand_field_patterns, clippy::all)]
use crate::support::*;
use core::cmp::Ordering;
pub mod ty {
    #![deny(warnings)]
    #![allow(dead_code, unused_imports, non_snake_case)]
    use crate::support::{A, B, C, Good, Bad, m_eq, m_cmp, m_pcmp, m_hash, m_fmt, m_clone, m_clone_c, m_into, g_eq, g_cmp, g_pcmp, g_hash, g_fmt};
    use educe::Educe;
#[derive(Educe)]
#[educe(Eq, Ord, PartialEq, PartialOrd)]
#[educe(Debug)]
pub enum T { B { #[educe(PartialOrd(rank = 0x4))] self_data: A<0>, #[educe(PartialOrd(rank = -1))] #[educe(Debug = false)] other_data: A<1>, #[educe(PartialOrd(ignore))] y: A<2>, #[educe(PartialOrd(method(m_cmp), rank = "6"))] b: A<3> }, Zed, Unit { #[educe(PartialOrd(rank = "-2"))] builder: A<0>, #[educe(PartialOrd(ignore(true)))] #[educe(Debug(ignore = false))] source: A<0> } }
}
pub use ty::T;

pub fn values() -> Vec<T> { vec![T::B { self_data: A(0), other_data: A(0), y: A(0), b: A(7) }, T::B { self_data: A(0), other_data: A(1), y: A(0), b: A(7) }, T::B { self_data: A(7), other_data: A(7), y: A(7), b: A(1) }, T::B { self_data: A(1), other_data: A(7), y: A(1), b: A(7) }, T::B { self_data: A(0), other_data: A(7), y: A(7), b: A(7) }, T::B { self_data: A(1), other_data: A(0), y: A(1), b: A(7) }, T::B { self_data: A(7), other_data: A(1), y: A(1), b: A(0) }, T::B { self_data: A(0), other_data: A(1), y: A(1), b: A(0) }, T::B { self_data: A(0), other_data: A(1), y: A(1), b: A(7) }, T::B { self_data: A(7), other_data: A(1), y: A(0), b: A(7) }, T::B { self_data: A(1), other_data: A(1), y: A(1), b: A(0) }, T::B { self_data: A(1), other_data: A(0), y: A(1), b: A(1) }, T::Zed, T::Unit { builder: A(0), source: A(0) }, T::Unit { builder: A(0), source: A(1) }, T::Unit { builder: A(0), source: A(7) }, T::Unit { builder: A(1), source: A(0) }, T::Unit { builder: A(1), source: A(1) }, T::Unit { builder: A(1), source: A(7) }, T::Unit { builder: A(7), source: A(0) }, T::Unit { builder: A(7), source: A(1) }, T::Unit { builder: A(7), source: A(7) }] }
pub fn show(x: &T) -> String { #[allow(unused_variables)] match x { T::B { self_data: p0, other_data: p1, y: p2, b: p3 } => format!("B({},{},{},{})", sv(p0), sv(p1), sv(p2), sv(p3)), T::Zed => format!("Zed()"), T::Unit { builder: p0, source: p1 } => format!("Unit({},{})", sv(p0), sv(p1)) } }
pub fn o_disc(x: &T) -> i128 { match x { T::B { self_data: _, other_data: _, y: _, b: _ } => 0, T::Zed => 1, T::Unit { builder: _, source: _ } => 2 } }
pub fn o_cmp(a: &T, b: &T) -> Ordering { match (a, b) { (T::B { self_data: a0, other_data: a1, y: a2, b: a3 }, T::B { self_data: b0, other_data: b1, y: b2, b: b3 }) => { let c = ::core::cmp::Ord::cmp(a1, b1); if c != Ordering::Equal { return c; } let c = ::core::cmp::Ord::cmp(a0, b0); if c != Ordering::Equal { return c; } let c = m_cmp(a3, b3); if c != Ordering::Equal { return c; } Ordering::Equal }, (T::Zed, T::Zed) => {  Ordering::Equal }, (T::Unit { builder: a0, source: a1 }, T::Unit { builder: b0, source: b1 }) => { let c = ::core::cmp::Ord::cmp(a0, b0); if c != Ordering::Equal { return c; } Ordering::Equal }, _ => o_disc(a).cmp(&o_disc(b)) } }
pub fn run(out: &mut Out) { let vs = values(); for (i, a) in vs.iter().enumerate() { for (j, b) in vs.iter().enumerate() { let e = o_cmp(a, b); let g = ::core::cmp::Ord::cmp(a, b); out.check(g == e, "ord_38", "cmp", || format!("cmp({}, {}) = {:?} expected {:?}", show(a), show(b), g, e)); let g2 = ::core::cmp::PartialOrd::partial_cmp(a, b); out.check(g2 == Some(e), "ord_38", "partial_is_some_cmp", || format!("partial_cmp({}, {}) = {:?} expected Some({:?})", show(a), show(b), g2, e)); } } }
