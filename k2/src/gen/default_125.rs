// default_125
#![allow(dead_code, unused_variables, unused_mut, unused_imports, non_shorthand_field_patterns, clippy::all)]
use crate::support::*;
use educe::Educe;
use core::cmp::Ordering;
#[derive(Educe)]
#[educe(Default)]
pub enum T { Zed, None { _0: char, c: String, y: String, b: f32 }, Unit(f32), #[educe(Default)] V1 { #[educe(Default = 2.5f64)] f: f64, arg: f64, #[educe(Default(expression(7u8)))] state: u8, #[educe(Default(expression = 5))] a: u8 } }
pub fn show(x: &T) -> String { #[allow(unused_variables)] match x { T::Zed => format!("Zed()"), T::None { _0: p0, c: p1, y: p2, b: p3 } => format!("None({},{},{},{})", sv(p0), sv(p1), sv(p2), sv(p3)), T::Unit(p0) => format!("Unit({})", sv(p0)), T::V1 { f: p0, arg: p1, state: p2, a: p3 } => format!("V1({},{},{},{})", sv(p0), sv(p1), sv(p2), sv(p3)) } }
pub fn o_default() -> T { T::V1 { f: 2.5f64, arg: 0f64, state: 7u8, a: 5u8 } }
pub fn run(out: &mut Out) { let g = <T as ::core::default::Default>::default(); let e = o_default(); out.check(show(&g) == show(&e), "default_125", "default", || format!("default() = {} expected {}", show(&g), show(&e))); }
