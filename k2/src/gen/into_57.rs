// into_57
#![allow(dead_code, unused_variables, unused_mut, unused_imports, non_shorthand_field_patterns, clippy::all)]
use crate::support::*;
use educe::Educe;
use core::cmp::Ordering;
#[derive(Educe)]
#[educe(Into(B<1>), Into(A<0>), Into(B<2>))]
pub enum T { A { #[educe(Into(B<1>))] #[educe(Into(B<2>))] b: A<1>, x: A<0>, #[educe(Into(A<0>))] source: A<0> } }
pub fn values() -> Vec<T> { vec![T::A { b: A(7), x: A(0), source: A(0) }, T::A { b: A(0), x: A(1), source: A(0) }, T::A { b: A(7), x: A(0), source: A(1) }, T::A { b: A(7), x: A(1), source: A(7) }, T::A { b: A(1), x: A(7), source: A(0) }, T::A { b: A(0), x: A(0), source: A(0) }, T::A { b: A(0), x: A(1), source: A(7) }, T::A { b: A(7), x: A(0), source: A(7) }, T::A { b: A(0), x: A(0), source: A(1) }, T::A { b: A(0), x: A(7), source: A(0) }, T::A { b: A(1), x: A(1), source: A(1) }, T::A { b: A(7), x: A(7), source: A(7) }] }
pub fn show(x: &T) -> String { #[allow(unused_variables)] match x { T::A { b: p0, x: p1, source: p2 } => format!("A({},{},{})", sv(p0), sv(p1), sv(p2)) } }
pub fn o_into_0(x: T) -> B<1> { match x { T::A { b: p0, x: _, source: _ } => ::core::convert::Into::into(p0) } }
pub fn o_into_1(x: T) -> A<0> { match x { T::A { b: _, x: _, source: p2 } => p2 } }
pub fn o_into_2(x: T) -> B<2> { match x { T::A { b: p0, x: _, source: _ } => ::core::convert::Into::into(p0) } }
pub fn run(out: &mut Out) { let n = values().len(); for i in 0..n { let a = values().swap_remove(i); let shown = show(&a); let g: B<1> = ::core::convert::Into::into(a); let e = o_into_0(values().swap_remove(i)); out.check(sv(&g) == sv(&e), "into_57", "into", || format!("Into::<B<1>>::into({}) = {} expected {}", shown, sv(&g), sv(&e))); } for i in 0..n { let a = values().swap_remove(i); let shown = show(&a); let g: A<0> = ::core::convert::Into::into(a); let e = o_into_1(values().swap_remove(i)); out.check(sv(&g) == sv(&e), "into_57", "into", || format!("Into::<A<0>>::into({}) = {} expected {}", shown, sv(&g), sv(&e))); } for i in 0..n { let a = values().swap_remove(i); let shown = show(&a); let g: B<2> = ::core::convert::Into::into(a); let e = o_into_2(values().swap_remove(i)); out.check(sv(&g) == sv(&e), "into_57", "into", || format!("Into::<B<2>>::into({}) = {} expected {}", shown, sv(&g), sv(&e))); } }
