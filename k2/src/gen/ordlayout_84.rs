// ordlayout_84
#![allow(dead_code, unused_variables, unused_mut, unused_imports, non_shorthand_field_patterns, clippy::all)]
use crate::support::*;
use educe::Educe;
use core::cmp::Ordering;
#[derive(Educe)]
#[repr(align(8))]
#[educe(Ord, PartialEq, Eq, PartialOrd)]
pub enum T { Zed, B, C(#[educe(PartialOrd(rank = -2))] bool, #[educe(PartialOrd(rank("3")))] ::core::num::NonZeroU8), Unit(#[educe(PartialOrd(rank = "+8"))] bool, ()) }

pub fn values() -> Vec<T> { vec![T::Zed, T::B, T::C(false, ::core::num::NonZeroU8::new(1).unwrap()), T::C(false, ::core::num::NonZeroU8::new(200).unwrap()), T::C(true, ::core::num::NonZeroU8::new(1).unwrap()), T::C(true, ::core::num::NonZeroU8::new(200).unwrap()), T::Unit(false, ()), T::Unit(true, ())] }
pub fn show(x: &T) -> String { #[allow(unused_variables)] match x { T::Zed => format!("Zed()"), T::B => format!("B()"), T::C(p0, p1) => format!("C({},{})", sv(p0), sv(p1)), T::Unit(p0, p1) => format!("Unit({},{})", sv(p0), sv(p1)) } }
pub fn o_disc(x: &T) -> i128 { match x { T::Zed => 0, T::B => 1, T::C(_, _) => 2, T::Unit(_, _) => 3 } }
pub fn o_cmp(a: &T, b: &T) -> Ordering { match (a, b) { (T::Zed, T::Zed) => {  Ordering::Equal }, (T::B, T::B) => {  Ordering::Equal }, (T::C(a0, a1), T::C(b0, b1)) => { let c = ::core::cmp::Ord::cmp(a0, b0); if c != Ordering::Equal { return c; } let c = ::core::cmp::Ord::cmp(a1, b1); if c != Ordering::Equal { return c; } Ordering::Equal }, (T::Unit(a0, a1), T::Unit(b0, b1)) => { let c = ::core::cmp::Ord::cmp(a1, b1); if c != Ordering::Equal { return c; } let c = ::core::cmp::Ord::cmp(a0, b0); if c != Ordering::Equal { return c; } Ordering::Equal }, _ => o_disc(a).cmp(&o_disc(b)) } }
#[repr(C)] pub struct Wrap { pub pre: u8, pub x: T, pub post: [u8; 9] }
pub fn wrap(i: usize, n: u8) -> Wrap { Wrap { pre: n, x: values().swap_remove(i), post: [n; 9] } }
pub fn run(out: &mut Out) { let vs = values(); for (i, a) in vs.iter().enumerate() { for (j, b) in vs.iter().enumerate() { let e = o_cmp(a, b); let g = ::core::cmp::Ord::cmp(a, b); out.check(g == e, "ordlayout_84", "cmp", || format!("cmp({}, {}) = {:?} expected {:?}", show(a), show(b), g, e)); let g2 = ::core::cmp::PartialOrd::partial_cmp(a, b); out.check(g2 == Some(e), "ordlayout_84", "partial_is_some_cmp", || format!("partial_cmp({}, {}) = {:?} expected Some({:?})", show(a), show(b), g2, e)); for n in [0u8, 1, 0x7f, 0x80, 0xff] { let wa = wrap(i, n); let wb = wrap(j, !n); let g = ::core::cmp::Ord::cmp(&wa.x, &wb.x); let e = o_cmp(a, b); out.check(g == e, "ordlayout_84", "cmp_neighbours", || format!("cmp({}, {}) with neighbour bytes {} = {:?} expected {:?}", show(a), show(b), n, g, e)); } } } }
