// ord_144
#![allow(dead_code, unused_variables, unused_mut, unused_imports, non_shorthand_field_patterns, clippy::all)]
use crate::support::*;
use educe::Educe;
use core::cmp::Ordering;
#[derive(Educe)]
#[repr(isize)]
#[educe(Eq, PartialEq, PartialOrd, Ord)]
pub enum T { Some, None { #[educe(PartialOrd(rank = 0x5, method(m_cmp)))] state: A<0>, builder: A<1> } }

pub fn values() -> Vec<T> { vec![T::Some, T::None { state: A(0), builder: A(0) }, T::None { state: A(0), builder: A(1) }, T::None { state: A(0), builder: A(7) }, T::None { state: A(1), builder: A(0) }, T::None { state: A(1), builder: A(1) }, T::None { state: A(1), builder: A(7) }, T::None { state: A(7), builder: A(0) }, T::None { state: A(7), builder: A(1) }, T::None { state: A(7), builder: A(7) }] }
pub fn show(x: &T) -> String { #[allow(unused_variables)] match x { T::Some => format!("Some()"), T::None { state: p0, builder: p1 } => format!("None({},{})", sv(p0), sv(p1)) } }
pub fn o_disc(x: &T) -> i128 { match x { T::Some => 0, T::None { state: _, builder: _ } => 1 } }
pub fn o_cmp(a: &T, b: &T) -> Ordering { match (a, b) { (T::Some, T::Some) => {  Ordering::Equal }, (T::None { state: a0, builder: a1 }, T::None { state: b0, builder: b1 }) => { let c = ::core::cmp::Ord::cmp(a1, b1); if c != Ordering::Equal { return c; } let c = m_cmp(a0, b0); if c != Ordering::Equal { return c; } Ordering::Equal }, _ => o_disc(a).cmp(&o_disc(b)) } }
pub fn run(out: &mut Out) { let vs = values(); for (i, a) in vs.iter().enumerate() { for (j, b) in vs.iter().enumerate() { let e = o_cmp(a, b); let g = ::core::cmp::Ord::cmp(a, b); out.check(g == e, "ord_144", "cmp", || format!("cmp({}, {}) = {:?} expected {:?}", show(a), show(b), g, e)); let g2 = ::core::cmp::PartialOrd::partial_cmp(a, b); out.check(g2 == Some(e), "ord_144", "partial_is_some_cmp", || format!("partial_cmp({}, {}) = {:?} expected Some({:?})", show(a), show(b), g2, e)); } } }
