// ord_144
#![allow(dead_code, unused_variables, unused_mut, unused_imports, non_shorthand_field_patterns, clippy::all)]
use crate::support::*;
use core::cmp::Ordering;
pub mod ty {
    #![deny(warnings)]
    #![allow(dead_code, unused_imports, non_snake_case)]
    use crate::support::{A, B, C, Good, Bad, m_eq, m_cmp, m_pcmp, m_hash, m_fmt, m_clone, m_clone_c, m_into, g_eq, g_cmp, g_pcmp, g_hash, g_fmt};
    use educe::Educe;
#[derive(Educe)]
#[educe(Eq, PartialEq, PartialOrd)]
pub enum T { C {  }, B {  }, V1 { #[educe(PartialOrd(method = "m_pcmp", rank = 0))] other_data: A<0> }, None {  } }
}
pub use ty::T;

pub fn values() -> Vec<T> { vec![T::C {  }, T::B {  }, T::V1 { other_data: A(0) }, T::V1 { other_data: A(1) }, T::V1 { other_data: A(7) }, T::None {  }] }
pub fn show(x: &T) -> String { #[allow(unused_variables)] match x { T::C {  } => format!("C()"), T::B {  } => format!("B()"), T::V1 { other_data: p0 } => format!("V1({})", sv(p0)), T::None {  } => format!("None()") } }
pub fn o_disc(x: &T) -> i128 { match x { T::C {  } => 0, T::B {  } => 1, T::V1 { other_data: _ } => 2, T::None {  } => 3 } }
pub fn o_pcmp(a: &T, b: &T) -> Option<Ordering> { match (a, b) { (T::C {  }, T::C {  }) => {  Some(Ordering::Equal) }, (T::B {  }, T::B {  }) => {  Some(Ordering::Equal) }, (T::V1 { other_data: a0 }, T::V1 { other_data: b0 }) => { match m_pcmp(a0, b0) { Some(Ordering::Equal) => (), x => return x } Some(Ordering::Equal) }, (T::None {  }, T::None {  }) => {  Some(Ordering::Equal) }, _ => Some(o_disc(a).cmp(&o_disc(b))) } }
pub fn run(out: &mut Out) { let vs = values(); for (i, a) in vs.iter().enumerate() { for (j, b) in vs.iter().enumerate() { let e = o_pcmp(a, b); let g = ::core::cmp::PartialOrd::partial_cmp(a, b); out.check(g == e, "ord_144", "partial_cmp", || format!("partial_cmp({}, {}) = {:?} expected {:?}", show(a), show(b), g, e)); } } }
