// hash_25
#![allow(dead_code, unused_variables, unused_mut, unused_imports, non_shorthand_field_patterns, clippy::all)]
use crate::support::*;
use educe::Educe;
use core::cmp::Ordering;
#[derive(Educe)]
#[educe(Hash)]
pub enum T { None, B(#[educe(Hash = false)] A<0>, A<1>), C { state: A<0> }, V1 { #[educe(Hash(ignore = true))] size: A<0>, #[educe(Hash(ignore))] data: A<1>, #[educe(Hash = false)] y: A<0> } }
pub fn values() -> Vec<T> { vec![T::None, T::B(A(0), A(0)), T::B(A(0), A(1)), T::B(A(0), A(7)), T::B(A(1), A(0)), T::B(A(1), A(1)), T::B(A(1), A(7)), T::B(A(7), A(0)), T::B(A(7), A(1)), T::B(A(7), A(7)), T::C { state: A(0) }, T::C { state: A(1) }, T::C { state: A(7) }, T::V1 { size: A(1), data: A(1), y: A(7) }, T::V1 { size: A(7), data: A(1), y: A(7) }, T::V1 { size: A(0), data: A(1), y: A(1) }, T::V1 { size: A(0), data: A(1), y: A(0) }, T::V1 { size: A(7), data: A(0), y: A(1) }, T::V1 { size: A(1), data: A(7), y: A(1) }, T::V1 { size: A(0), data: A(0), y: A(0) }, T::V1 { size: A(0), data: A(7), y: A(7) }, T::V1 { size: A(7), data: A(1), y: A(1) }, T::V1 { size: A(1), data: A(1), y: A(0) }, T::V1 { size: A(0), data: A(0), y: A(7) }, T::V1 { size: A(1), data: A(0), y: A(1) }] }
pub fn show(x: &T) -> String { #[allow(unused_variables)] match x { T::None => format!("None()"), T::B(p0, p1) => format!("B({},{})", sv(p0), sv(p1)), T::C { state: p0 } => format!("C({})", sv(p0)), T::V1 { size: p0, data: p1, y: p2 } => format!("V1({},{},{})", sv(p0), sv(p1), sv(p2)) } }
pub fn o_hash(x: &T) -> Vec<String> { let mut e = Rec::default(); match x { T::None => { ::core::hash::Hash::hash(&0usize, &mut e); }, T::B(p0, p1) => { ::core::hash::Hash::hash(&1usize, &mut e); ::core::hash::Hash::hash(p1, &mut e); }, T::C { state: p0 } => { ::core::hash::Hash::hash(&2usize, &mut e); ::core::hash::Hash::hash(p0, &mut e); }, T::V1 { size: p0, data: p1, y: p2 } => { ::core::hash::Hash::hash(&3usize, &mut e); } } e.0 }
pub fn run(out: &mut Out) { let vs = values(); for a in &vs { let mut g = Rec::default(); ::core::hash::Hash::hash(a, &mut g); let e = o_hash(a); out.check(g.0 == e, "hash_25", "hash", || format!("hash({}) fed {:?} expected {:?}", show(a), g.0, e)); } }
