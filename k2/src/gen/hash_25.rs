// hash_25
#![allow(dead_code, unused_variables, unused_mut, unused_imports, non_shorthand_field_patterns, clippy::all)]
use crate::support::*;
use core::cmp::Ordering;
pub mod ty {
    #![deny(warnings)]
    #![allow(dead_code, unused_imports)]
    use crate::support::{A, B, C, Good, Bad, m_eq, m_cmp, m_pcmp, m_hash, m_fmt, m_clone, m_clone_c, m_into, g_eq, g_cmp, g_pcmp, g_hash, g_fmt};
    use educe::Educe;

    // names at the derive site that shadow everything the generated code might be tempted to write unqualified
    #[allow(non_camel_case_types)] pub struct Option; pub struct Result; pub struct Ordering; pub struct Clone; pub struct Copy;
    pub struct Default; pub struct Debug; pub struct PartialEq; pub struct Eq; pub struct PartialOrd; pub struct Ord; pub struct Hash;
    pub struct Hasher; pub struct Into; pub struct From; pub struct Deref; pub struct DerefMut; pub struct Formatter; pub struct String;
    pub struct Vec; pub struct Box; pub struct PhantomData; pub struct Sized; pub struct Send; pub struct Iterator; pub struct Self_;
    #[allow(non_snake_case)] pub fn Some() {} #[allow(non_snake_case)] pub fn None() {} #[allow(non_snake_case)] pub fn Ok() {} #[allow(non_snake_case)] pub fn Err() {}
    pub fn drop() {} pub mod core {} pub mod std {} pub mod alloc {} pub mod fmt {} pub mod cmp {} pub mod hash {} pub mod clone {} pub mod marker {}
    #[allow(unused_macros)] macro_rules! stringify { ($($t:tt)*) => { "SHADOWED" } }
    #[allow(unused_macros)] macro_rules! unreachable { ($($t:tt)*) => { () } }
    #[allow(unused_macros)] macro_rules! panic { ($($t:tt)*) => { () } }
    #[allow(unused_macros)] macro_rules! matches { ($($t:tt)*) => { true } }
    #[allow(unused_macros)] macro_rules! write { ($($t:tt)*) => { () } }
    #[allow(unused_macros)] macro_rules! format_args { ($($t:tt)*) => { () } }
    #[allow(unused_macros)] macro_rules! assert { ($($t:tt)*) => { () } }
#[derive(Educe)]
#[educe(Hash)]
pub enum T { None(A<0>), A { x: A<0>, state: A<1>, #[educe(Hash(method = m_hash))] c: A<2> } }
}
pub use ty::T;
pub fn values() -> Vec<T> { vec![T::None(A(0)), T::None(A(1)), T::None(A(7)), T::A { x: A(7), state: A(7), c: A(0) }, T::A { x: A(1), state: A(7), c: A(7) }, T::A { x: A(7), state: A(7), c: A(7) }, T::A { x: A(0), state: A(0), c: A(7) }, T::A { x: A(7), state: A(0), c: A(0) }, T::A { x: A(0), state: A(7), c: A(7) }, T::A { x: A(1), state: A(1), c: A(1) }, T::A { x: A(0), state: A(1), c: A(7) }, T::A { x: A(0), state: A(7), c: A(0) }, T::A { x: A(1), state: A(0), c: A(1) }, T::A { x: A(0), state: A(7), c: A(1) }, T::A { x: A(1), state: A(1), c: A(0) }, T::A { x: A(7), state: A(1), c: A(1) }, T::A { x: A(1), state: A(1), c: A(7) }, T::A { x: A(7), state: A(1), c: A(7) }, T::A { x: A(7), state: A(1), c: A(0) }, T::A { x: A(1), state: A(0), c: A(0) }, T::A { x: A(1), state: A(7), c: A(0) }, T::A { x: A(7), state: A(0), c: A(7) }, T::A { x: A(1), state: A(7), c: A(1) }, T::A { x: A(0), state: A(0), c: A(0) }, T::A { x: A(0), state: A(1), c: A(1) }, T::A { x: A(1), state: A(0), c: A(7) }, T::A { x: A(0), state: A(1), c: A(0) }] }
pub fn show(x: &T) -> String { #[allow(unused_variables)] match x { T::None(p0) => format!("None({})", sv(p0)), T::A { x: p0, state: p1, c: p2 } => format!("A({},{},{})", sv(p0), sv(p1), sv(p2)) } }
pub fn o_hash(x: &T) -> Vec<String> { let mut e = Rec::default(); match x { T::None(p0) => { ::core::hash::Hash::hash(&0usize, &mut e); ::core::hash::Hash::hash(p0, &mut e); }, T::A { x: p0, state: p1, c: p2 } => { ::core::hash::Hash::hash(&1usize, &mut e); ::core::hash::Hash::hash(p0, &mut e); ::core::hash::Hash::hash(p1, &mut e); m_hash(p2, &mut e); } } e.0 }
pub fn run(out: &mut Out) { let vs = values(); for a in &vs { let mut g = Rec::default(); ::core::hash::Hash::hash(a, &mut g); let e = o_hash(a); out.check(g.0 == e, "hash_25", "hash", || format!("hash({}) fed {:?} expected {:?}", show(a), g.0, e)); } }
