// ordlayout_80
#![allow(dead_code, unused_variables, unused_mut, unused_imports, non_shorthand_field_patterns, clippy::all)]
use crate::support::*;
use educe::Educe;
use core::cmp::Ordering;
#[derive(Educe)]
#[repr(i64)]
#[educe(PartialEq, Ord, Eq)]
pub enum T { Unit { state: bool, #[educe(Ord(rank("5")))] f: u8 } = 200, B = 2 }
impl PartialOrd for T { fn partial_cmp(&self, o: &Self) -> Option<Ordering> { Some(::core::cmp::Ord::cmp(self, o)) } }
pub fn values() -> Vec<T> { vec![T::Unit { state: false, f: 0 }, T::Unit { state: false, f: 100 }, T::Unit { state: false, f: 200 }, T::Unit { state: true, f: 0 }, T::Unit { state: true, f: 100 }, T::Unit { state: true, f: 200 }, T::B] }
pub fn show(x: &T) -> String { #[allow(unused_variables)] match x { T::Unit { state: p0, f: p1 } => format!("Unit({},{})", sv(p0), sv(p1)), T::B => format!("B()") } }
pub fn o_disc(x: &T) -> i128 { match x { T::Unit { state: _, f: _ } => 200, T::B => 2 } }
pub fn o_cmp(a: &T, b: &T) -> Ordering { match (a, b) { (T::Unit { state: a0, f: a1 }, T::Unit { state: b0, f: b1 }) => { let c = ::core::cmp::Ord::cmp(a0, b0); if c != Ordering::Equal { return c; } let c = ::core::cmp::Ord::cmp(a1, b1); if c != Ordering::Equal { return c; } Ordering::Equal }, (T::B, T::B) => {  Ordering::Equal }, _ => o_disc(a).cmp(&o_disc(b)) } }
#[repr(C)] pub struct Wrap { pub pre: u8, pub x: T, pub post: [u8; 9] }
pub fn wrap(i: usize, n: u8) -> Wrap { Wrap { pre: n, x: values().swap_remove(i), post: [n; 9] } }
pub fn run(out: &mut Out) { let vs = values(); for (i, a) in vs.iter().enumerate() { for (j, b) in vs.iter().enumerate() { let e = o_cmp(a, b); let g = ::core::cmp::Ord::cmp(a, b); out.check(g == e, "ordlayout_80", "cmp", || format!("cmp({}, {}) = {:?} expected {:?}", show(a), show(b), g, e)); for n in [0u8, 1, 0x7f, 0x80, 0xff] { let wa = wrap(i, n); let wb = wrap(j, !n); let g = ::core::cmp::Ord::cmp(&wa.x, &wb.x); let e = o_cmp(a, b); out.check(g == e, "ordlayout_80", "cmp_neighbours", || format!("cmp({}, {}) with neighbour bytes {} = {:?} expected {:?}", show(a), show(b), n, g, e)); } } } }
