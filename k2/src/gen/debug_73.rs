// debug_73
#![allow(dead_code, unused_variables, unused_mut, unused_imports, non_shorthand_field_patterns, clippy::all)]
use crate::support::*;
use educe::Educe;
use core::cmp::Ordering;
#[derive(Educe)]
#[educe(Debug(name = "Zz"))]
pub enum T { #[educe(Debug(name(Ren)))] Unit, #[educe(Debug(named_field(true)))] C(#[educe(Debug(ignore = true))] A<0>) }
pub fn values() -> Vec<T> { vec![T::Unit, T::C(A(0)), T::C(A(1)), T::C(A(7))] }
pub fn show(x: &T) -> String { #[allow(unused_variables)] match x { T::Unit => format!("Unit()"), T::C(p0) => format!("C({})", sv(p0)) } }
pub fn o_fmt(x: &T, f: &mut ::core::fmt::Formatter<'_>) -> ::core::fmt::Result { match x { T::Unit => f.write_str("Zz::Ren"), T::C(p0) => f.debug_struct("Zz::C").finish() } }

pub fn run(out: &mut Out) { let vs = values(); for a in &vs { let g = format!("{:?}", a); let e = format!("{:?}", Fm(|f: &mut ::core::fmt::Formatter<'_>| o_fmt(a, f))); out.check(g == e, "debug_73", "debug", || format!("{{:?}} of {} = {:?} expected {:?}", show(a), g, e)); let g = format!("{:#?}", a); let e = format!("{:#?}", Fm(|f: &mut ::core::fmt::Formatter<'_>| o_fmt(a, f))); out.check(g == e, "debug_73", "debug_alt", || format!("{{:#?}} of {} = {:?} expected {:?}", show(a), g, e)); let g = format!("{:8?}", a); let e = format!("{:8?}", Fm(|f: &mut ::core::fmt::Formatter<'_>| o_fmt(a, f))); out.check(g == e, "debug_73", "debug_width", || format!("{{:8?}} of {} = {:?} expected {:?}", show(a), g, e)); }  }
