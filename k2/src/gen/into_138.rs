// into_138
#![allow(dead_code, unused_variables, unused_mut, unused_imports, non_shorthand_field_patterns, clippy::all)]
use crate::support::*;
use educe::Educe;
use core::cmp::Ordering;
#[derive(Educe)]
#[educe(Into(A<1>))]
#[educe(Into(A<0>))]
pub struct T { b: A<3>, other: A<1>, #[educe(Into(A<0>))] f: A<0> }
pub fn values() -> Vec<T> { vec![T { b: A(7), other: A(7), f: A(7) }, T { b: A(1), other: A(0), f: A(0) }, T { b: A(1), other: A(7), f: A(7) }, T { b: A(1), other: A(7), f: A(1) }, T { b: A(1), other: A(0), f: A(1) }, T { b: A(7), other: A(7), f: A(0) }, T { b: A(0), other: A(7), f: A(7) }, T { b: A(1), other: A(1), f: A(7) }, T { b: A(0), other: A(7), f: A(0) }, T { b: A(7), other: A(1), f: A(7) }, T { b: A(7), other: A(1), f: A(1) }, T { b: A(7), other: A(1), f: A(0) }] }
pub fn show(x: &T) -> String { #[allow(unused_variables)] match x { T { b: p0, other: p1, f: p2 } => format!("T({},{},{})", sv(p0), sv(p1), sv(p2)) } }
pub fn o_into_0(x: T) -> A<1> { match x { T { b: _, other: p1, f: _ } => p1 } }
pub fn o_into_1(x: T) -> A<0> { match x { T { b: _, other: _, f: p2 } => p2 } }
pub fn run(out: &mut Out) { let n = values().len(); for i in 0..n { let a = values().swap_remove(i); let shown = show(&a); let g: A<1> = ::core::convert::Into::into(a); let e = o_into_0(values().swap_remove(i)); out.check(sv(&g) == sv(&e), "into_138", "into", || format!("Into::<A<1>>::into({}) = {} expected {}", shown, sv(&g), sv(&e))); } for i in 0..n { let a = values().swap_remove(i); let shown = show(&a); let g: A<0> = ::core::convert::Into::into(a); let e = o_into_1(values().swap_remove(i)); out.check(sv(&g) == sv(&e), "into_138", "into", || format!("Into::<A<0>>::into({}) = {} expected {}", shown, sv(&g), sv(&e))); } }
