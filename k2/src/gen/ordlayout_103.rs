// ordlayout_103
#![allow(dead_code, unused_variables, unused_mut, unused_imports, non_shorthand_field_patterns, clippy::all)]
use crate::support::*;
use educe::Educe;
use core::cmp::Ordering;
#[derive(Educe)]
#[educe(Eq, PartialEq, PartialOrd, Ord)]
pub enum T { V1 { data: Option<u8>, #[educe(Ord(rank(-1)))] a: char }, Zed(#[educe(Ord(rank = "4"))] bool, #[educe(Ord(rank("5")))] ::core::num::NonZeroU8) }

pub fn values() -> Vec<T> { vec![T::V1 { data: None, a: 'a' }, T::V1 { data: None, a: 'z' }, T::V1 { data: Some(0), a: 'a' }, T::V1 { data: Some(0), a: 'z' }, T::V1 { data: Some(255), a: 'a' }, T::V1 { data: Some(255), a: 'z' }, T::Zed(false, ::core::num::NonZeroU8::new(1).unwrap()), T::Zed(false, ::core::num::NonZeroU8::new(200).unwrap()), T::Zed(true, ::core::num::NonZeroU8::new(1).unwrap()), T::Zed(true, ::core::num::NonZeroU8::new(200).unwrap())] }
pub fn show(x: &T) -> String { #[allow(unused_variables)] match x { T::V1 { data: p0, a: p1 } => format!("V1({},{})", sv(p0), sv(p1)), T::Zed(p0, p1) => format!("Zed({},{})", sv(p0), sv(p1)) } }
pub fn o_disc(x: &T) -> i128 { match x { T::V1 { data: _, a: _ } => 0, T::Zed(_, _) => 1 } }
pub fn o_cmp(a: &T, b: &T) -> Ordering { match (a, b) { (T::V1 { data: a0, a: a1 }, T::V1 { data: b0, a: b1 }) => { let c = ::core::cmp::Ord::cmp(a0, b0); if c != Ordering::Equal { return c; } let c = ::core::cmp::Ord::cmp(a1, b1); if c != Ordering::Equal { return c; } Ordering::Equal }, (T::Zed(a0, a1), T::Zed(b0, b1)) => { let c = ::core::cmp::Ord::cmp(a0, b0); if c != Ordering::Equal { return c; } let c = ::core::cmp::Ord::cmp(a1, b1); if c != Ordering::Equal { return c; } Ordering::Equal }, _ => o_disc(a).cmp(&o_disc(b)) } }
#[repr(C)] pub struct Wrap { pub pre: u8, pub x: T, pub post: [u8; 9] }
pub fn wrap(i: usize, n: u8) -> Wrap { Wrap { pre: n, x: values().swap_remove(i), post: [n; 9] } }
pub fn run(out: &mut Out) { let vs = values(); for (i, a) in vs.iter().enumerate() { for (j, b) in vs.iter().enumerate() { let e = o_cmp(a, b); let g = ::core::cmp::Ord::cmp(a, b); out.check(g == e, "ordlayout_103", "cmp", || format!("cmp({}, {}) = {:?} expected {:?}", show(a), show(b), g, e)); let g2 = ::core::cmp::PartialOrd::partial_cmp(a, b); out.check(g2 == Some(e), "ordlayout_103", "partial_is_some_cmp", || format!("partial_cmp({}, {}) = {:?} expected Some({:?})", show(a), show(b), g2, e)); for n in [0u8, 1, 0x7f, 0x80, 0xff] { let wa = wrap(i, n); let wb = wrap(j, !n); let g = ::core::cmp::Ord::cmp(&wa.x, &wb.x); let e = o_cmp(a, b); out.check(g == e, "ordlayout_103", "cmp_neighbours", || format!("cmp({}, {}) with neighbour bytes {} = {:?} expected {:?}", show(a), show(b), n, g, e)); } } } }
