// into_108
#![allow(dead_code, unused_variables, unused_mut, unused_imports, non_shorthand_field_patterns, clippy::all)]
use crate::support::*;
use educe::Educe;
use core::cmp::Ordering;
#[derive(Educe)]
#[educe(Into(B<1>), Into(A<1>))]
pub enum T { Zed { _0: A<0>, #[educe(Into(B<1>))] #[educe(Into(A<1>))] y: A<1> }, None(A<1>, #[educe(Into(B<1>))] A<2>), Some(#[educe(Into(B<1>, method = m_into))] A<1>, A<2>) }
pub fn values() -> Vec<T> { vec![T::Zed { _0: A(7), y: A(0) }, T::Zed { _0: A(0), y: A(1) }, T::Zed { _0: A(7), y: A(1) }, T::Zed { _0: A(0), y: A(7) }, T::None(A(1), A(7)), T::None(A(0), A(1)), T::None(A(7), A(1)), T::None(A(0), A(0)), T::Some(A(7), A(7)), T::Some(A(7), A(1)), T::Some(A(1), A(1)), T::Some(A(1), A(0))] }
pub fn show(x: &T) -> String { #[allow(unused_variables)] match x { T::Zed { _0: p0, y: p1 } => format!("Zed({},{})", sv(p0), sv(p1)), T::None(p0, p1) => format!("None({},{})", sv(p0), sv(p1)), T::Some(p0, p1) => format!("Some({},{})", sv(p0), sv(p1)) } }
pub fn o_into_0(x: T) -> B<1> { match x { T::Zed { _0: _, y: p1 } => ::core::convert::Into::into(p1), T::None(_, p1) => ::core::convert::Into::into(p1), T::Some(p0, _) => m_into(p0) } }
pub fn o_into_1(x: T) -> A<1> { match x { T::Zed { _0: _, y: p1 } => p1, T::None(p0, _) => p0, T::Some(p0, _) => p0 } }
pub fn run(out: &mut Out) { let n = values().len(); for i in 0..n { let a = values().swap_remove(i); let shown = show(&a); let g: B<1> = ::core::convert::Into::into(a); let e = o_into_0(values().swap_remove(i)); out.check(sv(&g) == sv(&e), "into_108", "into", || format!("Into::<B<1>>::into({}) = {} expected {}", shown, sv(&g), sv(&e))); } for i in 0..n { let a = values().swap_remove(i); let shown = show(&a); let g: A<1> = ::core::convert::Into::into(a); let e = o_into_1(values().swap_remove(i)); out.check(sv(&g) == sv(&e), "into_108", "into", || format!("Into::<A<1>>::into({}) = {} expected {}", shown, sv(&g), sv(&e))); } }
