// into_136
#![allow(dead_code, unused_variables, unused_mut, unused_imports, non_shorthand_field_patterns, clippy::all)]
use crate::support::*;
use educe::Educe;
use core::cmp::Ordering;
#[derive(Educe)]
#[educe(Into(B<1>), Into(A<1>))]
pub enum T { C { data: A<1>, #[educe(Into(B<1>, method = "m_into"))] c: A<3>, y: A<0> }, Zed { x: A<1>, #[educe(Into(B<1>, method = m_into))] builder: A<0>, state: A<0> }, B { b: A<1>, #[educe(Into(B<1>, method(m_into)))] r#type: A<3> }, V1 { #[educe(Into(B<1>, method = m_into))] #[educe(Into(A<1>))] b: A<1>, _0: A<2> } }
pub fn values() -> Vec<T> { vec![T::C { data: A(1), c: A(7), y: A(0) }, T::C { data: A(0), c: A(7), y: A(1) }, T::C { data: A(0), c: A(1), y: A(1) }, T::Zed { x: A(7), builder: A(0), state: A(0) }, T::Zed { x: A(7), builder: A(1), state: A(1) }, T::Zed { x: A(7), builder: A(7), state: A(1) }, T::B { b: A(7), r#type: A(1) }, T::B { b: A(1), r#type: A(1) }, T::B { b: A(0), r#type: A(0) }, T::V1 { b: A(1), _0: A(1) }, T::V1 { b: A(7), _0: A(7) }, T::V1 { b: A(0), _0: A(0) }] }
pub fn show(x: &T) -> String { #[allow(unused_variables)] match x { T::C { data: p0, c: p1, y: p2 } => format!("C({},{},{})", sv(p0), sv(p1), sv(p2)), T::Zed { x: p0, builder: p1, state: p2 } => format!("Zed({},{},{})", sv(p0), sv(p1), sv(p2)), T::B { b: p0, r#type: p1 } => format!("B({},{})", sv(p0), sv(p1)), T::V1 { b: p0, _0: p1 } => format!("V1({},{})", sv(p0), sv(p1)) } }
pub fn o_into_0(x: T) -> B<1> { match x { T::C { data: _, c: p1, y: _ } => m_into(p1), T::Zed { x: _, builder: p1, state: _ } => m_into(p1), T::B { b: _, r#type: p1 } => m_into(p1), T::V1 { b: p0, _0: _ } => m_into(p0) } }
pub fn o_into_1(x: T) -> A<1> { match x { T::C { data: p0, c: _, y: _ } => p0, T::Zed { x: p0, builder: _, state: _ } => p0, T::B { b: p0, r#type: _ } => p0, T::V1 { b: p0, _0: _ } => p0 } }
pub fn run(out: &mut Out) { let n = values().len(); for i in 0..n { let a = values().swap_remove(i); let shown = show(&a); let g: B<1> = ::core::convert::Into::into(a); let e = o_into_0(values().swap_remove(i)); out.check(sv(&g) == sv(&e), "into_136", "into", || format!("Into::<B<1>>::into({}) = {} expected {}", shown, sv(&g), sv(&e))); } for i in 0..n { let a = values().swap_remove(i); let shown = show(&a); let g: A<1> = ::core::convert::Into::into(a); let e = o_into_1(values().swap_remove(i)); out.check(sv(&g) == sv(&e), "into_136", "into", || format!("Into::<A<1>>::into({}) = {} expected {}", shown, sv(&g), sv(&e))); } }
