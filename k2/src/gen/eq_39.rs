// eq_39
#![allow(dead_code, unused_variables, unused_mut, unused_imports, non_shorthand_field_patterns, clippy::all)]
use crate::support::*;
use educe::Educe;
use core::cmp::Ordering;
#[derive(Educe)]
#[educe(PartialEq, Eq)]
pub enum T { B { other: A<0> }, Zed { size: A<0>, state: A<0> } }
pub fn values() -> Vec<T> { vec![T::B { other: A(0) }, T::B { other: A(1) }, T::B { other: A(7) }, T::Zed { size: A(0), state: A(0) }, T::Zed { size: A(0), state: A(1) }, T::Zed { size: A(0), state: A(7) }, T::Zed { size: A(1), state: A(0) }, T::Zed { size: A(1), state: A(1) }, T::Zed { size: A(1), state: A(7) }, T::Zed { size: A(7), state: A(0) }, T::Zed { size: A(7), state: A(1) }, T::Zed { size: A(7), state: A(7) }] }
pub fn show(x: &T) -> String { #[allow(unused_variables)] match x { T::B { other: p0 } => format!("B({})", sv(p0)), T::Zed { size: p0, state: p1 } => format!("Zed({},{})", sv(p0), sv(p1)) } }
pub fn o_eq(a: &T, b: &T) -> bool { match (a, b) { (T::B { other: a0 }, T::B { other: b0 }) => (a0 == b0), (T::Zed { size: a0, state: a1 }, T::Zed { size: b0, state: b1 }) => (a0 == b0) && (a1 == b1), _ => false } }
pub fn run(out: &mut Out) { let vs = values(); for a in &vs { for b in &vs { let e = o_eq(a, b); out.check((a == b) == e, "eq_39", "eq", || format!("{} == {} expected {}", show(a), show(b), e)); out.check((a != b) == !e, "eq_39", "ne", || format!("{} != {} expected {}", show(a), show(b), !e)); } } }
