// ordlayout_36
#![allow(dead_code, unused_variables, unused_mut, unused_imports, non_shorthand_field_patterns, clippy::all)]
use crate::support::*;
use educe::Educe;
use core::cmp::Ordering;
#[derive(Educe)]
#[repr(isize)]
#[educe(PartialEq, PartialOrd, Eq)]
pub enum T { B = 100, Zed(i64, #[educe(PartialOrd(rank(5)))] u8) = -170, A(#[educe(PartialOrd(rank(-1)))] (), #[educe(PartialOrd(rank = 0x2))] i64, #[educe(PartialOrd(rank = 0))] Option<u8>), Unit }

pub fn values() -> Vec<T> { vec![T::B, T::Zed(-5, 0), T::Zed(-5, 100), T::Zed(-5, 200), T::Zed(0, 0), T::Zed(0, 100), T::Zed(0, 200), T::Zed(9, 0), T::Zed(9, 100), T::Zed(9, 200), T::A((), -5, None), T::A((), -5, Some(0)), T::A((), -5, Some(255)), T::A((), 0, None), T::A((), 0, Some(0)), T::A((), 0, Some(255)), T::A((), 9, None), T::A((), 9, Some(0)), T::A((), 9, Some(255)), T::Unit] }
pub fn show(x: &T) -> String { #[allow(unused_variables)] match x { T::B => format!("B()"), T::Zed(p0, p1) => format!("Zed({},{})", sv(p0), sv(p1)), T::A(p0, p1, p2) => format!("A({},{},{})", sv(p0), sv(p1), sv(p2)), T::Unit => format!("Unit()") } }
pub fn o_disc(x: &T) -> i128 { match x { T::B => 100, T::Zed(_, _) => -170, T::A(_, _, _) => -169, T::Unit => -168 } }
pub fn o_pcmp(a: &T, b: &T) -> Option<Ordering> { match (a, b) { (T::B, T::B) => {  Some(Ordering::Equal) }, (T::Zed(a0, a1), T::Zed(b0, b1)) => { match ::core::cmp::PartialOrd::partial_cmp(a0, b0) { Some(Ordering::Equal) => (), x => return x } match ::core::cmp::PartialOrd::partial_cmp(a1, b1) { Some(Ordering::Equal) => (), x => return x } Some(Ordering::Equal) }, (T::A(a0, a1, a2), T::A(b0, b1, b2)) => { match ::core::cmp::PartialOrd::partial_cmp(a0, b0) { Some(Ordering::Equal) => (), x => return x } match ::core::cmp::PartialOrd::partial_cmp(a2, b2) { Some(Ordering::Equal) => (), x => return x } match ::core::cmp::PartialOrd::partial_cmp(a1, b1) { Some(Ordering::Equal) => (), x => return x } Some(Ordering::Equal) }, (T::Unit, T::Unit) => {  Some(Ordering::Equal) }, _ => Some(o_disc(a).cmp(&o_disc(b))) } }
#[repr(C)] pub struct Wrap { pub pre: u8, pub x: T, pub post: [u8; 9] }
pub fn wrap(i: usize, n: u8) -> Wrap { Wrap { pre: n, x: values().swap_remove(i), post: [n; 9] } }
pub fn run(out: &mut Out) { let vs = values(); for (i, a) in vs.iter().enumerate() { for (j, b) in vs.iter().enumerate() { let e = o_pcmp(a, b); let g = ::core::cmp::PartialOrd::partial_cmp(a, b); out.check(g == e, "ordlayout_36", "partial_cmp", || format!("partial_cmp({}, {}) = {:?} expected {:?}", show(a), show(b), g, e)); for n in [0u8, 1, 0x7f, 0x80, 0xff] { let wa = wrap(i, n); let wb = wrap(j, !n); let g = ::core::cmp::PartialOrd::partial_cmp(&wa.x, &wb.x); let e = o_pcmp(a, b); out.check(g == e, "ordlayout_36", "cmp_neighbours", || format!("cmp({}, {}) with neighbour bytes {} = {:?} expected {:?}", show(a), show(b), n, g, e)); } } } }
