// ordlayout_81
#![allow(dead_code, unused_variables, unused_mut, unused_imports, non_shorthand_field_patterns, clippy::all)]
use crate::support::*;
use educe::Educe;
use core::cmp::Ordering;
#[derive(Educe)]
#[educe(PartialEq, Eq, PartialOrd)]
pub enum T { None { x: char, arg: i64 }, B, A { #[educe(PartialOrd(rank = "2"))] source: bool, other: u8 } }

pub fn values() -> Vec<T> { vec![T::None { x: 'a', arg: -5 }, T::None { x: 'a', arg: 0 }, T::None { x: 'a', arg: 9 }, T::None { x: 'z', arg: -5 }, T::None { x: 'z', arg: 0 }, T::None { x: 'z', arg: 9 }, T::B, T::A { source: false, other: 0 }, T::A { source: false, other: 100 }, T::A { source: false, other: 200 }, T::A { source: true, other: 0 }, T::A { source: true, other: 100 }, T::A { source: true, other: 200 }] }
pub fn show(x: &T) -> String { #[allow(unused_variables)] match x { T::None { x: p0, arg: p1 } => format!("None({},{})", sv(p0), sv(p1)), T::B => format!("B()"), T::A { source: p0, other: p1 } => format!("A({},{})", sv(p0), sv(p1)) } }
pub fn o_disc(x: &T) -> i128 { match x { T::None { x: _, arg: _ } => 0, T::B => 1, T::A { source: _, other: _ } => 2 } }
pub fn o_pcmp(a: &T, b: &T) -> Option<Ordering> { match (a, b) { (T::None { x: a0, arg: a1 }, T::None { x: b0, arg: b1 }) => { match ::core::cmp::PartialOrd::partial_cmp(a0, b0) { Some(Ordering::Equal) => (), x => return x } match ::core::cmp::PartialOrd::partial_cmp(a1, b1) { Some(Ordering::Equal) => (), x => return x } Some(Ordering::Equal) }, (T::B, T::B) => {  Some(Ordering::Equal) }, (T::A { source: a0, other: a1 }, T::A { source: b0, other: b1 }) => { match ::core::cmp::PartialOrd::partial_cmp(a1, b1) { Some(Ordering::Equal) => (), x => return x } match ::core::cmp::PartialOrd::partial_cmp(a0, b0) { Some(Ordering::Equal) => (), x => return x } Some(Ordering::Equal) }, _ => Some(o_disc(a).cmp(&o_disc(b))) } }
#[repr(C)] pub struct Wrap { pub pre: u8, pub x: T, pub post: [u8; 9] }
pub fn wrap(i: usize, n: u8) -> Wrap { Wrap { pre: n, x: values().swap_remove(i), post: [n; 9] } }
pub fn run(out: &mut Out) { let vs = values(); for (i, a) in vs.iter().enumerate() { for (j, b) in vs.iter().enumerate() { let e = o_pcmp(a, b); let g = ::core::cmp::PartialOrd::partial_cmp(a, b); out.check(g == e, "ordlayout_81", "partial_cmp", || format!("partial_cmp({}, {}) = {:?} expected {:?}", show(a), show(b), g, e)); for n in [0u8, 1, 0x7f, 0x80, 0xff] { let wa = wrap(i, n); let wb = wrap(j, !n); let g = ::core::cmp::PartialOrd::partial_cmp(&wa.x, &wb.x); let e = o_pcmp(a, b); out.check(g == e, "ordlayout_81", "cmp_neighbours", || format!("cmp({}, {}) with neighbour bytes {} = {:?} expected {:?}", show(a), show(b), n, g, e)); } } } }
