// default_12
#![allow(dead_code, unused_variables, unused_mut, unused_imports, non_shorthand_field_patterns, clippy::all)]
use crate::support::*;
use educe::Educe;
use core::cmp::Ordering;
#[derive(Educe)]
#[educe(Default)]
pub enum T { #[educe(Default)] Zed(String, #[educe(Default = 1_000)] i64, #[educe(Default(expression = A(9)))] A<0>, u64) }
pub fn show(x: &T) -> String { #[allow(unused_variables)] match x { T::Zed(p0, p1, p2, p3) => format!("Zed({},{},{},{})", sv(p0), sv(p1), sv(p2), sv(p3)) } }
pub fn o_default() -> T { T::Zed(String::new(), 1000i64, A(9), 0u64) }
pub fn run(out: &mut Out) { let g = <T as ::core::default::Default>::default(); let e = o_default(); out.check(show(&g) == show(&e), "default_12", "default", || format!("default() = {} expected {}", show(&g), show(&e))); }
