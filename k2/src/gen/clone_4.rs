// clone_4
#![allow(dead_code, unused_variables, unused_mut, unused_imports, non_shorthand_field_patterns, clippy::all)]
use crate::support::*;
use educe::Educe;
use core::cmp::Ordering;
#[derive(Educe)]
#[educe(Copy, Clone)]
pub struct T(C<0>, C<0>, C<2>);
pub fn values() -> Vec<T> { vec![T(C(0), C(1), C(0)), T(C(2), C(1), C(2)), T(C(2), C(2), C(0)), T(C(2), C(1), C(1)), T(C(0), C(0), C(2)), T(C(0), C(0), C(0)), T(C(1), C(0), C(0)), T(C(0), C(2), C(1)), T(C(2), C(2), C(2)), T(C(1), C(1), C(0)), T(C(0), C(2), C(2)), T(C(1), C(1), C(1)), T(C(2), C(2), C(1)), T(C(2), C(1), C(0)), T(C(2), C(0), C(2)), T(C(0), C(2), C(0)), T(C(0), C(1), C(2)), T(C(1), C(2), C(0)), T(C(1), C(0), C(1)), T(C(1), C(2), C(2))] }
pub fn show(x: &T) -> String { #[allow(unused_variables)] match x { T(p0, p1, p2) => format!("T({},{},{})", sv(p0), sv(p1), sv(p2)) } }
pub fn o_clone(x: &T) -> T { match x { T(p0, p1, p2) => T(C(p0.0), C(p1.0), C(p2.0)) } }
pub fn o_log(x: &T) -> Vec<String> { match x { T(p0, p1, p2) => vec![] } }
pub fn run(out: &mut Out) { let vs = values(); for a in &vs { let _ = take_log(); let g = ::core::clone::Clone::clone(a); let l = take_log(); let e = o_clone(a); out.check(show(&g) == show(&e), "clone_4", "clone", || format!("clone({}) = {} expected {}", show(a), show(&g), show(&e))); let el = o_log(a); out.check(l == el, "clone_4", "clone_calls", || format!("clone({}) called {:?} expected {:?}", show(a), l, el)); } let n = vs.len(); for i in 0..n { for j in 0..n { let mut x = values().swap_remove(i); let shown = show(&x); ::core::clone::Clone::clone_from(&mut x, &vs[j]); let e = o_clone(&vs[j]); out.check(show(&x) == show(&e), "clone_4", "clone_from", || format!("{}.clone_from({}) = {} expected {}", shown, show(&vs[j]), show(&x), show(&e))); } }  fn is_copy<X: Copy>() {} is_copy::<T>(); }
