// eq_22
#![allow(dead_code, unused_variables, unused_mut, unused_imports, non_shorthand_field_patterns, clippy::all)]
use crate::support::*;
use educe::Educe;
use core::cmp::Ordering;
#[derive(Educe)]
#[educe(PartialEq)]
pub enum T { A { data: A<0> }, V1(#[educe(PartialEq(ignore(true)))] A<0>), None(A<0>, #[educe(PartialEq(ignore = false))] A<1>), Zed }
pub fn values() -> Vec<T> { vec![T::A { data: A(0) }, T::A { data: A(1) }, T::A { data: A(7) }, T::V1(A(0)), T::V1(A(1)), T::V1(A(7)), T::None(A(0), A(0)), T::None(A(0), A(1)), T::None(A(0), A(7)), T::None(A(1), A(0)), T::None(A(1), A(1)), T::None(A(1), A(7)), T::None(A(7), A(0)), T::None(A(7), A(1)), T::None(A(7), A(7)), T::Zed] }
pub fn show(x: &T) -> String { #[allow(unused_variables)] match x { T::A { data: p0 } => format!("A({})", sv(p0)), T::V1(p0) => format!("V1({})", sv(p0)), T::None(p0, p1) => format!("None({},{})", sv(p0), sv(p1)), T::Zed => format!("Zed()") } }
pub fn o_eq(a: &T, b: &T) -> bool { match (a, b) { (T::A { data: a0 }, T::A { data: b0 }) => (a0 == b0), (T::V1(a0), T::V1(b0)) => true, (T::None(a0, a1), T::None(b0, b1)) => (a0 == b0) && (a1 == b1), (T::Zed, T::Zed) => true, _ => false } }
pub fn run(out: &mut Out) { let vs = values(); for a in &vs { for b in &vs { let e = o_eq(a, b); out.check((a == b) == e, "eq_22", "eq", || format!("{} == {} expected {}", show(a), show(b), e)); out.check((a != b) == !e, "eq_22", "ne", || format!("{} != {} expected {}", show(a), show(b), !e)); } } }
