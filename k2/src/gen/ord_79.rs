// ord_79
#![allow(dead_code, unused_variables, unused_mut, unused_imports, non_shorthand_field_patterns, clippy::all)]
use crate::support::*;
use educe::Educe;
use core::cmp::Ordering;
#[derive(Educe)]
#[educe(Eq, Ord, PartialEq)]
pub struct T { #[educe(Ord(method = m_cmp))] other: A<0>, #[educe(Ord(ignore))] x: A<1>, #[educe(Ord(method = "m_cmp"))] _0: A<0> }
impl PartialOrd for T { fn partial_cmp(&self, o: &Self) -> Option<Ordering> { Some(::core::cmp::Ord::cmp(self, o)) } }
pub fn values() -> Vec<T> { vec![T { other: A(0), x: A(0), _0: A(0) }, T { other: A(0), x: A(0), _0: A(1) }, T { other: A(0), x: A(0), _0: A(7) }, T { other: A(0), x: A(1), _0: A(0) }, T { other: A(0), x: A(1), _0: A(1) }, T { other: A(0), x: A(1), _0: A(7) }, T { other: A(0), x: A(7), _0: A(0) }, T { other: A(0), x: A(7), _0: A(1) }, T { other: A(0), x: A(7), _0: A(7) }, T { other: A(1), x: A(0), _0: A(0) }, T { other: A(1), x: A(0), _0: A(1) }, T { other: A(1), x: A(0), _0: A(7) }, T { other: A(1), x: A(1), _0: A(0) }, T { other: A(1), x: A(1), _0: A(1) }, T { other: A(1), x: A(1), _0: A(7) }, T { other: A(1), x: A(7), _0: A(0) }, T { other: A(1), x: A(7), _0: A(1) }, T { other: A(1), x: A(7), _0: A(7) }, T { other: A(7), x: A(0), _0: A(0) }, T { other: A(7), x: A(0), _0: A(1) }, T { other: A(7), x: A(0), _0: A(7) }, T { other: A(7), x: A(1), _0: A(0) }, T { other: A(7), x: A(1), _0: A(1) }, T { other: A(7), x: A(1), _0: A(7) }, T { other: A(7), x: A(7), _0: A(0) }, T { other: A(7), x: A(7), _0: A(1) }, T { other: A(7), x: A(7), _0: A(7) }] }
pub fn show(x: &T) -> String { #[allow(unused_variables)] match x { T { other: p0, x: p1, _0: p2 } => format!("T({},{},{})", sv(p0), sv(p1), sv(p2)) } }
pub fn o_disc(x: &T) -> i128 { match x { T { other: _, x: _, _0: _ } => 0 } }
pub fn o_cmp(a: &T, b: &T) -> Ordering { match (a, b) { (T { other: a0, x: a1, _0: a2 }, T { other: b0, x: b1, _0: b2 }) => { let c = m_cmp(a0, b0); if c != Ordering::Equal { return c; } let c = m_cmp(a2, b2); if c != Ordering::Equal { return c; } Ordering::Equal } } }
pub fn run(out: &mut Out) { let vs = values(); for (i, a) in vs.iter().enumerate() { for (j, b) in vs.iter().enumerate() { let e = o_cmp(a, b); let g = ::core::cmp::Ord::cmp(a, b); out.check(g == e, "ord_79", "cmp", || format!("cmp({}, {}) = {:?} expected {:?}", show(a), show(b), g, e)); } } }
