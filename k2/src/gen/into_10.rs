// into_10
#![allow(dead_code, unused_variables, unused_mut, unused_imports, non_shorthand_field_patterns, clippy::all)]
use crate::support::*;
use educe::Educe;
use core::cmp::Ordering;
#[derive(Educe)]
#[educe(Into(A<0>))]
pub enum T { A { #[educe(Into(A<0>))] arg: A<0>, other: A<1>, y: A<1> }, Unit { state: A<1>, #[educe(Into(A<0>))] f: A<0> } }
pub fn values() -> Vec<T> { vec![T::A { arg: A(7), other: A(1), y: A(0) }, T::A { arg: A(7), other: A(0), y: A(0) }, T::A { arg: A(0), other: A(0), y: A(7) }, T::A { arg: A(7), other: A(0), y: A(7) }, T::A { arg: A(1), other: A(1), y: A(0) }, T::A { arg: A(0), other: A(7), y: A(1) }, T::Unit { state: A(0), f: A(1) }, T::Unit { state: A(7), f: A(1) }, T::Unit { state: A(7), f: A(0) }, T::Unit { state: A(0), f: A(7) }, T::Unit { state: A(0), f: A(0) }, T::Unit { state: A(7), f: A(7) }] }
pub fn show(x: &T) -> String { #[allow(unused_variables)] match x { T::A { arg: p0, other: p1, y: p2 } => format!("A({},{},{})", sv(p0), sv(p1), sv(p2)), T::Unit { state: p0, f: p1 } => format!("Unit({},{})", sv(p0), sv(p1)) } }
pub fn o_into_0(x: T) -> A<0> { match x { T::A { arg: p0, other: _, y: _ } => p0, T::Unit { state: _, f: p1 } => p1 } }
pub fn run(out: &mut Out) { let n = values().len(); for i in 0..n { let a = values().swap_remove(i); let shown = show(&a); let g: A<0> = ::core::convert::Into::into(a); let e = o_into_0(values().swap_remove(i)); out.check(sv(&g) == sv(&e), "into_10", "into", || format!("Into::<A<0>>::into({}) = {} expected {}", shown, sv(&g), sv(&e))); } }
