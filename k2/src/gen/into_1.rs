// into_1
#![allow(dead_code, unused_variables, unused_mut, unused_imports, non_shorthand_field_patterns, clippy::all)]
use crate::support::*;
use educe::Educe;
use core::cmp::Ordering;
#[derive(Educe)]
#[educe(Into(B<0>))]
#[educe(Into(B<1>))]
pub enum T { V1(#[educe(Into(B<0>))] #[educe(Into(B<1>, method(m_into)))] A<1>, A<1>), Some { _0: A<3> }, B(A<2>), A { size: A<0>, #[educe(Into(B<0>, method = "m_into"))] builder: A<2>, #[educe(Into(B<1>))] r#type: A<1> } }
pub fn values() -> Vec<T> { vec![T::V1(A(1), A(0)), T::V1(A(0), A(1)), T::V1(A(1), A(7)), T::Some { _0: A(0) }, T::Some { _0: A(1) }, T::Some { _0: A(7) }, T::B(A(0)), T::B(A(1)), T::B(A(7)), T::A { size: A(7), builder: A(7), r#type: A(0) }, T::A { size: A(0), builder: A(0), r#type: A(1) }, T::A { size: A(1), builder: A(7), r#type: A(1) }] }
pub fn show(x: &T) -> String { #[allow(unused_variables)] match x { T::V1(p0, p1) => format!("V1({},{})", sv(p0), sv(p1)), T::Some { _0: p0 } => format!("Some({})", sv(p0)), T::B(p0) => format!("B({})", sv(p0)), T::A { size: p0, builder: p1, r#type: p2 } => format!("A({},{},{})", sv(p0), sv(p1), sv(p2)) } }
pub fn o_into_0(x: T) -> B<0> { match x { T::V1(p0, _) => ::core::convert::Into::into(p0), T::Some { _0: p0 } => ::core::convert::Into::into(p0), T::B(p0) => ::core::convert::Into::into(p0), T::A { size: _, builder: p1, r#type: _ } => m_into(p1) } }
pub fn o_into_1(x: T) -> B<1> { match x { T::V1(p0, _) => m_into(p0), T::Some { _0: p0 } => ::core::convert::Into::into(p0), T::B(p0) => ::core::convert::Into::into(p0), T::A { size: _, builder: _, r#type: p2 } => ::core::convert::Into::into(p2) } }
pub fn run(out: &mut Out) { let n = values().len(); for i in 0..n { let a = values().swap_remove(i); let shown = show(&a); let g: B<0> = ::core::convert::Into::into(a); let e = o_into_0(values().swap_remove(i)); out.check(sv(&g) == sv(&e), "into_1", "into", || format!("Into::<B<0>>::into({}) = {} expected {}", shown, sv(&g), sv(&e))); } for i in 0..n { let a = values().swap_remove(i); let shown = show(&a); let g: B<1> = ::core::convert::Into::into(a); let e = o_into_1(values().swap_remove(i)); out.check(sv(&g) == sv(&e), "into_1", "into", || format!("Into::<B<1>>::into({}) = {} expected {}", shown, sv(&g), sv(&e))); } }
