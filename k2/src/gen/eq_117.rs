// eq_117
#![allow(dead_code, unused_variables, unused_mut, unused_imports, non_shorthand_field_patterns, clippy::all)]
use crate::support::*;
use educe::Educe;
use core::cmp::Ordering;
#[derive(Educe)]
#[educe(PartialEq)]
pub enum T { C(), Zed(#[educe(PartialEq(method = "m_eq"))] A<0>, #[educe(PartialEq(method = "m_eq"))] A<1>, #[educe(PartialEq = false)] A<2>), V1 }
pub fn values() -> Vec<T> { vec![T::C(), T::Zed(A(0), A(7), A(1)), T::Zed(A(7), A(0), A(0)), T::Zed(A(1), A(1), A(1)), T::Zed(A(7), A(7), A(0)), T::Zed(A(1), A(7), A(0)), T::Zed(A(1), A(1), A(0)), T::Zed(A(7), A(7), A(7)), T::Zed(A(1), A(0), A(7)), T::Zed(A(0), A(1), A(7)), T::Zed(A(1), A(7), A(1)), T::Zed(A(7), A(1), A(7)), T::Zed(A(0), A(7), A(0)), T::Zed(A(1), A(0), A(1)), T::Zed(A(7), A(0), A(1)), T::Zed(A(0), A(7), A(7)), T::Zed(A(1), A(0), A(0)), T::V1] }
pub fn show(x: &T) -> String { #[allow(unused_variables)] match x { T::C() => format!("C()"), T::Zed(p0, p1, p2) => format!("Zed({},{},{})", sv(p0), sv(p1), sv(p2)), T::V1 => format!("V1()") } }
pub fn o_eq(a: &T, b: &T) -> bool { match (a, b) { (T::C(), T::C()) => true, (T::Zed(a0, a1, a2), T::Zed(b0, b1, b2)) => m_eq(a0, b0) && m_eq(a1, b1), (T::V1, T::V1) => true, _ => false } }
pub fn run(out: &mut Out) { let vs = values(); for a in &vs { for b in &vs { let e = o_eq(a, b); out.check((a == b) == e, "eq_117", "eq", || format!("{} == {} expected {}", show(a), show(b), e)); out.check((a != b) == !e, "eq_117", "ne", || format!("{} != {} expected {}", show(a), show(b), !e)); } } }
