// clone_3
#![allow(dead_code, unused_variables, unused_mut, unused_imports, non_shorthand_field_patterns, clippy::all)]
use crate::support::*;
use educe::Educe;
use core::cmp::Ordering;
#[derive(Educe)]
#[educe(Clone, Copy)]
pub enum T { A { a: C<0>, x: C<1>, #[educe(Clone(method = m_clone_c))] data: C<2> }, Unit }
pub fn values() -> Vec<T> { vec![T::A { a: C(1), x: C(2), data: C(1) }, T::A { a: C(0), x: C(1), data: C(1) }, T::A { a: C(1), x: C(2), data: C(0) }, T::A { a: C(2), x: C(0), data: C(0) }, T::A { a: C(2), x: C(2), data: C(2) }, T::A { a: C(2), x: C(1), data: C(2) }, T::A { a: C(0), x: C(1), data: C(0) }, T::A { a: C(2), x: C(1), data: C(1) }, T::A { a: C(0), x: C(2), data: C(0) }, T::A { a: C(2), x: C(0), data: C(1) }, T::Unit] }
pub fn show(x: &T) -> String { #[allow(unused_variables)] match x { T::A { a: p0, x: p1, data: p2 } => format!("A({},{},{})", sv(p0), sv(p1), sv(p2)), T::Unit => format!("Unit()") } }
pub fn o_clone(x: &T) -> T { match x { T::A { a: p0, x: p1, data: p2 } => T::A { a: C(p0.0), x: C(p1.0), data: C(p2.0.wrapping_add(50)) }, T::Unit => T::Unit } }
pub fn o_log(x: &T) -> Vec<String> { match x { T::A { a: p0, x: p1, data: p2 } => vec![format!("clone C{} {}", p0.k(), p0.0), format!("clone C{} {}", p1.k(), p1.0), format!("m_clone C{} {}", p2.k(), p2.0)], T::Unit => vec![] } }
pub fn run(out: &mut Out) { let vs = values(); for a in &vs { let _ = take_log(); let g = ::core::clone::Clone::clone(a); let l = take_log(); let e = o_clone(a); out.check(show(&g) == show(&e), "clone_3", "clone", || format!("clone({}) = {} expected {}", show(a), show(&g), show(&e))); let el = o_log(a); out.check(l == el, "clone_3", "clone_calls", || format!("clone({}) called {:?} expected {:?}", show(a), l, el)); } let n = vs.len(); for i in 0..n { for j in 0..n { let mut x = values().swap_remove(i); let shown = show(&x); ::core::clone::Clone::clone_from(&mut x, &vs[j]); let e = o_clone(&vs[j]); out.check(show(&x) == show(&e), "clone_3", "clone_from", || format!("{}.clone_from({}) = {} expected {}", shown, show(&vs[j]), show(&x), show(&e))); } }  fn is_copy<X: Copy>() {} is_copy::<T>(); }
