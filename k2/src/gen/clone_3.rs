// clone_3
#![allow(dead_code, unused_variables, unused_mut, unused_imports, non_shorthand_field_patterns, clippy::all)]
use crate::support::*;
use core::cmp::Ordering;
pub mod ty {
    #![deny(warnings)]
    #![allow(dead_code, unused_imports)]
    use crate::support::{A, B, C, Good, Bad, m_eq, m_cmp, m_pcmp, m_hash, m_fmt, m_clone, m_clone_c, m_into, g_eq, g_cmp, g_pcmp, g_hash, g_fmt};
    use educe::Educe;

    // names at the derive site that shadow everything the generated code might be tempted to write unqualified
    #[allow(non_camel_case_types)] pub struct Option; pub struct Result; pub struct Ordering; pub struct Clone; pub struct Copy;
    pub struct Default; pub struct Debug; pub struct PartialEq; pub struct Eq; pub struct PartialOrd; pub struct Ord; pub struct Hash;
    pub struct Hasher; pub struct Into; pub struct From; pub struct Deref; pub struct DerefMut; pub struct Formatter; pub struct String;
    pub struct Vec; pub struct Box; pub struct PhantomData; pub struct Sized; pub struct Send; pub struct Iterator; pub struct Self_;
    #[allow(non_snake_case)] pub fn Some() {} #[allow(non_snake_case)] pub fn None() {} #[allow(non_snake_case)] pub fn Ok() {} #[allow(non_snake_case)] pub fn Err() {}
    pub fn drop() {} pub mod core {} pub mod std {} pub mod alloc {} pub mod fmt {} pub mod cmp {} pub mod hash {} pub mod clone {} pub mod marker {}
    #[allow(unused_macros)] macro_rules! stringify { ($($t:tt)*) => { "SHADOWED" } }
    #[allow(unused_macros)] macro_rules! unreachable { ($($t:tt)*) => { () } }
    #[allow(unused_macros)] macro_rules! panic { ($($t:tt)*) => { () } }
    #[allow(unused_macros)] macro_rules! matches { ($($t:tt)*) => { true } }
    #[allow(unused_macros)] macro_rules! write { ($($t:tt)*) => { () } }
    #[allow(unused_macros)] macro_rules! format_args { ($($t:tt)*) => { () } }
    #[allow(unused_macros)] macro_rules! assert { ($($t:tt)*) => { () } }
#[derive(Educe)]
#[educe(Clone)]
pub enum T { Some() }
}
pub use ty::T;
pub fn values() -> Vec<T> { vec![T::Some()] }
pub fn show(x: &T) -> String { #[allow(unused_variables)] match x { T::Some() => format!("Some()") } }
pub fn o_clone(x: &T) -> T { match x { T::Some() => T::Some() } }
pub fn o_log(x: &T) -> Vec<String> { match x { T::Some() => vec![] } }
pub fn run(out: &mut Out) { let vs = values(); for a in &vs { let _ = take_log(); let g = ::core::clone::Clone::clone(a); let l = take_log(); let e = o_clone(a); out.check(show(&g) == show(&e), "clone_3", "clone", || format!("clone({}) = {} expected {}", show(a), show(&g), show(&e))); let el = o_log(a); out.check(l == el, "clone_3", "clone_calls", || format!("clone({}) called {:?} expected {:?}", show(a), l, el)); } let n = vs.len(); for i in 0..n { for j in 0..n { let mut x = values().swap_remove(i); let shown = show(&x); ::core::clone::Clone::clone_from(&mut x, &vs[j]); let e = o_clone(&vs[j]); out.check(show(&x) == show(&e), "clone_3", "clone_from", || format!("{}.clone_from({}) = {} expected {}", shown, show(&vs[j]), show(&x), show(&e))); } } }
