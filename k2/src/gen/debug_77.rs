// debug_77
#![allow(dead_code, unused_variables, unused_mut, unused_imports, non_shorthand_field_patterns, clippy::all)]
use crate::support::*;
use educe::Educe;
use core::cmp::Ordering;
#[derive(Educe)]
#[educe(Debug)]
pub enum T { #[educe(Debug(named_field(true)))] A(#[educe(Debug(ignore(true)))] A<0>, A<0>, #[educe(Debug(method = m_fmt))] A<2>) }
pub fn values() -> Vec<T> { vec![T::A(A(1), A(7), A(7)), T::A(A(0), A(7), A(7)), T::A(A(1), A(1), A(7)), T::A(A(1), A(0), A(0)), T::A(A(7), A(0), A(0)), T::A(A(7), A(1), A(1)), T::A(A(7), A(1), A(7)), T::A(A(7), A(0), A(7)), T::A(A(0), A(7), A(0)), T::A(A(1), A(7), A(0)), T::A(A(7), A(7), A(0)), T::A(A(1), A(7), A(1)), T::A(A(0), A(1), A(7)), T::A(A(0), A(0), A(7)), T::A(A(1), A(1), A(1)), T::A(A(7), A(7), A(1)), T::A(A(0), A(0), A(0)), T::A(A(0), A(7), A(1)), T::A(A(0), A(1), A(0)), T::A(A(7), A(0), A(1)), T::A(A(1), A(0), A(1)), T::A(A(0), A(0), A(1)), T::A(A(7), A(7), A(7)), T::A(A(7), A(1), A(0))] }
pub fn show(x: &T) -> String { #[allow(unused_variables)] match x { T::A(p0, p1, p2) => format!("A({},{},{})", sv(p0), sv(p1), sv(p2)) } }
pub fn o_fmt(x: &T, f: &mut ::core::fmt::Formatter<'_>) -> ::core::fmt::Result { match x { T::A(p0, p1, p2) => f.debug_struct("A").field("_1", p1).field("_2", &Wm(p2)).finish() } }

pub fn run(out: &mut Out) { let vs = values(); for a in &vs { let g = format!("{:?}", a); let e = format!("{:?}", Fm(|f: &mut ::core::fmt::Formatter<'_>| o_fmt(a, f))); out.check(g == e, "debug_77", "debug", || format!("{{:?}} of {} = {:?} expected {:?}", show(a), g, e)); let g = format!("{:#?}", a); let e = format!("{:#?}", Fm(|f: &mut ::core::fmt::Formatter<'_>| o_fmt(a, f))); out.check(g == e, "debug_77", "debug_alt", || format!("{{:#?}} of {} = {:?} expected {:?}", show(a), g, e)); let g = format!("{:8?}", a); let e = format!("{:8?}", Fm(|f: &mut ::core::fmt::Formatter<'_>| o_fmt(a, f))); out.check(g == e, "debug_77", "debug_width", || format!("{{:8?}} of {} = {:?} expected {:?}", show(a), g, e)); }  }
