// deref_68
#![allow(dead_code, unused_variables, unused_mut, unused_imports, non_shorthand_field_patterns, clippy::all)]
use crate::support::*;
use educe::Educe;
use core::cmp::Ordering;
#[derive(Educe)]
#[educe(DerefMut, Deref)]
pub enum T { Some { #[educe(Deref, DerefMut)] builder: A<2> }, Zed { #[educe(DerefMut)] y: A<2>, size: A<1>, #[educe(Deref)] a: A<2> }, A(#[educe(Deref)] #[educe(DerefMut)] A<2>), B { other: A<1>, #[educe(Deref)] #[educe(DerefMut)] r#type: A<2> } }
pub fn values() -> Vec<T> { vec![T::Some { builder: A(0) }, T::Some { builder: A(1) }, T::Some { builder: A(7) }, T::Zed { y: A(1), size: A(7), a: A(1) }, T::Zed { y: A(7), size: A(7), a: A(0) }, T::Zed { y: A(7), size: A(0), a: A(1) }, T::Zed { y: A(1), size: A(0), a: A(0) }, T::A(A(0)), T::A(A(1)), T::A(A(7)), T::B { other: A(0), r#type: A(0) }, T::B { other: A(0), r#type: A(7) }, T::B { other: A(0), r#type: A(1) }, T::B { other: A(1), r#type: A(1) }] }
pub fn show(x: &T) -> String { #[allow(unused_variables)] match x { T::Some { builder: p0 } => format!("Some({})", sv(p0)), T::Zed { y: p0, size: p1, a: p2 } => format!("Zed({},{},{})", sv(p0), sv(p1), sv(p2)), T::A(p0) => format!("A({})", sv(p0)), T::B { other: p0, r#type: p1 } => format!("B({},{})", sv(p0), sv(p1)) } }
pub fn o_deref(x: &T) -> *const A<2> { match x { T::Some { builder: p0 } => p0 as *const A<2>, T::Zed { y: _, size: _, a: p2 } => p2 as *const A<2>, T::A(p0) => p0 as *const A<2>, T::B { other: _, r#type: p1 } => p1 as *const A<2> } }
pub fn o_deref_mut(x: &mut T) -> *mut A<2> { match x { T::Some { builder: p0 } => p0 as *mut A<2>, T::Zed { y: p0, size: _, a: _ } => p0 as *mut A<2>, T::A(p0) => p0 as *mut A<2>, T::B { other: _, r#type: p1 } => p1 as *mut A<2> } }
pub fn o_write(x: &mut T) { match x { T::Some { builder: p0 } => { *p0 = A(99); }, T::Zed { y: p0, size: _, a: _ } => { *p0 = A(99); }, T::A(p0) => { *p0 = A(99); }, T::B { other: _, r#type: p1 } => { *p1 = A(99); } } }
pub fn run(out: &mut Out) { let vs = values(); for a in &vs { let g = ::core::ops::Deref::deref(a) as *const A<2>; let e = o_deref(a); out.check(g == e, "deref_68", "deref", || format!("&*{} has another address than the designated field", show(a))); } let n = vs.len(); for i in 0..n { let mut x = values().swap_remove(i); let e = o_deref_mut(&mut x); let g = ::core::ops::DerefMut::deref_mut(&mut x) as *mut A<2>; out.check(g == e, "deref_68", "deref_mut", || format!("&mut *{} has another address than the designated field", show(&x))); let mut y = values().swap_remove(i); o_write(&mut y); *::core::ops::DerefMut::deref_mut(&mut x) = A(99); out.check(show(&x) == show(&y), "deref_68", "deref_mut_write", || format!("after a write through &mut *x: {} expected {}", show(&x), show(&y))); } }
