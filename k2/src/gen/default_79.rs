// default_79
#![allow(dead_code, unused_variables, unused_mut, unused_imports, non_shorthand_field_patterns, clippy::all)]
use crate::support::*;
use educe::Educe;
use core::cmp::Ordering;
#[derive(Educe)]
#[educe(Default)]
pub enum T { Zed {  }, #[educe(Default)] Some }
pub fn show(x: &T) -> String { #[allow(unused_variables)] match x { T::Zed {  } => format!("Zed()"), T::Some => format!("Some()") } }
pub fn o_default() -> T { T::Some }
pub fn run(out: &mut Out) { let g = <T as ::core::default::Default>::default(); let e = o_default(); out.check(show(&g) == show(&e), "default_79", "default", || format!("default() = {} expected {}", show(&g), show(&e))); }
