// ord_49
#![allow(dead_code, unused_variables, unused_mut, unused_imports, non_shorthand_field_patterns, clippy::all)]
use crate::support::*;
use core::cmp::Ordering;
pub mod ty {
    #![deny(warnings)]
    #![allow(dead_code, unused_imports, non_snake_case)]
    use crate::support::{A, B, C, Good, Bad, m_eq, m_cmp, m_pcmp, m_hash, m_fmt, m_clone, m_clone_c, m_into, g_eq, g_cmp, g_pcmp, g_hash, g_fmt};
    use educe::Educe;
#[derive(Educe)]
#[repr(align(8))]
#[educe(Debug)]
#[educe(Eq, Ord, PartialEq)]
pub enum T { B }
}
pub use ty::T;
impl PartialOrd for T { fn partial_cmp(&self, o: &Self) -> Option<Ordering> { Some(::core::cmp::Ord::cmp(self, o)) } }
pub fn values() -> Vec<T> { vec![T::B] }
pub fn show(x: &T) -> String { #[allow(unused_variables)] match x { T::B => format!("B()") } }
pub fn o_disc(x: &T) -> i128 { match x { T::B => 0 } }
pub fn o_cmp(a: &T, b: &T) -> Ordering { match (a, b) { (T::B, T::B) => {  Ordering::Equal } } }
pub fn run(out: &mut Out) { let vs = values(); for (i, a) in vs.iter().enumerate() { for (j, b) in vs.iter().enumerate() { let e = o_cmp(a, b); let g = ::core::cmp::Ord::cmp(a, b); out.check(g == e, "ord_49", "cmp", || format!("cmp({}, {}) = {:?} expected {:?}", show(a), show(b), g, e)); } } }
