// default_26
#![allow(dead_code, unused_variables, unused_mut, unused_imports, non_shorthand_field_patterns, clippy::all)]
use crate::support::*;
use educe::Educe;
use core::cmp::Ordering;
#[derive(Educe)]
#[educe(Default(new(true)))]
pub enum T { #[educe(Default)] A { c: String, #[educe(Default(expression(3)))] _0: u64, #[educe(Default = 7u8)] other: u8 }, C(A<3>, f64), Unit(f64, String, Option<u8>, A<0>), Some(u8, i128) }
pub fn show(x: &T) -> String { #[allow(unused_variables)] match x { T::A { c: p0, _0: p1, other: p2 } => format!("A({},{},{})", sv(p0), sv(p1), sv(p2)), T::C(p0, p1) => format!("C({},{})", sv(p0), sv(p1)), T::Unit(p0, p1, p2, p3) => format!("Unit({},{},{},{})", sv(p0), sv(p1), sv(p2), sv(p3)), T::Some(p0, p1) => format!("Some({},{})", sv(p0), sv(p1)) } }
pub fn o_default() -> T { T::A { c: String::new(), _0: 3u64, other: 7u8 } }
pub fn run(out: &mut Out) { let g = <T as ::core::default::Default>::default(); let e = o_default(); out.check(show(&g) == show(&e), "default_26", "default", || format!("default() = {} expected {}", show(&g), show(&e))); let g = T::new(); let e = o_default(); out.check(show(&g) == show(&e), "default_26", "new", || format!("new() = {} expected {}", show(&g), show(&e))); }
