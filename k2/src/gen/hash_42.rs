// hash_42
#![allow(dead_code, unused_variables, unused_mut, unused_imports, non_shorthand_field_patterns, clippy::all)]
use crate::support::*;
use educe::Educe;
use core::cmp::Ordering;
#[derive(Educe)]
#[educe(Hash)]
pub struct T { other: A<0> }
pub fn values() -> Vec<T> { vec![T { other: A(0) }, T { other: A(1) }, T { other: A(7) }] }
pub fn show(x: &T) -> String { #[allow(unused_variables)] match x { T { other: p0 } => format!("T({})", sv(p0)) } }
pub fn o_hash(x: &T) -> Vec<String> { let mut e = Rec::default(); match x { T { other: p0 } => { ::core::hash::Hash::hash(p0, &mut e); } } e.0 }
pub fn run(out: &mut Out) { let vs = values(); for a in &vs { let mut g = Rec::default(); ::core::hash::Hash::hash(a, &mut g); let e = o_hash(a); out.check(g.0 == e, "hash_42", "hash", || format!("hash({}) fed {:?} expected {:?}", show(a), g.0, e)); } }
