// eq_23
#![allow(dead_code, unused_variables, unused_mut, unused_imports, non_shorthand_field_patterns, clippy::all)]
use crate::support::*;
use educe::Educe;
use core::cmp::Ordering;
#[derive(Educe)]
#[educe(PartialEq, Eq)]
pub struct T { builder: A<0>, a: A<1>, #[educe(Eq(method = "m_eq"))] y: A<0> }
pub fn values() -> Vec<T> { vec![T { builder: A(0), a: A(0), y: A(0) }, T { builder: A(0), a: A(0), y: A(1) }, T { builder: A(0), a: A(0), y: A(7) }, T { builder: A(0), a: A(1), y: A(0) }, T { builder: A(0), a: A(1), y: A(1) }, T { builder: A(0), a: A(1), y: A(7) }, T { builder: A(0), a: A(7), y: A(0) }, T { builder: A(0), a: A(7), y: A(1) }, T { builder: A(0), a: A(7), y: A(7) }, T { builder: A(1), a: A(0), y: A(0) }, T { builder: A(1), a: A(0), y: A(1) }, T { builder: A(1), a: A(0), y: A(7) }, T { builder: A(1), a: A(1), y: A(0) }, T { builder: A(1), a: A(1), y: A(1) }, T { builder: A(1), a: A(1), y: A(7) }, T { builder: A(1), a: A(7), y: A(0) }, T { builder: A(1), a: A(7), y: A(1) }, T { builder: A(1), a: A(7), y: A(7) }, T { builder: A(7), a: A(0), y: A(0) }, T { builder: A(7), a: A(0), y: A(1) }, T { builder: A(7), a: A(0), y: A(7) }, T { builder: A(7), a: A(1), y: A(0) }, T { builder: A(7), a: A(1), y: A(1) }, T { builder: A(7), a: A(1), y: A(7) }, T { builder: A(7), a: A(7), y: A(0) }, T { builder: A(7), a: A(7), y: A(1) }, T { builder: A(7), a: A(7), y: A(7) }] }
pub fn show(x: &T) -> String { #[allow(unused_variables)] match x { T { builder: p0, a: p1, y: p2 } => format!("T({},{},{})", sv(p0), sv(p1), sv(p2)) } }
pub fn o_eq(a: &T, b: &T) -> bool { match (a, b) { (T { builder: a0, a: a1, y: a2 }, T { builder: b0, a: b1, y: b2 }) => (a0 == b0) && (a1 == b1) && m_eq(a2, b2) } }
pub fn run(out: &mut Out) { let vs = values(); for a in &vs { for b in &vs { let e = o_eq(a, b); out.check((a == b) == e, "eq_23", "eq", || format!("{} == {} expected {}", show(a), show(b), e)); out.check((a != b) == !e, "eq_23", "ne", || format!("{} != {} expected {}", show(a), show(b), !e)); } } }
