// default_134
#![allow(dead_code, unused_variables, unused_mut, unused_imports, non_shorthand_field_patterns, clippy::all)]
use crate::support::*;
use educe::Educe;
use core::cmp::Ordering;
#[derive(Educe)]
#[educe(Default)]
pub struct T(u64, i128, #[educe(Default = 77)] i128, u16);
pub fn show(x: &T) -> String { #[allow(unused_variables)] match x { T(p0, p1, p2, p3) => format!("T({},{},{},{})", sv(p0), sv(p1), sv(p2), sv(p3)) } }
pub fn o_default() -> T { T(0u64, 0i128, 77i128, 0u16) }
pub fn run(out: &mut Out) { let g = <T as ::core::default::Default>::default(); let e = o_default(); out.check(show(&g) == show(&e), "default_134", "default", || format!("default() = {} expected {}", show(&g), show(&e))); }
