// eq_127
#![allow(dead_code, unused_variables, unused_mut, unused_imports, non_shorthand_field_patterns, clippy::all)]
use crate::support::*;
use educe::Educe;
use core::cmp::Ordering;
#[derive(Educe)]
#[educe(PartialEq)]
pub enum T { Unit(#[educe(PartialEq(method("m_eq")))] A<0>, A<1>, A<2>, A<0>), C(A<0>) }
pub fn values() -> Vec<T> { vec![T::Unit(A(0), A(7), A(0), A(0)), T::Unit(A(7), A(1), A(7), A(7)), T::Unit(A(7), A(0), A(7), A(7)), T::Unit(A(0), A(7), A(0), A(1)), T::Unit(A(7), A(1), A(0), A(0)), T::Unit(A(1), A(1), A(0), A(7)), T::Unit(A(7), A(0), A(7), A(0)), T::Unit(A(7), A(7), A(0), A(0)), T::Unit(A(1), A(0), A(1), A(7)), T::Unit(A(7), A(7), A(7), A(0)), T::Unit(A(0), A(1), A(0), A(1)), T::Unit(A(0), A(1), A(0), A(0)), T::Unit(A(0), A(7), A(7), A(1)), T::Unit(A(1), A(7), A(1), A(1)), T::Unit(A(0), A(0), A(1), A(7)), T::Unit(A(7), A(0), A(1), A(1)), T::Unit(A(7), A(1), A(0), A(1)), T::Unit(A(7), A(7), A(7), A(7)), T::Unit(A(0), A(0), A(0), A(1)), T::Unit(A(0), A(1), A(1), A(7)), T::Unit(A(1), A(7), A(1), A(7)), T::Unit(A(1), A(7), A(7), A(0)), T::Unit(A(0), A(1), A(7), A(7)), T::Unit(A(7), A(1), A(1), A(7)), T::C(A(0)), T::C(A(1)), T::C(A(7))] }
pub fn show(x: &T) -> String { #[allow(unused_variables)] match x { T::Unit(p0, p1, p2, p3) => format!("Unit({},{},{},{})", sv(p0), sv(p1), sv(p2), sv(p3)), T::C(p0) => format!("C({})", sv(p0)) } }
pub fn o_eq(a: &T, b: &T) -> bool { match (a, b) { (T::Unit(a0, a1, a2, a3), T::Unit(b0, b1, b2, b3)) => m_eq(a0, b0) && (a1 == b1) && (a2 == b2) && (a3 == b3), (T::C(a0), T::C(b0)) => (a0 == b0), _ => false } }
pub fn run(out: &mut Out) { let vs = values(); for a in &vs { for b in &vs { let e = o_eq(a, b); out.check((a == b) == e, "eq_127", "eq", || format!("{} == {} expected {}", show(a), show(b), e)); out.check((a != b) == !e, "eq_127", "ne", || format!("{} != {} expected {}", show(a), show(b), !e)); } } }
