// ordlayout_28
#![allow(dead_code, unused_variables, unused_mut, unused_imports, non_shorthand_field_patterns, clippy::all)]
use crate::support::*;
use educe::Educe;
use core::cmp::Ordering;
#[derive(Educe)]
#[repr(isize)]
#[educe(Eq, PartialEq, PartialOrd, Ord)]
pub enum T { B(#[educe(PartialOrd(rank = 6i64))] bool) = 70000 }

pub fn values() -> Vec<T> { vec![T::B(false), T::B(true)] }
pub fn show(x: &T) -> String { #[allow(unused_variables)] match x { T::B(p0) => format!("B({})", sv(p0)) } }
pub fn o_disc(x: &T) -> i128 { match x { T::B(_) => 70000 } }
pub fn o_cmp(a: &T, b: &T) -> Ordering { match (a, b) { (T::B(a0), T::B(b0)) => { let c = ::core::cmp::Ord::cmp(a0, b0); if c != Ordering::Equal { return c; } Ordering::Equal } } }
#[repr(C)] pub struct Wrap { pub pre: u8, pub x: T, pub post: [u8; 9] }
pub fn wrap(i: usize, n: u8) -> Wrap { Wrap { pre: n, x: values().swap_remove(i), post: [n; 9] } }
pub fn run(out: &mut Out) { let vs = values(); for (i, a) in vs.iter().enumerate() { for (j, b) in vs.iter().enumerate() { let e = o_cmp(a, b); let g = ::core::cmp::Ord::cmp(a, b); out.check(g == e, "ordlayout_28", "cmp", || format!("cmp({}, {}) = {:?} expected {:?}", show(a), show(b), g, e)); let g2 = ::core::cmp::PartialOrd::partial_cmp(a, b); out.check(g2 == Some(e), "ordlayout_28", "partial_is_some_cmp", || format!("partial_cmp({}, {}) = {:?} expected Some({:?})", show(a), show(b), g2, e)); for n in [0u8, 1, 0x7f, 0x80, 0xff] { let wa = wrap(i, n); let wb = wrap(j, !n); let g = ::core::cmp::Ord::cmp(&wa.x, &wb.x); let e = o_cmp(a, b); out.check(g == e, "ordlayout_28", "cmp_neighbours", || format!("cmp({}, {}) with neighbour bytes {} = {:?} expected {:?}", show(a), show(b), n, g, e)); } } } }
