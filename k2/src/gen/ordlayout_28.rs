// ordlayout_28
#![allow(dead_code, unused_variables, unused_mut, unused_imports, non_shorthand_field_patterns, clippy::all)]
use crate::support::*;
use core::cmp::Ordering;
pub mod ty {
    #![deny(warnings)]
    #![allow(dead_code, unused_imports, non_snake_case)]
    use crate::support::{A, B, C, Good, Bad, m_eq, m_cmp, m_pcmp, m_hash, m_fmt, m_clone, m_clone_c, m_into, g_eq, g_cmp, g_pcmp, g_hash, g_fmt};
    use educe::Educe;
#[derive(Educe)]
#[repr(i32)]
#[educe(Debug)]
#[educe(Eq, PartialEq, Ord)]
pub enum T { C() = 1, Some { #[educe(Debug = false)] c: Option<u8>, a: ::core::num::NonZeroU8 } = 1000, A(#[educe(Ord(rank = -4))] i64, #[educe(Ord(rank("1")))] bool) = -5, B {  } = -1 }
}
pub use ty::T;
impl PartialOrd for T { fn partial_cmp(&self, o: &Self) -> Option<Ordering> { Some(::core::cmp::Ord::cmp(self, o)) } }
pub fn values() -> Vec<T> { vec![T::C(), T::Some { c: None, a: ::core::num::NonZeroU8::new(1).unwrap() }, T::Some { c: None, a: ::core::num::NonZeroU8::new(200).unwrap() }, T::Some { c: Some(0), a: ::core::num::NonZeroU8::new(1).unwrap() }, T::Some { c: Some(0), a: ::core::num::NonZeroU8::new(200).unwrap() }, T::Some { c: Some(255), a: ::core::num::NonZeroU8::new(1).unwrap() }, T::Some { c: Some(255), a: ::core::num::NonZeroU8::new(200).unwrap() }, T::A(-5, false), T::A(-5, true), T::A(0, false), T::A(0, true), T::A(9, false), T::A(9, true), T::B {  }] }
pub fn show(x: &T) -> String { #[allow(unused_variables)] match x { T::C() => format!("C()"), T::Some { c: p0, a: p1 } => format!("Some({},{})", sv(p0), sv(p1)), T::A(p0, p1) => format!("A({},{})", sv(p0), sv(p1)), T::B {  } => format!("B()") } }
pub fn o_disc(x: &T) -> i128 { match x { T::C() => 1, T::Some { c: _, a: _ } => 1000, T::A(_, _) => -5, T::B {  } => -1 } }
pub fn o_cmp(a: &T, b: &T) -> Ordering { match (a, b) { (T::C(), T::C()) => {  Ordering::Equal }, (T::Some { c: a0, a: a1 }, T::Some { c: b0, a: b1 }) => { let c = ::core::cmp::Ord::cmp(a0, b0); if c != Ordering::Equal { return c; } let c = ::core::cmp::Ord::cmp(a1, b1); if c != Ordering::Equal { return c; } Ordering::Equal }, (T::A(a0, a1), T::A(b0, b1)) => { let c = ::core::cmp::Ord::cmp(a0, b0); if c != Ordering::Equal { return c; } let c = ::core::cmp::Ord::cmp(a1, b1); if c != Ordering::Equal { return c; } Ordering::Equal }, (T::B {  }, T::B {  }) => {  Ordering::Equal }, _ => o_disc(a).cmp(&o_disc(b)) } }
#[repr(C)] pub struct Wrap { pub pre: u8, pub x: T, pub post: [u8; 9] }
pub fn wrap(i: usize, n: u8) -> Wrap { Wrap { pre: n, x: values().swap_remove(i), post: [n; 9] } }
pub fn run(out: &mut Out) { let vs = values(); for (i, a) in vs.iter().enumerate() { for (j, b) in vs.iter().enumerate() { let e = o_cmp(a, b); let g = ::core::cmp::Ord::cmp(a, b); out.check(g == e, "ordlayout_28", "cmp", || format!("cmp({}, {}) = {:?} expected {:?}", show(a), show(b), g, e)); for n in [0u8, 1, 0x7f, 0x80, 0xff] { let wa = wrap(i, n); let wb = wrap(j, !n); let g = ::core::cmp::Ord::cmp(&wa.x, &wb.x); let e = o_cmp(a, b); out.check(g == e, "ordlayout_28", "cmp_neighbours", || format!("cmp({}, {}) with neighbour bytes {} = {:?} expected {:?}", show(a), show(b), n, g, e)); } } } }
