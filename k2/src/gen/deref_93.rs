// deref_93
#![allow(dead_code, unused_variables, unused_mut, unused_imports, non_shorthand_field_patterns, clippy::all)]
use crate::support::*;
use educe::Educe;
use core::cmp::Ordering;
#[derive(Educe)]
#[educe(Deref)]
pub enum T { None { size: A<0> }, Zed(A<1>, A<1>, #[educe(Deref)] A<0>), A(A<0>, A<0>, #[educe(Deref)] A<0>, A<1>) }
pub fn values() -> Vec<T> { vec![T::None { size: A(0) }, T::None { size: A(1) }, T::None { size: A(7) }, T::Zed(A(0), A(1), A(0)), T::Zed(A(1), A(0), A(1)), T::Zed(A(1), A(0), A(0)), T::Zed(A(1), A(1), A(1)), T::Zed(A(1), A(0), A(7)), T::A(A(7), A(7), A(0), A(1)), T::A(A(1), A(0), A(1), A(7)), T::A(A(0), A(0), A(7), A(0)), T::A(A(1), A(0), A(7), A(1)), T::A(A(7), A(1), A(0), A(0))] }
pub fn show(x: &T) -> String { #[allow(unused_variables)] match x { T::None { size: p0 } => format!("None({})", sv(p0)), T::Zed(p0, p1, p2) => format!("Zed({},{},{})", sv(p0), sv(p1), sv(p2)), T::A(p0, p1, p2, p3) => format!("A({},{},{},{})", sv(p0), sv(p1), sv(p2), sv(p3)) } }
pub fn o_deref(x: &T) -> *const A<0> { match x { T::None { size: p0 } => p0 as *const A<0>, T::Zed(_, _, p2) => p2 as *const A<0>, T::A(_, _, p2, _) => p2 as *const A<0> } }
pub fn run(out: &mut Out) { let vs = values(); for a in &vs { let g = ::core::ops::Deref::deref(a) as *const A<0>; let e = o_deref(a); out.check(g == e, "deref_93", "deref", || format!("&*{} has another address than the designated field", show(a))); } }
