// into_114
#![allow(dead_code, unused_variables, unused_mut, unused_imports, non_shorthand_field_patterns, clippy::all)]
use crate::support::*;
use educe::Educe;
use core::cmp::Ordering;
#[derive(Educe)]
#[educe(Into(B<0>))]
#[educe(Into(B<2>))]
#[educe(Into(B<1>))]
pub struct T { #[educe(Into(B<1>))] _0: A<3>, #[educe(Into(B<0>))] #[educe(Into(B<2>))] b: A<2>, r#type: A<0> }
pub fn values() -> Vec<T> { vec![T { _0: A(7), b: A(7), r#type: A(7) }, T { _0: A(0), b: A(0), r#type: A(7) }, T { _0: A(7), b: A(7), r#type: A(1) }, T { _0: A(0), b: A(1), r#type: A(7) }, T { _0: A(7), b: A(1), r#type: A(0) }, T { _0: A(1), b: A(7), r#type: A(7) }, T { _0: A(1), b: A(0), r#type: A(0) }, T { _0: A(1), b: A(7), r#type: A(0) }, T { _0: A(1), b: A(1), r#type: A(7) }, T { _0: A(0), b: A(7), r#type: A(0) }, T { _0: A(1), b: A(0), r#type: A(7) }, T { _0: A(0), b: A(7), r#type: A(1) }] }
pub fn show(x: &T) -> String { #[allow(unused_variables)] match x { T { _0: p0, b: p1, r#type: p2 } => format!("T({},{},{})", sv(p0), sv(p1), sv(p2)) } }
pub fn o_into_0(x: T) -> B<0> { match x { T { _0: _, b: p1, r#type: _ } => ::core::convert::Into::into(p1) } }
pub fn o_into_1(x: T) -> B<2> { match x { T { _0: _, b: p1, r#type: _ } => ::core::convert::Into::into(p1) } }
pub fn o_into_2(x: T) -> B<1> { match x { T { _0: p0, b: _, r#type: _ } => ::core::convert::Into::into(p0) } }
pub fn run(out: &mut Out) { let n = values().len(); for i in 0..n { let a = values().swap_remove(i); let shown = show(&a); let g: B<0> = ::core::convert::Into::into(a); let e = o_into_0(values().swap_remove(i)); out.check(sv(&g) == sv(&e), "into_114", "into", || format!("Into::<B<0>>::into({}) = {} expected {}", shown, sv(&g), sv(&e))); } for i in 0..n { let a = values().swap_remove(i); let shown = show(&a); let g: B<2> = ::core::convert::Into::into(a); let e = o_into_1(values().swap_remove(i)); out.check(sv(&g) == sv(&e), "into_114", "into", || format!("Into::<B<2>>::into({}) = {} expected {}", shown, sv(&g), sv(&e))); } for i in 0..n { let a = values().swap_remove(i); let shown = show(&a); let g: B<1> = ::core::convert::Into::into(a); let e = o_into_2(values().swap_remove(i)); out.check(sv(&g) == sv(&e), "into_114", "into", || format!("Into::<B<1>>::into({}) = {} expected {}", shown, sv(&g), sv(&e))); } }
