// ordlayout_58
#![allow(dead_code, unused_variables, unused_mut, unused_imports, non_shorthand_field_patterns, clippy::all)]
use crate::support::*;
use core::cmp::Ordering;
pub mod ty {
    #![deny(warnings)]
    #![allow(dead_code, unused_imports, non_snake_case)]
    use crate::support::{A, B, C, Good, Bad, m_eq, m_cmp, m_pcmp, m_hash, m_fmt, m_clone, m_clone_c, m_into, g_eq, g_cmp, g_pcmp, g_hash, g_fmt};
    use educe::Educe;
#[derive(Educe)]
#[repr(C)]
#[educe(Debug)]
#[educe(Ord, Eq, PartialEq, PartialOrd)]
pub enum T { None(#[educe(Debug(ignore = false), PartialOrd(rank("-6")))] char, #[educe(Debug(ignore), PartialOrd(rank = "-4"))] Option<u8>), Zed, C(#[educe(PartialOrd(ignore = false))] Option<u8>) }
}
pub use ty::T;

pub fn values() -> Vec<T> { vec![T::None('a', None), T::None('a', Some(0)), T::None('a', Some(255)), T::None('z', None), T::None('z', Some(0)), T::None('z', Some(255)), T::Zed, T::C(None), T::C(Some(0)), T::C(Some(255))] }
pub fn show(x: &T) -> String { #[allow(unused_variables)] match x { T::None(p0, p1) => format!("None({},{})", sv(p0), sv(p1)), T::Zed => format!("Zed()"), T::C(p0) => format!("C({})", sv(p0)) } }
pub fn o_disc(x: &T) -> i128 { match x { T::None(_, _) => 0, T::Zed => 1, T::C(_) => 2 } }
pub fn o_cmp(a: &T, b: &T) -> Ordering { match (a, b) { (T::None(a0, a1), T::None(b0, b1)) => { let c = ::core::cmp::Ord::cmp(a0, b0); if c != Ordering::Equal { return c; } let c = ::core::cmp::Ord::cmp(a1, b1); if c != Ordering::Equal { return c; } Ordering::Equal }, (T::Zed, T::Zed) => {  Ordering::Equal }, (T::C(a0), T::C(b0)) => { let c = ::core::cmp::Ord::cmp(a0, b0); if c != Ordering::Equal { return c; } Ordering::Equal }, _ => o_disc(a).cmp(&o_disc(b)) } }
#[repr(C)] pub struct Wrap { pub pre: u8, pub x: T, pub post: [u8; 9] }
pub fn wrap(i: usize, n: u8) -> Wrap { Wrap { pre: n, x: values().swap_remove(i), post: [n; 9] } }
pub fn run(out: &mut Out) { let vs = values(); for (i, a) in vs.iter().enumerate() { for (j, b) in vs.iter().enumerate() { let e = o_cmp(a, b); let g = ::core::cmp::Ord::cmp(a, b); out.check(g == e, "ordlayout_58", "cmp", || format!("cmp({}, {}) = {:?} expected {:?}", show(a), show(b), g, e)); let g2 = ::core::cmp::PartialOrd::partial_cmp(a, b); out.check(g2 == Some(e), "ordlayout_58", "partial_is_some_cmp", || format!("partial_cmp({}, {}) = {:?} expected Some({:?})", show(a), show(b), g2, e)); for n in [0u8, 1, 0x7f, 0x80, 0xff] { let wa = wrap(i, n); let wb = wrap(j, !n); let g = ::core::cmp::Ord::cmp(&wa.x, &wb.x); let e = o_cmp(a, b); out.check(g == e, "ordlayout_58", "cmp_neighbours", || format!("cmp({}, {}) with neighbour bytes {} = {:?} expected {:?}", show(a), show(b), n, g, e)); } } } }
