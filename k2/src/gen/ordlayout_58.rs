// ordlayout_58
#![allow(dead_code, unused_variables, unused_mut, unused_imports, non_shorthand_field_patterns, clippy::all)]
use crate::support::*;
use educe::Educe;
use core::cmp::Ordering;
#[derive(Educe)]
#[repr(i8)]
#[educe(PartialOrd, Eq, PartialEq)]
pub enum T { Zed {  }, Some(#[educe(PartialOrd(rank("-2")))] u8, Option<u8>), C(#[educe(PartialOrd(rank = 7))] bool, #[educe(PartialOrd(rank(5)))] char), A(#[educe(PartialOrd(rank = 0x0))] char, Option<u8>) }

pub fn values() -> Vec<T> { vec![T::Zed {  }, T::Some(0, None), T::Some(0, Some(0)), T::Some(0, Some(255)), T::Some(100, None), T::Some(100, Some(0)), T::Some(100, Some(255)), T::Some(200, None), T::Some(200, Some(0)), T::Some(200, Some(255)), T::C(false, 'a'), T::C(false, 'z'), T::C(true, 'a'), T::C(true, 'z'), T::A('a', None), T::A('a', Some(0)), T::A('a', Some(255)), T::A('z', None), T::A('z', Some(0)), T::A('z', Some(255))] }
pub fn show(x: &T) -> String { #[allow(unused_variables)] match x { T::Zed {  } => format!("Zed()"), T::Some(p0, p1) => format!("Some({},{})", sv(p0), sv(p1)), T::C(p0, p1) => format!("C({},{})", sv(p0), sv(p1)), T::A(p0, p1) => format!("A({},{})", sv(p0), sv(p1)) } }
pub fn o_disc(x: &T) -> i128 { match x { T::Zed {  } => 0, T::Some(_, _) => 1, T::C(_, _) => 2, T::A(_, _) => 3 } }
pub fn o_pcmp(a: &T, b: &T) -> Option<Ordering> { match (a, b) { (T::Zed {  }, T::Zed {  }) => {  Some(Ordering::Equal) }, (T::Some(a0, a1), T::Some(b0, b1)) => { match ::core::cmp::PartialOrd::partial_cmp(a1, b1) { Some(Ordering::Equal) => (), x => return x } match ::core::cmp::PartialOrd::partial_cmp(a0, b0) { Some(Ordering::Equal) => (), x => return x } Some(Ordering::Equal) }, (T::C(a0, a1), T::C(b0, b1)) => { match ::core::cmp::PartialOrd::partial_cmp(a1, b1) { Some(Ordering::Equal) => (), x => return x } match ::core::cmp::PartialOrd::partial_cmp(a0, b0) { Some(Ordering::Equal) => (), x => return x } Some(Ordering::Equal) }, (T::A(a0, a1), T::A(b0, b1)) => { match ::core::cmp::PartialOrd::partial_cmp(a1, b1) { Some(Ordering::Equal) => (), x => return x } match ::core::cmp::PartialOrd::partial_cmp(a0, b0) { Some(Ordering::Equal) => (), x => return x } Some(Ordering::Equal) }, _ => Some(o_disc(a).cmp(&o_disc(b))) } }
#[repr(C)] pub struct Wrap { pub pre: u8, pub x: T, pub post: [u8; 9] }
pub fn wrap(i: usize, n: u8) -> Wrap { Wrap { pre: n, x: values().swap_remove(i), post: [n; 9] } }
pub fn run(out: &mut Out) { let vs = values(); for (i, a) in vs.iter().enumerate() { for (j, b) in vs.iter().enumerate() { let e = o_pcmp(a, b); let g = ::core::cmp::PartialOrd::partial_cmp(a, b); out.check(g == e, "ordlayout_58", "partial_cmp", || format!("partial_cmp({}, {}) = {:?} expected {:?}", show(a), show(b), g, e)); for n in [0u8, 1, 0x7f, 0x80, 0xff] { let wa = wrap(i, n); let wb = wrap(j, !n); let g = ::core::cmp::PartialOrd::partial_cmp(&wa.x, &wb.x); let e = o_pcmp(a, b); out.check(g == e, "ordlayout_58", "cmp_neighbours", || format!("cmp({}, {}) with neighbour bytes {} = {:?} expected {:?}", show(a), show(b), n, g, e)); } } } }
