// eq_4
#![allow(dead_code, unused_variables, unused_mut, unused_imports, non_shorthand_field_patterns, clippy::all)]
use crate::support::*;
use educe::Educe;
use core::cmp::Ordering;
#[derive(Educe)]
#[educe(PartialEq)]
pub struct T { #[educe(PartialEq(method = m_eq))] y: A<0> }
pub fn values() -> Vec<T> { vec![T { y: A(0) }, T { y: A(1) }, T { y: A(7) }] }
pub fn show(x: &T) -> String { #[allow(unused_variables)] match x { T { y: p0 } => format!("T({})", sv(p0)) } }
pub fn o_eq(a: &T, b: &T) -> bool { match (a, b) { (T { y: a0 }, T { y: b0 }) => m_eq(a0, b0) } }
pub fn run(out: &mut Out) { let vs = values(); for a in &vs { for b in &vs { let e = o_eq(a, b); out.check((a == b) == e, "eq_4", "eq", || format!("{} == {} expected {}", show(a), show(b), e)); out.check((a != b) == !e, "eq_4", "ne", || format!("{} != {} expected {}", show(a), show(b), !e)); } } }
