// ord_39
#![allow(dead_code, unused_variables, unused_mut, unused_imports, non_shorthand_field_patterns, clippy::all)]
use crate::support::*;
use educe::Educe;
use core::cmp::Ordering;
#[derive(Educe)]
#[repr(isize)]
#[educe(Eq, PartialEq, PartialOrd)]
pub enum T { None(#[educe(PartialOrd(rank(7)))] A<0>, A<1>, #[educe(PartialOrd(method(m_pcmp)))] A<2>) = -170, C { #[educe(PartialOrd(rank = 5i64))] r#type: A<0>, #[educe(PartialOrd = false)] f: A<1> } }

pub fn values() -> Vec<T> { vec![T::None(A(1), A(0), A(0)), T::None(A(1), A(1), A(7)), T::None(A(0), A(7), A(0)), T::None(A(1), A(7), A(0)), T::None(A(7), A(1), A(0)), T::None(A(7), A(0), A(0)), T::None(A(7), A(1), A(7)), T::None(A(7), A(0), A(7)), T::None(A(7), A(0), A(1)), T::None(A(1), A(7), A(1)), T::None(A(7), A(7), A(0)), T::None(A(0), A(1), A(0)), T::None(A(0), A(0), A(7)), T::None(A(1), A(0), A(7)), T::None(A(0), A(0), A(1)), T::None(A(7), A(7), A(7)), T::None(A(0), A(7), A(1)), T::None(A(1), A(0), A(1)), T::C { r#type: A(0), f: A(0) }, T::C { r#type: A(0), f: A(1) }, T::C { r#type: A(0), f: A(7) }, T::C { r#type: A(1), f: A(0) }, T::C { r#type: A(1), f: A(1) }, T::C { r#type: A(1), f: A(7) }, T::C { r#type: A(7), f: A(0) }, T::C { r#type: A(7), f: A(1) }, T::C { r#type: A(7), f: A(7) }] }
pub fn show(x: &T) -> String { #[allow(unused_variables)] match x { T::None(p0, p1, p2) => format!("None({},{},{})", sv(p0), sv(p1), sv(p2)), T::C { r#type: p0, f: p1 } => format!("C({},{})", sv(p0), sv(p1)) } }
pub fn o_disc(x: &T) -> i128 { match x { T::None(_, _, _) => -170, T::C { r#type: _, f: _ } => -169 } }
pub fn o_pcmp(a: &T, b: &T) -> Option<Ordering> { match (a, b) { (T::None(a0, a1, a2), T::None(b0, b1, b2)) => { match ::core::cmp::PartialOrd::partial_cmp(a1, b1) { Some(Ordering::Equal) => (), x => return x } match m_pcmp(a2, b2) { Some(Ordering::Equal) => (), x => return x } match ::core::cmp::PartialOrd::partial_cmp(a0, b0) { Some(Ordering::Equal) => (), x => return x } Some(Ordering::Equal) }, (T::C { r#type: a0, f: a1 }, T::C { r#type: b0, f: b1 }) => { match ::core::cmp::PartialOrd::partial_cmp(a0, b0) { Some(Ordering::Equal) => (), x => return x } Some(Ordering::Equal) }, _ => Some(o_disc(a).cmp(&o_disc(b))) } }
pub fn run(out: &mut Out) { let vs = values(); for (i, a) in vs.iter().enumerate() { for (j, b) in vs.iter().enumerate() { let e = o_pcmp(a, b); let g = ::core::cmp::PartialOrd::partial_cmp(a, b); out.check(g == e, "ord_39", "partial_cmp", || format!("partial_cmp({}, {}) = {:?} expected {:?}", show(a), show(b), g, e)); } } }
