// ord_39
#![allow(dead_code, unused_variables, unused_mut, unused_imports, non_shorthand_field_patterns, clippy::all)]
use crate::support::*;
use core::cmp::Ordering;
pub mod ty {
    #![deny(warnings)]
    #![allow(dead_code, unused_imports, non_snake_case)]
    use crate::support::{A, B, C, Good, Bad, m_eq, m_cmp, m_pcmp, m_hash, m_fmt, m_clone, m_clone_c, m_into, g_eq, g_cmp, g_pcmp, g_hash, g_fmt};
    use educe::Educe;
#[derive(Educe)]
#[educe(PartialEq, Eq, PartialOrd, Ord)]
#[educe(Debug)]
pub struct T { #[educe(Ord(ignore = false), Debug(ignore = false))] pub c: A<0>, #[educe(Ord(method = "m_cmp"))] pub size: A<1>, #[educe(Ord(ignore = true), Debug = false)] pub other_data: A<2>, #[educe(Ord(rank("-3")))] pub a: A<3> }
}
pub use ty::T;

pub fn values() -> Vec<T> { vec![T { c: A(1), size: A(0), other_data: A(0), a: A(0) }, T { c: A(7), size: A(0), other_data: A(7), a: A(0) }, T { c: A(7), size: A(7), other_data: A(0), a: A(0) }, T { c: A(1), size: A(0), other_data: A(1), a: A(0) }, T { c: A(7), size: A(1), other_data: A(1), a: A(0) }, T { c: A(1), size: A(1), other_data: A(1), a: A(1) }, T { c: A(1), size: A(1), other_data: A(1), a: A(7) }, T { c: A(0), size: A(0), other_data: A(1), a: A(1) }, T { c: A(0), size: A(1), other_data: A(0), a: A(1) }, T { c: A(0), size: A(7), other_data: A(1), a: A(7) }, T { c: A(1), size: A(7), other_data: A(1), a: A(0) }, T { c: A(0), size: A(7), other_data: A(1), a: A(0) }, T { c: A(1), size: A(7), other_data: A(0), a: A(1) }, T { c: A(1), size: A(0), other_data: A(7), a: A(1) }, T { c: A(0), size: A(7), other_data: A(7), a: A(1) }, T { c: A(1), size: A(1), other_data: A(7), a: A(7) }, T { c: A(0), size: A(7), other_data: A(7), a: A(0) }, T { c: A(1), size: A(7), other_data: A(7), a: A(7) }, T { c: A(7), size: A(1), other_data: A(0), a: A(7) }, T { c: A(7), size: A(0), other_data: A(0), a: A(1) }, T { c: A(0), size: A(0), other_data: A(0), a: A(0) }, T { c: A(7), size: A(1), other_data: A(7), a: A(7) }, T { c: A(1), size: A(0), other_data: A(7), a: A(7) }, T { c: A(7), size: A(7), other_data: A(1), a: A(7) }, T { c: A(1), size: A(7), other_data: A(1), a: A(7) }, T { c: A(1), size: A(1), other_data: A(7), a: A(1) }, T { c: A(1), size: A(1), other_data: A(0), a: A(0) }, T { c: A(0), size: A(1), other_data: A(7), a: A(0) }, T { c: A(0), size: A(0), other_data: A(7), a: A(7) }, T { c: A(0), size: A(7), other_data: A(0), a: A(1) }, T { c: A(7), size: A(0), other_data: A(1), a: A(7) }, T { c: A(0), size: A(0), other_data: A(0), a: A(7) }, T { c: A(1), size: A(1), other_data: A(0), a: A(7) }, T { c: A(0), size: A(1), other_data: A(0), a: A(7) }, T { c: A(7), size: A(0), other_data: A(1), a: A(0) }, T { c: A(0), size: A(7), other_data: A(7), a: A(7) }] }
pub fn show(x: &T) -> String { #[allow(unused_variables)] match x { T { c: p0, size: p1, other_data: p2, a: p3 } => format!("T({},{},{},{})", sv(p0), sv(p1), sv(p2), sv(p3)) } }
pub fn o_disc(x: &T) -> i128 { match x { T { c: _, size: _, other_data: _, a: _ } => 0 } }
pub fn o_cmp(a: &T, b: &T) -> Ordering { match (a, b) { (T { c: a0, size: a1, other_data: a2, a: a3 }, T { c: b0, size: b1, other_data: b2, a: b3 }) => { let c = ::core::cmp::Ord::cmp(a0, b0); if c != Ordering::Equal { return c; } let c = m_cmp(a1, b1); if c != Ordering::Equal { return c; } let c = ::core::cmp::Ord::cmp(a3, b3); if c != Ordering::Equal { return c; } Ordering::Equal } } }
pub fn run(out: &mut Out) { let vs = values(); for (i, a) in vs.iter().enumerate() { for (j, b) in vs.iter().enumerate() { let e = o_cmp(a, b); let g = ::core::cmp::Ord::cmp(a, b); out.check(g == e, "ord_39", "cmp", || format!("cmp({}, {}) = {:?} expected {:?}", show(a), show(b), g, e)); let g2 = ::core::cmp::PartialOrd::partial_cmp(a, b); out.check(g2 == Some(e), "ord_39", "partial_is_some_cmp", || format!("partial_cmp({}, {}) = {:?} expected Some({:?})", show(a), show(b), g2, e)); } } }
