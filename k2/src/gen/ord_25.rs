// ord_25
#![allow(dead_code, unused_variables, unused_mut, unused_imports, non_shorthand_field_patterns, clippy::all)]
use crate::support::*;
use educe::Educe;
use core::cmp::Ordering;
#[derive(Educe)]
#[educe(PartialOrd, Ord, PartialEq, Eq)]
pub struct T { b: A<0>, #[educe(Ord(rank = "3", method = m_cmp))] data: A<0>, #[educe(Ord(rank = 0x1, method(m_cmp)))] r#type: A<0> }

pub fn values() -> Vec<T> { vec![T { b: A(0), data: A(0), r#type: A(0) }, T { b: A(0), data: A(0), r#type: A(1) }, T { b: A(0), data: A(0), r#type: A(7) }, T { b: A(0), data: A(1), r#type: A(0) }, T { b: A(0), data: A(1), r#type: A(1) }, T { b: A(0), data: A(1), r#type: A(7) }, T { b: A(0), data: A(7), r#type: A(0) }, T { b: A(0), data: A(7), r#type: A(1) }, T { b: A(0), data: A(7), r#type: A(7) }, T { b: A(1), data: A(0), r#type: A(0) }, T { b: A(1), data: A(0), r#type: A(1) }, T { b: A(1), data: A(0), r#type: A(7) }, T { b: A(1), data: A(1), r#type: A(0) }, T { b: A(1), data: A(1), r#type: A(1) }, T { b: A(1), data: A(1), r#type: A(7) }, T { b: A(1), data: A(7), r#type: A(0) }, T { b: A(1), data: A(7), r#type: A(1) }, T { b: A(1), data: A(7), r#type: A(7) }, T { b: A(7), data: A(0), r#type: A(0) }, T { b: A(7), data: A(0), r#type: A(1) }, T { b: A(7), data: A(0), r#type: A(7) }, T { b: A(7), data: A(1), r#type: A(0) }, T { b: A(7), data: A(1), r#type: A(1) }, T { b: A(7), data: A(1), r#type: A(7) }, T { b: A(7), data: A(7), r#type: A(0) }, T { b: A(7), data: A(7), r#type: A(1) }, T { b: A(7), data: A(7), r#type: A(7) }] }
pub fn show(x: &T) -> String { #[allow(unused_variables)] match x { T { b: p0, data: p1, r#type: p2 } => format!("T({},{},{})", sv(p0), sv(p1), sv(p2)) } }
pub fn o_disc(x: &T) -> i128 { match x { T { b: _, data: _, r#type: _ } => 0 } }
pub fn o_cmp(a: &T, b: &T) -> Ordering { match (a, b) { (T { b: a0, data: a1, r#type: a2 }, T { b: b0, data: b1, r#type: b2 }) => { let c = ::core::cmp::Ord::cmp(a0, b0); if c != Ordering::Equal { return c; } let c = m_cmp(a2, b2); if c != Ordering::Equal { return c; } let c = m_cmp(a1, b1); if c != Ordering::Equal { return c; } Ordering::Equal } } }
pub fn run(out: &mut Out) { let vs = values(); for (i, a) in vs.iter().enumerate() { for (j, b) in vs.iter().enumerate() { let e = o_cmp(a, b); let g = ::core::cmp::Ord::cmp(a, b); out.check(g == e, "ord_25", "cmp", || format!("cmp({}, {}) = {:?} expected {:?}", show(a), show(b), g, e)); let g2 = ::core::cmp::PartialOrd::partial_cmp(a, b); out.check(g2 == Some(e), "ord_25", "partial_is_some_cmp", || format!("partial_cmp({}, {}) = {:?} expected Some({:?})", show(a), show(b), g2, e)); } } }
