// ord_25
#![allow(dead_code, unused_variables, unused_mut, unused_imports, non_shorthand_field_patterns, clippy::all)]
use crate::support::*;
use core::cmp::Ordering;
pub mod ty {
    #![deny(warnings)]
    #![allow(dead_code, unused_imports, non_snake_case)]
    use crate::support::{A, B, C, Good, Bad, m_eq, m_cmp, m_pcmp, m_hash, m_fmt, m_clone, m_clone_c, m_into, g_eq, g_cmp, g_pcmp, g_hash, g_fmt};
    use educe::Educe;
#[derive(Educe)]
#[repr(u64)]
#[educe(Eq, Ord, PartialEq)]
#[educe(Debug)]
pub enum T { B { #[educe(Ord(rank("-3"), ignore(false)), Debug(ignore))] size: A<0>, _y: A<0>, #[educe(Ord(method = "m_cmp"))] y: A<2>, #[educe(Ord(method = m_cmp, rank = 0x3))] source: A<3> }, Zed(#[educe(Ord(method(m_cmp), rank(2)))] A<0>, #[educe(Ord = false)] A<1>), A, None {  } }
}
pub use ty::T;
impl PartialOrd for T { fn partial_cmp(&self, o: &Self) -> Option<Ordering> { Some(::core::cmp::Ord::cmp(self, o)) } }
pub fn values() -> Vec<T> { vec![T::B { size: A(1), _y: A(1), y: A(7), source: A(1) }, T::B { size: A(0), _y: A(0), y: A(1), source: A(1) }, T::B { size: A(0), _y: A(0), y: A(0), source: A(1) }, T::B { size: A(7), _y: A(0), y: A(0), source: A(7) }, T::B { size: A(1), _y: A(1), y: A(0), source: A(0) }, T::B { size: A(0), _y: A(7), y: A(7), source: A(7) }, T::B { size: A(7), _y: A(1), y: A(0), source: A(1) }, T::B { size: A(0), _y: A(1), y: A(7), source: A(0) }, T::B { size: A(7), _y: A(7), y: A(1), source: A(1) }, T::Zed(A(0), A(0)), T::Zed(A(0), A(1)), T::Zed(A(0), A(7)), T::Zed(A(1), A(0)), T::Zed(A(1), A(1)), T::Zed(A(1), A(7)), T::Zed(A(7), A(0)), T::Zed(A(7), A(1)), T::Zed(A(7), A(7)), T::A, T::None {  }] }
pub fn show(x: &T) -> String { #[allow(unused_variables)] match x { T::B { size: p0, _y: p1, y: p2, source: p3 } => format!("B({},{},{},{})", sv(p0), sv(p1), sv(p2), sv(p3)), T::Zed(p0, p1) => format!("Zed({},{})", sv(p0), sv(p1)), T::A => format!("A()"), T::None {  } => format!("None()") } }
pub fn o_disc(x: &T) -> i128 { match x { T::B { size: _, _y: _, y: _, source: _ } => 0, T::Zed(_, _) => 1, T::A => 2, T::None {  } => 3 } }
pub fn o_cmp(a: &T, b: &T) -> Ordering { match (a, b) { (T::B { size: a0, _y: a1, y: a2, source: a3 }, T::B { size: b0, _y: b1, y: b2, source: b3 }) => { let c = ::core::cmp::Ord::cmp(a1, b1); if c != Ordering::Equal { return c; } let c = m_cmp(a2, b2); if c != Ordering::Equal { return c; } let c = ::core::cmp::Ord::cmp(a0, b0); if c != Ordering::Equal { return c; } let c = m_cmp(a3, b3); if c != Ordering::Equal { return c; } Ordering::Equal }, (T::Zed(a0, a1), T::Zed(b0, b1)) => { let c = m_cmp(a0, b0); if c != Ordering::Equal { return c; } Ordering::Equal }, (T::A, T::A) => {  Ordering::Equal }, (T::None {  }, T::None {  }) => {  Ordering::Equal }, _ => o_disc(a).cmp(&o_disc(b)) } }
pub fn run(out: &mut Out) { let vs = values(); for (i, a) in vs.iter().enumerate() { for (j, b) in vs.iter().enumerate() { let e = o_cmp(a, b); let g = ::core::cmp::Ord::cmp(a, b); out.check(g == e, "ord_25", "cmp", || format!("cmp({}, {}) = {:?} expected {:?}", show(a), show(b), g, e)); } } }
