// into_113
#![allow(dead_code, unused_variables, unused_mut, unused_imports, non_shorthand_field_patterns, clippy::all)]
use crate::support::*;
use educe::Educe;
use core::cmp::Ordering;
#[derive(Educe)]
#[educe(Into(A<1>))]
pub struct T { a: A<3>, f: A<3>, y: A<1> }
pub fn values() -> Vec<T> { vec![T { a: A(0), f: A(0), y: A(1) }, T { a: A(0), f: A(1), y: A(1) }, T { a: A(1), f: A(0), y: A(7) }, T { a: A(7), f: A(1), y: A(1) }, T { a: A(1), f: A(1), y: A(0) }, T { a: A(7), f: A(1), y: A(7) }, T { a: A(1), f: A(1), y: A(1) }, T { a: A(7), f: A(0), y: A(7) }, T { a: A(0), f: A(1), y: A(0) }, T { a: A(0), f: A(7), y: A(0) }, T { a: A(7), f: A(1), y: A(0) }, T { a: A(7), f: A(0), y: A(0) }] }
pub fn show(x: &T) -> String { #[allow(unused_variables)] match x { T { a: p0, f: p1, y: p2 } => format!("T({},{},{})", sv(p0), sv(p1), sv(p2)) } }
pub fn o_into_0(x: T) -> A<1> { match x { T { a: _, f: _, y: p2 } => p2 } }
pub fn run(out: &mut Out) { let n = values().len(); for i in 0..n { let a = values().swap_remove(i); let shown = show(&a); let g: A<1> = ::core::convert::Into::into(a); let e = o_into_0(values().swap_remove(i)); out.check(sv(&g) == sv(&e), "into_113", "into", || format!("Into::<A<1>>::into({}) = {} expected {}", shown, sv(&g), sv(&e))); } }
