// debug_148
#![allow(dead_code, unused_variables, unused_mut, unused_imports, non_shorthand_field_patterns, clippy::all)]
use crate::support::*;
use educe::Educe;
use core::cmp::Ordering;
#[derive(Educe)]
#[educe(Debug(name("Zz")))]
pub enum T { #[educe(Debug(name = ""))] None(A<0>, #[educe(Debug(method = "m_fmt"))] A<1>, #[educe(Debug(ignore = true))] A<0>), A { #[educe(Debug(method(m_fmt)))] builder: A<0> }, #[educe(Debug = Ren)] V1(A<0>, A<1>, A<0>, A<3>), C }
pub fn values() -> Vec<T> { vec![T::None(A(7), A(1), A(1)), T::None(A(1), A(0), A(7)), T::None(A(1), A(7), A(0)), T::None(A(0), A(7), A(1)), T::None(A(7), A(7), A(0)), T::None(A(7), A(0), A(0)), T::A { builder: A(0) }, T::A { builder: A(1) }, T::A { builder: A(7) }, T::V1(A(1), A(1), A(1), A(7)), T::V1(A(7), A(0), A(7), A(7)), T::V1(A(1), A(0), A(0), A(0)), T::V1(A(1), A(7), A(1), A(1)), T::V1(A(0), A(7), A(7), A(0)), T::V1(A(7), A(7), A(0), A(0)), T::C] }
pub fn show(x: &T) -> String { #[allow(unused_variables)] match x { T::None(p0, p1, p2) => format!("None({},{},{})", sv(p0), sv(p1), sv(p2)), T::A { builder: p0 } => format!("A({})", sv(p0)), T::V1(p0, p1, p2, p3) => format!("V1({},{},{},{})", sv(p0), sv(p1), sv(p2), sv(p3)), T::C => format!("C()") } }
pub fn o_fmt(x: &T, f: &mut ::core::fmt::Formatter<'_>) -> ::core::fmt::Result { match x { T::None(p0, p1, p2) => f.debug_tuple("Zz").field(p0).field(&Wm(p1)).finish(), T::A { builder: p0 } => f.debug_struct("Zz::A").field("builder", &Wm(p0)).finish(), T::V1(p0, p1, p2, p3) => f.debug_tuple("Zz::Ren").field(p0).field(p1).field(p2).field(p3).finish(), T::C => f.write_str("Zz::C") } }

pub fn run(out: &mut Out) { let vs = values(); for a in &vs { let g = format!("{:?}", a); let e = format!("{:?}", Fm(|f: &mut ::core::fmt::Formatter<'_>| o_fmt(a, f))); out.check(g == e, "debug_148", "debug", || format!("{{:?}} of {} = {:?} expected {:?}", show(a), g, e)); let g = format!("{:#?}", a); let e = format!("{:#?}", Fm(|f: &mut ::core::fmt::Formatter<'_>| o_fmt(a, f))); out.check(g == e, "debug_148", "debug_alt", || format!("{{:#?}} of {} = {:?} expected {:?}", show(a), g, e)); let g = format!("{:8?}", a); let e = format!("{:8?}", Fm(|f: &mut ::core::fmt::Formatter<'_>| o_fmt(a, f))); out.check(g == e, "debug_148", "debug_width", || format!("{{:8?}} of {} = {:?} expected {:?}", show(a), g, e)); }  }
