// debug_146
#![allow(dead_code, unused_variables, unused_mut, unused_imports, non_shorthand_field_patterns, clippy::all)]
use crate::support::*;
use educe::Educe;
use core::cmp::Ordering;
#[derive(Educe)]
#[educe(Debug(name = true))]
pub enum T { None(A<0>), #[educe(Debug(named_field = true))] C(A<0>, A<0>), #[educe(Debug(name = false))] B }
pub fn values() -> Vec<T> { vec![T::None(A(0)), T::None(A(1)), T::None(A(7)), T::C(A(7), A(7)), T::C(A(0), A(0)), T::C(A(0), A(7)), T::C(A(1), A(0)), T::C(A(7), A(0)), T::C(A(0), A(1)), T::C(A(7), A(1)), T::C(A(1), A(1)), T::B] }
pub fn show(x: &T) -> String { #[allow(unused_variables)] match x { T::None(p0) => format!("None({})", sv(p0)), T::C(p0, p1) => format!("C({},{})", sv(p0), sv(p1)), T::B => format!("B()") } }
pub fn o_fmt(x: &T, f: &mut ::core::fmt::Formatter<'_>) -> ::core::fmt::Result { match x { T::None(p0) => f.debug_tuple("T::None").field(p0).finish(), T::C(p0, p1) => f.debug_struct("T::C").field("_0", p0).field("_1", p1).finish(), T::B => f.write_str("T") } }

pub fn run(out: &mut Out) { let vs = values(); for a in &vs { let g = format!("{:?}", a); let e = format!("{:?}", Fm(|f: &mut ::core::fmt::Formatter<'_>| o_fmt(a, f))); out.check(g == e, "debug_146", "debug", || format!("{{:?}} of {} = {:?} expected {:?}", show(a), g, e)); let g = format!("{:#?}", a); let e = format!("{:#?}", Fm(|f: &mut ::core::fmt::Formatter<'_>| o_fmt(a, f))); out.check(g == e, "debug_146", "debug_alt", || format!("{{:#?}} of {} = {:?} expected {:?}", show(a), g, e)); let g = format!("{:8?}", a); let e = format!("{:8?}", Fm(|f: &mut ::core::fmt::Formatter<'_>| o_fmt(a, f))); out.check(g == e, "debug_146", "debug_width", || format!("{{:8?}} of {} = {:?} expected {:?}", show(a), g, e)); }  }
