// ord_88
#![allow(dead_code, unused_variables, unused_mut, unused_imports, non_shorthand_field_patterns, clippy::all)]
use crate::support::*;
use educe::Educe;
use core::cmp::Ordering;
#[derive(Educe)]
#[repr(i64)]
#[educe(Ord, Eq, PartialEq)]
pub enum T { B, V1(A<0>, #[educe(Ord(rank = "+0"))] A<0>), Zed = 100, A }
impl PartialOrd for T { fn partial_cmp(&self, o: &Self) -> Option<Ordering> { Some(::core::cmp::Ord::cmp(self, o)) } }
pub fn values() -> Vec<T> { vec![T::B, T::V1(A(0), A(0)), T::V1(A(0), A(1)), T::V1(A(0), A(7)), T::V1(A(1), A(0)), T::V1(A(1), A(1)), T::V1(A(1), A(7)), T::V1(A(7), A(0)), T::V1(A(7), A(1)), T::V1(A(7), A(7)), T::Zed, T::A] }
pub fn show(x: &T) -> String { #[allow(unused_variables)] match x { T::B => format!("B()"), T::V1(p0, p1) => format!("V1({},{})", sv(p0), sv(p1)), T::Zed => format!("Zed()"), T::A => format!("A()") } }
pub fn o_disc(x: &T) -> i128 { match x { T::B => 0, T::V1(_, _) => 1, T::Zed => 100, T::A => 101 } }
pub fn o_cmp(a: &T, b: &T) -> Ordering { match (a, b) { (T::B, T::B) => {  Ordering::Equal }, (T::V1(a0, a1), T::V1(b0, b1)) => { let c = ::core::cmp::Ord::cmp(a0, b0); if c != Ordering::Equal { return c; } let c = ::core::cmp::Ord::cmp(a1, b1); if c != Ordering::Equal { return c; } Ordering::Equal }, (T::Zed, T::Zed) => {  Ordering::Equal }, (T::A, T::A) => {  Ordering::Equal }, _ => o_disc(a).cmp(&o_disc(b)) } }
pub fn run(out: &mut Out) { let vs = values(); for (i, a) in vs.iter().enumerate() { for (j, b) in vs.iter().enumerate() { let e = o_cmp(a, b); let g = ::core::cmp::Ord::cmp(a, b); out.check(g == e, "ord_88", "cmp", || format!("cmp({}, {}) = {:?} expected {:?}", show(a), show(b), g, e)); } } }
