// ord_55
#![allow(dead_code, unused_variables, unused_mut, unused_imports, non_shorthand_field_patterns, clippy::all)]
use crate::support::*;
use educe::Educe;
use core::cmp::Ordering;
#[derive(Educe)]
#[educe(PartialOrd, PartialEq, Eq)]
pub enum T { V1, Some }

pub fn values() -> Vec<T> { vec![T::V1, T::Some] }
pub fn show(x: &T) -> String { #[allow(unused_variables)] match x { T::V1 => format!("V1()"), T::Some => format!("Some()") } }
pub fn o_disc(x: &T) -> i128 { match x { T::V1 => 0, T::Some => 1 } }
pub fn o_pcmp(a: &T, b: &T) -> Option<Ordering> { match (a, b) { (T::V1, T::V1) => {  Some(Ordering::Equal) }, (T::Some, T::Some) => {  Some(Ordering::Equal) }, _ => Some(o_disc(a).cmp(&o_disc(b))) } }
pub fn run(out: &mut Out) { let vs = values(); for (i, a) in vs.iter().enumerate() { for (j, b) in vs.iter().enumerate() { let e = o_pcmp(a, b); let g = ::core::cmp::PartialOrd::partial_cmp(a, b); out.check(g == e, "ord_55", "partial_cmp", || format!("partial_cmp({}, {}) = {:?} expected {:?}", show(a), show(b), g, e)); } } }
