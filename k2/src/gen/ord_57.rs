// ord_57
#![allow(dead_code, unused_variables, unused_mut, unused_imports, non_shorthand_field_patterns, clippy::all)]
use crate::support::*;
use educe::Educe;
use core::cmp::Ordering;
#[derive(Educe)]
#[educe(PartialOrd, Ord, PartialEq, Eq)]
pub struct T { #[educe(PartialOrd = false)] x: A<0>, #[educe(PartialOrd(method(m_cmp)))] source: A<1>, #[educe(PartialOrd(rank = -2, method = m_cmp))] r#type: A<0> }

pub fn values() -> Vec<T> { vec![T { x: A(0), source: A(0), r#type: A(0) }, T { x: A(0), source: A(0), r#type: A(1) }, T { x: A(0), source: A(0), r#type: A(7) }, T { x: A(0), source: A(1), r#type: A(0) }, T { x: A(0), source: A(1), r#type: A(1) }, T { x: A(0), source: A(1), r#type: A(7) }, T { x: A(0), source: A(7), r#type: A(0) }, T { x: A(0), source: A(7), r#type: A(1) }, T { x: A(0), source: A(7), r#type: A(7) }, T { x: A(1), source: A(0), r#type: A(0) }, T { x: A(1), source: A(0), r#type: A(1) }, T { x: A(1), source: A(0), r#type: A(7) }, T { x: A(1), source: A(1), r#type: A(0) }, T { x: A(1), source: A(1), r#type: A(1) }, T { x: A(1), source: A(1), r#type: A(7) }, T { x: A(1), source: A(7), r#type: A(0) }, T { x: A(1), source: A(7), r#type: A(1) }, T { x: A(1), source: A(7), r#type: A(7) }, T { x: A(7), source: A(0), r#type: A(0) }, T { x: A(7), source: A(0), r#type: A(1) }, T { x: A(7), source: A(0), r#type: A(7) }, T { x: A(7), source: A(1), r#type: A(0) }, T { x: A(7), source: A(1), r#type: A(1) }, T { x: A(7), source: A(1), r#type: A(7) }, T { x: A(7), source: A(7), r#type: A(0) }, T { x: A(7), source: A(7), r#type: A(1) }, T { x: A(7), source: A(7), r#type: A(7) }] }
pub fn show(x: &T) -> String { #[allow(unused_variables)] match x { T { x: p0, source: p1, r#type: p2 } => format!("T({},{},{})", sv(p0), sv(p1), sv(p2)) } }
pub fn o_disc(x: &T) -> i128 { match x { T { x: _, source: _, r#type: _ } => 0 } }
pub fn o_cmp(a: &T, b: &T) -> Ordering { match (a, b) { (T { x: a0, source: a1, r#type: a2 }, T { x: b0, source: b1, r#type: b2 }) => { let c = m_cmp(a1, b1); if c != Ordering::Equal { return c; } let c = m_cmp(a2, b2); if c != Ordering::Equal { return c; } Ordering::Equal } } }
pub fn run(out: &mut Out) { let vs = values(); for (i, a) in vs.iter().enumerate() { for (j, b) in vs.iter().enumerate() { let e = o_cmp(a, b); let g = ::core::cmp::Ord::cmp(a, b); out.check(g == e, "ord_57", "cmp", || format!("cmp({}, {}) = {:?} expected {:?}", show(a), show(b), g, e)); let g2 = ::core::cmp::PartialOrd::partial_cmp(a, b); out.check(g2 == Some(e), "ord_57", "partial_is_some_cmp", || format!("partial_cmp({}, {}) = {:?} expected Some({:?})", show(a), show(b), g2, e)); } } }
