// deref_111
#![allow(dead_code, unused_variables, unused_mut, unused_imports, non_shorthand_field_patterns, clippy::all)]
use crate::support::*;
use educe::Educe;
use core::cmp::Ordering;
#[derive(Educe)]
#[educe(Deref)]
pub struct T { #[educe(Deref)] data: A<2>, c: A<1> }
pub fn values() -> Vec<T> { vec![T { data: A(0), c: A(0) }, T { data: A(0), c: A(1) }, T { data: A(0), c: A(7) }, T { data: A(1), c: A(0) }, T { data: A(1), c: A(1) }, T { data: A(1), c: A(7) }, T { data: A(7), c: A(0) }, T { data: A(7), c: A(1) }, T { data: A(7), c: A(7) }] }
pub fn show(x: &T) -> String { #[allow(unused_variables)] match x { T { data: p0, c: p1 } => format!("T({},{})", sv(p0), sv(p1)) } }
pub fn o_deref(x: &T) -> *const A<2> { match x { T { data: p0, c: _ } => p0 as *const A<2> } }
pub fn run(out: &mut Out) { let vs = values(); for a in &vs { let g = ::core::ops::Deref::deref(a) as *const A<2>; let e = o_deref(a); out.check(g == e, "deref_111", "deref", || format!("&*{} has another address than the designated field", show(a))); } }
